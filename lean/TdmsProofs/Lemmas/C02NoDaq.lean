/-
  C02 — without DAQmx objects the model never raises `scalerTypesChanged`, so the whole-file
  refinement is exact.  Core Lean only.
-/
import TdmsProofs.Lemmas.C02File

namespace Tdms.Proofs.C02

open Tdms Tdms.Model Tdms.Generated

/-- no header carries DAQmx metadata -/
def HdrsNoDaq (hs : List (Bytes × Hdr)) : Prop := ∀ ph ∈ hs, ∀ o, ph.2 = .indexed o → o.daq = none

/-- no object the reader remembers carries DAQmx metadata -/
structure NoDaq (st : MState) : Prop where
  seg : ∀ l, st.prevSeg = some l → ∀ o ∈ l, o.daq = none
  prev : ∀ p o, st.prevObjs.get p = some o → o.daq = none

theorem NoDaq.init : NoDaq {} := by
  refine ⟨?_, ?_⟩
  · intro l h; cases h
  · intro p o h; simp [PrevObjs.get] at h

theorem lookupExisting_mem {existing : Option (List SegObj)} {path : Bytes} {i : Nat} {ex : SegObj}
    (h : lookupExisting existing path = some (i, ex)) : ∃ l, existing = some l ∧ ex ∈ l := by
  unfold lookupExisting at h
  cases existing with
  | none => simp at h
  | some l =>
    simp only at h
    cases hi : existingIndex l path with
    | none => simp [hi] at h
    | some j =>
      cases hj : l[j]? with
      | none => simp [hi, hj] at h
      | some o =>
        simp [hi, hj] at h
        obtain ⟨_, rfl⟩ := h
        exact ⟨l, rfl, List.mem_of_getElem? hj⟩

theorem applyHeader_noDaq {existing : Option (List SegObj)} {prevObjs : PrevObjs} {ordered ordered' : List SegObj}
    {path : Bytes} {h : Hdr}
    (hex : ∀ l, existing = some l → ∀ o ∈ l, o.daq = none)
    (hprev : ∀ p o, prevObjs.get p = some o → o.daq = none)
    (hord : ∀ o ∈ ordered, o.daq = none)
    (hh : ∀ o, h = .indexed o → o.daq = none)
    (hres : applyHeader existing prevObjs ordered path h = .ok ordered') :
    ∀ o ∈ ordered', o.daq = none := by
  unfold applyHeader at hres
  have hset : ∀ (i : Nat) (x : SegObj), x.daq = none → ∀ o ∈ ordered.set i x, o.daq = none := by
    intro i x hx o ho
    rcases List.mem_or_eq_of_mem_set ho with ho | rfl
    · exact hord o ho
    · exact hx
  have happ : ∀ (x : SegObj), x.daq = none → ∀ o ∈ ordered ++ [x], o.daq = none := by
    intro x hx o ho
    rcases List.mem_append.1 ho with ho | ho
    · exact hord o ho
    · simp only [List.mem_singleton] at ho; subst ho; exact hx
  cases hl : lookupExisting existing path with
  | some ie =>
    obtain ⟨i, ex⟩ := ie
    obtain ⟨l, hl1, hl2⟩ := lookupExisting_mem hl
    have hexd : ex.daq = none := hex l hl1 ex hl2
    rw [hl] at hres
    cases h with
    | noData =>
      simp only [] at hres
      cases hres
      split
      · exact hset i _ hexd
      · exact hord
    | matchesPrev =>
      simp only [] at hres
      cases hres
      split
      · exact hset i _ hexd
      · exact hord
    | indexed o =>
      simp only [] at hres
      cases hres
      exact hset i o (hh o rfl)
  | none =>
    rw [hl] at hres
    simp only [] at hres
    cases hq : prevObjs.get path with
    | some prev =>
      have hpd := hprev _ _ hq
      rw [hq] at hres
      cases h with
      | noData => simp only [] at hres; cases hres; exact happ _ hpd
      | matchesPrev => simp only [] at hres; cases hres; exact happ _ hpd
      | indexed o => simp only [] at hres; cases hres; exact happ o (hh o rfl)
    | none =>
      rw [hq] at hres
      cases h with
      | noData => simp only [] at hres; cases hres; exact happ _ rfl
      | matchesPrev => simp only [] at hres; cases hres
      | indexed o => simp only [] at hres; cases hres; exact happ o (hh o rfl)

theorem runHeaders_noDaq {existing : Option (List SegObj)} {prevObjs : PrevObjs}
    (hex : ∀ l, existing = some l → ∀ o ∈ l, o.daq = none)
    (hprev : ∀ p o, prevObjs.get p = some o → o.daq = none) :
    ∀ (hs : List (Bytes × Hdr)) (ordered ordered' : List SegObj), HdrsNoDaq hs →
      (∀ o ∈ ordered, o.daq = none) → runHeaders existing prevObjs ordered hs = .ok ordered' →
      ∀ o ∈ ordered', o.daq = none := by
  intro hs
  induction hs with
  | nil => intro ordered ordered' _ hord h; cases h; exact hord
  | cons ph rest ih =>
    intro ordered ordered' hh hord h
    obtain ⟨p, hd⟩ := ph
    unfold runHeaders at h
    cases ha : applyHeader existing prevObjs ordered p hd with
    | error err => rw [ha] at h; cases h
    | ok o1 =>
      rw [ha] at h
      exact ih o1 ordered' (fun ph' hph' => hh ph' (List.mem_cons_of_mem _ hph'))
        (applyHeader_noDaq hex hprev hord (fun o ho => hh (p, hd) (List.mem_cons_self ..) o ho) ha) h

theorem segObjects_noDaq {st : MState} (hst : NoDaq st) {d : SegDesc} (hd : HdrsNoDaq d.hdrs)
    {objs : List SegObj} (h : segObjects st.prevSeg st.prevObjs d = .ok objs) : ∀ o ∈ objs, o.daq = none := by
  unfold segObjects at h
  split at h
  · cases hp : st.prevSeg with
    | none => rw [hp] at h; cases h
    | some l => rw [hp] at h; cases h; exact hst.seg _ hp
  · cases hp : st.prevSeg with
    | none =>
      rw [hp] at h
      exact runHeaders_noDaq (fun _ e => by cases e) hst.prev _ _ _ hd (fun _ ho => by cases ho) h
    | some l =>
      rw [hp] at h
      simp only [] at h
      split at h
      · exact runHeaders_noDaq (fun _ e => by cases e) hst.prev _ _ _ hd (fun _ ho => by cases ho) h
      · exact runHeaders_noDaq (fun l' e => by cases e; exact hst.seg _ hp) hst.prev _ _ _ hd
          (hst.seg l hp) h

/-- without DAQmx metadata `updateObjectMetadata` never raises `scalerTypesChanged`, and `prevObjs`
    only ever receives objects of the list -/
theorem uom_noDaq (s : Segment) : ∀ (objs : List SegObj) (prev : PrevObjs) (ms : ObjMetas),
    (∀ o ∈ objs, o.daq = none) →
    match updateObjectMetadata s objs prev ms with
    | .ok (prev', _) => ∀ p o, prev'.get p = some o → o ∈ objs ∨ prev.get p = some o
    | .error e => e ≠ .scalerTypesChanged := by
  intro objs
  induction objs with
  | nil =>
    intro prev ms _
    simp only [updateObjectMetadata]
    intro p o h; exact Or.inr h
  | cons o os ih =>
    intro prev ms hd
    rw [uom_cons]
    by_cases hc : ((dtOf ms o.path).isSome && decide (dtOf ms o.path ≠ o.dataType)) = true
    · simp only [hc, if_true]
      intro h; cases h
    · simp only [hc, Bool.false_eq_true, if_false]
      have hsc : scalerClash ms o = false := by
        unfold scalerClash SegObj.scalerTypes
        rw [hd o (List.mem_cons_self ..)]
        rfl
      simp only [hsc, Bool.false_eq_true, if_false]
      have := ih (prev.set o.path o) (stepMetas s ms o) (fun o' ho' => hd o' (List.mem_cons_of_mem _ ho'))
      revert this
      cases updateObjectMetadata s os (prev.set o.path o) (stepMetas s ms o) with
      | error e => exact fun h => h
      | ok r =>
        obtain ⟨prev', ms'⟩ := r
        intro this p x hx
        simp only [] at this
        rcases this p x hx with h | h
        · exact Or.inl (List.mem_cons_of_mem _ h)
        · rw [PrevObjs.get_set] at h
          split at h
          · cases h; exact Or.inl (List.mem_cons_self ..)
          · exact Or.inr h

theorem fileStep_noDaq {st : MState} (hst : NoDaq st) {i : SegInput} (hd : HdrsNoDaq i.desc.hdrs) :
    match fileStep st i with
    | .ok (_, st') => NoDaq st'
    | .error e => e ≠ .scalerTypesChanged := by
  unfold fileStep
  cases hs : segObjects st.prevSeg st.prevObjs i.desc with
  | error err =>
    simp only []
    unfold segObjects at hs
    split at hs
    · cases hp : st.prevSeg with
      | none => rw [hp] at hs; cases hs; simp
      | some l => rw [hp] at hs; cases hs
    · -- `runHeaders` only fails with `reuseUnseen`
      have hrun : ∀ (hdrs : List (Bytes × Hdr)) (ex : Option (List SegObj)) (ord : List SegObj),
          runHeaders ex st.prevObjs ord hdrs = .error err → err = .reuseUnseen := by
        intro hdrs
        induction hdrs with
        | nil => intro ex ord h; cases h
        | cons ph rest ih =>
          intro ex ord h
          obtain ⟨p, hh⟩ := ph
          unfold runHeaders at h
          cases ha : applyHeader ex st.prevObjs ord p hh with
          | ok o1 => rw [ha] at h; exact ih ex o1 h
          | error e2 =>
            rw [ha] at h
            cases h
            unfold applyHeader at ha
            repeat' split at ha
            all_goals first | (cases ha; done) | (cases ha; rfl)
      cases hp : st.prevSeg with
      | none => rw [hp] at hs; rw [hrun _ _ _ hs]; simp
      | some l =>
        rw [hp] at hs
        simp only [] at hs
        split at hs <;> (rw [hrun _ _ _ hs]; simp)
  | ok objs =>
    simp only []
    have hobjs := segObjects_noDaq hst hd hs
    have hu := uom_noDaq i.chunkInfo objs st.prevObjs st.metas hobjs
    revert hu
    cases updateObjectMetadata i.chunkInfo objs st.prevObjs st.metas with
    | error e => exact fun h => h
    | ok r =>
      obtain ⟨prev', ms'⟩ := r
      intro hu
      simp only [] at hu ⊢
      refine ⟨?_, ?_⟩
      · intro l h; cases h; exact hobjs
      · intro p o h
        rcases hu p o h with h' | h'
        · exact hobjs o h'
        · exact hst.prev p o h'

theorem fileMachine_noDaq : ∀ (inputs : List SegInput) (st : MState), NoDaq st →
    (∀ i ∈ inputs, HdrsNoDaq i.desc.hdrs) → fileMachine st inputs ≠ .error .scalerTypesChanged := by
  intro inputs
  induction inputs with
  | nil => intro st _ _ h; cases h
  | cons i is ih =>
    intro st hst hd
    have hstep := fileStep_noDaq hst (hd i (List.mem_cons_self ..))
    unfold fileMachine
    cases hf : fileStep st i with
    | error e =>
      rw [hf] at hstep
      simp only [] at hstep ⊢
      intro h; cases h; exact hstep rfl
    | ok r =>
      obtain ⟨objs, st'⟩ := r
      rw [hf] at hstep
      simp only [] at hstep ⊢
      have := ih st' hstep (fun i' hi' => hd i' (List.mem_cons_of_mem _ hi'))
      cases hrec : fileMachine st' is with
      | error e => rw [hrec] at this; simp only []; intro h; cases h; exact this rfl
      | ok rest => simp

/-- an encoding without DAQmx indexes -/
def NoDaqmx (e : List SegEnc) : Prop :=
  ∀ s ∈ e, ∀ o ∈ s.objs, ∀ dg ty n sc w, o.idx ≠ .daqmx dg ty n sc w

theorem hdrsRaw_noDaq {objs : List ObjEnc} (h : ∀ o ∈ objs, ∀ dg ty n sc w, o.idx ≠ .daqmx dg ty n sc w) :
    HdrsNoDaq (hdrsRaw objs) := by
  intro ph hph o ho
  unfold hdrsRaw at hph
  rw [List.mem_map] at hph
  obtain ⟨x, hx, rfl⟩ := hph
  simp only [] at ho
  cases hidx : x.idx with
  | noData => rw [hidx] at ho; cases ho
  | matchesPrev => rw [hidx] at ho; cases ho
  | full ty n total => rw [hidx] at ho; simp only [hdrRaw, Hdr.indexed.injEq] at ho; subst ho; rfl
  | daqmx dg ty n sc w => exact absurd hidx (h x hx dg ty n sc w)

theorem inputs_noDaq : ∀ (e : List SegEnc) (inputs : List SegInput), InputsFor descOfSegRaw e inputs →
    NoDaqmx e → ∀ i ∈ inputs, HdrsNoDaq i.desc.hdrs := by
  intro e
  induction e with
  | nil => intro inputs h _ i hi; cases inputs with
    | nil => cases hi
    | cons _ _ => cases h
  | cons s ss ih =>
    intro inputs h hn i hi
    cases inputs with
    | nil => cases hi
    | cons i0 is =>
      rcases List.mem_cons.1 hi with rfl | hi
      · rw [h.1]
        exact hdrsRaw_noDaq (hn s (List.mem_cons_self ..))
      · exact ih is h.2 (fun s' hs' => hn s' (List.mem_cons_of_mem _ hs')) i hi

end Tdms.Proofs.C02
