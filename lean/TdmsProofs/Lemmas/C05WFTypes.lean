import TdmsProofs.Lemmas.C05WFLoop
import TdmsProofs.Lemmas.C02File

/-!
# C05WF / C19WF: one data type per path, for ARBITRARY bytes

`read_metadata` raises when the data type recorded for a path changes, so in what it returns every
object of every segment that carries a data type carries the one `object_metadata` records for its path.
Core Lean only.
-/

namespace Tdms.Proofs.C05WF

open Tdms Tdms.Model Tdms.Generated Tdms.Proofs.C02 Tdms.Proofs.LeadIn

/-- every typed object of every segment has the type `object_metadata` records for its path -/
def TInv (segs : List Segment) (ms : ObjMetas) : Prop :=
  ∀ s ∈ segs, ∀ o ∈ s.objects, ∀ ty, o.dataType = some ty → dtOf ms o.path = some ty

theorem uom_types (s : Segment) :
    ∀ (objs : List SegObj) (prev : PrevObjs) (ms : ObjMetas) (prev' : PrevObjs) (ms' : ObjMetas),
      updateObjectMetadata s objs prev ms = .ok (prev', ms') →
      (∀ q ty, dtOf ms q = some ty → dtOf ms' q = some ty) ∧
      (∀ o ∈ objs, ∀ ty, o.dataType = some ty → dtOf ms' o.path = some ty) := by
  intro objs
  induction objs with
  | nil =>
    intro prev ms prev' ms' h
    simp only [updateObjectMetadata] at h
    injection h with h; injection h with h1 h2; subst h2
    exact ⟨fun q ty hq => hq, fun o ho => by cases ho⟩
  | cons o os ih =>
    intro prev ms prev' ms' h
    rw [uom_cons] at h
    split at h
    · cases h
    · rename_i hclash
      split at h
      · cases h
      · obtain ⟨ihA, ihB⟩ := ih _ _ _ _ h
        have hstep : ∀ q ty, dtOf ms q = some ty → dtOf (stepMetas s ms o) q = some ty := by
          intro q ty hq
          by_cases hqo : q = o.path
          · subst hqo
            rw [dtOf_stepMetas_self]
            -- no clash: the recorded type is the object's type
            cases hd : decide (dtOf ms o.path ≠ o.dataType) with
            | false =>
              have : dtOf ms o.path = o.dataType := by simpa using hd
              rw [← this]; exact hq
            | true =>
              exfalso
              apply hclash
              rw [hq] at hd ⊢
              simp [hd]
          · rw [dtOf_stepMetas_ne _ _ _ _ hqo]; exact hq
        refine ⟨fun q ty hq => ihA q ty (hstep q ty hq), ?_⟩
        intro x hx ty hty
        rcases List.mem_cons.1 hx with rfl | hx'
        · apply ihA
          rw [dtOf_stepMetas_self]; exact hty
        · exact ihB x hx' ty hty

theorem loopStep_next_tinv (file : Bytes) (isIndex : Bool) (dfs : Option Nat) (fp sp fp' sp' : Nat)
    (st st' : ReaderState) (h : loopStep file isIndex dfs fp sp st = .ok (.next fp' sp' st'))
    (hi : TInv st.segments st.objects) : TInv st'.segments st'.objects := by
  unfold loopStep at h
  split at h
  · cases h
  · split at h <;> cases h
  · rename_i li _
    split at h
    · cases h
    · rename_i seg props hrs
      split at h
      · cases h
      · rename_i prev' objs' hu
        injection h with h; injection h with _ _ h3
        subst h3
        obtain ⟨hA, hB⟩ := uom_types _ _ _ _ _ _ hu
        intro s hs o ho ty hty
        show dtOf (updateObjectProperties objs' props) o.path = some ty
        rw [dtOf_updateObjectProperties]
        rcases List.mem_append.1 hs with h1 | h1
        · exact hA _ _ (hi s h1 o ho ty hty)
        · simp at h1; subst h1; exact hB o ho ty hty

theorem readMetadataLoop_tinv (file : Bytes) (isIndex : Bool) (dfs : Option Nat) :
    ∀ (fuel fp sp : Nat) (st st' : ReaderState), TInv st.segments st.objects →
      readMetadataLoop file isIndex dfs fuel fp sp st = .ok st' → TInv st'.segments st'.objects := by
  intro fuel
  induction fuel with
  | zero =>
    intro fp sp st st' hi h
    simp only [readMetadataLoop] at h
    cases h
    exact hi
  | succ fuel ih =>
    intro fp sp st st' hi h
    rw [readMetadataLoop_succ] at h
    cases hstep : loopStep file isIndex dfs fp sp st with
    | error e => rw [hstep] at h; cases h
    | ok r =>
      rw [hstep] at h
      cases r with
      | done st1 =>
        simp only [Except.ok.injEq] at h
        subst h
        obtain ⟨h1, _, h3⟩ := loopStep_done_fields _ _ _ _ _ _ _ hstep
        rw [h1, h3]; exact hi
      | next fp1 sp1 st1 =>
        exact ih fp1 sp1 st1 st' (loopStep_next_tinv _ _ _ _ _ _ _ _ _ hstep hi) h

/-- **one data type per path** in what `openFile` returns, whatever the bytes -/
theorem openFile_types (file : Bytes) (f : OpenFile) (h : openFile file = .ok f) : TInv f.segments f.objects := by
  unfold openFile at h
  cases hr : readMetadata file with
  | error e => rw [hr] at h; cases h
  | ok st =>
    rw [hr] at h
    simp only [bind, Except.bind, pure, Except.pure, Except.ok.injEq] at h
    subst h
    exact readMetadataLoop_tinv file false (some file.length) _ 0 0 {} st (fun s hs => by cases hs) hr

end Tdms.Proofs.C05WF
