import TdmsProofs.Lemmas.TiedScalingBuild

/-!
# The generated `from_properties` constructors agree with the branches of the model's `buildOne`

Hypotheses `IsNat` / `NotStr` state what the model's getters assume about the TYPE of a property value (the Python
code stores whatever it finds and only fails when the value is used): see the counterexamples in
`Properties/C13TiedBuild.lean`.
-/

namespace Tdms.Proofs.Tied2

open Tdms.Model.Scaling Tdms.Generated Tdms.Generated.Code2

abbrev MScaling := Tdms.Model.Scaling.Scaling

variable {R : Type}

/-- the property, if present, is an unsigned integer (the model's `getNat` / `getNatD` reject anything else) -/
def IsNat (ps : Props R) (k : String) : Prop := ∀ v, ps.get k = some v → ∃ n, v = .nat n

/-- the property is not a string (the model's `getNum` reports a string as a missing key) -/
def NotStr (ps : Props R) (k : String) : Prop := ∀ s, ps.get k ≠ some (.str s)

/-- a generated constructor `p` (wrapped into the union by `wrap`) agrees with a branch `m` of `buildOne` -/
def AgreesC [NatCast R] [Neg R] {T : Type} (i : Nat) (wrap : T → Code2.Scaling R)
    (m : Except ScaleErr (Option (MScaling R))) (p : Except Py.Exc T) : Prop :=
  match m with
  | .error e => p = .error (errName e)
  | .ok none => False
  | .ok (some v) => ∃ t, p = .ok t ∧ absScaling i (wrap t) = some v

section Getters
variable [NatCast R] [Neg R]

theorem getM_nat (ps : Props R) (k : String) (h : IsNat ps k) :
    match getNat ps k with
    | .ok n => getM ps k = .ok (.int n)
    | .error e => e = .keyError ∧ getM ps k = .error "KeyError" := by
  unfold getNat getM
  cases hk : ps.get k with
  | none => simp
  | some v =>
    obtain ⟨n, rfl⟩ := h v hk
    simp [pyPV]

theorem getMD_nat (ps : Props R) (k : String) (d : Nat) (h : IsNat ps k) :
    ∃ n, getNatD ps k d = .ok n ∧ getMD ps k (.int d) = .int n := by
  unfold getNatD getMD
  cases hk : ps.get k with
  | none => exact ⟨d, rfl, rfl⟩
  | some v =>
    obtain ⟨n, rfl⟩ := h v hk
    exact ⟨n, rfl, rfl⟩

theorem getM_num (ps : Props R) (k : String) (h : NotStr ps k) :
    match getNum ps k with
    | .ok x => ∃ v, getM ps k = .ok v ∧ absNum v = some x
    | .error e => e = .keyError ∧ getM ps k = .error "KeyError" := by
  unfold getNum getM
  cases hk : ps.get k with
  | none => simp
  | some v =>
    cases v with
    | num x => exact ⟨_, rfl, rfl⟩
    | nat n => exact ⟨_, rfl, rfl⟩
    | str s => exact absurd hk (h s)

theorem range_natCast (n : Nat) : Py.range (n : Int) = (List.range' 0 n).map fun (j : Nat) => (j : Int) := by
  simp [Py.range, List.range_eq_range']

/-- `[properties[pre + "[%d]" % j] for j in range(a, a + k)]` against the model's `getNums` -/
theorem getMs_nums (ps : Props R) (pre : String) (h : ∀ j : Nat, NotStr ps (pre ++ "[" ++ toString j ++ "]")) :
    ∀ (k a : Nat),
      match getNums ps pre a k with
      | .ok xs => ∃ vs, Py.mapE ((List.range' a k).map fun (j : Nat) => (j : Int))
          (fun j => getM ps (pre ++ "[" ++ toString j ++ "]")) = .ok vs ∧ absNums vs = some xs
      | .error e => e = .keyError ∧ Py.mapE ((List.range' a k).map fun (j : Nat) => (j : Int))
          (fun j => getM ps (pre ++ "[" ++ toString j ++ "]")) = .error "KeyError" := by
  intro k
  induction k with
  | zero => intro a; exact ⟨[], rfl, rfl⟩
  | succ k ih =>
    intro a
    have h1 := getM_num ps (pre ++ "[" ++ toString a ++ "]") (h a)
    have h2 := ih (a + 1)
    simp only [getNums, List.range'_succ, List.map_cons, Py.mapE, toString_natCast]
    cases hn : getNum ps (pre ++ "[" ++ toString a ++ "]") with
    | error e =>
      simp only [hn] at h1
      obtain ⟨rfl, hg⟩ := h1
      simp only [hg, bind, Except.bind]
      exact ⟨trivial, trivial⟩
    | ok x =>
      simp only [hn] at h1
      obtain ⟨v, hv, hx⟩ := h1
      simp only [hv]
      cases hr : getNums ps pre (a + 1) k with
      | error e =>
        simp only [hr] at h2
        obtain ⟨rfl, hg⟩ := h2
        simp only [hg, bind, Except.bind]
        exact ⟨trivial, trivial⟩
      | ok xs =>
        simp only [hr] at h2
        obtain ⟨vs, hvs, hxs⟩ := h2
        simp only [hvs, bind, Except.bind, pure, Except.pure]
        exact ⟨v :: vs, rfl, by simp only [absNums, hx, hxs]⟩

end Getters

section Classes
variable [NatCast R] [Neg R]

theorem rawV_eq : (rawV : Py.Val R) = .int ((rawSource : Nat) : Int) := rfl

theorem noop_agrees (ps : Props R) (i : Nat) (hsrc : IsNat ps (pfx i ++ "_AdvancedAPI_Input_Source")) :
    AgreesC i Scaling.NoOpScaling
      (do let src ← getNatD ps (pfx i ++ "_AdvancedAPI_Input_Source") rawSource
          pure (some (.noop src)))
      (NoOpScaling.from_properties (pyProps ps) (i : Int) "AdvancedAPI".toList) := by
  rw [noop_from_properties]
  obtain ⟨n, hn, hpy⟩ := getMD_nat ps _ rawSource hsrc
  simp only [hn, ok_bind, pure_eq_ok, AgreesC]
  refine ⟨_, rfl, ?_⟩
  have : pfx i ++ "_" ++ "AdvancedAPI" ++ "_Input_Source" = pfx i ++ "_AdvancedAPI_Input_Source" := by
    simp [String.append_assoc]
  simp [absScaling, this, rawV_eq, hpy]

theorem linear_agrees (ps : Props R) (i : Nat)
    (hsrc : IsNat ps (pfx i ++ "_Linear_Input_Source")) (hb : NotStr ps (pfx i ++ "_Linear_Y_Intercept"))
    (hm : NotStr ps (pfx i ++ "_Linear_Slope")) :
    AgreesC i Scaling.LinearScaling
      (do let src ← getNatD ps (pfx i ++ "_Linear_Input_Source") rawSource
          let b ← getNum ps (pfx i ++ "_Linear_Y_Intercept")
          let m ← getNum ps (pfx i ++ "_Linear_Slope")
          pure (some (.linear b m src)))
      (LinearScaling.from_properties (pyProps ps) (i : Int)) := by
  rw [linear_from_properties]
  obtain ⟨n, hn, hpy⟩ := getMD_nat ps _ rawSource hsrc
  have h1 := getM_num ps _ hb
  have h2 := getM_num ps _ hm
  simp only [hn, ok_bind]
  cases hb' : getNum ps (pfx i ++ "_Linear_Y_Intercept") with
  | error e => simp only [hb'] at h1; obtain ⟨rfl, hg⟩ := h1; simp [AgreesC, hg, errName]
  | ok b =>
    simp only [hb'] at h1; obtain ⟨vb, hvb, hab⟩ := h1
    cases hm' : getNum ps (pfx i ++ "_Linear_Slope") with
    | error e => simp only [hm'] at h2; obtain ⟨rfl, hg⟩ := h2; simp [AgreesC, hg, hvb, errName]
    | ok m =>
      simp only [hm'] at h2; obtain ⟨vm, hvm, ham⟩ := h2
      simp only [AgreesC, ok_bind, pure_eq_ok, hvb, hvm]
      exact ⟨_, rfl, by simp [absScaling, hab, ham, rawV_eq, hpy]⟩

theorem add_agrees (ps : Props R) (i : Nat)
    (hl : IsNat ps (pfx i ++ "_Add_Left_Operand_Input_Source"))
    (hr : IsNat ps (pfx i ++ "_Add_Right_Operand_Input_Source")) :
    AgreesC i Scaling.AddScaling
      (do let l ← getNat ps (pfx i ++ "_Add_Left_Operand_Input_Source")
          let r ← getNat ps (pfx i ++ "_Add_Right_Operand_Input_Source")
          pure (some (.add l r)))
      (AddScaling.from_properties (pyProps ps) (i : Int)) := by
  rw [add_from_properties]
  have h1 := getM_nat ps _ hl
  have h2 := getM_nat ps _ hr
  cases hl' : getNat ps (pfx i ++ "_Add_Left_Operand_Input_Source") with
  | error e => simp only [hl'] at h1; obtain ⟨rfl, hg⟩ := h1; simp [AgreesC, hg, errName]
  | ok l =>
    simp only [hl'] at h1
    cases hr' : getNat ps (pfx i ++ "_Add_Right_Operand_Input_Source") with
    | error e => simp only [hr'] at h2; obtain ⟨rfl, hg⟩ := h2; simp [AgreesC, hg, h1, errName]
    | ok r =>
      simp only [hr'] at h2
      simp only [AgreesC, ok_bind, pure_eq_ok, h1, h2]
      exact ⟨_, rfl, by simp [absScaling]⟩

theorem subtract_agrees (ps : Props R) (i : Nat)
    (hl : IsNat ps (pfx i ++ "_Subtract_Left_Operand_Input_Source"))
    (hr : IsNat ps (pfx i ++ "_Subtract_Right_Operand_Input_Source")) :
    AgreesC i Scaling.SubtractScaling
      (do let l ← getNat ps (pfx i ++ "_Subtract_Left_Operand_Input_Source")
          let r ← getNat ps (pfx i ++ "_Subtract_Right_Operand_Input_Source")
          pure (some (.subtract l r)))
      (SubtractScaling.from_properties (pyProps ps) (i : Int)) := by
  rw [subtract_from_properties]
  have h1 := getM_nat ps _ hl
  have h2 := getM_nat ps _ hr
  cases hl' : getNat ps (pfx i ++ "_Subtract_Left_Operand_Input_Source") with
  | error e => simp only [hl'] at h1; obtain ⟨rfl, hg⟩ := h1; simp [AgreesC, hg, errName]
  | ok l =>
    simp only [hl'] at h1
    cases hr' : getNat ps (pfx i ++ "_Subtract_Right_Operand_Input_Source") with
    | error e => simp only [hr'] at h2; obtain ⟨rfl, hg⟩ := h2; simp [AgreesC, hg, h1, errName]
    | ok r =>
      simp only [hr'] at h2
      simp only [AgreesC, ok_bind, pure_eq_ok, h1, h2]
      exact ⟨_, rfl, by simp [absScaling]⟩

theorem toIndex_int (n : Int) : Py.Val.toIndex (Py.Val.int n : Py.Val R) = .ok n := rfl

theorem polynomial_agrees (ps : Props R) (i : Nat)
    (hsize : IsNat ps (pfx i ++ "_Polynomial_Coefficients_Size"))
    (hsrc : IsNat ps (pfx i ++ "_Polynomial_Input_Source"))
    (hcs : ∀ j : Nat, NotStr ps ((pfx i ++ "_Polynomial_Coefficients") ++ "[" ++ toString j ++ "]")) :
    AgreesC i Scaling.PolynomialScaling
      (do let n ← getNatD ps (pfx i ++ "_Polynomial_Coefficients_Size") 4
          let src ← getNatD ps (pfx i ++ "_Polynomial_Input_Source") rawSource
          let cs ← getNums ps (pfx i ++ "_Polynomial_Coefficients") 0 n
          pure (some (.polynomial cs src)))
      (PolynomialScaling.from_properties (pyProps ps) (i : Int)) := by
  rw [polynomial_from_properties]
  obtain ⟨n, hn, hpn⟩ := getMD_nat ps _ 4 hsize
  obtain ⟨src, hs, hps⟩ := getMD_nat ps _ rawSource hsrc
  have hnums := getMs_nums ps (pfx i ++ "_Polynomial_Coefficients") hcs n 0
  have h4 : (Py.Val.int 4 : Py.Val R) = .int ((4 : Nat) : Int) := rfl
  simp only [hn, hs, ok_bind, h4, hpn, toIndex_int, range_natCast]
  cases hc : getNums ps (pfx i ++ "_Polynomial_Coefficients") 0 n with
  | error e => simp only [hc] at hnums; obtain ⟨rfl, hg⟩ := hnums; simp only [AgreesC, hg, error_bind, errName]
  | ok cs =>
    simp only [hc] at hnums; obtain ⟨vs, hvs, habs⟩ := hnums
    simp only [AgreesC, ok_bind, pure_eq_ok, hvs]
    exact ⟨_, rfl, by simp only [absScaling, habs, rawV_eq, hps, absSrc_nat]⟩

/-- the property is present -/
def Present (ps : Props R) (k : String) : Prop := (ps.get k).isSome = true

theorem getM_present (ps : Props R) (k : String) (h : Present ps k) : ∃ v, getM ps k = .ok v := by
  unfold getM; unfold Present at h
  cases hk : ps.get k with
  | none => simp [hk] at h
  | some v => exact ⟨_, rfl⟩

theorem rtd_agrees (ps : Props R) (i : Nat) (hsrc : IsNat ps (pfx i ++ "_RTD_Input_Source"))
    (h1 : Present ps (pfx i ++ "_RTD_Current_Excitation")) (h2 : Present ps (pfx i ++ "_RTD_R0_Nominal_Resistance"))
    (h3 : Present ps (pfx i ++ "_RTD_A")) (h4 : Present ps (pfx i ++ "_RTD_B")) (h5 : Present ps (pfx i ++ "_RTD_C"))
    (h6 : Present ps (pfx i ++ "_RTD_Lead_Wire_Resistance"))
    (h7 : Present ps (pfx i ++ "_RTD_Resistance_Configuration")) :
    AgreesC i Scaling.RtdScaling
      (do let src ← getNat ps (pfx i ++ "_RTD_Input_Source")
          pure (some (.sensor i src)))
      (RtdScaling.from_properties (pyProps ps) (i : Int)) := by
  rw [rtd_from_properties]
  obtain ⟨v1, e1⟩ := getM_present ps _ h1
  obtain ⟨v2, e2⟩ := getM_present ps _ h2
  obtain ⟨v3, e3⟩ := getM_present ps _ h3
  obtain ⟨v4, e4⟩ := getM_present ps _ h4
  obtain ⟨v5, e5⟩ := getM_present ps _ h5
  obtain ⟨v6, e6⟩ := getM_present ps _ h6
  obtain ⟨v7, e7⟩ := getM_present ps _ h7
  have hs := getM_nat ps _ hsrc
  simp only [e1, e2, e3, e4, e5, e6, e7, ok_bind]
  cases hn : getNat ps (pfx i ++ "_RTD_Input_Source") with
  | error e => simp only [hn] at hs; obtain ⟨rfl, hg⟩ := hs; simp [AgreesC, hg, errName]
  | ok n =>
    simp only [hn] at hs
    simp only [AgreesC, ok_bind, pure_eq_ok, hs]
    exact ⟨_, rfl, by simp [absScaling]⟩

theorem strain_agrees (ps : Props R) (i : Nat) (hsrc : IsNat ps (pfx i ++ "_Strain_Input_Source"))
    (h1 : Present ps (pfx i ++ "_Strain_Configuration")) (h2 : Present ps (pfx i ++ "_Strain_Poisson_Ratio"))
    (h3 : Present ps (pfx i ++ "_Strain_Gage_Resistance")) (h4 : Present ps (pfx i ++ "_Strain_Lead_Wire_Resistance"))
    (h5 : Present ps (pfx i ++ "_Strain_Initial_Bridge_Voltage")) (h6 : Present ps (pfx i ++ "_Strain_Gage_Factor"))
    (h7 : Present ps (pfx i ++ "_Strain_Bridge_Shunt_Calibration_Gain_Adjustment"))
    (h8 : Present ps (pfx i ++ "_Strain_Voltage_Excitation")) :
    AgreesC i Scaling.StrainScaling
      (do let src ← getNat ps (pfx i ++ "_Strain_Input_Source")
          pure (some (.sensor i src)))
      (StrainScaling.from_properties (pyProps ps) (i : Int)) := by
  rw [strain_from_properties]
  obtain ⟨v1, e1⟩ := getM_present ps _ h1
  obtain ⟨v2, e2⟩ := getM_present ps _ h2
  obtain ⟨v3, e3⟩ := getM_present ps _ h3
  obtain ⟨v4, e4⟩ := getM_present ps _ h4
  obtain ⟨v5, e5⟩ := getM_present ps _ h5
  obtain ⟨v6, e6⟩ := getM_present ps _ h6
  obtain ⟨v7, e7⟩ := getM_present ps _ h7
  obtain ⟨v8, e8⟩ := getM_present ps _ h8
  have hs := getM_nat ps _ hsrc
  simp only [e1, e2, e3, e4, e5, e6, e7, e8, ok_bind]
  cases hn : getNat ps (pfx i ++ "_Strain_Input_Source") with
  | error e => simp only [hn] at hs; obtain ⟨rfl, hg⟩ := hs; simp [AgreesC, hg, errName]
  | ok n =>
    simp only [hn] at hs
    simp only [AgreesC, ok_bind, pure_eq_ok, hs]
    exact ⟨_, rfl, by simp [absScaling]⟩

theorem thermistor_agrees (ps : Props R) (i : Nat) (hsrc : IsNat ps (pfx i ++ "_Thermistor_Input_Source"))
    (h1 : Present ps (pfx i ++ "_Thermistor_Excitation_Type")) (h2 : Present ps (pfx i ++ "_Thermistor_Excitation_Value"))
    (h3 : Present ps (pfx i ++ "_Thermistor_Resistance_Configuration"))
    (h4 : Present ps (pfx i ++ "_Thermistor_R1_Reference_Resistance"))
    (h5 : Present ps (pfx i ++ "_Thermistor_Lead_Wire_Resistance")) (h6 : Present ps (pfx i ++ "_Thermistor_A"))
    (h7 : Present ps (pfx i ++ "_Thermistor_B")) (h8 : Present ps (pfx i ++ "_Thermistor_C"))
    (h9 : Present ps (pfx i ++ "_Thermistor_Temperature_Offset")) :
    AgreesC i Scaling.ThermistorScaling
      (do let src ← getNat ps (pfx i ++ "_Thermistor_Input_Source")
          pure (some (.sensor i src)))
      (ThermistorScaling.from_properties (pyProps ps) (i : Int)) := by
  rw [thermistor_from_properties]
  obtain ⟨v1, e1⟩ := getM_present ps _ h1
  obtain ⟨v2, e2⟩ := getM_present ps _ h2
  obtain ⟨v3, e3⟩ := getM_present ps _ h3
  obtain ⟨v4, e4⟩ := getM_present ps _ h4
  obtain ⟨v5, e5⟩ := getM_present ps _ h5
  obtain ⟨v6, e6⟩ := getM_present ps _ h6
  obtain ⟨v7, e7⟩ := getM_present ps _ h7
  obtain ⟨v8, e8⟩ := getM_present ps _ h8
  obtain ⟨v9, e9⟩ := getM_present ps _ h9
  have hs := getM_nat ps _ hsrc
  simp only [e1, e2, e3, e4, e5, e6, e7, e8, e9, ok_bind]
  cases hn : getNat ps (pfx i ++ "_Thermistor_Input_Source") with
  | error e => simp only [hn] at hs; obtain ⟨rfl, hg⟩ := hs; simp [AgreesC, hg, errName]
  | ok n =>
    simp only [hn] at hs
    simp only [AgreesC, ok_bind, pure_eq_ok, hs]
    exact ⟨_, rfl, by simp [absScaling]⟩

theorem absNums_append (a b : List (Py.Val R)) :
    absNums (a ++ b) = match absNums a, absNums b with
      | some x, some y => some (x ++ y)
      | _, _ => none := by
  induction a with
  | nil => cases h : absNums b <;> simp [absNums, h]
  | cons v vs ih =>
    simp only [List.cons_append, absNums, ih]
    cases absNum v <;> cases absNums vs <;> cases absNums b <;> rfl

theorem absNums_reverse (a : List (Py.Val R)) : absNums a.reverse = (absNums a).map List.reverse := by
  induction a with
  | nil => rfl
  | cons v vs ih =>
    simp only [List.reverse_cons, absNums_append, ih, absNums]
    cases absNum v <;> cases absNums vs <;> simp

/-- `np.all(np.diff(x) > 0)` on a list of property values, through the model's `strictlyIncreasing` -/
def incOf [LT R] [DecidableRel (α := R) (· < ·)] (vs : List (Py.Val R)) : Bool :=
  match absNums vs with
  | some xs => strictlyIncreasing xs
  | none => false

theorem table_agrees [DecidableEq R] [LT R] [DecidableRel (α := R) (· < ·)] (ps : Props R) (i : Nat)
    (hty : ps.get (pfx i ++ "_Scale_Type") = some (.str "Table"))
    (hsrc : IsNat ps (pfx i ++ "_Table_Input_Source"))
    (hnp : IsNat ps (pfx i ++ "_Table_Pre_Scaled_Values_Size"))
    (hns : IsNat ps (pfx i ++ "_Table_Scaled_Values_Size"))
    (hpre : ∀ j : Nat, NotStr ps ((pfx i ++ "_Table_Pre_Scaled_Values") ++ "[" ++ toString j ++ "]"))
    (hsc : ∀ j : Nat, NotStr ps ((pfx i ++ "_Table_Scaled_Values") ++ "[" ++ toString j ++ "]")) :
    AgreesC i Scaling.TableScaling (buildOne ps i)
      (TableScaling.from_properties incOf List.reverse (pyProps ps) (i : Int)) := by
  unfold buildOne
  simp only [hty]
  rw [table_from_properties]
  obtain ⟨src, hs, hps⟩ := getMD_nat ps _ rawSource hsrc
  have h1 := getM_nat ps _ hnp
  have h2 := getM_nat ps _ hns
  simp only [hs, ok_bind]
  cases hnp' : getNat ps (pfx i ++ "_Table_Pre_Scaled_Values_Size") with
  | error e => simp only [hnp'] at h1; obtain ⟨rfl, hg⟩ := h1; simp only [AgreesC, hg, error_bind, errName]
  | ok np =>
    simp only [hnp'] at h1
    cases hns' : getNat ps (pfx i ++ "_Table_Scaled_Values_Size") with
    | error e => simp only [hns'] at h2; obtain ⟨rfl, hg⟩ := h2; simp only [AgreesC, hg, h1, ok_bind, error_bind, errName]
    | ok ns =>
      simp only [hns'] at h2
      simp only [h1, h2, ok_bind]
      have heq : Py.Val.eq (Py.Val.int (np : Int) : Py.Val R) (Py.Val.int (ns : Int)) = decide (np = ns) := by
        simp [Py.Val.eq]
      rw [heq]
      by_cases hne : np = ns
      · subst hne
        have hP := getMs_nums ps (pfx i ++ "_Table_Pre_Scaled_Values") hpre np 0
        have hS := getMs_nums ps (pfx i ++ "_Table_Scaled_Values") hsc np 0
        simp only [ne_eq, not_true_eq_false, if_false, decide_true, Bool.true_eq_false, toIndex_int, ok_bind,
          range_natCast]
        cases hp : getNums ps (pfx i ++ "_Table_Pre_Scaled_Values") 0 np with
        | error e => simp only [hp] at hP; obtain ⟨rfl, hg⟩ := hP; simp only [AgreesC, hg, error_bind, errName]
        | ok pre =>
          simp only [hp] at hP; obtain ⟨vpre, hvpre, hapre⟩ := hP
          simp only [hvpre, ok_bind]
          cases hs' : getNums ps (pfx i ++ "_Table_Scaled_Values") 0 np with
          | error e => simp only [hs'] at hS; obtain ⟨rfl, hg⟩ := hS; simp only [AgreesC, hg, error_bind, errName]
          | ok sc =>
            simp only [hs'] at hS; obtain ⟨vsc, hvsc, hasc⟩ := hS
            simp only [hvsc, ok_bind, table_init]
            have hi1 : incOf vsc = strictlyIncreasing sc := by simp only [incOf, hasc]
            have hi2 : incOf vsc.reverse = strictlyIncreasing sc.reverse := by
              simp only [incOf, absNums_reverse, hasc, Option.map_some]
            rw [hi1, hi2]
            cases c1 : strictlyIncreasing sc with
            | true =>
              simp only [if_true, AgreesC, pure_eq_ok]
              exact ⟨_, rfl, by simp only [absScaling, hasc, hapre, rawV_eq, hps, absSrc_nat]⟩
            | false =>
              cases c2 : strictlyIncreasing sc.reverse with
              | true =>
                simp only [if_true, Bool.false_eq_true, if_false, AgreesC, pure_eq_ok]
                exact ⟨_, rfl, by simp only [absScaling, absNums_reverse, hasc, hapre, rawV_eq, hps, absSrc_nat,
                  Option.map_some]⟩
              | false => simp only [Bool.false_eq_true, if_false, AgreesC, throw_eq_error, errName]
      · simp only [ne_eq, hne, not_false_eq_true, if_true, decide_false, throw_eq_error, error_bind, AgreesC, errName]

/-- the NI thermocouple type codes `ThermocoupleScaling.__init__` knows (KeyError for any other) -/
def tcCodes : List Nat := [10047, 10055, 10072, 10073, 10077, 10082, 10085, 10086]

/-- `ThermocoupleScaling.__init__`: the type code table of the code is the generated `tcTypeCodes` -/
theorem thermocouple_init_eq [DecidableEq R] (n : Nat) (dir src : Py.Val R) :
    ThermocoupleScaling.__init__ (Py.Val.int (n : Int)) dir src =
      match tcTypeCodes.find? (fun c => c.1 == n) with
      | some c => .ok ⟨c.2.toList, dir, src⟩
      | none => .error "KeyError" := by
  simp only [ThermocoupleScaling.__init__, Py.Dict.getV, Py.Val.eq, tcTypeCodes, List.find?]
  by_cases h1 : n = 10047
  · subst h1; rfl
  by_cases h2 : n = 10055
  · subst h2; rfl
  by_cases h3 : n = 10072
  · subst h3; rfl
  by_cases h4 : n = 10073
  · subst h4; rfl
  by_cases h5 : n = 10077
  · subst h5; rfl
  by_cases h6 : n = 10082
  · subst h6; rfl
  by_cases h7 : n = 10085
  · subst h7; rfl
  by_cases h8 : n = 10086
  · subst h8; rfl
  have e1 : decide ((10047 : Int) = (n : Int)) = false := by simp; omega
  have e2 : decide ((10055 : Int) = (n : Int)) = false := by simp; omega
  have e3 : decide ((10072 : Int) = (n : Int)) = false := by simp; omega
  have e4 : decide ((10073 : Int) = (n : Int)) = false := by simp; omega
  have e5 : decide ((10077 : Int) = (n : Int)) = false := by simp; omega
  have e6 : decide ((10082 : Int) = (n : Int)) = false := by simp; omega
  have e7 : decide ((10085 : Int) = (n : Int)) = false := by simp; omega
  have e8 : decide ((10086 : Int) = (n : Int)) = false := by simp; omega
  have f1 : ((10047 : Nat) == n) = false := by simp; omega
  have f2 : ((10055 : Nat) == n) = false := by simp; omega
  have f3 : ((10072 : Nat) == n) = false := by simp; omega
  have f4 : ((10073 : Nat) == n) = false := by simp; omega
  have f5 : ((10077 : Nat) == n) = false := by simp; omega
  have f6 : ((10082 : Nat) == n) = false := by simp; omega
  have f7 : ((10085 : Nat) == n) = false := by simp; omega
  have f8 : ((10086 : Nat) == n) = false := by simp; omega
  simp only [e1, e2, e3, e4, e5, e6, e7, e8, f1, f2, f3, f4, f5, f6, f7, f8]
  rfl

theorem thermocouple_init_ok [DecidableEq R] (n : Nat) (hn : n ∈ tcCodes) (dir src : Py.Val R) :
    ∃ name, ThermocoupleScaling.__init__ (Py.Val.int (n : Int)) dir src = .ok ⟨name, dir, src⟩ := by
  rw [thermocouple_init_eq]
  simp only [tcCodes, List.mem_cons, List.not_mem_nil, or_false] at hn
  rcases hn with rfl | rfl | rfl | rfl | rfl | rfl | rfl | rfl <;> exact ⟨_, rfl⟩

theorem thermocouple_agrees [DecidableEq R] (ps : Props R) (i : Nat)
    (hsrc : IsNat ps (pfx i ++ "_Thermocouple_Input_Source"))
    (hcode : ∀ v, ps.get (pfx i ++ "_Thermocouple_Thermocouple_Type") = some v → ∃ n, n ∈ tcCodes ∧ v = .nat n) :
    AgreesC i Scaling.ThermocoupleScaling
      (do let src ← getNatD ps (pfx i ++ "_Thermocouple_Input_Source") rawSource
          pure (some (.sensor i src)))
      (ThermocoupleScaling.from_properties (pyProps ps) (i : Int)) := by
  rw [thermocouple_from_properties]
  obtain ⟨src, hs, hps⟩ := getMD_nat ps _ rawSource hsrc
  have hc : ∃ n, n ∈ tcCodes ∧ getMD ps (pfx i ++ "_Thermocouple_Thermocouple_Type") (Py.Val.int 10072) = .int (n : Int) := by
    unfold getMD
    cases hk : ps.get (pfx i ++ "_Thermocouple_Thermocouple_Type") with
    | none => exact ⟨10072, by simp [tcCodes], rfl⟩
    | some v =>
      obtain ⟨n, hn, rfl⟩ := hcode v hk
      exact ⟨n, hn, rfl⟩
  obtain ⟨n, hn, hcn⟩ := hc
  obtain ⟨name, hinit⟩ := thermocouple_init_ok n hn
    (getMD ps (pfx i ++ "_Thermocouple_Scaling_Direction") (Py.Val.int 0))
    (getMD ps (pfx i ++ "_Thermocouple_Input_Source") rawV)
  simp only [hs, ok_bind, pure_eq_ok, AgreesC, hcn, hinit]
  exact ⟨_, rfl, by simp only [absScaling, rawV_eq, hps, absSrc_nat, Option.map_some]⟩

end Classes

end Tdms.Proofs.Tied2
