import TdmsProofs.Lemmas.C19StringsChannel

/-!
# C19Strings: windows (`readRawDataForChannel`) without `SizedIn`

C19's window lemmas with the hypothesis "the channel is fixed-width wherever the contiguous reader reads
it" replaced by "every planned chunk of a contiguous segment is readable inside the channel's bytes"
(`WindowReadable`), and the bounds that follow from consistent declared sizes (`SegWF`).  Core Lean only.
-/

namespace Tdms.Proofs.C19S

open Tdms Tdms.Model Tdms.Generated Tdms.Proofs.C05 Tdms.Proofs.C19

/-- what one segment of a window may read: its tag, and the chunks of its plan -/
def SegAllowedG (s : Segment) (p : Bytes) (plan : Option (Int × Int × Int)) (x : Nat × Nat) : Prop :=
  InTag s x ∨ ∃ co skip nc, plan = some (co, skip, nc) ∧ SegDataAllowedG s p co.toNat nc x

def planBudgetG (s : Segment) (p : Bytes) : Option (Int × Int × Int) → Nat
  | none => 0
  | some (co, _, nc) => segBudgetG s p co.toNat nc

/-- the byte budget of a window: per segment 4 tag bytes and the channel's bytes of the planned chunks -/
def windowBudgetG (p : Bytes) (ix : ChannelIndex) (offset endIndex : Int) (startSeg endSeg : Nat) :
    List Segment → Nat → Nat
  | [], _ => 0
  | s :: rest, segIndex =>
    4 + planBudgetG s p (segPlan p ix offset endIndex startSeg endSeg segIndex s) +
      windowBudgetG p ix offset endIndex startSeg endSeg rest (segIndex + 1)

/-- the planned chunks of a contiguous segment are readable inside the channel's bytes -/
def PlanReadable (file : Bytes) (s : Segment) (p : Bytes) (plan : Option (Int × Int × Int)) : Prop :=
  ∀ co skip nc, plan = some (co, skip, nc) → dataReaderKind s = .ok .contiguous →
    SegReadable file s p co.toNat nc

theorem tr_windowLoopG (f : OpenFile) (p : Bytes) (ix : ChannelIndex) (offset endIndex length : Int)
    (startSeg endSeg : Nat) (segs : List Segment) :
    ∀ (segIndex : Nat) (vr : Int),
      (∀ k s, segs[k]? = some s →
        PlanReadable f.file s p (segPlan p ix offset endIndex startSeg endSeg (segIndex + k) s)) →
      Tr (fun _ => True) (windowLoop f p ix offset endIndex length startSeg endSeg segs segIndex vr)
        (fun x => ∃ k s, segs[k]? = some s ∧
          SegAllowedG s p (segPlan p ix offset endIndex startSeg endSeg (segIndex + k) s) x)
        (windowBudgetG p ix offset endIndex startSeg endSeg segs segIndex) (fun _ _ => True) := by
  induction segs with
  | nil => intro segIndex vr _; unfold windowLoop; exact Tr.pure _ (fun _ _ => trivial)
  | cons s rest ih =>
    intro segIndex vr hread
    have hread' : ∀ k s', rest[k]? = some s' →
        PlanReadable f.file s' p (segPlan p ix offset endIndex startSeg endSeg (segIndex + 1 + k) s') := by
      intro k s' hk
      have := hread (k + 1) s' (by simpa using hk)
      have e : segIndex + (k + 1) = segIndex + 1 + k := by omega
      rw [e] at this
      exact this
    have hrest : ∀ vr', Tr (fun _ => True)
        (windowLoop f p ix offset endIndex length startSeg endSeg rest (segIndex + 1) vr')
        (fun x => ∃ k s', (s :: rest)[k]? = some s' ∧
          SegAllowedG s' p (segPlan p ix offset endIndex startSeg endSeg (segIndex + k) s') x)
        (windowBudgetG p ix offset endIndex startSeg endSeg rest (segIndex + 1)) (fun _ _ => True) := by
      intro vr'
      refine (ih (segIndex + 1) vr' hread').conseq (fun _ h => h) (fun x ⟨k, s', hk, hx⟩ => ⟨k + 1, s', ?_, ?_⟩)
        (Nat.le_refl _) (fun _ _ h => h)
      · simpa using hk
      · have : segIndex + (k + 1) = segIndex + 1 + k := by omega
        rw [this]; exact hx
    unfold windowLoop windowBudgetG
    refine Tr.bind (B1 := 4) (Q := fun _ _ => True)
      ((tr_verifySegmentStart f.file s).conseq (fun _ h => h)
        (fun x hx => ⟨0, s, rfl, Or.inl hx⟩) (Nat.le_refl _) (fun _ _ h => h))
      (fun _ => ?_) (Nat.le_of_eq (Nat.add_assoc _ _ _).symm)
    have hr0 := hread 0 s rfl
    rw [Nat.add_zero] at hr0
    cases hplan : segPlan p ix offset endIndex startSeg endSeg segIndex s with
    | none =>
      dsimp only [planBudgetG]
      rw [Nat.zero_add]
      exact hrest vr
    | some plan =>
      obtain ⟨co, skip, nc⟩ := plan
      dsimp only [planBudgetG]
      refine Tr.bind (Q := fun _ _ => True)
        ((tr_segReadChannelG f.file s p co.toNat nc (hr0 co skip nc hplan)).conseq (fun _ h => h)
          (fun x hx => ⟨0, s, rfl, Or.inr ⟨co, skip, nc, by simpa using hplan, hx⟩⟩) (Nat.le_refl _) (fun _ _ h => h))
        (fun chunks => ?_) (Nat.le_refl _)
      refine Tr.bind (B2 := 0) (Q := fun _ _ => True) (hrest _) (fun _ => Tr.pure _ (fun _ _ => trivial))
        (Nat.le_refl _)

/-- every planned chunk of every contiguous segment of the window `(off, len)` of channel `p` is readable
    inside the channel's bytes -/
def WindowReadable (f : OpenFile) (p : Bytes) (off : Int) (len : Option Int) : Prop :=
  ∀ k s, (windowSegs f (windowOf f p off len))[k]? = some s →
    PlanReadable f.file s p (segPlan p (windowOf f p off len).ix off (windowOf f p off len).endIndex
      (windowOf f p off len).startSeg (windowOf f p off len).endSeg ((windowOf f p off len).startSeg + k) s)

theorem tr_readRawDataForChannelG (f : OpenFile) (p : Bytes) (offset : Int) (length : Option Int)
    (hread : WindowReadable f p offset length) :
    Tr (fun _ => True) (readRawDataForChannel f p offset length)
      (fun x => ∃ k s, (windowOf f p offset length).startSeg ≤ k ∧ k ≤ (windowOf f p offset length).endSeg ∧
        f.segments[k]? = some s ∧
        SegAllowedG s p (segPlan p (windowOf f p offset length).ix offset (windowOf f p offset length).endIndex
          (windowOf f p offset length).startSeg (windowOf f p offset length).endSeg k s) x)
      (windowBudgetG p (windowOf f p offset length).ix offset (windowOf f p offset length).endIndex
        (windowOf f p offset length).startSeg (windowOf f p offset length).endSeg
        (windowSegs f (windowOf f p offset length)) (windowOf f p offset length).startSeg) (fun _ _ => True) := by
  rw [readRawDataForChannel_eq]
  refine (tr_windowLoopG f p _ offset _ _ _ _ (windowSegs f (windowOf f p offset length)) _ 0 hread).conseq
    (fun _ h => h) (fun x ⟨k, s, hk, hx⟩ => ?_) (Nat.le_refl _) (fun _ _ h => h)
  obtain ⟨h1, h2⟩ := windowSegs_getElem? f _ k s hk
  exact ⟨_, s, Nat.le_add_right _ _, h2, h1, hx⟩

/-! ## consistent sizes: everything stays inside the planned chunks -/

/-- the bytes `(start, length)` of channel `p` in chunk `j` of a contiguous segment; for a string channel
    the length is the declared `dataSize` (offset table and characters) -/
def channelBytesS (s : Segment) (cs j : Nat) (p : Bytes) : Option (Nat × Nat) :=
  channelSpanS s j p (C19.dataObjs s) (s.dataPosition + j * cs)

theorem channelLoc_within (s : Segment) (j : Nat) (p : Bytes) (os : List SegObj)
    (h1 : ∀ o ∈ os, ∀ sz, o.dataType.bind typeSize = some sz → o.dataSize = o.numberValues * sz)
    (h2 : ∀ o ∈ os, channelNumberValues s o j ≤ o.numberValues)
    (c : Nat) (o : SegObj) (a : Nat) (h : channelLoc s j p os c = some (o, a)) :
    c ≤ a ∧ a + objBytes s j o ≤ c + (os.map (·.dataSize)).sum ∧ o ∈ os ∧ o.path = p := by
  induction os generalizing c with
  | nil => cases h
  | cons o' os ih =>
    have ih := ih (fun o' ho' => h1 o' (List.mem_cons_of_mem _ ho')) (fun o' ho' => h2 o' (List.mem_cons_of_mem _ ho'))
    have hn := h2 o' (List.mem_cons_self ..)
    simp only [List.map_cons, List.sum_cons]
    unfold channelLoc at h
    split at h
    · rename_i hp
      injection h with h
      simp only [Prod.mk.injEq] at h
      obtain ⟨rfl, rfl⟩ := h
      refine ⟨Nat.le_refl _, ?_, List.mem_cons_self .., hp⟩
      unfold objBytes
      cases hsz : o'.dataType.bind typeSize with
      | none => dsimp only; omega
      | some sz =>
        have := h1 o' (List.mem_cons_self ..) sz hsz
        dsimp only
        have : channelNumberValues s o' j * sz ≤ o'.dataSize := by rw [this]; exact Nat.mul_le_mul_right _ hn
        omega
    · split at h
      · have := ih _ h
        exact ⟨by omega, by omega, List.mem_cons_of_mem _ this.2.2.1, this.2.2.2⟩
      · split at h
        · rename_i sz hsz
          have hd := h1 o' (List.mem_cons_self ..) sz hsz
          have : sz * channelNumberValues s o' j ≤ o'.dataSize := by
            rw [hd, Nat.mul_comm]; exact Nat.mul_le_mul_right _ hn
          have := ih _ h
          exact ⟨by omega, by omega, List.mem_cons_of_mem _ this.2.2.1, this.2.2.2⟩
        · cases h

theorem channelSpanS_within (s : Segment) (hwf : SegWF s) (j : Nat) (p : Bytes) (c a len : Nat)
    (h : channelSpanS s j p (C19.dataObjs s) c = some (a, len)) :
    c ≤ a ∧ a + len ≤ c + ((C19.dataObjs s).map (·.dataSize)).sum := by
  unfold channelSpanS at h
  cases hl : channelLoc s j p (C19.dataObjs s) c with
  | none => rw [hl] at h; cases h
  | some oa =>
    obtain ⟨o, a'⟩ := oa
    rw [hl] at h
    simp only [Option.map_some, Option.some.injEq, Prod.mk.injEq] at h
    obtain ⟨rfl, rfl⟩ := h
    have := channelLoc_within s j p (C19.dataObjs s) (fun o ho => hwf.dataSize_eq o ho)
      (fun o ho => channelNumberValues_le s hwf o ho _) c o a' hl
    exact ⟨this.1, this.2.1⟩

/-- with consistent sizes the bytes of a channel (fixed-width or string) lie inside its chunk -/
theorem channelBytesS_inside_chunkBytes (s : Segment) (hwf : SegWF s) (cs : Nat) (hcs : chunkSize s.objects = .ok cs)
    (hk : dataReaderKind s = .ok .contiguous) (j : Nat) (p : Bytes) (a len : Nat)
    (h : channelBytesS s cs j p = some (a, len)) : Inside (a, len) (chunkBytes s cs j) := by
  rcases kind_cases s _ hk with ⟨h, _⟩ | ⟨h, _⟩ | ⟨_, hd⟩
  · cases h
  · cases h
  · have hb := chunkSize_not_daqmx s cs hcs hd
    have := channelSpanS_within s hwf j p _ a len h
    rw [← hb] at this
    exact this

/-- contiguous segments: every data read lies inside the bytes of channel `p` in ONE planned chunk -/
theorem segDataAllowedS_channel (s : Segment) (p : Bytes) (co : Nat) (nc : Int) (x : Nat × Nat)
    (h : SegDataAllowedS s p co nc x) :
    ∃ cs j a len, chunkSize s.objects = .ok cs ∧ co ≤ j ∧ j < co + nc.toNat ∧
      channelBytesS s cs j p = some (a, len) ∧ Inside x (a, a + len) := by
  obtain ⟨cs, hcs, i, hi, a, len, hspan, h1, h2⟩ := h
  rw [chunk_start_eq] at hspan
  exact ⟨cs, co + i, a, len, hcs, by omega, by omega, hspan, h1, h2⟩

theorem segDataAllowedG_in_planned (s : Segment) (hwf : SegWF s) (p : Bytes) (co : Nat) (nc : Int) (x : Nat × Nat)
    (h : SegDataAllowedG s p co nc x) : ∃ cs, chunkSize s.objects = .ok cs ∧ InPlanned s cs co nc.toNat x := by
  rcases h with ⟨hk, h⟩ | ⟨_, h⟩
  · obtain ⟨cs, j, a, len, hcs, hj1, hj2, hb, h1, h2⟩ := segDataAllowedS_channel s p co nc x h
    have hin := channelBytesS_inside_chunkBytes s hwf cs hcs hk j p a len hb
    refine ⟨cs, hcs, ?_, ?_⟩
    · have h3 : s.dataPosition + j * cs ≤ a := hin.1
      have h4 : cs * co ≤ j * cs := by rw [Nat.mul_comm]; exact Nat.mul_le_mul_right _ hj1
      have h1 : a ≤ x.1 := h1
      omega
    · have h3 : a + len ≤ s.dataPosition + j * cs + cs := hin.2
      have h4 : (j + 1) * cs ≤ (co + nc.toNat) * cs := Nat.mul_le_mul_right _ (by omega)
      rw [Nat.add_mul, Nat.one_mul] at h4
      rw [Nat.mul_comm cs (co + nc.toNat)]
      have h2 : x.1 + x.2 ≤ a + len := h2
      omega
  · exact segDataAllowed_in_planned s hwf p co nc x h

theorem segBudgetG_le (s : Segment) (hwf : SegWF s) (p : Bytes) (co : Nat) (nc : Int) :
    segBudgetG s p co nc ≤ plannedBytes s nc.toNat := by
  by_cases hk : dataReaderKind s = .ok .contiguous
  · have hb : segBudgetG s p co nc = segBudgetS s p co nc := by unfold segBudgetG; rw [hk]
    rw [hb]
    unfold segBudgetS plannedBytes
    rcases kind_cases s _ hk with ⟨h, _⟩ | ⟨h, _⟩ | ⟨_, hd⟩
    · cases h
    · cases h
    · cases hcs : chunkSize s.objects with
      | error e => unfold chunkSize at hcs; rw [hd] at hcs; cases hcs
      | ok cs =>
        dsimp only
        have hb := chunkSize_not_daqmx s cs hcs hd
        unfold chunksBudgetS
        refine Nat.le_trans (sum_map_le_length_mul _ _ cs (fun t _ => ?_)) ?_
        · unfold chunkBudgetS
          cases hspan : channelSpanS s (co + (0 + t)) p (C19.dataObjs s) 0 with
          | none => exact Nat.zero_le _
          | some al =>
            obtain ⟨a, len⟩ := al
            have := channelSpanS_within s hwf (co + (0 + t)) p 0 a len hspan
            rw [← hb] at this
            simp only [Option.map_some, Option.getD_some]
            omega
        · rw [List.length_range, Nat.mul_comm]; exact Nat.le_refl _
  · have hb : segBudgetG s p co nc = segBudget s p co nc := by
      unfold segBudgetG
      split
      · rename_i h; exact absurd h hk
      · rfl
    rw [hb]
    exact segBudget_le s hwf p co nc

theorem windowBudgetG_le (p : Bytes) (ix : ChannelIndex) (offset endIndex : Int) (startSeg endSeg : Nat)
    (segs : List Segment) (hwf : ∀ s ∈ segs, SegWF s) (segIndex : Nat) :
    windowBudgetG p ix offset endIndex startSeg endSeg segs segIndex ≤
      windowPlanned p ix offset endIndex startSeg endSeg segs segIndex := by
  induction segs generalizing segIndex with
  | nil => exact Nat.le_refl _
  | cons s rest ih =>
    have ih := ih (fun s' hs' => hwf s' (List.mem_cons_of_mem _ hs')) (segIndex + 1)
    unfold windowBudgetG windowPlanned
    have : planBudgetG s p (segPlan p ix offset endIndex startSeg endSeg segIndex s) ≤
        (match segPlan p ix offset endIndex startSeg endSeg segIndex s with
         | none => 0
         | some (_, _, nc) => plannedBytes s nc.toNat) := by
      cases segPlan p ix offset endIndex startSeg endSeg segIndex s with
      | none => exact Nat.le_refl _
      | some plan =>
        obtain ⟨co, skip, nc⟩ := plan
        exact segBudgetG_le s (hwf s (List.mem_cons_self ..)) p co.toNat nc
    exact Nat.add_le_add (Nat.add_le_add_left this 4) ih

theorem segAllowedG_coarse (s : Segment) (hwf : SegWF s) (p : Bytes) (plan : Option (Int × Int × Int))
    (x : Nat × Nat) (h : SegAllowedG s p plan x) : SegAllowedCoarse s plan x := by
  rcases h with h | ⟨co, skip, nc, hplan, h⟩
  · exact Or.inl h
  · obtain ⟨cs, hcs, hin⟩ := segDataAllowedG_in_planned s hwf p co.toNat nc x h
    exact Or.inr ⟨co, skip, nc, cs, hplan, hcs, hin⟩

/-! ## the skip over the other channels uses only declared sizes -/

/-- without a truncated final chunk the channel's bytes start after the DECLARED data sizes of the data
    objects in front of it: `channelLoc` = first data object with path `p`, at
    `start + Σ dataSize of the objects before it` — no byte of those objects is looked at -/
theorem channelLoc_no_override (s : Segment) (hov : s.override = none) (j : Nat) (p : Bytes) (os : List SegObj) (c : Nat) :
    channelLoc s j p os c =
      (os.find? fun o => decide (o.path = p)).map fun o =>
        (o, c + ((os.takeWhile fun o => !decide (o.path = p)).map (·.dataSize)).sum) := by
  induction os generalizing c with
  | nil => rfl
  | cons o os ih =>
    unfold channelLoc
    have hn : channelNumberValues s o j = o.numberValues := by simp [channelNumberValues, hov]
    by_cases hp : o.path = p
    · simp [hp]
    · rw [if_neg hp, if_pos hn, ih]
      simp only [List.find?_cons, hp, decide_false, List.takeWhile_cons, Bool.not_false, if_true, List.map_cons,
        List.sum_cons, Nat.add_assoc]

end Tdms.Proofs.C19S
