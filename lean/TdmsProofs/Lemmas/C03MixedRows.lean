-- C03 mixed
/-
  C03 (mixed files, windows) — the interleaved reader on a sub-range of chunks, on ARBITRARY bytes:
  reading `b` chunks from chunk `a` of an interleaved segment returns, for every object, the slice
  `[nv·a : nv·(a+b)]` of the column that reading the whole segment returns — whatever the file length
  (rows are cropped to complete rows in both reads).  Core Lean only.
-/
import TdmsProofs.Lemmas.C03Mixed

namespace Tdms.Proofs.C03

open Tdms Tdms.Generated Tdms.Model Tdms.Proofs.Bytes Tdms.Proofs.C04 Tdms.Proofs.C06

/-! ## rows -/

/-- the complete rows of `w` bytes among the `n` rows requested at `pos` (`read_interleaved_segment_bytes`) -/
def rowsAt (file : Bytes) (w pos n : Nat) : List Bytes := splitEvery w n ((file.drop pos).take (w * n))

theorem take_drop_row (file : Bytes) (w pos m : Nat) :
    ((file.drop pos).take (w * (m + 1))).drop w = (file.drop (pos + w)).take (w * m) := by
  rw [List.drop_take, List.drop_drop]
  congr 1
  rw [Nat.mul_succ]; omega

theorem take_take_row (file : Bytes) (w pos m : Nat) :
    ((file.drop pos).take (w * (m + 1))).take w = (file.drop pos).take w := by
  rw [List.take_take, Nat.min_eq_left (by rw [Nat.mul_succ]; omega)]

theorem rowsAt_succ (file : Bytes) (w pos m : Nat) (hw : 0 < w) :
    rowsAt file w pos (m + 1) =
      if file.length < pos + w then [] else (file.drop pos).take w :: rowsAt file w (pos + w) m := by
  unfold rowsAt
  rw [splitEvery]
  have hlen : ((file.drop pos).take (w * (m + 1))).length = min (w * (m + 1)) (file.length - pos) := by
    rw [List.length_take, List.length_drop]
  have hmul : w * (m + 1) = w * m + w := Nat.mul_succ _ _
  by_cases hshort : file.length < pos + w
  · rw [if_pos hshort, if_pos (Or.inl (by rw [hlen]; omega))]
  · rw [if_neg hshort, if_neg (by rw [hlen]; omega), take_take_row, take_drop_row]

theorem rowsAt_zero (file : Bytes) (w pos : Nat) : rowsAt file w pos 0 = [] := by
  simp [rowsAt, splitEvery]

/-- fewer rows requested at the same position: a prefix -/
theorem rowsAt_take (file : Bytes) (w : Nat) (hw : 0 < w) : ∀ (b n pos : Nat), b ≤ n →
    rowsAt file w pos b = (rowsAt file w pos n).take b := by
  intro b
  induction b with
  | zero => intro n pos _; simp [rowsAt_zero]
  | succ b ih =>
    intro n pos hbn
    obtain ⟨n', rfl⟩ : ∃ n', n = n' + 1 := ⟨n - 1, by omega⟩
    rw [rowsAt_succ file w pos b hw, rowsAt_succ file w pos n' hw]
    split
    · rfl
    · rw [List.take_succ_cons, ih n' (pos + w) (by omega)]

/-- **rows of a sub-range**: requesting `b` rows from row `a` returns rows `[a, a+b)` of any larger
    request that starts at row 0 — for every file length -/
theorem rowsAt_sub (file : Bytes) (w : Nat) (hw : 0 < w) : ∀ (a b n pos : Nat), a + b ≤ n →
    rowsAt file w (pos + w * a) b = ((rowsAt file w pos n).drop a).take b := by
  intro a
  induction a with
  | zero =>
    intro b n pos h
    simp only [Nat.mul_zero, Nat.add_zero, List.drop_zero]
    exact rowsAt_take file w hw b n pos (by omega)
  | succ a ih =>
    intro b n pos h
    obtain ⟨n', rfl⟩ : ∃ n', n = n' + 1 := ⟨n - 1, by omega⟩
    rw [rowsAt_succ file w pos n' hw]
    have hpos : pos + w * (a + 1) = pos + w + w * a := by rw [Nat.mul_succ]; omega
    split
    · rename_i hshort
      simp only [List.drop_nil, List.take_nil]
      cases b with
      | zero => exact rowsAt_zero _ _ _
      | succ b =>
        rw [rowsAt_succ file w _ b hw, if_pos (by rw [hpos]; omega)]
    · rw [List.drop_succ_cons, hpos]
      exact ih b n' (pos + w) (by omega)

/-! ## columns -/

theorem colsOf_slice (e : Endian) (rows : List Bytes) (a b : Nat) : ∀ (d : List SegObj) (col : Nat),
    colsOf e ((rows.drop a).take b) col d = (colsOf e rows col d).map fun v => (v.drop a).take b := by
  intro d
  induction d with
  | nil => intro col; rfl
  | cons o os ih =>
    intro col
    simp only [colsOf, List.map_cons, ih, List.map_take, List.map_drop]

theorem chanOf_map (p : Bytes) (g : List Bytes → List Bytes) : ∀ (d : List SegObj) (cols : List (List Bytes)),
    p ∈ d.map (·.path) → cols.length = d.length →
    chanOf p d (cols.map g) = { data := some (g ((chanOf p d cols).data.getD [])) } := by
  intro d
  induction d with
  | nil => intro cols h; cases h
  | cons o os ih =>
    intro cols h hl
    cases cols with
    | nil => cases hl
    | cons v vs =>
      simp only [List.map_cons, chanOf]
      by_cases hp : o.path = p
      · rw [if_pos hp, if_pos hp]; rfl
      · rw [if_neg hp, if_neg hp]
        simp only [List.map_cons, List.mem_cons] at h
        rcases h with h | h
        · exact absurd h.symm hp
        · exact ih vs h (by simpa using hl)

/-! ## the reader in closed form -/

/-- the row width `InterleavedDataReader` computes -/
def widthOf (d : List SegObj) : Except Err Nat :=
  d.foldl (fun acc o => do let a ← acc; let s ← objSize o; pure (a + s)) (.ok 0)

/-- `readInterleavedChunks` on a non-empty object list, as a function of the file state -/
theorem readInterleaved_cons (file : Bytes) (s : Segment) (o0 : SegObj) (os : List SegObj) (n : Nat) (st : FState) :
    readInterleavedChunks file s (o0 :: os) n st =
      if (o0 :: os).any (fun x => decide (x.numberValues ≠ o0.numberValues)) = true then .error .interleavedLengths
      else match widthOf (o0 :: os) with
        | .error x => .error x
        | .ok w =>
          if w = 0 then .error .other
          else match interleavedColumns s.endian (rowsAt file w st.pos (o0.numberValues * n)) 0 (o0 :: os) [] with
            | .ok c => .ok ([c], ⟨st.pos + ((file.drop st.pos).take (w * (o0.numberValues * n))).length,
                st.trace ++ [(st.pos, ((file.drop st.pos).take (w * (o0.numberValues * n))).length)]⟩)
            | .error x => .error x := by
  unfold readInterleavedChunks widthOf
  simp only []
  by_cases hany : ((o0 :: os).any fun x => decide (x.numberValues ≠ o0.numberValues)) = true
  · rw [if_pos hany, if_pos hany]; rfl
  · rw [if_neg hany, if_neg hany]
    simp only [pure_bind]
    generalize List.foldl _ _ (o0 :: os) = w
    cases w with
    | error x => rfl
    | ok w =>
      simp only []
      have hread : fRead file (w * (o0.numberValues * n)) st =
          .ok ((file.drop st.pos).take (w * (o0.numberValues * n)),
            ⟨st.pos + ((file.drop st.pos).take (w * (o0.numberValues * n))).length,
              st.trace ++ [(st.pos, ((file.drop st.pos).take (w * (o0.numberValues * n))).length)]⟩) := rfl
      unfold readRows
      simp only [bind_assoc]
      rw [F_bind_ok hread]
      by_cases hw : w = 0
      · rw [if_pos hw, if_pos hw]; rfl
      · rw [if_neg hw, if_neg hw]
        simp only [pure_bind]
        unfold rowsAt
        cases interleavedColumns s.endian (splitEvery w (o0.numberValues * n)
          ((file.drop st.pos).take (w * (o0.numberValues * n)))) 0 (o0 :: os) [] with
        | ok c => rfl
        | error x => rfl

/-- the column selection succeeds as soon as every object has a sized type -/
theorem interleavedColumns_ok (e : Endian) (rows : List Bytes) : ∀ (d : List SegObj) (col : Nat) (acc : RawChunk),
    (∀ o ∈ d, ∃ sz, objSize o = .ok sz) →
    interleavedColumns e rows col d acc = .ok (setCols acc d (colsOf e rows col d)) := by
  intro d
  induction d with
  | nil => intro col acc _; rfl
  | cons o os ih =>
    intro col acc h
    obtain ⟨sz, hsz⟩ := h o List.mem_cons_self
    have hobj : objSz o = sz := by
      unfold objSize at hsz
      unfold objSz
      cases hty : o.dataType with
      | none => rw [hty] at hsz; cases hsz
      | some ty =>
        rw [hty] at hsz
        simp only [] at hsz
        cases hts : typeSize ty with
        | none => rw [hts] at hsz; cases hsz
        | some z => rw [hts] at hsz; cases hsz; simp [hts]
    unfold interleavedColumns
    simp only [hsz, bind, Except.bind]
    rw [ih _ _ (fun x hx => h x (List.mem_cons_of_mem _ hx))]
    simp only [colsOf, setCols, hobj]

theorem interleavedColumns_sized (e : Endian) (rows : List Bytes) : ∀ (d : List SegObj) (col : Nat) (acc c : RawChunk),
    interleavedColumns e rows col d acc = .ok c → ∀ o ∈ d, ∃ sz, objSize o = .ok sz := by
  intro d
  induction d with
  | nil => intro _ _ _ _ o ho; cases ho
  | cons o os ih =>
    intro col acc c h x hx
    unfold interleavedColumns at h
    cases hsz : objSize o with
    | error e' => simp [hsz, bind, Except.bind] at h
    | ok sz =>
      simp only [hsz, bind, Except.bind] at h
      rcases List.mem_cons.mp hx with rfl | hx
      · exact ⟨sz, hsz⟩
      · exact ih _ _ c h x hx

/-- what the success of one interleaved read (any position, any chunk count) says about the objects -/
structure InterStatic (d : List SegObj) (nv w : Nat) : Prop where
  same : ∀ o ∈ d, o.numberValues = nv
  width : widthOf d = .ok w
  pos : w ≠ 0
  sized : ∀ o ∈ d, ∃ sz, objSize o = .ok sz

theorem interStatic_of_read (file : Bytes) (s : Segment) (o0 : SegObj) (os : List SegObj) (n : Nat) (st st' : FState)
    (cs : List RawChunk) (h : readInterleavedChunks file s (o0 :: os) n st = .ok (cs, st')) :
    ∃ w, InterStatic (o0 :: os) o0.numberValues w := by
  rw [readInterleaved_cons] at h
  split at h
  · cases h
  · rename_i hany
    split at h
    · cases h
    · rename_i w hw
      split at h
      · cases h
      · rename_i hw0
        split at h
        · rename_i c hc
          refine ⟨w, ?_, hw, hw0, interleavedColumns_sized _ _ _ _ _ _ hc⟩
          intro o ho
          rcases Nat.lt_or_ge o.numberValues o0.numberValues with hlt | hge
          · exact absurd (List.any_eq_true.mpr ⟨o, ho, by simp; omega⟩) hany
          · rcases Nat.lt_or_ge o0.numberValues o.numberValues with hlt | hge'
            · exact absurd (List.any_eq_true.mpr ⟨o, ho, by simp; omega⟩) hany
            · omega
        · cases h

/-- **closed form**: with the static conditions, every interleaved read succeeds and returns one chunk
    holding the columns of the complete rows -/
theorem readInterleaved_closed (file : Bytes) (s : Segment) (o0 : SegObj) (os : List SegObj) (w : Nat)
    (hs : InterStatic (o0 :: os) o0.numberValues w) (n : Nat) (st : FState) :
    ∃ st', readInterleavedChunks file s (o0 :: os) n st =
      .ok ([setCols [] (o0 :: os) (colsOf s.endian (rowsAt file w st.pos (o0.numberValues * n)) 0 (o0 :: os))], st') := by
  rw [readInterleaved_cons]
  have hany : ¬ ((o0 :: os).any (fun x => decide (x.numberValues ≠ o0.numberValues)) = true) := by
    intro h
    obtain ⟨o, ho, hne⟩ := List.any_eq_true.mp h
    have := hs.same o ho
    simp at hne
    exact hne this
  rw [if_neg hany, hs.width]
  simp only []
  rw [if_neg hs.pos, interleavedColumns_ok _ _ _ _ _ hs.sized]
  exact ⟨_, rfl⟩

end Tdms.Proofs.C03

