import TdmsProofs.Lemmas.C04WindowSeg

/-!
# C04 (windows): the per-segment arithmetic of `segPlan`

`planA` is `segPlan` on a layout; `segPlan_eq_planA` ties it to the model.  `seg_step` shows that the
chunk offset / number of chunks / values to skip computed by `segPlan`, fed to `trimStream`, cut the
segment's values to the window.  Core Lean only.
-/

namespace Tdms.Proofs.C04

open Tdms Tdms.Model

/-- `segment_start_index` as `segPlan` looks it up -/
def segStartOf (ix : ChannelIndex) (i : Nat) : Int :=
  if i = ix.firstSegment then 0 else ((ix.offsets.getD (i - ix.firstSegment - 1) 0 : Nat) : Int)

/-- `segment_end_index` as `segPlan` looks it up -/
def segEndOf (ix : ChannelIndex) (i : Nat) : Int := ((ix.offsets.getD (i - ix.firstSegment) 0 : Nat) : Int)

/-- `segPlan` on a layout, with the looked-up `to_skip` and `to_trim` as arguments -/
def planA (l : SegL) (isStart isEnd : Bool) (toSkip toTrim : Int) : Option (Int × Int × Int) :=
  if l.cs = 0 then none
  else
    let (chunkOffset, skip, numChunks) : Int × Int × Int :=
      if isStart then (toSkip / l.cs, toSkip % l.cs, (l.k : Int) - toSkip / l.cs) else (0, 0, l.k)
    let numChunks : Int :=
      if isEnd then
        let finalSize : Int := match l.f with
          | none => l.cs
          | some n => n
        let (numChunks, toTrim) := if toTrim ≥ finalSize then (numChunks - 1, toTrim - finalSize) else (numChunks, toTrim)
        numChunks - toTrim / l.cs
      else numChunks
    some (chunkOffset, skip, numChunks)

theorem segPlan_eq_planA (p : Bytes) (ix : ChannelIndex) (offset endIndex : Int) (startSeg endSeg i : Nat)
    (s : Segment) :
    segPlan p ix offset endIndex startSeg endSeg i s =
      planA (layoutOf p s) (decide (i = startSeg)) (decide (i = endSeg))
        (offset - segStartOf ix i) (segEndOf ix i - endIndex) := by
  unfold segPlan planA layoutOf segStartOf segEndOf
  cases s.override <;> simp only [Option.map, decide_eq_true_eq] <;> rfl

/-- length of the segment's final chunk -/
def SegL.fs (l : SegL) : Nat :=
  match l.f with
  | none => l.cs
  | some n => n

theorem fs_le (l : SegL) (hwf : l.WF) : l.fs ≤ l.cs := by
  unfold SegL.fs; unfold SegL.WF at hwf
  cases hf : l.f with
  | none => simp
  | some n => rw [hf] at hwf; exact hwf.1

theorem nvals_eq (l : SegL) (hwf : l.WF) (hcs : 0 < l.cs) :
    l.nvals = if l.k = 0 then 0 else l.cs * (l.k - 1) + l.fs := by
  unfold SegL.nvals SegL.fs; unfold SegL.WF at hwf
  rw [if_neg (by omega)]
  cases hf : l.f with
  | none =>
    simp only []
    split
    · simp_all
    · obtain ⟨k', hk⟩ : ∃ k', l.k = k' + 1 := ⟨l.k - 1, by omega⟩
      rw [hk, Nat.mul_succ]; simp
  | some n =>
    rw [hf] at hwf
    simp only []
    rw [if_neg (by omega)]

theorem chunkLen_eq (l : SegL) (j : Nat) : l.chunkLen j = if j + 1 = l.k then l.fs else l.cs := by
  unfold SegL.chunkLen SegL.fs
  cases l.f <;> simp

/-! ## arithmetic -/

theorem start_arith (cs k' fs : Nat) (a : Int) (hcs : 0 < cs) (hfs : fs ≤ cs)
    (h0 : 0 ≤ a) (h1 : a < ((cs * k' + fs : Nat) : Int)) :
    ∃ co : Nat, a / (cs : Int) = co ∧ a % (cs : Int) = a - ((cs * co : Nat) : Int) ∧ co < k' + 1 ∧
      ((cs * co : Nat) : Int) ≤ a ∧ a < ((cs * (co + 1) : Nat) : Int) ∧
      (co = k' → a < ((cs * co : Nat) : Int) + fs) := by
  have hc : (0 : Int) < cs := by omega
  have hd := Int.mul_ediv_add_emod a cs
  have hr0 := Int.emod_nonneg a (Int.ne_of_gt hc)
  have hr1 := Int.emod_lt_of_pos a hc
  have hA0 : 0 ≤ a / (cs : Int) := Int.ediv_nonneg h0 (by omega)
  generalize a / (cs : Int) = A at *
  generalize a % (cs : Int) = r at *
  have hAk : A < (k' : Int) + 1 := by
    apply Int.lt_of_mul_lt_mul_left (a := (cs : Int)) _ (by omega)
    rw [Int.mul_add]
    simp only [Int.natCast_add, Int.natCast_mul] at h1
    omega
  refine ⟨A.toNat, (Int.toNat_of_nonneg hA0).symm, ?_, by omega, ?_, ?_, ?_⟩
  · simp only [Int.natCast_mul, Int.toNat_of_nonneg hA0]; omega
  · simp only [Int.natCast_mul, Int.toNat_of_nonneg hA0]; omega
  · simp only [Int.natCast_mul, Int.natCast_add, Int.toNat_of_nonneg hA0, Int.mul_add]; omega
  · intro hk
    have hk' : A = k' := by omega
    simp only [Int.natCast_mul, Int.natCast_add, Int.toNat_of_nonneg hA0] at h1 ⊢
    rw [hk']; omega

/-- the adjustment of `num_chunks` in the end segment -/
def endAdj (cs fs : Nat) (t nc0 : Int) : Int :=
  if t ≥ (fs : Int) then nc0 - 1 - (t - fs) / (cs : Int) else nc0 - t / (cs : Int)

theorem end_arith (cs k' fs : Nat) (e nc0 : Int) (hcs : 0 < cs) (hfs : fs ≤ cs)
    (he0 : 0 ≤ e) (heN : e ≤ ((cs * k' + fs : Nat) : Int)) :
    ∃ E : Nat, E ≤ k' + 1 ∧ endAdj cs fs (((cs * k' + fs : Nat) : Int) - e) nc0 = nc0 - ((k' + 1 : Nat) : Int) + E ∧
      (E = k' + 1 ∨ e ≤ ((cs * E : Nat) : Int)) ∧ (0 < E → ((cs * E : Nat) : Int) - cs < e) := by
  have hc : (0 : Int) < cs := by omega
  simp only [Int.natCast_add, Int.natCast_mul] at heN
  unfold endAdj
  simp only [Int.natCast_add, Int.natCast_mul, Int.natCast_one]
  by_cases ht : (cs : Int) * k' + fs - e ≥ fs
  · rw [if_pos ht]
    have ht' : (cs : Int) * k' + fs - e - fs = (cs : Int) * k' - e := by omega
    rw [ht']
    have hd := Int.mul_ediv_add_emod ((cs : Int) * k' - e) cs
    have hr0 := Int.emod_nonneg ((cs : Int) * k' - e) (Int.ne_of_gt hc)
    have hr1 := Int.emod_lt_of_pos ((cs : Int) * k' - e) hc
    have hB0 : 0 ≤ ((cs : Int) * k' - e) / (cs : Int) := Int.ediv_nonneg (by omega) (by omega)
    generalize ((cs : Int) * k' - e) / (cs : Int) = B at *
    generalize ((cs : Int) * k' - e) % (cs : Int) = r at *
    have hmul : (cs : Int) * ((k' : Int) - B) = (cs : Int) * k' - (cs : Int) * B := Int.mul_sub _ _ _
    have hE0 : 0 ≤ (k' : Int) - B := by
      apply Int.le_of_mul_le_mul_left (a := (cs : Int)) _ hc
      omega
    refine ⟨((k' : Int) - B).toNat, by omega, ?_, Or.inr ?_, ?_⟩
    · rw [Int.toNat_of_nonneg hE0]; omega
    · rw [Int.toNat_of_nonneg hE0, hmul]; omega
    · intro _; rw [Int.toNat_of_nonneg hE0, hmul]; omega
  · rw [if_neg ht]
    have : ((cs : Int) * k' + fs - e) / (cs : Int) = 0 := Int.ediv_eq_zero_of_lt (by omega) (by omega)
    rw [this]
    refine ⟨k' + 1, by omega, by simp, Or.inl rfl, ?_⟩
    intro _
    simp only [Int.natCast_add, Int.natCast_one, Int.mul_add]
    omega


theorem planA_eq (l : SegL) (hcs : l.cs ≠ 0) (isStart isEnd : Bool) (toSkip toTrim : Int) :
    planA l isStart isEnd toSkip toTrim =
      some (if isStart then toSkip / (l.cs : Int) else 0, if isStart then toSkip % (l.cs : Int) else 0,
        if isEnd then endAdj l.cs l.fs toTrim (if isStart then (l.k : Int) - toSkip / (l.cs : Int) else l.k)
        else (if isStart then (l.k : Int) - toSkip / (l.cs : Int) else l.k)) := by
  unfold planA endAdj SegL.fs
  rw [if_neg hcs]
  cases isStart <;> cases isEnd <;> cases l.f <;> simp only [Bool.false_eq_true, if_false, if_true] <;>
    first | rfl | (split <;> rfl)

/-- one segment of the loop: the plan exists, and its chunks streamed through `trimStream` are the
    segment's values cut to the window `[a, e)` (relative to the segment start) -/
theorem seg_step (l : SegL) (v : Nat → List Bytes) (hwf : l.WF) (hcs : 0 < l.cs) (hv : ChunksOk l v)
    (isStart isEnd : Bool) (a e vr : Int)
    (hs : isStart = true → 0 ≤ a ∧ a < l.nvals) (hns : isStart = false → a < 0)
    (hvr : vr = if isStart then 0 else -a)
    (he : isEnd = true → e ≤ l.nvals ∧ a ≤ e ∧ (isStart = false → 0 < e))
    (hne : isEnd = false → (l.nvals : Int) ≤ e) :
    ∃ co skip nc, planA l isStart isEnd a (l.nvals - e) = some (co, skip, nc) ∧
      dataOf (trimStream (e - a) (wrap ((List.range' co.toNat nc.toNat).map v)) skip.toNat vr).1
        = sl (segVals l v) a e ∧
      (isEnd = false →
        (trimStream (e - a) (wrap ((List.range' co.toNat nc.toNat).map v)) skip.toNat vr).2 = l.nvals - a) := by
  rw [planA_eq l (by omega)]
  refine ⟨_, _, _, rfl, ?_⟩
  have hN := nvals_eq l hwf hcs
  have hfs := fs_le l hwf
  cases isStart with
  | true =>
    obtain ⟨ha0, haN⟩ := hs rfl
    have hk0 : l.k ≠ 0 := by
      intro h; rw [h] at hN; simp at hN; omega
    obtain ⟨k', hk⟩ : ∃ k', l.k = k' + 1 := ⟨l.k - 1, by omega⟩
    rw [if_neg hk0, hk] at hN
    simp only [Nat.add_sub_cancel] at hN
    rw [hN] at haN
    obtain ⟨co, hco, hskip, hcok, hpre, hlt, hlast⟩ := start_arith l.cs k' l.fs a hcs hfs ha0 haN
    simp only [if_true] at hvr ⊢
    rw [hco, hskip, hk]
    have h3 : a ≤ ((l.cs * co : Nat) : Int) + l.chunkLen co := by
      rw [chunkLen_eq]
      by_cases h : co + 1 = l.k
      · rw [if_pos h]; have := hlast (by omega); omega
      · rw [if_neg h]; rw [Nat.mul_succ] at hlt; omega
    have hsk : ((a - ((l.cs * co : Nat) : Int)).toNat : Int) = max 0 (a - ((l.cs * co : Nat) : Int)) := by omega
    have hvr' : vr = ((l.cs * co : Nat) : Int) - a + ((a - ((l.cs * co : Nat) : Int)).toNat : Int) := by omega
    have hmk : l.cs * (k' + 1) = l.cs * k' + l.cs := Nat.mul_succ _ _
    cases isEnd with
    | false =>
      have hne' := hne rfl
      simp only [Bool.false_eq_true, if_false, Int.toNat_natCast]
      have hn : (((k' + 1 : Nat) : Int) - (co : Int)).toNat = k' + 1 - co := by omega
      rw [hn]
      have := seg_run l v hwf hcs hv co (k' + 1 - co) a e _ vr (Or.inl (by omega)) (by omega) (Or.inl hpre)
        hsk hvr' h3 (by omega)
        (by intro _
            have : co + (k' + 1 - co) = k' + 1 := by omega
            rw [this, hmk]; omega)
        (Or.inl (by omega))
      exact ⟨this.1, fun _ => this.2 (by omega) (Or.inl (by omega))⟩
    | true =>
      obtain ⟨heN, hae, _⟩ := he rfl
      rw [hN] at heN
      obtain ⟨E, hEk, hadj, hE6, hE5⟩ := end_arith l.cs k' l.fs e (((k' + 1 : Nat) : Int) - (co : Int)) hcs hfs
        (by omega) heN
      simp only [if_true, Int.toNat_natCast]
      rw [hN, hadj]
      have hcoE : co ≤ E := by
        rcases hE6 with h | h
        · omega
        · have hh : l.cs * co ≤ l.cs * E := by omega
          exact Nat.le_of_mul_le_mul_left hh hcs
      have hn : (((k' + 1 : Nat) : Int) - (co : Int) - ((k' + 1 : Nat) : Int) + (E : Int)).toNat = E - co := by omega
      rw [hn]
      have hE : co + (E - co) = E := by omega
      have := seg_run l v hwf hcs hv co (E - co) a e _ vr (Or.inl (by omega)) (by omega) (Or.inl hpre)
        hsk hvr' h3 (by omega)
        (by intro _; rw [hE]; have := hE5 (by omega); omega)
        (by rw [hE, hk]; exact hE6)
      exact ⟨this.1, fun h => by simp at h⟩
  | false =>
    have ha := hns rfl
    simp only [Bool.false_eq_true, if_false] at hvr ⊢
    simp only [Int.toNat_zero]
    have hz : l.cs * 0 = 0 := Nat.mul_zero _
    cases isEnd with
    | false =>
      have hne' := hne rfl
      simp only [Bool.false_eq_true, if_false, Int.toNat_natCast]
      have := seg_run l v hwf hcs hv 0 l.k a e 0 vr (Or.inr rfl) (by omega) (Or.inr rfl)
        (by rw [hz]; omega) (by rw [hz]; omega) (by rw [hz]; omega) (by rw [Nat.zero_add, Nat.mul_one]; omega)
        (by intro hk0
            obtain ⟨k', hk⟩ : ∃ k', l.k = k' + 1 := ⟨l.k - 1, by omega⟩
            rw [if_neg (by omega), hk] at hN
            simp only [Nat.add_sub_cancel] at hN
            rw [Nat.zero_add, hk, Nat.mul_succ]; omega)
        (Or.inl (by omega))
      exact ⟨this.1, fun _ => this.2 (by omega) (Or.inr (by omega))⟩
    | true =>
      obtain ⟨heN, hae, he0⟩ := he rfl
      have he0 := he0 rfl
      have hk0 : l.k ≠ 0 := by
        intro h; rw [h] at hN; simp at hN; omega
      obtain ⟨k', hk⟩ : ∃ k', l.k = k' + 1 := ⟨l.k - 1, by omega⟩
      rw [if_neg hk0, hk] at hN
      simp only [Nat.add_sub_cancel] at hN
      rw [hN] at heN
      obtain ⟨E, hEk, hadj, hE6, hE5⟩ := end_arith l.cs k' l.fs e ((k' + 1 : Nat) : Int) hcs hfs
        (by omega) heN
      simp only [if_true]
      rw [hN, hk, hadj]
      have hn : (((k' + 1 : Nat) : Int) - ((k' + 1 : Nat) : Int) + (E : Int)).toNat = E := by omega
      rw [hn]
      have := seg_run l v hwf hcs hv 0 E a e 0 vr (Or.inr rfl) (by omega) (Or.inr rfl)
        (by rw [hz]; omega) (by rw [hz]; omega) (by rw [hz]; omega) (by rw [Nat.zero_add, Nat.mul_one]; omega)
        (by intro h; rw [Nat.zero_add]; have := hE5 h; omega)
        (by rw [Nat.zero_add, hk]; exact hE6)
      exact ⟨this.1, fun h => by simp at h⟩

end Tdms.Proofs.C04
