import TdmsProofs.Lemmas.C07Lemmas
import Tdms.Generated.Code2

/-!
# Writer decisions (generated from `nptdms/writer.py`, `nptdms/common.py`) against `Tdms/Model/Writer.lean`

Representation: a model object `o : WObj` stands for the Python object `pyWObj nameOf o` (`RootObject` /
`GroupObject` / `ChannelObject`; `nameOf` turns the UTF-8 name of the model into the Python `str`, any function; the
channel data are the already encoded values `d.vals`, the `data_type` property is the type code `d.ty`).  A typed
value (`Uint32(20)`, `Bytes(b'…')`, …) stands for its bytes: `mkU32`, `mkU64`, `mkI32`, `mkBytes`.
-/

namespace Tdms.Proofs.Tied2W

open Tdms Tdms.Generated Tdms.Generated.Code2 Tdms.Model.Writer

theorem ok_bind' {ε α β : Type} (a : α) (f : α → Except ε β) : (Except.ok a >>= f) = f a := rfl
theorem pure_eq_ok' {ε α : Type} (a : α) : (pure a : Except ε α) = .ok a := rfl

/-! ## typed values as bytes -/

def mkU32 (n : Int) : Bytes := encLE 4 (ofSigned 4 n)
def mkU64 (n : Int) : Bytes := encLE 8 (ofSigned 8 n)
def mkI32 (n : Int) : Bytes := encLE 4 (ofSigned 4 n)
def mkBytes (l : List Int) : Bytes := l.map fun i => UInt8.ofNat i.toNat

theorem ofSigned_natCast (w n : Nat) (h : n < 2 ^ (8 * w)) : ofSigned w (n : Int) = n := by
  unfold ofSigned
  have : ((n : Int) % ((2 ^ (8 * w) : Nat) : Int)) = (n : Int) := Int.emod_eq_of_lt (by omega) (by exact_mod_cast h)
  rw [this]; simp

theorem mkU32_nat (n : Nat) (h : n < 2 ^ 32) : mkU32 (n : Int) = encLE 4 n := by
  unfold mkU32; rw [ofSigned_natCast 4 n (by simpa using h)]

theorem mkU64_nat (n : Nat) (h : n < 2 ^ 64) : mkU64 (n : Int) = encLE 8 n := by
  unfold mkU64; rw [ofSigned_natCast 8 n (by simpa using h)]

/-- the size of the values of a type, `data_type.size` (`None` for strings: never read for them) -/
def typeSizeOf (ty : Int) : Int := (((typeSize ty.toNat).getD 0 : Nat) : Int)

/-- `s.encode("utf-8")` on values that are already encoded -/
def encodeId (s : Bytes) (_ : List Char) : Except Py.Exc Bytes := .ok s

def itemLen (s : Bytes) : Int := (s.length : Int)

/-! ## objects -/

/-- the `properties` argument of an object: `None` (the default) stands for "no properties" -/
def propsOf (props : List WProp) : Option (List WProp) := if props = [] then none else some props

def pyWObj (nameOf : Bytes → List Char) : WObj → WObject (List WProp) Bytes
  | .root props => .RootObject ⟨propsOf props⟩
  | .group g props => .GroupObject ⟨some (nameOf g), propsOf props⟩
  | .channel g c d props => .ChannelObject ⟨nameOf g, nameOf c, d.vals, (d.ty : Int), propsOf props⟩

def pySegment (nameOf : Bytes → List Char) (objs : List WObj) (version : Nat) (isIndex : Bool) :
    TdmsSegment (List WProp) Bytes :=
  ⟨objs.map (pyWObj nameOf), (version : Int), isIndex⟩

/-- the `ObjectPath` of an object (what `ObjectPath.from_string(o.path)` gives back; the round trip through the path
    string is C16) -/
def pyPath (nameOf : Bytes → List Char) : WObj → ObjectPath
  | .root _ => ⟨none, none⟩
  | .group g _ => ⟨some (nameOf g), none⟩
  | .channel g c _ _ => ⟨some (nameOf g), some (nameOf c)⟩

/-! ## `to_int_property_value`, `_infer_dtype`, `_path_ordering_key` -/

theorem to_int_property_value_eq (v : Int) :
    to_int_property_value (fun x => (tyUint64, x)) (fun x => (tyInt64, x)) (fun x => (tyInt32, x)) v =
      (intPropertyType v, v) := by
  unfold to_int_property_value
  rw [Tdms.Proofs.C07.intPropertyType_eq]
  simp only [ge_iff_le]
  by_cases h1 : (2 : Int) ^ 63 ≤ v
  · simp only [h1, if_true]
  · by_cases h2 : (2 : Int) ^ 31 ≤ v ∨ v < -2 ^ 31
    · simp only [h1, h2, if_true, if_false]
    · simp only [h1, h2, if_false]

theorem maxE_eq (data : List Int) (h : data ≠ []) : Py.maxE data = .ok (listMax data) := by
  cases data with
  | nil => exact absurd rfl h
  | cons x xs => rfl

theorem minE_eq (data : List Int) (h : data ≠ []) : Py.minE data = .ok (listMin data) := by
  cases data with
  | nil => exact absurd rfl h
  | cons x xs => rfl

theorem infer_dtype_eq (data : List Int) (h : data ≠ []) :
    _infer_dtype String.ofList data = .ok (some (inferDtype data)) := by
  unfold _infer_dtype
  rw [Tdms.Proofs.C07.inferDtype_eq]
  cases data with
  | nil => exact absurd rfl h
  | cons x xs =>
    have hm := maxE_eq (x :: xs) h
    have hn := minE_eq (x :: xs) h
    have hidx : Py.index (x :: xs) 0 = .ok x := rfl
    simp only [List.isEmpty_cons, Bool.not_false, if_true, hidx, ok_bind', pure_eq_ok', hm, hn]
    generalize listMax (x :: xs) = mx
    generalize listMin (x :: xs) = mn
    have e1 : String.ofList ['u', 'i', 'n', 't', '6', '4'] = "uint64" := by decide
    have e2 : String.ofList ['i', 'n', 't', '6', '4'] = "int64" := by decide
    have e3 : String.ofList ['u', 'i', 'n', 't', '3', '2'] = "uint32" := by decide
    have e4 : String.ofList ['i', 'n', 't', '3', '2'] = "int32" := by decide
    have e5 : String.ofList ['u', 'i', 'n', 't', '1', '6'] = "uint16" := by decide
    have e6 : String.ofList ['i', 'n', 't', '1', '6'] = "int16" := by decide
    have e7 : String.ofList ['u', 'i', 'n', 't', '8'] = "uint8" := by decide
    have e8 : String.ofList ['i', 'n', 't', '8'] = "int8" := by decide
    simp only [show ((-1 : Int) * 2 ^ 31) = -2 ^ 31 by decide, show ((-1 : Int) * 2 ^ 15) = -2 ^ 15 by decide,
      show ((-1 : Int) * 2 ^ 7) = -2 ^ 7 by decide, ge_iff_le, e1, e2, e3, e4, e5, e6, e7, e8]
    simp only [apply_ite (fun s : String => (Except.ok (some s) : Except Py.Exc (Option String)))]

theorem infer_dtype_empty : _infer_dtype String.ofList [] = .ok none := rfl

theorem path_ordering_key_eq (nameOf : Bytes → List Char) (o : WObj) :
    _path_ordering_key (pyPath nameOf o) = some ((o.key : Nat) : Int) := by
  cases o <;> rfl

/-! ## `object_data_size`, `raw_data_index`, `_data_size`, `leadin` -/

theorem mapE_ok {α β : Type} (xs : List α) (f : α → β) :
    Py.mapE xs (fun x => (Except.ok (f x) : Except Py.Exc β)) = .ok (xs.map f) := by
  induction xs with
  | nil => rfl
  | cons x xs ih => simp only [Py.mapE, ih, List.map_cons]

theorem sum_map_len (vals : List Bytes) :
    Py.sum (vals.map fun s => 4 + itemLen s) = (((vals.map fun s => 4 + s.length).sum : Nat) : Int) := by
  unfold Py.sum
  suffices h : ∀ (acc : Nat), List.foldl (· + ·) (acc : Int) (vals.map fun s => 4 + itemLen s) =
      ((acc + (vals.map fun s => 4 + s.length).sum : Nat) : Int) by simpa using h 0
  induction vals with
  | nil => intro acc; simp
  | cons v vs ih =>
    intro acc
    simp only [List.map_cons, List.foldl_cons, List.sum_cons]
    have : (acc : Int) + (4 + itemLen v) = ((acc + (4 + v.length) : Nat) : Int) := by unfold itemLen; omega
    rw [this, ih]
    congr 1; omega

theorem object_data_size_eq (d : WData) :
    object_data_size typeSizeOf encodeId itemLen (d.ty : Int) d.vals = .ok ((objectDataSize d : Nat) : Int) := by
  unfold object_data_size objectDataSize
  by_cases hs : d.ty = tyString
  · have e : ((tyString : Nat) : Int) = String.enum_value := rfl
    have hm : Py.mapE d.vals (fun s => encodeId s ['u', 't', 'f', '-', '8']) = .ok d.vals := by
      have := mapE_ok d.vals (fun s : Bytes => s)
      simpa [encodeId] using this
    simp only [hs, e, if_true, hm, ok_bind', pure_eq_ok', Py.tryCatch, sum_map_len]
  · have : ¬ (((d.ty : Nat) : Int) = String.enum_value) := by
      intro h; apply hs
      have : ((d.ty : Nat) : Int) = ((tyString : Nat) : Int) := h
      exact_mod_cast this
    simp only [this, if_false, hs]
    by_cases he : d.vals.isEmpty = true
    · have : d.vals = [] := List.isEmpty_iff.mp he
      simp [this, Py.len, pure_eq_ok']
    · have hne : ¬ ((d.vals.length : Int) = 0) := by
        intro h
        apply he
        have : d.vals.length = 0 := by omega
        exact List.isEmpty_iff.mpr (List.eq_nil_of_length_eq_zero this)
      simp only [Py.len, hne, if_false, he, Bool.false_eq_true, pure_eq_ok', typeSizeOf, Int.toNat_natCast]
      congr 1

variable (nameOf : Bytes → List Char)

/-- the data size of one object (`0` for root / group objects) -/
def objSize : WObj → Nat
  | .channel _ _ d _ => objectDataSize d
  | _ => 0

theorem dataSize_eq_sum (objs : List WObj) : dataSize objs = (objs.map objSize).sum := by
  unfold dataSize
  congr 1

theorem forE_sizes (f : WObject (List WProp) Bytes → Int → Except Py.Exc (Py.Step Int))
    (hf : ∀ (o : WObj) (acc : Int), f (pyWObj nameOf o) acc = .ok (.next (acc + ((objSize o : Nat) : Int)))) :
    ∀ (objs : List WObj) (acc : Int),
      Py.forE (objs.map (pyWObj nameOf)) acc f = .ok (acc + (((objs.map objSize).sum : Nat) : Int)) := by
  intro objs
  induction objs with
  | nil => intro acc; simp [Py.forE]
  | cons o os ih =>
    intro acc
    simp only [List.map_cons, Py.forE, hf, ih, List.sum_cons]
    congr 1; push_cast; omega

theorem data_size_of_body (f : WObject (List WProp) Bytes → Int → Except Py.Exc (Py.Step Int))
    (hf : ∀ (o : WObj) (acc : Int), f (pyWObj nameOf o) acc = .ok (.next (acc + ((objSize o : Nat) : Int))))
    (objs : List WObj) :
    (do let ds ← Py.forE (objs.map (pyWObj nameOf)) (0 : Int) f; pure ds) = (.ok ((dataSize objs : Nat) : Int) : Except Py.Exc Int) := by
  rw [forE_sizes nameOf f hf objs 0, dataSize_eq_sum]
  simp only [Int.zero_add]

theorem data_size_eq (objs : List WObj) (version : Nat) (isIndex : Bool) :
    TdmsSegment._data_size typeSizeOf encodeId itemLen (pySegment nameOf objs version isIndex) =
      .ok ((dataSize objs : Nat) : Int) := by
  unfold TdmsSegment._data_size pySegment
  refine data_size_of_body nameOf _ ?_ objs
  intro o acc
  cases o with
  | root p => simp [pyWObj, WObject.data?, objSize, pure_eq_ok']
  | group g p => simp [pyWObj, WObject.data?, objSize, pure_eq_ok']
  | channel g c d p =>
    simp only [pyWObj, WObject.data?, WObject.data_type?, Py.attr, ok_bind', object_data_size_eq d, pure_eq_ok', objSize]

/-! ## `raw_data_index`, `leadin` -/

theorem encLE_mod (w n : Nat) : encLE w (n % 2 ^ (8 * w)) = encLE w n := by
  induction w generalizing n with
  | zero => rfl
  | succ w ih =>
    have hp : 2 ^ (8 * (w + 1)) = 256 * 2 ^ (8 * w) := by
      rw [show 8 * (w + 1) = 8 + 8 * w by omega, Nat.pow_add]
    simp only [encLE, hp]
    have h1 : n % (256 * 2 ^ (8 * w)) % 256 = n % 256 := Nat.mod_mul_right_mod n 256 (2 ^ (8 * w))
    have h2 : n % (256 * 2 ^ (8 * w)) / 256 = n / 256 % 2 ^ (8 * w) := Nat.mod_mul_right_div_self n 256 (2 ^ (8 * w))
    rw [h1, h2, ih]

theorem encLE_ofSigned_nat (w n : Nat) : encLE w (ofSigned w (n : Int)) = encLE w n := by
  unfold ofSigned
  have : ((n : Int) % ((2 ^ (8 * w) : Nat) : Int)).toNat = n % 2 ^ (8 * w) := by
    rw [← Int.natCast_emod n (2 ^ (8 * w))]; exact Int.toNat_natCast _
  rw [this, encLE_mod]

theorem mkU32_eq (n : Nat) : mkU32 (n : Int) = encLE 4 n := encLE_ofSigned_nat 4 n
theorem mkU64_eq (n : Nat) : mkU64 (n : Int) = encLE 8 n := encLE_ofSigned_nat 8 n
theorem mkI32_eq (n : Nat) : mkI32 (n : Int) = encLE 4 n := encLE_ofSigned_nat 4 n

theorem setItem_zero {α : Type} (x : α) (xs : List α) (v : α) : Py.setItem (x :: xs) 0 v = .ok (v :: xs) := rfl

theorem raw_data_index_eq (seg : TdmsSegment (List WProp) Bytes) (o : WObj) :
    (TdmsSegment.raw_data_index mkU32 mkU64 mkI32 mkBytes typeSizeOf encodeId itemLen seg (pyWObj nameOf o)).map List.flatten =
      .ok (rawDataIndex o) := by
  unfold TdmsSegment.raw_data_index
  cases o with
  | root p => rfl
  | group g p => rfl
  | channel g c d p =>
    simp only [pyWObj, WObject.data?, WObject.data_type?, Py.attr, ok_bind', rawDataIndex]
    by_cases hv : d.ty = tyVoid
    · have : ((d.ty : Nat) : Int) = Void.enum_value := by rw [hv]; rfl
      simp only [this, ne_eq, not_true_eq_false, if_false, hv, if_true]
      rfl
    · have : ¬ (((d.ty : Nat) : Int) = Void.enum_value) := by
        intro h; apply hv
        have : ((d.ty : Nat) : Int) = ((tyVoid : Nat) : Int) := h
        exact_mod_cast this
      simp only [ne_eq, this, not_false_eq_true, if_true, hv, if_false]
      by_cases hs : d.ty = tyString
      · have e : ((tyString : Nat) : Int) = String.enum_value := rfl
        have e20 : mkU32 (20 : Int) = encLE 4 20 := mkU32_eq 20
        have e28 : mkU32 (28 : Int) = encLE 4 28 := mkU32_eq 28
        have e1 : mkU32 (1 : Int) = encLE 4 1 := mkU32_eq 1
        have hods := object_data_size_eq d
        rw [hs] at hods
        have hods' : object_data_size typeSizeOf encodeId itemLen String.enum_value d.vals =
            .ok ((objectDataSize d : Nat) : Int) := hods
        have ei : mkI32 String.enum_value = encLE 4 tyString := mkI32_eq tyString
        simp only [hs, e, if_true, hods', ok_bind', setItem_zero, pure_eq_ok', Py.len, mkU64_eq, ei, e28, e1]
        simp [Except.map, List.append_assoc]
      · have : ¬ (((d.ty : Nat) : Int) = String.enum_value) := by
          intro h; apply hs
          have : ((d.ty : Nat) : Int) = ((tyString : Nat) : Int) := h
          exact_mod_cast this
        have e20 : mkU32 (20 : Int) = encLE 4 20 := mkU32_eq 20
        have e1 : mkU32 (1 : Int) = encLE 4 1 := mkU32_eq 1
        simp only [this, if_false, hs, pure_eq_ok', ok_bind', Py.len, mkU64_eq, mkI32_eq, e20, e1]
        simp [Except.map, List.append_assoc]

theorem toc_mask_eq :
    Py.forE (writerTocFlags.map String.toList) (0 : Int) (fun toc_flag toc_mask => do
      let t1 ← Py.Dict.getE toc_properties toc_flag
      let toc_mask : Int := Py.bor toc_mask t1
      pure (Py.Step.next toc_mask)) = .ok ((tocWritten : Nat) : Int) := by
  decide

theorem leadin_of_body (seg : TdmsSegment (List WProp) Bytes) (objs : List WObj) (version : Nat) (isIndex : Bool)
    (hseg : seg = pySegment nameOf objs version isIndex) (metaLen : Nat) :
    (TdmsSegment.leadin mkU64 mkI32 mkBytes typeSizeOf encodeId itemLen seg (writerTocFlags.map String.toList)
        (metaLen : Int)).map List.flatten =
      .ok (leadin isIndex version metaLen (dataSize objs)) := by
  subst hseg
  unfold TdmsSegment.leadin
  have htoc := toc_mask_eq
  simp only [htoc, ok_bind', data_size_eq nameOf objs version isIndex, pure_eq_ok']
  have h1 : ((metaLen : Int) + ((dataSize objs : Nat) : Int)) = ((metaLen + dataSize objs : Nat) : Int) := by omega
  simp only [h1, mkU64_eq, mkI32_eq, pySegment]
  cases isIndex <;> simp [Except.map, leadin, mkBytes, tagIndex, tagData, List.append_assoc] <;> rfl

end Tdms.Proofs.Tied2W
