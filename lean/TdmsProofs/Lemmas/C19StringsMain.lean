import TdmsProofs.Lemmas.C19StringsEnc
import TdmsProofs.Lemmas.C19StringsTable
import TdmsProofs.Lemmas.C19StringsCount

/-!
# C19Strings: the window theorem from `WindowReadable`, and the request bound

`window_io_core`: for an open file with consistent sizes (`SegWF`), a well-formed layout of `p` and
`WindowReadable f p off len`, every read of the window lies in a tag or inside the planned chunks of a
segment of the window, the planned run lies inside the segment, and in a contiguous segment inside the
bytes of channel `p` of ONE planned chunk (`channelBytesS`: for a string channel the declared `total`).
`window_bytes_le_request`: the planned bytes are bounded by the request.  Core Lean only.
-/

namespace Tdms.Proofs.C19S

open Tdms Tdms.Model Tdms.Generated Tdms.Proofs.C04 Tdms.Proofs.C05 Tdms.Proofs.C19 Tdms.Proofs.C19WF

/-- what a data read `x` of a window may touch in a segment `s` whose plan is `plan`: the planned run
    `co … co + nc − 1` lies inside the segment, `x` lies inside the planned chunks, and when `s` is read by
    the contiguous reader `x` lies inside the bytes of channel `p` of ONE planned chunk `j`, which lie inside
    chunk `j` -/
def InChannelChunks (s : Segment) (p : Bytes) (plan : Option (Int × Int × Int)) (x : Nat × Nat) : Prop :=
  ∃ co skip nc cs, plan = some (co, skip, nc) ∧ chunkSize s.objects = .ok cs ∧
    co.toNat + nc.toNat ≤ s.numChunks ∧ InPlanned s cs co.toNat nc.toNat x ∧
    (dataReaderKind s = .ok .contiguous →
      ∃ j start n, co.toNat ≤ j ∧ j < co.toNat + nc.toNat ∧ channelBytesS s cs j p = some (start, n) ∧
        Inside x (start, start + n) ∧ Inside (start, n) (chunkBytes s cs j))

theorem window_io_core (f : OpenFile) (p : Bytes) (off : Int) (len : Option Int)
    (hwfS : ∀ s ∈ f.segments, SegWF s)
    (hlay : WellFormed (f.segments.map (layoutOf p)) ∧ chanLen f p = total (f.segments.map (layoutOf p)))
    (h0 : 0 ≤ off) (hl : ∀ l, len = some l → 0 ≤ l) (hread : WindowReadable f p off len)
    (st st' : FState) (a : List ChanChunk) (hrun : readRawDataForChannel f p off len st = .ok (a, st')) :
    ∃ l, st'.trace = st.trace ++ l ∧
      (∀ x ∈ l, ∃ k s, (windowOf f p off len).startSeg ≤ k ∧ k ≤ (windowOf f p off len).endSeg ∧
        f.segments[k]? = some s ∧
        (InTag s x ∨ InChannelChunks s p (segPlan p (windowOf f p off len).ix off (windowOf f p off len).endIndex
          (windowOf f p off len).startSeg (windowOf f p off len).endSeg k s) x)) ∧
      traceBytes l ≤ windowPlanned p (windowOf f p off len).ix off (windowOf f p off len).endIndex
        (windowOf f p off len).startSeg (windowOf f p off len).endSeg
        (windowSegs f (windowOf f p off len)) (windowOf f p off len).startSeg := by
  obtain ⟨_, l, hl1, hall, hb⟩ := tr_readRawDataForChannelG f p off len hread st trivial a st' hrun
  refine ⟨l, hl1, ?_, ?_⟩
  · intro x hx
    obtain ⟨k, s, h1, h2, h3, h4⟩ := hall x hx
    refine ⟨k, s, h1, h2, h3, ?_⟩
    rcases h4 with h4 | ⟨co, skip, nc, hplan, hG⟩
    · exact Or.inl h4
    · right
      have hs : s ∈ f.segments := List.mem_of_getElem? h3
      obtain ⟨cs, hcs, hin⟩ := segDataAllowedG_in_planned s (hwfS s hs) p co.toNat nc x hG
      obtain ⟨e1, e2, e3, e4⟩ := windowOf_eq_params f p off len
      have hplan' := hplan
      rw [e1, e2, e3, e4] at hplan'
      have hb' := Tdms.Proofs.C04Whole.window_plan_bounds f.segments p (chanLen f p) hlay.1 hlay.2 off len h0 hl k s h3
        (by rw [← e3]; exact h1) (by rw [← e4]; exact h2) co skip nc hplan'
      refine ⟨co, skip, nc, cs, hplan, hcs, hb'.inRange, hin, ?_⟩
      intro hk
      rcases hG with ⟨_, hS⟩ | ⟨hnk, _⟩
      · obtain ⟨cs', j, start, n, hcs', hj1, hj2, hbS, hI⟩ := segDataAllowedS_channel s p co.toNat nc x hS
        rw [hcs] at hcs'
        injection hcs' with hcs'
        subst hcs'
        exact ⟨j, start, n, hj1, hj2, hbS, hI,
          channelBytesS_inside_chunkBytes s (hwfS s hs) cs hcs hk j p start n hbS⟩
      · exact absurd hk hnk
  · refine Nat.le_trans hb (windowBudgetG_le _ _ _ _ _ _ _ ?_ _)
    intro s hs
    apply hwfS
    unfold windowSegs at hs
    exact List.mem_of_mem_drop (List.mem_of_mem_take hs)

/-! ## the request bound -/

theorem toNat_count (cs : Nat) (hcs : 0 < cs) (nc L : Int) (h : nc ≤ L / (cs : Int) + 2) :
    nc.toNat ≤ L.toNat / cs + 2 := by
  have key : nc ≤ ((L.toNat / cs : Nat) : Int) + 2 := by
    by_cases hL : L < 0
    · have h1 : L / (cs : Int) ≤ 0 / (cs : Int) := Int.ediv_le_ediv (by omega) (by omega)
      simp only [Int.zero_ediv] at h1
      have : (0 : Int) ≤ ((L.toNat / cs : Nat) : Int) := Int.natCast_nonneg _
      omega
    · have e : L = ((L.toNat : Nat) : Int) := by omega
      rw [e, ← Int.natCast_ediv] at h
      exact h
  generalize L.toNat / cs = q at key ⊢
  omega

theorem requestBound_mono (p : Bytes) {n m : Nat} (h : n ≤ m) (segs : List Segment) :
    requestBound p n segs ≤ requestBound p m segs := by
  unfold requestBound
  apply Nat.add_le_add_left
  induction segs with
  | nil => exact Nat.le_refl _
  | cons s rest ih =>
    simp only [List.map_cons, List.sum_cons]
    apply Nat.add_le_add _ ih
    unfold segRequestCost
    split
    · exact Nat.le_refl _
    · exact plannedBytes_mono s (Nat.add_le_add_right (Nat.div_le_div_right h) 2)

/-- the planned bytes of a window are at most `4 · touched + Σ chunkSize · (n / valuesPerChunk + 2)` with
    `n` the effective length of the window -/
theorem window_bytes_le_request (f : OpenFile) (p : Bytes) (off : Int) (len : Option Int)
    (hlay : WellFormed (f.segments.map (layoutOf p)) ∧ chanLen f p = total (f.segments.map (layoutOf p)))
    (h0 : 0 ≤ off) (hl : ∀ l, len = some l → 0 ≤ l) :
    windowPlanned p (windowOf f p off len).ix off (windowOf f p off len).endIndex
        (windowOf f p off len).startSeg (windowOf f p off len).endSeg
        (windowSegs f (windowOf f p off len)) (windowOf f p off len).startSeg ≤
      requestBound p ((windowOf f p off len).endIndex - off).toNat (windowSegs f (windowOf f p off len)) := by
  apply windowPlanned_le_request
  intro k s hk co skip nc hplan
  obtain ⟨hseg, hle⟩ := windowSegs_getElem? f _ k s hk
  obtain ⟨e1, e2, e3, e4⟩ := windowOf_eq_params f p off len
  have hplan' := hplan
  rw [e1, e2, e3, e4] at hplan'
  obtain ⟨hc1, hc2⟩ := window_plan_count f.segments p (chanLen f p) hlay.1 hlay.2 off len h0 hl _ s hseg
    (by rw [← e3]; omega) (by rw [← e4]; exact hle) co skip nc hplan'
  refine ⟨hc1, ?_⟩
  rw [← e2] at hc2
  exact toNat_count _ (Nat.pos_of_ne_zero hc1) nc _ hc2

theorem window_len_le (f : OpenFile) (p : Bytes) (off l : Int) :
    (windowOf f p off (some l)).endIndex - off ≤ l := by
  show off + min l _ - off ≤ l
  omega

/-! ## `read_data` is the window read -/

theorem tr_channelReadData (f : OpenFile) (p : Bytes) (off : Int) (len : Option Int) {A : Nat × Nat → Prop}
    {B : Nat} (h : Tr (fun _ => True) (readRawDataForChannel f p off len) A B (fun _ _ => True)) :
    Tr (fun _ => True) (channelReadData f p off len) A B (fun _ _ => True) := by
  unfold channelReadData
  split
  · exact Tr.throw _
  · refine Tr.ite (fun _ => Tr.pure _ (fun _ _ => trivial)) (fun _ => ?_)
    dsimp only
    refine Tr.ite (fun _ => by rw [throw_bind_F]; exact Tr.throw _) (fun _ => ?_)
    refine Tr.ite (fun _ => by rw [throw_bind_F]; exact Tr.throw _) (fun _ => ?_)
    exact Tr.bind (B2 := 0) (Q := fun _ _ => True) h (fun _ => Tr.pure _ (fun _ _ => trivial)) (Nat.le_refl _)

end Tdms.Proofs.C19S
