/-
  C06 (lazy = eager on cut files): the composition for the multi-segment class of `C06Whole.lean` — every cut
  offset, fixed-width channels — and the chunk-level statement for a truncated chunk of a segment holding strings.
  Core Lean only.
-/
import TdmsProofs.Lemmas.C06LazyMain
import TdmsProofs.Lemmas.C06LazyDenote
import TdmsProofs.Properties.C06Whole

namespace Tdms.Proofs.C06Lazy

open Tdms Tdms.Generated Tdms.Model Tdms.Proofs.Bytes Tdms.Proofs.C01Compose Tdms.Proofs.C06Whole
open Tdms.Proofs.C03 (openOf)

/-- everything the headline theorems say about the file cut after `K` bytes: `c` is the meaning of the complete
    file, `r` its eager read, `r'` the eager read of the cut file -/
structure CutLazyEager (s₀ : SegEnc) (bytes : Bytes) (K : Nat) (c : Content) (r r' : EagerResult) : Prop where
  /-- the complete file reads as its meaning -/
  full : readFile bytes = .ok r
  content : content r = contentOfDenote c
  /-- the cut file reads without error -/
  cut : readFile (bytes.take K) = .ok r'
  /-- every lazy access path on the open cut file agrees with the eager read of the cut file -/
  lazy : LazyEqEager (bytes.take K) r'
  /-- what the cut file holds for an object is a prefix of what the complete file means -/
  pre : ∀ oc ∈ c, valuesIn r'.channels oc.path <+: oc.values
  /-- `len(channel)` is the number of values returned -/
  len : ∀ m ∈ r'.state.objects, m.numValues = (valuesIn r'.channels m.path).length
  /-- every object of the cut file is an object of the first segment, with its data type -/
  types : ∀ m ∈ r'.state.objects, ∃ o ∈ s₀.objs, m.path = o.path ∧ m.dataType = tyOf o

/-- **the composition, several segments** -/
theorem cutLazyEager_multi (s₀ : SegEnc) (rest : List SegEnc) (H : MultiStd s₀ rest) (hfix : hasStr s₀ = false)
    (bytes : Bytes) (hb : encodeFile (s₀ :: rest) = .ok bytes) (hlen : bytes.length < 2 ^ 63) (K : Nat)
    (hK : K ≤ bytes.length) :
    ∃ c r r', denote (s₀ :: rest) = .ok c ∧ CutLazyEager s₀ bytes K c r r' := by
  obtain ⟨r, r', hr, hr', hpre, hnum, _⟩ := read_cut_multi s₀ rest H bytes hb hlen K hK
  obtain ⟨hU, hfit, hch⟩ := multiStdU_of_cutMulti s₀ rest H
  obtain ⟨r2, c, hr2, hc, hcont, _⟩ := Tdms.Proofs.C01Marker.read_encode_multi_marker (s₀ :: rest) hU hfit hch bytes hb hlen
  rw [hr] at hr2
  injection hr2 with hr2
  subst hr2
  have hb' := hb
  rw [encodeFile_multiStd s₀ rest H] at hb'
  injection hb' with hb'
  subst hb'
  obtain ⟨r'', hr'', hok⟩ := readFile_at_state s₀ rest H hfix hlen K hK
  rw [hr'] at hr''
  injection hr'' with hr''
  subst hr''
  refine ⟨c, r, r', hc, hr, hcont, hr', lazyEqEager_of_sized _ r' hr' hok.shape hok.sized, ?_, hnum, hok.types⟩
  intro oc hoc
  have hmem : (⟨oc.path, oc.ty, oc.props.map canonProp, oc.values⟩ : ObjView) ∈ contentOfDenote c :=
    List.mem_map.mpr ⟨oc, hoc, rfl⟩
  rw [← hcont] at hmem
  obtain ⟨m, _, hm⟩ := List.mem_map.mp hmem
  have h1 : m.path = oc.path := congrArg ObjView.path hm
  have h2 : valuesIn r.channels m.path = oc.values := congrArg ObjView.values hm
  rw [← h2, h1]
  exact hpre oc.path

/-! ## a truncated chunk of a segment holding strings -/

/-- in the segment record of a cut that splits a chunk of a segment holding a string channel, every data object
    reads 0 values from the truncated (= last) chunk -/
theorem cut_string_chunk_zero (s : SegEnc) (h : CutStd s) (hstr : hasStr s = true) (P k : Nat)
    (hr : cutR s k ≠ 0) :
    (cutSegAt s P k).numChunks = cutQ s k + 1 ∧ (cutSegAt s P k).override = some [] ∧
    ∀ o ∈ Tdms.Proofs.C03.dataObjs (cutSegAt s P k),
      channelNumberValues (cutSegAt s P k) o (cutQ s k) = 0 ∧
        ∃ ty, o.dataType = some ty ∧ ((typeSize ty).isSome = true ∨ ty = tyString) := by
  have hnum : (cutSegAt s P k).numChunks = cutQ s k + 1 := by simp [cutSegAt, cutSeg, hr]
  have hov : (cutSegAt s P k).override = some [] := by simp [cutSegAt, cutSeg, hr, ovOf, hstr]
  refine ⟨hnum, hov, ?_⟩
  intro o ho
  constructor
  · unfold channelNumberValues
    rw [hov, hnum]
    simp [overrideGet]
  · unfold Tdms.Proofs.C03.dataObjs at ho
    have hobjs : (cutSegAt s P k).objects = s.objs.map segObjOf := rfl
    rw [hobjs, filter_hasData_map_segObjOf s.objs h.stdObjs] at ho
    obtain ⟨d, hd, rfl⟩ := List.mem_map.mp ho
    obtain ⟨hdm, hfull⟩ := dataOs_sub hd
    obtain ⟨ty, n, total, hidx⟩ := (isFull_iff d).mp hfull
    have hwo := h.wfSingle.objs d hdm
    simp only [wfObj, hidx, wfIdx, Bool.and_eq_true, Bool.or_eq_true, decide_eq_true_eq] at hwo
    refine ⟨ty, by simp [segObjOf, segObjOfIdx, hidx, stdIndexObj], ?_⟩
    rcases hwo.1.1.1 with h1 | h1
    · exact .inr h1
    · exact .inl h1

end Tdms.Proofs.C06Lazy
