/-
  C16 at file level, part 1: the name components of a written object, the promised content indexed by NAMES
  instead of paths, and the objects HANDED to `write_segment` versus the objects EMITTED (after root / group
  insertion and the stable sort).  Core Lean only.
-/
import TdmsProofs.Properties.C07Whole
import TdmsProofs.Properties.C07Checked
import TdmsProofs.Properties.C16

namespace Tdms.Proofs.C16File

open Tdms Tdms.Generated Tdms.Model Tdms.Model.Writer Tdms.Model.Path
open Tdms.Proofs.C08 Tdms.Proofs.C07Whole Tdms.Proofs.C07Checked
open Tdms.Proofs.C01Compose (content contentOfDenote ObjView)
open Tdms.Proofs.Bytes (canonProp)

/-! ## names of a written object -/

/-- the name components of a written object: `[]` root, `[g]` group, `[g, c]` channel -/
def comps : WObj → List Bytes
  | .root _ => []
  | .group g _ => [g]
  | .channel g c _ _ => [g, c]

theorem path_comps (o : WObj) : o.path = componentsToPathBytes (comps o) := by cases o <;> rfl

theorem key_comps (o : WObj) : o.key = (comps o).length := by cases o <;> rfl

theorem qs_ne : qByte ≠ sByte := by decide

/-- `_components_to_path` on bytes is injective -/
theorem pathBytes_injective {c₁ c₂ : List Bytes} (h : componentsToPathBytes c₁ = componentsToPathBytes c₂) :
    c₁ = c₂ :=
  C16.path_injective qs_ne h

/-- parsing the path of a written object gives back its names -/
theorem parse_path (o : WObj) : pathComponentsBytes o.path = .ok (comps o) := by
  rw [path_comps]; exact C16.path_roundtrip qs_ne _

theorem path_eq_iff (o : WObj) (cs : List Bytes) : o.path = componentsToPathBytes cs ↔ comps o = cs := by
  rw [path_comps]
  exact ⟨pathBytes_injective, fun h => by rw [h]⟩

theorem filter_path_eq_filter_comps (ws : List WObj) (cs : List Bytes) :
    ws.filter (fun o => decide (o.path = componentsToPathBytes cs)) = ws.filter (fun o => decide (comps o = cs)) := by
  apply List.filter_congr
  intro o _
  by_cases h : comps o = cs
  · simp [h, (path_eq_iff o cs).2 h]
  · have : ¬ o.path = componentsToPathBytes cs := fun e => h ((path_eq_iff o cs).1 e)
    simp [h, this]

/-! ## the promised content, indexed by names -/

/-- what is read back under the names `cs`, from a list of written objects: the path of the names, the type of the
    last typed write UNDER THESE NAMES, the property dictionary of the writes under these names, and the
    concatenation of the data written under these names -/
def viewOfNames (ws : List WObj) (cs : List Bytes) : ObjView :=
  let mine := ws.filter (fun o => decide (comps o = cs))
  ⟨componentsToPathBytes cs, (mine.filterMap tyOfW).getLast?,
    ((mine.flatMap fun o => o.props.map toPropEnc).foldl setProp []).map canonProp,
    mine.flatMap chanVals⟩

/-- all names written, in order of first appearance, each once -/
def writtenNames (prog : Program) : List (List Bytes) := ((written prog).map comps).eraseDups

theorem view_promisedObj (ws : List WObj) (cs : List Bytes) :
    (⟨(promisedObj ws (componentsToPathBytes cs)).path, (promisedObj ws (componentsToPathBytes cs)).ty,
      (promisedObj ws (componentsToPathBytes cs)).props.map canonProp,
      (promisedObj ws (componentsToPathBytes cs)).values⟩ : ObjView) = viewOfNames ws cs := by
  unfold promisedObj viewOfNames
  simp only [filter_path_eq_filter_comps]

theorem paths_eq_map_comps (ws : List WObj) : ws.map (·.path) = (ws.map comps).map componentsToPathBytes := by
  rw [List.map_map]
  apply List.map_congr_left
  intro o _
  exact path_comps o

theorem eraseDups_map_inj {α β : Type} [BEq α] [LawfulBEq α] [BEq β] [LawfulBEq β] (f : α → β)
    (hf : ∀ x y, f x = f y → x = y) (n : Nat) :
    ∀ l : List α, l.length ≤ n → (l.map f).eraseDups = l.eraseDups.map f := by
  induction n with
  | zero =>
    intro l hl
    have : l = [] := List.eq_nil_of_length_eq_zero (by omega)
    subst this; simp
  | succ n ih =>
    intro l hl
    cases l with
    | nil => simp
    | cons a as =>
      rw [List.map_cons, List.eraseDups_cons, List.eraseDups_cons, List.map_cons]
      have e : (as.map f).filter (fun b => !b == f a) = (as.filter (fun b => !b == a)).map f := by
        rw [List.filter_map]
        congr 1
        apply List.filter_congr
        intro b _
        by_cases hb : b = a
        · subst hb; simp
        · have : f b ≠ f a := fun h => hb (hf _ _ h)
          have h1 : (f b == f a) = false := by simpa using this
          have h2 : (b == a) = false := by simpa using hb
          simp [h1, h2]
      rw [e, ih]
      have := List.length_filter_le (fun b => !b == a) as
      simp only [List.length_cons] at hl
      omega

/-- **the promised content is a function of the NAMES**: one object per name written, in order of first
    appearance, holding what was written under exactly these names -/
theorem promisedView_by_names (prog : Program) :
    promisedView prog = (writtenNames prog).map (viewOfNames (written prog)) := by
  unfold promisedView promised promisedOf contentOfDenote writtenNames
  rw [paths_eq_map_comps, eraseDups_map_inj componentsToPathBytes (fun _ _ => pathBytes_injective) _ _ (Nat.le_refl _)]
  rw [List.map_map, List.map_map]
  apply List.map_congr_left
  intro cs _
  exact view_promisedObj (written prog) cs

theorem writtenNames_nodup (prog : Program) : (writtenNames prog).Nodup :=
  nodup_eraseDups _ _ (Nat.le_refl _)

theorem mem_writtenNames (prog : Program) (cs : List Bytes) :
    cs ∈ writtenNames prog ↔ ∃ o ∈ written prog, comps o = cs := by
  unfold writtenNames
  rw [List.mem_eraseDups, List.mem_map]

/-! ## handed versus emitted objects -/

/-- the objects handed to `write_segment`, over all calls of all sessions, in program order -/
def handed (prog : Program) : List WObj := prog.flatten.flatten

/-- an object that contributes nothing: no properties, no data, no type (the root / group objects the writer inserts) -/
def Blank (o : WObj) : Prop := o.props = [] ∧ chanVals o = [] ∧ tyOfW o = none

theorem filter_stableSortByKey (l : List WObj) (cs : List Bytes) :
    (stableSortByKey l).filter (fun o => decide (comps o = cs)) = l.filter (fun o => decide (comps o = cs)) := by
  unfold stableSortByKey
  simp only [List.filter_append, List.filter_filter]
  have hyes : ∀ k, cs.length = k →
      l.filter (fun o => decide (comps o = cs) && decide (o.key = k)) = l.filter (fun o => decide (comps o = cs)) := by
    intro k hk
    apply List.filter_congr
    intro o _
    by_cases h : comps o = cs
    · have : o.key = k := by rw [key_comps, h, hk]
      simp [h, this]
    · simp [h]
  have hno : ∀ k, cs.length ≠ k → l.filter (fun o => decide (comps o = cs) && decide (o.key = k)) = [] := by
    intro k hk
    rw [List.filter_eq_nil_iff]
    intro o _
    by_cases h : comps o = cs
    · have : o.key ≠ k := by rw [key_comps, h]; exact hk
      simp [this]
    · simp [h]
  by_cases h0 : cs.length = 0
  · rw [hyes 0 h0, hno 1 (by omega), hno 2 (by omega)]; simp
  · by_cases h1 : cs.length = 1
    · rw [hno 0 h0, hyes 1 h1, hno 2 (by omega)]; simp
    · by_cases h2 : cs.length = 2
      · rw [hno 0 h0, hno 1 h1, hyes 2 h2]; simp
      · rw [hno 0 h0, hno 1 h1, hno 2 h2]
        symm
        rw [List.nil_append, List.nil_append, List.filter_eq_nil_iff]
        intro o _
        have hk := key_cases o
        rw [key_comps] at hk
        have : comps o ≠ cs := by intro e; rw [e] at hk; omega
        simp [this]

/-- one `write_segment` call: under any names, the emitted objects are the handed objects plus blank ones, and the
    blank ones are the root or a group that some handed channel needs -/
theorem segmentObjects_filter {st st' : WriterState} {objs sorted : List WObj}
    (h : segmentObjects st objs = some (sorted, st')) (cs : List Bytes) :
    ∃ extra, sorted.filter (fun o => decide (comps o = cs)) = objs.filter (fun o => decide (comps o = cs)) ++ extra ∧
      ∀ o ∈ extra, Blank o ∧ (o = .root [] ∨ ∃ g, o = .group g [] ∧ ∃ c d p, WObj.channel g c d p ∈ objs) := by
  unfold segmentObjects at h
  simp only at h
  have h := ite_none_some h
  injection h with h1 _
  subst h1
  rw [filter_stableSortByKey, List.append_assoc, List.filter_append]
  refine ⟨_, rfl, ?_⟩
  intro o ho
  rw [List.mem_filter, List.mem_append] at ho
  rcases ho.1 with ho | ho
  · split at ho
    · simp only [List.mem_singleton] at ho
      subst ho
      exact ⟨⟨rfl, rfl, rfl⟩, .inl rfl⟩
    · cases ho
  · obtain ⟨g, hg, rfl⟩ := List.mem_map.1 ho
    refine ⟨⟨rfl, rfl, rfl⟩, .inr ⟨g, rfl, ?_⟩⟩
    rw [mem_sortedSet, List.mem_filter, List.mem_filterMap] at hg
    obtain ⟨⟨o, ho, hgo⟩, _⟩ := hg
    cases o with
    | root p => cases hgo
    | group g' p => cases hgo
    | channel g' c d p => cases hgo; exact ⟨c, d, p, ho⟩

/-- handed ⊆ emitted, emitted ⊆ handed ∪ {root, needed groups} — per call -/
theorem segmentObjects_mem {st st' : WriterState} {objs sorted : List WObj}
    (h : segmentObjects st objs = some (sorted, st')) (o : WObj) :
    o ∈ sorted ↔ o ∈ objs ∨ (o ∉ objs ∧ Blank o ∧
      (o = .root [] ∨ ∃ g, o = .group g [] ∧ ∃ c d p, WObj.channel g c d p ∈ objs)) ∧ o ∈ sorted := by
  constructor
  · intro ho
    by_cases hin : o ∈ objs
    · exact .inl hin
    · refine .inr ⟨⟨hin, ?_⟩, ho⟩
      obtain ⟨extra, he, hb⟩ := segmentObjects_filter h (comps o)
      have : o ∈ sorted.filter (fun o' => decide (comps o' = comps o)) := by
        rw [List.mem_filter]; exact ⟨ho, by simp⟩
      rw [he, List.mem_append, List.mem_filter] at this
      rcases this with h1 | h1
      · exact absurd h1.1 hin
      · exact hb o h1
  · rintro (ho | ⟨_, ho⟩)
    · exact (segmentObjects_typed h).2 o ho
    · exact ho

/-- a function of an object that sees only properties / data / type vanishes on blank objects -/
def BlankNil {β : Type} (f : WObj → List β) : Prop := ∀ o, Blank o → f o = []

theorem flatMap_filter_append_blank {β : Type} (f : WObj → List β) (hf : BlankNil f) (a extra : List WObj)
    (hb : ∀ o ∈ extra, Blank o) : (a ++ extra).flatMap f = a.flatMap f := by
  rw [List.flatMap_append]
  have : extra.flatMap f = [] := by
    rw [List.flatMap_eq_nil_iff]
    intro o ho
    exact hf o (hb o ho)
  rw [this, List.append_nil]

theorem sessionSegs_filter {β : Type} (f : WObj → List β) (hf : BlankNil f) (cs : List Bytes)
    {st : WriterState} {segs L : List (List WObj)} (h : sessionSegs st segs = some L) :
    (L.flatten.filter (fun o => decide (comps o = cs))).flatMap f =
      (segs.flatten.filter (fun o => decide (comps o = cs))).flatMap f := by
  induction segs generalizing st L with
  | nil => cases h; rfl
  | cons s ss ih =>
    simp only [sessionSegs] at h
    cases hso : segmentObjects st s with
    | none => simp [hso] at h
    | some r =>
      obtain ⟨objs, st'⟩ := r
      rw [hso] at h
      simp only at h
      cases hrest : sessionSegs st' ss with
      | none => simp [hrest] at h
      | some L' =>
        rw [hrest] at h
        cases h
        obtain ⟨extra, he, hb⟩ := segmentObjects_filter hso cs
        rw [List.flatten_cons, List.flatten_cons, List.filter_append, List.filter_append, List.flatMap_append,
          List.flatMap_append, ih hrest, he,
          flatMap_filter_append_blank f hf _ extra (fun o ho => (hb o ho).1)]

theorem programSegs_filter {β : Type} (f : WObj → List β) (hf : BlankNil f) (cs : List Bytes)
    {prog : Program} {Ls : List (List (List WObj))} (h : programSegs prog = some Ls) :
    (Ls.flatten.flatten.filter (fun o => decide (comps o = cs))).flatMap f =
      (prog.flatten.flatten.filter (fun o => decide (comps o = cs))).flatMap f := by
  induction prog generalizing Ls with
  | nil => cases h; rfl
  | cons s rest ih =>
    simp only [programSegs] at h
    cases hs : sessionSegs {} s with
    | none => simp [hs] at h
    | some L =>
      cases hr : programSegs rest with
      | none => simp [hs, hr] at h
      | some Ls' =>
        rw [hs, hr] at h
        cases h
        rw [List.flatten_cons, List.flatten_cons, List.flatten_append, List.flatten_append, List.filter_append,
          List.filter_append, List.flatMap_append, List.flatMap_append, ih hr, sessionSegs_filter f hf cs hs]

/-- **emitted versus handed, under any names**: whatever is computed from properties / data / type of the objects
    written under the names `cs` can be computed from the objects the caller handed over, in program order -/
theorem written_filter_handed {β : Type} (f : WObj → List β) (hf : BlankNil f) (cs : List Bytes)
    {prog : Program} (ha : Accepted prog) :
    ((written prog).filter (fun o => decide (comps o = cs))).flatMap f =
      ((handed prog).filter (fun o => decide (comps o = cs))).flatMap f := by
  unfold Accepted at ha
  cases hp : programSegs prog with
  | none => rw [hp] at ha; cases ha
  | some Ls =>
    unfold written handed
    rw [emitted_of_programSegs hp]
    exact programSegs_filter f hf cs hp

theorem filterMap_eq_flatMap {α β : Type} (g : α → Option β) (l : List α) :
    l.filterMap g = l.flatMap fun a => (g a).toList := by
  induction l with
  | nil => rfl
  | cons a as ih =>
    rw [List.filterMap_cons, List.flatMap_cons, ← ih]
    cases g a <;> rfl

/-- the view under names `cs` is the same whether computed from the emitted or from the handed objects -/
theorem viewOfNames_handed {prog : Program} (ha : Accepted prog) (cs : List Bytes) :
    viewOfNames (written prog) cs = viewOfNames (handed prog) cs := by
  unfold viewOfNames
  simp only
  rw [filterMap_eq_flatMap, filterMap_eq_flatMap,
    written_filter_handed (fun o => (tyOfW o).toList) (fun o hb => by simp [hb.2.2]) cs ha,
    written_filter_handed (fun o => o.props.map toPropEnc) (fun o hb => by simp [hb.1]) cs ha,
    written_filter_handed chanVals (fun o hb => hb.2.1) cs ha]

end Tdms.Proofs.C16File
