/-
  C11 (lazy DAQmx) — windows of scaler data on an open file against the eager read.

  `SegDOk file s p id` — the invariant on one segment for scaler `id` of channel `p`: either the channel
  has no values in the segment (and the eager chunks of the segment hold nothing for the scaler), or the
  segment is a DAQmx segment whose chunks sit at their nominal positions (`DaqOk`), have distinct keys,
  and hold for `p` a scaler chunk listing `id` with exactly as many values per scaler as the metadata says
  (`ScChunk id (chunkLen j)`).  Under it every window of the scaler is the slice of the eager scaler data.
  Core Lean only.
-/
import TdmsProofs.Lemmas.C11LazyProj
import TdmsProofs.Lemmas.C03MixedLoop
import TdmsProofs.Lemmas.C03MixedVals
import TdmsProofs.Lemmas.C03Main

namespace Tdms.Proofs.C11Lazy

open Tdms Tdms.Generated Tdms.Model Tdms.Proofs.Bytes Tdms.Proofs.C03 Tdms.Proofs.C04

structure DaqChanOk (file : Bytes) (s : Segment) (p : Bytes) (id : Nat) : Prop where
  daq : DaqOk file s
  keys : ∀ j, j < s.numChunks → ((daqChunk file s j).map (·.1)).Nodup
  chunk : ∀ j, j < s.numChunks → ScChunk id ((layoutOf p s).chunkLen j) (RawChunk.get (daqChunk file s j) p)

/-- **the invariant on one segment**, for scaler `id` of channel `p` -/
structure SegDOk (file : Bytes) (s : Segment) (p : Bytes) (id : Nat) : Prop where
  tag : (file.drop s.position).take 4 = tagData
  noRaw : hasFlag s.toc kTocRawData = false → s.numChunks = 0
  data : ((layoutOf p s).cs = 0 ∧ streamSc (segEager file s) p id = []) ∨
    ((layoutOf p s).cs ≠ 0 ∧ DaqChanOk file s p id)

def SegsDOk (file : Bytes) (segs : List Segment) (p : Bytes) (id : Nat) : Prop := ∀ s ∈ segs, SegDOk file s p id

theorem verifySegmentStart_tag {file : Bytes} {s : Segment} (h : (file.drop s.position).take 4 = tagData) (st : FState) :
    ∃ st', verifySegmentStart file s st = .ok ((), st') := by
  refine ⟨⟨s.position + 4, st.trace ++ [(s.position, 4)]⟩, ?_⟩
  unfold verifySegmentStart
  rw [F_bind_ok (fSeek_run _ _)]
  have hread : fRead file 4 ⟨s.position, st.trace⟩ = .ok (tagData, ⟨s.position + 4, st.trace ++ [(s.position, 4)]⟩) := by
    simp [fRead, h, tagData]
  rw [F_bind_ok hread]
  simp [F_pure]

/-! ## chunk contents and supplier -/

/-- values of scaler `id` of channel `p` in chunk `j` of segment `i` -/
def dVals (file : Bytes) (segs : List Segment) (p : Bytes) (id : Nat) : Vals := fun i j =>
  match segs[i]? with
  | some s => if (layoutOf p s).cs = 0 then [] else entrySc (RawChunk.get (daqChunk file s j) p) id
  | none => []

/-- what the lazy read of a DAQmx segment returns (for reads the window loop can plan) -/
def supD (file : Bytes) (segs : List Segment) (p : Bytes) : Supplier := fun i co nc =>
  match segs[i]? with
  | some s =>
    if (layoutOf p s).cs ≠ 0 ∧ co + nc.toNat ≤ s.numChunks then
      (if !hasFlag s.toc kTocRawData then [({} : ChanChunk)] else []) ++
        (List.range' co nc.toNat).map (fun j => RawChunk.get (daqChunk file s j) p)
    else []
  | none => []

theorem valsOk_dVals (file : Bytes) (segs : List Segment) (p : Bytes) (id : Nat) (hok : SegsDOk file segs p id)
    (hwf : WellFormed (segs.map (layoutOf p))) : ValsOk (segs.map (layoutOf p)) (dVals file segs p id) := by
  intro i l hl j hj
  obtain ⟨s, hs, hmem, rfl⟩ := getElem?_map_layout hl
  unfold dVals
  rw [hs]
  simp only []
  by_cases hcs : (layoutOf p s).cs = 0
  · rw [if_pos hcs, chunkLen_zero _ (hwf _ (List.mem_map_of_mem hmem)) hcs]; rfl
  · rw [if_neg hcs]
    rcases (hok s hmem).data with ⟨h0, _⟩ | ⟨_, hd⟩
    · exact absurd h0 hcs
    · exact (scChunk_entry (hd.chunk j hj)).1

theorem projOk_supD (file : Bytes) (segs : List Segment) (p : Bytes) (id : Nat) (hok : SegsDOk file segs p id) :
    ∀ i co nc, ∀ c ∈ supD file segs p i co nc, ProjOk id c := by
  intro i co nc c hc
  unfold supD at hc
  cases hs : segs[i]? with
  | none => rw [hs] at hc; cases hc
  | some s =>
    rw [hs] at hc
    simp only [] at hc
    split at hc
    · rename_i hg
      rcases List.mem_append.mp hc with hc | hc
      · split at hc
        · simp only [List.mem_singleton] at hc; subst hc; exact projOk_empty id
        · cases hc
      · obtain ⟨j, hj, rfl⟩ := List.mem_map.mp hc
        rw [List.mem_range'_1] at hj
        rcases (hok s (List.mem_of_getElem? hs)).data with ⟨h0, _⟩ | ⟨_, hd⟩
        · exact absurd h0 hg.1
        · exact projOk_scChunk (hd.chunk j (by omega))
    · cases hc

/-- a leading chunk that carries an empty value list does not change what a window returns -/
theorem trimStream_emptyData_cons (len : Int) (cs : List ChanChunk) (vr : Int) :
    dataOf (trimStream len (({ data := some [] } : ChanChunk) :: cs) 0 vr).1 = dataOf (trimStream len cs 0 vr).1 ∧
    (trimStream len (({ data := some [] } : ChanChunk) :: cs) 0 vr).2 = (trimStream len cs 0 vr).2 := by
  have hlen : ((({ data := some [] } : ChanChunk)).len : Int) = 0 := rfl
  have hd : ∀ t, (trimChannelChunk ({ data := some [] } : ChanChunk) 0 t).data.getD [] = [] := by
    intro t
    rw [trimChannelChunk_data]
    simp [pySliceTo]
  simp only [trimStream, hlen, Int.add_zero, Int.natCast_zero, Int.sub_zero, dataOf_cons, hd]
  simp

theorem supEquiv_supD (file : Bytes) (segs : List Segment) (p : Bytes) (id : Nat) (hok : SegsDOk file segs p id) :
    SupEquiv segs p (dVals file segs p id) (fun i co nc => (supD file segs p i co nc).map (projSc id)) := by
  intro i s hs hcs co nc skip len vr h0 hin ht1 ht2
  have hso := hok s (List.mem_of_getElem? hs)
  have hpre : hasFlag s.toc kTocRawData = false → skip = 0 := by
    intro hr
    have hk := hso.noRaw hr
    have hn : nc.toNat = 0 := by omega
    rw [hn] at ht2
    simp only [List.range'_zero, List.map_nil, List.flatten_nil, TrimOk, List.length_nil] at ht2
    omega
  have hsup : (supD file segs p i co nc).map (projSc id) =
      (if !hasFlag s.toc kTocRawData then [({ data := some [] } : ChanChunk)] else []) ++
        supOf (dVals file segs p id) i co nc := by
    unfold supD supOf dVals
    rw [hs]
    simp only []
    rw [if_pos ⟨hcs, hin⟩, List.map_append, List.map_map]
    congr 1
    · split <;> rfl
    · apply List.map_congr_left
      intro j _
      simp only [Function.comp, projSc, if_neg hcs]
  show dataOf (trimStream len ((supD file segs p i co nc).map (projSc id)) skip vr).1 = _ ∧
    (trimStream len ((supD file segs p i co nc).map (projSc id)) skip vr).2 = _
  rw [hsup]
  cases hraw : hasFlag s.toc kTocRawData with
  | true => simp
  | false =>
    have := hpre hraw
    subst this
    simp only [Bool.not_false, if_true, List.singleton_append]
    exact trimStream_emptyData_cons _ _ _

/-- **the hypothesis of the C04 link lemma**: every segment read the window loop makes succeeds and
    returns `supD` -/
theorem readsAs_supD (f : OpenFile) (p : Bytes) (id : Nat) (numValues : Nat) (hok : SegsDOk f.file f.segments p id)
    (hwf : WellFormed (f.segments.map (layoutOf p))) (hnum : numValues = total (f.segments.map (layoutOf p)))
    (offset : Int) (length : Option Int) (h0 : 0 ≤ offset) (hl : ∀ l, length = some l → 0 ≤ l) :
    ReadsAs f p numValues offset length (supD f.file f.segments p) := by
  unfold ReadsAs
  intro w i s hs h1 h2
  have hso := hok s (List.mem_of_getElem? hs)
  refine ⟨fun st => verifySegmentStart_tag hso.tag st, ?_⟩
  intro co skip nc hplan st
  obtain ⟨_, _, hin⟩ := plan_nonneg f.segments p numValues hwf hnum offset length h0 hl i s hs h1 h2 co skip nc hplan
  have hcs := segPlan_cs hplan
  rcases hso.data with ⟨hz, _⟩ | ⟨_, hd⟩
  · exact absurd hz hcs
  · obtain ⟨st', h⟩ := segReadChannel_daq f.file s hd.daq p co.toNat nc hin st
    refine ⟨st', ?_⟩
    show segReadChannel f.file s p co.toNat (some nc) st = _
    rw [h]
    simp [supD, hs, hcs, hin]

/-! ## the full array is the eager scaler data -/

theorem chunkSc_nodup (c : RawChunk) (p : Bytes) (id : Nat) (h : (c.map (·.1)).Nodup) :
    chunkSc c p id = entrySc (RawChunk.get c p) id := by
  induction c with
  | nil => rfl
  | cons x xs ih =>
    simp only [List.map_cons, List.nodup_cons] at h
    rw [chunkSc_cons]
    unfold RawChunk.get
    simp only [List.find?_cons]
    by_cases hx : x.1 = p
    · rw [if_pos hx]
      have : chunkSc xs p id = [] := by
        unfold chunkSc
        rw [List.filter_eq_nil_iff.mpr]
        · rfl
        · intro y hy hyp
          apply h.1
          rw [List.mem_map]
          exact ⟨y, hy, by rw [hx]; simpa using hyp⟩
      rw [this]
      simp [hx]
    · rw [if_neg hx]
      simp only [hx, decide_false, List.nil_append]
      exact ih h.2

theorem segVals_dVals (file : Bytes) (s : Segment) (p : Bytes) (id : Nat) (h : SegDOk file s p id) :
    segVals (layoutOf p s) (fun j => if (layoutOf p s).cs = 0 then [] else entrySc (RawChunk.get (daqChunk file s j) p) id)
      = streamSc (segEager file s) p id := by
  unfold segVals
  rcases h.data with ⟨hz, he⟩ | ⟨hcs, hd⟩
  · rw [if_pos hz, he]
  · rw [if_neg hcs, segEager_daq file s hd.daq]
    unfold streamSc
    rw [List.flatMap_append]
    have hpre : ((if !hasFlag s.toc kTocRawData then [([] : RawChunk)] else []).flatMap fun c => chunkSc c p id) = [] := by
      split <;> simp [chunkSc]
    rw [hpre, List.nil_append, List.flatMap_map, List.flatMap_def]
    have hk : (layoutOf p s).k = s.numChunks := rfl
    rw [hk]
    congr 1
    apply List.map_congr_left
    intro j hj
    rw [if_neg hcs, chunkSc_nodup _ p id (hd.keys j (by simpa using hj))]

theorem fullFrom_dVals (file : Bytes) (p : Bytes) (id : Nat) (vals : Vals) :
    ∀ (ss : List Segment) (i : Nat), SegsDOk file ss p id →
      (∀ t s, ss[t]? = some s → vals (i + t) =
        fun j => if (layoutOf p s).cs = 0 then [] else entrySc (RawChunk.get (daqChunk file s j) p) id) →
      fullFrom vals i (ss.map (layoutOf p)) = streamSc (ss.flatMap (segEager file)) p id := by
  intro ss
  induction ss with
  | nil => intro i _ _; rfl
  | cons s ss ih =>
    intro i hok hv
    simp only [List.map_cons, fullFrom, List.flatMap_cons]
    have h0 := hv 0 s (by simp)
    rw [Nat.add_zero] at h0
    have := ih (i + 1) (fun x hx => hok x (List.mem_cons_of_mem _ hx))
      (by intro t s' hs'
          have := hv (t + 1) s' (by simpa using hs')
          rw [show i + (t + 1) = i + 1 + t by omega] at this
          exact this)
    rw [this, h0, segVals_dVals file s p id (hok s List.mem_cons_self)]
    simp [streamSc]

theorem full_dVals (file : Bytes) (segs : List Segment) (p : Bytes) (id : Nat) (hok : SegsDOk file segs p id) :
    full (segs.map (layoutOf p)) (dVals file segs p id) = streamSc (segs.flatMap (segEager file)) p id := by
  unfold full
  apply fullFrom_dVals file p id _ segs 0 hok
  intro t s hs
  funext j
  simp [dVals, hs]

/-! ## the window -/

theorem windowPureG_proj (id : Nat) (segs : List Segment) (p : Bytes) (numValues : Nat) (sup : Supplier)
    (hsup : ∀ i co nc, ∀ c ∈ sup i co nc, ProjOk id c) (offset : Int) (length : Option Int) :
    scOf id (windowPureG segs p numValues sup offset length) =
      dataOf (windowPureG segs p numValues (fun i co nc => (sup i co nc).map (projSc id)) offset length) := by
  unfold windowPureG
  exact windowLoopPure_proj id sup hsup p _ _ _ _ _ _ _ _ _

/-- `channelReadData` returns the concatenation of the pure window -/
theorem channelReadData_eq_concat (f : OpenFile) (p : Bytes) (m : ObjMeta) (offset : Int) (length : Option Int)
    (sup : Supplier) (hm : f.objects.get p = some m) (hty : m.dataType.isSome = true)
    (h0 : 0 ≤ offset) (hl : ∀ l, length = some l → 0 ≤ l)
    (h : ReadsAs f p m.numValues offset length sup) (st : FState) :
    ∃ st', (channelReadData f p offset length).run st =
      .ok (some (concatChunks m.dataType ((m.scalerTypes.getD []).map (·.1))
        (windowPureG f.segments p m.numValues sup offset length)), st') := by
  have hnum : ((f.objects.get p).map (·.numValues)).getD 0 = m.numValues := by rw [hm]; rfl
  have h' := h
  rw [← hnum] at h'
  obtain ⟨st', hrun⟩ := readRawDataForChannel_eq_windowPureG f p offset length sup h' st
  rw [hnum] at hrun
  refine ⟨st', ?_⟩
  have hnone : m.dataType.isNone = false := by
    cases hd : m.dataType with
    | none => rw [hd] at hty; simp at hty
    | some _ => rfl
  unfold channelReadData
  rw [hm]
  cases length with
  | none =>
    simp only [hnone, Bool.false_eq_true, if_false, if_neg (show ¬ offset < 0 by omega)]
    simp only [bind, StateT.bind, pure, StateT.pure, Except.pure, Except.bind, StateT.run] at hrun ⊢
    rw [hrun]
  | some l =>
    have := hl l rfl
    simp only [hnone, Bool.false_eq_true, if_false, if_neg (show ¬ offset < 0 by omega),
      decide_eq_true_eq, if_neg (show ¬ l < 0 by omega)]
    simp only [bind, StateT.bind, pure, StateT.pure, Except.pure, Except.bind, StateT.run] at hrun ⊢
    rw [hrun]

/-- **every window of scaler `id`**: `read_data(offset, length)` on the open file returns, for the scaler,
    `eagerScaler[offset : offset + length]` where the eager scaler data are the concatenation of the
    eager chunk stream -/
theorem channelReadData_scaler (f : OpenFile) (p : Bytes) (id : Nat) (m : ObjMeta)
    (hok : SegsDOk f.file f.segments p id) (hc : ChanOk f.objects f.segments p m) (hty : m.dataType.isSome = true)
    (offset : Int) (length : Option Int) (h0 : 0 ≤ offset) (hl : ∀ l, length = some l → 0 ≤ l) (st : FState) :
    ∃ st' out, (channelReadData f p offset length).run st = .ok (some out, st') ∧
      scGet out.scalers id =
        takeOpt length ((streamSc (f.segments.flatMap (segEager f.file)) p id).drop offset.toNat) := by
  have hreads := readsAs_supD f p id m.numValues hok hc.wf hc.num offset length h0 hl
  obtain ⟨st', hrun⟩ := channelReadData_eq_concat f p m offset length _ hc.get hty h0 hl hreads st
  refine ⟨st', _, hrun, ?_⟩
  have hvals := valsOk_dVals f.file f.segments p id hok hc.wf
  rw [concatChunks_scalers]
  show scOf id _ = _
  rw [windowPureG_proj id f.segments p m.numValues _ (projOk_supD f.file f.segments p id hok) offset length,
    windowPureG_supEquiv f.segments p _ m.numValues hc.wf hvals hc.num _ (supEquiv_supD f.file f.segments p id hok)
      offset length h0 hl,
    window_eq_slice_segments f.segments p _ m.numValues hc.wf hvals hc.num offset length h0 hl,
    full_dVals f.file f.segments p id hok]

end Tdms.Proofs.C11Lazy
