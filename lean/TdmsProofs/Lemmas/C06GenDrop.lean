/-
  C06, the cut theorem for the general multi-segment class: complete segments `I` followed by `k` bytes of a
  segment `L` whose raw data are not reached (`k < dataPosOf L`): the segment is dropped, the file reads as the
  file `I`.  Core Lean only.
-/
import TdmsProofs.Lemmas.C06GenFile

namespace Tdms.Proofs.C06Gen

open Tdms Tdms.Generated Tdms.Model Tdms.Proofs.C02 Tdms.Proofs.LeadIn Tdms.Proofs.C01Multi Tdms.Proofs.C01Marker
open Tdms.Proofs.Bytes (canonProp)
open Tdms.Proofs.C01Compose (pairsChunk bump valuesIn rcvWith)
open Tdms.Proofs.C06Whole (dataPosOf)

/-- **`readFile` on complete segments followed by `k < dataPosOf L` bytes of a further segment** -/
theorem readFile_droplast (I : List SegEnc) (AI : List (List ActiveObj)) (L : SegEnc) (AL : List ActiveObj)
    (b : Bool) (k : Nat) (hacts : activeLists none [] (I ++ [L]) = .ok (AI ++ [AL])) (hl : I.length = AI.length)
    (hok : SegsOK (I ++ [L]) (AI ++ [AL])) (hnd : ActsNodup (AI ++ [AL]))
    (hch : ∀ sa ∈ (I ++ [L]).zip (AI ++ [AL]), ChannelsOnly sa)
    (hk1 : k < dataPosOf L)
    (hlen : (zipEncode encodeSeg I AI).length + (encodeSeg L AL).length < 2 ^ 63) :
    ∃ st, readMetadata (zipEncode encodeSeg I AI ++ (encodeSeg (setU b L) AL).take k) = .ok st ∧
      st.segments = segRecs 0 I AI ∧
      st.objects = (denoteSegs [] I AI).map (mOC fun _ => 0) ∧
      readFile (zipEncode encodeSeg I AI ++ (encodeSeg (setU b L) AL).take k) =
        .ok ⟨st, channelsOfContent (denoteSegs [] I AI)⟩ := by
  generalize hfile : zipEncode encodeSeg I AI ++ (encodeSeg (setU b L) AL).take k = file
  obtain ⟨hokI, hokL⟩ := segsOK_append I AI [L] [AL] hl hok
  have hokL' : SegOK L AL := hokL.1
  obtain ⟨as, atl, prev', last', hsplit, hfrom, htl⟩ := activeLists_append I [L] none [] _ hacts
  have hlas : I.length = as.length := hfrom.length
  have hasEq : as = AI ∧ atl = [AL] := by
    have := List.append_inj hsplit.symm (by omega)
    exact ⟨this.1, this.2⟩
  obtain ⟨rfl, rfl⟩ := hasEq
  have hP := segRecs_length_pos I as hokI
  have hseglen : (encodeSeg L AL).length = 28 + (segMeta L).length + (encRaw L AL).length := by
    rw [encodeSeg_split L AL]; simp [encLeadIn_length tagData L _ _ rfl]; omega
  have hdp : dataPosOf L = 28 + (segMeta L).length := rfl
  have htk : ((encodeSeg (setU b L) AL).take k).length = k := by
    rw [List.length_take, encodeSeg_setU_length]; omega
  have hflen : file.length = (zipEncode encodeSeg I as).length + k := by
    rw [← hfile, List.length_append, htk]
  have hlenF : file.length < 2 ^ 63 := by omega
  -- the prefix
  obtain ⟨st1, seen1, hloop, hsegs1, hobjs1, hnd1, hver1, _, hinv1, hspec1⟩ :=
    loop_prefix file hlenF I as ((encodeSeg (setU b L) AL).take k) 0 (file.length + 1 - I.length) {} [] none [] []
      prev' last' hfrom hokI (by rw [List.drop_zero, hfile]) (by rw [mstateOf_init]; exact FileInv.init)
      SpecInv.init rfl (by simp)
  -- the dropped segment
  have hdrop : file.drop (0 + (zipEncode encodeSeg I as).length) = (encodeSeg (setU b L) AL).take k := by
    rw [Nat.zero_add, ← hfile, List.drop_left]
  have hstep := loopStep_segment_dropped file (0 + (zipEncode encodeSeg I as).length) L b AL k hk1
    (version_lt' hokL'.version) (by omega) (by omega) hdrop (by omega) st1
  obtain ⟨f, hf⟩ : ∃ f, file.length + 1 - I.length = f + 1 := ⟨file.length + 1 - I.length - 1, by omega⟩
  generalize hst : (if k < 28 then st1 else
      { st1 with version := some (st1.version.getD (L.version : Int)), versions := st1.versions ++ [(L.version : Int)] }) = st
    at hstep
  have hsegs : st.segments = segRecs 0 I as := by
    rw [← hst]; split <;> simpa using hsegs1
  have hobjs : st.objects = (denoteSegs [] I as).map (mOC fun _ => 0) := by
    rw [← hst]; split <;> exact hobjs1
  have hmeta : readMetadata file = .ok st := by
    unfold readMetadata
    have hfuel : file.length + 1 = (file.length + 1 - I.length) + I.length := by omega
    rw [hfuel, hloop, hf, readMetadataLoop_succ, hstep]
  -- raw data
  obtain ⟨fs, hdata⟩ := readRawDataAll_prefix file [] [] (fun st1 => ⟨st1, rfl⟩) I as
    ((encodeSeg (setU b L) AL).take k) 0 {} hlas hokI (fun a ha => hnd a (by simp [ha]))
    (by rw [List.drop_zero, hfile])
  simp only [List.append_nil] at hdata
  refine ⟨st, hmeta, hsegs, hobjs, C01Compose.readFile_of_parts _ _ (rawChunksAll I as) fs _ hmeta
    (by rw [hsegs]; exact hdata) ?_⟩
  have hchI : ∀ sa ∈ I.zip as, ChannelsOnly sa := fun sa hsa =>
    hch sa (by rw [List.zip_append hlas]; exact List.mem_append_left _ hsa)
  have htyok : TyOK (denoteSegs [] I as) := tyOK_denoteSegs I as [] hokI (fun _ h => by cases h)
  have hvals := valsOf_denoteSegs I as [] hokI
  have hv0 : valsOf [] = fun _ => [] := rfl
  rw [hv0] at hvals
  have hps : ∀ p ∈ (allPairs I as).map (·.1), p ∈ rcvPathsC (denoteSegs [] I as) := by
    intro p hp
    obtain ⟨h1, sa, hsa, hne, x, hx, hd, hxp⟩ := allPairs_hasTy I as [] hokI p hp
    exact mem_rcvPathsC h1 (hxp ▸ hchI sa hsa hne x hx hd)
  rw [hobjs, receivers_of_content _ htyok, rawChunksAll_eq, channelsOfContent, hvals,
    ← pairListsAll_flatten I as]
  apply foldl_fileStep_chunks st
  · intro pairs hpairs pv hpv
    exact hps _ (mem_pairListsAll hpairs hpv)
  · intro p _
    rw [hobjs, cap_of_content, hvals, pairListsAll_flatten]
    exact Nat.le_refl _

end Tdms.Proofs.C06Gen
