/-
  Interleaved raw data, several chunks at once: `InterleavedDataReader.read_data_chunks` reads all chunks
  of a segment in one go.  The concatenation of `k` encoded interleaved chunks of `n` rows is one
  interleaved chunk of `n·k` rows whose columns are the concatenated columns (`mergeCols`), so the per-chunk
  layer lemmas of `InterleavedLemmas.lean` apply to the whole segment.  Core Lean only.
-/
import TdmsProofs.Lemmas.C01LayoutsSpec

namespace Tdms.Proofs.C01Layouts

open Tdms Tdms.Generated Tdms.Model Tdms.Proofs.C02 Tdms.Proofs.C01Multi
open Tdms.Proofs.Bytes (colsOK aTy rowWidth setCols encRow_cons F_bind_ok)

/-! ## appending columns -/

/-- column-wise append -/
def zipApp (v w : List (List Bytes)) : List (List Bytes) := List.zipWith (· ++ ·) v w

/-- the columns of all chunks of a segment, concatenated per data object -/
def mergeCols (d : List ActiveObj) : List (List (List Bytes)) → List (List Bytes)
  | [] => d.map fun _ => []
  | ch :: chs => zipApp ch (mergeCols d chs)

theorem colsOK_zipApp {n m : Nat} : ∀ (objs : List SegObj) (d : List ActiveObj) (v w : List (List Bytes)),
    colsOK n objs d v → colsOK m objs d w → colsOK (n + m) objs d (zipApp v w) := by
  intro objs
  induction objs with
  | nil =>
    intro d v w hv hw
    obtain ⟨rfl, rfl⟩ := Tdms.Proofs.Bytes.colsOK_nil_left hv
    obtain ⟨_, rfl⟩ := Tdms.Proofs.Bytes.colsOK_nil_left hw
    simp [zipApp, colsOK]
  | cons o os ih =>
    intro d v w hv hw
    cases d with
    | nil => cases v <;> simp [colsOK] at hv
    | cons a as =>
      cases v with
      | nil => simp [colsOK] at hv
      | cons v0 vs =>
        cases w with
        | nil => simp [colsOK] at hw
        | cons w0 ws =>
          obtain ⟨⟨sz, hty, hsz, hvn, hvall⟩, hvrest⟩ := hv
          obtain ⟨⟨sz', _, hsz', hwn, hwall⟩, hwrest⟩ := hw
          rw [hsz] at hsz'
          cases hsz'
          refine ⟨⟨sz, hty, hsz, by simp [hvn, hwn], ?_⟩, ih as vs ws hvrest hwrest⟩
          intro x hx
          rcases List.mem_append.mp hx with hx | hx
          · exact hvall x hx
          · exact hwall x hx

theorem encRow_zipApp_lt (e : Endian) {n m : Nat} : ∀ (objs : List SegObj) (d : List ActiveObj)
    (v w : List (List Bytes)), colsOK n objs d v → colsOK m objs d w → ∀ j, j < n →
    encRow e j d (zipApp v w) = encRow e j d v := by
  intro objs
  induction objs with
  | nil =>
    intro d v w hv _ j _
    obtain ⟨rfl, rfl⟩ := Tdms.Proofs.Bytes.colsOK_nil_left hv
    rfl
  | cons o os ih =>
    intro d v w hv hw j hj
    cases d with
    | nil => cases v <;> simp [colsOK] at hv
    | cons a as =>
      cases v with
      | nil => simp [colsOK] at hv
      | cons v0 vs =>
        cases w with
        | nil => simp [colsOK] at hw
        | cons w0 ws =>
          obtain ⟨⟨_, _, _, hvn, _⟩, hvrest⟩ := hv
          obtain ⟨_, hwrest⟩ := hw
          show encRow e j (a :: as) ((v0 ++ w0) :: zipApp vs ws) = _
          rw [encRow_cons, encRow_cons, ih as vs ws hvrest hwrest j hj]
          congr 2
          simp only [List.getD_eq_getElem?_getD]
          rw [List.getElem?_append_left (by omega)]

theorem encRow_zipApp_ge (e : Endian) {n m : Nat} : ∀ (objs : List SegObj) (d : List ActiveObj)
    (v w : List (List Bytes)), colsOK n objs d v → colsOK m objs d w → ∀ j,
    encRow e (n + j) d (zipApp v w) = encRow e j d w := by
  intro objs
  induction objs with
  | nil =>
    intro d v w hv hw j
    obtain ⟨rfl, rfl⟩ := Tdms.Proofs.Bytes.colsOK_nil_left hv
    obtain ⟨_, rfl⟩ := Tdms.Proofs.Bytes.colsOK_nil_left hw
    rfl
  | cons o os ih =>
    intro d v w hv hw j
    cases d with
    | nil => cases v <;> simp [colsOK] at hv
    | cons a as =>
      cases v with
      | nil => simp [colsOK] at hv
      | cons v0 vs =>
        cases w with
        | nil => simp [colsOK] at hw
        | cons w0 ws =>
          obtain ⟨⟨_, _, _, hvn, _⟩, hvrest⟩ := hv
          obtain ⟨_, hwrest⟩ := hw
          show encRow e (n + j) (a :: as) ((v0 ++ w0) :: zipApp vs ws) = _
          rw [encRow_cons, encRow_cons, ih as vs ws hvrest hwrest j]
          congr 2
          simp only [List.getD_eq_getElem?_getD]
          rw [List.getElem?_append_right (by omega)]
          congr 2
          omega

/-- two encoded interleaved chunks, one after the other, are the encoded chunk of the appended columns -/
theorem encChunkInterleaved_zipApp (e : Endian) {n m : Nat} {o : SegObj} {os : List SegObj}
    {d : List ActiveObj} {v w : List (List Bytes)} (hv : colsOK n (o :: os) d v)
    (hw : colsOK m (o :: os) d w) :
    encChunkInterleaved e d (zipApp v w) = encChunkInterleaved e d v ++ encChunkInterleaved e d w := by
  rw [Tdms.Proofs.Bytes.encChunkInterleaved_eq_rows e (colsOK_zipApp _ _ _ _ hv hw),
    Tdms.Proofs.Bytes.encChunkInterleaved_eq_rows e hv, Tdms.Proofs.Bytes.encChunkInterleaved_eq_rows e hw,
    List.range_add, List.map_append, List.flatten_append, List.map_map]
  congr 2
  · apply List.map_congr_left
    intro j hj
    exact encRow_zipApp_lt e _ _ _ _ hv hw j (List.mem_range.mp hj)
  · apply List.map_congr_left
    intro j _
    exact encRow_zipApp_ge e _ _ _ _ hv hw j

/-! ## all chunks of an interleaved segment -/

theorem colsOK_empty : ∀ (d : List ActiveObj), (∀ x ∈ d, FixedObj x) →
    colsOK 0 (d.map concObj) d (d.map fun _ => []) := by
  intro d
  induction d with
  | nil => intro _; simp [colsOK]
  | cons a as ih =>
    intro hfix
    obtain ⟨ty, n, total, hi, hsome⟩ := hfix a List.mem_cons_self
    obtain ⟨sz, hsz⟩ := Option.isSome_iff_exists.mp hsome
    have haty : aTy a = ty := by simp [aTy, hi, IdxDesc.ty]
    refine ⟨⟨sz, ?_, by rw [haty]; exact hsz, rfl, fun x hx => by cases hx⟩,
      ih (fun x hx => hfix x (List.mem_cons_of_mem _ hx))⟩
    unfold concObj; rw [hi, haty]

theorem colsOK_merge (n : Nat) (d : List ActiveObj) (hfix : ∀ x ∈ d, FixedObj x)
    (hn : ∀ x ∈ d, ∀ dsc, x.idx = some dsc → dsc.n = n) :
    ∀ (chs : List (List (List Bytes))), (∀ ch ∈ chs, wfStdChunk d ch = true) →
      colsOK (n * chs.length) (d.map concObj) d (mergeCols d chs) := by
  intro chs
  induction chs with
  | nil => intro _; exact colsOK_empty d hfix
  | cons ch chs ih =>
    intro hwf
    have h1 := colsOK_of n d ch hfix hn (hwf ch List.mem_cons_self)
    have h2 := ih (fun c hc => hwf c (List.mem_cons_of_mem _ hc))
    have : n * (ch :: chs).length = n + n * chs.length := by
      rw [List.length_cons, Nat.mul_succ, Nat.add_comm]
    rw [this]
    exact colsOK_zipApp _ _ _ _ h1 h2

/-- **the raw data of an interleaved segment is one big interleaved chunk** -/
theorem flatMap_encChunkInterleaved (e : Endian) (n : Nat) (x : ActiveObj) (xs : List ActiveObj)
    (hfix : ∀ y ∈ x :: xs, FixedObj y) (hn : ∀ y ∈ x :: xs, ∀ dsc, y.idx = some dsc → dsc.n = n) :
    ∀ (chs : List (List (List Bytes))), (∀ ch ∈ chs, wfStdChunk (x :: xs) ch = true) →
      chs.flatMap (encChunkInterleaved e (x :: xs)) = encChunkInterleaved e (x :: xs) (mergeCols (x :: xs) chs) := by
  intro chs
  induction chs with
  | nil => intro _; simp [mergeCols, encChunkInterleaved]
  | cons ch chs ih =>
    intro hwf
    have h1 := colsOK_of n (x :: xs) ch hfix hn (hwf ch List.mem_cons_self)
    have h2 := colsOK_merge n (x :: xs) hfix hn chs (fun c hc => hwf c (List.mem_cons_of_mem _ hc))
    rw [List.flatMap_cons, ih (fun c hc => hwf c (List.mem_cons_of_mem _ hc))]
    exact (encChunkInterleaved_zipApp e (o := concObj x) (os := xs.map concObj) h1 h2).symm

/-- `InterleavedDataReader.read_data_chunks` on `k` chunks of `n` rows: one read of `W·n·k` bytes, every
    object gets its column -/
theorem readInterleavedChunks_many (file : Bytes) (s : Segment) (o : SegObj) (os : List SegObj)
    (aobjs : List ActiveObj) (vals : List (List Bytes)) (n k pos : Nat) (tr : List (Nat × Nat))
    (hcols : colsOK (n * k) (o :: os) aobjs vals) (hnv : ∀ x ∈ o :: os, x.numberValues = n)
    (hfile : (file.drop pos).take (rowWidth aobjs * (n * k)) = encChunkInterleaved s.endian aobjs vals) :
    (readInterleavedChunks file s (o :: os) k).run ⟨pos, tr⟩ =
      .ok ([setCols [] (o :: os) vals],
        ⟨pos + rowWidth aobjs * (n * k), tr ++ [(pos, rowWidth aobjs * (n * k))]⟩) := by
  have hn0 : o.numberValues = n := hnv o List.mem_cons_self
  have hany : (o :: os).any (fun x => decide (x.numberValues ≠ o.numberValues)) = false := by
    simp only [List.any_eq_false, decide_eq_true_eq, Decidable.not_not]
    intro x hx; rw [hnv x hx, hn0]
  have hw := Tdms.Proofs.Bytes.width_fold (o :: os) aobjs vals (n * k) 0 hcols
  rw [Nat.zero_add] at hw
  have hlen := Tdms.Proofs.Bytes.encChunkInterleaved_length s.endian hcols
  have hread : fRead file (rowWidth aobjs * (o.numberValues * k)) ⟨pos, tr⟩ =
      .ok (encChunkInterleaved s.endian aobjs vals,
        ⟨pos + rowWidth aobjs * (n * k), tr ++ [(pos, rowWidth aobjs * (n * k))]⟩) := by
    simp [fRead, hn0, hfile, hlen]
  have hpos : rowWidth aobjs ≠ 0 := by
    cases aobjs with
    | nil => cases vals <;> simp [colsOK] at hcols
    | cons a as =>
      cases vals with
      | nil => simp [colsOK] at hcols
      | cons v vs =>
        obtain ⟨⟨sz, _, hsz, _, _⟩, _⟩ := hcols
        have := Tdms.Proofs.Bytes.typeSize_pos hsz
        simp only [rowWidth, List.map_cons, List.sum_cons, hsz, Option.getD_some]
        omega
  show readInterleavedChunks file s (o :: os) k ⟨pos, tr⟩ = _
  unfold readInterleavedChunks
  simp only [hany, Bool.false_eq_true, if_false, hw, readRows]
  simp only [pure_bind, bind_assoc]
  rw [F_bind_ok hread]
  simp only [hpos, if_false, pure_bind, hn0,
    Tdms.Proofs.Bytes.interleavedColumns_encChunk s.endian (n * k) (o :: os) aobjs vals hcols]
  rfl

end Tdms.Proofs.C01Layouts
