/-
  C01 for files with contiguous and interleaved segments: one iteration of `readMetadataLoop` on the
  encoding of a segment of either layout, the induction over the segments, `readMetadata`.  The proofs are
  those of `C01MultiMeta.lean` / `C01MultiLoop.lean`; the layout enters only through the byte size of the
  raw data (`encRaw_lengthI`).  Core Lean only.
-/
import TdmsProofs.Lemmas.C01LayoutsSpec

namespace Tdms.Proofs.C01Layouts

open Tdms Tdms.Generated Tdms.Model Tdms.Proofs.C02 Tdms.Proofs.LeadIn Tdms.Proofs.C01Multi
open Tdms.Proofs.Bytes (canonProp contOK aTy)

/-- **one iteration of the metadata loop on an encoded segment of either layout**, from any reachable state -/
theorem loopStep_segmentI (file : Bytes) (hlen : file.length < 2 ^ 63) (pos : Nat) (s : SegEnc)
    (a : List ActiveObj) (rest : Bytes) (hfile : file.drop pos = encodeSeg s a ++ rest)
    (st : ReaderState) (seen : List Bytes) (prev : Option (List ActiveObj)) (last last' : LastIdx)
    (c : Content) (hact : activeOfSeg prev last s = .ok (a, last')) (hok : SegOKI s a)
    (hinv : FileInv seen prev last (mstateOf st)) (hspec : SpecInv prev last)
    (hobjs : st.objects = c.map (mOC fun _ => 0)) (hnodup : (c.map (·.path)).Nodup) :
    ∃ prev', loopStep file false (some file.length) pos pos st =
        .ok (.next (pos + (encodeSeg s a).length) (pos + (encodeSeg s a).length)
          (stateAfter st pos s a prev' (denoteSeg c s a))) ∧
      FileInv (seen ++ a.map (·.path)) (some a) last'
        (mstateOf (stateAfter st pos s a prev' (denoteSeg c s a))) ∧
      SpecInv (some a) last' := by
  have hpost := activeOfSeg_post hspec hok.nodup hact
  have hL := activeOfSeg_ok_L hact
  have hdiv := noBareReuseSeg_of_ok hact hok.nodup seen
  have hsplit := encodeSeg_split s a
  have hraw := encRaw_lengthI hok
  have hli28 := encLeadIn_length tagData s (segMeta s).length (encRaw s a).length rfl
  have hseglen : (encodeSeg s a).length = 28 + (segMeta s).length + (encRaw s a).length := by
    rw [hsplit]; simp [hli28]; omega
  -- positions
  have hdl : (file.drop pos).length = (encodeSeg s a).length + rest.length := by rw [hfile]; simp
  have hposle : pos + (encodeSeg s a).length ≤ file.length := by
    rw [List.length_drop] at hdl; omega
  -- the lead-in
  have hlead : readLeadIn (file.drop pos) pos false (some file.length) =
      .ok (some { toc := tocMask s, version := s.version, dataPosition := pos + 28 + (segMeta s).length,
                  nextSegmentPos := pos + 28 + (segMeta s).length + (encRaw s a).length,
                  incomplete := false }) := by
    rw [hfile, hsplit, List.append_assoc]
    exact Tdms.Proofs.C01.readLeadIn_encLeadIn s _ _ pos file.length _ hok.std.lengthKnown
      (version_lt' hok.version) (by omega) (by omega) (by omega)
  have hdrop : file.drop (pos + 28) = segMeta s ++ (encRaw s a ++ rest) := by
    rw [← List.drop_drop, hfile, hsplit, List.append_assoc, List.drop_left' hli28, List.append_assoc]
  -- the metadata block
  have hflagM : hasFlag (tocMask s) kTocMetaData = s.hasMeta := Tdms.Proofs.Bytes.hasFlag_tocMask_meta s
  have hflagN : hasFlag (tocMask s) kTocNewObjList = s.newList := Tdms.Proofs.Bytes.hasFlag_tocMask_newList s
  let seg0 : Segment := ⟨pos, tocMask s, pos + 28 + (segMeta s).length + (encRaw s a).length,
    pos + 28 + (segMeta s).length, false, [], 0, none⟩
  have he : seg0.endian = s.endian := Tdms.Proofs.Bytes.segEndian_of_tocMask s
  have hparse : hasFlag seg0.toc kTocMetaData = true →
      (do let n ← uN seg0.endian 4; parseObjs seg0.endian n : P (List Item)) (file.drop (pos + 28)) =
        .ok (s.objs.map itemOf, List.replicate s.padding 0 ++ (encRaw s a ++ rest)) := by
    intro hm
    have hm' : s.hasMeta = true := by rw [← hflagM]; exact hm
    rw [he, hdrop, segMeta_of_meta s hm', List.append_assoc]
    exact parseMeta_encMeta s.endian s.objs _ hok.fits.nObjs hok.objs hok.std.std hok.fits.objs
  have hseg := readSegmentObjects_eq seg0 st.segments.getLast? st.prevObjs hinv.keyed
    (file.drop (pos + 28)) _ (s.objs.map itemOf) hparse
  -- the object list
  have hdesc : (⟨hasFlag seg0.toc kTocMetaData, hasFlag seg0.toc kTocNewObjList,
      (s.objs.map itemOf).map fun it => (it.path, it.hdr)⟩ : SegDesc) = descOfSegRaw s := by
    show (⟨hasFlag (tocMask s) kTocMetaData, hasFlag (tocMask s) kTocNewObjList, _⟩ : SegDesc) = _
    rw [hflagM, hflagN, items_hdrs, hdrsOf_canon s.objs hok.std.canon]
    rfl
  have href := segObjects_refines hinv s hok.nodup hdiv
  rw [hL] at href
  obtain ⟨hsegobjs, hpostseg⟩ := href
  have hsegobjs' : segObjects (st.segments.getLast?.map (·.objects)) st.prevObjs (descOfSegRaw s) =
      .ok (a.map concObj) := hsegobjs
  -- the chunks
  have hcalc : calculateChunks { seg0 with objects := a.map concObj } = .ok (segRec pos s a) := by
    rw [C01Compose.calculateChunks_whole _ (chunkBytesA a) s.chunks.length (chunkSize_conc a hok.good)
      (by show pos + 28 + (segMeta s).length + (encRaw s a).length = _; rw [hraw])
      (chunkBytes_zero_no_chunksI hok)]
    have hnp : pos + (encodeSeg s a).length = pos + 28 + (segMeta s).length + (encRaw s a).length := by omega
    unfold segRec
    rw [hnp]
  have hprops : (if hasFlag seg0.toc kTocMetaData then foldProps [] (s.objs.map itemOf) else []) = propsDict s := by
    show (if hasFlag (tocMask s) kTocMetaData then _ else _) = _
    rw [hflagM]
    by_cases hm : s.hasMeta = true
    · simp only [hm, if_true]
      rw [foldProps_items s.objs [] hok.nodup (fun _ _ x hx => by cases hx)]
      rfl
    · have hm' : s.hasMeta = false := by simpa using hm
      simp only [hm', Bool.false_eq_true, if_false]
      exact (propsDict_nil (hok.noMeta hm')).symm
  have hreadseg : readSegmentObjects seg0 st.segments.getLast? st.prevObjs (file.drop (pos + 28)) =
      .ok (segRec pos s a, propsDict s) := by
    rw [hseg, hdesc, hsegobjs']
    simp only [bind, Except.bind]
    rw [hcalc, hprops]
    rfl
  -- object metadata
  have hfs := fileStep_post hinv hpostseg hpost.mono (segRec pos s a) (propsDict s)
  have hnodaq := uom_noDaq (segRec pos s a) (a.map concObj) st.prevObjs st.objects (by
    intro o ho
    obtain ⟨x, hx, rfl⟩ := List.mem_map.mp ho
    exact concObj_daq_none (hok.good x hx))
  cases hu : updateObjectMetadata (segRec pos s a) (a.map concObj) st.prevObjs st.objects with
  | error err =>
    rw [show (mstateOf st).prevObjs = st.prevObjs from rfl, show (mstateOf st).metas = st.objects from rfl,
      hu] at hfs
    rw [hu] at hnodaq
    exact absurd hfs hnodaq
  | ok pm =>
    obtain ⟨prev', ms'⟩ := pm
    rw [show (mstateOf st).prevObjs = st.prevObjs from rfl, show (mstateOf st).metas = st.objects from rfl,
      hu] at hfs
    simp only [] at hfs
    have hms' := uom_ok_fold _ _ _ _ _ _ hu
    have hty : ∀ oc ∈ c, last'.get oc.path = none → oc.ty = none := by
      intro oc hoc hl
      have hlast : last.get oc.path = none := by
        cases hg : last.get oc.path with
        | none => rfl
        | some d =>
          obtain ⟨d', hd', _⟩ := hpost.mono _ _ hg
          rw [hl] at hd'; cases hd'
      have ht := hinv.types oc.path
      rw [hlast] at ht
      have hfind : st.objects.find? (·.path = oc.path) = some (mOC (fun _ => 0) oc) := by
        rw [hobjs, List.find?_map]
        have := find_of_nodup hnodup hoc
        have hcomp : ((fun m : ObjMeta => decide (m.path = oc.path)) ∘ mOC fun _ => 0) =
            fun x : ObjContent => decide (x.path = oc.path) := by
          funext x; rfl
        rw [hcomp, this]
        rfl
      simpa [dtOf, ObjMetas.get, mstateOf, hfind, mOC] using ht
    have hmetas : updateObjectProperties ms' (propsDict s) = (denoteSeg c s a).map (mOC fun _ => 0) := by
      rw [hms', hobjs]
      exact segment_metas (segRec pos s a) rfl s a last' c rfl hpost.idx hok.good hty hpost.listed hok.noMeta
        hok.chunks
    refine ⟨prev', ?_, ?_, hpost.specInv⟩
    · unfold loopStep
      rw [hlead]
      simp only []
      rw [hreadseg]
      simp only []
      rw [show (segRec pos s a).objects = a.map concObj from rfl, hu]
      simp only [Bool.false_eq_true, if_false, hmetas]
      rfl
    · have : mstateOf (stateAfter st pos s a prev' (denoteSeg c s a)) =
          ⟨some (a.map concObj), prev', updateObjectProperties ms' (propsDict s)⟩ := by
        rw [hmetas]
        simp [mstateOf, stateAfter, segRec]
      rw [this]
      exact hfs

/-- **the metadata loop over the remaining segments**, from any reachable state -/
theorem loop_multiI (file : Bytes) (hlen : file.length < 2 ^ 63) :
    ∀ (ss : List SegEnc) (as : List (List ActiveObj)) (pos fuel : Nat) (st : ReaderState)
      (seen : List Bytes) (prev : Option (List ActiveObj)) (last : LastIdx) (c : Content),
      activeLists prev last ss = .ok as → SegsOKI ss as → file.drop pos = zipEncode encodeSeg ss as →
      FileInv seen prev last (mstateOf st) → SpecInv prev last →
      st.objects = c.map (mOC fun _ => 0) → (c.map (·.path)).Nodup → ss.length < fuel →
      ∃ st', readMetadataLoop file false (some file.length) fuel pos pos st = .ok st' ∧
        st'.segments = st.segments ++ segRecs pos ss as ∧
        st'.objects = (denoteSegs c ss as).map (mOC fun _ => 0) ∧
        st'.version = versionAfter st.version ss := by
  intro ss
  induction ss with
  | nil =>
    intro as pos fuel st seen prev last c hacts _ hfile _ _ hobjs _ hfuel
    have has := activeLists_nil hacts
    subst has
    obtain ⟨f, rfl⟩ : ∃ f, fuel = f + 1 := ⟨fuel - 1, by simp at hfuel; omega⟩
    have hend : file.length < pos + 28 := by
      have : (file.drop pos).length = 0 := by rw [hfile]; rfl
      rw [List.length_drop] at this
      omega
    refine ⟨st, ?_, by simp [segRecs], by simpa [denoteSegs] using hobjs, ?_⟩
    · rw [readMetadataLoop_succ, loopStep_past_end _ _ _ _ _ _ hend]
    · cases st.version <;> rfl
  | cons s ss ih =>
    intro as pos fuel st seen prev last c hacts hok hfile hinv hspec hobjs hnodup hfuel
    obtain ⟨a, last', as', hact, hrest, rfl⟩ := activeLists_cons hacts
    obtain ⟨hok1, hok2⟩ := hok
    obtain ⟨f, rfl⟩ : ∃ f, fuel = f + 1 := ⟨fuel - 1, by simp at hfuel; omega⟩
    have hfile' : file.drop pos = encodeSeg s a ++ zipEncode encodeSeg ss as' := hfile
    obtain ⟨prev', hstep, hinv', hspec'⟩ := loopStep_segmentI file hlen pos s a _ hfile' st seen prev last last'
      c hact hok1 hinv hspec hobjs hnodup
    obtain ⟨st', hloop, hsegs, hobjs', hver⟩ := ih as' (pos + (encodeSeg s a).length) f
      (stateAfter st pos s a prev' (denoteSeg c s a)) _ _ _ (denoteSeg c s a) hrest hok2
      (Tdms.Proofs.Bytes.drop_add_of_drop_eq hfile') hinv' hspec' rfl
      (denoteSeg_nodup c s a (not_daq_of_good hok1.good) hnodup) (by simp at hfuel; omega)
    refine ⟨st', ?_, ?_, ?_, ?_⟩
    · rw [readMetadataLoop_succ, hstep]
      exact hloop
    · rw [hsegs]
      simp [stateAfter, segRecs]
    · rw [hobjs']
      rfl
    · rw [hver]
      simp only [stateAfter, versionAfter, List.head?_cons, Option.map_some]
      cases st.version <;> rfl

theorem zipEncode_length_geI : ∀ (ss : List SegEnc) (as : List (List ActiveObj)), SegsOKI ss as →
    ss.length ≤ (zipEncode encodeSeg ss as).length := by
  intro ss
  induction ss with
  | nil => intro as _; simp
  | cons s ss ih =>
    intro as h
    cases as with
    | nil => cases h
    | cons a as =>
      have := ih as h.2
      have := encodeSeg_length_ge s a
      simp only [zipEncode, List.length_cons, List.length_append]
      omega

/-- **`readMetadata` on the encoding of a file of the class** -/
theorem readMetadata_multiI (e : FileEnc) (acts : List (List ActiveObj)) (hacts : activeLists none [] e = .ok acts)
    (hok : SegsOKI e acts) (hlen : (zipEncode encodeSeg e acts).length < 2 ^ 63) :
    ∃ st, readMetadata (zipEncode encodeSeg e acts) = .ok st ∧
      st.segments = segRecs 0 e acts ∧
      st.objects = (denoteSegs [] e acts).map (mOC fun _ => 0) ∧
      st.version = e.head?.map fun s => (s.version : Int) := by
  obtain ⟨st, h1, h2, h3, h4⟩ := loop_multiI (zipEncode encodeSeg e acts) hlen e acts 0
    ((zipEncode encodeSeg e acts).length + 1) {} [] none [] [] hacts hok rfl
    (by rw [mstateOf_init]; exact FileInv.init) SpecInv.init rfl (by simp)
    (by have := zipEncode_length_geI e acts hok; omega)
  exact ⟨st, h1, by simpa using h2, h3, h4⟩

end Tdms.Proofs.C01Layouts
