/-
  C10 whole: the promised content (C07Whole) of the one-session program `[defragSegs r groups]` in closed form
  — it is `viewOfLayout r groups`.  Core Lean only.
-/
import TdmsProofs.Lemmas.C10WholeDefs

namespace Tdms.Proofs.C10Whole

open Tdms Tdms.Generated Tdms.Model Tdms.Model.Writer Tdms.Proofs.C08 Tdms.Proofs.C10
open Tdms.Proofs.C01Compose (content contentOfDenote ObjView valuesIn)
open Tdms.Proofs.C07Whole (promised promisedOf promisedObj promisedView toPropEnc tyOfW dataOf written emitted
  typesConsistent Consistent)
open Tdms.Proofs.Bytes (canonProp canonPropVal)

/-! ## the copy's paths are distinct -/

/-- the component lists of the copy's objects -/
def copyComps (groups : List GroupLayout) : List (List Bytes) :=
  [] :: groups.flatMap fun g => [g.name] :: g.channels.map fun cm => [g.name, cm.1]

theorem copyPaths_eq (groups : List GroupLayout) :
    copyPaths groups = (copyComps groups).map Path.componentsToPathBytes := by
  unfold copyPaths copyComps
  rw [List.map_cons, List.map_flatMap]
  congr 1
  induction groups with
  | nil => rfl
  | cons g gs ih =>
    rw [List.flatMap_cons, List.flatMap_cons, ih, List.map_cons, List.map_map]
    rfl

theorem componentsToPathBytes_injective {a b : List Bytes}
    (h : Path.componentsToPathBytes a = Path.componentsToPathBytes b) : a = b :=
  Tdms.Proofs.C16.path_injective (q := Path.qByte) (s := Path.sByte) (by decide) h

theorem nodup_map_of_injective {α β : Type} (f : α → β) (hf : ∀ a b, f a = f b → a = b) {l : List α}
    (h : l.Nodup) : (l.map f).Nodup := by
  unfold List.Nodup at h ⊢
  rw [List.pairwise_map]
  exact h.imp fun hne e => hne (hf _ _ e)

theorem copyComps_nodup (groups : List GroupLayout) (hg : (groups.map (·.name)).Nodup)
    (hc : ∀ g ∈ groups, (g.channels.map (·.1)).Nodup) : (copyComps groups).Nodup := by
  unfold copyComps
  rw [List.nodup_cons]
  constructor
  · intro h
    obtain ⟨g, _, hx⟩ := List.mem_flatMap.1 h
    rcases List.mem_cons.1 hx with hx | hx
    · cases hx
    · obtain ⟨cm, _, hx⟩ := List.mem_map.1 hx; cases hx
  · unfold List.Nodup
    rw [List.pairwise_flatMap]
    constructor
    · intro g hgm
      show ([g.name] :: g.channels.map fun cm => [g.name, cm.1]).Nodup
      rw [List.nodup_cons]
      constructor
      · intro h
        obtain ⟨cm, _, hx⟩ := List.mem_map.1 h; cases hx
      · have := hc g hgm
        unfold List.Nodup at this ⊢
        rw [List.pairwise_map] at this ⊢
        exact this.imp fun hne e => hne (by
          have := List.cons.inj e
          exact List.cons.inj this.2 |>.1)
    · unfold List.Nodup at hg
      rw [List.pairwise_map] at hg
      refine hg.imp ?_
      intro g₁ g₂ hne x hx y hy hxy
      have hd : ∀ (g : GroupLayout) (z : List Bytes),
          z ∈ ([g.name] :: g.channels.map fun cm => [g.name, cm.1]) → z.head? = some g.name := by
        intro g z hz
        rcases List.mem_cons.1 hz with hz | hz
        · rw [hz]; rfl
        · obtain ⟨cm, _, hz⟩ := List.mem_map.1 hz; rw [← hz]; rfl
      have h1 := hd g₁ x hx
      have h2 := hd g₂ y hy
      rw [hxy, h2] at h1
      exact hne (Option.some.inj h1).symm

/-- the objects of the copy have pairwise different paths -/
theorem copyPaths_nodup {objects : ObjMetas} {groups : List GroupLayout} (h : fileLayout objects = some groups) :
    (copyPaths groups).Nodup := by
  rw [copyPaths_eq]
  exact nodup_map_of_injective _ (fun _ _ => componentsToPathBytes_injective)
    (copyComps_nodup groups (fileLayout_nodup h).1 (fileLayout_nodup h).2.1)

/-! ## the promised content of objects with distinct paths -/

/-- the promised entry of an object written exactly once -/
def objContent (o : WObj) : ObjContent :=
  { path := o.path, ty := tyOfW o, props := (o.props.map toPropEnc).foldl setProp [],
    values := C07Whole.chanVals o, scalers := [] }

theorem filter_path_self : ∀ (ws : List WObj) (o : WObj), (ws.map (·.path)).Nodup → o ∈ ws →
    ws.filter (·.path = o.path) = [o] := by
  intro ws
  induction ws with
  | nil => intro o _ h; cases h
  | cons a as ih =>
    intro o hnd ho
    rw [List.map_cons, List.nodup_cons] at hnd
    rw [List.filter_cons]
    rcases List.mem_cons.1 ho with rfl | ho
    · simp only [decide_true, if_true]
      rw [C07Whole.filter_path_absent hnd.1]
    · have : a.path ≠ o.path := fun e => hnd.1 (e ▸ List.mem_map_of_mem ho)
      simp only [this, decide_false, Bool.false_eq_true, if_false]
      exact ih o hnd.2 ho

theorem promisedObj_single (ws : List WObj) (o : WObj) (hnd : (ws.map (·.path)).Nodup) (ho : o ∈ ws) :
    promisedObj ws o.path = objContent o := by
  unfold promisedObj objContent
  simp only [filter_path_self ws o hnd ho, List.filterMap_cons, List.filterMap_nil, List.flatMap_cons,
    List.flatMap_nil, List.append_nil]
  cases tyOfW o <;> rfl

theorem promisedOf_of_nodup (ws : List WObj) (hnd : (ws.map (·.path)).Nodup) :
    promisedOf ws = ws.map objContent := by
  unfold promisedOf
  rw [C07Whole.eraseDups_of_nodup _ hnd, List.map_map]
  apply List.map_congr_left
  intro o ho
  exact promisedObj_single ws o hnd ho

/-! ## properties -/

theorem foldl_setProp_distinct : ∀ (ps acc : List PropEnc), ((acc ++ ps).map (·.name)).Nodup →
    ps.foldl setProp acc = acc ++ ps := by
  intro ps
  induction ps with
  | nil => intro acc _; simp
  | cons p ps ih =>
    intro acc h
    rw [List.foldl_cons]
    have hp : acc.any (·.name = p.name) = false := by
      rw [List.any_eq_false]
      intro x hx
      simp only [decide_eq_true_eq]
      intro e
      rw [List.map_append, List.nodup_append] at h
      exact h.2.2 x.name (List.mem_map_of_mem hx) p.name (by simp) e
    have hs : setProp acc p = acc ++ [p] := by
      unfold setProp; rw [hp]; rfl
    rw [hs, ih (acc ++ [p]) (by simpa using h)]
    simp

/-- no Python value the reader hands out is an explicitly typed wrapper -/
def NotTyped : PyVal → Prop
  | .typed _ _ => False
  | _ => True

theorem propToPyVal_notTyped (p : PropVal) : NotTyped (propToPyVal p) := by
  unfold propToPyVal
  split
  · trivial
  · split
    · trivial
    · split
      · trivial
      · split
        · trivial
        · trivial
        · split <;> trivial
        · trivial

theorem intPropertyType_cases (v : Int) :
    intPropertyType v = tyInt32 ∨ intPropertyType v = tyInt64 ∨ intPropertyType v = tyUint64 := by
  unfold intPropertyType
  simp only
  split
  · exact .inr (.inr rfl)
  · exact .inr (.inl rfl)
  · exact .inl rfl

/-- a value written from an untyped Python value is already in the reader's canonical form -/
theorem canonProp_toPropEnc (n : Bytes) (v : PyVal) (h : NotTyped v) :
    canonProp (toPropEnc ⟨n, v⟩) = ⟨n, (toTdmsValue v).1, (toTdmsValue v).2⟩ := by
  unfold canonProp canonPropVal toPropEnc
  simp only [PropVal.mk.injEq, true_and]
  cases v with
  | int x =>
    have : (toTdmsValue (.int x)).1 = intPropertyType x := rfl
    rw [this]
    rcases intPropertyType_cases x with e | e | e <;> rw [e] <;> rfl
  | float b => rfl
  | bool b => cases b <;> rfl
  | str s => rfl
  | datetime us => rfl
  | rawTimestamp s f => rfl
  | typed c l => exact h.elim

theorem canonProp_reread (p : PropVal) : canonProp (toPropEnc ⟨p.name, propToPyVal p⟩) = rereadProp p :=
  canonProp_toPropEnc p.name (propToPyVal p) (propToPyVal_notTyped p)

/-- the property dictionary of an object of the copy, as read back -/
theorem props_view (ps : List PropVal) (h : (ps.map (·.name)).Nodup) :
    (((propsToW ps).map toPropEnc).foldl setProp []).map canonProp = ps.map rereadProp := by
  rw [foldl_setProp_distinct _ [] (by
    rw [List.nil_append]
    unfold propsToW
    rw [List.map_map, List.map_map]
    exact h)]
  rw [List.nil_append]
  unfold propsToW
  rw [List.map_map, List.map_map]
  apply List.map_congr_left
  intro p _
  exact canonProp_reread p

/-! ## the view of one written object -/

/-- what the reader shows of an object written exactly once -/
def viewOfObj (o : WObj) : ObjView :=
  ⟨o.path, tyOfW o, ((o.props.map toPropEnc).foldl setProp []).map canonProp, C07Whole.chanVals o⟩

theorem contentOfDenote_objContent (ws : List WObj) : contentOfDenote (ws.map objContent) = ws.map viewOfObj := by
  unfold contentOfDenote
  rw [List.map_map]
  rfl

theorem viewOfObj_root (r : EagerResult) (h : ((rootProps r).map (·.name)).Nodup) :
    viewOfObj (rootObj r) = rootView r := by
  unfold viewOfObj rootObj rootView
  simp only [WObj.props, props_view _ h]
  rfl

theorem viewOfObj_group (g : GroupLayout) (h : (g.props.map (·.name)).Nodup) :
    viewOfObj (groupObj g) = groupView g := by
  unfold viewOfObj groupObj groupView
  simp only [WObj.props, props_view _ h]
  rfl

theorem viewOfObj_chan (r : EagerResult) (g : Bytes) (cm : Bytes × ObjMeta) (h : (cm.2.props.map (·.name)).Nodup) :
    viewOfObj (chanObj r g cm) = chanView r g cm := by
  unfold viewOfObj chanObj chanView copiedType
  simp only [WObj.props, props_view _ h, C07Checked.tyOfW_channel]
  rfl

/-- the layout's property lists have distinct names when the source's objects have -/
def LayoutPropsDistinct (r : EagerResult) (groups : List GroupLayout) : Prop :=
  ((rootProps r).map (·.name)).Nodup ∧
  ∀ g ∈ groups, (g.props.map (·.name)).Nodup ∧ ∀ cm ∈ g.channels, (cm.2.props.map (·.name)).Nodup

theorem map_viewOfObj_layout (r : EagerResult) (groups : List GroupLayout) (h : LayoutPropsDistinct r groups) :
    (defragSegs r groups).flatten.map viewOfObj = viewOfLayout r groups := by
  rw [defragSegs_flatten]
  unfold viewOfLayout
  rw [List.map_cons, viewOfObj_root r h.1]
  congr 1
  have h2 := h.2
  clear h
  induction groups with
  | nil => rfl
  | cons g gs ih =>
    rw [List.flatMap_cons, List.flatMap_cons, List.map_append, ih (fun g' hg' => h2 g' (List.mem_cons_of_mem _ hg'))]
    congr 1
    obtain ⟨hg, hcs⟩ := h2 g List.mem_cons_self
    rw [List.map_cons, viewOfObj_group g hg, List.map_map]
    congr 1
    apply List.map_congr_left
    intro cm hcm
    exact viewOfObj_chan r g.name cm (hcs cm hcm)

end Tdms.Proofs.C10Whole
