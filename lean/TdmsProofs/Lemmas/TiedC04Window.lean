import TdmsProofs.Lemmas.TiedRepr
import TdmsProofs.Lemmas.C04WindowDefs
import TdmsProofs.Lemmas.C04WindowIndex
import TdmsProofs.Lemmas.C04WindowPlan

/-!
# Lemmas for the C04 tied theorems (`_trim_channel_chunk`, `TdmsReader.read_raw_data_for_channel`
of `nptdms/reader.py`)

1. generic lemmas about `Py.slice`, `Py.searchsorted…`, `Py.index`, `Py.Dict.getD` (namespace
   `Tdms.Generated.Py`; candidates for `TiedPrelude.lean`);
2. `_trim_channel_chunk` against `trimChannelChunk`;
3. the representation of `segment.get_segment_object` (`pyGetSegObj`);
4. loop lemmas by specification: a `Py.forP` over `Py.enumerate chunks` whose body does what one step of
   `trimStream` does, and a `Py.forE` over segments whose body does what one step of `windowLoopPure` does.
-/

namespace Tdms.Generated.Py

/-! ## generic: `xs[a:b]` -/

theorem take_drop_min {α : Type} (xs : List α) (a b : Nat) :
    (xs.take (min b xs.length)).drop (min a xs.length) = (xs.take b).drop a := by
  have h1 : xs.take (min b xs.length) = xs.take b := by
    rcases Nat.le_total b xs.length with h | h
    · rw [Nat.min_eq_left h]
    · rw [Nat.min_eq_right h, List.take_of_length_le (Nat.le_refl _), List.take_of_length_le h]
  rw [h1]
  rcases Nat.le_total a xs.length with h | h
  · rw [Nat.min_eq_left h]
  · rw [Nat.min_eq_right h, List.drop_eq_nil_of_le (by simp; omega), List.drop_eq_nil_of_le (by simp; omega)]

/-- `xs[a:b]` for a non-negative start and an arbitrary stop: the stop counts from the end when negative,
    both bounds are clipped -/
theorem slice_of_nonneg {α : Type} (xs : List α) (a : Nat) (b : Int) :
    slice xs (a : Int) b
      = (xs.take (if b < 0 then (b + (xs.length : Int)).toNat else b.toNat)).drop a := by
  unfold slice
  simp only []
  have ha : ¬ ((a : Int) < 0) := by omega
  rw [if_neg ha]
  have e1 : (min (a : Int) (xs.length : Int)).toNat = min a xs.length := by omega
  rw [e1]
  by_cases hb : b < 0
  · rw [if_pos hb, if_pos hb]
    have e2 : (max (b + (xs.length : Int)) 0).toNat = min (b + (xs.length : Int)).toNat xs.length := by omega
    rw [e2, take_drop_min]
  · rw [if_neg hb, if_neg hb]
    have e2 : (min b (xs.length : Int)).toNat = min b.toNat xs.length := by omega
    rw [e2, take_drop_min]

/-- `xs[a:b]` for non-negative bounds -/
theorem slice_natCast {α : Type} (xs : List α) (a b : Nat) :
    slice xs (a : Int) (b : Int) = (xs.drop a).take (b - a) := by
  rw [slice_of_nonneg]
  have hb : ¬ ((b : Int) < 0) := by omega
  rw [if_neg hb, Int.toNat_natCast, List.drop_take]

/-! ## generic: `np.searchsorted` -/

theorem takeWhile_map_length {α β : Type} (f : α → β) (q : β → Bool) (xs : List α) :
    ((xs.map f).takeWhile q).length = (xs.takeWhile fun x => q (f x)).length := by
  induction xs with
  | nil => rfl
  | cons x xs ih =>
    simp only [List.map_cons, List.takeWhile_cons]
    cases q (f x) <;> simp [ih]

/-! ## generic: `xs[i]` -/

/-- `xs[k]` for a non-negative index -/
theorem index_nat {α : Type} (xs : List α) (k : Nat) :
    index xs (k : Int) = match xs[k]? with | some v => .ok v | none => .error "IndexError" := by
  unfold index
  have h1 : ¬ ((k : Int) < 0) := by omega
  simp only [h1, if_false, Int.toNat_natCast]
  rfl

/-- `xs[k]` for an index in range -/
theorem index_map_of_lt {α β : Type} (f : α → β) (xs : List α) (k : Nat) (d : α) (h : k < xs.length) :
    index (xs.map f) (k : Int) = .ok (f (xs.getD k d)) := by
  rw [index_nat]
  simp [List.getD_eq_getElem?_getD, List.getElem?_eq_getElem h]

/-- `xs[k]` for an index past the end -/
theorem index_of_ge {α : Type} (xs : List α) (k : Nat) (h : xs.length ≤ k) :
    index xs (k : Int) = .error "IndexError" := by
  rw [index_nat, List.getElem?_eq_none h]

end Tdms.Generated.Py

namespace Tdms.Proofs.Tied
open Tdms Tdms.Model Tdms.Generated Tdms.Generated.Code Tdms.Proofs.C04

/-! ## `np.searchsorted` on the index -/

theorem searchsortedRight_natCast (xs : List Nat) (v : Int) :
    Py.searchsortedRight (xs.map fun (n : Nat) => (n : Int)) v = (searchRight xs v : Int) := by
  unfold Py.searchsortedRight searchRight
  rw [Py.takeWhile_map_length]

theorem searchsortedLeft_natCast (xs : List Nat) (v : Int) :
    Py.searchsortedLeft (xs.map fun (n : Nat) => (n : Int)) v = (searchLeft xs v : Int) := by
  unfold Py.searchsortedLeft searchLeft
  rw [Py.takeWhile_map_length]

/-! ## `_trim_channel_chunk` -/

/-- a `RawChannelDataChunk` -/
def pyChunk (c : ChanChunk) : RawChannelDataChunk Bytes :=
  { data := c.data, scaler_data := c.scalers.map fun l => l.map fun (id, d) => ((id : Int), d) }

/-- Python's `d[skip : len(d) - trim]` is the model's `pySliceTo`, for every `trim` (also negative or
    larger than `len(d)`) -/
theorem slice_eq_pySliceTo (d : List Bytes) (skip : Nat) (trim : Int) :
    Py.slice d (skip : Int) (Py.len d - trim) = pySliceTo d skip trim := by
  rw [Py.slice_of_nonneg, Py.len_eq]
  unfold pySliceTo
  simp only []
  have e : ((d.length : Int) - trim + (d.length : Int)) = ((d.length : Int) + ((d.length : Int) - trim)) := by omega
  rw [e]

theorem slice_eq_pySliceTo' (d : List Bytes) (skip : Nat) (trim : Int) :
    Py.slice d (skip : Int) ((d.length : Int) - trim) = pySliceTo d skip trim := slice_eq_pySliceTo d skip trim

theorem trim_channel_chunk_eq (c : ChanChunk) (skip : Nat) (trim : Int) :
    _trim_channel_chunk (pyChunk c) (skip : Int) trim = pyChunk (trimChannelChunk c skip trim) := by
  unfold _trim_channel_chunk trimChannelChunk
  have e : ((skip : Int) = 0 ∧ trim = 0) ↔ (skip = 0 ∧ trim = 0) := by omega
  by_cases h : skip = 0 ∧ trim = 0
  · rw [if_pos h, if_pos (e.mpr h)]
  · rw [if_neg h, if_neg (fun h' => h (e.mp h'))]
    obtain ⟨d, sc⟩ := c
    cases d <;> cases sc <;> simp [pyChunk, slice_eq_pySliceTo']

/-! ## `segment.get_segment_object` -/

/-- `segment.get_segment_object(path)`: `object_index.get(path)`, the LAST object of `ordered_objects` with
    that path (`object_index` is built by a dict comprehension over `enumerate(ordered_objects)`) -/
def pyGetSegObj (ps : TdmsSegment) (q : Py.Path) : Option SegmentObject :=
  ps.ordered_objects.reverse.find? fun o => decide (o.path = q)

theorem existingIndex_snoc (zs : List SegObj) (y : SegObj) (p : Bytes) :
    (existingIndex (zs ++ [y]) p).bind (fun i => (zs ++ [y])[i]?)
      = if y.path = p then some y else (existingIndex zs p).bind (fun i => zs[i]?) := by
  unfold existingIndex
  simp only [List.length_append, List.length_singleton, List.range_succ, List.filter_append]
  have e : (List.range zs.length).filter (fun i => decide (((zs ++ [y])[i]?.map (·.path)) = some p))
      = (List.range zs.length).filter (fun i => decide ((zs[i]?.map (·.path)) = some p)) := by
    apply List.filter_congr
    intro i hi
    rw [List.mem_range] at hi
    rw [List.getElem?_append_left hi]
  rw [e]
  by_cases hy : y.path = p
  · simp [hy]
  · simp only [hy, if_false]
    have : List.filter (fun i => decide (((zs ++ [y])[i]?.map (·.path)) = some p)) [zs.length] = [] := by
      simp [hy]
    rw [this, List.append_nil]
    cases hl : ((List.range zs.length).filter (fun i => decide ((zs[i]?.map (·.path)) = some p))).getLast? with
    | none => rfl
    | some i =>
      have hm := List.mem_of_getLast? hl
      rw [List.mem_filter, List.mem_range] at hm
      simp only [Option.bind_some]
      rw [List.getElem?_append_left hm.1]

theorem existingIndex_bind_reverse (ys : List SegObj) (p : Bytes) :
    (existingIndex ys.reverse p).bind (fun i => ys.reverse[i]?) = ys.find? fun o => decide (o.path = p) := by
  induction ys with
  | nil => rfl
  | cons y ys ih =>
    rw [List.reverse_cons, existingIndex_snoc, ih, List.find?_cons]
    by_cases hy : y.path = p <;> simp [hy]

theorem pyGetSegObj_pySeg (s : Segment) (q : Bytes) :
    pyGetSegObj (pySeg s) q = (getSegmentObject s q).map pyObj := by
  unfold pyGetSegObj getSegmentObject
  have := existingIndex_bind_reverse s.objects.reverse q
  rw [List.reverse_reverse] at this
  rw [this]
  show ((s.objects.map pyObj).reverse.find? _) = _
  rw [← List.map_reverse, List.find?_map]
  rfl

/-! ## the inner loop -/

/-- the inner loop: `for i, chunk in enumerate(chunks)` with `skip` only for `i = 0` is `trimStream` -/
theorem forP_trimStream (length rem : Int) (hrem : 0 ≤ rem)
    (f : Int × ChanChunk → Int × List ChanChunk → Py.Step (Int × List ChanChunk))
    (hf : ∀ i c vr out, f (i, c) (vr, out) =
        .next (vr + ((c.len : Int) - (if i = 0 then rem else 0)),
               out ++ [trimChannelChunk c (if i = 0 then rem else 0).toNat
                  (if vr + ((c.len : Int) - (if i = 0 then rem else 0)) < length then 0
                   else vr + ((c.len : Int) - (if i = 0 then rem else 0)) - length)]))
    (chunks : List ChanChunk) (i : Int) (hi : 0 ≤ i) (vr : Int) (out : List ChanChunk) :
    Py.forP (Py.enumerateFrom i chunks) (vr, out) f =
      ((trimStream length chunks (if i = 0 then rem else 0).toNat vr).2,
       out ++ (trimStream length chunks (if i = 0 then rem else 0).toNat vr).1) := by
  induction chunks generalizing i vr out with
  | nil => simp [Py.enumerateFrom, trimStream]
  | cons c cs ih =>
    rw [Py.enumerateFrom, Py.forP_cons, hf]
    simp only []
    rw [ih (i + 1) (by omega)]
    have h1 : ¬ (i + 1 = 0) := by omega
    rw [if_neg h1]
    have e : (((if i = 0 then rem else 0).toNat : Nat) : Int) = (if i = 0 then rem else 0) := by
      split <;> omega
    simp only [trimStream, Int.toNat_zero, e, List.append_assoc, List.singleton_append]
    have e2 : vr + ((c.len : Int) - (if i = 0 then rem else 0)) = vr + (c.len : Int) - (if i = 0 then rem else 0) := by
      omega
    rw [e2]


/-! ## the segment loop -/

/-- what one iteration of the segment loop of `read_raw_data_for_channel` does on the running
    `(segment_index, values_read, out)`, in terms of the model's `segPlan` and `trimStream`:
    `continue` when the channel has no data in the segment; `IndexError` from
    `segment_offsets[segment_index - first_segment]` when the end segment lies past the index;
    else the trimmed chunks of the segment are appended -/
def iterSpec (supI : TdmsSegment → Int → Int → List ChanChunk) (p : Bytes) (ix : ChannelIndex)
    (offset endIndex length : Int) (startSeg endSeg : Nat) (s : Segment) (si : Nat) (vr : Int)
    (out : List ChanChunk) : Except Py.Exc (Py.Step (Int × Int × List ChanChunk)) :=
  match segPlan p ix offset endIndex startSeg endSeg si s with
  | none => .ok (.next ((si : Int) + 1, vr, out))
  | some (co, skip, nc) =>
    if si = endSeg ∧ ix.offsets.length ≤ si - ix.firstSegment then .error "IndexError"
    else .ok (.next ((si : Int) + 1, (trimStream length (supI (pySeg s) co nc) skip.toNat vr).2,
                     out ++ (trimStream length (supI (pySeg s) co nc) skip.toNat vr).1))

/-- some iteration over `rest` (absolute indices from `si`) raises -/
def loopRaises (p : Bytes) (ix : ChannelIndex) (endSeg : Nat) : List Segment → Nat → Prop
  | [], _ => False
  | s :: rest, si =>
    ((layoutOf p s).cs ≠ 0 ∧ si = endSeg ∧ ix.offsets.length ≤ si - ix.firstSegment)
      ∨ loopRaises p ix endSeg rest (si + 1)

theorem segPlan_eq_none_iff (p : Bytes) (ix : ChannelIndex) (offset endIndex : Int) (startSeg endSeg si : Nat)
    (s : Segment) : segPlan p ix offset endIndex startSeg endSeg si s = none ↔ (layoutOf p s).cs = 0 := by
  unfold segPlan layoutOf
  simp only []
  split <;> simp_all

/-- the segment loop by specification: when every iteration does `iterSpec`, the loop either raises
    `IndexError` or appends `windowLoopPure` to `out` (`supN`: any supplier that agrees with `supI` on the
    reads the plan asks for) -/
theorem forE_windowLoop (supI : TdmsSegment → Int → Int → List ChanChunk) (supN : Supplier) (p : Bytes)
    (ix : ChannelIndex) (offset endIndex length : Int) (startSeg endSeg : Nat)
    (f : TdmsSegment → Int × Int × List ChanChunk → Except Py.Exc (Py.Step (Int × Int × List ChanChunk)))
    (hf : ∀ s si vr out, ix.firstSegment ≤ si → si ≤ endSeg →
      f (pySeg s) ((si : Int), vr, out) = iterSpec supI p ix offset endIndex length startSeg endSeg s si vr out)
    (rest : List Segment) (si : Nat) (vr : Int) (out : List ChanChunk)
    (h1 : ix.firstSegment ≤ si) (h2 : rest.length ≤ endSeg + 1 - si) :
    (loopRaises p ix endSeg rest si →
      Py.forE (rest.map pySeg) ((si : Int), vr, out) f = .error "IndexError") ∧
    (¬ loopRaises p ix endSeg rest si →
      (∀ j s, rest[j]? = some s → ∀ co skip nc,
        segPlan p ix offset endIndex startSeg endSeg (si + j) s = some (co, skip, nc) →
        supI (pySeg s) co nc = supN (si + j) co.toNat nc) →
      ∃ si' vr', Py.forE (rest.map pySeg) ((si : Int), vr, out) f
        = .ok (si', vr', out ++ windowLoopPure supN p ix offset endIndex length startSeg endSeg rest si vr)) := by
  induction rest generalizing si vr out with
  | nil =>
    refine ⟨fun h => absurd h (by simp [loopRaises]), fun _ _ => ⟨si, vr, ?_⟩⟩
    simp [windowLoopPure]
  | cons s rest ih =>
    have hlen : rest.length + 1 ≤ endSeg + 1 - si := by simpa using h2
    have hsup' : (∀ j s', (s :: rest)[j]? = some s' → ∀ co skip nc,
        segPlan p ix offset endIndex startSeg endSeg (si + j) s' = some (co, skip, nc) →
        supI (pySeg s') co nc = supN (si + j) co.toNat nc) →
      ∀ j s', rest[j]? = some s' → ∀ co skip nc,
        segPlan p ix offset endIndex startSeg endSeg (si + 1 + j) s' = some (co, skip, nc) →
        supI (pySeg s') co nc = supN (si + 1 + j) co.toNat nc := by
      intro hsup j s' hj co skip nc hp
      have e : si + 1 + j = si + (j + 1) := by omega
      rw [e] at hp ⊢
      exact hsup (j + 1) s' (by simpa using hj) co skip nc hp
    have ih' := fun vr out => ih (si + 1) vr out (by omega) (by omega)
    have hcast : (((si + 1 : Nat)) : Int) = (si : Int) + 1 := by omega
    rw [hcast] at ih'
    rw [List.map_cons, Py.forE_cons, hf s si vr out h1 (by omega)]
    unfold iterSpec
    cases hp : segPlan p ix offset endIndex startSeg endSeg si s with
    | none =>
      have hcs : (layoutOf p s).cs = 0 := (segPlan_eq_none_iff ..).mp hp
      simp only [loopRaises, windowLoopPure, hp, hcs, ne_eq, not_true_eq_false, false_and, false_or]
      exact ⟨(ih' vr out).1, fun h hsup => (ih' vr out).2 h (hsup' hsup)⟩
    | some r =>
      obtain ⟨co, skip, nc⟩ := r
      have hcs : (layoutOf p s).cs ≠ 0 := fun h => by
        rw [(segPlan_eq_none_iff ..).mpr h] at hp; cases hp
      simp only [loopRaises, windowLoopPure, hp, ne_eq, hcs, not_false_eq_true, true_and]
      by_cases hb : si = endSeg ∧ ix.offsets.length ≤ si - ix.firstSegment
      · rw [if_pos hb]
        refine ⟨fun _ => rfl, fun h => absurd (Or.inl hb) h⟩
      · rw [if_neg hb]
        simp only []
        obtain ⟨ih1, ih2⟩ := ih' (trimStream length (supI (pySeg s) co nc) skip.toNat vr).2
          (out ++ (trimStream length (supI (pySeg s) co nc) skip.toNat vr).1)
        refine ⟨fun h => ih1 (h.resolve_left hb), fun h hsup => ?_⟩
        have hs := hsup 0 s (by simp) co skip nc (by simpa using hp)
        simp only [Nat.add_zero] at hs
        rw [hs] at ih2 ⊢
        obtain ⟨si', vr', e⟩ := ih2 (fun h' => h (Or.inr h')) (hsup' hsup)
        exact ⟨si', vr', by rw [e, List.append_assoc]⟩

theorem ok_bind {α β : Type} (a : α) (f : α → Except Py.Exc β) :
    ((Except.ok a : Except Py.Exc α) >>= f) = f a := rfl
theorem pure_bind' {α β : Type} (a : α) (f : α → Except Py.Exc β) :
    ((pure a : Except Py.Exc α) >>= f) = f a := rfl
theorem error_bind {α β : Type} (e : Py.Exc) (f : α → Except Py.Exc β) :
    ((Except.error e : Except Py.Exc α) >>= f) = .error e := rfl

instance loopRaises.dec (p : Bytes) (ix : ChannelIndex) (endSeg : Nat) :
    ∀ (rest : List Segment) (si : Nat), Decidable (loopRaises p ix endSeg rest si)
  | [], _ => isFalse (fun h => h)
  | s :: rest, si =>
    have := loopRaises.dec p ix endSeg rest (si + 1)
    inferInstanceAs (Decidable
      (((layoutOf p s).cs ≠ 0 ∧ si = endSeg ∧ ix.offsets.length ≤ si - ix.firstSegment)
        ∨ loopRaises p ix endSeg rest (si + 1)))

/-- `forE_windowLoop` as a rewrite rule for `for … : …` followed by `return out` -/
theorem forE_windowLoop_bind (supI : TdmsSegment → Int → Int → List ChanChunk) (supN : Supplier) (p : Bytes)
    (ix : ChannelIndex) (offset endIndex length : Int) (startSeg endSeg : Nat)
    (f : TdmsSegment → Int × Int × List ChanChunk → Except Py.Exc (Py.Step (Int × Int × List ChanChunk)))
    (rest : List Segment) (si : Nat) (vr : Int) (out : List ChanChunk)
    (hf : ∀ s si vr out, ix.firstSegment ≤ si → si ≤ endSeg →
      f (pySeg s) ((si : Int), vr, out) = iterSpec supI p ix offset endIndex length startSeg endSeg s si vr out)
    (h1 : ix.firstSegment ≤ si) (h2 : rest.length ≤ endSeg + 1 - si)
    (hsup : ¬ loopRaises p ix endSeg rest si → ∀ j s, rest[j]? = some s → ∀ co skip nc,
      segPlan p ix offset endIndex startSeg endSeg (si + j) s = some (co, skip, nc) →
      supI (pySeg s) co nc = supN (si + j) co.toNat nc) :
    (Py.forE (rest.map pySeg) ((si : Int), vr, out) f >>= fun r => pure r.2.2)
      = if loopRaises p ix endSeg rest si then .error "IndexError"
        else .ok (out ++ windowLoopPure supN p ix offset endIndex length startSeg endSeg rest si vr) := by
  have h := forE_windowLoop supI supN p ix offset endIndex length startSeg endSeg f hf rest si vr out h1 h2
  by_cases hr : loopRaises p ix endSeg rest si
  · rw [if_pos hr, h.1 hr]; rfl
  · obtain ⟨si', vr', e⟩ := h.2 hr (hsup hr)
    rw [if_neg hr, e]; rfl

/-! ## the per-segment arithmetic in two stages -/

/-- `(chunk_offset, remaining_values_to_skip, num_chunks)` after the `if segment_index == start_segment` block -/
def planStart (l : SegL) (isStart : Bool) (toSkip : Int) : Int × Int × Int :=
  if isStart then (toSkip / l.cs, toSkip % l.cs, (l.k : Int) - toSkip / l.cs) else (0, 0, l.k)

/-- `final_chunk_size` -/
def planFinal (l : SegL) : Int :=
  match l.f with
  | none => l.cs
  | some n => n

/-- `num_chunks` after the `if segment_index == end_segment` block -/
def planEnd (l : SegL) (isEnd : Bool) (toTrim nc0 : Int) : Int :=
  if isEnd then
    let finalSize : Int := planFinal l
    let (numChunks, toTrim) := if toTrim ≥ finalSize then (nc0 - 1, toTrim - finalSize) else (nc0, toTrim)
    numChunks - toTrim / l.cs
  else nc0

theorem planA_eq_some (l : SegL) (hcs : l.cs ≠ 0) (isStart isEnd : Bool) (toSkip toTrim : Int) :
    planA l isStart isEnd toSkip toTrim
      = some ((planStart l isStart toSkip).1, (planStart l isStart toSkip).2.1,
              planEnd l isEnd toTrim (planStart l isStart toSkip).2.2) := by
  unfold planA planStart planEnd planFinal
  rw [if_neg hcs]
  cases isStart <;> rfl

theorem planStart_rem_nonneg (l : SegL) (hcs : l.cs ≠ 0) (isStart : Bool) (toSkip : Int) :
    0 ≤ (planStart l isStart toSkip).2.1 := by
  unfold planStart
  cases isStart
  · simp
  · simp only [if_true]
    exact Int.emod_nonneg _ (by omega)

theorem getD_pyDict (ov : List (Bytes × Nat)) (p : Bytes) :
    Py.Dict.getD (pyDict ov) p 0 = ((overrideGet ov p : Nat) : Int) := by
  unfold Py.Dict.getD pyDict overrideGet
  induction ov with
  | nil => rfl
  | cons kv ov ih =>
    simp only [List.map_cons, List.find?_cons]
    by_cases h : kv.1 = p
    · simp [h]
    · simp only [h, decide_false]
      exact ih

end Tdms.Proofs.Tied
