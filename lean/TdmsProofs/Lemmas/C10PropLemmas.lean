import TdmsProofs.Lemmas.C10Lemmas

/-!
# C10 lemmas: property values survive `reader value → Python value → writer value → reader value`
-/

namespace Tdms.Proofs.C10
open Tdms Tdms.Model Tdms.Model.Writer Tdms.Generated Tdms.Proofs.BytesW Tdms.Proofs.C08

/-! ## what `read_property` can hand out -/

/-- the properties the reader produces: a string, a 16-byte timestamp, or a type with a `struct`
    declaration (the 8 integer types, the 4 float types, Boolean) and a value of exactly its width -/
def ReadableProp (p : PropVal) : Prop :=
  p.ty = tyString ∨ (p.ty = tyTimeStamp ∧ p.val.length = 16) ∨
    (((typeInfo p.ty).bind (·.structFmt)).isSome ∧ typeSize p.ty = some p.val.length)

instance (p : PropVal) : Decidable (ReadableProp p) := by unfold ReadableProp; infer_instance

/-- the type codes with a `struct` declaration and their widths (kernel-checked over the table) -/
theorem fmt_codes : ∀ t ∈ typeTable, t.structFmt.isSome →
    (t.code = 1 ∧ t.size = some 1) ∨ (t.code = 2 ∧ t.size = some 2) ∨ (t.code = 3 ∧ t.size = some 4) ∨
    (t.code = 4 ∧ t.size = some 8) ∨ (t.code = 5 ∧ t.size = some 1) ∨ (t.code = 6 ∧ t.size = some 2) ∨
    (t.code = 7 ∧ t.size = some 4) ∨ (t.code = 8 ∧ t.size = some 8) ∨ (t.code = 9 ∧ t.size = some 4) ∨
    (t.code = 10 ∧ t.size = some 8) ∨ (t.code = 25 ∧ t.size = some 4) ∨ (t.code = 26 ∧ t.size = some 8) ∨
    (t.code = 33 ∧ t.size = some 1) := by decide

/-- case analysis of a readable property by type code and value width -/
theorem readable_cases {p : PropVal} (h : ReadableProp p) :
    p.ty = tyString ∨ (p.ty = tyTimeStamp ∧ p.val.length = 16) ∨
    (p.ty = 1 ∧ p.val.length = 1) ∨ (p.ty = 2 ∧ p.val.length = 2) ∨ (p.ty = 3 ∧ p.val.length = 4) ∨
    (p.ty = 4 ∧ p.val.length = 8) ∨ (p.ty = 5 ∧ p.val.length = 1) ∨ (p.ty = 6 ∧ p.val.length = 2) ∨
    (p.ty = 7 ∧ p.val.length = 4) ∨ (p.ty = 8 ∧ p.val.length = 8) ∨ (p.ty = 9 ∧ p.val.length = 4) ∨
    (p.ty = 10 ∧ p.val.length = 8) ∨ (p.ty = 25 ∧ p.val.length = 4) ∨ (p.ty = 26 ∧ p.val.length = 8) ∨
    (p.ty = tyBoolean ∧ p.val.length = 1) := by
  rcases h with h | h | ⟨hf, hs⟩
  · exact .inl h
  · exact .inr (.inl h)
  · right; right
    rcases Option.eq_none_or_eq_some (typeInfo p.ty) with hti | ⟨ti, hti⟩
    · simp [hti] at hf
    · obtain ⟨hm, hc⟩ := typeInfo_mem hti
      have hsz : ti.size = some p.val.length := by simpa [typeSize, hti] using hs
      have := fmt_codes ti hm (by simpa [hti] using hf)
      rw [hc, hsz] at this
      simp only [Option.some.injEq] at this
      exact this

/-! ## the Python value of each kind of property -/

/-- the integer a signed / unsigned integer property denotes -/
def intValueOf (p : PropVal) : Int :=
  if p.ty = 1 ∨ p.ty = 2 ∨ p.ty = 3 ∨ p.ty = 4 then toSigned p.val.length (decLE p.val) else (decLE p.val : Int)

theorem propToPyVal_signed (p : PropVal) (h : p.ty = 1 ∨ p.ty = 2 ∨ p.ty = 3 ∨ p.ty = 4) :
    propToPyVal p = .int (toSigned p.val.length (decLE p.val)) := by
  obtain ⟨n, ty, val⟩ := p
  simp only at h
  rcases h with rfl | rfl | rfl | rfl <;> rfl

theorem propToPyVal_unsigned (p : PropVal) (h : p.ty = 5 ∨ p.ty = 6 ∨ p.ty = 7 ∨ p.ty = 8) :
    propToPyVal p = .int (decLE p.val) := by
  obtain ⟨n, ty, val⟩ := p
  simp only at h
  rcases h with rfl | rfl | rfl | rfl <;> rfl

theorem propToPyVal_int (p : PropVal)
    (h : p.ty = 1 ∨ p.ty = 2 ∨ p.ty = 3 ∨ p.ty = 4 ∨ p.ty = 5 ∨ p.ty = 6 ∨ p.ty = 7 ∨ p.ty = 8) :
    propToPyVal p = .int (intValueOf p) := by
  unfold intValueOf
  by_cases hs : p.ty = 1 ∨ p.ty = 2 ∨ p.ty = 3 ∨ p.ty = 4
  · rw [if_pos hs, propToPyVal_signed p hs]
  · rw [if_neg hs, propToPyVal_unsigned p (by omega)]

theorem propToPyVal_f32 (p : PropVal) (h : p.ty = 9 ∨ p.ty = 25) :
    propToPyVal p = .float (encLE 8 (f32ToF64 (decLE p.val))) := by
  obtain ⟨n, ty, val⟩ := p
  simp only at h
  rcases h with rfl | rfl <;> rfl

theorem propToPyVal_f64 (p : PropVal) (h : p.ty = 10 ∨ p.ty = 26) : propToPyVal p = .float p.val := by
  obtain ⟨n, ty, val⟩ := p
  simp only at h
  rcases h with rfl | rfl <;> rfl

theorem propToPyVal_bool (p : PropVal) (h : p.ty = tyBoolean) : propToPyVal p = .bool (decLE p.val ≠ 0) := by
  obtain ⟨n, ty, val⟩ := p
  simp only at h
  subst h
  rfl

theorem propToPyVal_str (p : PropVal) (h : p.ty = tyString) : propToPyVal p = .str p.val := by
  obtain ⟨n, ty, val⟩ := p
  simp only at h
  subst h
  rfl

theorem propToPyVal_timestamp (p : PropVal) (h : p.ty = tyTimeStamp) :
    propToPyVal p = .rawTimestamp (Timestamp.ofBytesLE p.val).1 (Timestamp.ofBytesLE p.val).2 := by
  obtain ⟨n, ty, val⟩ := p
  simp only at h
  subst h
  rfl

/-! ## integers -/

theorem toSigned_range (w n : Nat) (hw : 0 < w) (hn : n < 2 ^ (8 * w)) :
    -(2 ^ (8 * w - 1) : Nat) ≤ toSigned w n ∧ toSigned w n < (2 ^ (8 * w - 1) : Nat) := by
  unfold toSigned
  have h2 : 2 ^ (8 * w) = 2 * 2 ^ (8 * w - 1) := by
    rw [show 8 * w = (8 * w - 1) + 1 by omega, Nat.pow_succ]; simp; omega
  rw [h2] at hn ⊢
  generalize 2 ^ (8 * w - 1) = P at *
  split <;> constructor <;> omega

/-- every integer property value lies in the range `struct.pack` accepts for the writer's types -/
theorem intValueOf_range {p : PropVal} (hl : 0 < p.val.length) (hl8 : p.val.length ≤ 8) :
    -2 ^ 63 ≤ intValueOf p ∧ intValueOf p < 2 ^ 64 := by
  have hd := decLE_lt p.val
  have hpow : 2 ^ (8 * p.val.length) ≤ 2 ^ 64 := Nat.pow_le_pow_right (by decide) (by omega)
  unfold intValueOf
  split
  · have := toSigned_range p.val.length (decLE p.val) hl hd
    have hpow' : 2 ^ (8 * p.val.length - 1) ≤ 2 ^ 63 := Nat.pow_le_pow_right (by decide) (by omega)
    have h63 : ((2 ^ 63 : Nat) : Int) = 2 ^ 63 := by norm_num
    have : ((2 ^ (8 * p.val.length - 1) : Nat) : Int) ≤ 2 ^ 63 := by
      rw [← h63]; exact Int.ofNat_le.mpr hpow'
    constructor <;> omega
  · have : ((decLE p.val : Nat) : Int) < 2 ^ 64 := by
      have h64 : ((2 ^ 64 : Nat) : Int) = 2 ^ 64 := by norm_num
      rw [← h64]; exact Int.ofNat_lt.mpr (by omega)
    constructor <;> omega

/-! ## timestamps: the 16 bytes are copied verbatim -/

theorem ts_decLE_eq (bs : List UInt8) : Timestamp.decLE bs = Tdms.decLE bs := by
  induction bs with
  | nil => rfl
  | cons b bs ih => simp [Timestamp.decLE, Tdms.decLE, ih]

theorem ts_encLE_eq (w n : Nat) : Timestamp.encLE w n = Tdms.encLE w n := by
  induction w generalizing n with
  | zero => rfl
  | succ w ih => simp [Timestamp.encLE, Tdms.encLE, ih]

theorem toU64_ofU64 (n : Nat) (h : n < 2 ^ 64) : Timestamp.toU64 (Timestamp.ofU64 n) = n := by
  unfold Timestamp.toU64 Timestamp.ofU64
  split <;> omega

theorem ofU64_range (n : Nat) (h : n < 2 ^ 64) :
    -2 ^ 63 ≤ Timestamp.ofU64 n ∧ Timestamp.ofU64 n < 2 ^ 63 := by
  unfold Timestamp.ofU64
  split <;> constructor <;> omega

/-- `struct.pack('<Qq', *struct.unpack('<Qq', b)) = b` for 16 bytes -/
theorem toBytesLE_ofBytesLE (b : Bytes) (h : b.length = 16) :
    Timestamp.toBytesLE (Timestamp.ofBytesLE b).1 (Timestamp.ofBytesLE b).2 = b := by
  unfold Timestamp.toBytesLE Timestamp.ofBytesLE
  simp only [ts_decLE_eq, ts_encLE_eq]
  have h1 : (b.take 8).length = 8 := by simp [h]
  have h2 : ((b.drop 8).take 8).length = 8 := by simp [h]
  have hlt := decLE_lt ((b.drop 8).take 8)
  rw [h2] at hlt
  rw [toU64_ofU64 _ (by simpa using hlt)]
  have e1 := encLE_decLE (b.take 8)
  have e2 := encLE_decLE ((b.drop 8).take 8)
  rw [h1] at e1
  rw [h2] at e2
  rw [e1, e2]
  have : (b.drop 8).take 8 = b.drop 8 := List.take_of_length_le (by simp [h])
  rw [this, List.take_append_drop]

theorem ofBytesLE_range (b : Bytes) (h : b.length = 16) :
    (Timestamp.ofBytesLE b).2 < 2 ^ 64 ∧ -2 ^ 63 ≤ (Timestamp.ofBytesLE b).1 ∧ (Timestamp.ofBytesLE b).1 < 2 ^ 63 := by
  unfold Timestamp.ofBytesLE
  simp only [ts_decLE_eq]
  have h1 : (b.take 8).length = 8 := by simp [h]
  have h2 : ((b.drop 8).take 8).length = 8 := by simp [h]
  have hlt1 := decLE_lt (b.take 8)
  have hlt2 := decLE_lt ((b.drop 8).take 8)
  rw [h1] at hlt1
  rw [h2] at hlt2
  exact ⟨by simpa using hlt1, ofU64_range _ (by simpa using hlt2)⟩

/-! ## the copy's property, read again -/

/-- the property as it stands in the copy: the writer's type code and value bytes for the Python value
    the reader handed out (what `read_property` returns for it, see `C08.pProp_ok`) -/
def rereadProp (p : PropVal) : PropVal :=
  ⟨p.name, (toTdmsValue (propToPyVal p)).1, (toTdmsValue (propToPyVal p)).2⟩

theorem int_value_preserved' (p : PropVal)
    (hty : p.ty = 1 ∨ p.ty = 2 ∨ p.ty = 3 ∨ p.ty = 4 ∨ p.ty = 5 ∨ p.ty = 6 ∨ p.ty = 7 ∨ p.ty = 8)
    (hl : 0 < p.val.length) (hl8 : p.val.length ≤ 8) :
    Tdms.Proofs.C07.decodeIntProp (toTdmsValue (propToPyVal p)).1 (toTdmsValue (propToPyVal p)).2 = intValueOf p := by
  rw [propToPyVal_int p hty]
  exact Tdms.Proofs.C07.int_property_roundtrip _ (intValueOf_range hl hl8).1 (intValueOf_range hl hl8).2

theorem int_reread (p : PropVal)
    (hty : p.ty = 1 ∨ p.ty = 2 ∨ p.ty = 3 ∨ p.ty = 4 ∨ p.ty = 5 ∨ p.ty = 6 ∨ p.ty = 7 ∨ p.ty = 8)
    (hl : 0 < p.val.length) (hl8 : p.val.length ≤ 8) :
    propToPyVal (rereadProp p) = propToPyVal p := by
  have hr := intValueOf_range (p := p) hl hl8
  have hc := Tdms.Proofs.C07.int_property_roundtrip_cases (intValueOf p) hr.1 hr.2
  simp only at hc
  rw [propToPyVal_int p hty]
  unfold rereadProp
  rw [propToPyVal_int p hty]
  rcases hc with ⟨h1, h2, h3⟩ | ⟨h1, h2, h3⟩ | ⟨h1, h2, h3⟩
  · rw [propToPyVal_signed _ (by simp only [h1]; decide)]
    simp only [h2, h3]
  · rw [propToPyVal_signed _ (by simp only [h1]; decide)]
    simp only [h2, h3]
  · rw [propToPyVal_unsigned _ (by simp only [h1]; decide)]
    simp only [h3]

theorem bool_reread (p : PropVal) (h : p.ty = tyBoolean) : propToPyVal (rereadProp p) = propToPyVal p := by
  unfold rereadProp
  rw [propToPyVal_bool p h]
  rw [propToPyVal_bool _ rfl]
  by_cases hz : decLE p.val = 0 <;> simp [toTdmsValue, hz, decLE]

theorem str_reread (p : PropVal) (h : p.ty = tyString) : propToPyVal (rereadProp p) = propToPyVal p := by
  unfold rereadProp
  rw [propToPyVal_str p h]
  rfl

theorem timestamp_bytes (p : PropVal) (h : p.ty = tyTimeStamp) (hl : p.val.length = 16) :
    toTdmsValue (propToPyVal p) = (tyTimeStamp, p.val) := by
  rw [propToPyVal_timestamp p h]
  simp only [toTdmsValue, toBytesLE_ofBytesLE p.val hl]

theorem timestamp_reread (p : PropVal) (h : p.ty = tyTimeStamp) (hl : p.val.length = 16) :
    propToPyVal (rereadProp p) = propToPyVal p := by
  unfold rereadProp
  rw [timestamp_bytes p h hl, propToPyVal_timestamp p h]
  rfl

theorem f64_reread (p : PropVal) (h : p.ty = 10 ∨ p.ty = 26) : propToPyVal (rereadProp p) = propToPyVal p := by
  unfold rereadProp
  rw [propToPyVal_f64 p h]
  rfl

theorem f32_reread (p : PropVal) (h : p.ty = 9 ∨ p.ty = 25) : propToPyVal (rereadProp p) = propToPyVal p := by
  unfold rereadProp
  rw [propToPyVal_f32 p h]
  rfl

/-! ## `read_property` only produces readable properties -/

theorem P_bind_inv {α β : Type} {x : P α} {f : α → P β} {s : Bytes} {r : β × Bytes}
    (h : (x >>= f) s = .ok r) : ∃ a s', x s = .ok (a, s') ∧ f a s' = .ok r := by
  change (StateT.bind x f) s = _ at h
  simp only [StateT.bind, bind, Except.bind] at h
  cases hx : x s with
  | error e => rw [hx] at h; cases h
  | ok as => obtain ⟨a, s'⟩ := as; rw [hx] at h; exact ⟨a, s', rfl, h⟩

theorem takeN_length {n : Nat} {s s' b : Bytes} (h : takeN n s = .ok (b, s')) : b.length = n := by
  unfold takeN at h
  split at h
  · cases h
  · rename_i hl
    injection h with h
    injection h with h1 h2
    subst h1
    simp; omega

theorem readProperty_readable (e : Endian) (bs rest : Bytes) (p : PropVal)
    (h : readProperty e bs = .ok (p, rest)) : ReadableProp p := by
  unfold readProperty at h
  obtain ⟨name, s1, _, h⟩ := P_bind_inv h
  obtain ⟨ty, s2, _, h⟩ := P_bind_inv h
  have pure_inv : ∀ {q : PropVal} {s : Bytes}, (pure q : P PropVal) s = .ok (p, rest) → q = p := by
    intro q s hq
    have : (Except.ok (q, s) : Except Err (PropVal × Bytes)) = .ok (p, rest) := hq
    injection this with this
    exact congrArg Prod.fst this
  have size_of_fmt : ∀ ti : TypeInfo, typeInfo ty = some ti → ti.structFmt.isSome = true →
      typeSize ty = some (ti.size.getD 0) := by
    intro ti hti hf
    obtain ⟨hm, _⟩ := typeInfo_mem hti
    have hall : ∀ t ∈ typeTable, t.structFmt.isSome = true → t.size = some (t.size.getD 0) := by decide
    simp only [typeSize, hti, Option.bind_some]
    exact hall ti hm hf
  rcases Option.eq_none_or_eq_some (typeInfo ty) with hti | ⟨ti, hti⟩
  · rw [hti] at h; cases h
  · rw [hti] at h
    simp only at h
    split at h
    · rename_i hs
      obtain ⟨v, s3, _, h⟩ := P_bind_inv h
      rw [← pure_inv h]
      exact .inl hs
    · split at h
      · rename_i hs ht
        obtain ⟨b, s3, hb, h⟩ := P_bind_inv h
        rw [← pure_inv h]
        refine .inr (.inl ⟨ht, ?_⟩)
        have := takeN_length hb
        cases e <;> simp [this]
      · split at h
        · rename_i hs ht hf
          obtain ⟨b, s3, hb, h⟩ := P_bind_inv h
          have hlen := takeN_length hb
          have hsz := size_of_fmt ti hti hf
          refine .inr (.inr ?_)
          split at h
          · rename_i hbool
            rw [← pure_inv h]
            refine ⟨by simpa [hti] using hf, ?_⟩
            simp only [List.length_cons, List.length_nil]
            rw [hbool]; decide
          · rw [← pure_inv h]
            refine ⟨by simpa [hti] using hf, ?_⟩
            rw [hsz]
            cases e <;> simp [hlen]
        · cases h

theorem readProperties_readable (e : Endian) (n : Nat) (bs rest : Bytes) (ps : List PropVal)
    (h : readProperties e n bs = .ok (ps, rest)) : ∀ p ∈ ps, ReadableProp p := by
  induction n generalizing bs ps rest with
  | zero =>
    have : (Except.ok (([] : List PropVal), bs) : Except Err (List PropVal × Bytes)) = .ok (ps, rest) := h
    injection this with this
    have : ([] : List PropVal) = ps := congrArg Prod.fst this
    subst this
    intro p hp; cases hp
  | succ k ih =>
    unfold readProperties at h
    obtain ⟨p, s1, hp, h⟩ := P_bind_inv h
    obtain ⟨ps', s2, hps, h⟩ := P_bind_inv h
    have : (Except.ok (p :: ps', s2) : Except Err (List PropVal × Bytes)) = .ok (ps, rest) := h
    injection this with this
    have : p :: ps' = ps := congrArg Prod.fst this
    subst this
    intro q hq
    rcases List.mem_cons.mp hq with rfl | hq
    · exact readProperty_readable e _ _ _ hp
    · exact ih _ _ _ hps q hq

/-! ## the re-encoded properties are writable -/

theorem propToPyVal_writable {p : PropVal} (h : ReadableProp p) (hs : p.ty = tyString → p.val.length < 2 ^ 32) :
    WritableVal (propToPyVal p) := by
  rcases readable_cases h with h | ⟨h, _⟩ | ⟨h, _⟩ | ⟨h, _⟩ | ⟨h, _⟩ | ⟨h, _⟩ | ⟨h, _⟩ | ⟨h, _⟩ | ⟨h, _⟩ | ⟨h, _⟩ |
      ⟨h, _⟩ | ⟨h, hl⟩ | ⟨h, _⟩ | ⟨h, hl⟩ | ⟨h, _⟩
  · rw [propToPyVal_str p h]; exact hs h
  · rw [propToPyVal_timestamp p h]; trivial
  · rw [propToPyVal_int p (by omega)]; trivial
  · rw [propToPyVal_int p (by omega)]; trivial
  · rw [propToPyVal_int p (by omega)]; trivial
  · rw [propToPyVal_int p (by omega)]; trivial
  · rw [propToPyVal_int p (by omega)]; trivial
  · rw [propToPyVal_int p (by omega)]; trivial
  · rw [propToPyVal_int p (by omega)]; trivial
  · rw [propToPyVal_int p (by omega)]; trivial
  · rw [propToPyVal_f32 p (.inl h)]; exact encLE_length _ _
  · rw [propToPyVal_f64 p (.inl h)]; exact hl
  · rw [propToPyVal_f32 p (.inr h)]; exact encLE_length _ _
  · rw [propToPyVal_f64 p (.inr h)]; exact hl
  · rw [propToPyVal_bool p h]; trivial

end Tdms.Proofs.C10
