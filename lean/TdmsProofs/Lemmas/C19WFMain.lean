import TdmsProofs.Lemmas.C05WFMain
import TdmsProofs.Lemmas.C05WFTypes
import TdmsProofs.Lemmas.C04WholePlan
import TdmsProofs.Lemmas.C19Bytes

/-!
# C19WF: `SegWF` / `SizedIn` for what `openFile` returns, and reads stay inside the segments

Core Lean only.
-/

namespace Tdms.Proofs.C19WF

open Tdms Tdms.Model Tdms.Generated Tdms.Proofs.C02 Tdms.Proofs.C04 Tdms.Proofs.C05 Tdms.Proofs.C19
open Tdms.Proofs.C01Multi Tdms.Proofs.C05WF

/-- the active lists of an accepted file: an object with data carries an index -/
theorem activeLists_hasIdx : ∀ (ss : List SegEnc) (prev : Option (List ActiveObj)) (last : LastIdx)
    (as : List (List ActiveObj)), activeLists prev last ss = .ok as → SpecInv prev last →
    (∀ s ∈ ss, noDupPaths s.objs = true) → ∀ a ∈ as, ∀ x ∈ a, x.hasData = true → x.idx ≠ none := by
  intro ss
  induction ss with
  | nil => intro prev last as h _ _; rw [activeLists_nil h]; intro a ha; cases ha
  | cons s ss ih =>
    intro prev last as h hspec hnd
    obtain ⟨a, last', as', hact, hrest, rfl⟩ := activeLists_cons h
    have hpost := activeOfSeg_post hspec (hnd s List.mem_cons_self) hact
    intro x hx
    rcases List.mem_cons.1 hx with rfl | hx'
    · exact hpost.hasIdx
    · exact ih _ _ _ hrest hpost.specInv (fun s' hs' => hnd s' (List.mem_cons_of_mem _ hs')) x hx'

theorem segsOK_noDup : ∀ (ss : List SegEnc) (as : List (List ActiveObj)), SegsOK ss as →
    ∀ s ∈ ss, noDupPaths s.objs = true := by
  intro ss
  induction ss with
  | nil => intro _ _ s hs; cases hs
  | cons s0 ss ih =>
    intro as h s hs
    cases as with
    | nil => cases h
    | cons a as =>
      rcases List.mem_cons.1 hs with rfl | hs'
      · exact h.1.nodup
      · exact ih as h.2 s hs'

/-- a fixed-width channel of the encoding is fixed-width in every segment of the opened file -/
theorem sizedIn_encoded (e : FileEnc) (h : MultiStd e) (fit : FileFits e) (bytes : Bytes)
    (hb : encodeFile e = .ok bytes) (hlen : bytes.length < 2 ^ 63) :
    ∃ f c, openFile bytes = .ok f ∧ denote e = .ok c ∧
      ∀ oc ∈ c, ∀ ty sz, oc.ty = some ty → typeSize ty = some sz → ∀ s ∈ f.segments, SizedIn s oc.path := by
  obtain ⟨f, acts, ss, as, hopen, ha, hc, hfile, hsegs, hobjs⟩ :=
    Tdms.Proofs.C04Whole.openFile_encoded e h fit bytes hb hlen
  have hnodup : ((denoteSegs [] e acts).map (·.path)).Nodup := by
    rw [← hc.meaning]; exact denoteSegs_nodup ss as [] hc.ok (by simp)
  have htypes := openFile_types bytes f hopen
  have hidx := activeLists_hasIdx ss none [] as hc.hacts SpecInv.init (segsOK_noDup ss as hc.ok)
  refine ⟨f, denoteSegs [] e acts, hopen, by simp [denote, ha], ?_⟩
  intro oc hoc ty sz hty hsz seg hseg _ o ho hp
  obtain ⟨i, hi, rfl⟩ := List.getElem_of_mem hseg
  have hget : (segRecs 0 ss as)[i]? = some f.segments[i] := by rw [← hsegs]; exact List.getElem?_eq_getElem hi
  obtain ⟨pos', s, a, rest, hs, ha', heq, _⟩ :=
    Tdms.Proofs.C04Whole.segRecs_at f.file ss as 0 (by rw [hfile]; rfl) i _ hget
  have hsok := Tdms.Proofs.C04Whole.segsOK_getElem ss as hc.ok i s a hs ha'
  have hamem : a ∈ as := List.mem_of_getElem? ha'
  rw [heq] at ho
  have ho' : o ∈ (a.map concObj).filter (·.hasData) := ho
  obtain ⟨ho1, ho2⟩ := List.mem_filter.1 ho'
  obtain ⟨x, hx, rfl⟩ := List.mem_map.1 ho1
  have hxd : x.hasData = true := by simpa using ho2
  -- the object carries a standard index
  have hxi := hidx a hamem x hx hxd
  cases hi' : x.idx with
  | none => exact absurd hi' hxi
  | some d =>
    have hg := hsok.good x hx d hi'
    cases d with
    | daq dg ty' n sc w => exact absurd hg (by simp [GoodDesc])
    | std ty' n total =>
      have hdt : (concObj x).dataType = some ty' := by rw [concObj_dataType, hi']; rfl
      have h1 := htypes f.segments[i] hseg (concObj x) (by rw [heq]; exact ho1) ty' hdt
      have hm : f.objects.get oc.path = some (mOC (fun _ => 0) oc) := by
        rw [hobjs]; exact Tdms.Proofs.C04Whole.get_mOC hnodup hoc
      rw [hp] at h1
      unfold dtOf at h1
      rw [hm] at h1
      have : oc.ty = some ty' := h1
      rw [hty] at this
      cases this
      exact ⟨sz, by rw [hdt]; exact hsz⟩

/-! ## reads stay inside the segments -/

/-- inside the data region the segment's chunks span: `[dataPosition, dataPosition + chunkSize · numChunks)` -/
def InData (s : Segment) (x : Nat × Nat) : Prop :=
  ∃ cs, chunkSize s.objects = .ok cs ∧ s.dataPosition ≤ x.1 ∧ x.1 + x.2 ≤ s.dataPosition + cs * s.numChunks

theorem windowOf_eq_params (f : OpenFile) (p : Bytes) (off : Int) (len : Option Int) :
    (windowOf f p off len).ix = (windowParams f.segments p (chanLen f p) off len).ix ∧
    (windowOf f p off len).endIndex = (windowParams f.segments p (chanLen f p) off len).endIndex ∧
    (windowOf f p off len).startSeg = (windowParams f.segments p (chanLen f p) off len).startSeg ∧
    (windowOf f p off len).endSeg = (windowParams f.segments p (chanLen f p) off len).endSeg :=
  ⟨rfl, rfl, rfl, rfl⟩

/-- a read allowed by the plan of a window segment lies in the tag bytes or in the data region of that
    segment, when the plan stays inside the segment (`window_plan_bounds`) -/
theorem coarse_in_segment (f : OpenFile) (p : Bytes) (off : Int) (len : Option Int)
    (hwf : WellFormed (f.segments.map (layoutOf p))) (hnum : chanLen f p = total (f.segments.map (layoutOf p)))
    (h0 : 0 ≤ off) (hl : ∀ l, len = some l → 0 ≤ l) (k : Nat) (s : Segment) (hs : f.segments[k]? = some s)
    (h1 : (windowOf f p off len).startSeg ≤ k) (h2 : k ≤ (windowOf f p off len).endSeg) (x : Nat × Nat)
    (hx : SegAllowedCoarse s (segPlan p (windowOf f p off len).ix off (windowOf f p off len).endIndex
      (windowOf f p off len).startSeg (windowOf f p off len).endSeg k s) x) :
    InTag s x ∨ InData s x := by
  rcases hx with hx | ⟨co, skip, nc, cs, hplan, hcs, hin⟩
  · exact Or.inl hx
  · right
    obtain ⟨e1, e2, e3, e4⟩ := windowOf_eq_params f p off len
    rw [e1, e2, e3, e4] at hplan
    rw [e3] at h1
    rw [e4] at h2
    have hb := Tdms.Proofs.C04Whole.window_plan_bounds f.segments p (chanLen f p) hwf hnum off len h0 hl k s hs h1 h2
      co skip nc hplan
    have hk : co.toNat + nc.toNat ≤ s.numChunks := hb.inRange
    refine ⟨cs, hcs, ?_, ?_⟩
    · have := hin.1
      have h3 : 0 ≤ cs * co.toNat := Nat.zero_le _
      omega
    · have h3 := hin.2
      have h4 : cs * (co.toNat + nc.toNat) ≤ cs * s.numChunks := Nat.mul_le_mul_left cs hk
      omega

end Tdms.Proofs.C19WF
