/-
  C04Layouts — `TdmsFile.open` on the encoding of a file of the class `MultiStdI` (contiguous and interleaved
  segments): what the open file is, the invariants of `C03Mixed` (`SegsWOk`, `ChanOk`) DERIVED for it, and the
  eager values `eagerW` identified with the values of `denote`.  Core Lean only.
-/
import TdmsProofs.Lemmas.C04LayoutsVals
import TdmsProofs.Lemmas.C04WholeFile
import TdmsProofs.Lemmas.C04WholeIndex
import TdmsProofs.Lemmas.C05WFMain

namespace Tdms.Proofs.C04Layouts

open Tdms Tdms.Generated Tdms.Model Tdms.Proofs.C02 Tdms.Proofs.C01Multi Tdms.Proofs.C01Layouts Tdms.Proofs.C03
open Tdms.Proofs.C04

/-- everything the lazy-path theorems need to know about `openFile (encodeFile e)`, `e` of the class -/
structure OpenI (e : FileEnc) (bytes : Bytes) (f : OpenFile) (acts : List (List ActiveObj)) (c : Content) : Prop where
  opens : openFile bytes = .ok f
  hacts : activeLists none [] e = .ok acts
  meaning : denote e = .ok c
  file : f.file = bytes
  segs : f.segments = segRecsC 0 e acts
  objects : f.objects = c.map (mOC fun _ => 0)
  nodup : (c.map (·.path)).Nodup
  wok : SegsWOk f.file f.segments
  chan : ∀ p m, f.objects.get p = some m → ChanOk f.objects f.segments p m
  vals : ∀ oc ∈ c, eagerW f.file f.segments oc.path = oc.values
  noOverride : ∀ s ∈ f.segments, s.override = none
  noDaqmx : ∀ s ∈ f.segments, dataReaderKind s ≠ .ok .daqmx

theorem wfSegs_rawFlag_canon (e : FileEnc) (acts : List (List ActiveObj)) (hwf : wfSegs e acts = true) :
    ∀ s ∈ e.map canonSeg, s.chunks ≠ [] → s.rawFlag = true := by
  intro s hs hne
  obtain ⟨s0, hs0, rfl⟩ := List.mem_map.1 hs
  exact C04Whole.wfSegs_rawFlag e acts hwf s0 hs0 hne

/-- **`TdmsFile.open` on an encoded file with contiguous and interleaved segments** -/
theorem openFile_encodedI (e : FileEnc) (h : MultiStdI e) (fit : FileFits e) (bytes : Bytes)
    (hb : encodeFile e = .ok bytes) (hlen : bytes.length < 2 ^ 63) :
    ∃ f acts c, OpenI e bytes f acts c := by
  obtain ⟨acts, ha, hwfs⟩ := h.acts
  have hbytes : encodeFile e = .ok (zipEncode encodeSeg e acts) := by simp [encodeFile, ha]
  rw [hbytes] at hb
  injection hb with hb
  subst hb
  have hok := segsOKI_canon e acts (segsOKI0_of_multi h fit ha)
  have hac := activeLists_canon e none [] acts ha
  have hnd := actsNodup_canon (activeLists_nodup e none [] acts ha SpecInv.init (wellFormed_noDup h.wf))
  have hraw := wfSegs_rawFlag_canon e acts hwfs
  have hz := zipEncode_canon e acts
  rw [← hz] at hlen ⊢
  obtain ⟨st, h1, h2, h3, _⟩ := readMetadata_multiI _ _ hac hok hlen
  have hshape : ∀ s ∈ st.segments, SegShapeW (zipEncode encodeSeg (e.map canonSeg) (acts.map (·.map canonAct))) s := by
    rw [h2]
    exact segShapeW_segRecs _ _ _ rfl hok hnd hraw
  obtain ⟨hw, hch⟩ := readMetadata_invariants_mixedW _ st h1 hshape
  have hmean := denoteSegs_canon e acts []
  have hnodup : ((denoteSegs [] e acts).map (·.path)).Nodup := by
    rw [← hmean]
    have := denoteSegs_nodup ((e.map canonSeg).map deint) _ [] (segsOK_deint _ _ hok) (by simp)
    rwa [denoteSegs_deint] at this
  refine ⟨⟨_, st.segments, st.objects⟩, acts, denoteSegs [] e acts, ?_, ha, by simp [denote, ha], rfl, ?_, ?_,
    hnodup, hw, hch, ?_, ?_, ?_⟩
  · simp [openFile, h1, bind, Except.bind, pure, Except.pure]
  · show st.segments = _
    rw [h2, segRecs_canon]
  · show st.objects = _
    rw [h3, hmean]
  · intro oc hoc
    show eagerW _ st.segments oc.path = oc.values
    have hw' := hw
    rw [h2] at hw' ⊢
    rw [eagerW_encoded _ _ _ rfl hok hnd hw' oc.path]
    exact ((values_eq_colOf _ _ hok oc (by rw [hmean]; exact hoc)).1).symm
  · intro s hs
    have hs' : s ∈ segRecs 0 (e.map canonSeg) (acts.map (·.map canonAct)) := by rw [← h2]; exact hs
    obtain ⟨i, pos, s0, a0, rest, _, _, rfl, _⟩ := segRecs_mem _ _ _ rfl s hs'
    rfl
  · intro s hs hk
    rcases (hshape s hs).data with ⟨hk', _⟩ | ⟨hk', _⟩
    · rw [hk'] at hk; cases hk
    · rw [hk'] at hk; cases hk

/-! ## consequences for one object of `denote` -/

section
variable {e : FileEnc} {bytes : Bytes} {f : OpenFile} {acts : List (List ActiveObj)} {c : Content}
  (H : OpenI e bytes f acts c)
include H

theorem OpenI.get {oc : ObjContent} (hoc : oc ∈ c) : f.objects.get oc.path = some (mOC (fun _ => 0) oc) := by
  rw [H.objects]; exact C04Whole.get_mOC H.nodup hoc

theorem OpenI.get_none {p : Bytes} (hp : p ∉ c.map (·.path)) : f.objects.get p = none := by
  rw [H.objects]; exact C04Whole.get_mOC_none hp

theorem OpenI.chanOk {oc : ObjContent} (hoc : oc ∈ c) : ChanOk f.objects f.segments oc.path (mOC (fun _ => 0) oc) :=
  H.chan _ _ (H.get hoc)

/-- `len(channel)` -/
theorem OpenI.chanLen {oc : ObjContent} (hoc : oc ∈ c) : C05.chanLen f oc.path = oc.values.length := by
  unfold C05.chanLen
  rw [H.get hoc]
  rfl

/-- every window -/
theorem OpenI.window {oc : ObjContent} (hoc : oc ∈ c) (hty : oc.ty.isSome = true) (offset : Int) (length : Option Int)
    (h0 : 0 ≤ offset) (hl : ∀ l, length = some l → 0 ≤ l) (st : FState) :
    ∃ st' r, (channelReadData f oc.path offset length).run st = .ok (some r, st') ∧
      r.data.getD [] = takeOpt length (oc.values.drop offset.toNat) := by
  obtain ⟨st', r, hrun, hr⟩ := channelReadData_windowW f oc.path _ H.wok (H.chanOk hoc) (by simpa [mOC] using hty)
    offset length h0 hl st
  exact ⟨st', r, hrun, by rw [hr, H.vals oc hoc]⟩

/-- the generator behind `read_data` -/
theorem OpenI.chunks {oc : ObjContent} (hoc : oc ∈ c) (offset : Int) (length : Option Int)
    (h0 : 0 ≤ offset) (hl : ∀ l, length = some l → 0 ≤ l) (st : FState) :
    ∃ cs st', (readRawDataForChannel f oc.path offset length).run st = .ok (cs, st') ∧
      dataOf cs = takeOpt length (oc.values.drop offset.toNat) := by
  obtain ⟨cs, st', hrun, hr⟩ := readRawDataForChannel_windowW f oc.path _ H.wok (H.chanOk hoc) offset length h0 hl st
  exact ⟨cs, st', hrun, by rw [hr, H.vals oc hoc]⟩

/-- every slice -/
theorem OpenI.slice {oc : ObjContent} (hoc : oc ∈ c) (hty : oc.ty.isSome = true) (a b s : Option Int) (st : FState) :
    match Tdms.Spec.PySlice.pySlice oc.values a b s with
    | .error _ => (channelReadSlice f oc.path a b s).run st = .error .stepZero
    | .ok xs => ∃ st', (channelReadSlice f oc.path a b s).run st = .ok (xs, st') := by
  have := channelReadSlice_eagerW f oc.path _ H.wok (H.chanOk hoc) (by simpa [mOC] using hty) a b s st
  rw [H.vals oc hoc] at this
  exact this

/-- integer index with the one-chunk cache in any consistent state -/
theorem OpenI.index {oc : ObjContent} (hoc : oc ∈ c) (cache : Option ChunkCache) (hcache : CacheOk? oc.values cache)
    (index : Int) (hidx : -(oc.values.length : Int) ≤ index ∧ index < oc.values.length) (st : FState) :
    ∃ v cache' st', (channelReadAtIndex f oc.path cache index).run st = .ok ((v, cache'), st') ∧
      oc.values[(index % (oc.values.length : Int)).toNat]? = some v ∧ CacheOk? oc.values cache' := by
  have := channelReadAtIndex_eagerW f oc.path _ H.wok (H.chanOk hoc) cache (by rw [H.vals oc hoc]; exact hcache)
    index hidx st
  rw [H.vals oc hoc] at this
  exact this

/-- reading the indices `i0 … i0+n-1` in turn -/
theorem OpenI.scan {oc : ObjContent} (hoc : oc ∈ c) (n i0 : Nat) (cache : Option ChunkCache)
    (hcache : CacheOk? oc.values cache) (hle : i0 + n ≤ oc.values.length) (st : FState) :
    ∃ cache' st', (indexScan f oc.path n i0 cache).run st = .ok (((oc.values.drop i0).take n, cache'), st') ∧
      CacheOk? oc.values cache' := by
  have := indexScan_eagerW f oc.path _ H.wok (H.chanOk hoc) n i0 cache (by rw [H.vals oc hoc]; exact hcache) hle st
  rw [H.vals oc hoc] at this
  exact this

/-- `channel.data_chunks()` consumed to the end -/
theorem OpenI.iter {oc : ObjContent} (hoc : oc ∈ c) :
    ∃ N, ∀ n st, N ≤ n → ∃ out st', (chanIterAll f n (newChanIter f oc.path)).run st = .ok (out, st') ∧
      dataOf (out.map (·.1)) = oc.values ∧
      ∀ j x, out[j]? = some x → x.2 = (dataOf ((out.take j).map (·.1))).length := by
  refine ⟨(chanTailW f oc.path (mOC (fun _ => 0) oc).numValues
    (chanEnd f oc.path (mOC (fun _ => 0) oc).numValues + 1 - chanStart f oc.path) (chanStart f oc.path)).length,
    fun n st hn => ?_⟩
  obtain ⟨out, st', hrun, hd, hoff⟩ := chanIterAll_eagerW f oc.path _ H.wok (H.chanOk hoc) n hn st
  exact ⟨out, st', hrun, by rw [hd, H.vals oc hoc], hoff⟩

/-- the hypotheses of C05's history independence -/
theorem OpenI.indexWF : C05.IndexWF f := by
  obtain ⟨_, prev, hi⟩ := C05WF.openFile_inv bytes f H.opens
  exact C05WF.indexWF_of_inv hi (fun s hs => (H.wok s hs).nodup) H.noDaqmx (fun s hs _ => H.noOverride s hs)

/-- `channel[i]` on the freshly opened file -/
theorem OpenI.index_fresh {oc : ObjContent} (hoc : oc ∈ c) (i : Int) :
    (step f {} (.index oc.path i)).2 =
      match Tdms.Spec.PySlice.pyIndex oc.values.length i with
      | some j => .value (oc.values.getD j [])
      | none => .error .indexError := by
  rw [C05.step_index]
  have hnil : C05.cacheLookup ({} : OpenState).caches oc.path = none := rfl
  rw [hnil]
  unfold Tdms.Spec.PySlice.pyIndex
  by_cases hr : -(oc.values.length : Int) ≤ i ∧ i < oc.values.length
  · rw [if_pos hr]
    obtain ⟨v, cache', st', hrun, hv, _⟩ := H.index hoc none trivial i hr ({} : OpenState).io
    have hrun' : channelReadAtIndex f oc.path none i ({} : OpenState).io = .ok ((v, cache'), st') := hrun
    rw [C05.runF_ok hrun']
    simp only [C05.indexPost]
    congr 1
    rw [List.getD_eq_getElem?_getD, hv]
    rfl
  · rw [if_neg hr]
    have hn : C05.normIndex f oc.path i = none := by
      rw [C04Whole.normIndex_eq_pyIndex, H.chanLen hoc]
      unfold Tdms.Spec.PySlice.pyIndex
      rw [if_neg hr]
    rw [C05.channelReadAtIndex_eq, hn]
    rfl

end

end Tdms.Proofs.C04Layouts
