/-
  C09 (content): the 24 bytes that follow the tag of a lead-in, and one iteration of `readMetadataLoop`
  on a data-file segment and on its index-file twin.  Core Lean only.
-/
import TdmsProofs.Lemmas.LeadInLoopLemmas
import TdmsProofs.Model.MetaMachine

namespace Tdms.Proofs.C09Content

open Tdms Tdms.Model Tdms.Generated Tdms.Proofs.LeadIn Tdms.Proofs.C02

/-! ## the fields of a lead-in, read off the 24 bytes after the tag -/

def hToc (hdr : Bytes) : Nat := decLE (hdr.take 4)
def hEndian (hdr : Bytes) : Endian := if hasFlag (hToc hdr) kTocBigEndian then .big else .little
def hVersion (hdr : Bytes) : Int := toSigned 4 (dec (hEndian hdr) ((hdr.drop 4).take 4))
def hNextOff (hdr : Bytes) : Nat := dec (hEndian hdr) ((hdr.drop 8).take 8)
def hRawOff (hdr : Bytes) : Nat := dec (hEndian hdr) ((hdr.drop 16).take 8)

theorem slice_after_tag (tag hdr x : Bytes) (n w : Nat) (ht : tag.length = 4) (hn : 4 ≤ n)
    (hw : n + w ≤ 4 + hdr.length) :
    ((tag ++ hdr ++ x).drop n).take w = (hdr.drop (n - 4)).take w := by
  rw [List.append_assoc, List.drop_append, List.drop_eq_nil_of_le (by omega), List.nil_append, ht,
    List.drop_append_of_le_length (by omega), List.take_append_of_le_length (by simp; omega)]

theorem liToc_twin (tag hdr x : Bytes) (ht : tag.length = 4) (hh : hdr.length = 24) :
    liToc (tag ++ hdr ++ x) = hToc hdr := by
  unfold liToc hToc
  rw [slice_after_tag tag hdr x 4 4 ht (by omega) (by omega)]; rfl

theorem liEndian_twin (tag hdr x : Bytes) (ht : tag.length = 4) (hh : hdr.length = 24) :
    liEndian (tag ++ hdr ++ x) = hEndian hdr := by
  unfold liEndian hEndian; rw [liToc_twin tag hdr x ht hh]

theorem liVersion_twin (tag hdr x : Bytes) (ht : tag.length = 4) (hh : hdr.length = 24) :
    liVersion (tag ++ hdr ++ x) = hVersion hdr := by
  unfold liVersion hVersion
  rw [liEndian_twin tag hdr x ht hh, slice_after_tag tag hdr x 8 4 ht (by omega) (by omega)]

theorem liNextOff_twin (tag hdr x : Bytes) (ht : tag.length = 4) (hh : hdr.length = 24) :
    liNextOff (tag ++ hdr ++ x) = hNextOff hdr := by
  unfold liNextOff hNextOff
  rw [liEndian_twin tag hdr x ht hh, slice_after_tag tag hdr x 12 8 ht (by omega) (by omega)]

theorem liRawOff_twin (tag hdr x : Bytes) (ht : tag.length = 4) (hh : hdr.length = 24) :
    liRawOff (tag ++ hdr ++ x) = hRawOff hdr := by
  unfold liRawOff hRawOff
  rw [liEndian_twin tag hdr x ht hh, slice_after_tag tag hdr x 20 8 ht (by omega) (by omega)]

/-- `_read_lead_in` as a function of the 24 header bytes, the segment position and the data file's size -/
def leadInOf (hdr : Bytes) (p : Nat) (dfs : Option Nat) : Except Err (Option LeadIn) :=
  let dataPos := p + 28 + hRawOff hdr
  let nextPos := p + hNextOff hdr + 28
  if hNextOff hdr = 2 ^ 64 - 1 then
    match dfs with
    | none => .error .other
    | some size =>
      if size < dataPos then .ok none
      else .ok (some ⟨hToc hdr, hVersion hdr, dataPos, size, true⟩)
  else
    match dfs with
    | some size =>
      if nextPos > size then
        if size < dataPos then .ok none
        else .ok (some ⟨hToc hdr, hVersion hdr, dataPos, size, true⟩)
      else .ok (some ⟨hToc hdr, hVersion hdr, dataPos, nextPos, false⟩)
    | none => .ok (some ⟨hToc hdr, hVersion hdr, dataPos, nextPos, false⟩)

theorem tagData_length : tagData.length = 4 := rfl
theorem tagIndex_length : tagIndex.length = 4 := rfl

def tagOf (isIndex : Bool) : Bytes := if isIndex then tagIndex else tagData

theorem tagOf_length (isIndex : Bool) : (tagOf isIndex).length = 4 := by cases isIndex <;> rfl

/-- **the lead-in of a segment and of its index twin decode alike**: the result depends on the 24 header
    bytes only (the tag is checked against the kind of file) -/
theorem readLeadIn_twin (isIndex : Bool) (hdr x : Bytes) (p : Nat) (dfs : Option Nat) (hh : hdr.length = 24) :
    readLeadIn (tagOf isIndex ++ hdr ++ x) p isIndex dfs = leadInOf hdr p dfs := by
  have ht := tagOf_length isIndex
  rw [readLeadIn_eq _ p isIndex dfs (by simp [ht, hh]; omega)
    (by rw [List.append_assoc, List.take_left' ht]; rfl)]
  simp only [liToc_twin _ hdr x ht hh, liVersion_twin _ hdr x ht hh, liNextOff_twin _ hdr x ht hh,
    liRawOff_twin _ hdr x ht hh]
  rfl

theorem leadInVersion_twin (tag hdr x : Bytes) (ht : tag.length = 4) (hh : hdr.length = 24) :
    leadInVersion (tag ++ hdr ++ x) = some (hVersion hdr) := by
  have h1 : ¬ (tag ++ hdr ++ x).length < 28 := by simp [ht, hh]; omega
  unfold leadInVersion
  rw [if_neg h1]
  show some (liVersion (tag ++ hdr ++ x)) = _
  rw [liVersion_twin tag hdr x ht hh]

/-- an accepted lead-in carries the header's ToC mask -/
theorem leadInOf_toc {hdr : Bytes} {p : Nat} {dfs : Option Nat} {li : LeadIn}
    (h : leadInOf hdr p dfs = .ok (some li)) : li.toc = hToc hdr := by
  unfold leadInOf at h
  simp only at h
  repeat' split at h
  all_goals first
    | (cases h; done)
    | (injection h with h; injection h with h; subst h; rfl)

/-- where an accepted lead-in says the segment ends -/
theorem leadInOf_next {hdr : Bytes} {p size : Nat} {li : LeadIn}
    (h : leadInOf hdr p (some size) = .ok (some li)) :
    li.nextSegmentPos =
      (if hNextOff hdr = 2 ^ 64 - 1 ∨ p + hNextOff hdr + 28 > size then size else p + hNextOff hdr + 28) := by
  unfold leadInOf at h
  simp only at h
  by_cases h1 : hNextOff hdr = 2 ^ 64 - 1
  · simp only [h1, if_true] at h
    split at h
    · cases h
    · injection h with h; injection h with h; subst h
      rw [if_pos (Or.inl h1)]
  · simp only [h1, if_false] at h
    by_cases h2 : p + hNextOff hdr + 28 > size
    · simp only [h2, if_true] at h
      split at h
      · cases h
      · injection h with h; injection h with h; subst h
        rw [if_pos (Or.inr h2)]
    · simp only [h2, if_false] at h
      injection h with h; injection h with h; subst h
      rw [if_neg (by intro hc; cases hc with | inl a => exact h1 a | inr b => exact h2 b)]

end Tdms.Proofs.C09Content
