import Tdms.Model.Lazy
import TdmsProofs.Spec.PySlice

/-!
# C04 (slice half): `TdmsChannel._read_slice` / `_read_at_index` argument normalisation

`sliceRequest` is the pure window request that `channelReadSlice` makes (`channelReadSlice_eq`);
`sliceResult` is what `channelReadSlice` returns when the window read returns
`full[offset : offset + length]`.  Core Lean only.
-/

namespace Tdms.Proofs.C04
open Tdms Tdms.Model Tdms.Spec.PySlice

/-- The request made by `channelReadSlice` (same `let` chain, same order of tests):
    `.error .stepZero`, `.ok none` for the three early empty exits, or
    `.ok (some (offset, length, step))` passed to `channelReadData` / `stepList`. -/
def sliceRequest (len : Int) (start stop step : Option Int) : Except Err (Option (Int × Int × Int)) :=
  if step = some 0 then .error .stepZero
  else
    let step : Int := step.getD 1
    let start : Int := match start with
      | none => if step > 0 then 0 else -1
      | some s => s
    let stop : Int := match stop with
      | none => if step > 0 then len else -1 - len
      | some s => s
    let start := if start < 0 then len + start else start
    let stop := if stop < 0 then len + stop else stop
    let start := if step > 0 ∧ start < 0 then 0 else start
    if stop = start then .ok none
    else if step > 0 ∧ (stop < start ∨ start ≥ len ∨ stop < 0) then .ok none
    else if step < 0 ∧ (stop > start ∨ stop ≥ len ∨ start < 0) then .ok none
    else
      let start := if start < 0 then 0 else start
      let start := if start ≥ len then len - 1 else start
      let stop := if stop > len then len else stop
      let stop := if stop < -1 then -1 else stop
      if step > 0 then .ok (some (start, stop - start, step))
      else .ok (some (stop + 1, start - stop, step))

/-- result of `channelReadSlice` ASSUMING the window read returns `full[offset : offset + length]` -/
def sliceResult (full : List Bytes) (a b c : Option Int) : Except Err (List Bytes) :=
  match sliceRequest full.length a b c with
  | .error e => .error e
  | .ok none => .ok []
  | .ok (some (off, l, st)) => .ok (stepList ((full.drop off.toNat).take l.toNat) st)

/-- index normalisation of `channelReadAtIndex` (its first three lines) -/
def indexRequest (len : Int) (index : Int) : Except Err Nat :=
  let i := if index < 0 then len + index else index
  if i < 0 ∨ i ≥ len then .error .indexError
  else .ok i.toNat

/-! ## arithmetic of the request vs. `slice.indices` -/


theorem clamp_spec (n : Nat) (lo up s : Int) :
    (s < 0 ∧ clamp n lo up s = max (s + n) lo) ∨ (0 ≤ s ∧ clamp n lo up s = min s up) := by
  unfold clamp
  by_cases h : s < 0
  · simp [h]
  · simp [h]; omega

theorem sliceRequest_pos (n : Nat) (a b : Option Int) (c : Int) (hc : 0 < c) :
    ∃ ps pe, sliceIndices n a b (some c) = some (ps, pe, c) ∧
      ((sliceRequest n a b (some c) = .ok none ∧ pe ≤ ps) ∨
       (sliceRequest n a b (some c) = .ok (some (ps, pe - ps, c)) ∧ 0 ≤ ps ∧ ps < pe ∧ pe ≤ n)) := by
  have hc0 : c ≠ 0 := by omega
  have hc1 : ¬ c < 0 := by omega
  rcases a with _ | a <;> rcases b with _ | b
  all_goals
    simp only [sliceIndices, Option.getD_some, hc0, if_false, hc1, decide_false, Bool.false_eq_true]
    refine ⟨_, _, rfl, ?_⟩
    try have ha := clamp_spec n 0 n a
    try have hb := clamp_spec n 0 n b
    try generalize clamp n 0 n a = pa at *
    try generalize clamp n 0 n b = pb at *
    simp only [sliceRequest, Option.some.injEq, hc0, if_false, Option.getD_some, gt_iff_lt, hc, true_and, hc1, false_and, ge_iff_le, if_true]
    repeat' (first | omega | split)
    all_goals simp only [Except.ok.injEq, Option.some.injEq, Prod.mk.injEq, and_true, true_and, reduceCtorEq, false_and, or_false, false_or]
    all_goals omega

theorem sliceRequest_neg (n : Nat) (a b : Option Int) (c : Int) (hc : c < 0) :
    ∃ ps pe, sliceIndices n a b (some c) = some (ps, pe, c) ∧
      ((sliceRequest n a b (some c) = .ok none ∧ ps ≤ pe) ∨
       (sliceRequest n a b (some c) = .ok (some (pe + 1, ps - pe, c)) ∧ -1 ≤ pe ∧ pe ≤ ps ∧ ps < n)) := by
  have hc0 : c ≠ 0 := by omega
  have hc1 : ¬ 0 < c := by omega
  rcases a with _ | a <;> rcases b with _ | b
  all_goals
    simp only [sliceIndices, Option.getD_some, hc0, if_false, decide_true, hc, if_true]
    refine ⟨_, _, rfl, ?_⟩
    try have ha := clamp_spec n (-1) (n - 1) a
    try have hb := clamp_spec n (-1) (n - 1) b
    try generalize clamp n (-1) (n - 1) a = pa at *
    try generalize clamp n (-1) (n - 1) b = pb at *
    simp only [sliceRequest, Option.some.injEq, hc0, if_false, Option.getD_some, gt_iff_lt, hc, true_and, hc1, false_and, ge_iff_le]
    repeat' (first | omega | split)
    all_goals simp only [Except.ok.injEq, Option.some.injEq, Prod.mk.injEq, and_true, true_and, reduceCtorEq, false_and, or_false, false_or]
    all_goals omega

/-! ## strided lists -/


/-- `⌈(s*q + r)/s⌉` for `r < s` -/
theorem cdiv_eq (s q r : Nat) (hr : r < s) :
    (s * q + r + s - 1) / s = if r = 0 then q else q + 1 := by
  have hs : 0 < s := by omega
  split
  · next h =>
    subst h
    have : s * q + 0 + s - 1 = s * q + (s - 1) := by omega
    rw [this, Nat.mul_add_div hs, Nat.div_eq_of_lt (by omega)]; rfl
  · next h =>
    have : s * q + r + s - 1 = s * (q + 1) + (r - 1) := by rw [Nat.mul_succ]; omega
    rw [this, Nat.mul_add_div hs, Nat.div_eq_of_lt (by omega)]

theorem cdiv_succ (n s : Nat) (hs : 0 < s) :
    (n % s = 0 → (n + 1 + s - 1) / s = (n + s - 1) / s + 1 ∧ ((n + s - 1) / s) * s = n) ∧
    (n % s ≠ 0 → (n + 1 + s - 1) / s = (n + s - 1) / s) := by
  have h1 := Nat.div_add_mod n s
  have h2 := Nat.mod_lt n hs
  generalize n / s = q at *
  generalize n % s = r at *
  subst h1
  have e0 := cdiv_eq s q r h2
  constructor
  · intro h; subst h
    rw [e0, if_pos rfl]
    refine ⟨?_, by rw [Nat.mul_comm]; rfl⟩
    by_cases h1 : s = 1
    · subst h1; simp
    · have e1 := cdiv_eq s q 1 (by omega)
      rw [if_neg (by omega)] at e1
      exact e1
  · intro h
    rw [e0, if_neg h]
    by_cases h1 : r + 1 = s
    · have e1 := cdiv_eq s (q + 1) 0 hs
      have : s * q + r + 1 + s - 1 = s * (q + 1) + 0 + s - 1 := by rw [Nat.mul_succ]; omega
      rw [this, e1, if_pos rfl]
    · have e1 := cdiv_eq s q (r + 1) (by omega)
      rw [if_neg (by omega)] at e1
      exact e1

theorem filterMap_range_mod {β : Type} (g : Nat → Option β) (s : Nat) (hs : 0 < s) (n : Nat) :
    (List.range n).filterMap (fun i => if i % s = 0 then g i else none) =
      (List.range ((n + s - 1) / s)).filterMap (fun j => g (j * s)) := by
  induction n with
  | zero =>
    have : (0 + s - 1) / s = 0 := Nat.div_eq_of_lt (by omega)
    rw [this]; rfl
  | succ n ih =>
    have h := cdiv_succ n s hs
    rw [List.range_succ, List.filterMap_append, ih]
    by_cases hm : n % s = 0
    · obtain ⟨h1, h2⟩ := h.1 hm
      rw [h1, List.range_succ, List.filterMap_append]
      simp only [List.filterMap_cons, List.filterMap_nil, hm, if_true, h2]
    · rw [h.2 hm]; simp [hm]

theorem everyNth_eq (xs : List Bytes) (s : Nat) (hs : 0 < s) :
    everyNth xs s = (List.range ((xs.length + s - 1) / s)).filterMap (fun j => xs[j * s]?) := by
  unfold everyNth
  exact filterMap_range_mod (fun i => xs[i]?) s hs xs.length

theorem filterMap_range_getElem? {β : Type} (xs : List β) :
    (List.range xs.length).filterMap (fun i => xs[i]?) = xs := by
  induction xs with
  | nil => rfl
  | cons x xs ih =>
    simp only [List.length_cons, List.range_succ_eq_map, List.filterMap_cons, List.getElem?_cons_zero,
      List.filterMap_map, Function.comp_def, List.getElem?_cons_succ]
    rw [ih]

theorem everyNth_one (xs : List Bytes) : everyNth xs 1 = xs := by
  rw [everyNth_eq xs 1 (by omega)]
  simp only [Nat.add_sub_cancel, Nat.div_one, Nat.mul_one]
  exact filterMap_range_getElem? xs

theorem stepList_one (xs : List Bytes) : stepList xs 1 = xs := by
  simp [stepList, everyNth_one]


theorem filterMap_congr' {α β : Type} (l : List α) (f g : α → Option β) (h : ∀ x ∈ l, f x = g x) :
    l.filterMap f = l.filterMap g := by
  induction l with
  | nil => rfl
  | cons x xs ih =>
    simp only [List.filterMap_cons, h x (List.mem_cons_self ..)]
    rw [ih (fun y hy => h y (List.mem_cons_of_mem _ hy))]

theorem lt_cdiv (j l s : Nat) (hs : 0 < s) (h : j < (l + s - 1) / s) : j * s < l := by
  have h' : j + 1 ≤ (l + s - 1) / s := h
  rw [Nat.le_div_iff_mul_le hs, Nat.succ_mul] at h'
  omega

/-- positive stride on the window `full[off : off+l]` -/
theorem stepList_window_pos (full : List Bytes) (off l s : Nat) (hs : 0 < s) (h : off + l ≤ full.length) :
    stepList ((full.drop off).take l) (s : Int) =
      (List.range ((l + s - 1) / s)).filterMap (fun j => full[off + j * s]?) := by
  have hs' : (s : Int) > 0 := by omega
  have hlen : ((full.drop off).take l).length = l := by simp; omega
  rw [stepList, if_pos hs', Int.toNat_natCast, everyNth_eq _ _ hs, hlen]
  apply filterMap_congr'
  intro j hj
  have hj' := lt_cdiv j l s hs (List.mem_range.mp hj)
  rw [List.getElem?_take, if_pos hj', List.getElem?_drop]

/-- negative stride on the window `full[off : off+l]` -/
theorem stepList_window_neg (full : List Bytes) (off l s : Nat) (hs : 0 < s) (h : off + l ≤ full.length) :
    stepList ((full.drop off).take l) (-(s : Int)) =
      (List.range ((l + s - 1) / s)).filterMap (fun j => full[off + l - 1 - j * s]?) := by
  have hs' : ¬ (-(s : Int) > 0) := by omega
  have hlen : ((full.drop off).take l).length = l := by simp; omega
  rw [stepList, if_neg hs', Int.neg_neg, Int.toNat_natCast, everyNth_eq _ _ hs, List.length_reverse, hlen]
  apply filterMap_congr'
  intro j hj
  have hj' := lt_cdiv j l s hs (List.mem_range.mp hj)
  rw [List.getElem?_reverse (by rw [hlen]; exact hj'), hlen, List.getElem?_take, if_pos (by omega),
    List.getElem?_drop]
  congr 1; omega

theorem count_eq (d c : Int) (hc : 0 < c) (hd : 0 ≤ d) :
    (if 0 < d then ((d - 1) / c + 1).toNat else 0) = (d.toNat + c.toNat - 1) / c.toNat := by
  obtain ⟨s, rfl⟩ := Int.eq_ofNat_of_zero_le (Int.le_of_lt hc)
  obtain ⟨l, rfl⟩ := Int.eq_ofNat_of_zero_le hd
  have hs : 0 < s := by omega
  simp only [Int.toNat_natCast]
  split
  · next h =>
    have hl : 1 ≤ l := by omega
    have e1 : ((l : Int) - 1) = ((l - 1 : Nat) : Int) := by omega
    have e2 : l + s - 1 = (l - 1) + s := by omega
    rw [e1, ← Int.natCast_ediv, e2, Nat.add_div_right _ hs]
    generalize (l - 1) / s = q
    omega
  · next h =>
    have : l = 0 := by omega
    subst this
    exact (Nat.div_eq_of_lt (by omega)).symm

theorem pySlice_of_indices {α : Type} (full : List α) (a b c : Option Int) (ps pe st : Int)
    (h : sliceIndices full.length a b c = some (ps, pe, st)) :
    pySlice full a b c =
      .ok ((List.range (rangeLen ps pe st)).filterMap (fun (i : Nat) => full[(ps + (i : Int) * st).toNat]?)) := by
  simp only [pySlice, pySliceIndices, h, pyRange, List.map_map, Except.map, List.filterMap_map]
  rfl


/-! ## the slice result equals Python's, by sign of the step -/


theorem sliceRequest_none_step (n : Int) (a b : Option Int) :
    sliceRequest n a b none = sliceRequest n a b (some 1) := by
  simp [sliceRequest]

theorem rangeLen_pos (ps pe c : Int) (hc : 0 < c) (h : ps ≤ pe) :
    rangeLen ps pe c = ((pe - ps).toNat + c.toNat - 1) / c.toNat := by
  rw [← count_eq (pe - ps) c hc (by omega)]
  simp only [rangeLen, gt_iff_lt, hc, if_true]
  by_cases h1 : ps < pe
  · rw [if_pos h1, if_pos (by omega)]
  · rw [if_neg h1, if_neg (by omega)]

theorem rangeLen_neg (ps pe c : Int) (hc : c < 0) (h : pe ≤ ps) :
    rangeLen ps pe c = ((ps - pe).toNat + (-c).toNat - 1) / (-c).toNat := by
  rw [← count_eq (ps - pe) (-c) (by omega) (by omega)]
  have hc' : ¬ 0 < c := by omega
  simp only [rangeLen, gt_iff_lt, hc', if_false]
  by_cases h1 : pe < ps
  · rw [if_pos h1, if_pos (by omega)]
  · rw [if_neg h1, if_neg (by omega)]

theorem sliceResult_pos (full : List Bytes) (a b : Option Int) (c : Int) (hc : 0 < c) :
    sliceResult full a b (some c) = (pySlice full a b (some c)).mapError (fun _ => Err.stepZero) := by
  obtain ⟨ps, pe, hidx, h⟩ := sliceRequest_pos full.length a b c hc
  rw [pySlice_of_indices full a b (some c) ps pe c hidx]
  rcases h with ⟨hreq, hle⟩ | ⟨hreq, h0, hlt, hn⟩
  · have : rangeLen ps pe c = 0 := by
      simp only [rangeLen, gt_iff_lt, hc, if_true]; rw [if_neg (by omega)]
    simp only [sliceResult, hreq, this]; rfl
  · simp only [sliceResult, hreq]
    rw [rangeLen_pos ps pe c hc (by omega)]
    obtain ⟨s, rfl⟩ := Int.eq_ofNat_of_zero_le (Int.le_of_lt hc)
    obtain ⟨off, rfl⟩ := Int.eq_ofNat_of_zero_le h0
    obtain ⟨l, hl⟩ := Int.eq_ofNat_of_zero_le (show 0 ≤ pe - off by omega)
    rw [hl]
    simp only [Int.toNat_natCast]
    rw [stepList_window_pos full off l s (by omega) (by omega)]
    rfl

theorem sliceResult_neg (full : List Bytes) (a b : Option Int) (c : Int) (hc : c < 0) :
    sliceResult full a b (some c) = (pySlice full a b (some c)).mapError (fun _ => Err.stepZero) := by
  obtain ⟨ps, pe, hidx, h⟩ := sliceRequest_neg full.length a b c hc
  rw [pySlice_of_indices full a b (some c) ps pe c hidx]
  have hc' : ¬ 0 < c := by omega
  rcases h with ⟨hreq, hle⟩ | ⟨hreq, h0, hlt, hn⟩
  · have : rangeLen ps pe c = 0 := by
      simp only [rangeLen, gt_iff_lt, hc', if_false]; rw [if_neg (by omega)]
    simp only [sliceResult, hreq, this]; rfl
  · simp only [sliceResult, hreq]
    rw [rangeLen_neg ps pe c hc (by omega)]
    obtain ⟨s, hs⟩ := Int.eq_ofNat_of_zero_le (show 0 ≤ -c by omega)
    obtain rfl : c = -(s : Int) := by omega
    obtain ⟨off, hoff⟩ := Int.eq_ofNat_of_zero_le (show 0 ≤ pe + 1 by omega)
    obtain ⟨l, hl⟩ := Int.eq_ofNat_of_zero_le (show 0 ≤ ps - pe by omega)
    rw [hl, hoff]
    simp only [Int.toNat_natCast, Int.neg_neg]
    rw [stepList_window_neg full off l s (by omega) (by omega)]
    simp only [Except.mapError]
    congr 1
    apply filterMap_congr'
    intro j hj
    have hj' := lt_cdiv j l s (by omega) (List.mem_range.mp hj)
    congr 1
    rw [Int.mul_neg]
    have : ((j * s : Nat) : Int) = (j : Int) * (s : Int) := Int.natCast_mul j s
    omega


/-! ## link to the model: `channelReadSlice` -/


/-- what `channelReadSlice` does with its request -/
def sliceCont (f : OpenFile) (p : Bytes) : Except Err (Option (Int × Int × Int)) → F (List Bytes)
  | .error e => throw e
  | .ok none => pure []
  | .ok (some (off, l, st)) => do
      match ← channelReadData f p off (some l) with
      | some r => pure (stepList (r.data.getD []) st)
      | none => pure []

theorem stepList_guard (xs : List Bytes) (step : Int) (h : step > 0) :
    (if step > 1 then stepList xs step else xs) = stepList xs step := by
  split
  · rfl
  · have : step = 1 := by omega
    subst this; exact (stepList_one xs).symm

theorem channelReadSlice_eq_cont (f : OpenFile) (p : Bytes) (a b c : Option Int) :
    channelReadSlice f p a b c =
      sliceCont f p (sliceRequest (((f.objects.get p).map (·.numValues)).getD 0 : Nat) a b c) := by
  unfold channelReadSlice sliceRequest
  by_cases h0 : c = some 0
  · subst h0; rfl
  · rw [if_neg h0, if_neg h0]
    extract_lets +onlyGivenNames len'
    have e : len' = (((f.objects.get p).map (·.numValues)).getD 0 : Nat) := rfl
    clear_value len'
    subst e
    rcases a with _ | a <;> rcases b with _ | b
    all_goals
      dsimp -zeta only
      extract_lets
      show (if _ then _ else _) = _
      rw [apply_ite (sliceCont f p), apply_ite (sliceCont f p), apply_ite (sliceCont f p),
        apply_ite (sliceCont f p)]
      split
      · rfl
      split
      · rfl
      split
      · rfl
      split
      · next h => simp only [sliceCont, stepList_guard _ _ h]; rfl
      · rfl

theorem channelReadSlice_eq (f : OpenFile) (p : Bytes) (a b c : Option Int) :
    channelReadSlice f p a b c =
      (match sliceRequest (((f.objects.get p).map (·.numValues)).getD 0 : Nat) a b c with
      | .error e => throw e
      | .ok none => pure []
      | .ok (some (off, l, st)) => do
          match ← channelReadData f p off (some l) with
          | some r => pure (stepList (r.data.getD []) st)
          | none => pure []) := by
  rw [channelReadSlice_eq_cont]
  cases sliceRequest (((f.objects.get p).map (·.numValues)).getD 0 : Nat) a b c with
  | error e => rfl
  | ok r =>
    match r with
    | none => rfl
    | some (off, l, st) => rfl

/-! ## index normalisation: `channelReadAtIndex` -/


/-- the body of `channelReadAtIndex` after the index normalisation, for the normalised index `i` -/
def readAtIndexRest (f : OpenFile) (p : Bytes) (cache : Option ChunkCache) (i : Nat) :
    F (Bytes × Option ChunkCache) := do
  match cache with
  | some c =>
    if c.lo ≤ i ∧ i < c.hi then
      return (c.vals.getD (i - c.lo) [], cache)
  | none => pure ()
  let (chunk, off) ← readChannelChunkForIndex f p i
  let vals := chunk.data.getD []
  match vals[i - off]? with
  | some v => pure (v, some ⟨off, off + vals.length, vals⟩)
  | none => throw .indexError

theorem channelReadAtIndex_eq (f : OpenFile) (p : Bytes) (cache : Option ChunkCache) (index : Int) :
    channelReadAtIndex f p cache index =
      (match indexRequest (((f.objects.get p).map (·.numValues)).getD 0 : Nat) index with
      | .error e => throw e
      | .ok i => readAtIndexRest f p cache i) := by
  unfold channelReadAtIndex indexRequest
  extract_lets len i
  split
  · rfl
  · rfl

theorem indexRequest_eq_pyIndex (n : Nat) (i : Int) :
    indexRequest n i = match pyIndex n i with
      | some k => .ok k
      | none => .error .indexError := by
  unfold indexRequest pyIndex
  by_cases h : -(n : Int) ≤ i ∧ i < n
  · rw [if_pos h]
    simp only []
    have hn : (n : Int) ≠ 0 := by omega
    split
    · rw [if_neg (by omega)]
      have : (i + n) % (n : Int) = i + n := Int.emod_eq_of_lt (by omega) (by omega)
      rw [← Int.add_emod_right, this] ; congr 1; congr 1; omega
    · rw [if_neg (by omega)]
      have : i % (n : Int) = i := Int.emod_eq_of_lt (by omega) (by omega)
      rw [this]
  · rw [if_neg h]
    simp only []
    split
    · rw [if_pos (by omega)]
    · rw [if_pos (by omega)]

theorem indexRequest_in_range (n : Nat) (i : Int) (h : -(n : Int) ≤ i ∧ i < n) :
    indexRequest n i = .ok (i % (n : Int)).toNat := by
  rw [indexRequest_eq_pyIndex, pyIndex, if_pos h]

theorem indexRequest_out_of_range (n : Nat) (i : Int) (h : ¬ (-(n : Int) ≤ i ∧ i < n)) :
    indexRequest n i = .error .indexError := by
  rw [indexRequest_eq_pyIndex, pyIndex, if_neg h]

/-! ## assembled statements -/

theorem sliceIndices_none_step (n : Nat) (a b : Option Int) :
    sliceIndices n a b none = sliceIndices n a b (some 1) := rfl

theorem sliceResult_eq_pySlice (full : List Bytes) (a b c : Option Int) :
    sliceResult full a b c = (pySlice full a b c).mapError (fun _ => Err.stepZero) := by
  rcases c with _ | c
  · have h1 : sliceResult full a b none = sliceResult full a b (some 1) := by
      simp only [sliceResult, sliceRequest_none_step]
    have h2 : pySlice full a b none = pySlice full a b (some 1) := rfl
    rw [h1, h2]; exact sliceResult_pos full a b 1 (by omega)
  · by_cases h0 : c = 0
    · subst h0; rfl
    · by_cases hc : 0 < c
      · exact sliceResult_pos full a b c hc
      · exact sliceResult_neg full a b c (by omega)

theorem sliceRequest_in_range (n : Nat) (a b c : Option Int) (off l st : Int)
    (h : sliceRequest n a b c = .ok (some (off, l, st))) :
    0 ≤ off ∧ 0 ≤ l ∧ off + l ≤ n ∧ st ≠ 0 := by
  have key : ∀ c : Int, c ≠ 0 → sliceRequest n a b (some c) = .ok (some (off, l, st)) →
      0 ≤ off ∧ 0 ≤ l ∧ off + l ≤ n ∧ st ≠ 0 := by
    intro c h0 h
    by_cases hc : 0 < c
    · obtain ⟨ps, pe, _, h'⟩ := sliceRequest_pos n a b c hc
      rcases h' with ⟨h1, _⟩ | ⟨h1, h2, h3, h4⟩
      · rw [h1] at h; simp at h
      · rw [h1] at h
        simp only [Except.ok.injEq, Option.some.injEq, Prod.mk.injEq] at h
        omega
    · obtain ⟨ps, pe, _, h'⟩ := sliceRequest_neg n a b c (by omega)
      rcases h' with ⟨h1, _⟩ | ⟨h1, h2, h3, h4⟩
      · rw [h1] at h; simp at h
      · rw [h1] at h
        simp only [Except.ok.injEq, Option.some.injEq, Prod.mk.injEq] at h
        omega
  rcases c with _ | c
  · rw [sliceRequest_none_step] at h; exact key 1 (by omega) h
  · by_cases h0 : c = 0
    · subst h0; simp [sliceRequest] at h
    · exact key c h0 h

end Tdms.Proofs.C04
