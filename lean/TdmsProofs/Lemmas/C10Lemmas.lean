import Tdms.Model.Defrag
import TdmsProofs.Properties.C08
import TdmsProofs.Properties.C07
import TdmsProofs.Properties.C01Layers

/-!
# C10 lemmas: `defragment` = reader ∘ layout ∘ writer

* `defragSegs` — the list of `write_segment` calls `TdmsWriter.defragment` makes, and
  `defragment_eq` (by `rfl`);
* `sessionSegs_defragSegs` — the writer inserts nothing and rejects nothing: what is written is
  exactly `defragSegs`;
* `fileLayout_nodup` — group names are distinct, channel names are distinct within a group;
* `rewrittenType` preserves width and NumPy kind for every type of the table;
* channel data: fixed width, strings, "no data";
* `readValues_widths` — the contiguous reader returns fixed-width values of exactly the type's width.
-/

namespace Tdms.Proofs.C10
open Tdms Tdms.Model Tdms.Model.Writer Tdms.Generated Tdms.Proofs.BytesW Tdms.Proofs.C08

/-! ## 1. the `write_segment` calls of `defragment` -/

/-- `channel.read_data(scaled=False)` of the eager, raw-timestamp read -/
def chanVals (r : EagerResult) (m : ObjMeta) : List Bytes :=
  ((r.channels.find? (·.path = m.path)).bind (·.data)).getD []

/-- the `ChannelObject` data `defragment` hands to the writer for one source channel -/
def chanData (r : EagerResult) (m : ObjMeta) : WData :=
  match m.dataType with
  | none => ⟨tyVoid, []⟩
  | some ty =>
    if (ty = tyString ∨ ty = tyTimeStamp) ∧ (chanVals r m).isEmpty then ⟨tyVoid, []⟩
    else ⟨rewrittenType ty, chanVals r m⟩

/-- the single object of the segment written for channel `c` of group `g` -/
def chanObj (r : EagerResult) (g : Bytes) (cm : Bytes × ObjMeta) : WObj :=
  WObj.channel g cm.1 (chanData r cm.2) (propsToW cm.2.props)

def groupObj (g : GroupLayout) : WObj := WObj.group g.name (propsToW g.props)

/-- properties of the root object of the source (`[]` when the file has no root object) -/
def rootProps (r : EagerResult) : List PropVal :=
  ((r.state.objects.get (Path.componentsToPathBytes [])).map (·.props)).getD []

def rootObj (r : EagerResult) : WObj := WObj.root (propsToW (rootProps r))

/-- the segments written for one group: the group object, then one segment per channel -/
def groupSegs (r : EagerResult) (g : GroupLayout) : List (List WObj) :=
  [groupObj g] :: g.channels.map fun cm => [chanObj r g.name cm]

/-- the argument lists of the `write_segment` calls of `TdmsWriter.defragment`, in order -/
def defragSegs (r : EagerResult) (groups : List GroupLayout) : List (List WObj) :=
  [rootObj r] :: groups.flatMap (groupSegs r)

/-- `defragment` is: read, lay out, write `defragSegs` in one session -/
theorem defragment_eq (file : Bytes) (v : Nat) :
    defragment file v =
      match readFile file with
      | .error _ => none
      | .ok r =>
        match fileLayout r.state.objects with
        | none => none
        | some groups => writeSession v {} (defragSegs r groups) := rfl

/-! ### shape -/

theorem defragSegs_head (r : EagerResult) (groups : List GroupLayout) :
    (defragSegs r groups).head? = some [rootObj r] := rfl

theorem defragSegs_singletons (r : EagerResult) (groups : List GroupLayout) :
    ∀ s ∈ defragSegs r groups, s.length = 1 := by
  intro s hs
  simp only [defragSegs, groupSegs, List.mem_cons, List.mem_flatMap, List.mem_map] at hs
  rcases hs with rfl | ⟨g, _, rfl | ⟨cm, _, rfl⟩⟩ <;> rfl

theorem flatten_map_singleton {α β} (f : α → β) (l : List α) : (l.map fun x => [f x]).flatten = l.map f := by
  induction l with
  | nil => rfl
  | cons x xs ih => simp [ih]

theorem eraseDups_singleton (x : Bytes) : [x].eraseDups.length = 1 := rfl

/-- flattened: root, then per group the group object followed by its channel objects -/
theorem defragSegs_flatten (r : EagerResult) (groups : List GroupLayout) :
    (defragSegs r groups).flatten =
      rootObj r :: groups.flatMap fun g => groupObj g :: g.channels.map (chanObj r g.name) := by
  simp only [defragSegs, List.flatten_cons, List.singleton_append, List.cons.injEq, true_and]
  induction groups with
  | nil => rfl
  | cons g gs ih =>
    simp only [List.flatMap_cons, List.flatten_append, ih, groupSegs, List.flatten_cons,
      List.cons_append, List.cons.injEq, true_and]
    rw [flatten_map_singleton]
    rfl

/-- the (group, channel) name pairs of the channel objects of a list -/
def chanNames (l : List WObj) : List (Bytes × Bytes) :=
  l.filterMap fun o => match o with | .channel g c _ _ => some (g, c) | _ => none

/-- the (group, channel) name pairs of a layout -/
def layoutChannels (groups : List GroupLayout) : List (Bytes × Bytes) :=
  groups.flatMap fun g => g.channels.map fun cm => (g.name, cm.1)

theorem chanNames_append (a b : List WObj) : chanNames (a ++ b) = chanNames a ++ chanNames b := by
  simp [chanNames, List.filterMap_append]

theorem chanNames_map_chanObj (r : EagerResult) (g : Bytes) (cs : List (Bytes × ObjMeta)) :
    chanNames (cs.map (chanObj r g)) = cs.map fun cm => (g, cm.1) := by
  induction cs with
  | nil => rfl
  | cons c cs ih =>
    simp only [List.map_cons]
    rw [← ih]
    rfl

/-- the channel objects written are exactly the channels of the layout, in layout order -/
theorem chanNames_defragSegs (r : EagerResult) (groups : List GroupLayout) :
    chanNames (defragSegs r groups).flatten = layoutChannels groups := by
  rw [defragSegs_flatten]
  show chanNames (groups.flatMap fun g => groupObj g :: g.channels.map (chanObj r g.name)) = _
  unfold layoutChannels
  induction groups with
  | nil => rfl
  | cons g gs ih =>
    simp only [List.flatMap_cons]
    rw [chanNames_append, ih]
    congr 1
    exact chanNames_map_chanObj r g.name g.channels

/-- names of the group objects written = the group names of the layout, in order -/
theorem groupNames_defragSegs (r : EagerResult) (groups : List GroupLayout) :
    groupNames (defragSegs r groups).flatten = groups.map (·.name) := by
  rw [defragSegs_flatten, rootObj, groupNames_cons_root]
  induction groups with
  | nil => rfl
  | cons g gs ih =>
    simp only [List.flatMap_cons, List.map_cons]
    rw [groupNames_append, ih]
    have : groupNames (groupObj g :: g.channels.map (chanObj r g.name)) = [g.name] := by
      rw [groupObj, groupNames_cons_group]
      congr 1
      induction g.channels with
      | nil => rfl
      | cons c cs ihc => simpa [chanObj, groupNames_cons_channel] using ihc
    rw [this]
    rfl

/-! ### the writer adds nothing and rejects nothing -/

theorem segmentObjects_root (ps : List WProp) :
    segmentObjects {} [WObj.root ps] = some ([WObj.root ps], { rootWritten := true, groupsWritten := [] }) := rfl

theorem segmentObjects_group (st : WriterState) (hst : st.rootWritten = true) (g : Bytes) (ps : List WProp) :
    segmentObjects st [WObj.group g ps] =
      some ([WObj.group g ps], { rootWritten := true, groupsWritten := st.groupsWritten ++ [g] }) := by
  simp [segmentObjects, hst, sortedSet, stableSortByKey, WObj.key, eraseDups_singleton]

theorem segmentObjects_channel (st : WriterState) (hst : st.rootWritten = true) (g c : Bytes) (d : WData)
    (ps : List WProp) (hg : g ∈ st.groupsWritten) :
    segmentObjects st [WObj.channel g c d ps] =
      some ([WObj.channel g c d ps], { rootWritten := true, groupsWritten := st.groupsWritten }) := by
  simp [segmentObjects, hst, sortedSet, stableSortByKey, WObj.key, hg, eraseDups_singleton]

theorem sessionSegs_channels (r : EagerResult) (g : Bytes) (cs : List (Bytes × ObjMeta)) (st : WriterState)
    (hst : st.rootWritten = true) (hg : g ∈ st.groupsWritten) (rest L : List (List WObj))
    (hrest : sessionSegs { rootWritten := true, groupsWritten := st.groupsWritten } rest = some L) :
    sessionSegs st (cs.map (fun cm => [chanObj r g cm]) ++ rest) =
      some (cs.map (fun cm => [chanObj r g cm]) ++ L) := by
  induction cs with
  | nil =>
    obtain ⟨rw', gw⟩ := st
    simp only at hst
    subst hst
    exact hrest
  | cons c cs ih =>
    simp only [List.map_cons, List.cons_append, sessionSegs]
    rw [chanObj, segmentObjects_channel st hst _ _ _ _ hg]
    simp only
    have : sessionSegs { rootWritten := true, groupsWritten := st.groupsWritten }
        (cs.map (fun cm => [chanObj r g cm]) ++ rest) = sessionSegs st (cs.map (fun cm => [chanObj r g cm]) ++ rest) := by
      obtain ⟨rw', gw⟩ := st
      simp only at hst
      subst hst
      rfl
    rw [this, ih]

theorem sessionSegs_groups (r : EagerResult) (groups : List GroupLayout) (st : WriterState)
    (hst : st.rootWritten = true) :
    sessionSegs st (groups.flatMap (groupSegs r)) = some (groups.flatMap (groupSegs r)) := by
  induction groups generalizing st with
  | nil => rfl
  | cons g gs ih =>
    simp only [List.flatMap_cons, groupSegs, List.cons_append, sessionSegs]
    rw [groupObj, segmentObjects_group st hst]
    simp only
    rw [sessionSegs_channels r g.name g.channels _ rfl (by simp) _ _ (ih _ rfl)]

/-- **the writer's own root / group insertion never fires and no duplicate is ever reported**:
    the object lists written are exactly the lists `defragment` passes, for every layout -/
theorem sessionSegs_defragSegs (r : EagerResult) (groups : List GroupLayout) :
    sessionSegs {} (defragSegs r groups) = some (defragSegs r groups) := by
  simp only [defragSegs, sessionSegs]
  rw [rootObj, segmentObjects_root]
  simp only
  rw [sessionSegs_groups r groups _ rfl]

theorem writeSession_defragSegs (v : Nat) (r : EagerResult) (groups : List GroupLayout) :
    writeSession v {} (defragSegs r groups) =
      some ((defragSegs r groups).flatMap (writeSegment false v),
            (defragSegs r groups).flatMap (writeSegment true v)) := by
  rw [writeSession_eq, sessionSegs_defragSegs]
  rfl

theorem writeProgram_single (v : Nat) (s : List (List WObj)) :
    writeProgram v [s] = writeSession v {} s := by
  simp only [writeProgram]
  cases writeSession v {} s with
  | none => rfl
  | some r => obtain ⟨d, i⟩ := r; simp

theorem programSegs_defragSegs (r : EagerResult) (groups : List GroupLayout) :
    programSegs [defragSegs r groups] = some [defragSegs r groups] := by
  simp [programSegs, sessionSegs_defragSegs]

/-! ## 2. `fileLayout`: names are distinct -/

theorem nodup_eraseDups {α : Type} [BEq α] [LawfulBEq α] :
    ∀ (n : Nat) (l : List α), l.length ≤ n → l.eraseDups.Nodup
  | _, [], _ => by simp
  | 0, _ :: _, h => by simp at h
  | n + 1, a :: as, h => by
    rw [List.eraseDups_cons, List.nodup_cons]
    refine ⟨?_, nodup_eraseDups n _ ?_⟩
    · rw [List.mem_eraseDups]; simp
    · have := List.length_filter_le (fun b => !b == a) as
      simp only [List.length_cons] at h
      omega

theorem nodup_filter {α : Type} (p : α → Bool) {l : List α} (h : l.Nodup) : (l.filter p).Nodup :=
  List.Nodup.sublist List.filter_sublist h

/-- group objects of the source, in file order: (name, properties) -/
def declaredOf (objects : ObjMetas) : List (Bytes × List PropVal) :=
  objects.filterMap fun m => match classifyPath m.path with
    | .group g => some (g, m.props)
    | _ => none

/-- channel objects of the source, in file order: (group, channel, metadata) -/
def chansOf (objects : ObjMetas) : List (Bytes × Bytes × ObjMeta) :=
  objects.filterMap fun m => match classifyPath m.path with
    | .channel g c => some (g, c, m)
    | _ => none

/-- `TdmsFile.groups()` order: declared groups, then groups known only through channels -/
def layoutNames (objects : ObjMetas) : List Bytes :=
  ((declaredOf objects).map (·.1)).eraseDups ++
    (((chansOf objects).map (·.1)).eraseDups.filter fun g => !((declaredOf objects).any (·.1 = g)))

def layoutChannelsOf (objects : ObjMetas) (g : Bytes) : List (Bytes × ObjMeta) :=
  ((chansOf objects).filter (·.1 = g)).foldl (fun acc (_, c, m) => addChannel acc c m) []

theorem fileLayout_eq (objects : ObjMetas) :
    fileLayout objects =
      if objects.any (fun m => classifyPath m.path = .invalid) then none
      else some ((layoutNames objects).map fun g =>
        { name := g,
          props := ((((declaredOf objects).filter (·.1 = g)).getLast?).map (·.2)).getD [],
          channels := layoutChannelsOf objects g }) := rfl

theorem layoutNames_nodup (objects : ObjMetas) : (layoutNames objects).Nodup := by
  unfold layoutNames
  rw [List.nodup_append]
  refine ⟨nodup_eraseDups _ _ (Nat.le_refl _), nodup_filter _ (nodup_eraseDups _ _ (Nat.le_refl _)), ?_⟩
  intro a ha b hb hab
  subst hab
  rw [List.mem_eraseDups] at ha
  simp only [List.mem_filter, Bool.not_eq_eq_eq_not, Bool.not_true, List.any_eq_false,
    decide_eq_true_eq] at hb
  obtain ⟨x, hx, rfl⟩ := List.mem_map.mp ha
  exact hb.2 x hx rfl

theorem addChannel_names (chs : List (Bytes × ObjMeta)) (c : Bytes) (m : ObjMeta) :
    (addChannel chs c m).map (·.1) =
      if c ∈ chs.map (·.1) then chs.map (·.1) else chs.map (·.1) ++ [c] := by
  unfold addChannel
  by_cases h : c ∈ chs.map (·.1)
  · have hany : chs.any (fun x => decide (x.1 = c)) = true := by
      obtain ⟨x, hx, rfl⟩ := List.mem_map.mp h
      exact List.any_eq_true.mpr ⟨x, hx, by simp⟩
    rw [if_pos hany, if_pos h, List.map_map]
    apply List.map_congr_left
    intro x _
    simp only [Function.comp]
    split
    · rename_i hx; exact hx.symm
    · rfl
  · have hany : ¬ chs.any (fun x => decide (x.1 = c)) = true := by
      intro ha
      obtain ⟨x, hx, hxc⟩ := List.any_eq_true.mp ha
      exact h (List.mem_map.mpr ⟨x, hx, by simpa using hxc⟩)
    rw [if_neg hany, if_neg h]
    simp

theorem addChannel_nodup {chs : List (Bytes × ObjMeta)} (c : Bytes) (m : ObjMeta)
    (h : (chs.map (·.1)).Nodup) : ((addChannel chs c m).map (·.1)).Nodup := by
  rw [addChannel_names]
  split
  · exact h
  · rename_i hc
    rw [List.nodup_append]
    refine ⟨h, by simp, ?_⟩
    intro a ha b hb hab
    simp only [List.mem_singleton] at hb
    subst hb; subst hab
    exact hc ha

theorem foldl_addChannel_nodup (l : List (Bytes × Bytes × ObjMeta)) (acc : List (Bytes × ObjMeta))
    (h : (acc.map (·.1)).Nodup) :
    ((l.foldl (fun acc (x : Bytes × Bytes × ObjMeta) => addChannel acc x.2.1 x.2.2) acc).map (·.1)).Nodup := by
  induction l generalizing acc with
  | nil => exact h
  | cons x xs ih => exact ih _ (addChannel_nodup _ _ h)

theorem layoutChannelsOf_nodup (objects : ObjMetas) (g : Bytes) :
    ((layoutChannelsOf objects g).map (·.1)).Nodup :=
  foldl_addChannel_nodup _ [] (by simp)

/-- every entry of a group's channel list is a channel object of the source, filed under its own
    (group, channel) classification -/
theorem foldl_addChannel_mem (P : Bytes → ObjMeta → Prop) (l : List (Bytes × Bytes × ObjMeta))
    (acc : List (Bytes × ObjMeta)) (hl : ∀ x ∈ l, P x.2.1 x.2.2) (hacc : ∀ y ∈ acc, P y.1 y.2) :
    ∀ y ∈ l.foldl (fun acc (x : Bytes × Bytes × ObjMeta) => addChannel acc x.2.1 x.2.2) acc, P y.1 y.2 := by
  induction l generalizing acc with
  | nil => exact hacc
  | cons x xs ih =>
    refine ih _ (fun z hz => hl z (List.mem_cons_of_mem _ hz)) ?_
    intro y hy
    have hx := hl x (by simp)
    change y ∈ addChannel acc x.2.1 x.2.2 at hy
    unfold addChannel at hy
    split at hy
    · obtain ⟨z, hz, rfl⟩ := List.mem_map.mp hy
      split
      · exact hx
      · exact hacc z hz
    · rcases List.mem_append.mp hy with hy | hy
      · exact hacc y hy
      · simp only [List.mem_singleton] at hy
        subst hy
        exact hx

theorem mem_chansOf {objects : ObjMetas} {g c : Bytes} {m : ObjMeta} :
    (g, c, m) ∈ chansOf objects ↔ m ∈ objects ∧ classifyPath m.path = .channel g c := by
  unfold chansOf
  rw [List.mem_filterMap]
  constructor
  · rintro ⟨m', hm', h⟩
    split at h
    · rename_i g' c' hc
      simp only [Option.some.injEq, Prod.mk.injEq] at h
      obtain ⟨rfl, rfl, rfl⟩ := h
      exact ⟨hm', hc⟩
    · cases h
  · rintro ⟨hm, hc⟩
    exact ⟨m, hm, by rw [hc]⟩

theorem layoutChannelsOf_mem (objects : ObjMetas) (g : Bytes) :
    ∀ cm ∈ layoutChannelsOf objects g, cm.2 ∈ objects ∧ classifyPath cm.2.path = .channel g cm.1 := by
  apply foldl_addChannel_mem (fun c m => m ∈ objects ∧ classifyPath m.path = .channel g c)
  · rintro ⟨g', c, m⟩ hx
    simp only [List.mem_filter, decide_eq_true_eq] at hx
    obtain ⟨hx, rfl⟩ := hx
    exact mem_chansOf.mp hx
  · intro y hy; cases hy

/-- the channel names in a fold: those already there and those of the list -/
theorem foldl_addChannel_names_mem (l : List (Bytes × Bytes × ObjMeta)) (acc : List (Bytes × ObjMeta)) (c : Bytes) :
    c ∈ (l.foldl (fun acc (x : Bytes × Bytes × ObjMeta) => addChannel acc x.2.1 x.2.2) acc).map (·.1) ↔
      c ∈ acc.map (·.1) ∨ c ∈ l.map (·.2.1) := by
  induction l generalizing acc with
  | nil => simp
  | cons x xs ih =>
    simp only [List.foldl_cons, List.map_cons, List.mem_cons]
    rw [ih, addChannel_names]
    split
    · rename_i hx
      constructor
      · rintro (h | h)
        · exact .inl h
        · exact .inr (.inr h)
      · rintro (h | rfl | h)
        · exact .inl h
        · exact .inl hx
        · exact .inr h
    · simp only [List.mem_append, List.mem_singleton]
      constructor
      · rintro ((h | h) | h)
        · exact .inl h
        · exact .inr (.inl h)
        · exact .inr (.inr h)
      · rintro (h | h | h)
        · exact .inl (.inl h)
        · exact .inl (.inr h)
        · exact .inr h

theorem fileLayout_some {objects : ObjMetas} {groups : List GroupLayout} (h : fileLayout objects = some groups) :
    (∀ m ∈ objects, classifyPath m.path ≠ .invalid) ∧
    groups = (layoutNames objects).map fun g =>
        { name := g,
          props := ((((declaredOf objects).filter (·.1 = g)).getLast?).map (·.2)).getD [],
          channels := layoutChannelsOf objects g } := by
  rw [fileLayout_eq] at h
  split at h
  · cases h
  · rename_i hany
    refine ⟨?_, (Option.some.inj h).symm⟩
    intro m hm hinv
    exact hany (List.any_eq_true.mpr ⟨m, hm, by simpa using hinv⟩)

theorem fileLayout_names {objects : ObjMetas} {groups : List GroupLayout} (h : fileLayout objects = some groups) :
    groups.map (·.name) = layoutNames objects := by
  rw [(fileLayout_some h).2, List.map_map]
  exact List.map_id' _

theorem fileLayout_channels {objects : ObjMetas} {groups : List GroupLayout} (h : fileLayout objects = some groups) :
    ∀ g ∈ groups, g.channels = layoutChannelsOf objects g.name := by
  intro g hg
  rw [(fileLayout_some h).2] at hg
  obtain ⟨n, _, rfl⟩ := List.mem_map.mp hg
  rfl

theorem layoutChannels_nodup (groups : List GroupLayout) (hg : (groups.map (·.name)).Nodup)
    (hc : ∀ g ∈ groups, (g.channels.map (·.1)).Nodup) : (layoutChannels groups).Nodup := by
  unfold layoutChannels
  induction groups with
  | nil => simp
  | cons g gs ih =>
    simp only [List.map_cons, List.nodup_cons] at hg
    simp only [List.flatMap_cons]
    rw [List.nodup_append]
    refine ⟨?_, ih hg.2 (fun g' hg' => hc g' (List.mem_cons_of_mem _ hg')), ?_⟩
    · have := hc g (by simp)
      unfold List.Nodup at this ⊢
      rw [List.pairwise_map] at this ⊢
      exact this.imp (fun h heq => h (congrArg Prod.snd heq))
    · intro a ha b hb hab
      subst hab
      obtain ⟨cm, _, rfl⟩ := List.mem_map.mp ha
      obtain ⟨g', hg', hb⟩ := List.mem_flatMap.mp hb
      obtain ⟨cm', _, hb⟩ := List.mem_map.mp hb
      have : g'.name = g.name := congrArg Prod.fst hb
      exact hg.1 (List.mem_map.mpr ⟨g', hg', this⟩)

theorem mem_layoutNames_of_channel {objects : ObjMetas} {g c : Bytes} {m : ObjMeta}
    (hm : m ∈ objects) (hc : classifyPath m.path = .channel g c) : g ∈ layoutNames objects := by
  have hmem : g ∈ (chansOf objects).map (·.1) :=
    List.mem_map.mpr ⟨(g, c, m), mem_chansOf.mpr ⟨hm, hc⟩, rfl⟩
  unfold layoutNames
  rw [List.mem_append]
  by_cases hd : (declaredOf objects).any (fun x => decide (x.1 = g)) = true
  · left
    rw [List.mem_eraseDups]
    obtain ⟨x, hx, hxg⟩ := List.any_eq_true.mp hd
    exact List.mem_map.mpr ⟨x, hx, by simpa using hxg⟩
  · right
    rw [List.mem_filter, List.mem_eraseDups]
    refine ⟨hmem, ?_⟩
    cases hb : (declaredOf objects).any (fun x => decide (x.1 = g)) with
    | true => exact absurd hb hd
    | false => rfl

theorem mem_layoutChannelsOf_names {objects : ObjMetas} {g c : Bytes} :
    c ∈ (layoutChannelsOf objects g).map (·.1) ↔ ∃ m ∈ objects, classifyPath m.path = .channel g c := by
  unfold layoutChannelsOf
  rw [foldl_addChannel_names_mem]
  simp only [List.map_nil, List.not_mem_nil, false_or, List.mem_map, List.mem_filter, decide_eq_true_eq]
  constructor
  · rintro ⟨⟨g', c', m⟩, ⟨hx, rfl⟩, rfl⟩
    exact ⟨m, mem_chansOf.mp hx⟩
  · rintro ⟨m, hm, hc⟩
    exact ⟨(g, c, m), ⟨mem_chansOf.mpr ⟨hm, hc⟩, rfl⟩, rfl⟩

/-! ## 3. `rewrittenType`: same width, same NumPy kind -/

/-- kernel-checked over the generated table -/
theorem rewrittenType_table :
    ∀ t ∈ typeTable, typeSize (rewrittenType t.code) = typeSize t.code ∧
      (typeInfo (rewrittenType t.code)).bind (·.npKind) = (typeInfo t.code).bind (·.npKind) ∧
      (rewrittenType t.code = tyString ↔ t.code = tyString) ∧
      (rewrittenType t.code = tyVoid ↔ t.code = tyVoid) := by decide

/-- the only types the copy changes: the `…WithUnit` floats become plain floats -/
theorem rewrittenType_changes :
    ∀ t ∈ typeTable, rewrittenType t.code ≠ t.code →
      (t.code = 25 ∧ rewrittenType t.code = 9) ∨ (t.code = 26 ∧ rewrittenType t.code = 10) := by decide

theorem typeInfo_mem {ty : Nat} {ti : TypeInfo} (h : typeInfo ty = some ti) : ti ∈ typeTable ∧ ti.code = ty := by
  unfold typeInfo at h
  exact ⟨List.mem_of_find?_eq_some h, by simpa using List.find?_some h⟩

theorem rewrittenType_of_unknown {ty : Nat} (h : typeInfo ty = none) : rewrittenType ty = ty := by
  simp [rewrittenType, h]

theorem rewrittenType_spec (ty : Nat) :
    typeSize (rewrittenType ty) = typeSize ty ∧
    (typeInfo (rewrittenType ty)).bind (·.npKind) = (typeInfo ty).bind (·.npKind) ∧
    (rewrittenType ty = tyString ↔ ty = tyString) ∧ (rewrittenType ty = tyVoid ↔ ty = tyVoid) := by
  rcases Option.eq_none_or_eq_some (typeInfo ty) with h | ⟨ti, h⟩
  · rw [rewrittenType_of_unknown h]; exact ⟨rfl, rfl, Iff.rfl, Iff.rfl⟩
  · obtain ⟨hm, rfl⟩ := typeInfo_mem h
    exact rewrittenType_table ti hm

theorem typeSize_rewrittenType (ty : Nat) : typeSize (rewrittenType ty) = typeSize ty := (rewrittenType_spec ty).1

theorem rewrittenType_string : rewrittenType tyString = tyString := by decide
theorem rewrittenType_timestamp : rewrittenType tyTimeStamp = tyTimeStamp := by decide

/-! ## 4. channel data -/

theorem chanData_none {r : EagerResult} {m : ObjMeta} (h : m.dataType = none) : chanData r m = ⟨tyVoid, []⟩ := by
  simp [chanData, h]

theorem chanData_empty {r : EagerResult} {m : ObjMeta} {ty : Nat} (h : m.dataType = some ty)
    (hty : ty = tyString ∨ ty = tyTimeStamp) (he : chanVals r m = []) : chanData r m = ⟨tyVoid, []⟩ := by
  simp only [chanData, h]
  rw [if_pos ⟨hty, by simp [he]⟩]

theorem chanData_vals {r : EagerResult} {m : ObjMeta} {ty : Nat} (h : m.dataType = some ty)
    (hne : (ty = tyString ∨ ty = tyTimeStamp) → chanVals r m ≠ []) :
    chanData r m = ⟨rewrittenType ty, chanVals r m⟩ := by
  simp only [chanData, h]
  rw [if_neg]
  rintro ⟨hty, he⟩
  exact hne hty (by simpa using he)

/-- whatever the channel: the values written are the values read (or none), never anything else -/
theorem chanData_vals_cases (r : EagerResult) (m : ObjMeta) :
    (chanData r m).vals = chanVals r m ∨ ((chanData r m).ty = tyVoid ∧ (chanData r m).vals = []) := by
  unfold chanData
  split
  · exact .inr ⟨rfl, rfl⟩
  · split
    · exact .inr ⟨rfl, rfl⟩
    · exact .inl rfl

theorem rawDataIndex_void (g c : Bytes) (ps : List WProp) :
    rawDataIndex (.channel g c ⟨tyVoid, []⟩ ps) = [0xFF, 0xFF, 0xFF, 0xFF] := rfl

theorem objData_void (g c : Bytes) (ps : List WProp) : objData (.channel g c ⟨tyVoid, []⟩ ps) = [] := by
  simp [objData, tyVoid, tyString]

theorem typeSize_ne_string {ty sz : Nat} (h : typeSize ty = some sz) : ty ≠ tyString := by
  rintro rfl
  rw [Tdms.Proofs.Bytes.typeSize_tyString] at h
  cases h

theorem typeSize_ne_void {ty sz : Nat} (h : typeSize ty = some sz) : ty ≠ tyVoid := by
  rintro rfl
  have : typeSize tyVoid = none := by decide
  rw [this] at h
  cases h

/-- fixed-width data: the bytes written are the concatenated values -/
theorem objData_fixed {ty sz : Nat} (h : typeSize ty = some sz) (g c : Bytes) (vals : List Bytes) (ps : List WProp) :
    objData (.channel g c ⟨ty, vals⟩ ps) = vals.flatten := by
  simp [objData, typeSize_ne_string h]

theorem rawDataIndex_fixed {ty sz : Nat} (h : typeSize ty = some sz) (g c : Bytes) (vals : List Bytes)
    (ps : List WProp) :
    rawDataIndex (.channel g c ⟨ty, vals⟩ ps) =
      encLE 4 20 ++ (encLE 4 ty ++ encLE 4 1 ++ encLE 8 vals.length) := by
  simp [rawDataIndex, typeSize_ne_string h, typeSize_ne_void h]

theorem toPIdx_fixed {ty sz : Nat} (h : typeSize ty = some sz) (g c : Bytes) (vals : List Bytes) (ps : List WProp) :
    toPIdx (.channel g c ⟨ty, vals⟩ ps) = some (ty, vals.length, none) := by
  simp [toPIdx, typeSize_ne_string h, typeSize_ne_void h]

/-! ### strings -/

theorem cumOffsetsW_eq (acc : Nat) (vals : List Bytes) : cumOffsetsW acc vals = cumOffsets acc vals := by
  induction vals generalizing acc with
  | nil => rfl
  | cons v vs ih => simp [cumOffsetsW, cumOffsets, ih]

/-- the writer's `write_data` for strings is the format's contiguous string layout -/
theorem objData_string (g c : Bytes) (vals : List Bytes) (ps : List WProp) :
    objData (.channel g c ⟨tyString, vals⟩ ps) = encObjValues .little tyString vals := by
  simp only [objData, encObjValues, if_true, cumOffsetsW_eq]
  rfl

theorem rawDataIndex_string (g c : Bytes) (vals : List Bytes) (ps : List WProp) :
    rawDataIndex (.channel g c ⟨tyString, vals⟩ ps) =
      encLE 4 28 ++ (encLE 4 tyString ++ encLE 4 1 ++ encLE 8 vals.length) ++
        encLE 8 (4 * vals.length + vals.flatten.length) := by
  have hs : (vals.map fun s => 4 + s.length).sum = 4 * vals.length + vals.flatten.length := by
    induction vals with
    | nil => rfl
    | cons v vs ih => simp [ih]; omega
  simp [rawDataIndex, objectDataSize, tyString, tyVoid, hs]

/-! ## 5. the contiguous reader returns values of the type's width -/

theorem splitEvery_lengths (w : Nat) : ∀ (n : Nat) (bs : Bytes), ∀ v ∈ splitEvery w n bs, v.length = w
  | 0, _ => by intro v hv; cases hv
  | n + 1, bs => by
    intro v hv
    unfold splitEvery at hv
    split at hv
    · cases hv
    · rename_i hc
      rcases List.mem_cons.mp hv with rfl | hv
      · simp; omega
      · exact splitEvery_lengths w n _ v hv

theorem canonValue_length (e : Endian) {ty sz : Nat} (h : typeSize ty = some sz) (v : Bytes) (hv : v.length = sz) :
    (canonValue e ty v).length = sz :=
  Tdms.Proofs.Bytes.storeValue_length e h v hv

theorem F_bind_inv {α β : Type} {x : F α} {f : α → F β} {s : FState} {r : β × FState}
    (h : (x >>= f) s = .ok r) : ∃ a s', x s = .ok (a, s') ∧ f a s' = .ok r := by
  change (StateT.bind x f) s = _ at h
  simp only [StateT.bind, bind, Except.bind] at h
  cases hx : x s with
  | error e => rw [hx] at h; cases h
  | ok as => obtain ⟨a, s'⟩ := as; rw [hx] at h; exact ⟨a, s', rfl, h⟩

/-- the contiguous reader returns fixed-width values of exactly the type's width -/
theorem readValues_widths (file : Bytes) (e : Endian) (o : SegObj) (n : Nat) (st st' : FState) (vals : List Bytes)
    (ty sz : Nat) (hty : o.dataType = some ty) (hsz : typeSize ty = some sz)
    (h : readValues file e o n st = .ok (vals, st')) : ∀ v ∈ vals, v.length = sz := by
  unfold readValues at h
  rw [hty] at h
  simp only at h
  rcases Option.eq_none_or_eq_some (typeInfo ty) with hti | ⟨ti, hti⟩
  · simp [typeSize, hti] at hsz
  · have hs : ti.size = some sz := by simpa [typeSize, hti] using hsz
    rw [hti] at h
    simp only [hs] at h
    obtain ⟨b, s1, _, h⟩ := F_bind_inv h
    split at h
    · cases h
    · have : (Except.ok ((splitEvery sz n b).map (canonValue e ty), s1) : Except Err (List Bytes × FState)) = .ok (vals, st') := h
      injection this with this
      have : (splitEvery sz n b).map (canonValue e ty) = vals := congrArg Prod.fst this
      subst this
      intro v hv
      obtain ⟨x, hx, rfl⟩ := List.mem_map.mp hv
      exact canonValue_length e hsz x (splitEvery_lengths sz n b x hx)

end Tdms.Proofs.C10
