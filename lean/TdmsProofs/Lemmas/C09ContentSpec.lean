/-
  C09 (content): spec-encoded files (`encodeFile e`, `encodeIndex e`) are twin files in the sense of
  `C09ContentWalk.lean`.  Core Lean only.
-/
import TdmsProofs.Lemmas.C09ContentParse
import TdmsProofs.Lemmas.C09ContentRead

namespace Tdms.Proofs.C09Content

open Tdms Tdms.Model Tdms.Generated Tdms.Proofs.Bytes

/-! ## the class of encodings -/

/-- one segment of the class: its listed objects are well-formed one by one (`wfObj`) and their numbers fit
    their fields (`objFitsB`), fewer than `2^32` objects; the `2^64-1` marker only in the last segment;
    metadata plus raw data shorter than `2^64-1` bytes.  Nothing is asked of the raw data, of the ToC flags,
    of the version number or of the active objects. -/
def segFitsB (s : SegEnc) (act : List ActiveObj) (isLast : Bool) : Bool :=
  metaFitsB s && (!s.lengthUnknown || isLast) &&
  decide ((segMeta s).length + (encRaw s act).length < 2 ^ 64 - 1)

def segsFitB : List SegEnc → List (List ActiveObj) → Bool
  | s :: ss, a :: as => segFitsB s a ss.isEmpty && segsFitB ss as
  | _, _ => true

/-- **the class of the C09 content theorems** (decidable): the encoding is accepted by the spec's encoder
    (`activeLists` succeeds) and every segment satisfies `segFitsB` -/
def indexClass (e : FileEnc) : Bool :=
  match activeLists none [] e with
  | .error _ => false
  | .ok acts => segsFitB e acts

/-- no segment leaves its length open -/
def lengthsKnown (e : FileEnc) : Bool := e.all fun s => !s.lengthUnknown

/-! ## a spec segment as a twin segment -/

def hdrOfSeg (s : SegEnc) (metaLen rawLen : Nat) : Bytes :=
  encLE 4 (tocMask s) ++ enc s.endian 4 s.version ++
    enc s.endian 8 (if s.lengthUnknown then 2 ^ 64 - 1 else metaLen + rawLen) ++ enc s.endian 8 metaLen

theorem encLeadIn_eq (tag : Bytes) (s : SegEnc) (ml rl : Nat) :
    encLeadIn tag s ml rl = tag ++ hdrOfSeg s ml rl := by
  simp [encLeadIn, hdrOfSeg, List.append_assoc]

theorem hdrOfSeg_length (s : SegEnc) (ml rl : Nat) : (hdrOfSeg s ml rl).length = 24 := by
  simp [hdrOfSeg]

def tsegOf (s : SegEnc) (act : List ActiveObj) : TSeg :=
  ⟨hdrOfSeg s (segMeta s).length (encRaw s act).length, segMeta s, encRaw s act⟩

def tsegs : List SegEnc → List (List ActiveObj) → List TSeg
  | s :: ss, a :: as => tsegOf s a :: tsegs ss as
  | _, _ => []

theorem dataOf_tsegs : ∀ (e : List SegEnc) (acts : List (List ActiveObj)),
    dataOf (tsegs e acts) = zipEncode encodeSeg e acts
  | [], _ => by simp [tsegs, dataOf, zipEncode]
  | _ :: _, [] => by simp [tsegs, dataOf, zipEncode]
  | s :: ss, a :: as => by
    simp only [tsegs, dataOf, zipEncode, dataOf_tsegs ss as]
    simp [TSeg.dataBytes, tsegOf, encodeSeg, encLeadIn_eq, List.append_assoc]

theorem indexOf_tsegs : ∀ (e : List SegEnc) (acts : List (List ActiveObj)),
    indexOf (tsegs e acts) = zipEncode encodeSegIndex e acts
  | [], _ => by simp [tsegs, indexOf, zipEncode]
  | _ :: _, [] => by simp [tsegs, indexOf, zipEncode]
  | s :: ss, a :: as => by
    simp only [tsegs, indexOf, zipEncode, indexOf_tsegs ss as]
    simp [TSeg.indexBytes, tsegOf, encodeSegIndex, encLeadIn_eq, List.append_assoc]

/-! the header fields of an encoded lead-in -/

theorem hToc_hdrOfSeg (s : SegEnc) (ml rl : Nat) : hToc (hdrOfSeg s ml rl) = tocMask s := by
  unfold hToc hdrOfSeg
  rw [List.append_assoc, List.append_assoc, List.take_left' (encLE_length 4 _)]
  exact decLE_encLE_of_lt (Nat.lt_trans (tocMask_lt s) (by decide))

theorem hEndian_hdrOfSeg (s : SegEnc) (ml rl : Nat) : hEndian (hdrOfSeg s ml rl) = s.endian := by
  unfold hEndian; rw [hToc_hdrOfSeg]; exact segEndian_of_tocMask s

theorem hNextOff_hdrOfSeg (s : SegEnc) (ml rl : Nat) (h : ml + rl < 2 ^ 64) :
    hNextOff (hdrOfSeg s ml rl) = if s.lengthUnknown then 2 ^ 64 - 1 else ml + rl := by
  unfold hNextOff
  rw [hEndian_hdrOfSeg]
  have : ((hdrOfSeg s ml rl).drop 8).take 8 =
      enc s.endian 8 (if s.lengthUnknown then 2 ^ 64 - 1 else ml + rl) := by
    unfold hdrOfSeg
    rw [List.append_assoc (encLE 4 (tocMask s) ++ enc s.endian 4 s.version),
      List.drop_left' (by simp), List.take_left' (by simp)]
  rw [this]
  apply dec_enc_of_lt
  split <;> omega

theorem hRawOff_hdrOfSeg (s : SegEnc) (ml rl : Nat) (h : ml < 2 ^ 64) :
    hRawOff (hdrOfSeg s ml rl) = ml := by
  unfold hRawOff
  rw [hEndian_hdrOfSeg]
  have : ((hdrOfSeg s ml rl).drop 16).take 8 = enc s.endian 8 ml := by
    unfold hdrOfSeg
    rw [List.drop_left' (by simp), List.take_of_length_le (by simp)]
  rw [this]
  exact dec_enc_of_lt _ (w := 8) h

/-- **spec-encoded files of the class are twin files** -/
theorem twinOk_tsegs : ∀ (e : List SegEnc) (acts : List (List ActiveObj)),
    segsFitB e acts = true → TwinOk (tsegs e acts)
  | [], _, _ => by simp [tsegs, TwinOk]
  | _ :: _, [], _ => by simp [tsegs, TwinOk]
  | s :: ss, a :: as, h => by
    simp only [segsFitB, segFitsB, Bool.and_eq_true, Bool.or_eq_true, Bool.not_eq_true',
      decide_eq_true_eq] at h
    obtain ⟨⟨⟨hmeta, hlast⟩, hlen⟩, hrest⟩ := h
    refine ⟨hdrOfSeg_length _ _ _, hRawOff_hdrOfSeg _ _ _ (by omega), ?_, ?_, twinOk_tsegs ss as hrest⟩
    · show MetaIndep (hToc (hdrOfSeg s _ _)) (segMeta s)
      rw [hToc_hdrOfSeg]; exact metaIndep_segMeta s hmeta
    · have hN : hNextOff (tsegOf s a).hdr =
          if s.lengthUnknown then 2 ^ 64 - 1 else (segMeta s).length + (encRaw s a).length :=
        hNextOff_hdrOfSeg _ _ _ (by omega)
      cases hu : s.lengthUnknown with
      | false =>
        left
        have hN' : hNextOff (tsegOf s a).hdr = (segMeta s).length + (encRaw s a).length := by
          rw [hN, hu]; rfl
        exact ⟨hN', by rw [hN']; omega⟩
      | true =>
        right
        have hN' : hNextOff (tsegOf s a).hdr = 2 ^ 64 - 1 := by rw [hN, hu]; rfl
        refine ⟨?_, hN'⟩
        rcases hlast with hl | hl
        · rw [hu] at hl; cases hl
        · have : ss = [] := by simpa using hl
          subst this; rfl

theorem noMarker_tsegs : ∀ (e : List SegEnc) (acts : List (List ActiveObj)),
    segsFitB e acts = true → (lengthsKnown e = true ↔ NoMarker (tsegs e acts)) ∨ e.length ≠ acts.length
  | [], [], _ => by left; simp [tsegs, NoMarker, lengthsKnown]
  | [], _ :: _, _ => by right; simp
  | _ :: _, [], _ => by right; simp
  | s :: ss, a :: as, h => by
    simp only [segsFitB, segFitsB, Bool.and_eq_true, Bool.or_eq_true, Bool.not_eq_true',
      decide_eq_true_eq] at h
    obtain ⟨⟨⟨_, _⟩, hlen⟩, hrest⟩ := h
    rcases noMarker_tsegs ss as hrest with ih | ih
    · left
      show _ ↔ (hNextOff (hdrOfSeg s _ _) ≠ 2 ^ 64 - 1 ∧ NoMarker (tsegs ss as))
      rw [hNextOff_hdrOfSeg _ _ _ (by omega), ← ih]
      simp only [lengthsKnown, List.all_cons, Bool.and_eq_true, Bool.not_eq_true']
      constructor
      · rintro ⟨h1, h2⟩
        refine ⟨?_, h2⟩
        simp only [h1, Bool.false_eq_true, if_false]; omega
      · rintro ⟨h1, h2⟩
        refine ⟨?_, h2⟩
        cases hu : s.lengthUnknown with
        | false => rfl
        | true => simp [hu] at h1
    · right; simpa using ih

theorem activeLists_length : ∀ (e : List SegEnc) (prev : Option (List ActiveObj)) (last : LastIdx)
    (acts : List (List ActiveObj)), activeLists prev last e = .ok acts → acts.length = e.length
  | [], _, _, acts, h => by simp [activeLists] at h; subst h; rfl
  | s :: ss, prev, last, acts, h => by
    simp only [activeLists] at h
    split at h
    · cases h
    · rename_i a last' _
      split at h
      · cases h
      · rename_i as has
        injection h with h; subst h
        simp [activeLists_length ss _ _ as has]

/-- what `indexClass` gives: the two encoders succeed on twin files -/
theorem indexClass_twin {e : FileEnc} (h : indexClass e = true) :
    ∃ acts, activeLists none [] e = .ok acts ∧ segsFitB e acts = true ∧
      encodeFile e = .ok (dataOf (tsegs e acts)) ∧ encodeIndex e = .ok (indexOf (tsegs e acts)) ∧
      TwinOk (tsegs e acts) ∧ (lengthsKnown e = true ↔ NoMarker (tsegs e acts)) := by
  unfold indexClass at h
  split at h
  · cases h
  · rename_i acts hacts
    refine ⟨acts, hacts, h, ?_, ?_, twinOk_tsegs e acts h, ?_⟩
    · simp [encodeFile, hacts, dataOf_tsegs]
    · simp [encodeIndex, hacts, indexOf_tsegs]
    · rcases noMarker_tsegs e acts h with h' | h'
      · exact h'
      · exact absurd (activeLists_length e _ _ acts hacts).symm h'

end Tdms.Proofs.C09Content
