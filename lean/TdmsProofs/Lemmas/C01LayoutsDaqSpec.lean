/-
  C01 for files whose segments are standard (contiguous or interleaved) or DAQmx: the class.

  DAQmx indexes of the class (`DaqDescOK`): data type `DAQmxRawData` (0xFFFFFFFF), any number of raw
  buffers, every declared width positive (the reader raises on a zero width, used or not), pairwise distinct
  scale ids, and the list of (scale id, scaler type) of a path is the same wherever the path is listed with a
  DAQmx index (`F path`, the reader raises `scalerTypesChanged` otherwise — a check the spec does not have).  Path-indexed propagation of a predicate
  on descriptions to all active lists (`activeLists_WP`), what `wfSeg` says about a DAQmx segment
  (`DaqLayout`).  Core Lean only.
-/
import TdmsProofs.Lemmas.C01LayoutsFile

namespace Tdms.Proofs.C01Layouts

open Tdms Tdms.Generated Tdms.Model Tdms.Proofs.C02 Tdms.Proofs.C01Multi

/-! ## path-indexed predicates on descriptions propagate to the active lists -/

section WP
variable (W : Bytes → IdxDesc → Prop)

def LastWP (last : LastIdx) : Prop := ∀ p d, last.get p = some d → W p d
def ActWP (act : List ActiveObj) : Prop := ∀ x ∈ act, ∀ d, x.idx = some d → W x.path d

theorem resolveObj_WP {last : LastIdx} {o : ObjEnc} {a : ActiveObj} {last' : LastIdx}
    (h : resolveObj last o = .ok (a, last')) (hl : LastWP W last)
    (ho : ∀ d, descOfIdx o.idx = some d → W o.path d) :
    (∀ d, a.idx = some d → W a.path d) ∧ LastWP W last' := by
  have hL := resolveObj_ok_L h
  unfold resolveObjL at hL
  cases hidx : o.idx with
  | noData =>
    simp only [hidx] at hL
    cases hL
    exact ⟨fun d hd => hl _ _ hd, hl⟩
  | matchesPrev =>
    simp only [hidx] at hL
    cases hg : last.get o.path with
    | none => simp only [hg] at hL; cases hL
    | some d0 =>
      simp only [hg] at hL
      cases hL
      exact ⟨fun d hd => by cases hd; exact hl _ _ hg, hl⟩
  | full ty n total =>
    simp only [hidx] at hL
    cases hL
    have hw : W o.path (.std ty n total) := ho _ (by rw [hidx]; rfl)
    refine ⟨fun d hd => by cases hd; exact hw, ?_⟩
    intro p d hd
    rw [LastIdx.get_set] at hd
    split at hd
    · rename_i hp; cases hd; rw [hp]; exact hw
    · exact hl p d hd
  | daqmx dg ty n sc w =>
    simp only [hidx] at hL
    cases hL
    have hw : W o.path (.daq dg ty n sc w) := ho _ (by rw [hidx]; rfl)
    refine ⟨fun d hd => by cases hd; exact hw, ?_⟩
    intro p d hd
    rw [LastIdx.get_set] at hd
    split at hd
    · rename_i hp; cases hd; rw [hp]; exact hw
    · exact hl p d hd

theorem resolveObjs_WP : ∀ (os : List ObjEnc) (last : LastIdx) (act act' : List ActiveObj) (last' : LastIdx),
    resolveObjs last act os = .ok (act', last') → LastWP W last → ActWP W act →
    (∀ o ∈ os, ∀ d, descOfIdx o.idx = some d → W o.path d) → ActWP W act' ∧ LastWP W last' := by
  intro os
  induction os with
  | nil => intro last act act' last' h hl ha _; cases h; exact ⟨ha, hl⟩
  | cons o os ih =>
    intro last act act' last' h hl ha ho
    unfold resolveObjs at h
    cases hr : resolveObj last o with
    | error e => rw [hr] at h; cases h
    | ok al =>
      obtain ⟨a, l1⟩ := al
      rw [hr] at h
      obtain ⟨h1, h2⟩ := resolveObj_WP W hr hl (ho o (List.mem_cons_self ..))
      refine ih _ _ _ _ h h2 ?_ (fun o' ho' => ho o' (List.mem_cons_of_mem _ ho'))
      intro x hx
      rcases mem_placeObj hx with rfl | ⟨hx, _⟩
      · exact h1
      · exact ha x hx

theorem activeOfSeg_WP {prev : Option (List ActiveObj)} {last : LastIdx} {s : SegEnc} {a : List ActiveObj}
    {last' : LastIdx} (hseg : activeOfSeg prev last s = .ok (a, last')) (hl : LastWP W last)
    (hp : ∀ b, prev = some b → ActWP W b)
    (hs : ∀ o ∈ s.objs, ∀ d, descOfIdx o.idx = some d → W o.path d) : ActWP W a ∧ LastWP W last' := by
  unfold activeOfSeg at hseg
  split at hseg
  · cases hpv : prev with
    | none => rw [hpv] at hseg; cases hseg
    | some b => rw [hpv] at hseg; cases hseg; exact ⟨hp _ hpv, hl⟩
  · refine resolveObjs_WP W _ _ _ _ _ hseg hl ?_ hs
    split
    · intro x hx; cases hx
    · cases hpv : prev with
      | none => intro x hx; cases hx
      | some b => exact hp b hpv

theorem activeLists_WP : ∀ (ss : List SegEnc) (prev : Option (List ActiveObj)) (last : LastIdx)
    (acts : List (List ActiveObj)), activeLists prev last ss = .ok acts → LastWP W last →
    (∀ a, prev = some a → ActWP W a) →
    (∀ s ∈ ss, ∀ o ∈ s.objs, ∀ d, descOfIdx o.idx = some d → W o.path d) → ∀ a ∈ acts, ActWP W a := by
  intro ss
  induction ss with
  | nil => intro prev last acts h _ _ _ a ha; rw [activeLists_nil h] at ha; cases ha
  | cons s ss ih =>
    intro prev last acts h hl hp hs a ha
    obtain ⟨a0, last', as, hseg, hrest, rfl⟩ := activeLists_cons h
    have hseg' := activeOfSeg_WP W hseg hl hp (hs s List.mem_cons_self)
    rcases List.mem_cons.1 ha with rfl | ha
    · exact hseg'.1
    · exact ih (some a0) last' as hrest hseg'.2 (fun b hb => by cases hb; exact hseg'.1)
        (fun s' hs' => hs s' (List.mem_cons_of_mem _ hs')) a ha

end WP

/-! ## DAQmx descriptions of the class -/

/-- scaler types per path: the (scale id, TDMS type) list the reader records for a DAQmx channel -/
abbrev ScF := Bytes → Option (List (Nat × Nat))

def scTypesOf (dg : Bool) (sc : List ScalerEnc) : List (Nat × Nat) :=
  (sc.map (convScaler dg)).map fun s => (s.scaleId, s.ty)

theorem scTypesOf_ids (dg : Bool) (sc : List ScalerEnc) : (scTypesOf dg sc).map (·.1) = sc.map (·.scaleId) := by
  simp [scTypesOf, List.map_map, Function.comp_def, convScaler]

/-- a DAQmx description of the class, for the object at `p`: raw data type, what the spec's `wfIdx` says,
    pairwise distinct scale ids, every declared buffer width positive, the scaler types of the file -/
structure DaqDescOK (F : ScF) (p : Bytes) (dg : Bool) (ty n : Nat) (sc : List ScalerEnc) (w : List Nat) : Prop where
  raw : ty = tyDaqmxRaw
  wf : wfIdx (.daqmx dg ty n sc w) = true
  ids : (sc.map (·.scaleId)).Nodup
  widths : ∀ x ∈ w, 0 < x
  types : F p = some (scTypesOf dg sc)

/-- descriptions of the class: standard ones as in `C01Multi` (`G` is `GoodDesc0` or `GoodDesc`), DAQmx ones
    as above -/
def GoodDescD (G : IdxDesc → Prop) (F : ScF) (p : Bytes) : IdxDesc → Prop
  | .std ty n total => G (.std ty n total)
  | .daq dg ty n sc w => DaqDescOK F p dg ty n sc w

/-- what the class asks of a listed DAQmx index -/
def DaqListedOK (F : ScF) (o : ObjEnc) : Prop :=
  ∀ dg ty n sc w, o.idx = .daqmx dg ty n sc w →
    ty = tyDaqmxRaw ∧ (sc.map (·.scaleId)).Nodup ∧ (∀ x ∈ w, 0 < x) ∧ F o.path = some (scTypesOf dg sc)

/-- size side conditions of a listed object (`ObjFitsM` plus the fields of a DAQmx index) -/
structure ObjFitsD (o : ObjEnc) : Prop where
  idx : C02.idxFits o.idx
  strTotal : ∀ n total, o.idx = .full tyString n total → total < 2 ^ 32
  nProps : o.props.length < 2 ^ 32
  props : ∀ p ∈ o.props, Bytes.propFits p

structure SegFitsD (s : SegEnc) : Prop where
  nObjs : s.objs.length < 2 ^ 32
  objs : ∀ o ∈ s.objs, ObjFitsD o

def FileFitsD (e : FileEnc) : Prop := ∀ s ∈ e, SegFitsD s

theorem goodDescD_of_listed {F : ScF} {o : ObjEnc} (hwf : wfObj o = true) (hs : DaqListedOK F o)
    (hf : ObjFitsD o) : ∀ d, descOfIdx o.idx = some d → GoodDescD GoodDesc0 F o.path d := by
  intro d hd
  simp only [wfObj, Bool.and_eq_true] at hwf
  have hidx := hwf.1.1
  cases hi : o.idx with
  | noData => rw [hi] at hd; cases hd
  | matchesPrev => rw [hi] at hd; cases hd
  | daqmx dg ty n sc w =>
    rw [hi] at hd hidx
    cases hd
    obtain ⟨h1, h2, h3, h4⟩ := hs dg ty n sc w hi
    exact ⟨h1, hidx, h2, h3, h4⟩
  | full ty n total =>
    rw [hi] at hd hidx
    cases hd
    simp only [wfIdx, Bool.and_eq_true, Bool.or_eq_true, decide_eq_true_eq] at hidx
    refine ⟨hidx.1, hidx.2, ?_⟩
    intro hty; subst hty; exact hf.strTotal n total hi

/-! ## one segment of the class -/

/-- the layout facts of a standard segment -/
structure StdLayout (s : SegEnc) (d : List ActiveObj) : Prop where
  noDaq : d.any isDaqmxObj = false
  chunks : ∀ c ∈ s.chunks, wfStdChunk d c = true
  inter : s.interleaved = true → InterOK d

/-- a DAQmx data object of the class, with buffer widths `W` -/
def DaqObj (F : ScF) (W : List Nat) (x : ActiveObj) : Prop :=
  ∃ dg n sc, x.idx = some (.daq dg tyDaqmxRaw n sc W) ∧ DaqDescOK F x.path dg tyDaqmxRaw n sc W

/-- one chunk of a DAQmx segment whose data objects `d` all declare the widths `W`: one row list per buffer,
    rows as wide as declared, a buffer is empty unless some scaler lives in it, and every scaler's buffer has as
    many rows as its object has values -/
structure DaqChunkOK (W : List Nat) (d : List ActiveObj) (c : List (List Bytes)) : Prop where
  len : c.length = W.length
  rows : ∀ b, b < W.length → ∀ r ∈ c.getD b [], r.length = W.getD b 0
  used : ∀ b, b < W.length → c.getD b [] = [] ∨ ∃ x ∈ d, ∃ s ∈ daqScalers x, s.buffer = b
  count : ∀ x ∈ d, ∀ dsc, x.idx = some dsc → ∀ s ∈ daqScalers x, (c.getD s.buffer []).length = dsc.n

/-- the layout facts of a DAQmx segment: every data object is a DAQmx object, all with the same widths, and
    every chunk conforms -/
structure DaqLayout (F : ScF) (s : SegEnc) (d : List ActiveObj) : Prop where
  nonempty : d ≠ []
  contiguous : s.interleaved = false
  width : ∃ W, (∀ x ∈ d, DaqObj F W x) ∧ ∀ c ∈ s.chunks, DaqChunkOK W d c

/-- what `wellFormed` and the class say about one segment and its active list -/
structure SegOKD (G : IdxDesc → Prop) (F : ScF) (s : SegEnc) (a : List ActiveObj) : Prop where
  lengthKnown : s.lengthUnknown = false
  fits : SegFitsD s
  version : s.version = 4712 ∨ s.version = 4713
  noMeta : s.hasMeta = false → s.objs = []
  objs : ∀ o ∈ s.objs, wfObj o = true
  nodup : noDupPaths s.objs = true
  good : ∀ x ∈ a, ∀ d, x.idx = some d → GoodDescD G F x.path d
  nonZero : ∀ c ∈ s.chunks, (encChunk s a c).length ≠ 0
  layout : StdLayout s (dataObjs a) ∨ DaqLayout F s (dataObjs a)

def SegsOKD (G : IdxDesc → Prop) (F : ScF) : List SegEnc → List (List ActiveObj) → Prop
  | [], [] => True
  | s :: ss, a :: as => SegOKD G F s a ∧ SegsOKD G F ss as
  | _, _ => False

/-- the listed fixed-width indexes carry the canonical `total` -/
def CanonListed (ss : List SegEnc) : Prop := ∀ s ∈ ss, ∀ o ∈ s.objs, canonIdx o.idx = o.idx

/-- all data objects of a DAQmx segment declare the same buffer widths.  For a segment with a chunk this
    is part of `wfSeg`; for a DAQmx segment WITHOUT chunks the spec does not ask it, the reader does
    (`get_buffer_dimensions` raises) -/
def WidthsAgree (a : List ActiveObj) : Prop :=
  ∀ x ∈ dataObjs a, ∀ y ∈ dataObjs a, daqWidths x = daqWidths y

/-! ## from `wfSeg` -/

theorem isDaqmxObj_iff {x : ActiveObj} : isDaqmxObj x = true ↔ ∃ dg ty n sc w, x.idx = some (.daq dg ty n sc w) := by
  unfold isDaqmxObj
  cases hi : x.idx with
  | none => simp
  | some d => cases d <;> simp

theorem daqObj_of_good {G : IdxDesc → Prop} {F : ScF} {x : ActiveObj}
    (hg : ∀ d, x.idx = some d → GoodDescD G F x.path d) (hq : isDaqmxObj x = true) :
    ∃ W, DaqObj F W x ∧ daqWidths x = W := by
  obtain ⟨dg, ty, n, sc, w, hi⟩ := isDaqmxObj_iff.mp hq
  have h : DaqDescOK F x.path dg ty n sc w := hg _ hi
  have hty := h.raw
  subst hty
  exact ⟨w, ⟨dg, n, sc, hi, h⟩, by simp [daqWidths, hi]⟩

theorem wfDaqChunk_general {F : ScF} {W : List Nat} {d : List ActiveObj} (hne : d ≠ [])
    (hobj : ∀ x ∈ d, DaqObj F W x) {bufs : List (List Bytes)} (h : wfDaqChunk d bufs = true) :
    DaqChunkOK W d bufs := by
  cases d with
  | nil => exact absurd rfl hne
  | cons a as =>
    obtain ⟨dg, n, sc, hia, hda⟩ := hobj a List.mem_cons_self
    have hwa : daqWidths a = W := by simp [daqWidths, hia]
    simp only [wfDaqChunk, hwa, Bool.and_eq_true, List.all_eq_true, decide_eq_true_eq] at h
    obtain ⟨⟨⟨_, hlen⟩, hrng⟩, hn⟩ := h
    refine ⟨hlen, ?_, ?_, ?_⟩
    · intro b hb r hr
      have := (hrng b (List.mem_range.mpr hb)).1 r hr
      exact this
    · intro b hb
      have := (hrng b (List.mem_range.mpr hb)).2
      simp only [Bool.or_eq_true, List.isEmpty_iff, List.any_eq_true, decide_eq_true_eq] at this
      rcases this with h0 | ⟨x, hx, s, hs, hsb⟩
      · exact Or.inl h0
      · exact Or.inr ⟨x, hx, s, hs, hsb⟩
    · intro x hx dsc hd s hs
      have := hn x hx s hs
      rw [hd] at this
      simpa using this

theorem segOKD_of_wfSeg {F : ScF} {s : SegEnc} {a : List ActiveObj} {isLast : Bool}
    (hlk : s.lengthUnknown = false) (hfit : SegFitsD s)
    (hgood : ∀ x ∈ a, ∀ d, x.idx = some d → GoodDescD GoodDesc0 F x.path d) (hw : WidthsAgree a)
    (hwf : wfSeg s a isLast = true) : SegOKD GoodDesc0 F s a := by
  simp only [wfSeg, Bool.and_eq_true, Bool.or_eq_true, decide_eq_true_eq, List.all_eq_true,
    chunkBytesNonZero, Bool.not_eq_true'] at hwf
  obtain ⟨⟨⟨⟨⟨⟨⟨hv, hnm⟩, hobjs⟩, hndp⟩, _⟩, _⟩, hnz⟩, hlay⟩ := hwf
  refine ⟨hlk, hfit, hv, ?_, hobjs, hndp, hgood, ?_, ?_⟩
  · intro hm
    have := hnm (by simp [hm])
    exact List.isEmpty_iff.mp this.1
  · intro c hc h0
    have := hnz c hc
    rw [List.isEmpty_eq_false_iff] at this
    exact this (List.eq_nil_of_length_eq_zero h0)
  · by_cases hq : (dataObjs a).any isDaqmxObj = true
    · right
      simp only [hq, if_true, Bool.and_eq_true, List.all_eq_true, Bool.not_eq_true'] at hlay
      obtain ⟨⟨hall, hcont⟩, hch⟩ := hlay
      have hne : dataObjs a ≠ [] := by
        intro e; rw [e] at hq; simp at hq
      have hmem : ∀ x ∈ dataObjs a, x ∈ a := fun x hx => (List.mem_filter.mp hx).1
      obtain ⟨x0, hx0⟩ := List.exists_mem_of_ne_nil _ hne
      obtain ⟨W, _, hw0⟩ := daqObj_of_good (hgood x0 (hmem x0 hx0)) (hall x0 hx0)
      have hobj : ∀ x ∈ dataObjs a, DaqObj F W x := by
        intro x hx
        obtain ⟨W1, h1, hw1⟩ := daqObj_of_good (hgood x (hmem x hx)) (hall x hx)
        have := hw x hx x0 hx0
        rw [hw1, hw0] at this
        subst this
        exact h1
      exact ⟨hne, hcont, W, hobj, fun c hc => wfDaqChunk_general hne hobj (hch c hc)⟩
    · left
      have hq' : (dataObjs a).any isDaqmxObj = false := by simpa using hq
      simp only [hq', Bool.false_eq_true, if_false, Bool.and_eq_true, List.all_eq_true, decide_eq_true_eq] at hlay
      refine ⟨hq', hlay.1, ?_⟩
      intro hi
      have := hlay.2 hi
      exact interOK_of_wf (List.all_eq_true.mpr this.1) this.2

end Tdms.Proofs.C01Layouts
