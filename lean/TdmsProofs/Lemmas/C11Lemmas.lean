import Tdms.Model.Data
import Tdms.Spec.Meaning

/-!
# Lemmas for C11 (DAQmx raw data: rows, buffers, scalers)
-/

open Tdms Tdms.Model Tdms.Generated
namespace Tdms.Proofs.C11

/-- row `j` of a buffer of `w`-byte rows -/
def rowAt (w : Nat) (bytes : Bytes) (j : Nat) : Bytes := (bytes.drop (j * w)).take w

theorem splitEvery_rows_aux (w n : Nat) (bytes : Bytes) (hw : 0 < w) :
    splitEvery w n bytes = (List.range (min n (bytes.length / w))).map (rowAt w bytes) := by
  induction n generalizing bytes with
  | zero => simp [splitEvery]
  | succ k ih =>
    unfold splitEvery
    by_cases hlen : bytes.length < w
    · have : bytes.length / w = 0 := Nat.div_eq_of_lt hlen
      simp [hlen, this]
    · have hw0 : ¬ w = 0 := by omega
      have hdiv : bytes.length / w = (bytes.length - w) / w + 1 := by
        rw [← Nat.add_div_right _ hw]
        congr 1; omega
      have hmin : min (k + 1) (bytes.length / w) = min k ((bytes.drop w).length / w) + 1 := by
        rw [hdiv, List.length_drop]; omega
      simp only [hlen, hw0, or_self, if_false]
      rw [hmin, List.range_succ_eq_map, List.map_cons, List.map_map, ih]
      congr 1
      · simp [rowAt]
      · apply List.map_congr_left
        intro j _
        simp [rowAt, List.drop_drop, Nat.succ_mul, Nat.add_comm]


/-- the model scaler read from the metadata for the spec scaler `s` -/
def scalerOfSpec (digital : Bool) (s : ScalerEnc) (ty : Nat) : DaqScaler :=
  ⟨s.scaleId, ty, s.buffer, s.offset, s.bitmap, digital⟩

theorem daq_scaler_value_eq_spec_aux (e : Endian) (digital : Bool) (s : ScalerEnc) (ty sz : Nat) (row : Bytes)
    (hty : daqmxTypeCode s.daqType = some ty) (hsz : typeSize ty = some sz)
    (hfit : scalerByteOffset digital s + sz ≤ row.length) :
    daqScalerValue e (scalerOfSpec digital s ty) row = .ok (Tdms.scalerValue e digital s row) := by
  unfold daqScalerValue Tdms.scalerValue scalerOfSpec
  simp only [hsz, hty, Option.getD_some]
  unfold scalerByteOffset at hfit ⊢
  cases digital with
  | true =>
    simp only [if_true] at hfit ⊢
    have : ¬ (s.offset / 8 + sz > row.length) := by omega
    simp [this]
  | false =>
    simp only [Bool.false_eq_true, if_false] at hfit ⊢
    have : ¬ (s.offset + sz > row.length) := by omega
    simp only [this, if_false]
    cases e <;> rfl


theorem dec_singleton (e : Endian) (b : UInt8) : dec e [b] = b.toNat := by
  cases e <;> simp [dec, decBE, decLE]

theorem take_one_drop (row : Bytes) (i : Nat) (h : i < row.length) : (row.drop i).take 1 = [row[i]] := by
  rw [List.drop_eq_getElem_cons h]; rfl

theorem digital_line_bit_aux (e : Endian) (sc : DaqScaler) (row : Bytes)
    (hd : sc.digital = true) (hsz : typeSize sc.ty = some 1) (hfit : sc.offset / 8 < row.length) :
    daqScalerValue e sc row =
      .ok [if (row[sc.offset / 8]'hfit).toNat.testBit (sc.offset % 8) then 1 else 0] := by
  unfold daqScalerValue
  have : ¬ (sc.offset / 8 + 1 > row.length) := by omega
  simp only [hsz, hd, if_true, this, if_false]
  rw [take_one_drop row _ hfit, dec_singleton, Nat.testBit_eq_decide_div_mod_eq]
  have h2 := Nat.mod_two_eq_zero_or_one ((row[sc.offset / 8]'hfit).toNat / 2 ^ (sc.offset % 8))
  rcases h2 with h | h <;> simp [h, encLE]


/-! ## rows inside the bytes of a chunk -/

theorem flatten_length_of_width (w : Nat) (rows : List Bytes) (h : ∀ r ∈ rows, r.length = w) :
    rows.flatten.length = rows.length * w := by
  induction rows with
  | nil => simp
  | cons r rs ih =>
    have h1 : r.length = w := h r (by simp)
    have h2 := ih (fun x hx => h x (by simp [hx]))
    simp [h1, h2, Nat.succ_mul, Nat.add_comm]

theorem splitEvery_flatten (w : Nat) (rows : List Bytes) (hw : 0 < w) (h : ∀ r ∈ rows, r.length = w) :
    splitEvery w rows.length rows.flatten = rows := by
  induction rows with
  | nil => simp [splitEvery]
  | cons r rs ih =>
    have h1 : r.length = w := h r (by simp)
    have h2 := ih (fun x hx => h x (by simp [hx]))
    have hlen : ¬ ((r ++ rs.flatten).length < w ∨ w = 0) := by simp [h1]; omega
    simp only [List.length_cons, List.flatten_cons, splitEvery, hlen, if_false]
    rw [List.take_left' h1, List.drop_left' h1, h2]

theorem rowAt_flatten (w : Nat) (rows : List Bytes) (tail : Bytes) (h : ∀ r ∈ rows, r.length = w)
    (j : Nat) (hj : j < rows.length) :
    rowAt w (rows.flatten ++ tail) j = rows[j] := by
  induction rows generalizing j with
  | nil => simp at hj
  | cons r rs ih =>
    have h1 : r.length = w := h r (by simp)
    cases j with
    | zero =>
      simp only [rowAt, Nat.zero_mul, List.drop_zero, List.flatten_cons, List.append_assoc,
        List.getElem_cons_zero]
      exact List.take_left' h1
    | succ j =>
      have := ih (fun x hx => h x (by simp [hx])) j (by simpa using hj)
      simp only [List.getElem_cons_succ, ← this, rowAt, List.flatten_cons, List.append_assoc]
      have e : (j + 1) * w = r.length + j * w := by rw [h1, Nat.succ_mul, Nat.add_comm]
      rw [e, ← List.drop_drop, List.drop_left' rfl]


/-! ## the reader's rows -/

theorem readRows_eq (file : Bytes) (w n : Nat) (st : FState) (hw : 0 < w) :
    readRows file w n st =
      .ok (splitEvery w n ((file.drop st.pos).take (w * n)),
           { pos := st.pos + ((file.drop st.pos).take (w * n)).length,
             trace := st.trace ++ [(st.pos, ((file.drop st.pos).take (w * n)).length)] }) := by
  have hw0 : ¬ w = 0 := by omega
  simp [readRows, fRead, bind, StateT.bind, Except.bind, hw0, pure, StateT.pure, Except.pure]

theorem readRows_zero_width (file : Bytes) (n : Nat) (st : FState) :
    readRows file 0 n st = .error .other := by
  simp [readRows, fRead, bind, StateT.bind, Except.bind, throw, throwThe, MonadExceptOf.throw,
    StateT.lift]


/-- the spec's buffers (`SegEnc.chunks` entry of a DAQmx segment) agree with the reader's buffer dimensions:
    buffer `b` has `n_b` rows, each `w_b > 0` bytes wide -/
def RowsConform : List (List Bytes) → List (Nat × Nat) → Prop
  | [], [] => True
  | rows :: bs, (n, w) :: ds => rows.length = n ∧ 0 < w ∧ (∀ r ∈ rows, r.length = w) ∧ RowsConform bs ds
  | _, _ => False

/-- hand the rows of buffers `b, b+1, …` to the scalers living in them -/
def feedRows (e : Endian) (crop : Bytes → Option Nat) (d : List SegObj) :
    Nat → List (List Bytes) → RawChunk → RawChunk → Except Err (RawChunk × RawChunk)
  | _, [], data, scal => .ok (data, scal)
  | b, rows :: rest, data, scal =>
    match daqBufferScalers e b rows crop d data scal with
    | .ok (data, scal) => feedRows e crop d (b + 1) rest data scal
    | .error x => .error x

theorem bufs_nil (file : Bytes) (s : Segment) (d : List SegObj) (crop : Bytes → Option Nat) (b : Nat)
    (data scal : RawChunk) (st : FState) :
    readDaqmxChunk.bufs file s d crop b [] data scal st = .ok ((data, scal), st) := by
  simp [readDaqmxChunk.bufs, pure, StateT.pure, Except.pure]

theorem bufs_cons (file : Bytes) (s : Segment) (d : List SegObj) (crop : Bytes → Option Nat) (b n w : Nat)
    (rest : List (Nat × Nat)) (data scal : RawChunk) (st : FState) :
    readDaqmxChunk.bufs file s d crop b ((n, w) :: rest) data scal st =
      match readRows file w n st with
      | .error x => .error x
      | .ok (rows, st') =>
        match daqBufferScalers s.endian b rows crop d data scal with
        | .ok (data, scal) => readDaqmxChunk.bufs file s d crop (b + 1) rest data scal st'
        | .error x => .error x := by
  rw [readDaqmxChunk.bufs]
  simp only [bind, StateT.bind, Except.bind]
  cases readRows file w n st with
  | error x => rfl
  | ok v =>
    obtain ⟨rows, st'⟩ := v
    simp only
    cases daqBufferScalers s.endian b rows crop d data scal with
    | error x => rfl
    | ok r => obtain ⟨data', scal'⟩ := r; rfl

/-- **the reader hands buffer `b` exactly the rows the format puts in buffer `b`**: on a file that holds the
    encoded chunk at the current position, the buffer loop of `readDaqmxChunk` equals feeding the spec's rows, and
    leaves the file position at the end of the chunk -/
theorem bufs_reads_rows (file : Bytes) (s : Segment) (d : List SegObj) (crop : Bytes → Option Nat) :
    ∀ (bufsRows : List (List Bytes)) (dims : List (Nat × Nat)) (b : Nat) (data scal : RawChunk) (st : FState)
      (tail : Bytes),
      RowsConform bufsRows dims → file.drop st.pos = encChunkDaqmx bufsRows ++ tail →
      match feedRows s.endian crop d b bufsRows data scal with
      | .error x => readDaqmxChunk.bufs file s d crop b dims data scal st = .error x
      | .ok r => ∃ st', readDaqmxChunk.bufs file s d crop b dims data scal st = .ok (r, st') ∧
                  st'.pos = st.pos + (encChunkDaqmx bufsRows).length := by
  intro bufsRows
  induction bufsRows with
  | nil =>
    intro dims b data scal st tail hc hf
    cases dims with
    | nil => simp [feedRows, bufs_nil, encChunkDaqmx]
    | cons x xs => simp [RowsConform] at hc
  | cons rows rest ih =>
    intro dims b data scal st tail hc hf
    cases dims with
    | nil => simp [RowsConform] at hc
    | cons x xs =>
      obtain ⟨n, w⟩ := x
      obtain ⟨hn, hw, hrows, hrest⟩ := hc
      have hflat : rows.flatten.length = w * n := by
        rw [flatten_length_of_width w rows hrows, hn, Nat.mul_comm]
      have hf' : file.drop st.pos = rows.flatten ++ (encChunkDaqmx rest ++ tail) := by
        rw [hf]; simp [encChunkDaqmx]
      have htake : (file.drop st.pos).take (w * n) = rows.flatten := by
        rw [hf']; exact List.take_left' hflat
      have hsplit : splitEvery w n rows.flatten = rows := by
        rw [← hn]; exact splitEvery_flatten w rows hw hrows
      rw [bufs_cons, readRows_eq file w n st hw, htake, hsplit]
      simp only [feedRows]
      cases hdb : daqBufferScalers s.endian b rows crop d data scal with
      | error x => simp
      | ok r =>
        obtain ⟨data', scal'⟩ := r
        simp only
        have hdrop : file.drop (st.pos + rows.flatten.length) = encChunkDaqmx rest ++ tail := by
          rw [← List.drop_drop, hf']; exact List.drop_left' rfl
        have := ih xs (b + 1) data' scal'
          { pos := st.pos + rows.flatten.length, trace := st.trace ++ [(st.pos, rows.flatten.length)] }
          tail hrest hdrop
        cases hfeed : feedRows s.endian crop d (b + 1) rest data' scal' with
        | error x => simp only [hfeed] at this ⊢; exact this
        | ok r' =>
          simp only [hfeed] at this ⊢
          obtain ⟨st', h1, h2⟩ := this
          refine ⟨st', h1, ?_⟩
          rw [h2]; simp [encChunkDaqmx, Nat.add_assoc]


/-! ## position of a value inside the chunk -/

theorem encChunkDaqmx_append (a b : List (List Bytes)) :
    encChunkDaqmx (a ++ b) = encChunkDaqmx a ++ encChunkDaqmx b := by
  simp [encChunkDaqmx]

theorem encChunkDaqmx_cons (rows : List Bytes) (b : List (List Bytes)) :
    encChunkDaqmx (rows :: b) = rows.flatten ++ encChunkDaqmx b := by
  simp [encChunkDaqmx]

def dimsBytes (dims : List (Nat × Nat)) : Nat := (dims.map fun d => d.1 * d.2).sum

theorem encChunkDaqmx_length (bufs : List (List Bytes)) (dims : List (Nat × Nat)) (h : RowsConform bufs dims) :
    (encChunkDaqmx bufs).length = dimsBytes dims := by
  induction bufs generalizing dims with
  | nil =>
    cases dims with
    | nil => simp [encChunkDaqmx, dimsBytes]
    | cons x xs => simp [RowsConform] at h
  | cons rows rest ih =>
    cases dims with
    | nil => simp [RowsConform] at h
    | cons x xs =>
      obtain ⟨n, w⟩ := x
      obtain ⟨hn, hw, hrows, hrest⟩ := h
      rw [encChunkDaqmx_cons, List.length_append, ih xs hrest, flatten_length_of_width w rows hrows, hn]
      simp [dimsBytes]

theorem RowsConform_take (pre : List (List Bytes)) (post : List (List Bytes)) (dims : List (Nat × Nat))
    (h : RowsConform (pre ++ post) dims) : RowsConform pre (dims.take pre.length) := by
  induction pre generalizing dims with
  | nil => simp [RowsConform]
  | cons rows rest ih =>
    cases dims with
    | nil => simp [RowsConform] at h
    | cons x xs =>
      obtain ⟨n, w⟩ := x
      obtain ⟨hn, hw, hrows, hrest⟩ := h
      exact ⟨hn, hw, hrows, ih xs hrest⟩

/-- byte offset of buffer `b` inside a chunk: the sizes `n_b' * w_b'` of the buffers before it -/
theorem buffer_start (pre : List (List Bytes)) (post : List (List Bytes)) (dims : List (Nat × Nat))
    (h : RowsConform (pre ++ post) dims) :
    (encChunkDaqmx pre).length = dimsBytes (dims.take pre.length) :=
  encChunkDaqmx_length pre _ (RowsConform_take pre post dims h)

theorem chunk_row_position (pre : List (List Bytes)) (rows : List Bytes) (post : List (List Bytes)) (w j : Nat)
    (hrows : ∀ r ∈ rows, r.length = w) (hj : j < rows.length) :
    ((encChunkDaqmx (pre ++ rows :: post)).drop ((encChunkDaqmx pre).length + j * w)).take w = rows[j] := by
  rw [encChunkDaqmx_append, encChunkDaqmx_cons, ← List.drop_drop, List.drop_left' rfl]
  exact rowAt_flatten w rows (encChunkDaqmx post) hrows j hj

theorem take_drop_take (l : Bytes) (w off sz : Nat) (h : off + sz ≤ w) :
    ((l.take w).drop off).take sz = (l.drop off).take sz := by
  rw [List.drop_take, List.take_take]
  congr 1; omega

/-! ## truncated final chunk: buffer lengths -/

theorem daqmxBufferLengths_length (dims : List (Nat × Nat)) (r : Nat) :
    (daqmxBufferLengths dims r).length = dims.length := by
  induction dims generalizing r with
  | nil => simp [daqmxBufferLengths]
  | cons x xs ih =>
    obtain ⟨n, w⟩ := x
    unfold daqmxBufferLengths; split
    · simp [ih]
    · simp

theorem getD_map_zero (xs : List (Nat × Nat)) (i : Nat) : (xs.map fun _ => 0).getD i 0 = 0 := by
  simp [List.getD_eq_getElem?_getD, List.getElem?_map]
  cases xs[i]? <;> simp

/-- closed form: buffer `b` keeps the number of complete rows that lie inside the first `r` bytes -/
theorem daqmxBufferLengths_getD (pre : List (Nat × Nat)) (n w : Nat) (post : List (Nat × Nat)) (r : Nat)
    (hw : 0 < w) :
    (daqmxBufferLengths (pre ++ (n, w) :: post) r).getD pre.length 0 = min n ((r - dimsBytes pre) / w) := by
  induction pre generalizing r with
  | nil =>
    simp only [List.nil_append, List.length_nil, dimsBytes, List.map_nil, List.sum_nil, Nat.sub_zero]
    unfold daqmxBufferLengths; split
    · rename_i hgt
      have : n ≤ r / w := by rw [Nat.le_div_iff_mul_le hw]; omega
      simp; omega
    · rename_i hle
      have : r / w ≤ n := by apply Nat.div_le_of_le_mul; rw [Nat.mul_comm]; omega
      simp; omega
  | cons x xs ih =>
    obtain ⟨m, v⟩ := x
    simp only [List.cons_append, List.length_cons]
    unfold daqmxBufferLengths; split
    · rw [List.getD_cons_succ, ih]
      simp [dimsBytes, Nat.sub_add_eq]
    · rename_i hle
      rw [List.getD_cons_succ, getD_map_zero]
      have : r - dimsBytes ((m, v) :: xs) = 0 := by simp [dimsBytes]; omega
      simp [this]

theorem daqmxBufferLengths_used_le (dims : List (Nat × Nat)) (r : Nat) :
    (List.zipWith (fun d l => l * d.2) dims (daqmxBufferLengths dims r)).sum ≤ r := by
  induction dims generalizing r with
  | nil => simp [daqmxBufferLengths]
  | cons x xs ih =>
    obtain ⟨n, w⟩ := x
    unfold daqmxBufferLengths; split
    · have := ih (r - n * w)
      simp at this ⊢; omega
    · have h0 : (List.zipWith (fun d l => l * d.2) xs (xs.map fun _ => 0)).sum = 0 := by
        clear ih
        induction xs with
        | nil => simp
        | cons y ys ih2 => simp [ih2]
      simp [h0]; exact Nat.div_mul_le_self r w


/-! ## truncated final chunk: lengths per object -/

theorem foldl_min_le (ls : List Nat) (l : Nat) : ls.foldl min l ≤ l ∧ ∀ x ∈ ls, ls.foldl min l ≤ x := by
  induction ls generalizing l with
  | nil => simp
  | cons a as ih =>
    simp only [List.foldl_cons]
    obtain ⟨h1, h2⟩ := ih (min l a)
    refine ⟨by omega, ?_⟩
    intro x hx
    rcases List.mem_cons.mp hx with h | h
    · subst h; omega
    · exact h2 x h

theorem foldl_min_mem (ls : List Nat) (l : Nat) : ls.foldl min l = l ∨ ls.foldl min l ∈ ls := by
  induction ls generalizing l with
  | nil => simp
  | cons a as ih =>
    simp only [List.foldl_cons]
    rcases ih (min l a) with h | h
    · rw [h]
      by_cases hla : l ≤ a
      · left; omega
      · right; simp; left; omega
    · right; simp [h]

/-- rows available for all scalers of one object: the minimum over the buffers its scalers live in -/
def objFinalLen (lens : List Nat) (m : DaqMeta) : Nat :=
  match m.scalers.map fun sc => lens.getD sc.buffer 0 with
  | [] => 0
  | l :: ls => ls.foldl min l

theorem objFinalLen_le (lens : List Nat) (m : DaqMeta) (sc : DaqScaler) (h : sc ∈ m.scalers) :
    objFinalLen lens m ≤ lens.getD sc.buffer 0 := by
  unfold objFinalLen
  cases hs : m.scalers with
  | nil => rw [hs] at h; simp at h
  | cons s0 rest =>
    rw [hs] at h
    simp only [List.map_cons]
    obtain ⟨h1, h2⟩ := foldl_min_le (rest.map fun sc => lens.getD sc.buffer 0) (lens.getD s0.buffer 0)
    rcases List.mem_cons.mp h with e | e
    · subst e; exact h1
    · exact h2 _ (List.mem_map.mpr ⟨sc, e, rfl⟩)

theorem objFinalLen_attained (lens : List Nat) (m : DaqMeta) (hne : m.scalers ≠ []) :
    ∃ sc ∈ m.scalers, objFinalLen lens m = lens.getD sc.buffer 0 := by
  unfold objFinalLen
  cases hs : m.scalers with
  | nil => exact absurd hs hne
  | cons s0 rest =>
    simp only [List.map_cons]
    rcases foldl_min_mem (rest.map fun sc => lens.getD sc.buffer 0) (lens.getD s0.buffer 0) with h | h
    · exact ⟨s0, by simp, h⟩
    · obtain ⟨sc, hsc, e⟩ := List.mem_map.mp h
      exact ⟨sc, by simp [hsc], e.symm⟩

theorem daqmxFinalChunkLengths_spec (objs : List SegObj) (r : Nat) (dims : List (Nat × Nat))
    (hdims : bufferDimensions objs = .ok dims)
    (hsc : ∀ o ∈ objs, o.hasData = true → ∀ m, o.daq = some m → m.scalers ≠ []) :
    daqmxFinalChunkLengths objs r = .ok ((objs.filter (·.hasData)).filterMap fun o =>
      o.daq.map fun m => (o.path, objFinalLen (daqmxBufferLengths dims r) m)) := by
  unfold daqmxFinalChunkLengths
  simp only [hdims, bind, Except.bind]
  have hsc' : ∀ o ∈ objs.filter (·.hasData), ∀ m, o.daq = some m → m.scalers ≠ [] := by
    intro o ho; simp at ho; exact hsc o ho.1 ho.2
  generalize objs.filter (·.hasData) = d at hsc'
  induction d with
  | nil => rfl
  | cons o os ih =>
    simp only [List.foldr_cons]
    rw [ih (fun x hx => hsc' x (by simp [hx]))]
    cases hdaq : o.daq with
    | none => simp [hdaq, pure, Except.pure]
    | some m =>
      have hne := hsc' o (by simp) m hdaq
      cases hs : m.scalers with
      | nil => exact absurd hs hne
      | cons s0 rest => simp [hdaq, hs, objFinalLen, pure, Except.pure]


/-! ## buffer dimensions -/

/-- the inner fold of `bufferDimensions`: raise the row count of every buffer a scaler of `m` lives in -/
def scalerFold (c : Nat) (scs : List DaqScaler) (acc : Except Err (List (Nat × Nat))) :
    Except Err (List (Nat × Nat)) :=
  scs.foldl (fun acc s =>
    match acc with
    | .error x => .error x
    | .ok dims =>
      match dims[s.buffer]? with
      | none => .error .other
      | some (n, w) => .ok (dims.set s.buffer (max n c, w))) acc

def hasScalerIn (scs : List DaqScaler) (b : Nat) : Bool := scs.any (·.buffer = b)

theorem scalerFold_spec (c : Nat) (scs : List DaqScaler) (dims0 : List (Nat × Nat))
    (hb : ∀ sc ∈ scs, sc.buffer < dims0.length) :
    ∃ dims, scalerFold c scs (.ok dims0) = .ok dims ∧ dims.length = dims0.length ∧
      ∀ b, dims[b]? = dims0[b]?.map fun d => (if hasScalerIn scs b then max d.1 c else d.1, d.2) := by
  induction scs generalizing dims0 with
  | nil =>
    refine ⟨dims0, rfl, rfl, ?_⟩
    intro b; cases dims0[b]? <;> simp [hasScalerIn]
  | cons sc rest ih =>
    have hlt : sc.buffer < dims0.length := hb sc (by simp)
    have hget : dims0[sc.buffer]? = some dims0[sc.buffer] := List.getElem?_eq_getElem hlt
    cases hd0 : dims0[sc.buffer] with
    | mk n w =>
      have hstep : scalerFold c (sc :: rest) (.ok dims0)
          = scalerFold c rest (.ok (dims0.set sc.buffer (max n c, w))) := by
        simp only [scalerFold, List.foldl_cons, hget, hd0]
      obtain ⟨dims, h1, h2, h3⟩ := ih (dims0.set sc.buffer (max n c, w))
        (fun x hx => by rw [List.length_set]; exact hb x (by simp [hx]))
      refine ⟨dims, by rw [hstep, h1], by rw [h2, List.length_set], ?_⟩
      intro b
      rw [h3 b, List.getElem?_set]
      by_cases hbb : sc.buffer = b
      · subst hbb
        simp only [if_true, hlt, hget, hd0, Option.map_some, hasScalerIn, List.any_cons, decide_true,
          Bool.true_or]
        congr 2
        have : max (max n c) c = max n c := by omega
        simp [this]
      · simp only [hbb, if_false, hasScalerIn, List.any_cons, decide_false, Bool.false_or]
        rfl



/-- the outer fold of `bufferDimensions` -/
def metaStep (W : List Nat) (acc : Except Err (List (Nat × Nat))) (m : DaqMeta) : Except Err (List (Nat × Nat)) :=
  match acc with
  | .error x => .error x
  | .ok dims => if m.widths ≠ W then .error .daqmxWidths else scalerFold m.chunkSize m.scalers (.ok dims)

/-- the DAQmx metadata of the data objects -/
def daqMetas (objs : List SegObj) : List DaqMeta := (objs.filter (·.hasData)).filterMap (·.daq)

theorem bufferDimensions_unfold (objs : List SegObj) :
    bufferDimensions objs =
      match daqMetas objs with
      | [] => .ok []
      | first :: _ => (daqMetas objs).foldl (metaStep first.widths) (.ok (first.widths.map fun w => (0, w))) := by
  unfold bufferDimensions daqMetas
  cases (objs.filter (·.hasData)).filterMap (·.daq) with
  | nil => rfl
  | cons first rest => rfl

/-- row count of buffer `b`: the largest chunk size among the objects that have a scaler in `b` -/
def dimN (ms : List DaqMeta) (b : Nat) (n0 : Nat) : Nat :=
  ms.foldl (fun a m => if hasScalerIn m.scalers b then max a m.chunkSize else a) n0

theorem metaFold_spec (W : List Nat) (ms : List DaqMeta) (dims0 : List (Nat × Nat))
    (hW : ∀ m ∈ ms, m.widths = W) (hb : ∀ m ∈ ms, ∀ sc ∈ m.scalers, sc.buffer < dims0.length) :
    ∃ dims, ms.foldl (metaStep W) (.ok dims0) = .ok dims ∧ dims.length = dims0.length ∧
      ∀ b, dims[b]? = dims0[b]?.map fun d => (dimN ms b d.1, d.2) := by
  induction ms generalizing dims0 with
  | nil =>
    refine ⟨dims0, rfl, rfl, ?_⟩
    intro b; cases dims0[b]? <;> simp [dimN]
  | cons m rest ih =>
    have hw : m.widths = W := hW m (by simp)
    obtain ⟨dims1, h1, h2, h3⟩ := scalerFold_spec m.chunkSize m.scalers dims0 (hb m (by simp))
    have hstep : metaStep W (.ok dims0) m = .ok dims1 := by
      simp [metaStep, hw, h1]
    obtain ⟨dims, g1, g2, g3⟩ := ih dims1 (fun x hx => hW x (by simp [hx]))
      (fun x hx sc hsc => by rw [h2]; exact hb x (by simp [hx]) sc hsc)
    refine ⟨dims, by rw [List.foldl_cons, hstep, g1], by rw [g2, h2], ?_⟩
    intro b
    rw [g3 b, h3 b]
    cases dims0[b]? with
    | none => rfl
    | some d => simp [dimN]

theorem dimN_ge_init (ms : List DaqMeta) (b n0 : Nat) : n0 ≤ dimN ms b n0 := by
  induction ms generalizing n0 with
  | nil => simp [dimN]
  | cons m rest ih =>
    simp only [dimN, List.foldl_cons]
    split
    · exact Nat.le_trans (Nat.le_max_left _ _) (ih _)
    · exact ih _

/-- `dimN` is an upper bound of the chunk sizes of the objects with a scaler in `b` … -/
theorem dimN_ge (ms : List DaqMeta) (b n0 : Nat) (m : DaqMeta) (hm : m ∈ ms)
    (hs : hasScalerIn m.scalers b = true) : m.chunkSize ≤ dimN ms b n0 := by
  induction ms generalizing n0 with
  | nil => simp at hm
  | cons x rest ih =>
    simp only [dimN, List.foldl_cons]
    rcases List.mem_cons.mp hm with e | e
    · subst e
      simp only [hs, if_true]
      exact Nat.le_trans (Nat.le_max_right _ _) (dimN_ge_init rest b _)
    · exact ih _ e

/-- … and it is attained (or is the initial value) -/
theorem dimN_attained (ms : List DaqMeta) (b n0 : Nat) :
    dimN ms b n0 = n0 ∨ ∃ m ∈ ms, hasScalerIn m.scalers b = true ∧ dimN ms b n0 = m.chunkSize := by
  induction ms generalizing n0 with
  | nil => left; rfl
  | cons x rest ih =>
    simp only [dimN, List.foldl_cons]
    by_cases hs : hasScalerIn x.scalers b = true
    · simp only [hs, if_true]
      rcases ih (max n0 x.chunkSize) with h | ⟨m, hm, h1, h2⟩
      · by_cases hle : x.chunkSize ≤ n0
        · left; show dimN rest b _ = _; rw [h]; omega
        · right; refine ⟨x, by simp, hs, ?_⟩; show dimN rest b _ = _; rw [h]; omega
      · right; exact ⟨m, by simp [hm], h1, h2⟩
    · simp only [hs]
      rcases ih n0 with h | ⟨m, hm, h1, h2⟩
      · left; exact h
      · right; exact ⟨m, by simp [hm], h1, h2⟩

/-! ## bounds used for prefix monotonicity of DAQmx channels -/

theorem scalerFold_error (c : Nat) (scs : List DaqScaler) (x : Err) : scalerFold c scs (.error x) = .error x := by
  induction scs with
  | nil => rfl
  | cons a as ih => simpa [scalerFold] using ih

theorem scalerFold_cons_ok (c : Nat) (sc : DaqScaler) (rest : List DaqScaler) (dims0 : List (Nat × Nat)) :
    scalerFold c (sc :: rest) (.ok dims0) =
      scalerFold c rest (match dims0[sc.buffer]? with
        | none => .error .other
        | some (n, w) => .ok (dims0.set sc.buffer (max n c, w))) := rfl

theorem scalerFold_bound (N c : Nat) (scs : List DaqScaler) (dims0 dims : List (Nat × Nat))
    (h : scalerFold c scs (.ok dims0) = .ok dims) (h0 : ∀ d ∈ dims0, d.1 ≤ N) (hc : c ≤ N) :
    ∀ d ∈ dims, d.1 ≤ N := by
  induction scs generalizing dims0 with
  | nil => simp [scalerFold] at h; subst h; exact h0
  | cons sc rest ih =>
    rw [scalerFold_cons_ok] at h
    cases hg : dims0[sc.buffer]? with
    | none =>
      simp only [hg] at h
      rw [scalerFold_error] at h; cases h
    | some nw =>
      obtain ⟨n, w⟩ := nw
      simp only [hg] at h
      apply ih (dims0.set sc.buffer (max n c, w)) h
      intro d hd
      rcases List.mem_or_eq_of_mem_set hd with h1 | h1
      · exact h0 d h1
      · subst h1
        have : n ≤ N := h0 (n, w) (List.mem_of_getElem? hg)
        simp; omega

theorem foldl_metaStep_error (W : List Nat) (ms : List DaqMeta) (x : Err) :
    ms.foldl (metaStep W) (.error x) = .error x := by
  induction ms with
  | nil => rfl
  | cons m rest ih => simpa [metaStep] using ih

theorem metaFold_bound (N : Nat) (W : List Nat) (ms : List DaqMeta) (dims0 dims : List (Nat × Nat))
    (h : ms.foldl (metaStep W) (.ok dims0) = .ok dims) (h0 : ∀ d ∈ dims0, d.1 ≤ N)
    (hc : ∀ m ∈ ms, m.chunkSize ≤ N) : ∀ d ∈ dims, d.1 ≤ N := by
  induction ms generalizing dims0 with
  | nil => simp at h; subst h; exact h0
  | cons m rest ih =>
    simp only [List.foldl_cons] at h
    cases hs : metaStep W (.ok dims0) m with
    | error x => rw [hs, foldl_metaStep_error] at h; cases h
    | ok dims1 =>
      rw [hs] at h
      apply ih dims1 h _ (fun x hx => hc x (by simp [hx]))
      simp only [metaStep] at hs
      split at hs
      · cases hs
      · exact scalerFold_bound N m.chunkSize m.scalers dims0 dims1 hs h0 (hc m (by simp))

theorem bufferDimensions_bound (N : Nat) (objs : List SegObj) (dims : List (Nat × Nat))
    (h : bufferDimensions objs = .ok dims) (hc : ∀ m ∈ daqMetas objs, m.chunkSize ≤ N) :
    ∀ d ∈ dims, d.1 ≤ N := by
  rw [bufferDimensions_unfold] at h
  cases hm : daqMetas objs with
  | nil => simp [hm] at h; subst h; simp
  | cons first rest =>
    simp only [hm] at h
    rw [hm] at hc
    exact metaFold_bound N first.widths _ _ dims h (by simp) hc

theorem daqmxBufferLengths_bound (N : Nat) (dims : List (Nat × Nat)) (r : Nat) (h : ∀ d ∈ dims, d.1 ≤ N) :
    ∀ l ∈ daqmxBufferLengths dims r, l ≤ N := by
  induction dims generalizing r with
  | nil => simp [daqmxBufferLengths]
  | cons x xs ih =>
    obtain ⟨n, w⟩ := x
    have hn : n ≤ N := h (n, w) (by simp)
    unfold daqmxBufferLengths; split
    · intro l hl
      rcases List.mem_cons.mp hl with e | e
      · omega
      · exact ih _ (fun d hd => h d (by simp [hd])) l e
    · rename_i hle
      intro l hl
      rcases List.mem_cons.mp hl with e | e
      · subst e
        by_cases hw : w = 0
        · subst hw; simp
        · have : r / w ≤ n := by apply Nat.div_le_of_le_mul; rw [Nat.mul_comm]; omega
          omega
      · obtain ⟨_, _, e'⟩ := List.mem_map.mp e
        omega

theorem getD_le_of_all (N : Nat) (l : List Nat) (i : Nat) (h : ∀ x ∈ l, x ≤ N) : l.getD i 0 ≤ N := by
  rw [List.getD_eq_getElem?_getD]
  cases hg : l[i]? with
  | none => simp
  | some x => simp; exact h x (List.mem_of_getElem? hg)

theorem overrideGet_le_of_all (N : Nat) (ov : List (Bytes × Nat)) (p : Bytes) (h : ∀ x ∈ ov, x.2 ≤ N) :
    overrideGet ov p ≤ N := by
  unfold overrideGet
  cases hf : ov.find? (·.1 = p) with
  | none => simp
  | some x => simp; exact h x (List.mem_of_find?_eq_some hf)

/-- one step of the `foldr` in `daqmxFinalChunkLengths` -/
def finalStep (lens : List Nat) (o : SegObj) (acc : Except Err (List (Bytes × Nat))) :
    Except Err (List (Bytes × Nat)) :=
  match acc with
  | .error e => .error e
  | .ok rest =>
    match o.daq with
    | none => .ok rest
    | some m =>
      match m.scalers.map fun sc => lens.getD sc.buffer 0 with
      | [] => .error .other
      | l :: ls => .ok ((o.path, ls.foldl min l) :: rest)

theorem daqmxFinalChunkLengths_unfold (objs : List SegObj) (r : Nat) :
    daqmxFinalChunkLengths objs r =
      match bufferDimensions objs with
      | .error e => .error e
      | .ok dims => (objs.filter (·.hasData)).foldr (finalStep (daqmxBufferLengths dims r)) (.ok []) := by
  unfold daqmxFinalChunkLengths
  cases bufferDimensions objs with
  | error e => rfl
  | ok dims =>
    show List.foldr _ _ _ = List.foldr _ _ _
    congr 1
    funext o acc
    cases acc with
    | error e => rfl
    | ok rest =>
      simp only [finalStep, bind, Except.bind]
      cases o.daq with
      | none => rfl
      | some m =>
        simp only []
        cases (m.scalers.map fun sc => (daqmxBufferLengths dims r).getD sc.buffer 0) <;> rfl

/-- every final length of a DAQmx segment is bounded by the largest declared chunk size -/
theorem daqmxFinalChunkLengths_bound (N : Nat) (objs : List SegObj) (r : Nat) (ov : List (Bytes × Nat))
    (h : daqmxFinalChunkLengths objs r = .ok ov) (hc : ∀ m ∈ daqMetas objs, m.chunkSize ≤ N) :
    ∀ x ∈ ov, x.2 ≤ N := by
  rw [daqmxFinalChunkLengths_unfold] at h
  cases hd : bufferDimensions objs with
  | error e => simp [hd] at h
  | ok dims =>
    simp only [hd] at h
    have hl := daqmxBufferLengths_bound N dims r (bufferDimensions_bound N objs dims hd hc)
    generalize daqmxBufferLengths dims r = lens at h hl
    generalize objs.filter (·.hasData) = d at h
    induction d generalizing ov with
    | nil => simp at h; subst h; simp
    | cons o os ih =>
      simp only [List.foldr_cons] at h
      cases hrest : os.foldr (finalStep lens) (.ok []) with
      | error e => rw [hrest] at h; simp [finalStep] at h
      | ok rest =>
        rw [hrest] at h
        have ihr := ih rest hrest
        simp only [finalStep] at h
        cases hdaq : o.daq with
        | none => simp [hdaq] at h; subst h; exact ihr
        | some m =>
          simp only [hdaq] at h
          cases hs : m.scalers with
          | nil => simp [hs] at h
          | cons s0 srest =>
            simp [hs] at h
            subst h
            intro x hx
            rcases List.mem_cons.mp hx with e | e
            · subst e
              have h1 := (foldl_min_le (srest.map fun sc => lens.getD sc.buffer 0) (lens.getD s0.buffer 0)).1
              have h2 := getD_le_of_all N lens s0.buffer hl
              exact Nat.le_trans h1 h2
            · exact ihr x e

end Tdms.Proofs.C11
