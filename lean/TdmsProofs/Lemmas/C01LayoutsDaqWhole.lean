/-
  C01 with DAQmx segments, the spec side over the whole file: one induction over the segments (carrying the
  spec's own invariants `SpecInv`, `TyCons`) that yields the values and scaler values of the final content
  in closed form, the invariant `CInv`, and the data type of every path that is active with data somewhere.
  Core Lean only.
-/
import TdmsProofs.Lemmas.C01LayoutsDaqInv

namespace Tdms.Proofs.C01Layouts

open Tdms Tdms.Generated Tdms.Model Tdms.Proofs.C02 Tdms.Proofs.C01Multi
open Tdms.Proofs.C01Compose (bump)

/-! ## types are kept -/

theorem tyCons_mono {last last' : LastIdx} {c : Content} (h : TyCons last c)
    (hmono : ∀ p d, last.get p = some d → ∃ d', last'.get p = some d' ∧ d'.ty = d.ty) : TyCons last' c := by
  intro oc hoc
  rcases h oc hoc with h1 | h1
  · exact Or.inl h1
  · cases hg : last.get oc.path with
    | none => left; rw [h1, hg]; rfl
    | some d =>
      obtain ⟨d', hd', hdt⟩ := hmono _ _ hg
      right
      rw [h1, hg, hd']
      simp [hdt]

def Present (c : Content) (p : Bytes) : Prop := c.any (fun o => decide (o.path = p)) = true

theorem tyAt_declare_keep (last' : LastIdx) : ∀ (act : List ActiveObj) (c : Content) (p : Bytes) (t : Nat),
    (∀ a ∈ act, a.idx = last'.get a.path) → TyCons last' c → TyAt c p t → Present c p →
    TyAt (declareObjs c act) p t := by
  intro act
  induction act with
  | nil => intro c p t _ _ h _; exact h
  | cons a as ih =>
    intro c p t hidx htc h hp
    rw [declareObjs_cons]
    apply ih _ _ _ (fun x hx => hidx x (List.mem_cons_of_mem _ hx))
      (tyCons_decl_step htc (hidx a List.mem_cons_self))
    · by_cases hap : a.path = p
      · intro oc hoc hop
        rcases mem_modify_abs hoc with ⟨h1, _⟩ | ⟨y, hy, hyp, rfl⟩ | ⟨rfl, habs⟩
        · exact h oc h1 hop
        · have hyt := h y hy (hyp.trans hap)
          show ((a.idx.map (·.ty)).orElse fun _ => y.ty) = some t
          cases hi : a.idx with
          | none => simpa using hyt
          | some d =>
            have := htc y hy
            rw [hyp, ← hidx a List.mem_cons_self, hi, hyt] at this
            rcases this with h' | h'
            · cases h'
            · simpa using h'.symm
        · rw [hap] at habs
          unfold Present at hp
          rw [hp] at habs
          cases habs
      · exact tyAt_modify_ne h hap _ (fun _ => rfl)
    · exact modify_present_mono _ _ _ _ (fun _ => rfl) hp

theorem present_denoteSeg (c : Content) (s : SegEnc) (a : List ActiveObj) (p : Bytes)
    (h : Present c p ∨ p ∈ a.map (·.path)) : Present (denoteSeg c s a) p := by
  have hpresA : ∀ x ∈ a, (declareObjs c a).any (fun o => decide (o.path = x.path)) = true :=
    fun x hx => declareObjs_present a c x.path (Or.inr (List.mem_map.2 ⟨x, hx, rfl⟩))
  have h1 := declareObjs_present a c p h
  unfold Present denoteSeg
  simp only []
  split
  · rw [(sameView_chunks s a s.chunks _ (fun x hx => applyProps_present _ _ _ (hpresA x hx))).any_path]
    exact applyProps_present _ _ _ h1
  · rw [(sameView_chunks s a s.chunks _ hpresA).any_path]
    exact h1

/-- a type assigned to a path in the declaration phase is still there at the end of the segment -/
theorem tyAt_after_declare (c : Content) (s : SegEnc) (a : List ActiveObj) (p : Bytes) (t : Nat)
    (hlisted : s.hasMeta = true → ∀ o ∈ s.objs, o.path ∈ a.map (·.path))
    (h : TyAt (declareObjs c a) p t) : TyAt (denoteSeg c s a) p t := by
  have hpresA : ∀ x ∈ a, (declareObjs c a).any (fun o => decide (o.path = x.path)) = true :=
    fun x hx => declareObjs_present a c x.path (Or.inr (List.mem_map.2 ⟨x, hx, rfl⟩))
  unfold denoteSeg
  simp only []
  by_cases hm : s.hasMeta = true
  · simp only [hm, if_true]
    have hpl : ∀ o ∈ s.objs, (declareObjs c a).any (fun x => decide (x.path = o.path)) = true :=
      fun o ho => declareObjs_present a c o.path (Or.inr (hlisted hm o ho))
    exact tyAt_sameView (sameView_chunks s a s.chunks _ (fun x hx => applyProps_present _ _ _ (hpresA x hx)))
      (tyAt_applyProps _ _ _ _ hpl h)
  · have hm' : s.hasMeta = false := by simpa using hm
    simp only [hm', Bool.false_eq_true, if_false]
    exact tyAt_sameView (sameView_chunks s a s.chunks _ hpresA) h

/-! ## the lists the file holds -/

def allStdPairs : List SegEnc → List (List ActiveObj) → List (Bytes × List Bytes)
  | s :: ss, a :: as => stdPairs s a ++ allStdPairs ss as
  | _, _ => []

def allDaqEnts : List SegEnc → List (List ActiveObj) → List (Bytes × ScalDict)
  | s :: ss, a :: as => daqEnts s a ++ allDaqEnts ss as
  | _, _ => []

theorem good_allRaw {F : ScF} {a : List ActiveObj}
    (hg : ∀ x ∈ a, ∀ d, x.idx = some d → GoodDescD GoodDesc F x.path d) : AllRaw (dataObjs a) := by
  intro x hx dg ty n sc w hi
  have := hg x (List.mem_filter.mp hx).1 _ hi
  exact this.1

/-- what the induction over the segments yields -/
structure SemOut (F : ScF) (Q : Bytes → Prop) (c : Content) (ss : List SegEnc) (as : List (List ActiveObj)) (cF : Content) : Prop where
  vals : valsOf cF = (allStdPairs ss as).foldl bump (valsOf c)
  scal : ∀ p id, lookupV (scalOf cF p) id = lookupV (scalOf c p) id ++ colN (itemsAt (allDaqEnts ss as) p) id
  cinv : CInvAll F Q cF
  nodup : (cF.map (·.path)).Nodup
  keep : ∀ p t, TyAt c p t → Present c p → TyAt cF p t ∧ Present cF p
  tyData : ∀ sa ∈ ss.zip as, ∀ x ∈ dataObjs sa.2, ∃ d, x.idx = some d ∧ TyAt cF x.path d.ty ∧ Present cF x.path

theorem denoteSegs_sem (F : ScF) (Q : Bytes → Prop) : ∀ (ss : List SegEnc) (as : List (List ActiveObj))
    (prev : Option (List ActiveObj)) (last : LastIdx) (c : Content),
    activeLists prev last ss = .ok as → SegsOKD GoodDesc F ss as →
    (∀ sa ∈ ss.zip as, ∀ x ∈ sa.2, isDaqmxObj x = true → Q x.path) → SpecInv prev last → TyCons last c →
    (c.map (·.path)).Nodup → CInvAll F Q c → SemOut F Q c ss as (denoteSegs c ss as) := by
  intro ss
  induction ss with
  | nil =>
    intro as prev last c hacts _ _ _ _ hnd hci
    rw [activeLists_nil hacts]
    exact ⟨rfl, fun p id => by simp [allDaqEnts, itemsAt, colN, denoteSegs], hci, hnd, fun p t h hp => ⟨h, hp⟩,
      fun sa hsa => by cases hsa⟩
  | cons s ss ih =>
    intro as prev last c hacts hok hQ hspec htc hnd hci
    obtain ⟨a, last', as', hact, hrest, rfl⟩ := activeLists_cons hacts
    obtain ⟨hok1, hok2⟩ := hok
    have hpost := activeOfSeg_post hspec hok1.nodup hact
    have htc' := tyCons_mono htc hpost.mono
    have hraw := good_allRaw hok1.good
    have hc1 := cinv_denoteSeg F Q last' s a c hok1 hpost.nodup hpost.idx hpost.listed hpost.hasIdx
      (hQ (s, a) (by rw [List.zip_cons_cons]; exact List.mem_cons_self)) htc' hci
    have hnd1 := denoteSeg_nodupD c s a hnd
    have htc1 := tyCons_denoteSeg last' s a c hpost.idx hpost.listed htc'
    have hrec := ih as' (some a) last' (denoteSeg c s a) hrest hok2
      (fun sa hsa => hQ sa (by rw [List.zip_cons_cons]; exact List.mem_cons_of_mem _ hsa)) hpost.specInv htc1 hnd1 hc1
    refine ⟨?_, ?_, hrec.cinv, hrec.nodup, ?_, ?_⟩
    · show valsOf (denoteSegs (denoteSeg c s a) ss as') = _
      rw [hrec.vals, valsOf_denoteSegD c s a hraw, allStdPairs, List.foldl_append]
    · intro p id
      show lookupV (scalOf (denoteSegs (denoteSeg c s a) ss as') p) id = _
      rw [hrec.scal, lookupV_denoteSeg c s a hraw, allDaqEnts, itemsAt_append, colN_append, List.append_assoc]
    · intro p t ht hp
      refine hrec.keep p t ?_ (present_denoteSeg c s a p (Or.inl hp))
      exact tyAt_after_declare c s a p t hpost.listed (tyAt_declare_keep last' a c p t hpost.idx htc' ht hp)
    · intro sa hsa x hx
      rw [List.zip_cons_cons] at hsa
      rcases List.mem_cons.1 hsa with rfl | hsa'
      · obtain ⟨hxa, hxd⟩ : x ∈ a ∧ x.hasData = true := by simpa [dataObjs] using hx
        cases hi : x.idx with
        | none => exact absurd hi (hpost.hasIdx x hxa hxd)
        | some d =>
          have h1 := tyAt_after_declare c s a x.path d.ty hpost.listed
            (tyAt_declareObjs a c hpost.nodup x hxa d hi)
          have h2 := present_denoteSeg c s a x.path (Or.inr (List.mem_map.2 ⟨x, hxa, rfl⟩))
          obtain ⟨h3, h4⟩ := hrec.keep x.path d.ty h1 h2
          exact ⟨d, rfl, h3, h4⟩
      · exact hrec.tyData sa hsa' x hx

end Tdms.Proofs.C01Layouts
