/-
  C07 whole: folds of `Content.modify` with distinct keys, in closed form (paths and lookup), and
  extensionality of contents with distinct paths.  Core Lean only.
-/
import TdmsProofs.Lemmas.C07WholeWf

namespace Tdms.Proofs.C07Whole

open Tdms Tdms.Generated Tdms.Proofs.C01Multi

abbrev Upd := Bytes × (ObjContent → ObjContent)

def PathPres (f : ObjContent → ObjContent) : Prop := ∀ x, (f x).path = x.path

/-- a sequence of keyed updates -/
def applyUpd (c : Content) (us : List Upd) : Content := us.foldl (fun c u => c.modify u.1 u.2) c

theorem applyUpd_cons (c : Content) (u : Upd) (us : List Upd) :
    applyUpd c (u :: us) = applyUpd (c.modify u.1 u.2) us := rfl

theorem any_iff_mem (c : Content) (p : Bytes) : c.any (·.path = p) = true ↔ p ∈ c.map (·.path) := by
  simp only [List.any_eq_true, decide_eq_true_eq, List.mem_map]

theorem modify_paths_mem (c : Content) (p : Bytes) (f : ObjContent → ObjContent) (hf : PathPres f)
    (h : p ∈ c.map (·.path)) : (c.modify p f).map (·.path) = c.map (·.path) := by
  rw [modify_paths c p f hf, if_pos ((any_iff_mem c p).2 h)]

theorem modify_paths_not_mem (c : Content) (p : Bytes) (f : ObjContent → ObjContent) (hf : PathPres f)
    (h : p ∉ c.map (·.path)) : (c.modify p f).map (·.path) = c.map (·.path) ++ [p] := by
  rw [modify_paths c p f hf, if_neg (fun h' => h ((any_iff_mem c p).1 h'))]

/-- updates of paths that are all present leave the path list alone -/
theorem applyUpd_paths_present : ∀ (us : List Upd) (c : Content), (∀ u ∈ us, PathPres u.2) →
    (∀ u ∈ us, u.1 ∈ c.map (·.path)) → (applyUpd c us).map (·.path) = c.map (·.path) := by
  intro us
  induction us with
  | nil => intro c _ _; rfl
  | cons u us ih =>
    intro c hf hp
    have h1 := modify_paths_mem c u.1 u.2 (hf u List.mem_cons_self) (hp u List.mem_cons_self)
    rw [applyUpd_cons, ih _ (fun w hw => hf w (List.mem_cons_of_mem _ hw))
      (fun w hw => by rw [h1]; exact hp w (List.mem_cons_of_mem _ hw)), h1]

/-- the path list after a sequence of updates with distinct keys: new keys are appended in order -/
theorem applyUpd_paths : ∀ (us : List Upd) (c : Content), (∀ u ∈ us, PathPres u.2) → (us.map (·.1)).Nodup →
    (applyUpd c us).map (·.path) =
      c.map (·.path) ++ (us.map (·.1)).filter (fun k => !(c.map (·.path)).elem k) := by
  intro us
  induction us with
  | nil => intro c _ _; simp [applyUpd]
  | cons u us ih =>
    intro c hf hnd
    rw [List.map_cons, List.nodup_cons] at hnd
    rw [applyUpd_cons, ih _ (fun w hw => hf w (List.mem_cons_of_mem _ hw)) hnd.2, List.map_cons,
      List.filter_cons]
    by_cases hm : u.1 ∈ c.map (·.path)
    · rw [modify_paths_mem c u.1 u.2 (hf u List.mem_cons_self) hm]
      simp [hm]
    · rw [modify_paths_not_mem c u.1 u.2 (hf u List.mem_cons_self) hm]
      simp only [List.elem_eq_mem, hm, decide_false, Bool.not_false, if_true, List.append_assoc,
        List.singleton_append]
      congr 2
      apply List.filter_congr
      intro k hk
      have : k ≠ u.1 := fun e => hnd.1 (e ▸ hk)
      simp [this]

/-- lookup after a sequence of updates with distinct keys -/
theorem applyUpd_find : ∀ (us : List Upd) (c : Content) (p : Bytes), (∀ u ∈ us, PathPres u.2) →
    (us.map (·.1)).Nodup →
    (applyUpd c us).find? (·.path = p) =
      match us.find? (·.1 = p) with
      | some u => some (u.2 ((c.find? (·.path = p)).getD (dflt p)))
      | none => c.find? (·.path = p) := by
  intro us
  induction us with
  | nil => intro c p _ _; rfl
  | cons u us ih =>
    intro c p hf hnd
    rw [List.map_cons, List.nodup_cons] at hnd
    rw [applyUpd_cons, ih _ p (fun w hw => hf w (List.mem_cons_of_mem _ hw)) hnd.2,
      find_modify c u.1 p u.2 (hf u List.mem_cons_self), List.find?_cons]
    by_cases hp : u.1 = p
    · have hnone : us.find? (·.1 = p) = none := by
        rw [List.find?_eq_none]
        intro w hw
        simp only [decide_eq_true_eq]
        intro e
        exact hnd.1 (List.mem_map.2 ⟨w, hw, e.trans hp.symm⟩)
      simp only [hnone, hp, decide_true, if_true]
    · have : ¬ p = u.1 := fun e => hp e.symm
      simp only [hp, decide_false, this, if_false]

/-- two contents with the same distinct paths and the same lookups are equal -/
theorem content_ext {c1 c2 : Content} (hp : c1.map (·.path) = c2.map (·.path)) (hnd : (c1.map (·.path)).Nodup)
    (hf : ∀ p, c1.find? (·.path = p) = c2.find? (·.path = p)) : c1 = c2 := by
  have hlen : c1.length = c2.length := by simpa using congrArg List.length hp
  apply List.ext_getElem hlen
  intro i h1 h2
  have hpi : c1[i].path = c2[i].path := by
    have := congrArg (fun l => l[i]?) hp
    simpa [h1, h2] using this
  have e1 := find_of_nodup hnd (List.getElem_mem h1)
  have e2 := find_of_nodup (hp ▸ hnd) (List.getElem_mem h2)
  rw [hf, hpi, e2] at e1
  exact (Option.some.inj e1).symm

/-- lookup in a list built from its keys -/
theorem find_map_key (g : Bytes → ObjContent) (hg : ∀ q, (g q).path = q) (p : Bytes) :
    ∀ l : List Bytes, (l.map g).find? (·.path = p) = if p ∈ l then some (g p) else none := by
  intro l
  induction l with
  | nil => simp
  | cons q qs ih =>
    rw [List.map_cons, List.find?_cons, hg]
    by_cases h : q = p
    · subst h; simp
    · have : ¬ p = q := fun e => h e.symm
      simp only [h, decide_false, ih, List.mem_cons, this, false_or]

end Tdms.Proofs.C07Whole
