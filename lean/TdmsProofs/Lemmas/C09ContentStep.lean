/-
  C09 (content): one iteration of `readMetadataLoop` on a data-file segment and on its index-file twin.
  Core Lean only.
-/
import TdmsProofs.Lemmas.C09ContentHdr

namespace Tdms.Proofs.C09Content

open Tdms Tdms.Model Tdms.Generated Tdms.Proofs.LeadIn Tdms.Proofs.C02

/-! ## metadata blocks whose reading does not depend on what follows them -/

/-- **the metadata block `m` is read independently of the bytes after it**: `read_segment_objects` (which is
    handed the whole rest of the file) returns the same result — value or exception — whatever follows `m`,
    for every segment record with the ToC mask `toc`, every previous segment and every `prevObjs` the reader
    can hold (`Keyed`: every entry is stored under its own path) -/
def MetaIndep (toc : Nat) (m : Bytes) : Prop :=
  ∀ (seg : Segment) (prevSeg : Option Segment) (prevObjs : PrevObjs) (r1 r2 : Bytes),
    seg.toc = toc → Keyed prevObjs →
    readSegmentObjects seg prevSeg prevObjs (m ++ r1) = readSegmentObjects seg prevSeg prevObjs (m ++ r2)

/-- a segment without the metadata flag: the bytes are not looked at -/
theorem metaIndep_noMeta (toc : Nat) (m : Bytes) (h : hasFlag toc kTocMetaData = false) : MetaIndep toc m := by
  intro seg prevSeg prevObjs r1 r2 htoc _
  unfold readSegmentObjects
  simp only [htoc, h, Bool.not_false, if_true]

/-- a block that the state-free parser `parseObjs` (C02) parses to the same items whatever follows it -/
theorem metaIndep_of_parse (toc : Nat) (m : Bytes) (items : List Item)
    (h : ∀ r, ∃ rest,
      (do let n ← uN (if hasFlag toc kTocBigEndian then Endian.big else Endian.little) 4
          parseObjs (if hasFlag toc kTocBigEndian then Endian.big else Endian.little) n : P (List Item))
        (m ++ r) = .ok (items, rest)) : MetaIndep toc m := by
  intro seg prevSeg prevObjs r1 r2 htoc hk
  obtain ⟨rest1, h1⟩ := h r1
  obtain ⟨rest2, h2⟩ := h r2
  have he : seg.endian = (if hasFlag toc kTocBigEndian then Endian.big else Endian.little) := by
    unfold Segment.endian; rw [htoc]
  rw [readSegmentObjects_eq seg prevSeg prevObjs hk (m ++ r1) rest1 items (by intro _; rw [he]; exact h1),
    readSegmentObjects_eq seg prevSeg prevObjs hk (m ++ r2) rest2 items (by intro _; rw [he]; exact h2)]

/-! ## `Keyed` is an invariant of the loop -/

theorem updateObjectMetadata_keyed (s : Segment) :
    ∀ (objs : List SegObj) (prev : PrevObjs) (ms : ObjMetas) (prev' : PrevObjs) (ms' : ObjMetas),
      updateObjectMetadata s objs prev ms = .ok (prev', ms') → Keyed prev → Keyed prev' := by
  intro objs
  induction objs with
  | nil =>
    intro prev ms prev' ms' h hk
    simp only [updateObjectMetadata] at h
    injection h with h; injection h with h1 h2; subst h1; exact hk
  | cons o os ih =>
    intro prev ms prev' ms' h hk
    simp only [updateObjectMetadata] at h
    split at h
    · cases h
    · split at h
      · cases h
      · exact ih _ _ _ _ h (keyed_set hk o)

theorem loopStep_next_keyed (file : Bytes) (isIndex : Bool) (dfs : Option Nat) (fp sp fp' sp' : Nat)
    (st st' : ReaderState) (h : loopStep file isIndex dfs fp sp st = .ok (.next fp' sp' st'))
    (hk : Keyed st.prevObjs) : Keyed st'.prevObjs := by
  unfold loopStep at h
  split at h
  · cases h
  · split at h <;> cases h
  · rename_i li _
    split at h
    · cases h
    · rename_i seg props _
      split at h
      · cases h
      · rename_i prev' objs' hu
        injection h with h; injection h with _ _ h3
        subst h3
        exact updateObjectMetadata_keyed _ _ _ _ _ _ hu hk

/-! ## one iteration, both walks -/

theorem leadInOf_dataPos {hdr : Bytes} {p : Nat} {dfs : Option Nat} {li : LeadIn}
    (h : leadInOf hdr p dfs = .ok (some li)) : li.dataPosition = p + 28 + hRawOff hdr := by
  unfold leadInOf at h
  simp only at h
  repeat' split at h
  all_goals first
    | (cases h; done)
    | (injection h with h; injection h with h; subst h; rfl)

theorem drop_add_of_drop {l : Bytes} {n : Nat} {a b : Bytes} (k : Nat) (h : l.drop n = a ++ b)
    (ha : a.length = k) : l.drop (n + k) = b := by
  rw [← List.drop_drop, h, List.drop_left' ha]

/-- **one iteration on a segment and on its index twin.**  The data file has, at position `P`, a lead-in
    (`TDSm`, header bytes `hdr`) followed by the metadata block `m`; the index file has, at position `Q`, the
    same lead-in with tag `TDSh` followed by the same `m`; what follows `m` differs (raw data and the next
    segment, against the next index segment).  If `m` is read independently of what follows it, the two
    iterations have the same outcome: the same exception, the same final state, or the same next state and
    next segment position — the index walk continuing behind `m`. -/
theorem twin_step (fD fI : Bytes) (dfs : Option Nat) (P Q : Nat) (st : ReaderState) (hdr m xD xI : Bytes)
    (hD : fD.drop P = tagData ++ hdr ++ (m ++ xD)) (hI : fI.drop Q = tagIndex ++ hdr ++ (m ++ xI))
    (hh : hdr.length = 24) (hraw : hRawOff hdr = m.length) (hm : MetaIndep (hToc hdr) m)
    (hk : Keyed st.prevObjs) :
    loopStep fI true dfs Q P st =
      match loopStep fD false dfs P P st with
      | .error e => .error e
      | .ok (.done s) => .ok (.done s)
      | .ok (.next _ sp s) => .ok (.next (Q + 28 + m.length) sp s) := by
  have hD28 : fD.drop (P + 28) = m ++ xD :=
    drop_add_of_drop 28 hD (by simp [tagData_length, hh])
  have hI28 : fI.drop (Q + 28) = m ++ xI :=
    drop_add_of_drop 28 hI (by simp [tagIndex_length, hh])
  have hlD := readLeadIn_twin false hdr (m ++ xD) P dfs hh
  have hlI := readLeadIn_twin true hdr (m ++ xI) P dfs hh
  have hvD := leadInVersion_twin tagData hdr (m ++ xD) rfl hh
  have hvI := leadInVersion_twin tagIndex hdr (m ++ xI) rfl hh
  change readLeadIn (tagData ++ hdr ++ (m ++ xD)) P false dfs = _ at hlD
  change readLeadIn (tagIndex ++ hdr ++ (m ++ xI)) P true dfs = _ at hlI
  unfold loopStep
  rw [hD, hI, hlD, hlI, hvD, hvI, hD28, hI28]
  cases hl : leadInOf hdr P dfs with
  | error e => rfl
  | ok r =>
    cases r with
    | none => rfl
    | some li =>
      simp only []
      rw [hm ⟨P, li.toc, li.nextSegmentPos, li.dataPosition, li.incomplete, [], 0, none⟩
        st.segments.getLast? st.prevObjs xI xD (leadInOf_toc hl) hk]
      cases hs : readSegmentObjects ⟨P, li.toc, li.nextSegmentPos, li.dataPosition, li.incomplete, [], 0, none⟩
          st.segments.getLast? st.prevObjs (m ++ xD) with
      | error e => rfl
      | ok v =>
        obtain ⟨seg, props⟩ := v
        simp only []
        cases hu : updateObjectMetadata seg seg.objects st.prevObjs st.objects with
        | error e => rfl
        | ok w =>
          obtain ⟨prev', objs'⟩ := w
          simp only [if_true]
          obtain ⟨a, _, _, d, _⟩ := readSegmentObjects_frame _ _ _ _ _ _ hs
          simp only at a d
          rw [a, d, leadInOf_dataPos hl, hraw]
          have : P + 28 + m.length - P = 28 + m.length := by omega
          rw [this, Nat.add_assoc]

/-- the version bookkeeping of an iteration that ends the loop on a lead-in it could still unpack -/
def withVersion (st : ReaderState) (v : Int) : ReaderState :=
  { st with version := some (st.version.getD v), versions := st.versions ++ [v] }

/-- **a lead-in whose metadata lie beyond the end of the data file ends the loop** (`EOFError` after the
    version has been recorded) -/
theorem loopStep_short (file : Bytes) (isIndex : Bool) (k fp p : Nat) (st : ReaderState) (hdr y : Bytes)
    (hf : file.drop fp = tagOf isIndex ++ hdr ++ y) (hh : hdr.length = 24)
    (hcut : k < p + 28 + hRawOff hdr) (hle : hRawOff hdr ≤ hNextOff hdr) :
    loopStep file isIndex (some k) fp p st = .ok (.done (withVersion st (hVersion hdr))) := by
  have hl : leadInOf hdr p (some k) = .ok none := by
    unfold leadInOf
    simp only
    by_cases h1 : hNextOff hdr = 2 ^ 64 - 1
    · rw [if_pos h1, if_pos hcut]
    · rw [if_neg h1, if_pos (by omega), if_pos hcut]
  unfold loopStep
  rw [hf, readLeadIn_twin isIndex hdr y p (some k) hh, hl,
    leadInVersion_twin _ hdr y (tagOf_length isIndex) hh]
  rfl

end Tdms.Proofs.C09Content
