/-
  The dictionary a DAQmx chunk is read into (`bmChunk`): keys, entries, and the items stored under the path of
  a data object in closed form — the scaler items of the object, buffer by buffer (`accItems`), which hold the
  same values per scale id as the spec's object-major list `scalItemsG`.  Core Lean only.
-/
import TdmsProofs.Lemmas.C01LayoutsDaqScal

namespace Tdms.Proofs.C01Layouts

open Tdms Tdms.Generated Tdms.Model Tdms.Proofs.C02 Tdms.Proofs.C01Multi

/-! ## `dictSet` -/

theorem dictSet_keys {β : Type} (d : List (Bytes × β)) (p : Bytes) (v : β) :
    (dictSet d p v).map (·.1) = if p ∈ d.map (·.1) then d.map (·.1) else d.map (·.1) ++ [p] := by
  unfold dictSet
  by_cases h : p ∈ d.map (·.1)
  · have hany : d.any (fun x => decide (x.1 = p)) = true := by
      obtain ⟨x, hx, hxp⟩ := List.mem_map.mp h
      exact List.any_eq_true.mpr ⟨x, hx, by simpa using hxp⟩
    rw [if_pos hany, if_pos h, List.map_map]
    apply List.map_congr_left
    intro x _
    simp only [Function.comp]
    split
    · rename_i hx; exact hx.symm
    · rfl
  · have hany : ¬ d.any (fun x => decide (x.1 = p)) = true := by
      intro hc
      obtain ⟨x, hx, hxp⟩ := List.any_eq_true.mp hc
      exact h (List.mem_map.2 ⟨x, hx, by simpa using hxp⟩)
    rw [if_neg hany, if_neg h]
    simp

theorem dictSet_find {β : Type} (d : List (Bytes × β)) (p : Bytes) (v : β) (q : Bytes) :
    (dictSet d p v).find? (·.1 = q) = if q = p then some (p, v) else d.find? (·.1 = q) := by
  unfold dictSet
  split
  · rename_i hany
    induction d with
    | nil => simp at hany
    | cons x xs ih =>
      simp only [List.map_cons, List.find?_cons]
      by_cases hx : x.1 = p
      · by_cases hq : q = p
        · subst hq; simp [hx]
        · have : ¬ p = q := fun e => hq e.symm
          have hxq : ¬ x.1 = q := by rw [hx]; exact this
          simp only [hx, if_true, this, decide_false, hq, if_false]
          by_cases hany' : xs.any (fun y => decide (y.1 = p)) = true
          · have := ih hany'
            simp only [hq, if_false] at this
            exact this
          · -- no further entry with key `p`: the map is the identity on `xs`
            have hid : xs.map (fun y => if y.1 = p then (p, v) else y) = xs := by
              calc xs.map (fun y => if y.1 = p then (p, v) else y) = xs.map id := by
                    apply List.map_congr_left
                    intro y hy
                    have : ¬ y.1 = p := by
                      intro e
                      exact hany' (List.any_eq_true.mpr ⟨y, hy, by simpa using e⟩)
                    simp [this]
                _ = xs := by simp
            rw [hid]
      · have hany' : xs.any (fun y => decide (y.1 = p)) = true := by
          simp only [List.any_cons, Bool.or_eq_true, decide_eq_true_eq] at hany
          rcases hany with h | h
          · exact absurd h hx
          · exact h
        have := ih hany'
        simp only [hx, if_false]
        by_cases hxq : x.1 = q
        · have hq : ¬ q = p := by rw [← hxq]; exact hx
          simp [hxq, hq]
        · simp only [hxq, decide_false]
          exact this
  · rename_i hany
    rw [List.find?_append]
    have hnone : d.find? (·.1 = p) = none := by
      rw [List.find?_eq_none]
      intro x hx
      simp only [List.any_eq_true, decide_eq_true_eq, not_exists, not_and] at hany
      simpa using hany x hx
    by_cases hq : q = p
    · subst hq; simp [hnone]
    · have : ¬ p = q := fun e => hq e.symm
      cases d.find? (·.1 = q) <;> simp [hq, this]

/-- every entry of the dictionary is a scaler entry -/
def AllScal (scal : RawChunk) : Prop := ∀ pc ∈ scal, ∃ items, pc.2 = { scalers := some items }

theorem allScal_dictSet {scal : RawChunk} (h : AllScal scal) (p : Bytes) (items : ScalDict) :
    AllScal (dictSet scal p { scalers := some items }) := by
  intro pc hpc
  unfold dictSet at hpc
  split at hpc
  · obtain ⟨y, hy, rfl⟩ := List.mem_map.mp hpc
    split
    · exact ⟨items, rfl⟩
    · exact h y hy
  · rcases List.mem_append.mp hpc with h1 | h1
    · exact h pc h1
    · simp only [List.mem_singleton] at h1
      subst h1
      exact ⟨items, rfl⟩

/-! ## `upsertItem` -/

theorem itemsOfD_upsert (scal : RawChunk) (q : Bytes) (iv : Nat × List Bytes) (p : Bytes) :
    itemsOfD (upsertItem scal q iv) p = if p = q then roa (itemsOfD scal q) iv else itemsOfD scal p := by
  unfold upsertItem
  conv => lhs; unfold itemsOfD
  rw [dictSet_find]
  by_cases h : p = q
  · subst h; simp [itemsOfD]
  · simp only [h, if_false]; rfl

theorem keys_upsert (scal : RawChunk) (q : Bytes) (iv : Nat × List Bytes) :
    (upsertItem scal q iv).map (·.1) =
      if q ∈ scal.map (·.1) then scal.map (·.1) else scal.map (·.1) ++ [q] :=
  dictSet_keys scal q _

/-- invariants of a fold of upserts under one path -/
theorem fold_upsert (q : Bytes) : ∀ (items : ScalDict) (scal : RawChunk),
    (∀ p, itemsOfD (items.foldl (fun scal iv => upsertItem scal q iv) scal) p =
      if p = q then items.foldl roa (itemsOfD scal q) else itemsOfD scal p) ∧
    ((scal.map (·.1)).Nodup → ((items.foldl (fun scal iv => upsertItem scal q iv) scal).map (·.1)).Nodup) ∧
    (∀ k ∈ (items.foldl (fun scal iv => upsertItem scal q iv) scal).map (·.1), k ∈ scal.map (·.1) ∨ k = q) ∧
    (AllScal scal → AllScal (items.foldl (fun scal iv => upsertItem scal q iv) scal)) := by
  intro items
  induction items with
  | nil =>
    intro scal
    refine ⟨fun p => by by_cases h : p = q <;> simp [h], fun h => h, fun k hk => Or.inl hk, fun h => h⟩
  | cons iv items ih =>
    intro scal
    obtain ⟨h1, h2, h3, h4⟩ := ih (upsertItem scal q iv)
    simp only [List.foldl_cons]
    refine ⟨?_, ?_, ?_, ?_⟩
    · intro p
      rw [h1 p]
      by_cases hp : p = q
      · subst hp; simp [itemsOfD_upsert]
      · simp [hp, itemsOfD_upsert]
    · intro hnd
      apply h2
      rw [keys_upsert]
      split
      · exact hnd
      · rename_i hq
        rw [List.nodup_append]
        refine ⟨hnd, by simp, ?_⟩
        intro a ha b hb
        simp only [List.mem_singleton] at hb
        subst hb
        exact fun e => hq (e ▸ ha)
    · intro k hk
      rcases h3 k hk with h | h
      · rw [keys_upsert] at h
        split at h
        · exact Or.inl h
        · rcases List.mem_append.mp h with h | h
          · exact Or.inl h
          · right; simpa using h
      · exact Or.inr h
    · intro hs
      exact h4 (allScal_dictSet hs q _)

/-! ## objects, buffers -/

/-- the state of a dictionary, as far as the proofs need it -/
structure DictInv (d : List ActiveObj) (scal : RawChunk) : Prop where
  nodup : (scal.map (·.1)).Nodup
  keys : ∀ k ∈ scal.map (·.1), k ∈ d.map (·.path)
  allScal : AllScal scal

theorem bufPass_spec (e : Endian) (b : Nat) (rows : List Bytes) :
    ∀ (d0 d : List ActiveObj) (scal : RawChunk), (d.map (·.path)).Nodup → (∀ x ∈ d, x ∈ d0) → DictInv d0 scal →
    DictInv d0 (bufPass e b rows d scal) ∧
    (∀ x ∈ d, itemsOfD (bufPass e b rows d scal) x.path = (classItems e x b rows).foldl roa (itemsOfD scal x.path)) ∧
    (∀ p, p ∉ d.map (·.path) → itemsOfD (bufPass e b rows d scal) p = itemsOfD scal p) := by
  intro d0 d
  induction d with
  | nil =>
    intro scal _ _ hinv
    refine ⟨hinv, ?_, fun _ _ => rfl⟩
    intro x hx
    cases hx
  | cons y ys ih =>
    intro scal hnd hsub hinv
    rw [List.map_cons, List.nodup_cons] at hnd
    obtain ⟨f1, f2, f3, f4⟩ := fold_upsert y.path (classItems e y b rows) scal
    have hinv1 : DictInv d0 (objBuf e b rows scal y) := by
      refine ⟨f2 hinv.nodup, ?_, f4 hinv.allScal⟩
      intro k hk
      rcases f3 k hk with h | h
      · exact hinv.keys k h
      · rw [h]; exact List.mem_map.2 ⟨y, hsub y List.mem_cons_self, rfl⟩
    obtain ⟨g1, g2, g3⟩ := ih (objBuf e b rows scal y) hnd.2 (fun x hx => hsub x (List.mem_cons_of_mem _ hx)) hinv1
    refine ⟨g1, ?_, ?_⟩
    · intro x hx
      rcases List.mem_cons.1 hx with rfl | hx'
      · show itemsOfD (bufPass e b rows ys (objBuf e b rows scal x)) x.path = _
        rw [g3 x.path hnd.1]
        have := f1 x.path
        simp only [if_true] at this
        exact this
      · show itemsOfD (bufPass e b rows ys (objBuf e b rows scal y)) x.path = _
        rw [g2 x hx']
        have hne : x.path ≠ y.path := fun e' => hnd.1 (e' ▸ List.mem_map.2 ⟨x, hx', rfl⟩)
        have := f1 x.path
        simp only [hne, if_false] at this
        show List.foldl roa (itemsOfD (objBuf e b rows scal y) x.path) _ = _
        unfold objBuf
        rw [this]
    · intro p hp
      simp only [List.map_cons, List.mem_cons, not_or] at hp
      show itemsOfD (bufPass e b rows ys (objBuf e b rows scal y)) p = _
      rw [g3 p hp.2]
      have := f1 p
      simp only [hp.1, if_false] at this
      exact this

/-- the items of `x`, buffer by buffer, from buffer `b` on -/
def accItems (e : Endian) (x : ActiveObj) : Nat → List (List Bytes) → ScalDict
  | _, [] => []
  | b, rows :: rest => classItems e x b rows ++ accItems e x (b + 1) rest

theorem bmChunk_spec (e : Endian) (d : List ActiveObj) (hnd : (d.map (·.path)).Nodup) :
    ∀ (bufs : List (List Bytes)) (b : Nat) (scal : RawChunk), DictInv d scal →
    DictInv d (bmChunk e d b bufs scal) ∧
    (∀ x ∈ d, itemsOfD (bmChunk e d b bufs scal) x.path = (accItems e x b bufs).foldl roa (itemsOfD scal x.path)) := by
  intro bufs
  induction bufs with
  | nil => intro b scal hinv; exact ⟨hinv, fun _ _ => rfl⟩
  | cons rows rest ih =>
    intro b scal hinv
    obtain ⟨h1, h2, _⟩ := bufPass_spec e b rows d d scal hnd (fun _ h => h) hinv
    obtain ⟨g1, g2⟩ := ih (b + 1) _ h1
    refine ⟨g1, ?_⟩
    intro x hx
    show itemsOfD (bmChunk e d (b + 1) rest (bufPass e b rows d scal)) x.path = _
    rw [g2 x hx, h2 x hx, accItems, List.foldl_append]

/-! ## replace-or-append with fresh ids is append -/

theorem roa_fresh (cur : ScalDict) (iv : Nat × List Bytes) (h : iv.1 ∉ cur.map (·.1)) : roa cur iv = cur ++ [iv] := by
  unfold roa
  have : ¬ cur.any (fun x => decide (x.1 = iv.1)) = true := by
    intro hc
    obtain ⟨x, hx, hxi⟩ := List.any_eq_true.mp hc
    exact h (List.mem_map.2 ⟨x, hx, by simpa using hxi⟩)
  rw [if_neg this]

theorem roa_fold_fresh : ∀ (items cur : ScalDict), (items.map (·.1)).Nodup →
    (∀ iv ∈ items, iv.1 ∉ cur.map (·.1)) → items.foldl roa cur = cur ++ items := by
  intro items
  induction items with
  | nil => intro cur _ _; simp
  | cons iv items ih =>
    intro cur hnd h
    rw [List.map_cons, List.nodup_cons] at hnd
    rw [List.foldl_cons, roa_fresh cur iv (h iv List.mem_cons_self), ih _ hnd.2 (by
      intro x hx
      rw [List.map_append, List.mem_append, not_or]
      refine ⟨h x (List.mem_cons_of_mem _ hx), ?_⟩
      simp only [List.map_cons, List.map_nil, List.mem_singleton]
      exact fun e => hnd.1 (List.mem_map.2 ⟨x, hx, e⟩))]
    simp

/-! ## the items of an object, buffer-major against object-major -/

theorem mem_accItems (e : Endian) (x : ActiveObj) : ∀ (bufs : List (List Bytes)) (b : Nat) (iv : Nat × List Bytes),
    iv ∈ accItems e x b bufs ↔
      ∃ s ∈ daqScalers x, b ≤ s.buffer ∧ s.buffer < b + bufs.length ∧
        iv = (s.scaleId, (bufs.getD (s.buffer - b) []).map (scalerValue e (dgOf x) s)) := by
  intro bufs
  induction bufs with
  | nil =>
    intro b iv
    simp only [accItems, List.not_mem_nil, List.length_nil, Nat.add_zero, false_iff]
    rintro ⟨s, _, h1, h2, _⟩
    omega
  | cons rows rest ih =>
    intro b iv
    rw [accItems, List.mem_append, ih]
    constructor
    · rintro (h | ⟨s, hs, h1, h2, h3⟩)
      · simp only [classItems, List.mem_map, List.mem_filter, decide_eq_true_eq] at h
        obtain ⟨s, ⟨hs, hsb⟩, rfl⟩ := h
        exact ⟨s, hs, by omega, by simp; omega, by simp [hsb]⟩
      · refine ⟨s, hs, by omega, by simp; omega, ?_⟩
        rw [h3]
        have : s.buffer - b = (s.buffer - (b + 1)) + 1 := by omega
        rw [this]
        rfl
    · rintro ⟨s, hs, h1, h2, h3⟩
      by_cases hb : s.buffer = b
      · left
        simp only [classItems, List.mem_map, List.mem_filter, decide_eq_true_eq]
        refine ⟨s, ⟨hs, hb⟩, ?_⟩
        rw [h3, hb]
        simp
      · right
        refine ⟨s, hs, by omega, by simp at h2; omega, ?_⟩
        rw [h3]
        have : s.buffer - b = (s.buffer - (b + 1)) + 1 := by omega
        rw [this]
        rfl

theorem accItems_ids_nodup (e : Endian) (x : ActiveObj) (hnd : ((daqScalers x).map (·.scaleId)).Nodup) :
    ∀ (bufs : List (List Bytes)) (b : Nat), ((accItems e x b bufs).map (·.1)).Nodup := by
  intro bufs
  induction bufs with
  | nil => intro b; simp [accItems]
  | cons rows rest ih =>
    intro b
    rw [accItems, List.map_append, List.nodup_append]
    refine ⟨?_, ih (b + 1), ?_⟩
    · have : (classItems e x b rows).map (·.1) = ((daqScalers x).filter (·.buffer = b)).map (·.scaleId) := by
        simp [classItems, List.map_map, Function.comp_def]
      rw [this]
      exact hnd.sublist (List.Sublist.map _ List.filter_sublist)
    · intro i hi j hj hij
      obtain ⟨iv, hiv, rfl⟩ := List.mem_map.mp hi
      obtain ⟨jv, hjv, rfl⟩ := List.mem_map.mp hj
      simp only [classItems, List.mem_map, List.mem_filter, decide_eq_true_eq] at hiv
      obtain ⟨s, ⟨hs, hsb⟩, rfl⟩ := hiv
      obtain ⟨s', hs', h1, _, rfl⟩ := (mem_accItems e x rest (b + 1) jv).mp hjv
      simp only [] at hij
      -- two scalers of `x` with the same id are the same scaler
      have : s = s' := by
        have hinj : ∀ (l : List ScalerEnc), (l.map (·.scaleId)).Nodup → ∀ a ∈ l, ∀ c ∈ l, a.scaleId = c.scaleId → a = c := by
          intro l
          induction l with
          | nil => intro _ a ha; cases ha
          | cons z zs ihz =>
            intro hn a ha c hc hac
            rw [List.map_cons, List.nodup_cons] at hn
            rcases List.mem_cons.1 ha with rfl | ha'
            · rcases List.mem_cons.1 hc with rfl | hc'
              · rfl
              · exact absurd (List.mem_map.2 ⟨c, hc', hac.symm⟩) hn.1
            · rcases List.mem_cons.1 hc with rfl | hc'
              · exact absurd (List.mem_map.2 ⟨a, ha', hac⟩) hn.1
              · exact ihz hn.2 a ha' c hc' hac
        exact hinj _ hnd s hs s' hs' hij
      subst this
      omega

theorem colN_eq_lookupV {l : ScalDict} (hnd : (l.map (·.1)).Nodup) (id : Nat) : colN l id = lookupV l id := by
  induction l with
  | nil => rfl
  | cons x xs ih =>
    rw [List.map_cons, List.nodup_cons] at hnd
    rw [colN_cons]
    by_cases h : x.1 = id
    · have hrest : colN xs id = [] := by
        unfold colN
        have : xs.filter (fun y => decide (y.1 = id)) = [] := by
          rw [List.filter_eq_nil_iff]
          intro y hy hyi
          exact hnd.1 (List.mem_map.2 ⟨y, hy, by rw [h]; simpa using hyi⟩)
        rw [this]; rfl
      simp [h, hrest, lookupV]
    · simp only [h, if_false, List.nil_append, ih hnd.2]
      simp [lookupV, h]

/-- two dictionaries with pairwise distinct ids and the same entries hold the same values per id -/
theorem colN_congr {l l' : ScalDict} (h1 : (l.map (·.1)).Nodup) (h2 : (l'.map (·.1)).Nodup)
    (hm : ∀ iv, iv ∈ l ↔ iv ∈ l') (id : Nat) : colN l id = colN l' id := by
  rw [colN_eq_lookupV h1, colN_eq_lookupV h2]
  cases hf : l.find? (·.1 = id) with
  | none =>
    have hf' : l'.find? (·.1 = id) = none := by
      rw [List.find?_eq_none] at hf ⊢
      intro y hy
      exact hf y ((hm y).mpr hy)
    simp [lookupV, hf, hf']
  | some y =>
    have hy := List.mem_of_find?_eq_some hf
    have hyi : y.1 = id := by simpa using List.find?_some hf
    have e1 := lookupV_of_mem h1 hy
    have e2 := lookupV_of_mem h2 ((hm y).mp hy)
    rw [hyi] at e1 e2
    rw [e1, e2]

end Tdms.Proofs.C01Layouts
