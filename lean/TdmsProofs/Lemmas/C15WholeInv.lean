/-
  C15 for whole files: re-encoding twice is re-encoding once (`withEndian g (withEndian f e) = withEndian g e`);
  in particular the re-encoding of the DAQmx rows is an involution.  Core Lean only.
-/
import TdmsProofs.Lemmas.C15WholeClass

namespace Tdms.Proofs.C15Whole

open Tdms Tdms.Generated Tdms.Model Tdms.Proofs.C01Layouts Tdms.Proofs.C01Multi Tdms.Proofs.C02 Tdms.Proofs.Bytes

theorem getD_swapRow (fields : List (Nat × Nat)) (row : Bytes) {j : Nat} (h : j < row.length) :
    (swapRow fields row).getD j 0 = swapByte fields row j := by
  rw [List.getD_eq_getElem?_getD, List.getElem?_eq_getElem (by simpa using h)]
  simp [swapRow]

/-- **mirroring the fields twice gives the row back** (fields pairwise identical or disjoint, all inside the row) -/
theorem swapRow_swapRow {fields : List (Nat × Nat)} (hc : ∀ g ∈ fields, ∀ h ∈ fields, compat h g) (row : Bytes)
    (hin : ∀ g ∈ fields, g.1 + g.2 ≤ row.length) : swapRow fields (swapRow fields row) = row := by
  apply List.ext_getElem
  · simp
  · intro i h1 h2
    simp only [swapRow, List.getElem_map, List.getElem_range]
    show swapByte fields (swapRow fields row) i = row[i]
    unfold swapByte
    cases hf : fields.find? (covers · i) with
    | none =>
      simp only
      rw [getD_swapRow fields row h2]
      unfold swapByte
      rw [hf]
      simp [List.getD_eq_getElem?_getD, List.getElem?_eq_getElem h2]
    | some g =>
      have hm := List.mem_of_find?_eq_some hf
      have hp := List.find?_some hf
      simp only [covers, Bool.and_eq_true, decide_eq_true_eq] at hp
      have hgin := hin g hm
      simp only
      rw [getD_swapRow fields row (by omega)]
      unfold swapByte
      rw [find_covers hm (hc g hm) (by omega) (by omega)]
      simp only
      rw [List.getD_eq_getElem?_getD, List.getElem?_eq_getElem (by omega)]
      simp only [Option.getD_some]
      congr 1
      omega

/-- every field of every buffer lies inside every row of the buffer -/
theorem fields_in_row {d : List ActiveObj} {bufs : List (List Bytes)} (hr : RowsOK d bufs) (b : Nat) :
    ∀ row ∈ bufs.getD b [], ∀ g ∈ bufFields d b, g.1 + g.2 ≤ row.length := by
  intro row hrow g hg
  obtain ⟨x, hx, hg⟩ := List.mem_flatMap.mp hg
  obtain ⟨s, hs, rfl⟩ := List.mem_map.mp hg
  obtain ⟨hs, hsb⟩ := List.mem_filter.mp hs
  have hsb : s.buffer = b := by simpa using hsb
  obtain ⟨t, sz, ht, hsz, hrows⟩ := hr x hx s hs
  rw [scField_eq ht hsz]
  exact hrows row (by rw [hsb]; exact hrow)

theorem compat_all_bufFields {d : List ActiveObj} (hc : FieldsCompatD d) (b : Nat) :
    ∀ g ∈ bufFields d b, ∀ h ∈ bufFields d b, compat h g := by
  intro g hg h hh
  obtain ⟨x, hx, hg⟩ := List.mem_flatMap.mp hg
  obtain ⟨s, hs, rfl⟩ := List.mem_map.mp hg
  obtain ⟨hs', hsb⟩ := List.mem_filter.mp hs
  have hsb' : s.buffer = b := by simpa using hsb
  subst hsb'
  exact compat_bufFields hc hx hs' h hh

theorem reencChunk_reencChunk {d : List ActiveObj} {bufs : List (List Bytes)} (hr : RowsOK d bufs)
    (hc : FieldsCompatD d) : reencChunk d (reencChunk d bufs) = bufs := by
  apply List.ext_getElem?
  intro b
  simp only [reencChunk, List.getElem?_mapIdx]
  cases hb : bufs[b]? with
  | none => rfl
  | some rows =>
    simp only [Option.map_some, List.map_map, Option.some.injEq]
    have hrows : bufs.getD b [] = rows := by rw [List.getD_eq_getElem?_getD, hb]; rfl
    have : ∀ row ∈ rows, (swapRow (bufFields d b) ∘ swapRow (bufFields d b)) row = id row := by
      intro row hrow
      exact swapRow_swapRow (compat_all_bufFields hc b) row (fields_in_row hr b row (by rw [hrows]; exact hrow))
    rw [List.map_congr_left this, List.map_id]

theorem bool_third {a b c : Bool} (h1 : b ≠ a) (h2 : c ≠ b) : c = a := by
  cases a <;> cases b <;> cases c <;> simp_all

theorem weSeg_weSeg (b c : Bool) (s : SegEnc) (a : List ActiveObj) (h : SegDen s a) :
    weSeg c (weSeg b s a) a = weSeg c s a := by
  by_cases hb : b = s.big
  · rw [hb, weSeg_self]
  · by_cases hcb : c = b
    · have : c = (weSeg b s a).big := by rw [weSeg_big]; exact hcb
      rw [this, weSeg_self, weSeg_big]
    · have hcs : c = s.big := bool_third hb hcb
      rw [hcs, weSeg_self]
      by_cases hq : (dataObjs a).any isDaqmxObj = true
      · obtain ⟨hrows, hcomp⟩ := h hq
        have hch : (s.chunks.map (reencChunk (dataObjs a))).map (reencChunk (dataObjs a)) = s.chunks := by
          rw [List.map_map]
          have : ∀ ch ∈ s.chunks, (reencChunk (dataObjs a) ∘ reencChunk (dataObjs a)) ch = id ch :=
            fun ch hch => reencChunk_reencChunk (hrows ch hch) hcomp
          rw [List.map_congr_left this, List.map_id]
        have hne : ¬ s.big = b := fun h => hb h.symm
        simp only [weSeg, hb, hq, if_true, if_false, hne, hch]
      · have hq' : (dataObjs a).any isDaqmxObj = false := by simpa using hq
        have hne : ¬ s.big = b := fun h => hb h.symm
        simp only [weSeg, hb, hq', if_false, hne, Bool.false_eq_true]

theorem weSegs_weSegs (f g : Nat → Bool) : ∀ (ss : List SegEnc) (as : List (List ActiveObj)) (i : Nat),
    (∀ sa ∈ ss.zip as, SegDen sa.1 sa.2) → weSegs g i (weSegs f i ss as) as = weSegs g i ss as := by
  intro ss
  induction ss with
  | nil => intro as i _; cases as <;> rfl
  | cons s ss ih =>
    intro as i hd
    cases as with
    | nil => rfl
    | cons a as =>
      simp only [weSegs, weSeg_weSeg (f i) (g i) s a (hd (s, a) (by simp)),
        ih as (i + 1) (fun sa hsa => hd sa (by simp [hsa]))]

/-- **re-encoding is an action of the byte-order assignments**: re-encoding a re-encoded file is re-encoding the
    file -/
theorem withEndian_withEndian' {e : FileEnc} (hwf : wellFormed e = true) (hc : FieldsCompat e) (f g : Nat → Bool) :
    withEndian g (withEndian f e) = withEndian g e := by
  obtain ⟨acts, ha, hw⟩ := wellFormed_acts hwf
  have ha' : activeLists none [] (withEndian f e) = .ok acts := by rw [activeLists_withEndian, ha]
  rw [withEndian_eq ha', withEndian_eq ha, withEndian_eq ha]
  exact weSegs_weSegs f g e acts 0 (segDen_of_wfSegs e acts hw (actsWfDesc ha hw) (hc acts ha))

end Tdms.Proofs.C15Whole
