/-
  C03 — the invariants `SegsOk` / `ChanOk` hold for the reader state `readMetadata` produces on
  the encoding of a single standard segment (the class of `read_metadata_single`).  Core Lean only.
-/
import TdmsProofs.Lemmas.C03Main
import TdmsProofs.Lemmas.C01ComposeMain
import TdmsProofs.Lemmas.C01ComposeData

namespace Tdms.Proofs.C03

open Tdms Tdms.Generated Tdms.Model Tdms.Proofs.Bytes Tdms.Proofs.C04 Tdms.Proofs.C01Compose

/-- the reader's `data_size` of every object is the size of its encoded values -/
def sizesOK (e : Endian) : List SegObj → List ActiveObj → List (List Bytes) → Prop
  | [], [], [] => True
  | o :: os, a :: as, v :: vs => o.dataSize = (encObjValues e (aTy a) v).length ∧ sizesOK e os as vs
  | _, _, _ => False

/-- an encoded contiguous chunk is exact -/
theorem exactChunk_enc (file : Bytes) (s : Segment) (ci : Nat) (hov : s.override = none) (objs : List SegObj) :
    ∀ (aobjs : List ActiveObj) (vals : List (List Bytes)) (pos : Nat) (rest : Bytes),
      contOK objs aobjs vals → sizesOK s.endian objs aobjs vals →
      file.drop pos = encChunkContiguous s.endian aobjs vals ++ rest →
      exactChunk file s ci objs pos = some (vals, pos + (encChunkContiguous s.endian aobjs vals).length) := by
  induction objs with
  | nil =>
    intro aobjs vals pos rest h _ _
    cases aobjs <;> cases vals <;> simp [contOK] at h
    simp [exactChunk, encChunkContiguous]
  | cons o os ih =>
    intro aobjs vals pos rest h hsz hfile
    cases aobjs with
    | nil => cases vals <;> simp [contOK] at h
    | cons a as =>
      cases vals with
      | nil => simp [contOK] at h
      | cons v vs =>
        obtain ⟨⟨hty, hnv, hkind⟩, hrest⟩ := h
        obtain ⟨hds, hszrest⟩ := hsz
        rw [encChunkContiguous_cons, List.append_assoc] at hfile
        have hd := drop_add_of_drop_eq hfile
        have hcn : channelNumberValues s o ci = v.length := by simp [channelNumberValues, hov, hnv]
        have hstep : ∃ tr1, readValues file s.endian o v.length ⟨pos, []⟩ =
            .ok (v, ⟨pos + (encObjValues s.endian (aTy a) v).length, tr1⟩) := by
          rcases hkind with ⟨sz, hsz, hall⟩ | ⟨hstr, hlen⟩
          · have hl := encObjValues_fixed_length s.endian hsz v hall
            have ht : (file.drop pos).take (v.length * sz) = encObjValues s.endian (aTy a) v := by
              rw [hfile, List.take_left' hl]
            exact ⟨_, by rw [hl]; exact readValues_fixed file s.endian o v pos [] hty hsz hall ht⟩
          · rw [hstr] at hty hfile ⊢
            exact readValues_string file s.endian o v pos [] _ hty hlen hfile
        obtain ⟨tr1, hstep⟩ := hstep
        have hval : valuesAt file s o ci pos = .ok (v, pos + o.dataSize) := by
          unfold valuesAt
          rw [hcn, hds]
          exact (posDet_readValues file s.endian o v.length).runAt_of_run hstep
        have hskip : skipSize s o ci = some o.dataSize := by
          unfold skipSize; rw [hcn, hnv]; simp
        unfold exactChunk
        rw [hskip, hval]
        simp only [hcn, and_self, if_true]
        rw [hds] at *
        rw [ih as vs _ rest hrest hszrest hd]
        simp [encChunkContiguous_cons, Nat.add_assoc]

theorem sizesOK_std (e : Endian) (ds : List ObjEnc) :
    ∀ (chunk : List (List Bytes)), (∀ d ∈ ds, wfObj d = true) →
      wfStdChunk (ds.map actOf) chunk = true →
      sizesOK e (ds.map segObjOf) (ds.map actOf) chunk := by
  induction ds with
  | nil => intro chunk _ hch; cases chunk <;> simp [wfStdChunk, sizesOK] at hch ⊢
  | cons d ds ih =>
    intro chunk hwf hch
    cases chunk with
    | nil => simp [wfStdChunk] at hch
    | cons v vs =>
      have hd := hwf d List.mem_cons_self
      obtain ⟨p, idx, ps⟩ := d
      cases idx with
      | noData => simp [wfStdChunk, actOf] at hch
      | matchesPrev => simp [wfStdChunk, actOf] at hch
      | daqmx dg ty n sc w => simp [wfStdChunk, actOf] at hch
      | full ty n total =>
        simp only [List.map_cons, actOf, wfStdChunk, Bool.and_eq_true, decide_eq_true_eq] at hch
        obtain ⟨⟨hn, hshape⟩, hrest⟩ := hch
        have ih := ih vs (fun q hq => hwf q (List.mem_cons_of_mem _ hq)) hrest
        refine ⟨?_, ih⟩
        simp only [actOf, aTy, Option.map_some, Option.getD_some, IdxDesc.ty]
        by_cases hs : ty = tyString
        · subst hs
          simp only [if_true, decide_eq_true_eq] at hshape
          rw [encObjValues_string_length, ← sum_map_length_eq_flatten, hn, hshape]
          simp [segObjOf, segObjOfIdx, stdIndexObj]
        · simp only [hs, if_false, List.all_eq_true, decide_eq_true_eq] at hshape
          simp only [wfObj, wfIdx, Bool.and_eq_true, Bool.or_eq_true, decide_eq_true_eq, hs,
            false_or] at hd
          obtain ⟨sz, hsz⟩ := Option.isSome_iff_exists.mp hd.1.1.1
          rw [encObjValues_fixed_length e hsz v (fun x hx => by
            have := hshape x hx; rw [hsz] at this; exact Option.some.inj this), hn]
          simp [segObjOf, segObjOfIdx, stdIndexObj, hs, hsz]

/-- a well-formed segment with chunks carries the raw-data flag -/
theorem chunks_nil_of_no_rawFlag (s : SegEnc) (hwf : wellFormed [s] = true) (hr : s.rawFlag = false) :
    s.chunks = [] := by
  unfold wellFormed at hwf
  cases hacts : activeLists none [] [s] with
  | error r => simp [hacts] at hwf
  | ok acts =>
    simp only [hacts] at hwf
    cases acts with
    | nil => simp [wfSegs] at hwf
    | cons a as =>
      cases as with
      | cons b bs => simp [wfSegs] at hwf
      | nil =>
        simp only [wfSegs, Bool.and_true, wfSeg, Bool.and_eq_true] at hwf
        have := hwf.1.1.2
        simp only [hr, decide_eq_true_eq] at this
        cases hc : s.chunks with
        | nil => rfl
        | cons c cs => rw [hc] at this; simp at this

theorem drop_flatMap_const {α : Type} (l : List α) (f : α → Bytes) (c : Nat) (h : ∀ x ∈ l, (f x).length = c)
    (i : Nat) (hi : i < l.length) :
    (l.flatMap f).drop (i * c) = f l[i] ++ (l.drop (i + 1)).flatMap f := by
  induction l generalizing i with
  | nil => cases hi
  | cons x xs ih =>
    cases i with
    | zero => simp
    | succ i =>
      rw [List.flatMap_cons, Nat.succ_mul, Nat.add_comm, ← List.drop_drop]
      have hx := h x List.mem_cons_self
      rw [← hx, List.drop_left, hx]
      simpa using ih (fun y hy => h y (List.mem_cons_of_mem _ hy)) i (by simpa using hi)

/-- **`SegOk` for the segment the reader builds from the encoding of a single standard segment** -/
theorem segOk_single (s : SegEnc) (h : SingleStd s) (fit : SegFits s) :
    SegOk (encodeSeg s (s.objs.map actOf)) (segOf s (encodeSeg s (s.objs.map actOf)).length) := by
  have w := h.wfSingle
  have hi := h.contiguous
  generalize hfile : encodeSeg s (s.objs.map actOf) = file
  have hfile' : file = encLeadIn tagData s (segMeta s).length (encRaw s (s.objs.map actOf)).length ++
      (segMeta s ++ encRaw s (s.objs.map actOf)) := by
    rw [← hfile]; simp [encodeSeg]
  have hobjs : (segOf s file.length).objects = s.objs.map segObjOf := rfl
  have hd : dataObjs (segOf s file.length) = (dataOs s.objs).map segObjOf :=
    filter_hasData_map_segObjOf s.objs h.stdObjs
  have hcs : chunkSize (segOf s file.length).objects = .ok (chunkBytes s.objs) := chunkSize_std' s.objs h.stdObjs
  have hcsz : segCsz (segOf s file.length) = chunkBytes s.objs := by unfold segCsz; rw [hcs]
  have hend : (segOf s file.length).endian = s.endian := segEndian_of_tocMask s
  refine ⟨?_, ?_, ?_, ?_, ?_, ?_⟩
  · show (file.drop 0).take 4 = tagData
    rw [hfile']; simp [encLeadIn, tagData]
  · rw [hobjs, List.map_map]
    have : ((fun x : SegObj => x.path) ∘ segObjOf) = fun o : ObjEnc => o.path := by
      funext o; exact segObjOf_path o
    rw [this]
    exact w.nodup
  · intro hr
    have : hasFlag (segOf s file.length).toc kTocRawData = s.rawFlag := hasFlag_tocMask_raw s
    rw [this] at hr
    show s.chunks.length = 0
    rw [chunks_nil_of_no_rawFlag s h.wf hr]; rfl
  · exact dataReaderKind_std _ s.objs h.stdObjs rfl (by
      show hasFlag (tocMask s) kTocInterleavedData = false
      rw [hasFlag_tocMask_interleaved, hi])
  · rw [hcsz]; exact hcs
  · intro ci hci
    have hci' : ci < s.chunks.length := hci
    have hlenc : ∀ c ∈ s.chunks, (encChunkContiguous s.endian ((dataOs s.objs).map actOf) c).length = chunkBytes s.objs :=
      fun c hc => encChunkContiguous_length s.endian (dataOs s.objs) c
        (fun d hd => w.objs d (dataOs_sub hd).1) (w.chunks c hc)
    have hdrop : file.drop ((segOf s file.length).dataPosition + ci * segCsz (segOf s file.length)) =
        encChunkContiguous s.endian ((dataOs s.objs).map actOf) s.chunks[ci] ++
          (s.chunks.drop (ci + 1)).flatMap (encChunkContiguous s.endian ((dataOs s.objs).map actOf)) := by
      rw [hcsz]
      show file.drop (28 + (segMeta s).length + ci * chunkBytes s.objs) = _
      rw [← List.drop_drop, hfile', ← List.append_assoc, List.drop_left' (by simp [encLeadIn, tagData]; omega),
        encRaw_std s hi]
      exact drop_flatMap_const _ _ _ hlenc ci hci'
    have hmem : s.chunks[ci] ∈ s.chunks := List.getElem_mem hci'
    have := exactChunk_enc file (segOf s file.length) ci rfl ((dataOs s.objs).map segObjOf)
      ((dataOs s.objs).map actOf) s.chunks[ci] _ _
      (contOK_std (dataOs s.objs) _ (fun d hd => w.objs d (dataOs_sub hd).1)
        (fun d hd => fit.strData d (dataOs_sub hd).1) (w.chunks _ hmem))
      (by rw [hend]; exact sizesOK_std s.endian (dataOs s.objs) _ (fun d hd => w.objs d (dataOs_sub hd).1) (w.chunks _ hmem))
      (by rw [hend]; exact hdrop)
    rw [hd, this]
    rfl

theorem find?_map_metaOf (k : Nat) (os : List ObjEnc) (p : Bytes) (m : ObjMeta)
    (h : ObjMetas.get (os.map (metaOf k)) p = some m) : ∃ o ∈ os, o.path = p ∧ m = metaOf k o := by
  unfold ObjMetas.get at h
  have hm := List.mem_of_find?_eq_some h
  have hp := List.find?_some h
  obtain ⟨o, ho, rfl⟩ := List.mem_map.mp hm
  exact ⟨o, ho, by have : (metaOf k o).path = p := by simpa using hp
                   exact this, rfl⟩

/-- **`ChanOk` for every object of the reader state of a single standard segment** -/
theorem chanOk_single (s : SegEnc) (h : SingleStd s) (len : Nat) (prev : PrevObjs) (p : Bytes) (m : ObjMeta)
    (hm : (stateOf s len prev).objects.get p = some m) :
    ChanOk (stateOf s len prev).objects (stateOf s len prev).segments p m := by
  have w := h.wfSingle
  refine ⟨hm, ?_, ?_⟩
  · intro l hl
    simp only [stateOf, List.map_cons, List.map_nil, List.mem_singleton] at hl
    subst hl
    simp [SegL.WF, layoutOf, segOf]
  · obtain ⟨o, ho, hop, rfl⟩ := find?_map_metaOf _ _ _ _ hm
    obtain ⟨i, hi, hio⟩ := List.getElem_of_mem ho
    have hnd : ((s.objs.map segObjOf).map (·.path)).Nodup := by
      rw [List.map_map]
      have : ((fun x : SegObj => x.path) ∘ segObjOf) = fun o : ObjEnc => o.path := by
        funext o; exact segObjOf_path o
      rw [this]; exact w.nodup
    have hex : existingIndex (s.objs.map segObjOf) p = some i :=
      (Tdms.Proofs.C02.existingIndex_unique hnd).mpr (by
        simp [List.getElem?_eq_getElem hi, hio, segObjOf_path, hop])
    have hget : getSegmentObject (segOf s len) p = some (segObjOf o) := by
      unfold getSegmentObject
      show (existingIndex (s.objs.map segObjOf) p).bind _ = _
      rw [hex]
      simp [segOf, List.getElem?_eq_getElem hi, hio]
    have hstd := h.stdObjs o ho
    simp only [stateOf, List.map_cons, List.map_nil, total, List.sum_cons, List.sum_nil, Nat.add_zero]
    unfold SegL.nvals layoutOf
    simp only [hget, segObjOf_hasData o hstd, segObjOf_numberValues o hstd]
    show nvals o * s.chunks.length = _
    have hov : (segOf s len).override = none := rfl
    have hk : (segOf s len).numChunks = s.chunks.length := rfl
    rw [hov, hk]
    simp only [Option.map_none]
    by_cases hf : isFull o = true
    · simp only [hf, if_true]
      split
      · rename_i h0; rw [h0]; simp
      · rfl
    · have hf' : isFull o = false := by simpa using hf
      have hn0 : nvals o = 0 := by
        obtain ⟨q, idx, ps⟩ := o
        cases idx <;> simp_all [isFull, nvals]
      simp [hf', hn0]

/-- **the invariants hold for `readMetadata` on the encoding of a single standard segment** -/
theorem invariants_single (s : SegEnc) (h : SingleStd s) (fit : SegFits s) (bytes : Bytes)
    (hb : encodeFile [s] = .ok bytes) (hlen : bytes.length < 2 ^ 63) :
    ∃ st, readMetadata bytes = .ok st ∧ SegsOk bytes st.segments ∧
      ∀ p m, st.objects.get p = some m → ChanOk st.objects st.segments p m := by
  have w := h.wfSingle
  rw [encodeFile_single s w] at hb
  cases hb
  obtain ⟨prev, hr⟩ := readMetadata_single s h.hasMeta h.contiguous h.lengthKnown h.stdObjs w fit hlen
  refine ⟨_, hr, ?_, fun p m hm => chanOk_single s h _ prev p m hm⟩
  intro sg hsg
  simp only [stateOf, List.mem_singleton] at hsg
  subst hsg
  exact segOk_single s h fit

end Tdms.Proofs.C03
