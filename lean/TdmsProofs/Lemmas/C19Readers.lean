import TdmsProofs.Lemmas.C19Trace

/-! # C19: byte budgets of the sequential readers -/

namespace Tdms.Proofs.C19

open Tdms Tdms.Model Tdms.Generated Tdms.Proofs.C05

theorem span_readValues_sized (file : Bytes) (e : Endian) (o : SegObj) (n sz : Nat)
    (h : o.dataType.bind typeSize = some sz) : Span (n * sz) (readValues file e o n) := by
  unfold readValues
  cases hty : o.dataType with
  | none => rw [hty] at h; cases h
  | some ty =>
    rw [hty] at h
    dsimp only
    have h : (typeInfo ty).bind (·.size) = some sz := h
    cases hti : typeInfo ty with
    | none => rw [hti] at h; cases h
    | some ti =>
      rw [hti] at h
      have h : ti.size = some sz := h
      dsimp only
      rw [h]
      dsimp only
      refine Span.bind (Span.fRead file (n * sz)) (b := 0) (fun b => ?_) (by omega)
      refine Span.ite ?_ (Span.pure _ 0)
      rw [throw_bind_F]
      exact Span.throw _ 0

theorem span_readRows (file : Bytes) (w n : Nat) : Span (w * n) (readRows file w n) := by
  unfold readRows
  refine Span.bind (Span.fRead file (w * n)) (b := 0) (fun b => ?_) (by omega)
  dsimp only
  refine Span.ite ?_ (Span.pure _ 0)
  rw [throw_bind_F]
  exact Span.throw _ 0

/-- `sum(o.data_type.size for o in d)` -/
def interleavedWidth (d : List SegObj) : Nat := (d.map fun o => (o.dataType.bind typeSize).getD 0).sum

theorem objSize_ok {o : SegObj} {sz : Nat} (h : objSize o = .ok sz) : (o.dataType.bind typeSize).getD 0 = sz := by
  unfold objSize at h
  cases hty : o.dataType with
  | none => rw [hty] at h; cases h
  | some ty =>
    rw [hty] at h
    dsimp only at h
    cases hs : typeSize ty with
    | none => rw [hs] at h; cases h
    | some s =>
      rw [hs] at h
      injection h with h
      simp [hs, h]

theorem foldl_width (d : List SegObj) (acc : Except Err Nat) (a w : Nat) (hacc : acc = .ok a)
    (h : d.foldl (fun acc o => do let a ← acc; let s ← objSize o; pure (a + s)) acc = .ok w) :
    w = a + interleavedWidth d := by
  induction d generalizing acc a with
  | nil =>
    simp only [List.foldl_nil] at h
    rw [hacc] at h
    injection h with h
    simp [interleavedWidth, h]
  | cons o os ih =>
    simp only [List.foldl_cons] at h
    subst hacc
    cases ho : objSize o with
    | error e =>
      rw [ho] at h
      have herr : ∀ (l : List SegObj) (x : Err), l.foldl (fun acc o => do let a ← acc; let s ← objSize o; pure (a + s))
          (.error x) = .error x := by
        intro l x
        induction l with
        | nil => rfl
        | cons _ _ ih' => simp only [List.foldl_cons]; exact ih'
      have : (do let a ← (Except.ok a : Except Err Nat); let s ← (Except.error e : Except Err Nat); pure (a + s)) = Except.error e := rfl
      rw [this, herr] at h
      cases h
    | ok s =>
      rw [ho] at h
      have := ih _ (a + s) rfl h
      rw [this]
      simp only [interleavedWidth, List.map_cons, List.sum_cons, objSize_ok ho]
      omega

theorem span_readInterleavedChunks (file : Bytes) (s : Segment) (d : List SegObj) (nc : Nat) :
    Span (interleavedWidth d * ((d.head?.map (·.numberValues)).getD 0 * nc)) (readInterleavedChunks file s d nc) := by
  unfold readInterleavedChunks
  cases d with
  | nil => exact Span.pure _ _
  | cons o0 tail =>
    dsimp only
    refine Span.ite ?_ ?_
    · rw [throw_bind_F]; exact Span.throw _ _
    · split
      · rename_i w hw
        have hw' := foldl_width _ _ 0 w rfl hw
        rw [Nat.zero_add] at hw'
        rw [pure_bind]
        refine Span.bind (b := 0) ((span_readRows file w (o0.numberValues * nc)).mono ?_) (fun rows => ?_) (Nat.le_refl _)
        · rw [hw']; simp
        · split
          · exact Span.pure _ 0
          · exact Span.throw _ 0
      · rw [throw_bind_F]; exact Span.throw _ _

/-- like `span_readInterleavedChunks`, and a successful read also certifies that all data objects have
    the same `number_values` -/
theorem tr_readInterleavedChunks (file : Bytes) (s : Segment) (d : List SegObj) (nc c : Nat) :
    Tr (fun c' => c' = c) (readInterleavedChunks file s d nc)
      (fun x => (d.any fun o => o.numberValues ≠ (d.head?.map (·.numberValues)).getD 0) = false ∧
        c ≤ x.1 ∧ x.1 + x.2 ≤ c + interleavedWidth d * ((d.head?.map (·.numberValues)).getD 0 * nc))
      (if (d.any fun o => o.numberValues ≠ (d.head?.map (·.numberValues)).getD 0) = true then 0
        else interleavedWidth d * ((d.head?.map (·.numberValues)).getD 0 * nc)) (fun _ _ => True) := by
  by_cases hany : (d.any fun o => o.numberValues ≠ (d.head?.map (·.numberValues)).getD 0) = true
  · have : readInterleavedChunks file s d nc = throw .interleavedLengths := by
      unfold readInterleavedChunks
      cases d with
      | nil => simp at hany
      | cons o0 tail =>
        dsimp only
        simp only [List.head?_cons, Option.map_some, Option.getD_some] at hany
        split
        · rw [throw_bind_F]
        · rename_i h; exact (h hany).elim
    rw [this]
    exact Tr.throw _
  · rw [if_neg hany]
    have hany : (d.any fun o => o.numberValues ≠ (d.head?.map (·.numberValues)).getD 0) = false := by
      cases h : (d.any fun o => o.numberValues ≠ (d.head?.map (·.numberValues)).getD 0) with
      | true => exact (hany h).elim
      | false => rfl
    exact (span_readInterleavedChunks file s d nc c).conseq (fun _ h => h) (fun x hx => ⟨hany, hx⟩)
      (Nat.le_refl _) (fun _ _ _ => trivial)

def dimsBytes (dims : List (Nat × Nat)) : Nat := (dims.map fun (n, w) => n * w).sum

theorem span_bufs (file : Bytes) (s : Segment) (d : List SegObj) (crop : Bytes → Option Nat)
    (b : Nat) (dims : List (Nat × Nat)) (data scal : RawChunk) :
    Span (dimsBytes dims) (readDaqmxChunk.bufs file s d crop b dims data scal) := by
  induction dims generalizing b data scal with
  | nil => unfold readDaqmxChunk.bufs; exact Span.pure _ _
  | cons x rest ih =>
    obtain ⟨n, w⟩ := x
    unfold readDaqmxChunk.bufs
    refine Span.bind (a := w * n) (b := dimsBytes rest) (span_readRows file w n) (fun rows => ?_) ?_
    · split
      · exact ih _ _ _
      · exact Span.throw _ _
    · simp only [dimsBytes, List.map_cons, List.sum_cons]
      rw [Nat.mul_comm]; omega

/-- the size of one DAQmx chunk: `sum(n * w for (n, w) in get_buffer_dimensions())` -/
def daqmxChunkBytes (d : List SegObj) : Nat :=
  match bufferDimensions d with
  | .ok dims => dimsBytes dims
  | .error _ => 0

theorem span_readDaqmxChunk (file : Bytes) (s : Segment) (d : List SegObj) (ci : Nat) :
    Span (daqmxChunkBytes d) (readDaqmxChunk file s d ci) := by
  unfold readDaqmxChunk daqmxChunkBytes
  dsimp only
  cases hd : bufferDimensions d with
  | ok dims =>
    dsimp only
    rw [pure_bind]
    refine Span.bind (b := 0) (span_bufs file s d _ 0 dims [] []) (fun x => ?_) (Nat.le_refl _)
    exact Span.pure _ 0
  | error e => dsimp only; rw [throw_bind_F]; exact Span.throw _ _

end Tdms.Proofs.C19
