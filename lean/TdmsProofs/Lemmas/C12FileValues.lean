/-
  C12 at file level, part 1: one timestamp VALUE — the 16 bytes the writer model builds for a microsecond datetime
  (`TimeStamp(value).bytes`), the reader's conversion of 16 bytes to `datetime64[us]` (scalar and array path), the
  range the writer accepts, and the round trip on the bytes.
-/
import TdmsProofs.Properties.C07
import TdmsProofs.Properties.C12
import TdmsProofs.Lemmas.C10PropLemmas

namespace Tdms.Proofs.C12File

open Tdms Tdms.Generated Tdms.Model Tdms.Model.Writer Tdms.Model.Timestamp

/-! ## definitions -/

/-- the 16 bytes `TimeStamp(value).bytes` for a datetime at microsecond resolution (`us` = microseconds since the Unix
    epoch): the value bytes of a datetime property, and one element of datetime channel data -/
def tsBytes (us : Int) : Bytes := (toTdmsValue (.datetime us)).2

/-- the 16 bytes of a `TdmsTimestamp(seconds, second_fractions)` -/
def rawBytes (sf : Int × Nat) : Bytes := (toTdmsValue (.rawTimestamp sf.1 sf.2)).2

/-- the reader's epoch (`np.datetime64('1904-01-01T00:00:00')`) in Unix microseconds, from the constant the
    translator extracts from `nptdms/timestamp.py` -/
def readerEpochMicros : Int := epochUnixSeconds * 10 ^ 6

/-- the reader, scalar path: `struct.unpack('<Qq', b)` then `TdmsTimestamp.as_datetime64('us')`:
    `EPOCH + seconds + ((min(fractions + 2^11, 2^64 - 1) * 10^6) >> 64) µs`, as Unix microseconds -/
def readUs (b : Bytes) : Int := readerEpochMicros + decode (10 ^ 6) (ofBytesLE b).1 (ofBytesLE b).2

/-- the reader, array path (`TimestampArray.as_datetime64('us')`, uint64 arithmetic with `_multiply_high`) -/
def readUsArr (b : Bytes) : Int := readerEpochMicros + decodeArr (10 ^ 6) (ofBytesLE b).1 (ofBytesLE b).2

/-- **the range the writer accepts**: `struct.pack('<Qq', second_fractions, seconds)` needs `seconds` (the floor of
    the microseconds since 1904 divided by 10^6) in the signed 64-bit range (`'q'`); the `'Q'` field
    (`second_fractions`) is in range for EVERY integer (`fractions_in_range`) -/
def AcceptedUs (us : Int) : Prop := -2 ^ 63 ≤ (us - epochMicros) / 10 ^ 6 ∧ (us - epochMicros) / 10 ^ 6 < 2 ^ 63

instance (us : Int) : Decidable (AcceptedUs us) := by unfold AcceptedUs; infer_instance

/-- the range a raw `TdmsTimestamp` must be in for `struct.pack('<Qq', …)` -/
def AcceptedRaw (sf : Int × Nat) : Prop := -2 ^ 63 ≤ sf.1 ∧ sf.1 < 2 ^ 63 ∧ sf.2 < 2 ^ 64

instance (sf : Int × Nat) : Decidable (AcceptedRaw sf) := by unfold AcceptedRaw; infer_instance

/-! ## the writer's side -/

theorem reader_epoch_eq_writer_epoch : readerEpochMicros = epochMicros := by decide

/-- the `'Q'` field never overflows -/
theorem fractions_in_range (us : Int) : (encodeFloor (us - epochMicros)).2 < 2 ^ 64 :=
  (Tdms.Proofs.C12.encodeFloor_decode _).2

/-- what is written, in closed form: seconds = floor quotient, fractions = `(µs << 64) // 10^6` of the non-negative
    remainder -/
theorem tsBytes_eq (us : Int) :
    tsBytes us = toBytesLE ((us - epochMicros) / 10 ^ 6) (encodeUs ((us - epochMicros) % 10 ^ 6).toNat) := by
  have h := Tdms.Proofs.C12.encode_canonical (us - epochMicros) ((us - epochMicros) / 1000000)
    (by constructor <;> omega)
  have hb : tsBytes us =
      toBytesLE (encodeFloor (us - epochMicros)).1 (encodeFloor (us - epochMicros)).2 := rfl
  rw [hb]
  unfold encodeFloor
  rw [h]

theorem tsBytes_length (us : Int) : (tsBytes us).length = 16 := by
  have hb : tsBytes us =
      toBytesLE (encodeFloor (us - epochMicros)).1 (encodeFloor (us - epochMicros)).2 := rfl
  rw [hb]; exact (Tdms.Proofs.C12.raw_bytes_length _ _).1

theorem rawBytes_length (sf : Int × Nat) : (rawBytes sf).length = 16 :=
  (Tdms.Proofs.C12.raw_bytes_length _ _).1

theorem acceptedUs_iff (us : Int) :
    AcceptedUs us ↔ -2 ^ 63 * 10 ^ 6 ≤ us - epochMicros ∧ us - epochMicros < 2 ^ 63 * 10 ^ 6 := by
  unfold AcceptedUs
  constructor <;> intro h <;> constructor <;> omega

/-- every `np.datetime64[us]` (an int64 count of microseconds) and every Python `datetime` (years 1 … 9999) is
    accepted: the seconds since 1904 of an int64 microsecond count are below 2^44 in magnitude -/
theorem accepted_of_int64 (us : Int) (h1 : -2 ^ 63 ≤ us) (h2 : us < 2 ^ 63) : AcceptedUs us := by
  rw [acceptedUs_iff]
  have : epochMicros = -2082844800000000 := by decide
  rw [this]
  constructor <;> omega

/-! ## the reader's side -/

/-- the two reader paths agree on every 16 bytes -/
theorem readUsArr_eq_readUs (b : Bytes) : readUsArr b = readUs b := by
  unfold readUsArr readUs
  congr 1
  apply Tdms.Proofs.C12.decode_eq_decodeArr
  · unfold ofBytesLE
    simp only [Tdms.Proofs.C10.ts_decLE_eq]
    have := Tdms.Proofs.BytesW.decLE_lt (List.take 8 b)
    have hl : (List.take 8 b).length ≤ 8 := by simp
    calc decLE (List.take 8 b) < 2 ^ (8 * (List.take 8 b).length) := this
      _ ≤ 2 ^ 64 := Nat.pow_le_pow_right (by decide) (by omega)
  · decide

/-! ## the round trip on the bytes -/

/-- **value level**: the 16 bytes written for `us` are read back as exactly `us` — for every accepted integer -/
theorem readUs_tsBytes (us : Int) (h : AcceptedUs us) : readUs (tsBytes us) = us := by
  obtain ⟨h1, h2⟩ := (acceptedUs_iff us).1 h
  have := (Tdms.Proofs.C07.datetime_property us h1 h2).2.2.2
  simp only at this
  unfold readUs tsBytes
  rw [this, reader_epoch_eq_writer_epoch]
  omega

theorem readUsArr_tsBytes (us : Int) (h : AcceptedUs us) : readUsArr (tsBytes us) = us := by
  rw [readUsArr_eq_readUs, readUs_tsBytes us h]

theorem map_readUs_tsBytes (uss : List Int) (h : ∀ us ∈ uss, AcceptedUs us) :
    (uss.map tsBytes).map readUs = uss := by
  induction uss with
  | nil => rfl
  | cons u us ih =>
    rw [List.map_cons, List.map_cons, readUs_tsBytes u (h u (by simp)), ih (fun x hx => h x (by simp [hx]))]

theorem map_readUsArr_tsBytes (uss : List Int) (h : ∀ us ∈ uss, AcceptedUs us) :
    (uss.map tsBytes).map readUsArr = uss := by
  have : (uss.map tsBytes).map readUsArr = (uss.map tsBytes).map readUs := by
    apply List.map_congr_left; intro b _; exact readUsArr_eq_readUs b
  rw [this, map_readUs_tsBytes uss h]

/-- raw timestamps: bit-exact -/
theorem ofBytesLE_rawBytes (sf : Int × Nat) (h : AcceptedRaw sf) : ofBytesLE (rawBytes sf) = sf := by
  obtain ⟨h1, h2, h3⟩ := h
  exact Tdms.Proofs.C12.raw_bytes_roundtrip_LE sf.1 sf.2 h3 h1 h2

theorem map_ofBytesLE_rawBytes (sfs : List (Int × Nat)) (h : ∀ sf ∈ sfs, AcceptedRaw sf) :
    (sfs.map rawBytes).map ofBytesLE = sfs := by
  induction sfs with
  | nil => rfl
  | cons u us ih =>
    rw [List.map_cons, List.map_cons, ofBytesLE_rawBytes u (h u (by simp)), ih (fun x hx => h x (by simp [hx]))]

/-- a datetime is a particular raw timestamp -/
theorem tsBytes_eq_rawBytes (us : Int) :
    tsBytes us = rawBytes ((us - epochMicros) / 10 ^ 6, encodeUs ((us - epochMicros) % 10 ^ 6).toNat) :=
  tsBytes_eq us

/-- every 16 bytes are the bytes of their own raw timestamp: `pack(unpack(b)) = b` -/
theorem rawBytes_ofBytesLE (b : Bytes) (h : b.length = 16) : rawBytes (ofBytesLE b) = b :=
  Tdms.Proofs.C10.toBytesLE_ofBytesLE b h

end Tdms.Proofs.C12File
