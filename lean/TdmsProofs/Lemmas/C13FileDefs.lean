/-
  C13 / C14 at FILE level: definitions.

  The scaling pipeline of `Tdms/Model/Scaling.lean` (`getScaling`, `scaleArray`, `declaredKind`, `actualKind`)
  composed with what the reader returns (`content r` of C01Compose / C01Multi: objects, properties, values).

  What is new here is only the glue npTDMS has between the two (`tdms.py`):
    * `TdmsFile._read_file`: a channel object gets `properties` (its own), `channel_group_properties`
      (`object_properties[path.group_path()]`, `{}` when the file has no such object) and the file properties
      (`object_properties['/']`, `{}` when absent);
    * `TdmsChannel._scaling = get_scaling(properties, group_properties, file_properties)`;
    * `TdmsChannel._scale_data`: `scale.scale(raw)` when there is a scaling, else `raw.data`;
    * `TdmsChannel.dtype`: `scaling.get_dtype(data_type, scaler_data_types)` when there is a scaling, else the raw
      dtype;
  and the decoding of bytes (the reader model keeps property values and raw values as canonical little-endian
  byte strings): property names / string values are UTF-8 text, integer properties are Python ints, everything
  else numeric goes through the decoder `D.num : type code → bytes → R`, which is a PARAMETER of all
  definitions and theorems (`decQ` in `C13FileRat.lean` is the exact instance over ℚ).
-/
import Tdms.Model.Path
import TdmsProofs.Properties.C13
import TdmsProofs.Properties.C14
import TdmsProofs.Properties.C04Whole

namespace Tdms.Proofs.C13File

open Tdms Tdms.Generated Tdms.Model Tdms.Model.Scaling Tdms.Proofs.C13 Tdms.Proofs.C14
open Tdms.Proofs.C01Compose (content contentOfDenote ObjView valuesIn)
open Tdms.Proofs.Bytes (canonProp)

/-! ## decoding -/

/-- the numeric decoder: TDMS type code and canonical little-endian bytes ↦ a number of `R`.  Used for the raw
    values of a channel and for the numeric properties that are not non-negative integers. -/
structure Dec (R : Type) where
  num : Nat → Bytes → R

/-- UTF-8 text (`String._decode`: `bytes.decode('utf-8')`).  Exact on valid UTF-8; on invalid UTF-8 npTDMS retries
    with the `replace` error handler (U+FFFD), the model answers `""` — a name or string value that is not valid
    UTF-8 is outside the scope of the definitions below. -/
def textOf (bs : Bytes) : String := (String.fromUTF8? (ByteArray.mk bs.toArray)).getD ""

/-- TDMS type codes of the unsigned integer types (Uint8 … Uint64) -/
def unsignedTys : List Nat := [5, 6, 7, 8]

/-- byte width of the signed integer types (Int8 … Int64) -/
def signedWidth : Nat → Option Nat
  | 1 => some 1
  | 2 => some 2
  | 3 => some 4
  | 4 => some 8
  | _ => none

/-- a property value as `scaling.py` sees it: a string is a `str`; an integer is a Python `int` — the model's
    `PV.nat` when it is non-negative (usable as index / size and, through `getNum`, as a number), `PV.num`
    otherwise; every other type is a number decoded by `D.num` (floats; for Boolean / TimeStamp properties,
    which npTDMS would hand to the arithmetic as `bool` / `TdmsTimestamp`, this is an idealisation). -/
def pvOf {R : Type} (D : Dec R) (p : PropVal) : PV R :=
  if p.ty = tyString then .str (textOf p.val)
  else if p.ty ∈ unsignedTys then .nat (decLE p.val)
  else
    match signedWidth p.ty with
    | some w => if 0 ≤ toSigned w (decLE p.val) then .nat (decLE p.val) else .num (D.num p.ty p.val)
    | none => .num (D.num p.ty p.val)

/-- the property dictionary of an object (`_convert_properties`), in file order; names are unique in what the
    reader returns, `Props.get` takes the first match -/
def propsOf {R : Type} (D : Dec R) (ps : List PropVal) : Props R := ps.map fun p => (textOf p.name, pvOf D p)

/-- numpy kind of a TDMS type code (`tdms_type.nptype`), from the generated type table -/
def kindOf (ty : Nat) : Option String := (typeTable.find? (·.code = ty)).bind (·.npKind)

/-- the types whose raw data are numbers scaling can work on: Int8 … Uint64, SingleFloat, DoubleFloat and the two
    `…WithUnit` float types (kinds `i1 … u8, f4, f8`); not String, Boolean, TimeStamp, complex, DAQmx raw data -/
def numericTy (ty : Nat) : Bool :=
  match kindOf ty with
  | some k => decide (k ∈ numericKinds)
  | none => false

/-! ## paths -/

/-- `ObjectPath.from_string(path)` is a channel path: its group and channel components -/
def channelParts (p : Bytes) : Option (Bytes × Bytes) :=
  match Path.fromString Path.qByte Path.sByte p with
  | .ok (some g, some c) => some (g, c)
  | _ => none

/-- `path.group_path()` -/
def groupPathOf (g : Bytes) : Bytes := Path.pathOf Path.qByte Path.sByte (some g) none

/-- `'/'` -/
def rootPath : Bytes := [Path.sByte]

/-! ## the scaling of a channel of a file -/

section
variable {R : Type} (D : Dec R)

/-- `object_properties[p]`, `{}` when the file has no object `p` -/
def propsIn (vs : List ObjView) (p : Bytes) : Props R :=
  propsOf D (((vs.find? (·.path = p)).map (·.props)).getD [])

variable [NatCast R] [LT R] [DecidableRel (α := R) (· < ·)]

/-- `TdmsChannel._scaling` of the channel with path `p` (`none`: `p` is not a channel path):
    `get_scaling(channel properties, properties of its group, properties of the root)` -/
def scalingIn (vs : List ObjView) (p : Bytes) : Option (Except ScaleErr (Option (List (Scaling R)))) :=
  (channelParts p).map fun gc => getScaling (propsIn D vs p) (propsIn D vs (groupPathOf gc.1)) (propsIn D vs rootPath)

end

section
variable {R : Type} [Add R] [Sub R] [Mul R] [OfNat R 0] (D : Dec R)
variable (interp : List R → List R → R → R) (env : Nat → R → R)

/-- one raw element of a channel that is not DAQmx: the decoded value, no scalers -/
def rawOf (ty : Nat) (b : Bytes) : RawElem R := ⟨some (D.num ty b), []⟩

/-- `TdmsChannel._scale_data` on plain (non-DAQmx) raw data: the raw numbers when there is no scaling, else
    `MultiScaling.scale` — elementwise, as the model's `scaleArray` -/
def scaleValues (sc : Option (List (Scaling R))) (ty : Nat) (vals : List Bytes) : List (Except ScaleErr R) :=
  match sc with
  | none => vals.map fun b => .ok (D.num ty b)
  | some g => scaleArray interp env g (vals.map (rawOf D ty))

variable [NatCast R] [LT R] [DecidableRel (α := R) (· < ·)]

/-- scaled data of raw values `vals` of the channel `p`, the objects and properties being those of `vs`.
    `none`: `p` is not an object of `vs`, has no data type, is not of numeric type, is not a channel path, or
    `get_scaling` raises (`scalingIn` tells which). -/
def scaledIn (vs : List ObjView) (p : Bytes) (vals : List Bytes) : Option (List (Except ScaleErr R)) :=
  match vs.find? (·.path = p) with
  | none => none
  | some v =>
    match v.dataType with
    | none => none
    | some ty =>
      if numericTy ty then
        match scalingIn D vs p with
        | some (.ok sc) => some (scaleValues D interp env sc ty vals)
        | _ => none
      else none

/-- the eager raw values of `p` in the reader's result -/
def rawValues (r : EagerResult) (p : Bytes) : List Bytes :=
  (((content r).find? (·.path = p)).map (·.values)).getD []

/-- **`channel.data` after `TdmsFile.read`**: the model's scaling of the eager raw values of channel `p` with the
    properties of `p`, of its group and of the root, as read.  Element `i` is `.ok x` or the error evaluating
    element `i` raises (`scaleArray` is elementwise). -/
def scaledChannel (r : EagerResult) (p : Bytes) : Option (List (Except ScaleErr R)) :=
  scaledIn D interp env (content r) p (rawValues r p)

/-! ## lazy mode -/

/-- the objects of an open file, without values (`TdmsFile.open` builds the same channel objects from the same
    `object_metadata`) -/
def metaView (f : OpenFile) : List ObjView := f.objects.map fun m => ⟨m.path, m.dataType, m.props, []⟩

/-- **`channel.read_data(offset, length, scaled=True)` on an open file**: `_read_channel_data`, then `_scale_data`
    (`none`: the empty array of a channel without data type, or the cases of `scaledIn`) -/
def scaledReadData (f : OpenFile) (p : Bytes) (offset : Int) (length : Option Int) :
    F (Option (List (Except ScaleErr R))) := do
  let out ← channelReadData f p offset length
  pure (out.bind fun ro => scaledIn D interp env (metaView f) p (ro.data.getD []))

end

/-- `xs[: length]` (`length = none`: all) -/
def takeOptG {α : Type} (length : Option Int) (xs : List α) : List α :=
  match length with
  | none => xs
  | some l => xs.take l.toNat

/-! ## dtypes (C14) -/

section
variable {R : Type} (D : Dec R) [NatCast R] [LT R] [DecidableRel (α := R) (· < ·)]

/-- shared shape of `declaredKindIn` / `actualKindIn` -/
def kindIn (k : List (Scaling R) → String → List (Nat × String) → Nat → Nat → Option String)
    (vs : List ObjView) (p : Bytes) : Option String :=
  match vs.find? (·.path = p) with
  | none => none
  | some v =>
    match v.dataType with
    | none => none
    | some ty =>
      if numericTy ty then
        match scalingIn D vs p, kindOf ty with
        | some (.ok none), rk => rk
        | some (.ok (some g)), some rk => k g rk [] (g.length + 1) (g.length - 1)
        | _, _ => none
      else none

/-- **`channel.dtype`** of a numeric non-DAQmx channel: the raw dtype without scaling, else
    `MultiScaling.get_dtype(data_type, scaler_data_types)` (no scaler types) -/
def declaredKindIn (vs : List ObjView) (p : Bytes) : Option String := kindIn D declaredKind vs p

/-- the dtype of the array `_scale_data` really returns (`none`: evaluating raises) -/
def actualKindIn (vs : List ObjView) (p : Bytes) : Option String := kindIn D actualKind vs p

/-- `len(channel)`: `object_metadata[p].num_values` -/
def numValuesOf (r : EagerResult) (p : Bytes) : Nat := ((r.state.objects.get p).map (·.numValues)).getD 0

end

/-! ## the spec side: what the FILE ENCODES -/

section
variable {R : Type} (D : Dec R)

/-- the properties `denote` assigns to the object `p` (last write wins across segments), in the reader's
    canonical form, decoded; `{}` when the file has no object `p` -/
def specProps (c : Content) (p : Bytes) : Props R :=
  propsOf D ((((c.find? (·.path = p)).map (·.props)).getD []).map canonProp)

variable [NatCast R] [LT R] [DecidableRel (α := R) (· < ·)]

/-- the scaling the file encodes for the channel `p` of group `g`: the first of channel, group, root whose
    properties define one (`Spec.firstSome`, C13's `lookup_order`) -/
def specScaling (c : Content) (p g : Bytes) : Except ScaleErr (Option (List (Scaling R))) :=
  Spec.firstSome [channelScaling (specProps D c p), channelScaling (specProps D c (groupPathOf g)),
    channelScaling (specProps D c rootPath)]

end

end Tdms.Proofs.C13File

