import TdmsProofs.Lemmas.C04WindowLink

/-!
# C04 (windows): a concrete file satisfying the hypothesis of the link lemma

A 120-byte TDMS file (two segments; channel `/'g'/'c'`, int32; segment 0 has two chunks of two
values, segment 1 has no metadata and one chunk of two values; the same bytes are read by the real
npTDMS as `[10 20 30 40 50 60]`).  `exOpen_reads` proves `ReadsAs` for the window `(1, 4)`: the
hypothesis of `windowLoop_eq_windowPure` / `read_data_eq_slice` is satisfiable on a real file.
-/

namespace Tdms.Proofs.C04

open Tdms Tdms.Model

def exFile : Bytes :=
  [84, 68, 83, 109, 14, 0, 0, 0, 105, 18, 0, 0, 56, 0, 0, 0, 0, 0, 0, 0, 40, 0, 0, 0, 0, 0, 0, 0,
   1, 0, 0, 0, 8, 0, 0, 0, 47, 39, 103, 39, 47, 39, 99, 39, 20, 0, 0, 0, 3, 0, 0, 0, 1, 0, 0, 0,
   2, 0, 0, 0, 0, 0, 0, 0, 0, 0, 0, 0,
   10, 0, 0, 0, 20, 0, 0, 0, 30, 0, 0, 0, 40, 0, 0, 0,
   84, 68, 83, 109, 8, 0, 0, 0, 105, 18, 0, 0, 8, 0, 0, 0, 0, 0, 0, 0, 0, 0, 0, 0, 0, 0, 0, 0,
   50, 0, 0, 0, 60, 0, 0, 0]

/-- `/'g'/'c'` -/
def exPath : Bytes := [47, 39, 103, 39, 47, 39, 99, 39]

def exObj : SegObj := { path := exPath, numberValues := 2, dataSize := 8, hasData := true, dataType := some 3 }

def exSeg0 : Segment :=
  { position := 0, toc := 14, nextSegmentPos := 84, dataPosition := 68, incomplete := false,
    objects := [exObj], numChunks := 2, override := none }

def exSeg1 : Segment :=
  { position := 84, toc := 8, nextSegmentPos := 120, dataPosition := 112, incomplete := false,
    objects := [exObj], numChunks := 1, override := none }

def exMeta : ObjMeta := { path := exPath, dataType := some 3, numValues := 6 }

def exOpen : OpenFile := ⟨exFile, [exSeg0, exSeg1], [exMeta]⟩

/-- `exOpen` is what the model's `TdmsFile.open` produces from the bytes -/
theorem exOpen_is_openFile :
    (match openFile exFile with
      | .ok o => decide (o.file = exOpen.file ∧ o.segments = exOpen.segments ∧ o.objects = exOpen.objects)
      | .error _ => false) = true := by
  decide

/-- chunk contents of the example file (little-endian int32 values) -/
def exFileVals : Vals := fun s j =>
  match s, j with
  | 0, 0 => [[10, 0, 0, 0], [20, 0, 0, 0]]
  | 0, 1 => [[30, 0, 0, 0], [40, 0, 0, 0]]
  | 1, 0 => [[50, 0, 0, 0], [60, 0, 0, 0]]
  | _, _ => []

theorem exOpen_reads : ReadsAs exOpen exPath 6 1 (some 4) (supOf exFileVals) := by
  unfold ReadsAs
  have hw : windowParams exOpen.segments exPath 6 1 (some 4)
      = ⟨⟨0, [4, 6]⟩, 4, 5, 0, 1⟩ := by decide
  rw [hw]
  simp only []
  intro i s hs h1 h2
  have hi : i = 0 ∨ i = 1 := by
    have : i ≤ 1 := h2
    omega
  rcases hi with rfl | rfl
  · have : s = exSeg0 := by simpa [exOpen] using hs.symm
    subst this
    refine ⟨fun st => ⟨_, rfl⟩, ?_⟩
    intro co skip nc hplan st
    have hp : segPlan exPath ⟨0, [4, 6]⟩ 1 5 0 1 0 exSeg0 = some (0, 1, 2) := by decide
    rw [hp] at hplan
    simp only [Option.some.injEq, Prod.mk.injEq] at hplan
    obtain ⟨rfl, rfl, rfl⟩ := hplan
    exact ⟨_, rfl⟩
  · have : s = exSeg1 := by simpa [exOpen] using hs.symm
    subst this
    refine ⟨fun st => ⟨_, rfl⟩, ?_⟩
    intro co skip nc hplan st
    have hp : segPlan exPath ⟨0, [4, 6]⟩ 1 5 0 1 1 exSeg1 = some (0, 0, 1) := by decide
    rw [hp] at hplan
    simp only [Option.some.injEq, Prod.mk.injEq] at hplan
    obtain ⟨rfl, rfl, rfl⟩ := hplan
    exact ⟨_, rfl⟩

theorem exLayout : exOpen.segments.map (layoutOf exPath) = [⟨2, 2, none⟩, ⟨2, 1, none⟩] := by decide

theorem exFileVals_ok : ValsOk (exOpen.segments.map (layoutOf exPath)) exFileVals := by
  rw [exLayout]
  intro s l hl j hj
  match s with
  | 0 =>
    simp at hl; subst hl
    have : j = 0 ∨ j = 1 := by simp at hj; omega
    rcases this with rfl | rfl <;> rfl
  | 1 =>
    simp at hl; subst hl
    have : j = 0 := by simp at hj; omega
    subst this; rfl
  | s + 2 => simp at hl

/-! ## abstract example layouts -/

/-- chunk contents for the examples: value `t` of chunk `j` of segment `s` is the bytes `[s, j, t]` -/
def exVals (L : List SegL) : Vals := fun s j =>
  (List.range ((L.getD s default).chunkLen j)).map fun t => [s.toUInt8, j.toUInt8, t.toUInt8]

/-- the example contents satisfy `ValsOk` for every layout -/
theorem exVals_ok (L : List SegL) : ValsOk L (exVals L) := by
  intro s l hl j _
  simp [exVals, List.getD_eq_getElem?_getD, hl]

def exAbsent : List SegL := [⟨4, 1, none⟩, ⟨0, 0, none⟩, ⟨4, 3, none⟩]
def exTrunc0 : List SegL := [⟨2, 3, some 0⟩]
def exMixed : List SegL := [⟨0, 2, none⟩, ⟨3, 2, some 1⟩, ⟨0, 0, none⟩, ⟨2, 2, none⟩, ⟨2, 1, some 0⟩, ⟨0, 1, some 0⟩]

end Tdms.Proofs.C04
