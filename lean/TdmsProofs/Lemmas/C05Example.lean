import TdmsProofs.Lemmas.C05Iter

/-! # C05/C19: a tiny concrete open file for non-vacuity examples -/

namespace Tdms.Proofs.C05

open Tdms Tdms.Model Tdms.Generated

def exA : Bytes := [0x61]
def exB : Bytes := [0x62]

/-- one segment (lead-in of 28 bytes starting with `TDSm`), two Int8 channels `a`, `b` with 2 values per
    chunk, 2 chunks; raw data `a a b b | a a b b` = `1 2 11 12 | 3 4 13 14` -/
def exFile : OpenFile :=
  { file := tagData ++ List.replicate 24 0 ++ [1, 2, 11, 12, 3, 4, 13, 14],
    segments := [{ position := 0, toc := 14, nextSegmentPos := 36, dataPosition := 28, incomplete := false,
                   objects := [{ path := exA, numberValues := 2, dataSize := 2, hasData := true, dataType := some 1 },
                               { path := exB, numberValues := 2, dataSize := 2, hasData := true, dataType := some 1 }],
                   numChunks := 2 }],
    objects := [{ path := exA, dataType := some 1, numValues := 4 }, { path := exB, dataType := some 1, numValues := 4 }] }

/-- the value-only result of an action of the I/O monad -/
def resultOf {α : Type} (m : F α) (st : FState) : Except Err α := (m.run st).map Prod.fst

theorem posIndep_iff {α : Type} {m : F α} : PosIndep m ↔ ∀ s₁ s₂, resultOf m s₁ = resultOf m s₂ := by
  constructor
  · intro h s₁ s₂
    have := h.run s₁ s₂ trivial
    unfold resultOf
    show Except.map Prod.fst (m s₁) = Except.map Prod.fst (m s₂)
    revert this
    cases m s₁ <;> cases m s₂ <;> simp [ExRel, Except.map]
  · intro h
    refine ⟨fun s₁ s₂ _ => ?_⟩
    have := h s₁ s₂
    unfold resultOf at this
    change Except.map Prod.fst (m s₁) = Except.map Prod.fst (m s₂) at this
    revert this
    cases m s₁ <;> cases m s₂ <;> simp [ExRel, Except.map]

end Tdms.Proofs.C05
