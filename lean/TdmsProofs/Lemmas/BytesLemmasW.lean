import Tdms.Spec.Bytes

/-!
# Byte-layer lemmas: `encLE/decLE/encBE/decBE/enc/dec`, `toSigned/ofSigned`

Core Lean only.
-/

namespace Tdms.Proofs.BytesW
open Tdms

@[simp] theorem encLE_length (w n : Nat) : (encLE w n).length = w := by
  induction w generalizing n with
  | zero => rfl
  | succ w ih => simp [encLE, ih]

@[simp] theorem encBE_length (w n : Nat) : (encBE w n).length = w := by
  simp [encBE]

@[simp] theorem enc_length (e : Endian) (w n : Nat) : (enc e w n).length = w := by
  cases e <;> simp [enc]

theorem decLE_encLE (w n : Nat) : decLE (encLE w n) = n % 2 ^ (8 * w) := by
  induction w generalizing n with
  | zero => simp [encLE, decLE, Nat.mod_one]
  | succ w ih =>
    simp only [encLE, decLE, ih, UInt8.toNat_ofNat']
    have h256 : 2 ^ (8 * (w + 1)) = 256 * 2 ^ (8 * w) := by
      rw [show 8 * (w + 1) = 8 + 8 * w by omega, Nat.pow_add]
    rw [h256, Nat.mod_mul]
    simp

theorem decBE_encBE (w n : Nat) : decBE (encBE w n) = n % 2 ^ (8 * w) := by
  simp [decBE, encBE, decLE_encLE]

theorem dec_enc (e : Endian) (w n : Nat) : dec e (enc e w n) = n % 2 ^ (8 * w) := by
  cases e <;> simp [dec, enc, decLE_encLE, decBE_encBE]

theorem decLE_encLE_of_lt {w n : Nat} (h : n < 2 ^ (8 * w)) : decLE (encLE w n) = n := by
  rw [decLE_encLE, Nat.mod_eq_of_lt h]

theorem decBE_encBE_of_lt {w n : Nat} (h : n < 2 ^ (8 * w)) : decBE (encBE w n) = n := by
  rw [decBE_encBE, Nat.mod_eq_of_lt h]

theorem dec_enc_of_lt (e : Endian) {w n : Nat} (h : n < 2 ^ (8 * w)) : dec e (enc e w n) = n := by
  rw [dec_enc, Nat.mod_eq_of_lt h]

theorem decLE_append (a b : Bytes) : decLE (a ++ b) = decLE a + 2 ^ (8 * a.length) * decLE b := by
  induction a with
  | nil => simp [decLE]
  | cons x xs ih =>
    simp only [List.cons_append, decLE, ih, List.length_cons]
    rw [show 8 * (xs.length + 1) = 8 + 8 * xs.length by omega, Nat.pow_add]
    simp [Nat.mul_add, Nat.mul_assoc, Nat.add_assoc]

theorem decLE_lt (bs : Bytes) : decLE bs < 2 ^ (8 * bs.length) := by
  induction bs with
  | nil => simp [decLE]
  | cons x xs ih =>
    simp only [decLE, List.length_cons]
    rw [show 8 * (xs.length + 1) = 8 + 8 * xs.length by omega, Nat.pow_add]
    have := x.toNat_lt
    omega

/-- every byte string is the encoding of its decoding: `encLE` is onto the `w`-byte strings -/
theorem encLE_decLE (bs : Bytes) : encLE bs.length (decLE bs) = bs := by
  induction bs with
  | nil => rfl
  | cons x xs ih =>
    have hx := x.toNat_lt
    simp only [List.length_cons, encLE, decLE]
    rw [show (x.toNat + 256 * decLE xs) / 256 = decLE xs by omega,
        show (x.toNat + 256 * decLE xs) % 256 = x.toNat by omega, ih]
    simp

theorem take_append_of_length {α} {a : List α} (b : List α) {n : Nat} (h : a.length = n) :
    (a ++ b).take n = a := by
  subst h; simp

theorem drop_append_of_length {α} {a : List α} (b : List α) {n : Nat} (h : a.length = n) :
    (a ++ b).drop n = b := by
  subst h; simp

@[simp] theorem take_encLE_append (w n : Nat) (rest : Bytes) : (encLE w n ++ rest).take w = encLE w n :=
  take_append_of_length _ (encLE_length w n)

@[simp] theorem drop_encLE_append (w n : Nat) (rest : Bytes) : (encLE w n ++ rest).drop w = rest :=
  drop_append_of_length _ (encLE_length w n)

@[simp] theorem take_enc_append (e : Endian) (w n : Nat) (rest : Bytes) : (enc e w n ++ rest).take w = enc e w n :=
  take_append_of_length _ (enc_length e w n)

@[simp] theorem drop_enc_append (e : Endian) (w n : Nat) (rest : Bytes) : (enc e w n ++ rest).drop w = rest :=
  drop_append_of_length _ (enc_length e w n)

/-! ## two's complement -/

theorem ofSigned_lt (w : Nat) (i : Int) : ofSigned w i < 2 ^ (8 * w) := by
  unfold ofSigned
  have hpos : (0 : Int) < ((2 ^ (8 * w) : Nat) : Int) := by
    have : 0 < 2 ^ (8 * w) := Nat.pow_pos (by decide)
    omega
  have h1 := Int.emod_lt_of_pos i hpos
  have h0 := Int.emod_nonneg i (Int.ne_of_gt hpos)
  omega

/-- `toSigned w ∘ ofSigned w` is the identity on the `w`-byte signed range -/
theorem toSigned_ofSigned {w : Nat} (hw : 0 < w) {i : Int}
    (hlo : -(2 ^ (8 * w - 1) : Nat) ≤ i) (hhi : i < (2 ^ (8 * w - 1) : Nat)) :
    toSigned w (ofSigned w i) = i := by
  have hpow : 2 ^ (8 * w) = 2 * 2 ^ (8 * w - 1) := by
    rw [show 8 * w = (8 * w - 1) + 1 by omega, Nat.pow_succ]; simp; omega
  generalize hP : 2 ^ (8 * w - 1) = P at *
  have hPpos : 0 < P := by rw [← hP]; exact Nat.pow_pos (by decide)
  unfold toSigned ofSigned
  rw [hP, hpow]
  by_cases hneg : i < 0
  · have hmod : i % ((2 * P : Nat) : Int) = i + (2 * P : Nat) := by
      rw [← Int.add_emod_right i, Int.emod_eq_of_lt (by omega) (by omega)]
    rw [hmod]
    have : ¬ (i + ((2 * P : Nat) : Int)).toNat < P := by omega
    rw [if_neg this]
    omega
  · have hmod : i % ((2 * P : Nat) : Int) = i := Int.emod_eq_of_lt (by omega) (by omega)
    rw [hmod]
    have : i.toNat < P := by omega
    rw [if_pos this]
    omega

/-- unsigned reading of the bit pattern of a non-negative value that fits -/
theorem ofSigned_of_nonneg {w : Nat} {i : Int} (h0 : 0 ≤ i) (h1 : i < (2 ^ (8 * w) : Nat)) :
    (ofSigned w i : Int) = i := by
  unfold ofSigned
  rw [Int.emod_eq_of_lt h0 h1]
  omega

/-- the bytes written for a signed value decode (two's complement) to that value -/
theorem toSigned_decLE_encLE_ofSigned {w : Nat} (hw : 0 < w) {i : Int}
    (hlo : -(2 ^ (8 * w - 1) : Nat) ≤ i) (hhi : i < (2 ^ (8 * w - 1) : Nat)) :
    toSigned w (decLE (encLE w (ofSigned w i))) = i := by
  rw [decLE_encLE_of_lt (ofSigned_lt w i), toSigned_ofSigned hw hlo hhi]

theorem decLE_encLE_ofSigned_of_nonneg {w : Nat} {i : Int} (h0 : 0 ≤ i) (h1 : i < (2 ^ (8 * w) : Nat)) :
    (decLE (encLE w (ofSigned w i)) : Int) = i := by
  rw [decLE_encLE_of_lt (ofSigned_lt w i), ofSigned_of_nonneg h0 h1]

example : toSigned 4 (decLE (encLE 4 (ofSigned 4 (-2147483648)))) = -2147483648 := by decide
example : encLE 4 (ofSigned 4 (-2)) = [254, 255, 255, 255] := by decide
example : toSigned 1 128 = -128 ∧ toSigned 1 127 = 127 := by decide

end Tdms.Proofs.BytesW
