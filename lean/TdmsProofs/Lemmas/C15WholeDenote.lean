/-
  C15 for whole files, spec side: the meaning of a file does not depend on the byte order of its segments.
  Core Lean only.
-/
import TdmsProofs.Lemmas.C15WholeSpec

namespace Tdms.Proofs.C15Whole

open Tdms Tdms.Generated Tdms.Model Tdms.Proofs.C01Layouts Tdms.Proofs.C01Multi Tdms.Proofs.C02

theorem foldl_congr_mem {α β : Type} (l : List α) (f g : β → α → β) (h : ∀ c, ∀ x ∈ l, f c x = g c x) (c : β) :
    l.foldl f c = l.foldl g c := by
  induction l generalizing c with
  | nil => rfl
  | cons x xs ih =>
    simp only [List.foldl_cons, h c x List.mem_cons_self]
    exact ih (fun c y hy => h c y (List.mem_cons_of_mem _ hy)) _

/-! ## one DAQmx chunk -/

theorem getD_reencChunk (d : List ActiveObj) (bufs : List (List Bytes)) (b : Nat) :
    (reencChunk d bufs).getD b [] = (bufs.getD b []).map (swapRow (bufFields d b)) := by
  simp only [reencChunk, List.getD_eq_getElem?_getD, List.getElem?_mapIdx]
  cases bufs[b]? <;> rfl

/-- every scaler of every data object names a known type, and its field lies inside every row of its buffer -/
def RowsOK (d : List ActiveObj) (bufs : List (List Bytes)) : Prop :=
  ∀ x ∈ d, ∀ s ∈ daqScalers x, ∃ t sz, daqmxTypeCode s.daqType = some t ∧ typeSize t = some sz ∧
    ∀ row ∈ bufs.getD s.buffer [], scalerByteOffset (dgOf x) s + sz ≤ row.length

theorem mem_bufFields {d : List ActiveObj} {x : ActiveObj} (hx : x ∈ d) {s : ScalerEnc} (hs : s ∈ daqScalers x) :
    scField (dgOf x) s ∈ bufFields d s.buffer :=
  List.mem_flatMap.mpr ⟨x, hx, List.mem_map.mpr ⟨s, List.mem_filter.mpr ⟨hs, by simp⟩, rfl⟩⟩

theorem compat_bufFields {d : List ActiveObj} (hc : FieldsCompatD d) {x : ActiveObj} (hx : x ∈ d) {s : ScalerEnc}
    (hs : s ∈ daqScalers x) : ∀ h ∈ bufFields d s.buffer, compat h (scField (dgOf x) s) := by
  intro h hh
  obtain ⟨y, hy, hh⟩ := List.mem_flatMap.mp hh
  obtain ⟨t, ht, rfl⟩ := List.mem_map.mp hh
  obtain ⟨ht, htb⟩ := List.mem_filter.mp ht
  exact hc y hy t ht x hx s hs (by simpa using htb)

/-- the value column of a scaler -/
theorem column_reenc {d : List ActiveObj} {bufs : List (List Bytes)} (hr : RowsOK d bufs) (hc : FieldsCompatD d)
    (e : Endian) {x : ActiveObj} (hx : x ∈ d) {s : ScalerEnc} (hs : s ∈ daqScalers x) :
    ((reencChunk d bufs).getD s.buffer []).map (scalerValue (flipE e) (dgOf x) s) =
      (bufs.getD s.buffer []).map (scalerValue e (dgOf x) s) := by
  obtain ⟨t, sz, ht, hsz, hrows⟩ := hr x hx s hs
  rw [getD_reencChunk, List.map_map]
  apply List.map_congr_left
  intro row hrow
  exact scalerValue_swapRow e (dgOf x) s ht hsz (mem_bufFields hx hs) (compat_bufFields hc hx hs) row (hrows row hrow)

theorem addDaqmxObj_reenc {d : List ActiveObj} {bufs : List (List Bytes)} (hr : RowsOK d bufs)
    (hc : FieldsCompatD d) (e : Endian) (c : Content) {x : ActiveObj} (hx : x ∈ d) :
    addDaqmxObj (flipE e) (reencChunk d bufs) c x = addDaqmxObj e bufs c x := by
  unfold addDaqmxObj
  cases hi : x.idx with
  | none => rfl
  | some dsc =>
    cases dsc with
    | std ty n total => rfl
    | daq dg ty n sc w =>
      simp only
      have hdg : dgOf x = dg := by simp [dgOf, hi]
      have hsc : daqScalers x = sc := by simp [daqScalers, hi]
      apply foldl_congr_mem
      intro c s hs
      have := column_reenc hr hc e hx (s := s) (by rw [hsc]; exact hs)
      rw [hdg] at this
      simp only [this]

theorem daqChunk_reenc {d : List ActiveObj} {bufs : List (List Bytes)} (hr : RowsOK d bufs)
    (hc : FieldsCompatD d) (e : Endian) (c : Content) :
    d.foldl (addDaqmxObj (flipE e) (reencChunk d bufs)) c = d.foldl (addDaqmxObj e bufs) c :=
  foldl_congr_mem d _ _ (fun c _ hx => addDaqmxObj_reenc hr hc e c hx) c

/-! ## one segment -/

/-- what the spec side needs of a segment and its active list (only DAQmx segments are concerned) -/
def SegDen (s : SegEnc) (a : List ActiveObj) : Prop :=
  (dataObjs a).any isDaqmxObj = true → (∀ c ∈ s.chunks, RowsOK (dataObjs a) c) ∧ FieldsCompatD (dataObjs a)

theorem denoteSeg_weSeg (c : Content) (b : Bool) (s : SegEnc) (a : List ActiveObj) (h : SegDen s a) :
    denoteSeg c (weSeg b s a) a = denoteSeg c s a := by
  by_cases hb : b = s.big
  · rw [hb, weSeg_self]
  · simp only [denoteSeg, weSeg_hasMeta, weSeg_objs]
    generalize (if s.hasMeta = true then applyProps (declareObjs c a) s.objs else declareObjs c a) = c0
    by_cases hq : (dataObjs a).any isDaqmxObj = true
    · obtain ⟨hrows, hcomp⟩ := h hq
      rw [weSeg_chunks, if_pos ⟨hb, hq⟩, List.foldl_map]
      apply foldl_congr_mem
      intro c1 ch hch
      simp only [addChunk, hq, if_true, weSeg_endian b s a hb]
      exact daqChunk_reenc (hrows ch hch) hcomp s.endian c1
    · rw [weSeg_chunks, if_neg (fun h => hq h.2)]
      apply foldl_congr_mem
      intro c1 ch _
      simp only [addChunk, hq]
      rfl

theorem denoteSegs_weSegs (f : Nat → Bool) : ∀ (ss : List SegEnc) (as : List (List ActiveObj)) (i : Nat) (c : Content),
    as.length = ss.length → (∀ sa ∈ ss.zip as, SegDen sa.1 sa.2) →
    denoteSegs c (weSegs f i ss as) as = denoteSegs c ss as := by
  intro ss
  induction ss with
  | nil => intro as i c _ _; cases as <;> rfl
  | cons s ss ih =>
    intro as i c h hd
    cases as with
    | nil => cases h
    | cons a as =>
      simp only [weSegs, denoteSegs]
      rw [denoteSeg_weSeg c (f i) s a (hd (s, a) (by simp))]
      exact ih as (i + 1) _ (by simpa using h) (fun sa hsa => hd sa (by simp [hsa]))

/-! ## from `wellFormed` -/

/-- the listed index an active description came from is well-formed -/
def WfDesc (_p : Bytes) (d : IdxDesc) : Prop := wfIdx (idxOfDesc d) = true

theorem actsWfDesc {e : FileEnc} {acts : List (List ActiveObj)} (ha : activeLists none [] e = .ok acts)
    (hwf : wfSegs e acts = true) : ∀ a ∈ acts, ∀ x ∈ a, ∀ d, x.idx = some d → wfIdx (idxOfDesc d) = true := by
  have hobjs := wfSegs_objs e acts hwf
  exact activeLists_WP WfDesc e none [] acts ha (fun p d hd => by simp [LastIdx.get] at hd)
    (fun a ha => by cases ha)
    (fun s hs o ho d hd => by
      have hw := hobjs s hs o ho
      simp only [wfObj, Bool.and_eq_true] at hw
      unfold WfDesc
      cases hi : o.idx with
      | noData => rw [hi] at hd; cases hd
      | matchesPrev => rw [hi] at hd; cases hd
      | full ty n total => rw [hi] at hd; cases hd; simpa [idxOfDesc, hi] using hw.1.1
      | daqmx dg ty n sc w => rw [hi] at hd; cases hd; simpa [idxOfDesc, hi] using hw.1.1)

theorem scaler_of_wfIdx {dg : Bool} {ty n : Nat} {sc : List ScalerEnc} {w : List Nat}
    (h : wfIdx (.daqmx dg ty n sc w) = true) : ∀ s ∈ sc, ∃ t sz wd, daqmxTypeCode s.daqType = some t ∧
      typeSize t = some sz ∧ w[s.buffer]? = some wd ∧ scalerByteOffset dg s + sz ≤ wd := by
  intro s hs
  simp only [wfIdx, Bool.and_eq_true, List.all_eq_true] at h
  have := h.2 s hs
  cases hT : daqmxTypeCode s.daqType with
  | none => simp [hT] at this
  | some t =>
    cases hS : typeSize t with
    | none => simp [hT, hS] at this
    | some sz =>
      cases hW : w[s.buffer]? with
      | none => simp [hT, hS, hW] at this
      | some wd =>
        simp only [hT, hS, hW, Bool.and_eq_true, decide_eq_true_eq] at this
        exact ⟨t, sz, wd, rfl, hS, rfl, this.1⟩

theorem rowsOK_of_wf {d : List ActiveObj} {bufs : List (List Bytes)}
    (hd : ∀ x ∈ d, ∀ dsc, x.idx = some dsc → wfIdx (idxOfDesc dsc) = true) (h : wfDaqChunk d bufs = true) :
    RowsOK d bufs := by
  intro x hx s hs
  cases d with
  | nil => cases hx
  | cons a0 as =>
    simp only [wfDaqChunk, Bool.and_eq_true, List.all_eq_true, decide_eq_true_eq] at h
    obtain ⟨⟨⟨hall, _⟩, hrng⟩, _⟩ := h
    cases hi : x.idx with
    | none => simp [daqScalers, hi] at hs
    | some dsc =>
      cases dsc with
      | std ty n total => simp [daqScalers, hi] at hs
      | daq dg ty n sc w =>
        have hsc : daqScalers x = sc := by simp [daqScalers, hi]
        have hdg : dgOf x = dg := by simp [dgOf, hi]
        have hw : daqWidths x = w := by simp [daqWidths, hi]
        rw [hsc] at hs
        obtain ⟨t, sz, wd, ht, hsz, hwd, hle⟩ := scaler_of_wfIdx (hd x hx _ hi) s hs
        refine ⟨t, sz, ht, hsz, ?_⟩
        intro row hrow
        have hww := hall x hx
        rw [hw] at hww
        have hb : s.buffer < w.length := by
          rcases Nat.lt_or_ge s.buffer w.length with h | h
          · exact h
          · rw [List.getElem?_eq_none h] at hwd; cases hwd
        have := (hrng s.buffer (List.mem_range.mpr (by rw [← hww]; exact hb))).1 row hrow
        rw [this, ← hww, hdg, List.getD_eq_getElem?_getD, hwd]
        exact hle

theorem segDen_of_wfSeg {s : SegEnc} {a : List ActiveObj} {isLast : Bool} (hwf : wfSeg s a isLast = true)
    (hd : ∀ x ∈ a, ∀ dsc, x.idx = some dsc → wfIdx (idxOfDesc dsc) = true) (hc : FieldsCompatD (dataObjs a)) :
    SegDen s a := by
  intro hq
  refine ⟨?_, hc⟩
  intro c hcm
  simp only [wfSeg, Bool.and_eq_true, hq, if_true, List.all_eq_true] at hwf
  exact rowsOK_of_wf (fun x hx => hd x (List.mem_filter.mp hx).1) (hwf.2.2 c hcm)

theorem segDen_of_wfSegs : ∀ (ss : List SegEnc) (as : List (List ActiveObj)), wfSegs ss as = true →
    (∀ a ∈ as, ∀ x ∈ a, ∀ dsc, x.idx = some dsc → wfIdx (idxOfDesc dsc) = true) →
    (∀ a ∈ as, FieldsCompatD (dataObjs a)) → ∀ sa ∈ ss.zip as, SegDen sa.1 sa.2 := by
  intro ss
  induction ss with
  | nil => intro as _ _ _ sa hsa; simp at hsa
  | cons s ss ih =>
    intro as hwf hd hc sa hsa
    cases as with
    | nil => simp at hsa
    | cons a as =>
      simp only [wfSegs, Bool.and_eq_true] at hwf
      simp only [List.zip_cons_cons, List.mem_cons] at hsa
      rcases hsa with rfl | hsa
      · exact segDen_of_wfSeg hwf.1 (hd a List.mem_cons_self) (hc a List.mem_cons_self)
      · exact ih as hwf.2 (fun a' ha' => hd a' (List.mem_cons_of_mem _ ha'))
          (fun a' ha' => hc a' (List.mem_cons_of_mem _ ha')) sa hsa

theorem wellFormed_acts {e : FileEnc} (h : wellFormed e = true) :
    ∃ acts, activeLists none [] e = .ok acts ∧ wfSegs e acts = true := by
  unfold wellFormed at h
  cases ha : activeLists none [] e with
  | error r => rw [ha] at h; cases h
  | ok acts => rw [ha] at h; exact ⟨acts, rfl, h⟩

/-- **the meaning does not depend on the byte order of the segments** -/
theorem denote_withEndian {e : FileEnc} (hwf : wellFormed e = true) (hc : FieldsCompat e) (f : Nat → Bool) :
    denote (withEndian f e) = denote e := by
  obtain ⟨acts, ha, hw⟩ := wellFormed_acts hwf
  unfold denote
  rw [activeLists_withEndian, ha]
  simp only
  rw [withEndian_eq ha, denoteSegs_weSegs f e acts 0 [] (activeLists_len e none [] acts ha)
    (segDen_of_wfSegs e acts hw (actsWfDesc ha hw) (hc acts ha))]

end Tdms.Proofs.C15Whole
