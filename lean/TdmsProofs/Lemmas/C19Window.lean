import TdmsProofs.Lemmas.C19Segment

/-! # C19: windows (`readRawDataForChannel`) and index reads -/

namespace Tdms.Proofs.C19

open Tdms Tdms.Model Tdms.Generated Tdms.Proofs.C05

/-- inside the 4 tag bytes at the start of segment `s` -/
def InTag (s : Segment) (x : Nat × Nat) : Prop := s.position ≤ x.1 ∧ x.1 + x.2 ≤ s.position + 4

theorem tr_verifySegmentStart (file : Bytes) (s : Segment) :
    Tr (fun _ => True) (verifySegmentStart file s) (InTag s) 4 (fun _ _ => True) := by
  unfold verifySegmentStart
  refine Tr.bind (B1 := 0) (Q := fun _ c => c = s.position) (Tr.fSeek _ rfl) (fun _ => ?_)
    (Nat.le_of_eq (Nat.zero_add _))
  refine Tr.bind (B2 := 0) (Q := fun _ _ => True)
    ((Span.fRead file 4 s.position).conseq (fun _ h => h) (fun _ h => h) (Nat.le_refl _) (fun _ _ _ => trivial))
    (fun tag => ?_) (Nat.le_refl _)
  exact Tr.ite (fun _ => Tr.throw _) (fun _ => Tr.pure _ (fun _ _ => trivial))

/-- what one segment of a window may read: its tag, and the chunks of its plan -/
def SegAllowed (s : Segment) (p : Bytes) (plan : Option (Int × Int × Int)) (x : Nat × Nat) : Prop :=
  InTag s x ∨ ∃ co skip nc, plan = some (co, skip, nc) ∧ SegDataAllowed s p co.toNat nc x

def planBudget (s : Segment) (p : Bytes) : Option (Int × Int × Int) → Nat
  | none => 0
  | some (co, _, nc) => segBudget s p co.toNat nc

/-- the byte budget of a window: per segment 4 tag bytes and the planned chunks -/
def windowBudget (p : Bytes) (ix : ChannelIndex) (offset endIndex : Int) (startSeg endSeg : Nat) :
    List Segment → Nat → Nat
  | [], _ => 0
  | s :: rest, segIndex =>
    4 + planBudget s p (segPlan p ix offset endIndex startSeg endSeg segIndex s) +
      windowBudget p ix offset endIndex startSeg endSeg rest (segIndex + 1)

theorem tr_windowLoop (f : OpenFile) (p : Bytes) (ix : ChannelIndex) (offset endIndex length : Int)
    (startSeg endSeg : Nat) (segs : List Segment)
    (hsized : ∀ s ∈ segs, SizedIn s p)
    (segIndex : Nat) (vr : Int) :
    Tr (fun _ => True) (windowLoop f p ix offset endIndex length startSeg endSeg segs segIndex vr)
      (fun x => ∃ k s, segs[k]? = some s ∧
        SegAllowed s p (segPlan p ix offset endIndex startSeg endSeg (segIndex + k) s) x)
      (windowBudget p ix offset endIndex startSeg endSeg segs segIndex) (fun _ _ => True) := by
  induction segs generalizing segIndex vr with
  | nil => unfold windowLoop; exact Tr.pure _ (fun _ _ => trivial)
  | cons s rest ih =>
    have ih := ih (fun s' hs' => hsized s' (List.mem_cons_of_mem _ hs'))
    have hrest : ∀ vr', Tr (fun _ => True)
        (windowLoop f p ix offset endIndex length startSeg endSeg rest (segIndex + 1) vr')
        (fun x => ∃ k s', (s :: rest)[k]? = some s' ∧
          SegAllowed s' p (segPlan p ix offset endIndex startSeg endSeg (segIndex + k) s') x)
        (windowBudget p ix offset endIndex startSeg endSeg rest (segIndex + 1)) (fun _ _ => True) := by
      intro vr'
      refine (ih (segIndex + 1) vr').conseq (fun _ h => h) (fun x ⟨k, s', hk, hx⟩ => ⟨k + 1, s', ?_, ?_⟩)
        (Nat.le_refl _) (fun _ _ h => h)
      · simpa using hk
      · have : segIndex + (k + 1) = segIndex + 1 + k := by omega
        rw [this]; exact hx
    unfold windowLoop windowBudget
    refine Tr.bind (B1 := 4) (Q := fun _ _ => True)
      ((tr_verifySegmentStart f.file s).conseq (fun _ h => h)
        (fun x hx => ⟨0, s, rfl, Or.inl hx⟩) (Nat.le_refl _) (fun _ _ h => h))
      (fun _ => ?_) (Nat.le_of_eq (Nat.add_assoc _ _ _).symm)
    cases hplan : segPlan p ix offset endIndex startSeg endSeg segIndex s with
    | none =>
      dsimp only [planBudget]
      rw [Nat.zero_add]
      exact hrest vr
    | some plan =>
      obtain ⟨co, skip, nc⟩ := plan
      dsimp only [planBudget]
      refine Tr.bind (Q := fun _ _ => True)
        ((tr_segReadChannel f.file s p (hsized s (List.mem_cons_self ..)) co.toNat nc).conseq (fun _ h => h)
          (fun x hx => ⟨0, s, rfl, Or.inr ⟨co, skip, nc, by simpa using hplan, hx⟩⟩) (Nat.le_refl _) (fun _ _ h => h))
        (fun chunks => ?_) (Nat.le_refl _)
      refine Tr.bind (B2 := 0) (Q := fun _ _ => True) (hrest _) (fun _ => Tr.pure _ (fun _ _ => trivial))
        (Nat.le_refl _)

/-- the window arithmetic of `read_raw_data_for_channel` -/
structure Window where
  ix : ChannelIndex
  endIndex : Int
  len : Int
  startSeg : Nat
  endSeg : Nat

def windowOf (f : OpenFile) (p : Bytes) (offset : Int) (length : Option Int) : Window :=
  let ix := buildIndex f.segments p
  let numValues : Int := (((f.objects.get p).map (·.numValues)).getD 0 : Nat)
  let maxLen := numValues - offset
  let len : Int := match length with
    | none => maxLen
    | some l => min l maxLen
  let endIndex := offset + len
  { ix := ix, endIndex := endIndex, len := len,
    startSeg := ix.firstSegment + searchRight ix.offsets offset,
    endSeg := ix.firstSegment + searchLeft ix.offsets endIndex }

/-- the segments a window touches -/
def windowSegs (f : OpenFile) (w : Window) : List Segment :=
  (f.segments.drop w.startSeg).take (w.endSeg + 1 - w.startSeg)

theorem readRawDataForChannel_eq (f : OpenFile) (p : Bytes) (offset : Int) (length : Option Int) :
    readRawDataForChannel f p offset length =
      windowLoop f p (windowOf f p offset length).ix offset (windowOf f p offset length).endIndex
        (windowOf f p offset length).len (windowOf f p offset length).startSeg (windowOf f p offset length).endSeg
        (windowSegs f (windowOf f p offset length)) (windowOf f p offset length).startSeg 0 := rfl

theorem windowSegs_getElem? (f : OpenFile) (w : Window) (k : Nat) (s : Segment)
    (h : (windowSegs f w)[k]? = some s) : f.segments[w.startSeg + k]? = some s ∧ w.startSeg + k ≤ w.endSeg := by
  unfold windowSegs at h
  rw [List.getElem?_take] at h
  split at h
  · rw [List.getElem?_drop] at h
    exact ⟨h, by omega⟩
  · cases h

theorem tr_readRawDataForChannel (f : OpenFile) (p : Bytes) (offset : Int) (length : Option Int)
    (hsized : ∀ s ∈ f.segments, SizedIn s p) :
    Tr (fun _ => True) (readRawDataForChannel f p offset length)
      (fun x => ∃ k s, (windowOf f p offset length).startSeg ≤ k ∧ k ≤ (windowOf f p offset length).endSeg ∧
        f.segments[k]? = some s ∧
        SegAllowed s p (segPlan p (windowOf f p offset length).ix offset (windowOf f p offset length).endIndex
          (windowOf f p offset length).startSeg (windowOf f p offset length).endSeg k s) x)
      (windowBudget p (windowOf f p offset length).ix offset (windowOf f p offset length).endIndex
        (windowOf f p offset length).startSeg (windowOf f p offset length).endSeg
        (windowSegs f (windowOf f p offset length)) (windowOf f p offset length).startSeg) (fun _ _ => True) := by
  rw [readRawDataForChannel_eq]
  refine (tr_windowLoop f p _ offset _ _ _ _ (windowSegs f (windowOf f p offset length)) ?_ _ 0).conseq
    (fun _ h => h) (fun x ⟨k, s, hk, hx⟩ => ?_) (Nat.le_refl _) (fun _ _ h => h)
  · intro s hs
    apply hsized
    unfold windowSegs at hs
    exact List.mem_of_mem_drop (List.mem_of_mem_take hs)
  · obtain ⟨h1, h2⟩ := windowSegs_getElem? f _ k s hk
    exact ⟨_, s, Nat.le_add_right _ _, h2, h1, hx⟩

/-! ## index reads -/

/-- the segment `read_channel_chunk_for_index(j)` goes to -/
def indexSegIdx (f : OpenFile) (p : Bytes) (j : Nat) : Nat :=
  (buildIndex f.segments p).firstSegment + searchRight (buildIndex f.segments p).offsets j

/-- the chunk of that segment `read_channel_chunk_for_index(j)` reads -/
def indexChunkIdx (f : OpenFile) (p : Bytes) (j : Nat) (s : Segment) : Nat :=
  let ix := buildIndex f.segments p
  let segIndex := ix.firstSegment + searchRight ix.offsets j
  let cs := match getSegmentObject s p with
    | some o => o.numberValues
    | none => 0
  let segStart := if segIndex = ix.firstSegment then 0 else ix.offsets.getD (segIndex - ix.firstSegment - 1) 0
  (j - segStart) / cs

/-- the arithmetic of `read_channel_chunk_for_index`: (segment index, segment, chunk index) -/
def indexPlan (f : OpenFile) (p : Bytes) (j : Nat) : Option (Nat × Segment × Nat) :=
  let ix := buildIndex f.segments p
  let segIndex := ix.firstSegment + searchRight ix.offsets j
  match f.segments[segIndex]? with
  | none => none
  | some s =>
    let cs := match getSegmentObject s p with
      | some o => o.numberValues
      | none => 0
    if cs = 0 then none
    else
      let segStart := if segIndex = ix.firstSegment then 0 else ix.offsets.getD (segIndex - ix.firstSegment - 1) 0
      some (segIndex, s, (j - segStart) / cs)

def indexBudget (f : OpenFile) (p : Bytes) (j : Nat) : Nat :=
  match indexPlan f p j with
  | some (_, s, ci) => 4 + segBudget s p ci 1
  | none => 0

theorem tr_readChannelChunkForIndex (f : OpenFile) (p : Bytes) (j : Nat)
    (hsized : ∀ s ∈ f.segments, SizedIn s p) :
    Tr (fun _ => True) (readChannelChunkForIndex f p j)
      (fun x => ∃ k s ci, indexPlan f p j = some (k, s, ci) ∧ f.segments[k]? = some s ∧
        (InTag s x ∨ SegDataAllowed s p ci 1 x))
      (indexBudget f p j) (fun _ _ => True) := by
  unfold readChannelChunkForIndex
  dsimp only
  cases hseg : f.segments[(buildIndex f.segments p).firstSegment + searchRight (buildIndex f.segments p).offsets ↑j]? with
  | none => exact Tr.throw _
  | some s =>
    dsimp only
    have hs : s ∈ f.segments := List.mem_of_getElem? hseg
    refine Tr.ite (fun h0 => ?_) (fun h0 => ?_)
    · rw [throw_bind_F]; exact Tr.throw _
    · have hplan : indexPlan f p j = some (indexSegIdx f p j, s, indexChunkIdx f p j s) := by
        unfold indexPlan
        dsimp only
        rw [hseg]
        dsimp only
        exact (if_neg h0).trans rfl
      have hb : indexBudget f p j = 4 + segBudget s p (indexChunkIdx f p j s) 1 := by
        unfold indexBudget; rw [hplan]
      rw [hb]
      refine Tr.bind (B1 := 4) (Q := fun _ _ => True)
        ((tr_verifySegmentStart f.file s).conseq (fun _ h => h)
          (fun x hx => ⟨_, s, _, hplan, hseg, Or.inl hx⟩) (Nat.le_refl _) (fun _ _ h => h))
        (fun _ => ?_) (Nat.le_refl _)
      refine Tr.bind (B2 := 0) (Q := fun _ _ => True)
        ((tr_segReadChannel f.file s p (hsized s hs) (indexChunkIdx f p j s) 1).conseq (fun _ h => h)
          (fun x hx => ⟨_, s, _, hplan, hseg, Or.inr hx⟩) (Nat.le_refl _) (fun _ _ h => h))
        (fun chunks => ?_) (Nat.le_refl _)
      split
      · exact Tr.pure _ (fun _ _ => trivial)
      · exact Tr.throw _

/-- a cache hit performs no I/O at all -/
theorem cache_hit_run (f : OpenFile) (p : Bytes) (c : ChunkCache) (i : Int) (j : Nat)
    (hn : normIndex f p i = some j) (hlo : c.lo ≤ j) (hhi : j < c.hi) (st : FState) :
    channelReadAtIndex f p (some c) i st = .ok ((c.vals.getD (j - c.lo) [], some c), st) := by
  rw [channelReadAtIndex_eq, hn]
  dsimp only
  rw [if_pos ⟨hlo, hhi⟩]
  rfl

theorem tr_missPath (f : OpenFile) (p : Bytes) (j : Nat)
    (hsized : ∀ s ∈ f.segments, SizedIn s p) :
    Tr (fun _ => True) (missPath f p j)
      (fun x => ∃ k s ci, indexPlan f p j = some (k, s, ci) ∧ f.segments[k]? = some s ∧
        (InTag s x ∨ SegDataAllowed s p ci 1 x))
      (indexBudget f p j) (fun _ _ => True) := by
  unfold missPath
  refine Tr.bind (B2 := 0) (Q := fun _ _ => True) (tr_readChannelChunkForIndex f p j hsized) (fun x => ?_)
    (Nat.le_refl _)
  dsimp only
  split
  · exact Tr.pure _ (fun _ _ => trivial)
  · exact Tr.throw _

/-- an index read (hit or miss): at most one segment tag and one chunk -/
theorem tr_channelReadAtIndex (f : OpenFile) (p : Bytes) (cache : Option ChunkCache) (i : Int)
    (hsized : ∀ s ∈ f.segments, SizedIn s p) :
    Tr (fun _ => True) (channelReadAtIndex f p cache i)
      (fun x => ∃ j k s ci, normIndex f p i = some j ∧ indexPlan f p j = some (k, s, ci) ∧
        f.segments[k]? = some s ∧ (InTag s x ∨ SegDataAllowed s p ci 1 x))
      (match normIndex f p i with | some j => indexBudget f p j | none => 0) (fun _ _ => True) := by
  rw [channelReadAtIndex_eq]
  cases hn : normIndex f p i with
  | none => exact Tr.throw _
  | some j =>
    dsimp only
    have hmiss := (tr_missPath f p j hsized).conseq (P' := fun _ => True) (fun _ h => h)
      (fun x ⟨k, s, ci, h⟩ => (⟨j, k, s, ci, rfl, h⟩ : ∃ j' k s ci, some j = some j' ∧ indexPlan f p j' = some (k, s, ci) ∧
        f.segments[k]? = some s ∧ (InTag s x ∨ SegDataAllowed s p ci 1 x)))
      (Nat.le_refl _) (fun _ _ h => h)
    cases cache with
    | none => exact hmiss
    | some c =>
      dsimp only
      exact Tr.ite (fun _ => Tr.pure _ (fun _ _ => trivial)) (fun _ => hmiss)

end Tdms.Proofs.C19
