/-
  C10 whole: invariants of every successful eager read (`readFile file = .ok r`):
  object paths are distinct, the property names of every object are distinct, and only channel objects
  (two path components) WITH a data type hold values.  Core Lean only.
-/
import TdmsProofs.Lemmas.C10WholeDefs
import TdmsProofs.Lemmas.LeadInLoopLemmas

namespace Tdms.Proofs.C10Whole

open Tdms Tdms.Generated Tdms.Model Tdms.Proofs.LeadIn
open Tdms.Proofs.C01Compose (content contentOfDenote ObjView valuesIn)

/-! ## the metadata table -/

/-- paths distinct, property names distinct -/
def MetaInv (ms : ObjMetas) : Prop := (ms.map (·.path)).Nodup ∧ ∀ m ∈ ms, (m.props.map (·.name)).Nodup

theorem modify_inv {ms : ObjMetas} (p : Bytes) (f : ObjMeta → ObjMeta) (h : MetaInv ms)
    (hpath : ∀ m, (f m).path = m.path)
    (hprops : ∀ m, (m.props.map (·.name)).Nodup → ((f m).props.map (·.name)).Nodup) :
    MetaInv (ms.modify p f) := by
  unfold ObjMetas.modify
  split
  · constructor
    · have : (ms.map fun m => if m.path = p then f m else m).map (·.path) = ms.map (·.path) := by
        rw [List.map_map]
        apply List.map_congr_left
        intro m _
        simp only [Function.comp]
        split
        · exact hpath m
        · rfl
      rw [this]; exact h.1
    · intro m hm
      obtain ⟨m0, hm0, rfl⟩ := List.mem_map.1 hm
      split
      · exact hprops m0 (h.2 m0 hm0)
      · exact h.2 m0 hm0
  · rename_i hany
    constructor
    · rw [List.map_append, List.nodup_append]
      refine ⟨h.1, by simp, ?_⟩
      intro a ha b hb hab
      simp only [List.map_cons, List.map_nil, List.mem_singleton] at hb
      rw [hpath] at hb
      simp only at hb
      apply hany
      obtain ⟨m, hm, rfl⟩ := List.mem_map.1 ha
      exact List.any_eq_true.2 ⟨m, hm, by simp [hab, hb]⟩
    · intro m hm
      rcases List.mem_append.1 hm with hm | hm
      · exact h.2 m hm
      · simp only [List.mem_singleton] at hm
        subst hm
        exact hprops _ (by simp)

theorem updateObjectMetadata_inv (s : Segment) : ∀ (os : List SegObj) (prev : PrevObjs) (ms : ObjMetas)
    (prev' : PrevObjs) (ms' : ObjMetas), MetaInv ms → updateObjectMetadata s os prev ms = .ok (prev', ms') →
    MetaInv ms' := by
  intro os
  induction os with
  | nil => intro prev ms prev' ms' h e; simp only [updateObjectMetadata] at e; cases e; exact h
  | cons o os ih =>
    intro prev ms prev' ms' h e
    simp only [updateObjectMetadata] at e
    split at e
    · cases e
    · split at e
      · cases e
      · refine ih _ _ _ _ (modify_inv _ _ h ?_ ?_) e
        · intro m; rfl
        · intro m hm; exact hm

theorem setPropVal_names (ps : List PropVal) (q : PropVal) (h : (ps.map (·.name)).Nodup) :
    ((setPropVal ps q).map (·.name)).Nodup := by
  unfold setPropVal
  split
  · have : (ps.map fun x => if x.name = q.name then q else x).map (·.name) = ps.map (·.name) := by
      rw [List.map_map]
      apply List.map_congr_left
      intro x _
      simp only [Function.comp]
      split
      · rename_i e; exact e.symm
      · rfl
    rw [this]; exact h
  · rename_i hany
    rw [List.map_append, List.nodup_append]
    refine ⟨h, by simp, ?_⟩
    intro a ha b hb hab
    simp only [List.map_cons, List.map_nil, List.mem_singleton] at hb
    apply hany
    obtain ⟨x, hx, rfl⟩ := List.mem_map.1 ha
    exact List.any_eq_true.2 ⟨x, hx, by simp [hab, hb]⟩

theorem foldl_setPropVal_names (qs ps : List PropVal) (h : (ps.map (·.name)).Nodup) :
    ((qs.foldl setPropVal ps).map (·.name)).Nodup := by
  induction qs generalizing ps with
  | nil => exact h
  | cons q qs ih => exact ih _ (setPropVal_names ps q h)

theorem updateObjectProperties_inv : ∀ (props : List (Bytes × List PropVal)) (ms : ObjMetas), MetaInv ms →
    MetaInv (updateObjectProperties ms props) := by
  intro props
  induction props with
  | nil => intro ms h; exact h
  | cons pp rest ih =>
    intro ms h
    obtain ⟨p, ps⟩ := pp
    simp only [updateObjectProperties]
    exact ih _ (modify_inv _ _ h (fun _ => rfl) (fun m hm => foldl_setPropVal_names ps m.props hm))

theorem loopStep_inv {file : Bytes} {isIndex : Bool} {dfs : Option Nat} {filePos segPos : Nat} {st : ReaderState}
    (h : MetaInv st.objects) :
    (∀ st', loopStep file isIndex dfs filePos segPos st = .ok (.done st') → MetaInv st'.objects) ∧
    (∀ fp sp st', loopStep file isIndex dfs filePos segPos st = .ok (.next fp sp st') → MetaInv st'.objects) := by
  unfold loopStep
  split
  · exact ⟨fun _ e => (by cases e), fun _ _ _ e => (by cases e)⟩
  · split
    · exact ⟨fun _ e => (by cases e; exact h), fun _ _ _ e => (by cases e)⟩
    · exact ⟨fun _ e => (by cases e; exact h), fun _ _ _ e => (by cases e)⟩
  · split
    · exact ⟨fun _ e => (by cases e), fun _ _ _ e => (by cases e)⟩
    · split
      · exact ⟨fun _ e => (by cases e), fun _ _ _ e => (by cases e)⟩
      · rename_i hup
        refine ⟨fun _ e => (by cases e), fun _ _ _ e => ?_⟩
        cases e
        exact updateObjectProperties_inv _ _ (updateObjectMetadata_inv _ _ _ _ _ _ h hup)

theorem readMetadataLoop_inv (file : Bytes) (isIndex : Bool) (dfs : Option Nat) :
    ∀ (fuel filePos segPos : Nat) (st st' : ReaderState), MetaInv st.objects →
      readMetadataLoop file isIndex dfs fuel filePos segPos st = .ok st' → MetaInv st'.objects := by
  intro fuel
  induction fuel with
  | zero => intro _ _ st st' h e; simp only [readMetadataLoop] at e; cases e; exact h
  | succ n ih =>
    intro filePos segPos st st' h e
    rw [readMetadataLoop_succ] at e
    have hs := loopStep_inv (file := file) (isIndex := isIndex) (dfs := dfs) (filePos := filePos)
      (segPos := segPos) h
    cases hl : loopStep file isIndex dfs filePos segPos st with
    | error err => rw [hl] at e; cases e
    | ok res =>
      rw [hl] at e
      cases res with
      | done s2 => simp only at e; cases e; exact hs.1 _ hl
      | next fp sp s2 => exact ih fp sp s2 st' (hs.2 _ _ _ hl) e

theorem readMetadata_inv {file : Bytes} {st : ReaderState} (h : readMetadata file = .ok st) : MetaInv st.objects :=
  readMetadataLoop_inv file false _ _ _ _ _ _ ⟨by simp, by intro m hm; cases hm⟩ h

theorem eq_of_nodup_paths : ∀ {ms : ObjMetas}, (ms.map (·.path)).Nodup → ∀ {a b : ObjMeta}, a ∈ ms → b ∈ ms →
    a.path = b.path → a = b := by
  intro ms
  induction ms with
  | nil => intro _ a b ha; cases ha
  | cons x xs ih =>
    intro h a b ha hb hp
    rw [List.map_cons, List.nodup_cons] at h
    rcases List.mem_cons.1 ha with hax | hax
    · rcases List.mem_cons.1 hb with hbx | hbx
      · rw [hax, hbx]
      · exact (h.1 (List.mem_map.2 ⟨b, hbx, by rw [← hp, hax]⟩)).elim
    · rcases List.mem_cons.1 hb with hbx | hbx
      · exact (h.1 (List.mem_map.2 ⟨a, hax, by rw [hp, hbx]⟩)).elim
      · exact ih h.2 hax hbx hp

/-! ## the receivers -/

theorem foldl_except_inv {α β : Type} (P : α → Prop) (f : Except Err α → β → Except Err α)
    (hf : ∀ acc b a, (∀ a0, acc = .ok a0 → P a0) → f acc b = .ok a → P a) :
    ∀ (l : List β) (acc : Except Err α) (a : α), (∀ a0, acc = .ok a0 → P a0) → l.foldl f acc = .ok a → P a := by
  intro l
  induction l with
  | nil => intro acc a hacc e; exact hacc a e
  | cons x xs ih =>
    intro acc a hacc e
    rw [List.foldl_cons] at e
    exact ih _ a (fun a0 h0 => hf acc x a0 hacc h0) e

theorem receiveChunk_paths (c : RawChunk) (rs rs' : List ChannelData)
    (h : receiveChunk rs c = .ok rs') : rs'.map (·.path) = rs.map (·.path) := by
  unfold receiveChunk at h
  refine foldl_except_inv (fun a => a.map (·.path) = rs.map (·.path)) _ ?_ c (.ok rs) rs'
    (fun a0 h0 => by cases h0; rfl) h
  intro acc b a hacc e
  cases acc with
  | error err => cases e
  | ok rs1 =>
    have hrs := hacc rs1 rfl
    simp only [bind, Except.bind] at e
    split at e
    · split at e
      · cases e
      · cases e; exact hrs
    · cases e
      simp only at hrs ⊢
      rw [← hrs, List.map_map]
      apply List.map_congr_left
      intro r _
      simp only [Function.comp]
      split
      · rfl
      · split <;> rfl

theorem newReceiver_path {m : ObjMeta} {c : ChannelData} (h : newReceiver m = some c) :
    c.path = m.path ∧ m.dataType ≠ none := by
  unfold newReceiver at h
  split at h
  · cases h
  · rename_i ty hty
    split at h <;> cases h <;> exact ⟨rfl, by rw [hty]; simp⟩

/-- the paths of the receivers of a successful read: channel objects with a data type -/
theorem readFile_receiver_paths {file : Bytes} {r : EagerResult} (h : readFile file = .ok r) :
    MetaInv r.state.objects ∧
    ∀ p ∈ r.channels.map (·.path), ∃ m ∈ r.state.objects, m.path = p ∧ countComponents m.path = 2 ∧
      m.dataType ≠ none := by
  unfold readFile at h
  simp only [bind, Except.bind] at h
  split at h
  · cases h
  · rename_i st hst
    split at h
    · cases h
    · rename_i v hv
      obtain ⟨chunks, fst⟩ := v
      simp only at h
      split at h
      · cases h
      · rename_i rs hrs
        simp only [pure, Except.pure] at h
        cases h
        refine ⟨readMetadata_inv hst, ?_⟩
        simp only
        -- the fold keeps the receivers' paths
        have hp : rs.map (·.path) =
            ((st.objects.filter fun m => countComponents m.path = 2).filterMap newReceiver).map (·.path) := by
          refine foldl_except_inv (fun a => a.map (·.path) =
            ((st.objects.filter fun m => countComponents m.path = 2).filterMap newReceiver).map (·.path)) _ ?_
            chunks _ rs (fun a0 h0 => by cases h0; rfl) hrs
          intro acc c a hacc ha
          cases acc with
          | error err => cases ha
          | ok rs1 =>
            cases h2 : receiveChunk rs1 c with
            | error err =>
              simp [h2] at ha
            | ok rs2 =>
              cases h3 : checkCapacity st rs2 with
              | error err =>
                simp [h2, h3] at ha
              | ok u =>
                have : (Except.ok rs2 : Except Err (List ChannelData)) = .ok a := by
                  simpa [bind, Except.bind, h2, h3, pure, Except.pure] using ha
                injection this with this
                subst this
                show rs2.map (·.path) = _
                rw [receiveChunk_paths c rs1 _ h2]
                exact hacc rs1 rfl
        intro p hpm
        rw [hp] at hpm
        obtain ⟨c, hc, rfl⟩ := List.mem_map.1 hpm
        obtain ⟨m, hm, hn⟩ := List.mem_filterMap.1 hc
        obtain ⟨hm1, hm2⟩ := List.mem_filter.1 hm
        obtain ⟨e1, e2⟩ := newReceiver_path hn
        exact ⟨m, hm1, e1.symm, by simpa using hm2, e2⟩

/-- **invariants of a successful eager read** -/
theorem readFile_inv {file : Bytes} {r : EagerResult} (h : readFile file = .ok r) :
    (r.state.objects.map (·.path)).Nodup ∧ PropNamesDistinct r ∧
    ∀ m ∈ r.state.objects, (m.dataType = none ∨ countComponents m.path ≠ 2) → valuesIn r.channels m.path = [] := by
  obtain ⟨hinv, hrec⟩ := readFile_receiver_paths h
  refine ⟨hinv.1, hinv.2, ?_⟩
  intro m hm hcase
  unfold valuesIn
  cases hf : r.channels.find? (·.path = m.path) with
  | none => rfl
  | some c =>
    exfalso
    have hc := List.mem_of_find?_eq_some hf
    have hcp := List.find?_some hf
    simp only [decide_eq_true_eq] at hcp
    obtain ⟨m', hm', hp', h2, hty⟩ := hrec c.path (List.mem_map_of_mem hc)
    -- same path, paths distinct: the same object
    have : m' = m := eq_of_nodup_paths hinv.1 hm' hm (by rw [hp', hcp])
    subst this
    rcases hcase with hcase | hcase
    · exact hty hcase
    · exact hcase h2

end Tdms.Proofs.C10Whole
