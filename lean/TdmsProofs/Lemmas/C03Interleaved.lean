/-
  C03 — interleaved segments, on ARBITRARY bytes: the lazy single-channel read of the whole segment
  returns, chunk for chunk, the channel's entries of what the eager reader returns (both make the
  same `readInterleavedChunks` call at the same position).  Core Lean only.
-/
import TdmsProofs.Lemmas.C03Seg

namespace Tdms.Proofs.C03

open Tdms Tdms.Generated Tdms.Model Tdms.Proofs.Bytes

theorem get_nil (p : Bytes) : RawChunk.get [] p = {} := rfl

/-- **Key lemma (interleaved layout, arbitrary bytes).**  If the eager read of an interleaved segment
    succeeds (from any file state), the lazy read of one channel over the whole segment succeeds from
    any file state and returns the channel's entry of every eager chunk, in order — including the
    extra empty chunk of a segment without the raw-data flag. -/
theorem interleaved_segment_agrees (file : Bytes) (s : Segment) (p : Bytes) (csz : Nat)
    (hk : dataReaderKind s = .ok .interleaved) (hc : chunkSize s.objects = .ok csz)
    (st st1 : FState) (chunks : List RawChunk) (h : segmentReadRawData file s st = .ok (chunks, st1)) (st' : FState) :
    ∃ st2, segReadChannel file s p 0 none st' = .ok (chunks.map (fun c => RawChunk.get c p), st2) := by
  unfold segmentReadRawData at h
  rw [F_bind_ok (fSeek_run _ _), hk, F_bind_ok (liftE_ok _ _)] at h
  simp only [] at h
  have hpd := posDet_readInterleavedChunks file s (s.objects.filter (·.hasData)) s.numChunks
  cases hr : readInterleavedChunks file s (s.objects.filter (·.hasData)) s.numChunks ⟨s.dataPosition, st.trace⟩ with
  | error e =>
    have : (readInterleavedChunks file s (s.objects.filter (·.hasData)) s.numChunks >>= fun chunks =>
        (pure ((if !hasFlag s.toc kTocRawData then [([] : RawChunk)] else []) ++ chunks) : F (List RawChunk)))
        ⟨s.dataPosition, st.trace⟩ = .error e := by
      show StateT.bind _ _ _ = _
      simp [StateT.bind, hr, bind, Except.bind]
    rw [this] at h; cases h
  | ok r =>
    obtain ⟨cs, stc⟩ := r
    rw [F_bind_ok hr] at h
    simp only [F_pure, Except.ok.injEq, Prod.mk.injEq] at h
    obtain ⟨hchunks, _⟩ := h
    have hat := hpd.runAt_of_run hr
    obtain ⟨tr2, h2⟩ := hpd.run_ok hat st'.trace
    unfold segReadChannel
    rw [F_bind_ok (fSeek_run _ _), hc, F_bind_ok (liftE_ok _ _)]
    rw [if_neg (by omega)]
    simp only []
    rw [hk, F_bind_ok (liftE_ok _ _), F_bind_ok (fTell_run _)]
    simp only []
    rw [if_neg (by omega)]
    have hn : ((s.numChunks : Int) - ((0 : Nat) : Int)).toNat = s.numChunks := by omega
    rw [hn, F_bind_ok h2]
    rw [← hchunks]
    by_cases hemp : (!(cs.map fun c => RawChunk.get c p).isEmpty) = true
    · rw [if_pos hemp, F_bind_ok (fSeek_run _ _)]
      refine ⟨⟨s.dataPosition + csz, tr2⟩, ?_⟩
      simp only [F_pure, List.map_append]
      split <;> rfl
    · rw [if_neg hemp]
      refine ⟨⟨stc.pos, tr2⟩, ?_⟩
      simp only [F_pure, List.map_append]
      split <;> rfl

end Tdms.Proofs.C03
