/-
  C10 (whole composition, defragment → read): definitions.

  * `defragView r`     — the content of the defragmented copy, defined from the eager read `r` of the source alone;
  * `copyOf`, `impliedViews`, `sameContentUpTo` — the relation "same content up to re-ordering and re-typing";
  * `CopyWritable`, `SourceCanonical` — the decidable conditions on the source.
  Core Lean only.
-/
import TdmsProofs.Properties.C10
import TdmsProofs.Properties.C07Checked

namespace Tdms.Proofs.C10Whole

open Tdms Tdms.Generated Tdms.Model Tdms.Model.Writer Tdms.Proofs.C08 Tdms.Proofs.C10
open Tdms.Proofs.C01Compose (content contentOfDenote ObjView valuesIn)

/-! ## the copy's content, from the source read alone -/

/-- the data type of a channel in the copy: none when the writer is handed an empty untyped array (source channel
    without data type, or an empty string / timestamp channel), otherwise the source type through `rewrittenType` -/
def copiedType (r : EagerResult) (m : ObjMeta) : Option Nat :=
  if (chanData r m).ty = tyVoid then none else some (chanData r m).ty

def rootView (r : EagerResult) : ObjView :=
  ⟨Path.componentsToPathBytes [], none, (rootProps r).map rereadProp, []⟩

def groupView (g : GroupLayout) : ObjView :=
  ⟨Path.componentsToPathBytes [g.name], none, g.props.map rereadProp, []⟩

def chanView (r : EagerResult) (g : Bytes) (cm : Bytes × ObjMeta) : ObjView :=
  ⟨Path.componentsToPathBytes [g, cm.1], copiedType r cm.2, cm.2.props.map rereadProp, (chanData r cm.2).vals⟩

/-- the view of the copy for a given layout -/
def viewOfLayout (r : EagerResult) (groups : List GroupLayout) : List ObjView :=
  rootView r :: groups.flatMap fun g => groupView g :: g.channels.map (chanView r g.name)

/-- **the content of the defragmented copy**: root, then per group (in `TdmsFile.groups()` order) the group and its
    channels (in `group.channels()` order); properties re-typed as `rereadProp` (the type `_to_tdms_value` picks for
    the Python value the reader handed out), data types through `rewrittenType`, values identical -/
def defragView (r : EagerResult) : List ObjView :=
  match fileLayout r.state.objects with
  | none => []
  | some groups => viewOfLayout r groups

/-! ## conditions on the source -/

/-- the source's objects have distinct property names (an invariant of the reader: `readFile_inv`) -/
def PropNamesDistinct (r : EagerResult) : Prop := ∀ m ∈ r.state.objects, (m.props.map (·.name)).Nodup

instance (r : EagerResult) : Decidable (PropNamesDistinct r) := by unfold PropNamesDistinct; infer_instance

/-- what the copy consists of fits the fields of the format: names / property values / counts below 2^32 resp. 2^64,
    values of their type's width (C08's `WritableProgram` on the `write_segment` calls of `defragment`), and the
    string data of one channel, offsets included, below 2^32 bytes (C07Whole's `stringTotalsFit`) -/
def CopyWritable (r : EagerResult) : Prop :=
  match fileLayout r.state.objects with
  | none => False
  | some groups => WritableProgram [defragSegs r groups] ∧ C07Whole.stringTotalsFit [defragSegs r groups]

instance (r : EagerResult) : Decidable (CopyWritable r) := by
  unfold CopyWritable; cases fileLayout r.state.objects <;> infer_instance

/-! ## "same content up to re-ordering and re-typing" -/

/-- is the path a channel path in canonical form? -/
def isChannelPath (p : Bytes) : Bool :=
  match classifyPath p with
  | .channel _ _ => true
  | _ => false

/-- the re-typing of channel data as a function of the source view: none for an empty string / timestamp channel
    (NumPy cannot tell the type of an empty object array), otherwise `rewrittenType` -/
def retype (o : ObjView) : Option Nat :=
  match o.dataType with
  | none => none
  | some ty =>
    if (ty = tyString ∨ ty = tyTimeStamp) ∧ o.values.isEmpty then none
    else if rewrittenType ty = tyVoid then none else some (rewrittenType ty)

/-- what the copy holds for one source object: same path, same values, properties through `rereadProp`, data type
    through `retype` (root and group objects are written without data) -/
def copyOf (o : ObjView) : ObjView :=
  ⟨o.path, if isChannelPath o.path then retype o else none, o.props.map rereadProp, o.values⟩

/-- the group name of a channel path -/
def groupOfChannel (p : Bytes) : Option Bytes :=
  match classifyPath p with
  | .channel g _ => some g
  | _ => none

/-- the objects `defragment` adds: the root when the source has none, and the groups known only through their
    channels — empty objects -/
def impliedPaths (src : List ObjView) : List Bytes :=
  (if src.any (fun o => classifyPath o.path = .root) then [] else [Path.componentsToPathBytes []]) ++
  ((src.filterMap fun o => groupOfChannel o.path).eraseDups.filter
      fun g => !(src.any fun o => classifyPath o.path = .group g)).map
    fun g => Path.componentsToPathBytes [g]

def impliedViews (src : List ObjView) : List ObjView := (impliedPaths src).map fun p => ⟨p, none, [], []⟩

/-- `dst` holds exactly the re-typed copies of the objects of `src` plus the implied empty objects, each path once -/
def sameContentUpTo (src dst : List ObjView) : Prop :=
  (dst.map (·.path)).Nodup ∧ ∀ o', o' ∈ dst ↔ o' ∈ src.map copyOf ∨ o' ∈ impliedViews src

instance (src dst : List ObjView) : Decidable (sameContentUpTo src dst) := by
  unfold sameContentUpTo
  have : Decidable (∀ o', o' ∈ dst ↔ o' ∈ src.map copyOf ∨ o' ∈ impliedViews src) :=
    decidable_of_iff ((∀ o' ∈ dst, o' ∈ src.map copyOf ∨ o' ∈ impliedViews src) ∧
        (∀ o' ∈ src.map copyOf, o' ∈ dst) ∧ (∀ o' ∈ impliedViews src, o' ∈ dst)) (by
      constructor
      · rintro ⟨h1, h2, h3⟩ o'
        exact ⟨h1 o', fun h => h.elim (h2 o') (h3 o')⟩
      · intro h
        exact ⟨fun o' ho => (h o').1 ho, fun o' ho => (h o').2 (.inl ho), fun o' ho => (h o').2 (.inr ho)⟩)
  infer_instance

/-- every object path of the source is in canonical form (`_components_to_path` of its components): `ObjectPath`
    identifies objects by their parsed components, so two different non-canonical spellings of one path would be
    merged by `defragment` -/
def SourceCanonical (r : EagerResult) : Prop :=
  ∀ m ∈ r.state.objects,
    match Path.pathComponentsBytes m.path with
    | .ok comps => Path.componentsToPathBytes comps = m.path
    | .error _ => False

instance (r : EagerResult) : Decidable (SourceCanonical r) := by
  unfold SourceCanonical
  have : ∀ m : ObjMeta, Decidable (match Path.pathComponentsBytes m.path with
    | .ok comps => Path.componentsToPathBytes comps = m.path
    | .error _ => False) := by
    intro m; cases Path.pathComponentsBytes m.path <;> infer_instance
  infer_instance

end Tdms.Proofs.C10Whole
