/-
  C01, the length-unknown marker on the last segment: the class `MultiStdU` (the class `MultiStd` of
  `C01Multi.lean` without `lengthUnknown = false`; `wellFormed` itself allows the marker on the last segment only),
  removal of the marker on the spec side (`unmark`: same active lists, same meaning, still well formed), and the
  composed theorem for a file whose last segment carries the marker.  Core Lean only.
-/
import TdmsProofs.Lemmas.C01MarkerFile
import TdmsProofs.Properties.C01Multi

namespace Tdms.Proofs.C01Marker

open Tdms Tdms.Generated Tdms.Model Tdms.Proofs.C02 Tdms.Proofs.C01Multi
open Tdms.Proofs.Bytes (canonProp)
open Tdms.Proofs.C01Compose (pairsChunk bump content contentOfDenote ObjView)

/-- the class of `C01Multi.lean` without the restriction on the next-segment offsets: every segment is contiguous
    and lists only `noData` / `matchesPrev` / standard indexes, and the file is well formed — which allows the
    length-unknown marker `0xFFFF_FFFF_FFFF_FFFF` in the lead-in of the LAST segment, and only there -/
structure MultiStdU (e : FileEnc) : Prop where
  contiguous : ∀ s ∈ e, s.interleaved = false
  std : ∀ s ∈ e, ∀ o ∈ s.objs, stdListed o
  wf : wellFormed e = true

theorem MultiStdU.of_multiStd {e : FileEnc} (h : MultiStd e) : MultiStdU e :=
  ⟨fun s hs => (h.segs s hs).contiguous, fun s hs => (h.segs s hs).std, h.wf⟩

/-! ## removing the marker on the spec side -/

theorem activeLists_unmark : ∀ (ss : List SegEnc) (prev : Option (List ActiveObj)) (last : LastIdx),
    activeLists prev last (ss.map unmark) = activeLists prev last ss := by
  intro ss
  induction ss with
  | nil => intro prev last; rfl
  | cons s ss ih =>
    intro prev last
    simp only [List.map_cons, activeLists]
    have : activeOfSeg prev last (unmark s) = activeOfSeg prev last s := rfl
    rw [this]
    cases activeOfSeg prev last s with
    | error r => rfl
    | ok al => simp only [ih]

theorem wfSeg_unmark (s : SegEnc) (a : List ActiveObj) (b : Bool) (h : wfSeg s a b = true) :
    wfSeg (unmark s) a b = true := by
  simp only [wfSeg, Bool.and_eq_true] at h ⊢
  exact ⟨⟨⟨⟨h.1.1.1.1, by simp [unmark]⟩, h.1.1.2⟩, h.1.2⟩, h.2⟩

theorem wfSegs_unmark : ∀ (ss : List SegEnc) (as : List (List ActiveObj)), wfSegs ss as = true →
    wfSegs (ss.map unmark) as = true := by
  intro ss
  induction ss with
  | nil => intro as h; exact h
  | cons s ss ih =>
    intro as h
    cases as with
    | nil => simp [wfSegs] at h
    | cons a as =>
      simp only [wfSegs, Bool.and_eq_true, List.map_cons] at h ⊢
      refine ⟨?_, ih as h.2⟩
      have : (ss.map unmark).isEmpty = ss.isEmpty := by cases ss <;> rfl
      rw [this]
      exact wfSeg_unmark s a _ h.1

/-- every segment but the last has an explicit next-segment offset -/
theorem wfSegs_known : ∀ (ss : List SegEnc) (as : List (List ActiveObj)), wfSegs ss as = true →
    ∀ s ∈ ss.dropLast, s.lengthUnknown = false := by
  intro ss
  induction ss with
  | nil => intro as _ s hs; cases hs
  | cons x xs ih =>
    intro as h s hs
    cases as with
    | nil => simp [wfSegs] at h
    | cons a as =>
      simp only [wfSegs, Bool.and_eq_true] at h
      cases xs with
      | nil => simp at hs
      | cons y ys =>
        simp only [List.dropLast_cons_cons, List.mem_cons] at hs
        rcases hs with rfl | hs
        · have h1 := h.1
          simp only [wfSeg, Bool.and_eq_true, List.isEmpty_cons] at h1
          have h5 := h1.1.1.1.2
          cases hu : s.lengthUnknown with
          | false => rfl
          | true => rw [hu] at h5; simp at h5
        · exact ih as h.2 s (by simpa using hs)

theorem map_unmark_of_known : ∀ (ss : List SegEnc), (∀ s ∈ ss, s.lengthUnknown = false) → ss.map unmark = ss := by
  intro ss h
  induction ss with
  | nil => rfl
  | cons s ss ih =>
    simp only [List.map_cons]
    rw [unmark_of_known s (h s List.mem_cons_self), ih (fun x hx => h x (List.mem_cons_of_mem _ hx))]

theorem denoteSegs_unmark : ∀ (ss : List SegEnc) (as : List (List ActiveObj)) (c : Content),
    denoteSegs c (ss.map unmark) as = denoteSegs c ss as := by
  intro ss
  induction ss with
  | nil => intro as c; rfl
  | cons s ss ih =>
    intro as c
    cases as with
    | nil => rfl
    | cons a as =>
      simp only [List.map_cons, denoteSegs]
      have : denoteSeg c (unmark s) a = denoteSeg c s a := rfl
      rw [this, ih]

theorem multiStd_unmark {e : FileEnc} (h : MultiStdU e) : MultiStd (e.map unmark) := by
  refine ⟨?_, ?_⟩
  · intro s hs
    obtain ⟨x, hx, rfl⟩ := List.mem_map.mp hs
    exact ⟨h.contiguous x hx, rfl, h.std x hx⟩
  · have := h.wf
    unfold wellFormed at this ⊢
    rw [activeLists_unmark]
    cases ha : activeLists none [] e with
    | error r => rw [ha] at this; cases this
    | ok acts =>
      rw [ha] at this
      exact wfSegs_unmark e acts this

theorem fileFits_unmark {e : FileEnc} (h : FileFits e) : FileFits (e.map unmark) := by
  intro s hs
  obtain ⟨x, hx, rfl⟩ := List.mem_map.mp hs
  exact ⟨(h x hx).nObjs, (h x hx).objs⟩

theorem segsOK_length : ∀ (ss : List SegEnc) (as : List (List ActiveObj)), SegsOK ss as → ss.length = as.length := by
  intro ss
  induction ss with
  | nil => intro as h; cases as with
    | nil => rfl
    | cons a as => cases h
  | cons s ss ih =>
    intro as h
    cases as with
    | nil => cases h
    | cons a as => simp [ih as h.2]

theorem segRecs_incomplete : ∀ (ss : List SegEnc) (as : List (List ActiveObj)) (pos : Nat), ss.length = as.length →
    (segRecs pos ss as).map (·.incomplete) = ss.map fun _ => false := by
  intro ss
  induction ss with
  | nil => intro as pos _; cases as <;> rfl
  | cons s ss ih =>
    intro as pos hl
    cases as with
    | nil => simp at hl
    | cons a as =>
      simp only [segRecs, List.map_cons, ih as _ (by simpa using hl)]
      rfl

theorem segRecsC_incomplete : ∀ (ss : List SegEnc) (as : List (List ActiveObj)) (pos : Nat), ss.length = as.length →
    (segRecsC pos ss as).map (·.incomplete) = ss.map fun _ => false := by
  intro ss
  induction ss with
  | nil => intro as pos _; cases as <;> rfl
  | cons s ss ih =>
    intro as pos hl
    cases as with
    | nil => simp at hl
    | cons a as =>
      simp only [segRecsC, List.map_cons, ih as _ (by simpa using hl)]
      rfl

/-- the eager result carries the reader state of `readMetadata` -/
theorem readMetadata_of_readFile (file : Bytes) (r : EagerResult) (h : readFile file = .ok r) :
    readMetadata file = .ok r.state := by
  unfold readFile at h
  simp only [bind, Except.bind] at h
  cases hm : readMetadata file with
  | error e => rw [hm] at h; cases h
  | ok st =>
    rw [hm] at h
    simp only [] at h
    split at h
    · cases h
    · split at h
      · cases h
      · simp only [pure, Except.pure] at h
        injection h with h
        rw [← h]

/-! ## the composed theorem when the last segment carries the marker -/

/-- **the last segment carries the length-unknown marker**: `readFile` succeeds on the encoding, `denote` is
    defined, the contents agree, every segment but the last is reported complete and the last one incomplete -/
theorem read_encode_marker_last (init : List SegEnc) (l : SegEnc) (hu : l.lengthUnknown = true)
    (h : MultiStdU (init ++ [l])) (fit : FileFits (init ++ [l])) (hch : onlyChannelsHaveDataM (init ++ [l]))
    (bytes : Bytes) (hb : encodeFile (init ++ [l]) = .ok bytes) (hlen : bytes.length < 2 ^ 63) :
    ∃ r c, readFile bytes = .ok r ∧ denote (init ++ [l]) = .ok c ∧ content r = contentOfDenote c ∧
      r.state.segments.map (·.incomplete) = (init.map fun _ => false) ++ [true] := by
  have h' := multiStd_unmark h
  have fit' := fileFits_unmark fit
  obtain ⟨acts, ha', hwf'⟩ := h'.acts
  have ha : activeLists none [] (init ++ [l]) = .ok acts := by rw [← activeLists_unmark]; exact ha'
  have hbytes : encodeFile (init ++ [l]) = .ok (zipEncode encodeSeg (init ++ [l]) acts) := by
    simp [encodeFile, ha]
  rw [hbytes] at hb
  injection hb with hb
  subst hb
  have hok := segsOK_canon _ acts (segsOK0_of_multi h' fit' ha')
  have hac := activeLists_canon _ none [] acts ha'
  have hnd := actsNodup_canon (activeLists_nodup _ none [] acts ha' SpecInv.init (wellFormed_noDup h'.wf))
  -- split the active lists at the last segment
  have hlenA := segsOK_length _ _ hok
  simp only [List.map_append, List.map_cons, List.map_nil, List.length_append, List.length_map,
    List.length_cons, List.length_nil] at hlenA
  obtain ⟨AI0, AL0, rfl⟩ : ∃ AI0 AL0, acts = AI0 ++ [AL0] := by
    cases hacts : acts.reverse with
    | nil =>
      have : acts = [] := by simpa using hacts
      subst this; simp at hlenA
    | cons x xs =>
      refine ⟨xs.reverse, x, ?_⟩
      have := congrArg List.reverse hacts
      simpa using this
  have hlI : init.length = AI0.length := by simp at hlenA; omega
  -- channels only
  have hch' : ∀ sa ∈ ((init ++ [l]).map unmark |>.map canonSeg).zip ((AI0 ++ [AL0]).map (·.map canonAct)),
      ChannelsOnly sa := by
    intro sa hsa hne x hx hd
    rw [List.map_map, List.zip_map, List.mem_map] at hsa
    obtain ⟨sa0, hsa0, rfl⟩ := hsa
    simp only [Prod.map_snd, List.mem_map] at hx
    obtain ⟨x0, hx0, rfl⟩ := hx
    exact hch _ ha sa0 hsa0 hne x0 hx0 hd
  -- the bytes
  have hknown : ∀ s ∈ init, s.lengthUnknown = false := by
    have := h.wf
    unfold wellFormed at this
    rw [ha] at this
    have hk := wfSegs_known _ _ this
    intro s hs
    exact hk s (by simp [hs])
  have hfile : zipEncode encodeSeg (init ++ [l]) (AI0 ++ [AL0]) =
      zipEncode encodeSeg ((init.map unmark).map canonSeg) (AI0.map (·.map canonAct)) ++
        encodeSeg (mark (canonSeg (unmark l))) (AL0.map canonAct) := by
    rw [zipEncode_append init AI0 [l] [AL0] hlI, zipEncode_canon, map_unmark_of_known init hknown]
    congr 1
    have e1 : mark (canonSeg (unmark l)) = canonSeg (mark (unmark l)) := rfl
    rw [e1, encodeSeg_canon, mark_unmark l hu]
    simp [zipEncode]
  rw [hfile] at hlen ⊢
  simp only [List.map_append, List.map_cons, List.map_nil] at hok hac hnd hch'
  obtain ⟨st, _, hsegs, hobjs, hread⟩ := readFile_marker _ _ _ _ hac (by simpa using hlI) hok hnd hch' hlen
  have hden : denoteSegs [] (List.map canonSeg (List.map unmark init) ++ [canonSeg (unmark l)])
      (List.map (fun x => List.map canonAct x) AI0 ++ [List.map canonAct AL0]) =
      denoteSegs [] (init ++ [l]) (AI0 ++ [AL0]) := by
    have := denoteSegs_canon ((init ++ [l]).map unmark) (AI0 ++ [AL0]) []
    simp only [List.map_append, List.map_cons, List.map_nil] at this
    rw [this]
    have := denoteSegs_unmark (init ++ [l]) (AI0 ++ [AL0]) []
    simpa only [List.map_append, List.map_cons, List.map_nil] using this
  rw [hden] at hobjs hread
  refine ⟨_, denoteSegs [] (init ++ [l]) (AI0 ++ [AL0]), hread, by simp [denote, ha], ?_, ?_⟩
  · have := content_multi _ _ hok hch' st (by rw [hden]; exact hobjs)
    rwa [hden] at this
  · show st.segments.map (·.incomplete) = _
    rw [hsegs, List.map_append, segRecs_incomplete _ _ _ (by simpa using hlI)]
    simp only [List.map_map, List.map_cons, List.map_nil]
    rfl

end Tdms.Proofs.C01Marker
