import TdmsProofs.Lemmas.C08Parse

/-!
# C08: raw data — lengths implied by types and counts, string offset tables

Core Lean only.
-/

namespace Tdms.Proofs.C08
open Tdms Tdms.Strict Tdms.Model.Writer Tdms.Generated Tdms.Proofs.BytesW

/-! ## the data length the index announces is `dataSize` -/

/-- data bytes announced by one parsed raw data index -/
def idxLen : Option (Nat × Nat × Option Nat) → Nat
  | some (ty, _, some total) => if ty = tyString then total else 0
  | some (ty, n, none) => n * (typeSize ty).getD 0
  | none => 0

/-- data bytes `_data_size` counts for one object -/
def objSize : WObj → Nat
  | .channel _ _ d _ => objectDataSize d
  | _ => 0

theorem expectedDataLength_cons (p : PObj) (ps : List PObj) :
    expectedDataLength (p :: ps) = idxLen p.idx + expectedDataLength ps := by
  simp only [expectedDataLength, List.map_cons, List.sum_cons]
  congr 1

theorem dataSize_cons (o : WObj) (os : List WObj) : dataSize (o :: os) = objSize o + dataSize os := by
  simp only [dataSize, List.map_cons, List.sum_cons]
  congr 1

/-- needs no hypothesis: what the index says is what `_data_size` computes -/
theorem expectedDataLength_eq (objs : List WObj) :
    expectedDataLength (objs.map toPObj) = dataSize objs := by
  induction objs with
  | nil => rfl
  | cons o os ih =>
    rw [List.map_cons, expectedDataLength_cons, dataSize_cons, ih]
    congr 1
    cases o with
    | root ps => rfl
    | group g ps => rfl
    | channel g c d ps =>
      simp only [toPObj, toPIdx, objSize]
      by_cases hvoid : d.ty = tyVoid
      · simp only [if_pos hvoid, idxLen]
        have : d.ty ≠ tyString := by rw [hvoid]; decide
        simp only [objectDataSize, if_neg this]
        split
        · rfl
        · rw [hvoid, show typeSize tyVoid = none by decide]; simp
      · simp only [if_neg hvoid]
        by_cases hstr : d.ty = tyString
        · simp only [if_pos hstr, idxLen]
        · simp only [if_neg hstr, objectDataSize, idxLen]
          split
          · rename_i he
            have : d.vals = [] := by simpa using he
            simp [this]
          · exact Nat.mul_comm _ _

/-! ## the bytes written are as many as announced -/

theorem length_flatMap_encLE (w : Nat) (ns : List Nat) : (ns.flatMap (encLE w)).length = w * ns.length := by
  induction ns with
  | nil => rfl
  | cons n ns ih => simp [List.flatMap_cons, ih, Nat.mul_add]; omega

theorem cumOffsetsW_length (acc : Nat) (vals : List Bytes) : (cumOffsetsW acc vals).length = vals.length := by
  induction vals generalizing acc with
  | nil => rfl
  | cons v vs ih => simp [cumOffsetsW, ih]

theorem sum_map_add_length (vals : List Bytes) :
    (vals.map fun s => 4 + s.length).sum = 4 * vals.length + vals.flatten.length := by
  induction vals with
  | nil => rfl
  | cons v vs ih => simp [ih]; omega

theorem length_flatten_of_forall {vals : List Bytes} {sz : Nat} (h : ∀ v ∈ vals, v.length = sz) :
    vals.flatten.length = sz * vals.length := by
  induction vals with
  | nil => rfl
  | cons v vs ih =>
    simp only [List.flatten_cons, List.length_append, List.length_cons]
    rw [ih (fun w hw => h w (by simp [hw])), h v (by simp), Nat.mul_add]; omega

theorem objData_length_channel {g c : Bytes} {d : WData} {ps : List WProp} (h : WritableData d) :
    (objData (.channel g c d ps)).length = objectDataSize d := by
  unfold WritableData at h
  by_cases hvoid : d.ty = tyVoid
  · rw [if_pos hvoid] at h
    have : d.ty ≠ tyString := by rw [hvoid]; decide
    simp [objData, objectDataSize, this, h]
  · rw [if_neg hvoid] at h
    by_cases hstr : d.ty = tyString
    · simp only [objData, objectDataSize, if_pos hstr, List.length_append, length_flatMap_encLE,
        cumOffsetsW_length, sum_map_add_length]
    · rw [if_neg hstr] at h
      cases hsz : typeSize d.ty with
      | none => simp [hsz] at h
      | some sz =>
        rw [hsz] at h
        simp only [objData, objectDataSize, if_neg hstr, hsz, Option.getD_some]
        rw [length_flatten_of_forall h.1]
        split
        · rename_i he
          have : d.vals = [] := by simpa using he
          simp [this]
        · rfl

theorem objData_length {o : WObj} (h : WritableObj o) : (objData o).length = objSize o := by
  cases o with
  | root ps => rfl
  | group g ps => rfl
  | channel g c d ps => exact objData_length_channel h.2.2.2

theorem flatMap_objData_length {objs : List WObj} (h : ∀ o ∈ objs, WritableObj o) :
    (objs.flatMap objData).length = dataSize objs := by
  induction objs with
  | nil => rfl
  | cons o os ih =>
    rw [List.flatMap_cons, List.length_append, dataSize_cons, objData_length (h o (by simp)),
      ih (fun q hq => h q (by simp [hq]))]

/-! ## string offset tables -/

theorem cumOffsetsW_bounds (acc : Nat) (vals : List Bytes) :
    ∀ x ∈ cumOffsetsW acc vals, acc ≤ x ∧ x ≤ acc + vals.flatten.length := by
  induction vals generalizing acc with
  | nil => simp [cumOffsetsW]
  | cons v vs ih =>
    intro x hx
    simp only [cumOffsetsW, List.mem_cons] at hx
    simp only [List.flatten_cons, List.length_append]
    rcases hx with rfl | hx
    · omega
    · have := ih _ x hx; omega

theorem cumOffsetsW_getLast (acc : Nat) (vals : List Bytes) :
    (cumOffsetsW acc vals).getLast?.getD acc = acc + vals.flatten.length := by
  induction vals generalizing acc with
  | nil => simp [cumOffsetsW]
  | cons v vs ih =>
    simp only [cumOffsetsW, List.flatten_cons, List.length_append]
    rw [List.getLast?_cons]
    have := ih (acc + v.length)
    cases hl : (cumOffsetsW (acc + v.length) vs).getLast? with
    | none => rw [hl] at this; simp at this ⊢; omega
    | some y => rw [hl] at this; simp at this ⊢; omega

theorem cumOffsetsW_mono (acc : Nat) (vals : List Bytes) (i : Nat)
    (hi : i + 1 < (cumOffsetsW acc vals).length) :
    (cumOffsetsW acc vals).getD i 0 ≤ (cumOffsetsW acc vals).getD (i + 1) 0 := by
  induction vals generalizing acc i with
  | nil => simp [cumOffsetsW] at hi
  | cons v vs ih =>
    simp only [cumOffsetsW, List.length_cons] at hi ⊢
    cases i with
    | zero =>
      simp only [List.getD_cons_zero, List.getD_cons_succ]
      have hlen : 0 < (cumOffsetsW (acc + v.length) vs).length := by omega
      rw [List.getD_eq_getElem?_getD, List.getElem?_eq_getElem hlen, Option.getD_some]
      exact (cumOffsetsW_bounds _ _ _ (List.getElem_mem hlen)).1
    | succ j =>
      simp only [List.getD_cons_succ]
      exact ih _ j (by omega)

theorem drop_flatMap_encLE (w : Nat) (ns : List Nat) (tail : Bytes) (i : Nat) (hi : i ≤ ns.length) :
    (ns.flatMap (encLE w) ++ tail).drop (w * i) = (ns.drop i).flatMap (encLE w) ++ tail := by
  induction ns generalizing i with
  | nil =>
    have : i = 0 := by simpa using hi
    subst this; simp
  | cons n ns ih =>
    cases i with
    | zero => simp
    | succ j =>
      simp only [List.flatMap_cons, List.append_assoc, List.drop_succ_cons]
      rw [show w * (j + 1) = w + w * j by rw [Nat.mul_add]; omega, ← List.drop_drop, drop_encLE_append]
      exact ih j (by simpa using hi)

/-- reading the offset table back gives the offsets that were written -/
theorem read_offsets (ns : List Nat) (tail : Bytes) (h : ∀ x ∈ ns, x < 2 ^ 32) :
    ((List.range ns.length).map fun i => dec .little (((ns.flatMap (encLE 4) ++ tail).drop (4 * i)).take 4)) = ns := by
  apply List.ext_getElem
  · simp
  · intro i h1 h2
    simp only [List.getElem_map, List.getElem_range]
    have hi : i < ns.length := by simpa using h1
    rw [drop_flatMap_encLE _ _ _ _ (Nat.le_of_lt hi)]
    rw [List.drop_eq_getElem_cons hi, List.flatMap_cons, List.append_assoc, take_encLE_append]
    simp only [dec]
    exact decLE_encLE_of_lt (by simpa using h _ (List.getElem_mem hi))

theorem checkStringData_none {p : PObj} (h : p.idx = none) (ps : List PObj) (data : Bytes) :
    checkStringData .little (p :: ps) data = checkStringData .little ps data := by
  rw [checkStringData]; simp only [h]

theorem checkStringData_fixed {p : PObj} {ty n : Nat} (h : p.idx = some (ty, n, none)) (ps : List PObj)
    (data : Bytes) :
    checkStringData .little (p :: ps) data =
      checkStringData .little ps (data.drop (n * (typeSize ty).getD 0)) := by
  rw [checkStringData]; simp only [h]

theorem checkStringData_str {p : PObj} {n total : Nat} (h : p.idx = some (tyString, n, some total))
    (ps : List PObj) (data : Bytes) :
    checkStringData .little (p :: ps) data =
      (decide (total ≥ 4 * n ∧
          (((List.range n).map fun i => dec .little ((data.drop (4 * i)).take 4)).getLast?.getD 0) = total - 4 * n ∧
          (List.range (n - 1)).all fun i =>
            ((List.range n).map fun i => dec .little ((data.drop (4 * i)).take 4)).getD i 0 ≤
              ((List.range n).map fun i => dec .little ((data.drop (4 * i)).take 4)).getD (i + 1) 0) &&
        checkStringData .little ps (data.drop total)) := by
  rw [checkStringData]; simp only [h, if_true]

/-- one object's data satisfies the offset-table check and is skipped exactly -/
theorem checkStringData_step {o : WObj} (h : WritableObj o) (ps : List PObj) (tail : Bytes) :
    checkStringData .little (toPObj o :: ps) (objData o ++ tail) = checkStringData .little ps tail := by
  cases o with
  | root props => exact checkStringData_none rfl _ _
  | group g props => exact checkStringData_none rfl _ _
  | channel g c d props =>
    have hd : WritableData d := h.2.2.2
    have hlen := objData_length_channel (g := g) (c := c) (ps := props) hd
    unfold WritableData at hd
    by_cases hvoid : d.ty = tyVoid
    · rw [if_pos hvoid] at hd
      have hns : d.ty ≠ tyString := by rw [hvoid]; decide
      rw [checkStringData_none (by simp only [toPObj, toPIdx, if_pos hvoid])]
      simp [objData, hns, hd]
    · rw [if_neg hvoid] at hd
      by_cases hstr : d.ty = tyString
      · rw [if_pos hstr] at hd
        obtain ⟨hn, hsum, htot⟩ := hd
        rw [checkStringData_str (n := d.vals.length) (total := objectDataSize d)
          (by simp only [toPObj, toPIdx, if_neg hvoid, if_pos hstr]; rw [hstr])]
        rw [drop_append_of_length tail hlen]
        have hoffs : ∀ x ∈ cumOffsetsW 0 d.vals, x < 2 ^ 32 := by
          intro x hx
          have := (cumOffsetsW_bounds 0 d.vals x hx).2
          omega
        have hread : ((List.range d.vals.length).map fun i =>
            dec .little (((objData (.channel g c d props) ++ tail).drop (4 * i)).take 4)) = cumOffsetsW 0 d.vals := by
          simp only [objData, if_pos hstr, List.append_assoc]
          have := read_offsets (cumOffsetsW 0 d.vals) (d.vals.flatten ++ tail) hoffs
          rw [cumOffsetsW_length] at this
          exact this
        rw [hread]
        have htotal : objectDataSize d = 4 * d.vals.length + d.vals.flatten.length := by
          simp only [objectDataSize, if_pos hstr, sum_map_add_length]
        have hlast := cumOffsetsW_getLast 0 d.vals
        simp only [Nat.zero_add] at hlast
        rw [hlast, htotal]
        have hok : (4 * d.vals.length + d.vals.flatten.length ≥ 4 * d.vals.length ∧
            d.vals.flatten.length = 4 * d.vals.length + d.vals.flatten.length - 4 * d.vals.length ∧
            ((List.range (d.vals.length - 1)).all fun i =>
              decide ((cumOffsetsW 0 d.vals).getD i 0 ≤ (cumOffsetsW 0 d.vals).getD (i + 1) 0)) = true) := by
          refine ⟨by omega, by omega, ?_⟩
          rw [List.all_eq_true]
          intro i hi
          have hi' : i < d.vals.length - 1 := by simpa using hi
          exact decide_eq_true (cumOffsetsW_mono 0 d.vals i (by rw [cumOffsetsW_length]; omega))
        rw [decide_eq_true hok, Bool.true_and]
      · rw [if_neg hstr] at hd
        cases hsz : typeSize d.ty with
        | none => simp [hsz] at hd
        | some sz =>
          rw [hsz] at hd
          rw [checkStringData_fixed (ty := d.ty) (n := d.vals.length)
            (by simp only [toPObj, toPIdx, if_neg hvoid, if_neg hstr])]
          have : d.vals.length * (typeSize d.ty).getD 0 = (objData (.channel g c d props)).length := by
            rw [hlen, hsz]
            simp only [objectDataSize, if_neg hstr, hsz, Option.getD_some]
            split
            · rename_i he
              have : d.vals = [] := by simpa using he
              simp [this]
            · exact Nat.mul_comm _ _
          rw [this, drop_append_of_length tail rfl]

theorem checkStringData_ok {objs : List WObj} (h : ∀ o ∈ objs, WritableObj o) (tail : Bytes) :
    checkStringData .little (objs.map toPObj) (objs.flatMap objData ++ tail) = true := by
  induction objs with
  | nil => rfl
  | cons o os ih =>
    rw [List.map_cons, List.flatMap_cons, List.append_assoc, checkStringData_step (h o (by simp))]
    exact ih (fun q hq => h q (by simp [hq]))

end Tdms.Proofs.C08
