/-
  C01 with DAQmx segments: `readFile` on the encoding of a file of the class, and the reader's content
  (values AND per-scaler raw values) against `denote`.  Core Lean only.
-/
import TdmsProofs.Lemmas.C01LayoutsDaqCount

namespace Tdms.Proofs.C01Layouts

open Tdms Tdms.Generated Tdms.Model Tdms.Proofs.C02 Tdms.Proofs.C01Multi
open Tdms.Proofs.Bytes (canonProp)
open Tdms.Proofs.C01Compose (pairsChunk bump valuesIn)

/-! ## receivers of the final metadata -/

/-- the empty scaler dictionary a DAQmx receiver starts with -/
def initS (F : ScF) (p : Bytes) : ScalDict := ((F p).getD []).map fun it => (it.1, ([] : List Bytes))

/-- (path, is DAQmx raw data) of the channels that get a receiver -/
def psOf (c : Content) : List (Bytes × Bool) :=
  (c.filter fun oc => decide (countComponents oc.path = 2) && oc.ty.isSome).map fun oc =>
    (oc.path, decide (oc.ty = some tyDaqmxRaw))

theorem receivers_of_contentD (F : ScF) (N : Bytes → Nat) (c : Content) :
    ((c.map (mOCD F N)).filter fun m => countComponents m.path = 2).filterMap newReceiver =
      rcvD (psOf c) (fun _ => []) (initS F) := by
  induction c with
  | nil => rfl
  | cons oc c ih =>
    have hpath : (mOCD F N oc).path = oc.path := rfl
    simp only [List.map_cons, List.filter_cons, hpath, psOf] at ih ⊢
    by_cases hc : countComponents oc.path = 2
    · simp only [hc, decide_true, if_true, List.filterMap_cons, Bool.true_and]
      cases hty : oc.ty with
      | none =>
        have : newReceiver (mOCD F N oc) = none := by simp [newReceiver, mOCD, hty]
        simpa [this] using ih
      | some ty =>
        by_cases hr : ty = tyDaqmxRaw
        · subst hr
          have : newReceiver (mOCD F N oc) = some ⟨oc.path, none, initS F oc.path⟩ := by
            simp only [newReceiver, mOCD, hty, if_true, initS]
          simp only [this, Option.isSome_some, if_true, List.map_cons, rcvD]
          rw [List.cons.injEq]
          exact ⟨by simp [hty], ih⟩
        · have : newReceiver (mOCD F N oc) = some ⟨oc.path, some [], []⟩ := by
            simp [newReceiver, mOCD, hty, hr]
          simp only [this, Option.isSome_some, if_true, List.map_cons, rcvD]
          rw [List.cons.injEq]
          exact ⟨by simp [hty, hr], ih⟩
    · simp only [hc, decide_false, Bool.false_eq_true, if_false, Bool.false_and]
      exact ih

theorem psOf_paths_nodup {c : Content} (h : (c.map (·.path)).Nodup) : ((psOf c).map (·.1)).Nodup := by
  unfold psOf
  rw [List.map_map]
  exact h.sublist (List.Sublist.map _ List.filter_sublist)

theorem mem_psOf {c : Content} {oc : ObjContent} (h : oc ∈ c) (hch : countComponents oc.path = 2) {t : Nat}
    (ht : oc.ty = some t) : (oc.path, decide (t = tyDaqmxRaw)) ∈ psOf c := by
  unfold psOf
  refine List.mem_map.2 ⟨oc, List.mem_filter.2 ⟨h, by simp [hch, ht]⟩, ?_⟩
  simp [ht]

theorem psOf_mem {c : Content} {p : Bytes} {b : Bool} (h : (p, b) ∈ psOf c) :
    ∃ oc ∈ c, oc.path = p ∧ countComponents p = 2 ∧ oc.ty.isSome = true ∧ b = decide (oc.ty = some tyDaqmxRaw) := by
  unfold psOf at h
  obtain ⟨oc, hoc, he⟩ := List.mem_map.mp h
  obtain ⟨hmem, hf⟩ := List.mem_filter.mp hoc
  simp only [Bool.and_eq_true, decide_eq_true_eq] at hf
  simp only [Prod.mk.injEq] at he
  exact ⟨oc, hmem, he.1, he.1 ▸ hf.1, hf.2, he.2.symm⟩

theorem present_mem {c : Content} {p : Bytes} (h : Present c p) : ∃ oc ∈ c, oc.path = p := by
  unfold Present at h
  obtain ⟨oc, hoc, hp⟩ := List.any_eq_true.mp h
  exact ⟨oc, hoc, by simpa using hp⟩

/-! ## which paths the chunks mention -/

/-- the condition on one segment and its active list: in a segment that has a chunk or is interleaved every
    object active with data is a channel, and every DAQmx object of any active list is a channel -/
def ChannelsOnlyD (sa : SegEnc × List ActiveObj) : Prop :=
  ((sa.1.chunks ≠ [] ∨ sa.1.interleaved = true) → ∀ x ∈ sa.2, x.hasData = true → countComponents x.path = 2) ∧
  (∀ x ∈ sa.2, isDaqmxObj x = true → countComponents x.path = 2)

/-- a data object of a standard segment that has a chunk or is interleaved has a plain receiver -/
theorem std_data_receiver {F : ScF} {s : SegEnc} {a : List ActiveObj} (hok : SegOKD GoodDesc F s a)
    (hch : ChannelsOnlyD (s, a)) (cF : Content)
    (hty : ∀ x ∈ dataObjs a, ∃ d, x.idx = some d ∧ TyAt cF x.path d.ty ∧ Present cF x.path)
    (hl : StdLayout s (dataObjs a)) :
    ∀ x ∈ dataObjs a, (s.chunks ≠ [] ∨ s.interleaved = true) → (x.path, false) ∈ psOf cF := by
  intro x hx hne
  obtain ⟨hxa, hxd⟩ : x ∈ a ∧ x.hasData = true := by simpa [dataObjs] using hx
  obtain ⟨d, hi, hta, hp⟩ := hty x hx
  obtain ⟨oc, hoc, hop⟩ := present_mem hp
  have hps := mem_psOf hoc (by rw [hop]; exact hch.1 hne x hxa hxd) (hta oc hoc hop)
  rw [hop] at hps
  rcases goodD_ty (hok.good x hxa d hi) with ⟨ty, n, total, rfl, hne'⟩ | ⟨dg, n, sc, w, rfl, _⟩
  · simpa [IdxDesc.ty, hne'] using hps
  · have := List.any_eq_false.mp hl.noDaq x hx
    simp [isDaqmxObj, hi] at this

theorem allStdPairs_receiver {F : ScF} : ∀ (ss : List SegEnc) (as : List (List ActiveObj)) (cF : Content),
    SegsOKD GoodDesc F ss as → (∀ sa ∈ ss.zip as, ChannelsOnlyD sa) →
    (∀ sa ∈ ss.zip as, ∀ x ∈ dataObjs sa.2, ∃ d, x.idx = some d ∧ TyAt cF x.path d.ty ∧ Present cF x.path) →
    ∀ pv ∈ allStdPairs ss as, (pv.1, false) ∈ psOf cF := by
  intro ss
  induction ss with
  | nil => intro as cF _ _ _ pv hpv; cases as <;> simp [allStdPairs] at hpv
  | cons s ss ih =>
    intro as cF hok hch hty pv hpv
    cases as with
    | nil => cases hok
    | cons a as =>
      rw [allStdPairs, List.mem_append] at hpv
      rcases hpv with h | h
      · unfold stdPairs at h
        rcases hok.1.layout with hl | hl
        · simp only [hl.noDaq, Bool.false_eq_true, if_false] at h
          obtain ⟨ch, hch', hmem⟩ := mem_segPairs (List.mem_map.2 ⟨pv, h, rfl⟩)
          obtain ⟨x, hx, hxp⟩ := List.mem_map.mp hmem
          rw [← hxp]
          exact std_data_receiver hok.1 (hch (s, a) (by rw [List.zip_cons_cons]; exact List.mem_cons_self)) cF
            (hty (s, a) (by rw [List.zip_cons_cons]; exact List.mem_cons_self)) hl x hx
            (Or.inl (List.ne_nil_of_mem hch'))
        · simp [daqLayout_any hl] at h
      · exact ih as cF hok.2 (fun sa hsa => hch sa (by rw [List.zip_cons_cons]; exact List.mem_cons_of_mem _ hsa))
          (fun sa hsa => hty sa (by rw [List.zip_cons_cons]; exact List.mem_cons_of_mem _ hsa)) pv h

theorem ckOfSeg_within {F : ScF} {s : SegEnc} {a : List ActiveObj} (hok : SegOKD GoodDesc F s a)
    (hnd : (a.map (·.path)).Nodup) (hch : ChannelsOnlyD (s, a)) (cF : Content)
    (hty : ∀ x ∈ dataObjs a, ∃ d, x.idx = some d ∧ TyAt cF x.path d.ty ∧ Present cF x.path) :
    ∀ ck ∈ ckOfSeg s a, ck.within (psOf cF) := by
  have hmem : ∀ x ∈ dataObjs a, x ∈ a ∧ x.hasData = true := by
    intro x hx; simpa [dataObjs] using hx
  -- a data object that is a channel has a receiver of the kind of its description
  have key : ∀ x ∈ dataObjs a, countComponents x.path = 2 →
      ∃ d, x.idx = some d ∧ (x.path, decide (d.ty = tyDaqmxRaw)) ∈ psOf cF := by
    intro x hx hc
    obtain ⟨d, hi, hta, hp⟩ := hty x hx
    obtain ⟨oc, hoc, hop⟩ := present_mem hp
    have := mem_psOf hoc (by rw [hop]; exact hc) (hta oc hoc hop)
    rw [hop] at this
    exact ⟨d, hi, this⟩
  intro ck hck
  unfold ckOfSeg at hck
  rw [List.mem_append] at hck
  rcases hck with hck | hck
  · have : ck = Ck.std [] := by
      cases hr : s.rawFlag <;> simp [hr] at hck
      exact hck
    subst this
    intro pv hpv; cases hpv
  · rcases hok.layout with hl | hl
    · simp only [hl.noDaq, Bool.false_eq_true, if_false] at hck
      have hstd : ∀ x ∈ dataObjs a, (s.chunks ≠ [] ∨ s.interleaved = true) → (x.path, false) ∈ psOf cF := by
        intro x hx hne
        obtain ⟨hxa, hxd⟩ := hmem x hx
        obtain ⟨d, hi, hps⟩ := key x hx (hch.1 hne x hxa hxd)
        rcases goodD_ty (hok.good x hxa d hi) with ⟨ty, n, total, rfl, hne'⟩ | ⟨dg, n, sc, w, rfl, _⟩
        · simpa [IdxDesc.ty, hne'] using hps
        · have := List.any_eq_false.mp hl.noDaq x hx
          simp [isDaqmxObj, hi] at this
      cases hi : s.interleaved with
      | false =>
        rw [hi] at hck
        simp only [Bool.false_eq_true, if_false, List.mem_map] at hck
        obtain ⟨ch, hch', rfl⟩ := hck
        intro pv hpv
        have hp1 : pv.1 ∈ (dataObjs a).map (·.path) := (List.of_mem_zip hpv).1
        obtain ⟨x, hx, hxp⟩ := List.mem_map.mp hp1
        rw [← hxp]
        exact hstd x hx (Or.inl (List.ne_nil_of_mem hch'))
      | true =>
        rw [hi] at hck
        simp only [if_true] at hck
        split at hck
        · cases hck
        · rw [List.mem_singleton] at hck
          subst hck
          intro pv hpv
          have hp1 : pv.1 ∈ (dataObjs a).map (·.path) := (List.of_mem_zip hpv).1
          obtain ⟨x, hx, hxp⟩ := List.mem_map.mp hp1
          rw [← hxp]
          exact hstd x hx (Or.inr hi)
    · simp only [daqLayout_any hl, if_true, List.mem_map] at hck
      obtain ⟨c, _, rfl⟩ := hck
      obtain ⟨w0, hobj, hchk⟩ := hl.width
      intro pe hpe
      have hpath := (chunk_ents s.endian (dataObjs a) (dataObjs_nodup hnd) hobj c (hchk c ‹_›).len).2.1 pe hpe
      obtain ⟨x, hx, hxp⟩ := List.mem_map.mp hpath
      rw [← hxp]
      obtain ⟨hxa, _⟩ := hmem x hx
      obtain ⟨d, hi, hps⟩ := key x hx (hch.2 x hxa (daqObj_isDaq (hobj x hx)))
      obtain ⟨dg, n, sc, hi', _⟩ := hobj x hx
      rw [hi'] at hi
      cases hi
      simpa [IdxDesc.ty] using hps

theorem ckListAll_within {F : ScF} : ∀ (ss : List SegEnc) (as : List (List ActiveObj)) (cF : Content),
    SegsOKD GoodDesc F ss as → ActsNodup as → (∀ sa ∈ ss.zip as, ChannelsOnlyD sa) →
    (∀ sa ∈ ss.zip as, ∀ x ∈ dataObjs sa.2, ∃ d, x.idx = some d ∧ TyAt cF x.path d.ty ∧ Present cF x.path) →
    ∀ ck ∈ ckListAll ss as, ck.within (psOf cF) := by
  intro ss
  induction ss with
  | nil => intro as cF _ _ _ _ ck hck; cases as <;> simp [ckListAll] at hck
  | cons s ss ih =>
    intro as cF hok hnd hch hty ck hck
    cases as with
    | nil => cases hok
    | cons a as =>
      rw [ckListAll, List.mem_append] at hck
      rcases hck with h | h
      · exact ckOfSeg_within hok.1 (hnd a List.mem_cons_self)
          (hch (s, a) (by rw [List.zip_cons_cons]; exact List.mem_cons_self)) cF
          (hty (s, a) (by rw [List.zip_cons_cons]; exact List.mem_cons_self)) ck h
      · exact ih as cF hok.2 (fun a' ha' => hnd a' (List.mem_cons_of_mem _ ha'))
          (fun sa hsa => hch sa (by rw [List.zip_cons_cons]; exact List.mem_cons_of_mem _ hsa))
          (fun sa hsa => hty sa (by rw [List.zip_cons_cons]; exact List.mem_cons_of_mem _ hsa)) ck h

/-! ## the receivers at the end, in closed form -/

/-- values of a plain channel at the end -/
def fvEnd (ss : List SegEnc) (as : List (List ActiveObj)) : Bytes → List Bytes :=
  (stdPairsOf (ckListAll ss as)).foldl bump (fun _ => [])

/-- scaler dictionary of a DAQmx channel at the end -/
def fsEnd (F : ScF) (ss : List SegEnc) (as : List (List ActiveObj)) : Bytes → ScalDict :=
  (daqEntsOf (ckListAll ss as)).foldl bumpS (initS F)

theorem lookupV_initS (F : ScF) (p : Bytes) (id : Nat) : lookupV (initS F p) id = [] := by
  unfold lookupV initS
  cases hf : (((F p).getD []).map fun it => (it.1, ([] : List Bytes))).find? (·.1 = id) with
  | none => rfl
  | some x =>
    have := List.mem_of_find?_eq_some hf
    obtain ⟨it, _, rfl⟩ := List.mem_map.mp this
    rfl

theorem initS_ids (F : ScF) (p : Bytes) : (initS F p).map (·.1) = idsF F p := by
  simp [initS, idsF, List.map_map, Function.comp_def]

theorem cap_of_contentD (F : ScF) (N : Bytes → Nat) (c : Content) {p : Bytes} (h : ∃ oc ∈ c, oc.path = p) :
    ((ObjMetas.get (c.map (mOCD F N)) p).map (·.numValues)).getD 0 = N p := by
  rw [get_map_mOCD]
  obtain ⟨oc, hoc, hp⟩ := h
  cases hf : c.find? (·.path = p) with
  | none =>
    rw [List.find?_eq_none] at hf
    exact absurd (by simpa using hp) (hf oc hoc)
  | some y =>
    have hy : y.path = p := by simpa using List.find?_some hf
    simp [mOCD, hy]

/-- **`readFile` on the encoding of a file of the class** -/
theorem readFile_multiD (F : ScF) (Q : Bytes → Prop) (e : FileEnc) (acts : List (List ActiveObj))
    (hacts : activeLists none [] e = .ok acts) (hok : SegsOKD GoodDesc F e acts) (hcan : CanonListed e)
    (hnd : ActsNodup acts) (hch : ∀ sa ∈ e.zip acts, ChannelsOnlyD sa)
    (hQ : ∀ sa ∈ e.zip acts, ∀ x ∈ sa.2, isDaqmxObj x = true → Q x.path)
    (hlen : (zipEncode encodeSeg e acts).length < 2 ^ 63) :
    ∃ st, readMetadata (zipEncode encodeSeg e acts) = .ok st ∧
      st.objects = (denoteSegs [] e acts).map (mOCD F (countsOf e acts)) ∧
      readFile (zipEncode encodeSeg e acts) =
        .ok ⟨st, rcvD (psOf (denoteSegs [] e acts)) (fvEnd e acts) (fsEnd F e acts)⟩ := by
  obtain ⟨st, hmeta, hsegs, hobjs, _⟩ := readMetadata_multiD F e acts hacts hok hcan hlen
  obtain ⟨fs, hdata⟩ := readRawDataAll_multiD F (zipEncode encodeSeg e acts) e acts 0 {} hok hnd rfl
  refine ⟨st, hmeta, hobjs, C01Compose.readFile_of_parts _ _ (rawChunksAllD e acts) fs _ hmeta
    (by rw [hsegs]; exact hdata) ?_⟩
  have hsem := denoteSegs_sem F Q e acts none [] [] hacts hok hQ SpecInv.init (fun _ h => by cases h) (by simp)
    (fun _ h => by cases h)
  have hpsnd := psOf_paths_nodup hsem.nodup
  have hwithin := ckListAll_within e acts (denoteSegs [] e acts) hok hnd hch hsem.tyData
  rw [hobjs, receivers_of_contentD, rawChunksAllD_eq e acts hnd]
  have hfold := foldl_fileStepD st (psOf (denoteSegs [] e acts)) hpsnd (ckListAll e acts) (fun _ => []) (initS F)
    hwithin ?_
  · rw [hfold, applyCk_foldl]
    rfl
  · -- capacity at every prefix
    intro L1 L2 hL pb hpb
    obtain ⟨p, b⟩ := pb
    obtain ⟨oc, hoc, hop, _, _, hb⟩ := psOf_mem hpb
    have hcap : ((st.objects.get p).map (·.numValues)).getD 0 = countsOf e acts p := by
      rw [hobjs]; exact cap_of_contentD F _ _ ⟨oc, hoc, hop⟩
    rw [applyCk_foldl]
    simp only [hcap]
    refine ⟨?_, ?_⟩
    · intro _
      rw [bump_foldl_closed]
      show ([] ++ _ : List Bytes).length ≤ _
      rw [List.nil_append]
      have h1 := colOf_ckListAll e acts hok hnd p
      rw [hL, stdPairsOf_append, colOf_append] at h1
      have h2 := allStdPairs_count e acts hok p
      rw [← h1, List.length_append] at h2
      show (colOf (stdPairsOf L1) p).length ≤ _
      omega
    · intro hbt x hx
      subst hbt
      have hraw : oc.ty = some tyDaqmxRaw := by simpa using hb.symm
      obtain ⟨_, _, hidsnd, _⟩ := (hsem.cinv oc hoc).raw hraw
      rw [hop] at hidsnd
      rw [bumpS_foldl_closed] at hx
      obtain ⟨hentsV, hentsI⟩ := all_ents e acts hok hnd
      have hids1 : ∀ iv ∈ itemsAt (daqEntsOf L1) p, iv.1 ∈ (initS F p).map (·.1) := by
        intro iv hiv
        rw [initS_ids]
        apply hentsI p iv
        rw [hL, daqEntsOf_append, itemsAt_append]
        exact List.mem_append_left _ hiv
      have hidsEq := ids_fold_mem _ _ hids1
      have hval := lookupV_of_mem (by rw [hidsEq, initS_ids]; exact hidsnd) hx
      rw [lookupV_fold, lookupV_initS, List.nil_append] at hval
      have h2 := allDaqEnts_count e acts hok p x.1
      rw [← hentsV p x.1, hL, daqEntsOf_append, itemsAt_append, colN_append, List.length_append] at h2
      rw [← hval]
      omega

/-! ## the reader's content, with scalers -/

structure ObjViewD where
  path : Bytes
  dataType : Option Nat
  props : List PropVal
  values : List Bytes
  scalers : List (Nat × List Bytes)
deriving Repr, DecidableEq

/-- scaler dictionary of a path in a list of receivers -/
def scalersIn (rs : List ChannelData) (p : Bytes) : List (Nat × List Bytes) :=
  ((rs.find? (·.path = p)).map (·.scalers)).getD []

/-- what the eager read returns, object by object: path, data type, properties, values, raw scaler values -/
def contentD (r : EagerResult) : List ObjViewD :=
  r.state.objects.map fun m =>
    ⟨m.path, m.dataType, m.props, valuesIn r.channels m.path, scalersIn r.channels m.path⟩

/-- the spec's content in the same form -/
def contentOfDenoteD (c : Content) : List ObjViewD :=
  c.map fun oc => ⟨oc.path, oc.ty, oc.props.map canonProp, oc.values, oc.scalers⟩

theorem find_rcvD_eq : ∀ (ps : List (Bytes × Bool)) (fv : Bytes → List Bytes) (fs : Bytes → ScalDict) (p : Bytes),
    (ps.map (·.1)).Nodup →
    (rcvD ps fv fs).find? (·.path = p) =
      (ps.find? (·.1 = p)).map fun pb => if pb.2 then ⟨pb.1, none, fs pb.1⟩ else ⟨pb.1, some (fv pb.1), []⟩ := by
  intro ps fv fs p _
  unfold rcvD
  rw [List.find?_map]
  congr 2
  funext pb
  simp [rcvD_path ps fv fs pb]

theorem find_ps {ps : List (Bytes × Bool)} (hnd : (ps.map (·.1)).Nodup) {p : Bytes} {b : Bool} (h : (p, b) ∈ ps) :
    ps.find? (·.1 = p) = some (p, b) := by
  induction ps with
  | nil => cases h
  | cons q qs ih =>
    rw [List.map_cons, List.nodup_cons] at hnd
    rcases List.mem_cons.1 h with rfl | h'
    · simp
    · have : ¬ q.1 = p := fun e => hnd.1 (List.mem_map.2 ⟨(p, b), h', e.symm⟩)
      simp [this, ih hnd.2 h']

theorem find_ps_none {ps : List (Bytes × Bool)} {p : Bytes} (h : ∀ b, (p, b) ∉ ps) : ps.find? (·.1 = p) = none := by
  rw [List.find?_eq_none]
  intro q hq hqp
  have hqp' : q.1 = p := by simpa using hqp
  exact h q.2 (by rw [← hqp']; exact hq)

/-- **the reader's content is the spec's content**, values and scalers -/
theorem content_multiD (F : ScF) (e : FileEnc) (acts : List (List ActiveObj))
    (hacts : activeLists none [] e = .ok acts) (hok : SegsOKD GoodDesc F e acts) (hnd : ActsNodup acts)
    (hch : ∀ sa ∈ e.zip acts, ChannelsOnlyD sa) (N : Bytes → Nat)
    (st : ReaderState) (hobjs : st.objects = (denoteSegs [] e acts).map (mOCD F N)) :
    contentD ⟨st, rcvD (psOf (denoteSegs [] e acts)) (fvEnd e acts) (fsEnd F e acts)⟩ =
      contentOfDenoteD (denoteSegs [] e acts) := by
  have hsem := denoteSegs_sem F (fun p => countComponents p = 2) e acts none [] [] hacts hok
    (fun sa hsa x hx hq => (hch sa hsa).2 x hx hq) SpecInv.init (fun _ h => by cases h) (by simp)
    (fun _ h => by cases h)
  have hpsnd := psOf_paths_nodup hsem.nodup
  have hvals : ∀ p, valsOf (denoteSegs [] e acts) p = colOf (allStdPairs e acts) p := by
    intro p
    rw [hsem.vals, bump_foldl_closed]
    rfl
  have hfv : ∀ p, fvEnd e acts p = colOf (allStdPairs e acts) p := by
    intro p
    unfold fvEnd
    rw [bump_foldl_closed, ← colOf_ckListAll e acts hok hnd p]
    rfl
  simp only [contentD, contentOfDenoteD, hobjs, List.map_map]
  apply List.map_congr_left
  intro oc hoc
  have hfind : (denoteSegs [] e acts).find? (·.path = oc.path) = some oc := find_of_nodup hsem.nodup hoc
  have hvoc : valsOf (denoteSegs [] e acts) oc.path = oc.values := by unfold valsOf; rw [hfind]; rfl
  have hsoc : scalOf (denoteSegs [] e acts) oc.path = oc.scalers := by unfold scalOf; rw [hfind]; rfl
  have hci := hsem.cinv oc hoc
  show (⟨oc.path, oc.ty, oc.props.map canonProp, valuesIn _ oc.path, scalersIn _ oc.path⟩ : ObjViewD) =
    ⟨oc.path, oc.ty, _, oc.values, oc.scalers⟩
  have hgoal : valuesIn (rcvD (psOf (denoteSegs [] e acts)) (fvEnd e acts) (fsEnd F e acts)) oc.path = oc.values ∧
      scalersIn (rcvD (psOf (denoteSegs [] e acts)) (fvEnd e acts) (fsEnd F e acts)) oc.path = oc.scalers := by
    unfold valuesIn scalersIn
    rw [find_rcvD_eq _ _ _ _ hpsnd]
    by_cases hchan : countComponents oc.path = 2
    · cases hty : oc.ty with
      | none =>
        -- no receiver, and the entry is empty
        have hnone : ∀ b, (oc.path, b) ∉ psOf (denoteSegs [] e acts) := by
          intro b hb
          obtain ⟨oc', hoc', hop', _, hs', _⟩ := psOf_mem hb
          have : oc' = oc := by
            have h1 := find_of_nodup hsem.nodup hoc'
            rw [hop', hfind] at h1
            exact (Option.some.inj h1).symm
          subst this
          rw [hty] at hs'
          cases hs'
        obtain ⟨hv, hs⟩ := hci.untyped hty
        rw [find_ps_none hnone]
        simp [hv, hs]
      | some t =>
        have hps := mem_psOf hoc hchan hty
        rw [find_ps hpsnd hps]
        by_cases hr : t = tyDaqmxRaw
        · subst hr
          obtain ⟨hv, hids, hidsnd, _⟩ := hci.raw hty
          simp only [decide_true, Option.map_some, if_true, Option.bind_some, Option.getD_none, Option.getD_some]
          refine ⟨hv.symm, ?_⟩
          -- the scaler dictionaries agree: same ids, same values per id
          obtain ⟨hentsV, hentsI⟩ := all_ents e acts hok hnd
          have hfs : fsEnd F e acts oc.path =
              (itemsAt (daqEntsOf (ckListAll e acts)) oc.path).foldl stepS (initS F oc.path) := by
            unfold fsEnd
            rw [bumpS_foldl_closed]
          have hidsE : (fsEnd F e acts oc.path).map (·.1) = idsF F oc.path := by
            rw [hfs, ids_fold_mem _ _ (by
              intro iv hiv
              rw [initS_ids]
              exact hentsI oc.path iv hiv), initS_ids]
          apply ext_lookup _ _ (by rw [hidsE, hids]) (by rw [hidsE]; exact hidsnd)
          intro id
          rw [hfs, lookupV_fold, lookupV_initS, List.nil_append, hentsV, ← hsoc, hsem.scal]
          simp [scalOf, lookupV]
        · have hd : decide (t = tyDaqmxRaw) = false := by simp [hr]
          simp only [hd, Option.map_some, Bool.false_eq_true, if_false, Option.bind_some, Option.getD_some]
          refine ⟨?_, (hci.std t hty hr).symm⟩
          rw [hfv, ← hvals, hvoc]
    · -- not a channel: no receiver; no pair mentions the path, and it holds no scalers
      have hnone : ∀ b, (oc.path, b) ∉ psOf (denoteSegs [] e acts) := by
        intro b hb
        obtain ⟨_, _, _, hc', _, _⟩ := psOf_mem hb
        exact hchan hc'
      rw [find_ps_none hnone]
      simp only [Option.map_none, Option.bind_none, Option.getD_none]
      refine ⟨?_, ?_⟩
      · rw [← hvoc, hvals]
        symm
        apply colOf_not_mem
        intro hmem
        obtain ⟨pv, hpv, hpe⟩ := List.mem_map.mp hmem
        have := allStdPairs_receiver e acts (denoteSegs [] e acts) hok hch hsem.tyData pv hpv
        rw [hpe] at this
        exact hnone false this
      · cases hty : oc.ty with
        | none => exact (hci.untyped hty).2.symm
        | some t =>
          by_cases hr : t = tyDaqmxRaw
          · subst hr
            exact absurd (hci.raw hty).2.2.2 hchan
          · exact (hci.std t hty hr).symm
  rw [hgoal.1, hgoal.2]

end Tdms.Proofs.C01Layouts
