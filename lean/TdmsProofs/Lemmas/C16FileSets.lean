/-
  C16 at file level, part 2: WHICH names are written, in terms of the objects handed to `write_segment`:
  channels — exactly the handed channels; groups — the handed groups and the groups of the handed channels;
  the root — as soon as there is one `write_segment` call.  Core Lean only.
-/
import TdmsProofs.Lemmas.C16FileNames

namespace Tdms.Proofs.C16File

open Tdms Tdms.Generated Tdms.Model Tdms.Model.Writer Tdms.Model.Path
open Tdms.Proofs.C08 Tdms.Proofs.C07Whole Tdms.Proofs.C07Checked

/-- an object the writer inserts on its own: the root, or the group of a handed channel, both without properties -/
def Implied (hs : List WObj) (o : WObj) : Prop :=
  o = .root [] ∨ ∃ g, o = .group g [] ∧ ∃ c d p, WObj.channel g c d p ∈ hs

theorem Implied.mono {hs hs' : List WObj} {o : WObj} (hsub : ∀ x ∈ hs, x ∈ hs') (h : Implied hs o) : Implied hs' o := by
  rcases h with h | ⟨g, hg, c, d, p, hm⟩
  · exact .inl h
  · exact .inr ⟨g, hg, c, d, p, hsub _ hm⟩

theorem segmentObjects_implied {st st' : WriterState} {objs sorted : List WObj}
    (h : segmentObjects st objs = some (sorted, st')) (o : WObj) (ho : o ∈ sorted) : o ∈ objs ∨ Implied objs o := by
  rcases (segmentObjects_mem h o).1 ho with h1 | ⟨⟨_, _, h1⟩, _⟩
  · exact .inl h1
  · exact .inr h1

theorem sessionSegs_implied {st : WriterState} {segs L : List (List WObj)} (h : sessionSegs st segs = some L)
    (o : WObj) (ho : o ∈ L.flatten) : o ∈ segs.flatten ∨ Implied segs.flatten o := by
  induction segs generalizing st L with
  | nil => cases h; cases ho
  | cons s ss ih =>
    simp only [sessionSegs] at h
    cases hso : segmentObjects st s with
    | none => simp [hso] at h
    | some r =>
      obtain ⟨objs, st'⟩ := r
      rw [hso] at h
      simp only at h
      cases hrest : sessionSegs st' ss with
      | none => simp [hrest] at h
      | some L' =>
        rw [hrest] at h
        cases h
        rw [List.flatten_cons, List.mem_append] at ho
        rw [List.flatten_cons]
        rcases ho with ho | ho
        · rcases segmentObjects_implied hso o ho with h1 | h1
          · exact .inl (List.mem_append_left _ h1)
          · exact .inr (h1.mono fun x hx => List.mem_append_left _ hx)
        · rcases ih hrest ho with h1 | h1
          · exact .inl (List.mem_append_right _ h1)
          · exact .inr (h1.mono fun x hx => List.mem_append_right _ hx)

theorem programSegs_implied {prog : Program} {Ls : List (List (List WObj))} (h : programSegs prog = some Ls)
    (o : WObj) (ho : o ∈ Ls.flatten.flatten) : o ∈ prog.flatten.flatten ∨ Implied prog.flatten.flatten o := by
  induction prog generalizing Ls with
  | nil => cases h; cases ho
  | cons s rest ih =>
    simp only [programSegs] at h
    cases hs : sessionSegs {} s with
    | none => simp [hs] at h
    | some L =>
      cases hr : programSegs rest with
      | none => simp [hs, hr] at h
      | some Ls' =>
        rw [hs, hr] at h
        cases h
        rw [List.flatten_cons, List.flatten_append, List.mem_append] at ho
        rw [List.flatten_cons, List.flatten_append]
        rcases ho with ho | ho
        · rcases sessionSegs_implied hs o ho with h1 | h1
          · exact .inl (List.mem_append_left _ h1)
          · exact .inr (h1.mono fun x hx => List.mem_append_left _ hx)
        · rcases ih hr ho with h1 | h1
          · exact .inl (List.mem_append_right _ h1)
          · exact .inr (h1.mono fun x hx => List.mem_append_right _ hx)

/-- every written object was handed over or is an implied root / group -/
theorem written_handed_or_implied {prog : Program} (ha : Accepted prog) (o : WObj) (ho : o ∈ written prog) :
    o ∈ handed prog ∨ Implied (handed prog) o := by
  unfold Accepted at ha
  cases hp : programSegs prog with
  | none => rw [hp] at ha; cases ha
  | some Ls =>
    unfold written at ho
    rw [emitted_of_programSegs hp] at ho
    exact programSegs_implied hp o ho

/-- every handed object is written -/
theorem handed_written {prog : Program} (ha : Accepted prog) (o : WObj) (ho : o ∈ handed prog) : o ∈ written prog := by
  unfold Accepted at ha
  cases hp : programSegs prog with
  | none => rw [hp] at ha; cases ha
  | some Ls =>
    unfold written
    rw [emitted_of_programSegs hp]
    exact (program_typed hp).2.1 o ho

/-- wherever a channel is written, its group object is written (earlier) -/
theorem written_group_of_channel {prog : Program} (ha : Accepted prog) {g c : Bytes} {d : WData} {p : List WProp}
    (ho : WObj.channel g c d p ∈ written prog) : ∃ props, WObj.group g props ∈ written prog := by
  unfold Accepted at ha
  cases hp : programSegs prog with
  | none => rw [hp] at ha; cases ha
  | some Ls =>
    unfold written at ho ⊢
    rw [emitted_of_programSegs hp] at ho ⊢
    have hgb := program_groupsBefore (programSegs_sessions hp) []
    obtain ⟨a, b, hab⟩ := List.append_of_mem ho
    rcases hgb.spec hab with h | ⟨props, h⟩
    · cases h
    · exact ⟨props, by rw [hab]; exact List.mem_append_left _ h⟩

theorem sessionSegs_length {st : WriterState} {segs L : List (List WObj)} (h : sessionSegs st segs = some L) :
    L.length = segs.length := by
  induction segs generalizing st L with
  | nil => cases h; rfl
  | cons s ss ih =>
    simp only [sessionSegs] at h
    cases hso : segmentObjects st s with
    | none => simp [hso] at h
    | some r =>
      obtain ⟨objs, st'⟩ := r
      rw [hso] at h
      simp only at h
      cases hrest : sessionSegs st' ss with
      | none => simp [hrest] at h
      | some L' =>
        rw [hrest] at h
        cases h
        simp [ih hrest]

theorem programSegs_length {prog : Program} {Ls : List (List (List WObj))} (h : programSegs prog = some Ls) :
    Ls.flatten.length = prog.flatten.length := by
  induction prog generalizing Ls with
  | nil => cases h; rfl
  | cons s rest ih =>
    simp only [programSegs] at h
    cases hs : sessionSegs {} s with
    | none => simp [hs] at h
    | some L =>
      cases hr : programSegs rest with
      | none => simp [hs, hr] at h
      | some Ls' =>
        rw [hs, hr] at h
        cases h
        simp [ih hr, sessionSegs_length hs]

/-- one written segment per `write_segment` call -/
theorem emitted_length {prog : Program} (ha : Accepted prog) : (emitted prog).length = prog.flatten.length := by
  unfold Accepted at ha
  cases hp : programSegs prog with
  | none => rw [hp] at ha; cases ha
  | some Ls => rw [emitted_of_programSegs hp]; exact programSegs_length hp

/-- the root object is written as soon as there is a `write_segment` call -/
theorem written_root {prog : Program} (ha : Accepted prog) (hne : prog.flatten ≠ []) :
    ∃ o ∈ written prog, comps o = [] := by
  have hlen := emitted_length ha
  unfold Accepted at ha
  cases hp : programSegs prog with
  | none => rw [hp] at ha; cases ha
  | some Ls =>
    rw [emitted_of_programSegs hp] at hlen
    unfold written
    rw [emitted_of_programSegs hp]
    cases hL : Ls.flatten with
    | nil =>
      rw [hL] at hlen
      exact absurd (List.eq_nil_of_length_eq_zero hlen.symm) hne
    | cons first more =>
      obtain ⟨o, ho, hk⟩ := program_rootFirst (programSegs_sessions hp) first (by rw [hL]; rfl)
      refine ⟨o, by rw [List.flatten_cons]; exact List.mem_append_left _ ho, ?_⟩
      rw [key_comps] at hk
      exact List.eq_nil_of_length_eq_zero hk

/-! ## the names written, from the handed objects -/

theorem comps_implied {hs : List WObj} {o : WObj} (h : Implied hs o) :
    comps o = [] ∨ ∃ g, comps o = [g] ∧ ∃ c d p, WObj.channel g c d p ∈ hs := by
  rcases h with rfl | ⟨g, rfl, h⟩
  · exact .inl rfl
  · exact .inr ⟨g, rfl, h⟩

/-- **channel names**: the (group, channel) name pairs written are exactly those of the handed channel objects -/
theorem channel_written_iff {prog : Program} (ha : Accepted prog) (g c : Bytes) :
    [g, c] ∈ writtenNames prog ↔ ∃ d p, WObj.channel g c d p ∈ handed prog := by
  rw [mem_writtenNames]
  constructor
  · rintro ⟨o, ho, hc⟩
    rcases written_handed_or_implied ha o ho with h | h
    · cases o with
      | root p => cases hc
      | group g' p => cases hc
      | channel g' c' d p => cases hc; exact ⟨d, p, h⟩
    · rcases comps_implied h with h1 | ⟨g', h1, _⟩ <;> rw [h1] at hc <;> cases hc
  · rintro ⟨d, p, h⟩
    exact ⟨_, handed_written ha _ h, rfl⟩

/-- **group names**: the group names written are those of the handed group objects and of the handed channels -/
theorem group_written_iff {prog : Program} (ha : Accepted prog) (g : Bytes) :
    [g] ∈ writtenNames prog ↔
      (∃ p, WObj.group g p ∈ handed prog) ∨ ∃ c d p, WObj.channel g c d p ∈ handed prog := by
  rw [mem_writtenNames]
  constructor
  · rintro ⟨o, ho, hc⟩
    rcases written_handed_or_implied ha o ho with h | h
    · cases o with
      | root p => cases hc
      | group g' p => cases hc; exact .inl ⟨p, h⟩
      | channel g' c' d p => cases hc
    · rcases comps_implied h with h1 | ⟨g', h1, h2⟩
      · rw [h1] at hc; cases hc
      · rw [h1] at hc; cases hc; exact .inr h2
  · rintro (⟨p, h⟩ | ⟨c, d, p, h⟩)
    · exact ⟨_, handed_written ha _ h, rfl⟩
    · obtain ⟨props, hg⟩ := written_group_of_channel ha (handed_written ha _ h)
      exact ⟨_, hg, rfl⟩

/-- **the root**: written iff there is at least one `write_segment` call -/
theorem root_written_iff {prog : Program} (ha : Accepted prog) : [] ∈ writtenNames prog ↔ prog.flatten ≠ [] := by
  rw [mem_writtenNames]
  constructor
  · rintro ⟨o, ho, _⟩ hnil
    have hlen := emitted_length ha
    rw [hnil] at hlen
    unfold written at ho
    rw [List.eq_nil_of_length_eq_zero hlen] at ho
    cases ho
  · exact written_root ha

/-- nothing else is written: every name list has at most two components -/
theorem writtenNames_length {prog : Program} (cs : List Bytes) (h : cs ∈ writtenNames prog) : cs.length ≤ 2 := by
  obtain ⟨o, _, rfl⟩ := (mem_writtenNames prog cs).1 h
  cases o <;> simp [comps]

end Tdms.Proofs.C16File
