import Tdms.Model.Reader

/-!
# Lemmas on the lead-in and on one iteration of `readMetadataLoop` (shared by C06 and C09)
-/

open Tdms Tdms.Model Tdms.Generated
namespace Tdms.Proofs.LeadIn

/-! ## fields of a lead-in, as `readLeadIn` decodes them -/
def liToc (bytes : Bytes) : Nat := decLE ((bytes.drop 4).take 4)
def liEndian (bytes : Bytes) : Endian := if hasFlag (liToc bytes) kTocBigEndian then .big else .little
def liVersion (bytes : Bytes) : Int := toSigned 4 (dec (liEndian bytes) ((bytes.drop 8).take 4))
def liNextOff (bytes : Bytes) : Nat := dec (liEndian bytes) ((bytes.drop 12).take 8)
def liRawOff (bytes : Bytes) : Nat := dec (liEndian bytes) ((bytes.drop 20).take 8)

/-- `readLeadIn` on a lead-in that is long enough and carries the right tag, in closed form -/
theorem readLeadIn_eq (bytes : Bytes) (p : Nat) (isIndex : Bool) (dfs : Option Nat)
    (hlen : 28 ≤ bytes.length) (htag : bytes.take 4 = (if isIndex then tagIndex else tagData)) :
    readLeadIn bytes p isIndex dfs =
      let dataPos := p + 28 + liRawOff bytes
      let nextPos := p + liNextOff bytes + 28
      if liNextOff bytes = 2 ^ 64 - 1 then
        match dfs with
        | none => .error .other
        | some size =>
          if size < dataPos then .ok none
          else .ok (some ⟨liToc bytes, liVersion bytes, dataPos, size, true⟩)
      else
        match dfs with
        | some size =>
          if nextPos > size then
            if size < dataPos then .ok none
            else .ok (some ⟨liToc bytes, liVersion bytes, dataPos, size, true⟩)
          else .ok (some ⟨liToc bytes, liVersion bytes, dataPos, nextPos, false⟩)
        | none => .ok (some ⟨liToc bytes, liVersion bytes, dataPos, nextPos, false⟩) := by
  have h1 : ¬ bytes.length < 28 := by omega
  unfold readLeadIn
  simp only [h1, if_false, htag, ne_eq, not_true_eq_false]
  rfl

/-- a lead-in that was accepted was long enough, had the right tag, and its fields are the decoded ones -/
theorem readLeadIn_some_inv (bytes : Bytes) (p : Nat) (isIndex : Bool) (dfs : Option Nat) (li : LeadIn)
    (h : readLeadIn bytes p isIndex dfs = .ok (some li)) :
    28 ≤ bytes.length ∧ bytes.take 4 = (if isIndex then tagIndex else tagData) ∧
    li.dataPosition = p + 28 + liRawOff bytes ∧ li.toc = liToc bytes ∧ li.version = liVersion bytes ∧
    (li.incomplete = false → li.nextSegmentPos = p + liNextOff bytes + 28) := by
  have hlen : ¬ bytes.length < 28 := by
    intro hl
    unfold readLeadIn at h; rw [if_pos hl] at h; cases h
  have htag : bytes.take 4 = (if isIndex then tagIndex else tagData) := by
    apply Classical.byContradiction
    intro ht
    unfold readLeadIn at h
    simp only [hlen, if_false, ne_eq, ht, not_false_eq_true, if_true] at h
    cases h
  refine ⟨by omega, htag, ?_⟩
  rw [readLeadIn_eq bytes p isIndex dfs (by omega) htag] at h
  simp only at h
  split at h
  · split at h
    · cases h
    · split at h
      · cases h
      · cases h; simp
  · split at h
    · split at h
      · split at h
        · cases h
        · cases h; simp
      · cases h; simp
    · cases h; simp

theorem lead_in_progress_aux (bytes : Bytes) (p : Nat) (isIndex : Bool) (dfs : Option Nat) (li : LeadIn)
    (h : readLeadIn bytes p isIndex dfs = .ok (some li)) :
    p + 28 ≤ li.nextSegmentPos ∧ p + 28 ≤ li.dataPosition := by
  by_cases hlen : bytes.length < 28
  · simp [readLeadIn, hlen] at h
  by_cases htag : bytes.take 4 = (if isIndex then tagIndex else tagData)
  · rw [readLeadIn_eq bytes p isIndex dfs (by omega) htag] at h
    simp only at h
    split at h
    · split at h
      · cases h
      · split at h
        · cases h
        · cases h; dsimp only; omega
    · split at h
      · split at h
        · split at h
          · cases h
          · cases h; dsimp only; omega
        · cases h; dsimp only; omega
      · cases h; dsimp only; omega
  · simp [readLeadIn, hlen, htag] at h


/-- what `calculateChunks` leaves untouched -/
def Segment.sameFrame (a b : Segment) : Prop :=
  a.position = b.position ∧ a.toc = b.toc ∧ a.nextSegmentPos = b.nextSegmentPos ∧
  a.dataPosition = b.dataPosition ∧ a.incomplete = b.incomplete ∧ a.objects = b.objects

theorem calculateChunks_frame (s s' : Segment) (h : calculateChunks s = .ok s') : Segment.sameFrame s' s := by
  unfold calculateChunks at h
  cases hc : chunkSize s.objects with
  | error e => simp [hc, bind, Except.bind] at h
  | ok c =>
    simp only [hc, bind, Except.bind] at h
    by_cases h1 : s.nextSegmentPos < s.dataPosition
    · simp [h1, throw, throwThe, MonadExceptOf.throw] at h
    · simp only [h1, if_false, pure, Except.pure] at h
      by_cases h2 : c = 0
      · simp only [h2, if_true] at h
        by_cases h3 : s.nextSegmentPos - s.dataPosition ≠ 0
        · simp [h3, throw, throwThe, MonadExceptOf.throw] at h
        · simp [h3] at h
          subst h; simp [Segment.sameFrame]
      · simp only [h2, if_false] at h
        by_cases h3 : (s.nextSegmentPos - s.dataPosition) % c = 0
        · simp [h3] at h; subst h; simp [Segment.sameFrame]
        · simp only [h3, if_false] at h
          cases hov : computeFinalChunkLengths s c ((s.nextSegmentPos - s.dataPosition) % c) with
          | error e => simp [hov] at h
          | ok ov => simp [hov] at h; subst h; simp [Segment.sameFrame]

theorem readSegmentObjects_frame (seg : Segment) (prevSeg : Option Segment) (prevObjs : PrevObjs) (bytes : Bytes)
    (seg' : Segment) (props : List (Bytes × List PropVal))
    (h : readSegmentObjects seg prevSeg prevObjs bytes = .ok (seg', props)) :
    seg'.position = seg.position ∧ seg'.toc = seg.toc ∧ seg'.nextSegmentPos = seg.nextSegmentPos ∧
    seg'.dataPosition = seg.dataPosition ∧ seg'.incomplete = seg.incomplete := by
  unfold readSegmentObjects at h
  by_cases hm : hasFlag seg.toc kTocMetaData
  · simp only [hm, Bool.not_true, Bool.false_eq_true, if_false, bind, Except.bind] at h
    split at h
    · cases h
    · rename_i v hv
      obtain ⟨⟨objs, props'⟩, rest⟩ := v
      simp only at h
      split at h
      · cases h
      · rename_i s hs
        simp [pure, Except.pure] at h
        obtain ⟨h1, _⟩ := h
        subst h1
        have := calculateChunks_frame _ _ hs
        simp [Segment.sameFrame] at this
        obtain ⟨a, b, c, d, e, _⟩ := this
        exact ⟨a, b, c, d, e⟩
  · simp only [hm, Bool.not_false, if_true] at h
    cases prevSeg with
    | none => simp [throw, throwThe, MonadExceptOf.throw] at h
    | some p =>
      simp only [bind, Except.bind] at h
      split at h
      · cases h
      · rename_i s hs
        simp [pure, Except.pure] at h
        obtain ⟨h1, _⟩ := h
        subst h1
        have := calculateChunks_frame _ _ hs
        simp [Segment.sameFrame] at this
        obtain ⟨a, b, c, d, e, _⟩ := this
        exact ⟨a, b, c, d, e⟩


/-! ## one iteration of `readMetadataLoop` -/

/-- outcome of one iteration: the loop ends with a state, or continues at new positions -/
inductive StepResult
  | done (st : ReaderState)
  | next (filePos segPos : Nat) (st : ReaderState)

/-- the body of the `while True` loop, separated from the recursion -/
def loopStep (file : Bytes) (isIndex : Bool) (dfs : Option Nat) (filePos segPos : Nat) (st : ReaderState) :
    Except Err StepResult :=
  match readLeadIn (file.drop filePos) segPos isIndex dfs with
  | .error e => .error e
  | .ok none =>
    match leadInVersion (file.drop filePos) with
    | some v => .ok (.done { st with version := some (st.version.getD v), versions := st.versions ++ [v] })
    | none => .ok (.done st)
  | .ok (some li) =>
    match readSegmentObjects ⟨segPos, li.toc, li.nextSegmentPos, li.dataPosition, li.incomplete, [], 0, none⟩
        st.segments.getLast? st.prevObjs (file.drop (filePos + 28)) with
    | .error e => .error e
    | .ok (seg, props) =>
      match updateObjectMetadata seg seg.objects st.prevObjs st.objects with
      | .error e => .error e
      | .ok (prev', objs') =>
        .ok (.next (if isIndex then filePos + (seg.dataPosition - seg.position) else seg.nextSegmentPos)
          seg.nextSegmentPos
          { version := some (st.version.getD li.version), versions := st.versions ++ [li.version],
            prevObjs := prev', objects := updateObjectProperties objs' props, segments := st.segments ++ [seg] })

theorem readMetadataLoop_succ (file : Bytes) (isIndex : Bool) (dfs : Option Nat) (fuel filePos segPos : Nat)
    (st : ReaderState) :
    readMetadataLoop file isIndex dfs (fuel + 1) filePos segPos st =
      match loopStep file isIndex dfs filePos segPos st with
      | .error e => .error e
      | .ok (.done st') => .ok st'
      | .ok (.next fp sp st') => readMetadataLoop file isIndex dfs fuel fp sp st' := by
  rw [readMetadataLoop, loopStep]
  cases h1 : readLeadIn (file.drop filePos) segPos isIndex dfs with
  | error e => rfl
  | ok r =>
    cases r with
    | none =>
      simp only [bind, Except.bind]
      cases leadInVersion (file.drop filePos) <;> rfl
    | some li =>
      simp only [bind, Except.bind]
      cases h2 : readSegmentObjects ⟨segPos, li.toc, li.nextSegmentPos, li.dataPosition, li.incomplete, [], 0, none⟩
        st.segments.getLast? st.prevObjs (file.drop (filePos + 28)) with
      | error e => rfl
      | ok v =>
        obtain ⟨seg, props⟩ := v
        simp only
        cases h3 : updateObjectMetadata seg seg.objects st.prevObjs st.objects with
        | error e => rfl
        | ok w => obtain ⟨prev', objs'⟩ := w; rfl


theorem loopStep_next (file : Bytes) (isIndex : Bool) (dfs : Option Nat) (fp sp fp' sp' : Nat)
    (st st' : ReaderState) (h : loopStep file isIndex dfs fp sp st = .ok (.next fp' sp' st')) :
    ∃ li seg, readLeadIn (file.drop fp) sp isIndex dfs = .ok (some li) ∧
      sp' = li.nextSegmentPos ∧
      fp' = (if isIndex then fp + (li.dataPosition - sp) else li.nextSegmentPos) ∧
      st'.segments = st.segments ++ [seg] ∧
      seg.position = sp ∧ seg.nextSegmentPos = li.nextSegmentPos ∧ seg.dataPosition = li.dataPosition ∧
      seg.incomplete = li.incomplete ∧ seg.toc = li.toc := by
  unfold loopStep at h
  cases h1 : readLeadIn (file.drop fp) sp isIndex dfs with
  | error e => simp [h1] at h
  | ok r =>
    cases r with
    | none =>
      simp only [h1] at h
      cases hv : leadInVersion (file.drop fp) <;> simp only [hv] at h <;> cases h
    | some li =>
      simp only [h1] at h
      cases h2 : readSegmentObjects ⟨sp, li.toc, li.nextSegmentPos, li.dataPosition, li.incomplete, [], 0, none⟩
        st.segments.getLast? st.prevObjs (file.drop (fp + 28)) with
      | error e => simp [h2] at h
      | ok v =>
        obtain ⟨seg, props⟩ := v
        simp only [h2] at h
        cases h3 : updateObjectMetadata seg seg.objects st.prevObjs st.objects with
        | error e => simp [h3] at h
        | ok w =>
          obtain ⟨prev', objs'⟩ := w
          simp only [h3] at h
          obtain ⟨a, b, c, d, e⟩ := readSegmentObjects_frame _ _ _ _ _ _ h2
          simp only at a b c d e
          injection h with h
          injection h with hfp hsp hst
          refine ⟨li, seg, rfl, ?_, ?_, ?_, a, c, d, e, b⟩
          · rw [← hsp, c]
          · rw [← hfp, a, c, d]
          · rw [← hst]

/-- **progress**: every iteration that continues moves the segment position forward by at least the 28 bytes
    of a lead-in -/
theorem loopStep_progress (file : Bytes) (isIndex : Bool) (dfs : Option Nat) (fp sp fp' sp' : Nat)
    (st st' : ReaderState) (h : loopStep file isIndex dfs fp sp st = .ok (.next fp' sp' st')) :
    sp + 28 ≤ sp' ∧ (isIndex = true → fp + 28 ≤ fp') ∧ (isIndex = false → fp' = sp') := by
  obtain ⟨li, seg, h1, h2, h3, _⟩ := loopStep_next _ _ _ _ _ _ _ _ _ h
  have := lead_in_progress_aux _ _ _ _ _ h1
  subst h2 h3
  refine ⟨this.1, ?_, ?_⟩
  · intro hi; subst hi; simp; omega
  · intro hi; subst hi; simp


theorem loopStep_past_end (file : Bytes) (isIndex : Bool) (dfs : Option Nat) (fp sp : Nat) (st : ReaderState)
    (h : file.length < fp + 28) : loopStep file isIndex dfs fp sp st = .ok (.done st) := by
  have hl : (file.drop fp).length < 28 := by simp; omega
  have h1 : readLeadIn (file.drop fp) sp isIndex dfs = .ok none := by
    unfold readLeadIn; rw [if_pos hl]
  have h2 : leadInVersion (file.drop fp) = none := by
    unfold leadInVersion; rw [if_pos hl]
  simp only [loopStep, h1, h2]

/-- one more unit of fuel changes nothing once `fuel` exceeds the bytes left in the file -/
theorem readMetadataLoop_fuel_succ (file : Bytes) (isIndex : Bool) (dfs : Option Nat) :
    ∀ (fuel fp sp : Nat) (st : ReaderState), (isIndex = false → fp = sp) → file.length + 1 ≤ fp + fuel →
      readMetadataLoop file isIndex dfs (fuel + 1) fp sp st = readMetadataLoop file isIndex dfs fuel fp sp st := by
  intro fuel
  induction fuel with
  | zero =>
    intro fp sp st _ hl
    rw [readMetadataLoop_succ, loopStep_past_end _ _ _ _ _ _ (by omega)]
    rfl
  | succ fuel ih =>
    intro fp sp st hfs hl
    rw [readMetadataLoop_succ, readMetadataLoop_succ file isIndex dfs fuel]
    cases hstep : loopStep file isIndex dfs fp sp st with
    | error e => rfl
    | ok r =>
      cases r with
      | done st' => rfl
      | next fp' sp' st' =>
        simp only
        obtain ⟨h1, h2, h3⟩ := loopStep_progress _ _ _ _ _ _ _ _ _ hstep
        apply ih fp' sp' st' h3
        cases isIndex with
        | true => have := h2 rfl; omega
        | false => have := h3 rfl; have := hfs rfl; omega

theorem readMetadataLoop_fuel_add (file : Bytes) (isIndex : Bool) (dfs : Option Nat) (m fuel fp sp : Nat)
    (st : ReaderState) (hfs : isIndex = false → fp = sp) (hl : file.length + 1 ≤ fp + fuel) :
    readMetadataLoop file isIndex dfs (fuel + m) fp sp st = readMetadataLoop file isIndex dfs fuel fp sp st := by
  induction m with
  | zero => rfl
  | succ m ih =>
    rw [← Nat.add_assoc, readMetadataLoop_fuel_succ _ _ _ _ _ _ _ hfs (by omega), ih]

end Tdms.Proofs.LeadIn
