/-
  C07 whole: the spec encoding of a written file is well-formed, standard (`MultiStd`), fits (`FileFits`),
  and only channels carry data.  Core Lean only.
-/
import TdmsProofs.Lemmas.C07WholeActs

namespace Tdms.Proofs.C07Whole

open Tdms Tdms.Generated Tdms.Model Tdms.Model.Writer Tdms.Model.Path Tdms.Proofs.C08 Tdms.Proofs.C02
open Tdms.Proofs.C01Multi

/-! ## `eraseDups` -/

theorem eraseDups_length_le {α : Type} [BEq α] [LawfulBEq α] :
    ∀ (n : Nat) (l : List α), l.length ≤ n → l.eraseDups.length ≤ l.length := by
  intro n
  induction n with
  | zero => intro l h; cases l <;> simp_all
  | succ n ih =>
    intro l h
    cases l with
    | nil => simp
    | cons a as =>
      rw [List.eraseDups_cons, List.length_cons, List.length_cons]
      have h1 : (as.filter fun b => !b == a).length ≤ as.length := List.length_filter_le _ _
      have := ih (as.filter fun b => !b == a) (by simp at h; omega)
      omega

theorem nodup_of_eraseDups_length {α : Type} [BEq α] [LawfulBEq α] :
    ∀ (n : Nat) (l : List α), l.length ≤ n → l.eraseDups.length = l.length → l.Nodup := by
  intro n
  induction n with
  | zero => intro l h _; cases l <;> simp_all
  | succ n ih =>
    intro l h he
    cases l with
    | nil => simp
    | cons a as =>
      rw [List.eraseDups_cons, List.length_cons, List.length_cons] at he
      have h1 : (as.filter fun b => !b == a).length ≤ as.length := List.length_filter_le _ _
      have h2 := eraseDups_length_le _ (as.filter fun b => !b == a) (Nat.le_refl _)
      have hf : (as.filter fun b => !b == a).length = as.length := by omega
      have hfe : as.filter (fun b => !b == a) = as := List.filter_eq_self.2 (by
        have := List.length_filter_eq_length_iff.1 hf
        exact this)
      rw [hfe] at he
      rw [List.nodup_cons]
      refine ⟨?_, ih as (by simp at h; omega) (by omega)⟩
      intro hmem
      have := List.filter_eq_self.1 hfe a hmem
      simp at this

theorem eraseDups_of_nodup {α : Type} [BEq α] [LawfulBEq α] : ∀ (l : List α), l.Nodup → l.eraseDups = l := by
  intro l
  induction l with
  | nil => intro _; rfl
  | cons a as ih =>
    intro h
    rw [List.nodup_cons] at h
    rw [List.eraseDups_cons]
    have : as.filter (fun b => !b == a) = as := List.filter_eq_self.2 (by
      intro b hb
      have : b ≠ a := fun e => h.1 (e ▸ hb)
      simpa using this)
    rw [this, ih h.2]

theorem nodup_eraseDups {α : Type} [BEq α] [LawfulBEq α] :
    ∀ (n : Nat) (l : List α), l.length ≤ n → l.eraseDups.Nodup := by
  intro n
  induction n with
  | zero => intro l h; cases l <;> simp_all
  | succ n ih =>
    intro l h
    cases l with
    | nil => simp
    | cons a as =>
      rw [List.eraseDups_cons, List.nodup_cons]
      have h1 : (as.filter fun b => !b == a).length ≤ as.length := List.length_filter_le _ _
      refine ⟨?_, ih _ (by simp at h; omega)⟩
      rw [List.mem_eraseDups]
      simp

/-! ## the emitted object lists have distinct paths -/

theorem ite_none_some' {α} {c : Prop} [Decidable c] {x y : α}
    (h : (if c then none else some x) = some y) : ¬ c ∧ x = y := by
  split at h
  · cases h
  · rename_i hc; exact ⟨hc, Option.some.inj h⟩

theorem segmentObjects_nodup {st st' : WriterState} {objs sorted : List WObj}
    (h : segmentObjects st objs = some (sorted, st')) : (sorted.map (·.path)).Nodup := by
  unfold segmentObjects at h
  simp only at h
  obtain ⟨hne, heq⟩ := ite_none_some' h
  injection heq with h1 _
  subst h1
  exact nodup_of_eraseDups_length _ _ (Nat.le_refl _) (by simpa using hne)

theorem sessionSegs_nodup {st : WriterState} {segs L : List (List WObj)} (h : sessionSegs st segs = some L) :
    ∀ objs ∈ L, (objs.map (·.path)).Nodup := by
  induction segs generalizing st L with
  | nil => cases h; intro o ho; cases ho
  | cons s ss ih =>
    simp only [sessionSegs] at h
    cases hso : segmentObjects st s with
    | none => simp [hso] at h
    | some r =>
      obtain ⟨objs, st'⟩ := r
      rw [hso] at h
      simp only at h
      cases hrest : sessionSegs st' ss with
      | none => simp [hrest] at h
      | some L' =>
        rw [hrest] at h
        cases h
        intro o ho
        rcases List.mem_cons.1 ho with rfl | ho
        · exact segmentObjects_nodup hso
        · exact ih hrest o ho

theorem emitted_nodup (prog : Program) : ∀ objs ∈ emitted prog, (objs.map (·.path)).Nodup := by
  unfold emitted
  cases hp : programSegs prog with
  | none => intro o ho; simp at ho
  | some Ls =>
    intro objs ho
    simp only [Option.getD_some, List.mem_flatten] at ho
    obtain ⟨L, hL, hoL⟩ := ho
    obtain ⟨s, hs⟩ := programSegs_sessions hp L hL
    exact sessionSegs_nodup hs objs hoL

theorem emitted_writable {prog : Program} (h : WritableProgram prog) :
    ∀ objs ∈ emitted prog, WritableObjs objs := by
  unfold WritableProgram at h
  unfold emitted
  cases hp : programSegs prog with
  | none => rw [hp] at h; exact h.elim
  | some Ls => rw [hp] at h; exact h

/-! ## only channels carry data -/

theorem go_true_quote_close (rest : Bytes) (hrest : ∀ rs, rest ≠ 0x27 :: rs) :
    countComponents.go (0x27 :: rest) true = countComponents.go rest false := by
  rw [countComponents.go]
  intro rs h
  exact hrest rs h

theorem go_true_escape (g : Bytes) (rest : Bytes) (hrest : ∀ rs, rest ≠ 0x27 :: rs) :
    countComponents.go (escape qByte g ++ qByte :: rest) true = countComponents.go rest false := by
  induction g with
  | nil => exact go_true_quote_close rest hrest
  | cons c cs ih =>
    simp only [escape]
    by_cases h : c = qByte
    · simp only [h, if_true, List.cons_append]
      show countComponents.go (0x27 :: 0x27 :: _) true = _
      rw [countComponents.go]
      exact ih
    · simp only [h, if_false, List.cons_append]
      rw [countComponents.go]
      · exact ih
      · intro r hr; cases hr
      · intro r _ hr; exact absurd hr h
      · intro _ hr; exact absurd hr h

theorem go_false_open (rest : Bytes) :
    countComponents.go (0x2f :: 0x27 :: rest) false = 1 + countComponents.go rest true := by
  rw [countComponents.go]

/-- the reader's classification of a channel path written by the writer: two components -/
theorem countComponents_channel (g c : Bytes) : countComponents (componentsToPathBytes [g, c]) = 2 := by
  unfold countComponents componentsToPathBytes componentsToPath
  simp only [List.map_cons, List.map_nil, join, quoted, sByte, List.cons_append, List.append_assoc,
    List.nil_append]
  show countComponents.go (0x2f :: 0x27 :: (escape qByte g ++ qByte :: (0x2f :: 0x27 :: (escape qByte c ++ qByte :: [])))) false = 2
  rw [go_false_open, go_true_escape g _ (by intro rs h; cases h), go_false_open,
    go_true_escape c [] (by intro rs h; cases h)]
  rfl

theorem hasData_actOfW {last : LastIdx} {o : WObj} (h : (actOfW last o).hasData = true) :
    countComponents (actOfW last o).path = 2 := by
  rw [actOfW_path]
  unfold actOfW at h
  cases hd : dataOf o with
  | none => rw [hd] at h; cases h
  | some d =>
    obtain ⟨g, c, ps, rfl, _⟩ := dataOf_some_channel hd
    exact countComponents_channel g c

theorem mem_zip_acts (v : Nat) : ∀ (segs : List (List WObj)) (last : LastIdx) (sa : SegEnc × List ActiveObj),
    sa ∈ (segs.map (segOfW v)).zip (actsOfW last segs) →
    ∃ objs last', objs ∈ segs ∧ sa = (segOfW v objs, objs.map (actOfW last')) := by
  intro segs
  induction segs with
  | nil => intro last sa h; simp [actsOfW] at h
  | cons objs rest ih =>
    intro last sa h
    simp only [List.map_cons, actsOfW, List.zip_cons_cons, List.mem_cons] at h
    rcases h with rfl | h
    · exact ⟨objs, last, List.mem_cons_self, rfl⟩
    · obtain ⟨o, l, ho, hs⟩ := ih _ sa h
      exact ⟨o, l, List.mem_cons_of_mem _ ho, hs⟩

/-! ## well-formedness of one segment -/

theorem wfProp_toPropEnc {p : WProp} (h : WritableProp p) : wfProp (toPropEnc p) = true := by
  have hv := tdmsValueOK_of_writable h.2
  unfold TdmsValueOK at hv
  unfold wfProp toPropEnc readablePropType
  simp only
  by_cases hs : (toTdmsValue p.val).1 = tyString
  · simp [hs]
  · rw [if_neg hs] at hv
    obtain ⟨_, h1, h2⟩ := hv
    simp only [hs, false_or, decide_false, Bool.false_or, Bool.and_eq_true, decide_eq_true_eq]
    exact ⟨h2, h1.symm⟩

theorem propFits_toPropEnc {p : WProp} (h : WritableProp p) : Bytes.propFits (toPropEnc p) := by
  have hv := tdmsValueOK_of_writable h.2
  unfold TdmsValueOK at hv
  refine ⟨h.1, ?_⟩
  intro hs
  have hs' : (toTdmsValue p.val).1 = tyString := hs
  rw [if_pos hs'] at hv
  exact hv.2

theorem wfIdx_idxOfW {o : WObj} (h : WritableObj o) : wfIdx (idxOfW o) = true := by
  unfold idxOfW
  cases hd : dataOf o with
  | none => rfl
  | some d =>
    obtain ⟨g, c, ps, rfl, hv⟩ := dataOf_some_channel hd
    have hw : WritableData d := h.2.2.2
    unfold WritableData at hw
    rw [if_neg hv] at hw
    simp only [wfIdx, Bool.and_eq_true, Bool.or_eq_true, decide_eq_true_eq]
    by_cases hs : d.ty = tyString
    · rw [if_pos hs] at hw
      exact ⟨.inl hs, hw.1⟩
    · rw [if_neg hs] at hw
      cases hsz : typeSize d.ty with
      | none => rw [hsz] at hw; exact hw.elim
      | some sz => rw [hsz] at hw; exact ⟨.inr rfl, hw.2⟩

theorem wfObj_toObjEnc {o : WObj} (h : WritableObj o) : wfObj (toObjEnc o) = true := by
  unfold wfObj
  simp only [Bool.and_eq_true, decide_eq_true_eq, List.all_eq_true]
  refine ⟨⟨wfIdx_idxOfW h, ?_⟩, h.1⟩
  intro q hq
  simp only [toObjEnc, List.mem_map] at hq
  obtain ⟨p, hp, rfl⟩ := hq
  exact wfProp_toPropEnc (h.2.2.1 p hp)

theorem objFitsM_toObjEnc {o : WObj} (h : WritableObj o) (hs : StringTotalFits o) : ObjFitsM (toObjEnc o) := by
  refine ⟨?_, by simpa [toObjEnc] using h.2.1, ?_⟩
  · intro n total hi
    simp only [toObjEnc, idxOfW] at hi
    cases hd : dataOf o with
    | none => rw [hd] at hi; cases hi
    | some d =>
      rw [hd] at hi
      simp only at hi
      injection hi with h1 h2 h3
      rw [← h3]
      exact hs d hd h1
  · intro q hq
    simp only [toObjEnc, List.mem_map] at hq
    obtain ⟨p, hp, rfl⟩ := hq
    exact propFits_toPropEnc (h.2.2.1 p hp)

theorem map_path_toObjEnc (objs : List WObj) : (objs.map toObjEnc).map (·.path) = objs.map (·.path) := by
  simp [toObjEnc, Function.comp_def]

theorem sum_map_four_add (vals : List Bytes) :
    (vals.map fun s => 4 + s.length).sum = 4 * vals.length + (vals.map (·.length)).sum := by
  induction vals with
  | nil => rfl
  | cons v vs ih => simp only [List.map_cons, List.sum_cons, List.length_cons, ih]; omega

/-- the chunk of a written segment has the shape its indexes announce -/
theorem wfStdChunk_written : ∀ (objs : List WObj) (act : List ActiveObj),
    ActsFor objs act → (∀ o ∈ objs, WritableObj o) → wfStdChunk (dataObjs act) (chunkOf objs) = true := by
  intro objs
  induction objs with
  | nil => intro act h _; cases act with
    | nil => rfl
    | cons a as => exact h.elim
  | cons o os ih =>
    intro act h hw
    cases act with
    | nil => exact h.elim
    | cons a as =>
      obtain ⟨hoa, hrest⟩ := h
      have ih' := ih as hrest (fun q hq => hw q (List.mem_cons_of_mem _ hq))
      rw [dataObjs_cons, chunkOf_cons]
      obtain ⟨_, hm⟩ := hoa
      cases hd : dataOf o with
      | none =>
        rw [hd] at hm
        simp only at hm
        simp only [hm, Bool.false_eq_true, if_false]
        exact ih'
      | some d =>
        rw [hd] at hm
        simp only at hm
        obtain ⟨g, c, ps, rfl, hv⟩ := dataOf_some_channel hd
        have hwd : WritableData d := (hw _ List.mem_cons_self).2.2.2
        unfold WritableData at hwd
        rw [if_neg hv] at hwd
        simp only [hm.1, if_true, wfStdChunk, hm.2, ih', Bool.and_true, Bool.and_eq_true, decide_eq_true_eq,
          true_and]
        by_cases hs : d.ty = tyString
        · simp only [if_pos hs, decide_eq_true_eq, objectDataSize, sum_map_four_add]
        · rw [if_neg hs] at hwd
          simp only [if_neg hs, List.all_eq_true, decide_eq_true_eq]
          cases hsz : typeSize d.ty with
          | none => rw [hsz] at hwd; exact hwd.elim
          | some sz =>
            rw [hsz] at hwd
            intro x hx
            rw [hwd.1 x hx]

theorem wfSeg_segOfW (v : Nat) (hv : v = 4712 ∨ v = 4713) (objs : List WObj) (last : LastIdx) (isLast : Bool)
    (hw : WritableObjs objs) (hnd : (objs.map (·.path)).Nodup) :
    wfSeg (segOfW v objs) (objs.map (actOfW last)) isLast = true := by
  have hact := actsFor_map last objs
  have hnd' : noDupPaths (segOfW v objs).objs = true := by
    rw [C01Compose.noDupPaths_iff]
    show ((objs.map toObjEnc).map (·.path)).Nodup
    rw [map_path_toObjEnc]; exact hnd
  have hobjs : ((segOfW v objs).objs.all wfObj) = true := by
    rw [List.all_eq_true]
    intro q hq
    obtain ⟨o, ho, rfl⟩ := List.mem_map.1 hq
    exact wfObj_toObjEnc (hw.2.1 o ho)
  have hnz : chunkBytesNonZero (segOfW v objs) (objs.map (actOfW last)) = true := by
    unfold chunkBytesNonZero
    rw [List.all_eq_true]
    intro c hc
    by_cases h0 : dataSize objs = 0
    · simp [segOfW, h0] at hc
    · have hcs : (segOfW v objs).chunks = [chunkOf objs] := by simp [segOfW, h0]
      have hraw := encRaw_segOfW v objs _ hact hw.2.1
      unfold encRaw at hraw
      rw [hcs] at hc hraw
      simp only [List.mem_singleton] at hc
      subst hc
      simp only [List.flatMap_cons, List.flatMap_nil, List.append_nil] at hraw
      rw [hraw]
      have hlen := flatMap_objData_length hw.2.1
      cases hb : objs.flatMap objData with
      | nil => rw [hb] at hlen; exact absurd hlen.symm h0
      | cons b bs => rfl
  have hch : ((segOfW v objs).chunks.all (wfStdChunk (dataObjs (objs.map (actOfW last))))) = true := by
    rw [List.all_eq_true]
    intro c hc
    by_cases h0 : dataSize objs = 0
    · simp [segOfW, h0] at hc
    · have hcs : (segOfW v objs).chunks = [chunkOf objs] := by simp [segOfW, h0]
      rw [hcs] at hc
      simp only [List.mem_singleton] at hc
      subst hc
      exact wfStdChunk_written objs _ hact hw.2.1
  have hver : ((segOfW v objs).version = 4712 || (segOfW v objs).version = 4713) = true := by
    show (decide (v = 4712) || decide (v = 4713)) = true
    rcases hv with h | h <;> simp [h]
  unfold wfSeg
  simp only [hver, hobjs, hnd', hnz, not_daq_of_actFor objs _ hact, hch, Bool.true_and, Bool.false_eq_true,
    if_false, Bool.and_eq_true, decide_eq_true_eq]
  simp [segOfW]

theorem wfSegs_written (v : Nat) (hv : v = 4712 ∨ v = 4713) : ∀ (segs : List (List WObj)) (last : LastIdx),
    (∀ objs ∈ segs, WritableObjs objs) → (∀ objs ∈ segs, (objs.map (·.path)).Nodup) →
    wfSegs (segs.map (segOfW v)) (actsOfW last segs) = true := by
  intro segs
  induction segs with
  | nil => intro _ _ _; rfl
  | cons objs rest ih =>
    intro last hw hnd
    simp only [List.map_cons, actsOfW, wfSegs, Bool.and_eq_true]
    exact ⟨wfSeg_segOfW v hv objs last _ (hw objs List.mem_cons_self) (hnd objs List.mem_cons_self),
      ih _ (fun o ho => hw o (List.mem_cons_of_mem _ ho)) (fun o ho => hnd o (List.mem_cons_of_mem _ ho))⟩

end Tdms.Proofs.C07Whole
