/-
  C06 (lazy = eager on cut files): the multi-segment class of `C06Whole.lean` (`MultiStd s₀ rest`: self-describing
  segments with one object signature, the marker allowed on the last one) is inside the class `MultiStdU` of
  `C01Marker.lean`; hence the complete file reads as `denote (s₀ :: rest)` and the values of every cut file are
  prefixes of the values `denote` assigns.  Core Lean only.
-/
import TdmsProofs.Lemmas.C06LazyFile
import TdmsProofs.Properties.C01Marker

namespace Tdms.Proofs.C06Lazy

open Tdms Tdms.Generated Tdms.Model Tdms.Proofs.Bytes Tdms.Proofs.C01Compose Tdms.Proofs.C06Whole
open Tdms.Proofs.C01Multi (FileFits SegFitsM ObjFitsM stdListed onlyChannelsHaveDataM ChannelsOnly)
open Tdms.Proofs.C01Marker (MultiStdU)

/-- the active lists of a file of the class: every segment lists its own objects -/
theorem activeLists_multiStd (s₀ : SegEnc) (rest : List SegEnc) (H : MultiStd s₀ rest) :
    activeLists none [] (s₀ :: rest) = .ok ((s₀ :: rest).map fun x => x.objs.map actOf) := by
  have w₀ := H.first.wfSingle
  have hrest : ∀ x ∈ rest, CutStd x ∧ x.newList = true ∧ x.objs.map sigOf = s₀.objs.map sigOf :=
    fun x hx => ⟨(H.later x hx).1, (H.later x hx).2.2.1, (H.later x hx).2.2.2⟩
  obtain ⟨last', hr, hinv'⟩ := resolveObjs_sig s₀.objs w₀.nodup s₀.objs [] [] H.first.stdObjs w₀.nodup
    (fun o ho => List.mem_map.mpr ⟨o, ho, rfl⟩) (fun p d hg => by simp [LastIdx.get] at hg)
    (fun _ _ a ha => by simp at ha)
  have hact : activeOfSeg none [] s₀ = .ok (s₀.objs.map actOf, last') := by
    simp only [activeOfSeg, H.first.hasMeta, Bool.not_true, Bool.false_eq_true, if_false]
    have hb : (if s₀.newList = true then ([] : List ActiveObj) else (none : Option (List ActiveObj)).getD []) = [] := by
      cases s₀.newList <;> rfl
    rw [hb, hr]; simp
  simp only [activeLists, hact, activeLists_later s₀.objs w₀.nodup rest _ last' hrest hinv', List.map_cons]

/-- `wfSeg` of a segment that is well formed on its own, at any place where its marker is allowed -/
theorem wfSeg_of_cutStd (x : SegEnc) (h : CutStd x) (b : Bool) (hb : x.lengthUnknown = true → b = true) :
    wfSeg x (x.objs.map actOf) b = true := by
  have hwf := h.wf
  unfold wellFormed at hwf
  rw [h.wfSingle.acts] at hwf
  simp only [wfSegs, Bool.and_true, List.isEmpty_nil] at hwf
  simp only [wfSeg, Bool.and_eq_true] at hwf ⊢
  refine ⟨⟨⟨⟨hwf.1.1.1.1, ?_⟩, hwf.1.1.2⟩, hwf.1.2⟩, hwf.2⟩
  cases hu : x.lengthUnknown with
  | false => simp
  | true => simp [hb hu]

theorem wfSegs_multi : ∀ (ss : List SegEnc), (∀ x ∈ ss, CutStd x) → (∀ x ∈ ss.dropLast, x.lengthUnknown = false) →
    wfSegs ss (ss.map fun x => x.objs.map actOf) = true := by
  intro ss
  induction ss with
  | nil => intro _ _; rfl
  | cons x xs ih =>
    intro hall hk
    simp only [List.map_cons, wfSegs, Bool.and_eq_true]
    refine ⟨?_, ih (fun y hy => hall y (List.mem_cons_of_mem _ hy)) ?_⟩
    · apply wfSeg_of_cutStd x (hall x List.mem_cons_self)
      intro hu
      cases xs with
      | nil => rfl
      | cons y ys =>
        have := hk x (by simp)
        rw [hu] at this; cases this
    · intro y hy
      cases xs with
      | nil => simp at hy
      | cons z zs => exact hk y (by simp only [List.dropLast_cons_cons]; exact List.mem_cons_of_mem _ hy)

theorem mem_zip_self {α : Type} : ∀ (l : List α) (x y : α), (x, y) ∈ l.zip l → y = x := by
  intro l
  induction l with
  | nil => intro x y h; simp at h
  | cons a as ih =>
    intro x y h
    simp only [List.zip_cons_cons, List.mem_cons, Prod.mk.injEq] at h
    rcases h with ⟨rfl, rfl⟩ | h
    · rfl
    · exact ih x y h

/-- **the class of `C06Whole.lean` is inside the class of `C01Marker.lean`** -/
theorem multiStdU_of_cutMulti (s₀ : SegEnc) (rest : List SegEnc) (H : MultiStd s₀ rest) :
    MultiStdU (s₀ :: rest) ∧ FileFits (s₀ :: rest) ∧ onlyChannelsHaveDataM (s₀ :: rest) := by
  have heach := multiStd_each s₀ rest H
  have hfits : ∀ x ∈ s₀ :: rest, SegFits x := by
    intro x hx
    rcases List.mem_cons.mp hx with rfl | hx
    · exact H.firstFits
    · exact (H.later x hx).2.1
  have hacts := activeLists_multiStd s₀ rest H
  refine ⟨⟨fun x hx => (heach x hx).1.contiguous, ?_, ?_⟩, ?_, ?_⟩
  · intro x hx o ho dg ty n sc w hi
    rcases (heach x hx).1.stdObjs o ho with h | ⟨ty', n', t', h⟩ <;> rw [h] at hi <;> cases hi
  · unfold wellFormed
    rw [hacts]
    exact wfSegs_multi (s₀ :: rest) (fun x hx => (heach x hx).1) H.known
  · intro x hx
    have f := hfits x hx
    refine ⟨f.nObjs, fun o ho => ⟨fun n total hi => f.strData o ho n total hi, (f.objs o ho).2.2.1, (f.objs o ho).2.2.2⟩⟩
  · intro acts ha sa hsa hne a hamem hd
    rw [hacts] at ha
    injection ha with ha
    subst ha
    rw [List.zip_map_right] at hsa
    obtain ⟨⟨x, x'⟩, hxx, rfl⟩ := List.mem_map.mp hsa
    have hxeq : x' = x := mem_zip_self _ _ _ hxx
    subst hxeq
    have hxmem : x' ∈ s₀ :: rest := (List.of_mem_zip hxx).1
    simp only [Prod.map_snd, Prod.map_fst, id] at hamem hne
    obtain ⟨o, ho, rfl⟩ := List.mem_map.mp hamem
    rw [actOf_hasData] at hd
    rw [actOf_path]
    -- `o` is a data object of `x'`; its path is the path of a data object of `s₀`
    have hd' : o ∈ dataOs x'.objs := by simp [dataOs, ho, hd]
    have hp : o.path ∈ (dataOs s₀.objs).map (·.path) := by
      rw [← dataOs_paths_sig s₀.objs x'.objs (heach x' hxmem).2]
      exact List.mem_map.mpr ⟨o, hd', rfl⟩
    obtain ⟨d, hdm, hde⟩ := List.mem_map.mp hp
    obtain ⟨hdmem, hdfull⟩ := dataOs_sub hdm
    rw [← hde]
    exact H.channels d hdmem hdfull

end Tdms.Proofs.C06Lazy
