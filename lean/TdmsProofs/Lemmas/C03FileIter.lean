/-
  C03 — the file-level chunk iterator (`TdmsFile.data_chunks()` as the state machine `FileIter`):
  one `next()` yields the next chunk of the eager chunk stream together with the channel offsets
  accumulated so far.  Core Lean only.
-/
import TdmsProofs.Lemmas.C03Main

namespace Tdms.Proofs.C03

open Tdms Tdms.Generated Tdms.Model Tdms.Proofs.Bytes Tdms.Proofs.C04

/-- chunks of the current segment that a suspended file iterator has not yet yielded -/
def fileSegRest (file : Bytes) (s : Segment) (inSeg : Option Nat) (ey : Bool) : List RawChunk :=
  match inSeg with
  | none => (if !hasFlag s.toc kTocRawData ∧ !ey then [([] : RawChunk)] else []) ++
      (List.range' 0 s.numChunks).map (eagerChunk file s (segCsz s))
  | some i => (List.range' i (s.numChunks - i)).map (eagerChunk file s (segCsz s))

/-- all chunks a suspended file iterator has not yet yielded -/
def fileRest (file : Bytes) (segs : List Segment) (it : FileIter) : List RawChunk :=
  match segs[it.seg]? with
  | none => []
  | some s => fileSegRest file s it.inSeg it.emptyYielded ++ eagerChunksAll file (segs.drop (it.seg + 1))

theorem eagerChunksAll_drop (file : Bytes) (segs : List Segment) (j : Nat) (s : Segment) (hs : segs[j]? = some s) :
    eagerChunksAll file (segs.drop j) = eagerSegChunks file s (segCsz s) ++ eagerChunksAll file (segs.drop (j + 1)) := by
  have hj : j < segs.length := by
    rcases Nat.lt_or_ge j segs.length with h | h
    · exact h
    · rw [List.getElem?_eq_none h] at hs; cases hs
  rw [List.drop_eq_getElem_cons hj]
  have : segs[j] = s := by rw [List.getElem?_eq_getElem hj] at hs; exact Option.some.inj hs
  rw [this]
  simp [eagerChunksAll]

/-- an iterator at the start of segment `j` still has to yield everything from segment `j` on -/
theorem fileRest_fresh (file : Bytes) (segs : List Segment) (j : Nat) (pend : List RawChunk) (offs : List (Bytes × Nat)) :
    fileRest file segs { seg := j, inSeg := none, emptyYielded := false, pending := pend, offsets := offs }
      = eagerChunksAll file (segs.drop j) := by
  unfold fileRest
  simp only []
  cases hs : segs[j]? with
  | none =>
    have : segs.length ≤ j := by
      rcases Nat.lt_or_ge j segs.length with h | h
      · rw [List.getElem?_eq_getElem h] at hs; cases hs
      · exact h
    rw [List.drop_eq_nil_of_le this]; rfl
  | some s =>
    rw [eagerChunksAll_drop file segs j s hs]
    simp [fileSegRest, eagerSegChunks, List.range_eq_range']

/-- what one `next()` does -/
def FileStepSpec (f : OpenFile) (it : FileIter) (r : Option (RawChunk × List (Bytes × Nat))) (it' : FileIter) : Prop :=
  match fileRest f.file f.segments it with
  | [] => r = none ∧ fileRest f.file f.segments it' = []
  | c :: rest => r = some (c, it.offsets) ∧ fileRest f.file f.segments it' = rest ∧
      it'.offsets = bumpOffsets it.offsets c

theorem FileStepSpec.of_eq {f : OpenFile} {it it0 : FileIter} {r : Option (RawChunk × List (Bytes × Nat))} {it' : FileIter}
    (h : FileStepSpec f it0 r it') (hrest : fileRest f.file f.segments it = fileRest f.file f.segments it0)
    (hoffs : it.offsets = it0.offsets) : FileStepSpec f it r it' := by
  unfold FileStepSpec at h ⊢
  rw [hrest, hoffs]
  exact h

theorem FileStepSpec.cons {f : OpenFile} {it it' : FileIter} {c : RawChunk} {rest : List RawChunk}
    (h : fileRest f.file f.segments it = c :: rest) (h' : fileRest f.file f.segments it' = rest)
    (ho : it'.offsets = bumpOffsets it.offsets c) : FileStepSpec f it (some (c, it.offsets)) it' := by
  unfold FileStepSpec
  rw [h]
  exact ⟨rfl, h', ho⟩

theorem fileIterNext_spec (f : OpenFile) (hok : SegsOk f.file f.segments) :
    ∀ (fuel : Nat) (it : FileIter) (st : FState), f.segments.length + 1 ≤ it.seg + fuel →
      ∃ r it' st', fileIterNext f fuel it st = .ok ((r, it'), st') ∧ FileStepSpec f it r it' := by
  intro fuel
  induction fuel with
  | zero =>
    intro it st hfuel
    have hnone : f.segments[it.seg]? = none := List.getElem?_eq_none (by omega)
    refine ⟨none, it, st, rfl, ?_⟩
    simp [FileStepSpec, fileRest, hnone]
  | succ fuel ih =>
    intro it st hfuel
    unfold fileIterNext
    cases hs : f.segments[it.seg]? with
    | none =>
      refine ⟨none, it, st, rfl, ?_⟩
      simp [FileStepSpec, fileRest, hs]
    | some s =>
      have hso := hok s (List.mem_of_getElem? hs)
      have hkind := hso.contig.kind
      have hsize := hso.contig.size
      simp only []
      -- moving on to the next segment
      have hnext : fileSegRest f.file s it.inSeg it.emptyYielded = [] → ∀ st1,
          ∃ r it' st', fileIterNext f fuel { seg := it.seg + 1, pending := it.pending, offsets := it.offsets } st1
            = .ok ((r, it'), st') ∧ FileStepSpec f it r it' := by
        intro hnil st1
        obtain ⟨r, it', st', hrun, hspec⟩ := ih { seg := it.seg + 1, pending := it.pending, offsets := it.offsets } st1
          (by simp only []; omega)
        refine ⟨r, it', st', hrun, hspec.of_eq ?_ rfl⟩
        rw [fileRest_fresh]
        unfold fileRest
        rw [hs]
        simp only [hnil, List.nil_append]
      cases hin : it.inSeg with
      | none =>
        simp only []
        -- the optional verification of the segment start
        have hver : ∀ (k : Unit → F (Option (RawChunk × List (Bytes × Nat)) × FileIter)),
            (∀ st1, ∃ r it' st', k () st1 = .ok ((r, it'), st') ∧ FileStepSpec f it r it') →
            ∃ r it' st', (if (!it.emptyYielded) = true then do
                let __r ← verifySegmentStart f.file s
                k __r
              else k ()) st = .ok ((r, it'), st') ∧ FileStepSpec f it r it' := by
          intro k hk
          by_cases hey : (!it.emptyYielded) = true
          · rw [if_pos hey]
            obtain ⟨st1, h1⟩ := verifySegmentStart_ok hso st
            rw [F_bind_ok h1]
            exact hk st1
          · rw [if_neg hey]
            exact hk st
        apply hver
        intro st1
        by_cases hpre : (!hasFlag s.toc kTocRawData) = true ∧ (!it.emptyYielded) = true
        · rw [if_pos hpre]
          refine ⟨_, _, st1, rfl, ?_⟩
          have hk0 : s.numChunks = 0 := hso.noRaw (by simpa using hpre.1)
          apply FileStepSpec.cons (rest := eagerChunksAll f.file (f.segments.drop (it.seg + 1)))
          · unfold fileRest
            rw [hs]
            simp only [hin, fileSegRest]
            rw [if_pos hpre, hk0]
            rfl
          · unfold fileRest
            simp only [hs, fileSegRest, hk0]
            simp
          · rfl
        · rw [if_neg hpre]
          rw [F_bind_ok (fSeek_run _ _), hkind, F_bind_ok (liftE_ok _ _)]
          simp only []
          have hsegrest : fileSegRest f.file s it.inSeg it.emptyYielded =
              (List.range' 0 s.numChunks).map (eagerChunk f.file s (segCsz s)) := by
            rw [hin]; simp only [fileSegRest]; rw [if_neg hpre]; rfl
          by_cases hk : 0 < s.numChunks
          · rw [if_pos hk]
            obtain ⟨st2, h2⟩ := readChunksSeq_exact f.file s (segCsz s) hso.contig 1 0 st1.trace (by omega)
            simp only [Nat.zero_mul, Nat.add_zero] at h2
            have h2' : readChunksSeq f.file s ReaderKind.contiguous (List.filter (fun x => x.hasData) s.objects) 0 1
                ⟨s.dataPosition, st1.trace⟩ = .ok ([eagerChunk f.file s (segCsz s) 0], st2) := h2
            rw [F_bind_ok h2']
            refine ⟨_, _, st2, rfl, ?_⟩
            obtain ⟨k', hk'⟩ : ∃ k', s.numChunks = k' + 1 := ⟨s.numChunks - 1, by omega⟩
            apply FileStepSpec.cons (rest := (List.range' 1 k').map (eagerChunk f.file s (segCsz s)) ++
              eagerChunksAll f.file (f.segments.drop (it.seg + 1)))
            · unfold fileRest
              rw [hs]
              simp only []
              rw [hsegrest, hk', List.range'_succ, List.map_cons, List.cons_append]
            · unfold fileRest
              simp only [hs, fileSegRest, hk']
              simp
            · rfl
          · rw [if_neg hk]
            apply hnext
            rw [hsegrest]
            have : s.numChunks = 0 := by omega
            rw [this]; rfl
      | some i =>
        simp only []
        rw [hsize, F_bind_ok (liftE_ok _ _), F_bind_ok (fSeek_run _ _), hkind, F_bind_ok (liftE_ok _ _)]
        simp only []
        have hsegrest : fileSegRest f.file s it.inSeg it.emptyYielded =
            (List.range' i (s.numChunks - i)).map (eagerChunk f.file s (segCsz s)) := by
          rw [hin]; rfl
        by_cases hk : i < s.numChunks
        · rw [if_pos hk]
          obtain ⟨st2, h2⟩ := readChunksSeq_exact f.file s (segCsz s) hso.contig 1 i st.trace (by omega)
          have h2' : readChunksSeq f.file s ReaderKind.contiguous (List.filter (fun x => x.hasData) s.objects) i 1
              ⟨s.dataPosition + i * segCsz s, st.trace⟩ = .ok ([eagerChunk f.file s (segCsz s) i], st2) := h2
          rw [F_bind_ok h2']
          refine ⟨_, _, st2, rfl, ?_⟩
          obtain ⟨k', hk'⟩ : ∃ k', s.numChunks - i = k' + 1 := ⟨s.numChunks - i - 1, by omega⟩
          have hk'' : s.numChunks - (i + 1) = k' := by omega
          apply FileStepSpec.cons (rest := (List.range' (i + 1) k').map (eagerChunk f.file s (segCsz s)) ++
            eagerChunksAll f.file (f.segments.drop (it.seg + 1)))
          · unfold fileRest
            rw [hs]
            simp only []
            rw [hsegrest, hk', List.range'_succ, List.map_cons, List.cons_append]
          · unfold fileRest
            simp only [hs, fileSegRest, hk'']
          · rfl
        · rw [if_neg hk]
          apply hnext
          rw [hsegrest]
          have : s.numChunks - i = 0 := by omega
          rw [this]; rfl

/-! ## consuming the iterator -/

/-- `list(tdms_file.data_chunks())`, at most `n` chunks: `next()` until `StopIteration` -/
def fileIterAll (f : OpenFile) : Nat → FileIter → F (List (RawChunk × List (Bytes × Nat)))
  | 0, _ => pure []
  | n + 1, it => do
    let (r, it') ← fileIterNext f (fuelFor f) it
    match r with
    | none => pure []
    | some x => do
      let rest ← fileIterAll f n it'
      pure (x :: rest)

/-- chunks paired with the channel offsets accumulated before each of them -/
def withOffsets : List (Bytes × Nat) → List RawChunk → List (RawChunk × List (Bytes × Nat))
  | _, [] => []
  | offs, c :: cs => (c, offs) :: withOffsets (bumpOffsets offs c) cs

theorem fileIterAll_spec (f : OpenFile) (hok : SegsOk f.file f.segments) :
    ∀ (n : Nat) (it : FileIter) (st : FState), (fileRest f.file f.segments it).length ≤ n →
      ∃ st', fileIterAll f n it st = .ok (withOffsets it.offsets (fileRest f.file f.segments it), st') := by
  intro n
  induction n with
  | zero =>
    intro it st h
    have : fileRest f.file f.segments it = [] := List.eq_nil_of_length_eq_zero (by omega)
    rw [this]
    exact ⟨st, rfl⟩
  | succ n ih =>
    intro it st h
    obtain ⟨r, it', st1, hrun, hspec⟩ := fileIterNext_spec f hok (fuelFor f) it st (by unfold fuelFor; omega)
    unfold fileIterAll
    rw [F_bind_ok hrun]
    unfold FileStepSpec at hspec
    cases hrest : fileRest f.file f.segments it with
    | nil =>
      rw [hrest] at hspec
      obtain ⟨rfl, _⟩ := hspec
      exact ⟨st1, rfl⟩
    | cons c rest =>
      rw [hrest] at hspec h
      obtain ⟨rfl, hr', ho⟩ := hspec
      obtain ⟨st2, h2⟩ := ih it' st1 (by rw [hr']; simpa using h)
      refine ⟨st2, ?_⟩
      simp only []
      rw [F_bind_ok h2, hr', ho]
      rfl

theorem withOffsets_fst (offs : List (Bytes × Nat)) (cs : List RawChunk) : (withOffsets offs cs).map (·.1) = cs := by
  induction cs generalizing offs with
  | nil => rfl
  | cons c cs ih => simp [withOffsets, ih]

/-! ## the offsets are the running count of values -/

/-- `channel_offsets[path]` (0 when absent) -/
def offGet (offs : List (Bytes × Nat)) (p : Bytes) : Nat := ((offs.find? (·.1 = p)).map (·.2)).getD 0

/-- number of values a chunk delivers for a channel -/
def chunkCount (c : RawChunk) (p : Bytes) : Nat := ((c.filter (·.1 = p)).map (·.2.len)).sum

theorem find?_map_upd_ne (o : List (Bytes × Nat)) (q p : Bytes) (n : Nat) (h : ¬ q = p) :
    (o.map (fun y => if y.1 = q then (q, y.2 + n) else y)).find? (fun y => decide (y.1 = p))
      = o.find? (fun y => decide (y.1 = p)) := by
  induction o with
  | nil => rfl
  | cons y ys ih =>
    simp only [List.map_cons, List.find?_cons]
    by_cases hy : y.1 = q
    · have hyp : ¬ y.1 = p := fun hh => h (hy.symm.trans hh)
      simp only [hy, if_true, h, decide_false]
      exact ih
    · simp only [hy, if_false]
      by_cases hyp : y.1 = p
      · simp [hyp]
      · simp only [hyp, decide_false]; exact ih

theorem find?_map_upd_eq (o : List (Bytes × Nat)) (p : Bytes) (n : Nat) :
    ((o.map (fun y => if y.1 = p then (p, y.2 + n) else y)).find? (fun y => decide (y.1 = p))).map (·.2)
      = (o.find? (fun y => decide (y.1 = p))).map (·.2 + n) := by
  induction o with
  | nil => rfl
  | cons y ys ih =>
    simp only [List.map_cons, List.find?_cons]
    by_cases hy : y.1 = p
    · simp [hy]
    · simp only [hy, if_false, decide_false]; exact ih

theorem offGet_step (o : List (Bytes × Nat)) (x : Bytes × ChanChunk) (p : Bytes) :
    offGet (if o.any (·.1 = x.1) then o.map (fun y => if y.1 = x.1 then (x.1, y.2 + x.2.len) else y)
            else o ++ [(x.1, x.2.len)]) p = offGet o p + (if x.1 = p then x.2.len else 0) := by
  unfold offGet
  by_cases hany : o.any (·.1 = x.1) = true
  · rw [if_pos hany]
    by_cases hp : x.1 = p
    · rw [if_pos hp, hp, find?_map_upd_eq]
      rw [hp] at hany
      simp only [List.any_eq_true, decide_eq_true_eq] at hany
      obtain ⟨y, hy, hyp⟩ := hany
      cases hf : o.find? (fun y => decide (y.1 = p)) with
      | none =>
        rw [List.find?_eq_none] at hf
        exact absurd (by simpa using hyp) (hf y hy)
      | some z => simp
    · rw [if_neg hp, find?_map_upd_ne o x.1 p _ hp]
      simp
  · rw [if_neg hany]
    have hnone : ∀ y ∈ o, ¬ y.1 = x.1 := by
      intro y hy
      simp only [List.any_eq_true, decide_eq_true_eq, not_exists, not_and] at hany
      exact hany y hy
    rw [List.find?_append]
    by_cases hp : x.1 = p
    · have : o.find? (fun y => decide (y.1 = p)) = none := by
        rw [List.find?_eq_none]; intro y hy; simpa [← hp] using hnone y hy
      simp [this, hp]
    · cases hf : o.find? (fun y => decide (y.1 = p)) with
      | some y => simp [hp]
      | none => simp [hp]

theorem offGet_bump (c : RawChunk) : ∀ (offs : List (Bytes × Nat)) (p : Bytes),
    offGet (bumpOffsets offs c) p = offGet offs p + chunkCount c p := by
  unfold bumpOffsets
  induction c with
  | nil => intro offs p; simp [chunkCount]
  | cons x c ih =>
    intro offs p
    rw [List.foldl_cons]
    have hstep := offGet_step offs x p
    obtain ⟨q, cc⟩ := x
    simp only [] at hstep ⊢
    rw [ih, hstep]
    unfold chunkCount
    by_cases hq : q = p
    · rw [List.filter_cons_of_pos (by simpa using hq)]; simp [hq]; omega
    · rw [List.filter_cons_of_neg (by simpa using hq)]; simp [hq]

theorem withOffsets_get (p : Bytes) : ∀ (cs : List RawChunk) (offs : List (Bytes × Nat)) (j : Nat) (x : RawChunk × List (Bytes × Nat)),
    (withOffsets offs cs)[j]? = some x →
      offGet x.2 p = offGet offs p + ((cs.take j).map fun c => chunkCount c p).sum := by
  intro cs
  induction cs with
  | nil => intro offs j x h; simp [withOffsets] at h
  | cons c cs ih =>
    intro offs j x h
    cases j with
    | zero =>
      simp only [withOffsets, List.getElem?_cons_zero, Option.some.injEq] at h
      subst h; simp
    | succ j =>
      simp only [withOffsets, List.getElem?_cons_succ] at h
      rw [ih _ j x h, offGet_bump]
      simp [Nat.add_assoc]

/-- every entry of the chunk carries plain data -/
def AllData (c : RawChunk) : Prop := ∀ x ∈ c, x.2.data.isSome = true

theorem chunkCount_eq_length (c : RawChunk) (p : Bytes) (h : AllData c) : chunkCount c p = (chunkVals c p).length := by
  unfold chunkCount chunkVals
  induction c with
  | nil => rfl
  | cons x c ih =>
    have hx := h x List.mem_cons_self
    have ih := ih (fun y hy => h y (List.mem_cons_of_mem _ hy))
    by_cases hp : x.1 = p
    · rw [List.filter_cons_of_pos (by simpa using hp)]
      simp only [List.map_cons, List.sum_cons, List.flatMap_cons, List.length_append, ih]
      congr 1
      cases hd : x.2.data with
      | none => rw [hd] at hx; cases hx
      | some d => simp [ChanChunk.len, hd]
    · rw [List.filter_cons_of_neg (by simpa using hp)]
      exact ih

theorem allData_dictSet (acc : RawChunk) (q : Bytes) (v : List Bytes) (h : AllData acc) :
    AllData (dictSet acc q { data := some v }) := by
  unfold dictSet
  split
  · intro x hx
    obtain ⟨y, hy, rfl⟩ := List.mem_map.mp hx
    split
    · rfl
    · exact h y hy
  · intro x hx
    rcases List.mem_append.mp hx with hx | hx
    · exact h x hx
    · simp only [List.mem_singleton] at hx; subst hx; rfl

theorem allData_setCols : ∀ (d : List SegObj) (vs : List (List Bytes)) (acc : RawChunk), AllData acc →
    AllData (setCols acc d vs) := by
  intro d
  induction d with
  | nil => intro vs acc h; cases vs <;> exact h
  | cons o os ih =>
    intro vs acc h
    cases vs with
    | nil => exact h
    | cons v vs => exact ih vs _ (allData_dictSet acc o.path v h)

theorem allData_eagerChunksAll (file : Bytes) (segs : List Segment) : ∀ c ∈ eagerChunksAll file segs, AllData c := by
  intro c hc
  unfold eagerChunksAll at hc
  rw [List.mem_flatMap] at hc
  obtain ⟨s, _, hc⟩ := hc
  unfold eagerSegChunks at hc
  rcases List.mem_append.mp hc with hc | hc
  · split at hc
    · simp only [List.mem_singleton] at hc; subst hc; intro x hx; cases hx
    · cases hc
  · obtain ⟨j, _, rfl⟩ := List.mem_map.mp hc
    exact allData_setCols _ _ [] (by intro x hx; cases hx)

theorem sum_chunkCount_eq (chunks : List RawChunk) (p : Bytes) (h : ∀ c ∈ chunks, AllData c) :
    (chunks.map fun c => chunkCount c p).sum = (streamVals chunks p).length := by
  unfold streamVals
  induction chunks with
  | nil => rfl
  | cons c cs ih =>
    simp only [List.map_cons, List.sum_cons, List.flatMap_cons, List.length_append]
    rw [chunkCount_eq_length c p (h c List.mem_cons_self), ih (fun x hx => h x (List.mem_cons_of_mem _ hx))]

end Tdms.Proofs.C03
