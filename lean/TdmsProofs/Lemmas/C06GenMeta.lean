/-
  C06, the cut theorem for the general multi-segment class: object metadata with arbitrary per-segment value counts
  (generalisation of `C01MultiContent.declare_sim` / `C01MultiTypes.segment_metas` to records with an override), and
  one iteration of the metadata loop on a segment of which only `k` bytes are in the file.  Core Lean only.
-/
import TdmsProofs.Lemmas.C06GenDefs

namespace Tdms.Proofs.C06Gen

open Tdms Tdms.Generated Tdms.Model Tdms.Proofs.C02 Tdms.Proofs.LeadIn Tdms.Proofs.C01Multi Tdms.Proofs.C01Marker
open Tdms.Proofs.Bytes (canonProp contOK aTy)
open Tdms.Proofs.C06Whole (dataPosOf)

/-! ## `updateObjectMetadata` against `declareObjs`, any value counts -/

/-- values the record `seg` assigns to an active object -/
def nsv (seg : Segment) (a : ActiveObj) : Nat := numberOfSegmentValues (concObj a) seg

/-- values the record `seg` adds under a path -/
def cntG (seg : Segment) (act : List ActiveObj) (p : Bytes) : Nat :=
  (act.map fun a => if a.path = p then nsv seg a else 0).sum

theorem cntG_cons (seg : Segment) (a : ActiveObj) (as : List ActiveObj) (p : Bytes) :
    cntG seg (a :: as) p = (if a.path = p then nsv seg a else 0) + cntG seg as p := by
  simp [cntG]

theorem stepMetas_concG (seg : Segment) (ms : ObjMetas) (a : ActiveObj) (h : notDaq a) :
    stepMetas seg ms (concObj a) = ms.modify a.path fun m =>
      { m with numValues := m.numValues + nsv seg a, dataType := a.idx.map (·.ty) } := by
  unfold stepMetas nsv
  rw [concObj_path, concObj_dataType, concObj_scalerTypes h]
  rfl

theorem declare_simG (seg : Segment) (last' : LastIdx) :
    ∀ (act : List ActiveObj) (c : Content) (ex : Bytes → Nat),
      (∀ a ∈ act, a.idx = last'.get a.path) → (∀ a ∈ act, notDaq a) →
      (∀ oc ∈ c, last'.get oc.path = none → oc.ty = none) →
      (∀ p, c.any (fun o => decide (o.path = p)) = false → ex p = 0) →
      (act.map concObj).foldl (stepMetas seg) (c.map (mOC ex)) =
        (declareObjs c act).map (mOC fun p => ex p + cntG seg act p) := by
  intro act
  induction act with
  | nil => intro c ex _ _ _ _; simp [declareObjs, cntG]
  | cons a as ih =>
    intro c ex hidx hnd hty hex
    have ha := hnd a List.mem_cons_self
    have hdt : ∀ t : Option Nat, (a.idx = none → t = none) →
        ((a.idx.map (·.ty)).orElse fun _ => t) = a.idx.map (·.ty) := by
      intro t ht
      cases hi : a.idx with
      | none => simp [ht hi]
      | some d => rfl
    rw [List.map_cons, List.foldl_cons, stepMetas_concG seg _ a ha, declareObjs_cons_std c a as ha]
    have hstep := modify_sim c a.path (declF a)
      (fun m => { m with numValues := m.numValues + nsv seg a, dataType := a.idx.map (·.ty) })
      (mOC ex) (mOC fun p => ex p + (if a.path = p then nsv seg a else 0))
      (fun _ => rfl)
      (by
        intro oc _ hne
        have : ¬ a.path = oc.path := fun e => hne e.symm
        simp [mOC, this])
      (by
        intro oc hmem hp
        have hoc : a.idx = none → oc.ty = none := by
          intro hn
          apply hty oc hmem
          rw [hp, ← hidx a List.mem_cons_self, hn]
        simp only [mOC, declF, hdt oc.ty hoc, hp, if_true, Nat.add_assoc])
      (by
        intro hn
        simp only [mOC, declF, dflt, hdt none (fun _ => rfl), if_true, List.map_nil, List.length_nil,
          Nat.zero_add, hex a.path hn])
    rw [hstep, ih _ _ (fun x hx => hidx x (List.mem_cons_of_mem _ hx))
      (fun x hx => hnd x (List.mem_cons_of_mem _ hx))]
    · congr 1
      funext oc
      simp only [mOC, cntG_cons, Nat.add_assoc]
    · intro oc hoc hl
      rcases mem_modify hoc with ⟨h1, _⟩ | ⟨y, hy, hyp, rfl⟩ | rfl
      · exact hty oc h1 hl
      · have hai : a.idx = none := by
          rw [hidx a List.mem_cons_self, ← hyp]; exact hl
        simp only [declF, hai, Option.map_none, Option.orElse_none]
        exact hty y hy (by simpa [declF] using hl)
      · have hai : a.idx = none := by
          rw [hidx a List.mem_cons_self]; exact hl
        simp [declF, dflt, hai]
    · intro p hp
      rw [modify_any (declF a) (fun _ => rfl)] at hp
      simp only [Bool.or_eq_false_iff, decide_eq_false_iff_not] at hp
      have : ¬ a.path = p := fun e => hp.2 e.symm
      simp [hex p hp.1, this]

/-- **one segment, metadata, any record**: if the record assigns `cntOf a p * q + exq p` values to every path, the
    reader's updates of `object_metadata` turn the view of `c` into the view of the content after the first `q`
    chunks, with `exq` extra values counted -/
theorem segment_metas_cut (seg : Segment) (s : SegEnc) (a : List ActiveObj) (last' : LastIdx) (c : Content)
    (q : Nat) (exq : Bytes → Nat) (hq : q ≤ s.chunks.length)
    (hcnt : ∀ p, cntG seg a p = cntOf a p * q + exq p)
    (hidx : ∀ x ∈ a, x.idx = last'.get x.path)
    (hgood : ∀ x ∈ a, ∀ d, x.idx = some d → GoodDesc d)
    (hty : ∀ oc ∈ c, last'.get oc.path = none → oc.ty = none)
    (hlisted : s.hasMeta = true → ∀ o ∈ s.objs, o.path ∈ a.map (·.path))
    (hnoMeta : s.hasMeta = false → s.objs = [])
    (hchunks : ∀ ch ∈ s.chunks, wfStdChunk (dataObjs a) ch = true) :
    updateObjectProperties ((a.map concObj).foldl (stepMetas seg) (c.map (mOC fun _ => 0))) (propsDict s) =
      (denoteSeg c (takeChunks s q) a).map (mOC exq) := by
  have hnd := not_daq_of_good hgood
  rw [declare_simG seg last' a c (fun _ => 0) hidx (fun x hx => notDaq_of_good (hgood x hx)) hty
    (fun _ _ => rfl)]
  have hpresA : ∀ x ∈ a, (declareObjs c a).any (fun o => decide (o.path = x.path)) = true :=
    fun x hx => declareObjs_present a c x.path (Or.inr (List.mem_map.2 ⟨x, hx, rfl⟩))
  have hch' : ∀ ch ∈ (takeChunks s q).chunks, wfStdChunk (dataObjs a) ch = true :=
    fun ch hch => hchunks ch (List.mem_of_mem_take hch)
  have hlen : (takeChunks s q).chunks.length = q := by
    show (s.chunks.take q).length = q
    rw [List.length_take]; omega
  have hfun : (fun p => 0 + cntG seg a p) = fun p => exq p + cntOf a p * q := by
    funext p; rw [hcnt p]; omega
  unfold denoteSeg
  simp only []
  by_cases hm : s.hasMeta = true
  · have hm' : (takeChunks s q).hasMeta = true := hm
    simp only [hm', if_true]
    rw [propsDict, props_sim _ s.objs (declareObjs c a)
      (fun o ho => declareObjs_present a c o.path (Or.inr (hlisted hm o ho))),
      chunks_counts (takeChunks s q) a hnd (takeChunks s q).chunks _ exq hch'
        (fun x hx => applyProps_present _ _ _ (hpresA x hx)), hlen, hfun]
    rfl
  · have hm0 : s.hasMeta = false := by simpa using hm
    have hm' : (takeChunks s q).hasMeta = false := hm0
    simp only [hm', Bool.false_eq_true, if_false]
    rw [propsDict, hnoMeta hm0]
    simp only [List.filter_nil, List.map_nil, updateObjectProperties]
    rw [chunks_counts (takeChunks s q) a hnd (takeChunks s q).chunks _ exq hch' hpresA, hlen, hfun]

/-! ## the value counts of the cut record -/

/-- values of the truncated chunk counted under a path -/
def exCut (a : List ActiveObj) (s : SegEnc) (k : Nat) (p : Bytes) : Nat :=
  (a.map fun x => if x.path = p then
    (if x.hasData = true ∧ cutRA s a k ≠ 0 then overrideGet (ovA a (cutRA s a k)) x.path else 0) else 0).sum

theorem nsv_cutRec (pos : Nat) (s : SegEnc) (b : Bool) (a : List ActiveObj) (k : Nat) (x : ActiveObj) :
    nsv (cutRec pos s b a k) x = perObj x * cutQA s a k +
      (if x.hasData = true ∧ cutRA s a k ≠ 0 then overrideGet (ovA a (cutRA s a k)) x.path else 0) := by
  have hnv : (concObj x).numberValues = (x.idx.map (·.n)).getD 0 := by
    unfold concObj
    cases hi : x.idx with
    | none => rfl
    | some d => cases d <;> rfl
  unfold nsv numberOfSegmentValues perObj
  rw [concObj_hasData, concObj_path, hnv]
  cases hd : x.hasData with
  | false => simp
  | true =>
    by_cases hr : cutRA s a k = 0
    · simp [cutRec, hr]
    · simp [cutRec, hr]

theorem cntG_cutRec (pos : Nat) (s : SegEnc) (b : Bool) (a : List ActiveObj) (k : Nat) (p : Bytes) :
    cntG (cutRec pos s b a k) a p = cntOf a p * cutQA s a k + exCut a s k p := by
  have : ∀ (l : List ActiveObj),
      (l.map fun x => if x.path = p then nsv (cutRec pos s b a k) x else 0).sum =
        (l.map fun x => if x.path = p then perObj x else 0).sum * cutQA s a k +
        (l.map fun x => if x.path = p then
          (if x.hasData = true ∧ cutRA s a k ≠ 0 then overrideGet (ovA a (cutRA s a k)) x.path else 0) else 0).sum := by
    intro l
    induction l with
    | nil => simp
    | cons x xs ih =>
      rw [List.map_cons, List.sum_cons, ih, List.map_cons, List.sum_cons, List.map_cons, List.sum_cons]
      by_cases hp : x.path = p
      · simp only [hp, if_true, nsv_cutRec, Nat.add_mul]; omega
      · simp only [hp, if_false, Nat.zero_add]
  exact this a

end Tdms.Proofs.C06Gen
