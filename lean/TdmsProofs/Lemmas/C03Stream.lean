/-
  C03 — the eager read: what the receivers hold is the concatenation of the file-level chunk
  stream (unconditionally: a fact about `receiveChunk`), and, under `SegsOk`, what that stream is.
  Core Lean only.
-/
import TdmsProofs.Lemmas.C03Link
import TdmsProofs.Lemmas.C01ComposeFile

namespace Tdms.Proofs.C03

open Tdms Tdms.Generated Tdms.Model Tdms.Proofs.Bytes Tdms.Proofs.C04 Tdms.Proofs.C01Compose

/-- the values a list of chunks holds for channel `p`, in order -/
def streamVals (chunks : List RawChunk) (p : Bytes) : List Bytes := chunks.flatMap fun c => chunkVals c p

theorem chunkVals_cons (x : Bytes × ChanChunk) (c : RawChunk) (q : Bytes) :
    chunkVals (x :: c) q = (if x.1 = q then x.2.data.getD [] else []) ++ chunkVals c q := by
  unfold chunkVals
  by_cases h : x.1 = q
  · rw [List.filter_cons_of_pos (by simpa using h), if_pos h, List.flatMap_cons]
  · rw [List.filter_cons_of_neg (by simpa using h), if_neg h]; rfl

/-! ## receivers -/

theorem find?_map_path (rs : List ChannelData) (g : ChannelData → ChannelData) (hg : ∀ r, (g r).path = r.path)
    (q : Bytes) : (rs.map g).find? (·.path = q) = (rs.find? (·.path = q)).map g := by
  induction rs with
  | nil => rfl
  | cons r rs ih =>
    simp only [List.map_cons, List.find?_cons, hg]
    split
    · rfl
    · exact ih

theorem rcvStep_values (rs rs' : List ChannelData) (pc : Bytes × ChanChunk) (h : rcvStep (.ok rs) pc = .ok rs') (q : Bytes) :
    valuesIn rs' q = valuesIn rs q ++ (if pc.1 = q then pc.2.data.getD [] else []) := by
  unfold rcvStep at h
  simp only [bind, Except.bind] at h
  cases hf : rs.find? (·.path = pc.1) with
  | none =>
    rw [hf] at h
    simp only [] at h
    split at h
    · cases h
    · rename_i hno
      simp only [pure, Except.pure, Except.ok.injEq] at h
      subst h
      by_cases hq : pc.1 = q
      · rw [if_pos hq]
        have : pc.2.data = none := by
          cases hd : pc.2.data with
          | none => rfl
          | some d => exfalso; apply hno; left; simp [hd]
        simp [this]
      · simp [hq]
  | some r0 =>
    rw [hf] at h
    simp only [pure, Except.pure, Except.ok.injEq] at h
    subst h
    unfold valuesIn
    rw [find?_map_path _ _ (by intro r; split <;> (try rfl); split <;> rfl)]
    by_cases hq : pc.1 = q
    · rw [if_pos hq, ← hq, hf]
      have hr0 : r0.path = pc.1 := by
        have := List.find?_some hf; simpa using this
      simp only [Option.map_some, Option.bind_some, ne_eq, hr0, not_true_eq_false, if_false]
      cases hd : pc.2.data with
      | some d => simp
      | none => cases hs : pc.2.scalers <;> simp
    · rw [if_neg hq, List.append_nil]
      cases hfq : rs.find? (·.path = q) with
      | none => rfl
      | some r =>
        have hr : r.path = q := by
          have := List.find?_some hfq; simpa using this
        have : r.path ≠ pc.1 := by rw [hr]; exact fun e => hq e.symm
        simp [this]

theorem receiveChunk_values (c : RawChunk) : ∀ (rs rs' : List ChannelData), receiveChunk rs c = .ok rs' →
    ∀ q, valuesIn rs' q = valuesIn rs q ++ chunkVals c q := by
  simp only [receiveChunk_eq]
  induction c with
  | nil =>
    intro rs rs' h q
    simp only [List.foldl_nil, Except.ok.injEq] at h
    subst h; simp [chunkVals_nil]
  | cons x c ih =>
    intro rs rs' h q
    rw [List.foldl_cons] at h
    cases h1 : rcvStep (.ok rs) x with
    | error e =>
      rw [h1] at h
      have : ∀ (l : RawChunk), l.foldl rcvStep (.error e) = .error e := by
        intro l; induction l with
        | nil => rfl
        | cons y l ihl => rw [List.foldl_cons]; exact ihl
      rw [this] at h; cases h
    | ok rs1 =>
      rw [h1] at h
      rw [ih rs1 rs' h q, rcvStep_values rs rs1 x h1 q, chunkVals_cons, List.append_assoc]

theorem foldl_fileStep_error (st : ReaderState) (e : Err) (chunks : List RawChunk) :
    chunks.foldl (fileStep st) (.error e) = .error e := by
  induction chunks with
  | nil => rfl
  | cons c cs ih => rw [List.foldl_cons]; exact ih

theorem foldl_fileStep_values (st : ReaderState) (chunks : List RawChunk) :
    ∀ (rs rs' : List ChannelData), chunks.foldl (fileStep st) (.ok rs) = .ok rs' →
      ∀ q, valuesIn rs' q = valuesIn rs q ++ streamVals chunks q := by
  induction chunks with
  | nil =>
    intro rs rs' h q
    simp only [List.foldl_nil, Except.ok.injEq] at h
    subst h; simp [streamVals]
  | cons c cs ih =>
    intro rs rs' h q
    rw [List.foldl_cons] at h
    cases h1 : fileStep st (.ok rs) c with
    | error e => rw [h1, foldl_fileStep_error] at h; cases h
    | ok rs1 =>
      rw [h1] at h
      have hrc : receiveChunk rs c = .ok rs1 := by
        unfold fileStep at h1
        simp only [bind, Except.bind] at h1
        cases hr : receiveChunk rs c with
        | error e => rw [hr] at h1; cases h1
        | ok rs2 =>
          rw [hr] at h1
          simp only [] at h1
          cases hc : checkCapacity st rs2 with
          | error e => rw [hc] at h1; cases h1
          | ok u => rw [hc] at h1; simp only [pure, Except.pure, Except.ok.injEq] at h1; rw [h1]
      rw [ih rs1 rs' h q, receiveChunk_values c rs rs1 hrc q]
      simp [streamVals, List.append_assoc]

theorem valuesIn_receivers (ms : List ObjMeta) (q : Bytes) : valuesIn (ms.filterMap newReceiver) q = [] := by
  unfold valuesIn
  cases hf : (ms.filterMap newReceiver).find? (·.path = q) with
  | none => rfl
  | some r =>
    have hm := List.mem_of_find?_eq_some hf
    rw [List.mem_filterMap] at hm
    obtain ⟨m, _, hm⟩ := hm
    unfold newReceiver at hm
    split at hm
    · cases hm
    · split at hm <;> (cases hm; rfl)

/-- **what the eager read holds for a channel is the concatenation of the chunk stream** -/
theorem readFile_values (file : Bytes) (r : EagerResult) (h : readFile file = .ok r) :
    ∃ chunks fs, readMetadata file = .ok r.state ∧
      (readRawDataAll file r.state.segments).run {} = .ok (chunks, fs) ∧
      ∀ p, valuesIn r.channels p = streamVals chunks p := by
  unfold readFile at h
  simp only [bind, Except.bind] at h
  cases hm : readMetadata file with
  | error e => rw [hm] at h; cases h
  | ok st =>
    rw [hm] at h
    simp only [] at h
    cases hr : (readRawDataAll file st.segments).run {} with
    | error e => rw [hr] at h; cases h
    | ok cf =>
      obtain ⟨chunks, fs⟩ := cf
      rw [hr] at h
      simp only [] at h
      have hfold : ∀ rs, chunks.foldl (fileStep st) (.ok rs) =
          chunks.foldl (fun acc c => do
            let rs ← acc
            let rs' ← receiveChunk rs c
            checkCapacity st rs'
            pure rs') (.ok rs) := fun _ => rfl
      cases hf : chunks.foldl (fileStep st)
          (.ok ((st.objects.filter fun m => countComponents m.path = 2).filterMap newReceiver)) with
      | error e =>
        rw [hfold] at hf
        simp only [bind, Except.bind] at hf
        rw [hf] at h; cases h
      | ok rs =>
        have hf' := hf
        rw [hfold] at hf
        simp only [bind, Except.bind] at hf
        rw [hf] at h
        simp only [pure, Except.pure, Except.ok.injEq] at h
        subst h
        refine ⟨chunks, fs, rfl, hr, ?_⟩
        intro p
        rw [foldl_fileStep_values st chunks _ rs hf' p, valuesIn_receivers]
        rfl

/-! ## the chunk stream under `SegsOk` -/

/-- all chunks the eager reader yields for the file -/
def eagerChunksAll (file : Bytes) (segs : List Segment) : List RawChunk :=
  segs.flatMap fun s => eagerSegChunks file s (segCsz s)

theorem readRawDataAll_exact (file : Bytes) : ∀ (segs : List Segment), SegsOk file segs → ∀ st,
    ∃ st', readRawDataAll file segs st = .ok (eagerChunksAll file segs, st') := by
  intro segs
  induction segs with
  | nil => intro _ st; exact ⟨st, rfl⟩
  | cons s ss ih =>
    intro hok st
    have hs := hok s List.mem_cons_self
    obtain ⟨st1, h1⟩ := verifySegmentStart_ok hs st
    obtain ⟨st2, h2⟩ := segmentReadRawData_exact file s (segCsz s) hs.contig st1
    obtain ⟨st3, h3⟩ := ih (fun x hx => hok x (List.mem_cons_of_mem _ hx)) st2
    refine ⟨st3, ?_⟩
    unfold readRawDataAll
    rw [F_bind_ok h1, F_bind_ok h2, F_bind_ok h3]
    rfl

/-- the values the eager chunks of one segment hold for the channel -/
theorem streamVals_seg (file : Bytes) (s : Segment) (p : Bytes) (hs : SegOk file s) (hwf : (layoutOf p s).WF) :
    streamVals (eagerSegChunks file s (segCsz s)) p = segVals (layoutOf p s) (segChanVals file s p) := by
  unfold streamVals eagerSegChunks
  rw [List.flatMap_append]
  have hpre : ((if !hasFlag s.toc kTocRawData then [([] : RawChunk)] else []).flatMap fun c => chunkVals c p) = [] := by
    split <;> simp [chunkVals_nil]
  rw [hpre, List.nil_append, List.flatMap_map]
  unfold segVals
  have hk : (layoutOf p s).k = s.numChunks := rfl
  rw [hk]
  by_cases hcs : (layoutOf p s).cs = 0
  · rw [if_pos hcs]
    rw [List.flatMap_eq_nil_iff]
    intro j hj
    rw [chunkVals_eagerChunk file s _ p j hs.nodupData]
    exact lazyChunk_absent hs p hwf hcs j (by simpa using hj)
  · rw [if_neg hcs, List.flatMap_def]
    congr 1
    apply List.map_congr_left
    intro j hj
    rw [chunkVals_eagerChunk file s _ p j hs.nodupData]
    unfold segChanVals
    rw [if_neg hcs]

theorem fullFrom_eq_stream (file : Bytes) (p : Bytes) (vals : Vals) :
    ∀ (ss : List Segment) (i : Nat), SegsOk file ss → WellFormed (ss.map (layoutOf p)) →
      (∀ t s, ss[t]? = some s → vals (i + t) = segChanVals file s p) →
      fullFrom vals i (ss.map (layoutOf p)) = streamVals (eagerChunksAll file ss) p := by
  intro ss
  induction ss with
  | nil => intro i _ _ _; rfl
  | cons s ss ih =>
    intro i hok hwf hv
    simp only [List.map_cons, fullFrom, eagerChunksAll, List.flatMap_cons]
    have h0 := hv 0 s (by simp)
    rw [Nat.add_zero] at h0
    have := ih (i + 1) (fun x hx => hok x (List.mem_cons_of_mem _ hx))
      (fun l hl => hwf l (by simp only [List.map_cons]; exact List.mem_cons_of_mem _ hl))
      (by intro t s' hs'
          have := hv (t + 1) s' (by simpa using hs')
          rw [show i + (t + 1) = i + 1 + t by omega] at this
          exact this)
    rw [this, h0]
    unfold streamVals
    rw [List.flatMap_append]
    congr 1
    exact (streamVals_seg file s p (hok s List.mem_cons_self) (hwf _ (by simp))).symm

/-- **the full array of the C04 window theorem is the concatenation of the eager chunk stream** -/
theorem full_eq_stream (file : Bytes) (segs : List Segment) (p : Bytes) (hok : SegsOk file segs)
    (hwf : WellFormed (segs.map (layoutOf p))) :
    full (segs.map (layoutOf p)) (chanVals file segs p) = streamVals (eagerChunksAll file segs) p := by
  unfold full
  apply fullFrom_eq_stream file p _ segs 0 hok hwf
  intro t s hs
  funext j
  simp [chanVals, hs]

end Tdms.Proofs.C03
