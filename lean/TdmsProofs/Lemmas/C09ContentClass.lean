/-
  C09 (content): the class `indexClass` against the spec's `wellFormed`; the cut bound in spec terms; the data
  read paths as functions of the metadata reading.  Core Lean only.
-/
import TdmsProofs.Lemmas.C09ContentSpec
import Tdms.Model.Lazy

namespace Tdms.Proofs.C09Content

open Tdms Tdms.Model Tdms.Generated Tdms.Proofs.Bytes

/-! ## `wellFormed` encodings whose numbers fit are in the class -/

/-- the size part of the class: numbers fit their fields, a segment is shorter than `2^64-1` bytes -/
def sizesFitSeg (s : SegEnc) (act : List ActiveObj) : Bool :=
  s.objs.all objFitsB && decide (s.objs.length < 2 ^ 32) &&
  decide ((segMeta s).length + (encRaw s act).length < 2 ^ 64 - 1)

def sizesFitSegs : List SegEnc → List (List ActiveObj) → Bool
  | s :: ss, a :: as => sizesFitSeg s a && sizesFitSegs ss as
  | _, _ => true

def sizesFit (e : FileEnc) : Bool :=
  match activeLists none [] e with
  | .error _ => false
  | .ok acts => sizesFitSegs e acts

theorem segsFitB_of_wfSegs : ∀ (e : List SegEnc) (acts : List (List ActiveObj)),
    wfSegs e acts = true → sizesFitSegs e acts = true → segsFitB e acts = true
  | [], _, _, _ => rfl
  | _ :: _, [], _, _ => rfl
  | s :: ss, a :: as, hwf, hsz => by
    simp only [wfSegs, Bool.and_eq_true] at hwf
    simp only [sizesFitSegs, sizesFitSeg, Bool.and_eq_true, decide_eq_true_eq] at hsz
    obtain ⟨hseg, hrest⟩ := hwf
    obtain ⟨⟨⟨hobjs, hn⟩, hlen⟩, hszrest⟩ := hsz
    simp only [wfSeg, Bool.and_eq_true] at hseg
    obtain ⟨⟨⟨⟨⟨⟨⟨_, _⟩, hwfo⟩, _⟩, hlast⟩, _⟩, _⟩, _⟩ := hseg
    simp only [segsFitB, segFitsB, metaFitsB, Bool.and_eq_true, Bool.or_eq_true, Bool.not_eq_true',
      decide_eq_true_eq]
    refine ⟨⟨⟨?_, ?_⟩, hlen⟩, segsFitB_of_wfSegs ss as hrest hszrest⟩
    · right
      refine ⟨?_, hn⟩
      rw [List.all_eq_true] at hwfo hobjs ⊢
      intro o ho
      rw [Bool.and_eq_true]
      exact ⟨hwfo o ho, hobjs o ho⟩
    · simp only [decide_eq_true_eq] at hlast
      cases hu : s.lengthUnknown with
      | false => left; rfl
      | true => right; exact hlast hu

/-- **every well-formed encoding whose numbers fit their fields is in the class** -/
theorem indexClass_of_wellFormed (e : FileEnc) (hwf : wellFormed e = true) (hsz : sizesFit e = true) :
    indexClass e = true := by
  unfold wellFormed at hwf
  unfold sizesFit at hsz
  unfold indexClass
  split at hwf
  · cases hwf
  · rename_i acts hacts
    simp only [hacts] at hsz ⊢
    exact segsFitB_of_wfSegs e acts hwf hsz

/-! ## the cut bound in terms of the encoding -/

theorem cutBound_eq : ∀ (ts : List TSeg) (P : Nat), ts ≠ [] →
    cutBound P ts = P + (dataOf ts.dropLast).length + 28
  | [], _, h => absurd rfl h
  | [_], P, _ => by simp [cutBound, dataOf]
  | t :: t' :: ts, P, _ => by
    have := cutBound_eq (t' :: ts) (P + t.dataBytes.length) (by simp)
    show cutBound (P + t.dataBytes.length) (t' :: ts) = _
    rw [this, List.dropLast_cons_cons]
    simp only [dataOf, List.length_append]; omega

theorem tsegs_dropLast : ∀ (e : List SegEnc) (acts : List (List ActiveObj)), e.length = acts.length →
    tsegs e.dropLast acts = (tsegs e acts).dropLast
  | [], _, _ => by simp [tsegs]
  | _ :: _, [], h => by simp at h
  | [s], [a], _ => by simp [tsegs]
  | [s], a :: a' :: as, h => by simp at h
  | s :: s' :: ss, [a], h => by simp at h
  | s :: s' :: ss, a :: a' :: as, h => by
    have := tsegs_dropLast (s' :: ss) (a' :: as) (by simpa using h)
    simp only [List.dropLast_cons_cons, tsegs] at this ⊢
    rw [this]

/-- the position just behind the lead-in of the last segment, from the encoding -/
theorem cutBound_tsegs (e : List SegEnc) (acts : List (List ActiveObj)) (h : e.length = acts.length) :
    cutBound 0 (tsegs e acts) ≤ (zipEncode encodeSeg e.dropLast acts).length + 28 := by
  by_cases hne : tsegs e acts = []
  · rw [hne]; exact Nat.zero_le _
  · rw [cutBound_eq _ _ hne, ← tsegs_dropLast e acts h, dataOf_tsegs]; omega

/-! ## the data read paths are functions of the metadata reading and the data file -/

/-- `TdmsFile.read`, given the outcome of `read_metadata` (from whichever file it was read) -/
def readFileVia (md : Except Err ReaderState) (file : Bytes) : Except Err EagerResult := do
  let st ← md
  let chans := st.objects.filter fun m => countComponents m.path = 2
  let receivers := chans.filterMap newReceiver
  let (chunks, _) ← (readRawDataAll file st.segments).run {}
  let rs ← chunks.foldl (fun acc c => do
    let rs ← acc
    let rs' ← receiveChunk rs c
    checkCapacity st rs'
    pure rs') (.ok receivers)
  pure ⟨st, rs⟩

theorem readFile_eq_via (file : Bytes) : readFile file = readFileVia (readMetadata file) file := rfl

/-- `TdmsFile.open`, given the outcome of `read_metadata`: every lazy read path (`channelReadData`, slices,
    integer index, chunk iterators of `Tdms/Model/Lazy.lean`) is a function of this `OpenFile` -/
def openFileVia (md : Except Err ReaderState) (file : Bytes) : Except Err OpenFile := do
  let st ← md
  pure ⟨file, st.segments, st.objects⟩

theorem openFile_eq_via (file : Bytes) : openFile file = openFileVia (readMetadata file) file := rfl

/-- `TdmsFile.read(path)` when `path + "_index"` exists: metadata come from the index file, with the data
    file's size; raw data from the data file -/
def readFileWithIndex (dat idx : Bytes) : Except Err EagerResult :=
  readFileVia (readMetadataIndex idx (some dat.length)) dat

/-- `TdmsFile.open(path)` when `path + "_index"` exists -/
def openFileWithIndex (dat idx : Bytes) : Except Err OpenFile :=
  openFileVia (readMetadataIndex idx (some dat.length)) dat

end Tdms.Proofs.C09Content
