/-
  C12 at file level, part 2: what the eager read of a written file returns for ONE property and for the data of ONE
  channel, in terms of the objects handed to `write_segment` (in program order): the value of the last write of the
  property name under the object's names, through `_to_tdms_value`; the concatenation of the data.
  Any property value / any data — timestamps are the instance used in `Properties/C12File.lean`.
-/
import TdmsProofs.Lemmas.C16FileSets
import TdmsProofs.Lemmas.C12FileValues

namespace Tdms.Proofs.C12File

open Tdms Tdms.Generated Tdms.Model Tdms.Model.Writer Tdms.Model.Path
open Tdms.Proofs.C08 Tdms.Proofs.C07Whole Tdms.Proofs.C07Checked Tdms.Proofs.C16File
open Tdms.Proofs.C01Compose (content contentOfDenote ObjView)
open Tdms.Proofs.Bytes (canonProp)

/-- the objects handed to `write_segment` under the names `cs`, in program order -/
def mine (prog : Program) (cs : List Bytes) : List WObj := (handed prog).filter fun o => decide (comps o = cs)

/-- the Python value of the LAST write of property `n` under the names `cs` (program order; inside one object the
    later entry of the property list) -/
def lastProp (prog : Program) (cs : List Bytes) (n : Bytes) : Option PyVal :=
  (((mine prog cs).flatMap (·.props)).reverse.find? (·.name = n)).map (·.val)

/-- all data handed over under the names `cs`, in program order -/
def dataHanded (prog : Program) (cs : List Bytes) : List Bytes := (mine prog cs).flatMap chanVals

/-- the property as the reader returns it: name, the TDMS type `_to_tdms_value` picks, the value bytes -/
def propRead (n : Bytes) (val : PyVal) : PropVal := canonProp (toPropEnc ⟨n, val⟩)

theorem propRead_datetime (n : Bytes) (us : Int) : propRead n (.datetime us) = ⟨n, tyTimeStamp, tsBytes us⟩ := rfl

theorem propRead_raw (n : Bytes) (s : Int) (f : Nat) :
    propRead n (.rawTimestamp s f) = ⟨n, tyTimeStamp, rawBytes (s, f)⟩ := rfl

/-- lookup of a property in the view of the names `cs` -/
theorem find_view_prop (ws : List WObj) (cs : List Bytes) (n : Bytes) :
    (viewOfNames ws cs).props.find? (·.name = n) =
      ((((ws.filter fun o => decide (comps o = cs)).flatMap (·.props)).reverse.find? (·.name = n)).map
        fun p => canonProp (toPropEnc p)) := by
  rw [viewOfNames_eq']
  simp only
  rw [List.find?_map]
  have hpred : ((fun x : PropVal => decide (x.name = n)) ∘ canonProp) = fun x : PropEnc => decide (x.name = n) := by
    funext x; rfl
  rw [hpred, find_foldl_setProp]
  have hmap : ((ws.filter fun o => decide (comps o = cs)).flatMap fun o => o.props.map toPropEnc) =
      ((ws.filter fun o => decide (comps o = cs)).flatMap fun o => o.props).map toPropEnc := by
    rw [List.map_flatMap]
  have key : ∀ l : List WProp, (l.map toPropEnc).find? (·.name = n) = (l.find? (·.name = n)).map toPropEnc := by
    intro l; rw [List.find?_map]; rfl
  rw [hmap, ← List.map_reverse, key]
  generalize List.find? (fun x : WProp => decide (x.name = n)) _ = q
  cases q <;> rfl
where
  viewOfNames_eq' : viewOfNames ws cs =
      ⟨componentsToPathBytes cs,
       ((ws.filter fun o => decide (comps o = cs)).filterMap tyOfW).getLast?,
       (((ws.filter fun o => decide (comps o = cs)).flatMap fun o => o.props.map toPropEnc).foldl setProp []).map
         canonProp,
       (ws.filter fun o => decide (comps o = cs)).flatMap chanVals⟩ := rfl

theorem lastProp_some {prog : Program} {cs : List Bytes} {n : Bytes} {val : PyVal}
    (h : lastProp prog cs n = some val) :
    ((mine prog cs).flatMap (·.props)).reverse.find? (·.name = n) = some ⟨n, val⟩ ∧ ∃ o ∈ handed prog, comps o = cs := by
  unfold lastProp at h
  cases hf : ((mine prog cs).flatMap (·.props)).reverse.find? (·.name = n) with
  | none => rw [hf] at h; cases h
  | some p =>
    rw [hf] at h
    simp only [Option.map_some, Option.some.injEq] at h
    have hn := List.find?_some hf
    simp only [decide_eq_true_eq] at hn
    have hm := List.mem_of_find?_eq_some hf
    rw [List.mem_reverse, List.mem_flatMap] at hm
    obtain ⟨o, ho, _⟩ := hm
    unfold mine at ho
    rw [List.mem_filter] at ho
    refine ⟨?_, o, ho.1, by simpa using ho.2⟩
    obtain ⟨pn, pv⟩ := p
    simp only at hn h
    rw [hn, h]

theorem find_of_mem_nodup {vs : List ObjView} (hnd : (vs.map (·.path)).Nodup) {o : ObjView} (ho : o ∈ vs) :
    vs.find? (·.path = o.path) = some o := by
  induction vs with
  | nil => cases ho
  | cons a as ih =>
    rw [List.map_cons, List.nodup_cons] at hnd
    rw [List.find?_cons]
    rcases List.mem_cons.1 ho with rfl | ho'
    · simp
    · have : a.path ≠ o.path := by
        intro e
        exact hnd.1 (e ▸ List.mem_map_of_mem (f := (·.path)) ho')
      simp only [this, decide_false]
      exact ih hnd.2 ho'

/-- **reading one object of a written file**: under the hypotheses of `write_then_read`, the object read under the
    path of names `cs` (some object was handed over under them) is `viewOfNames (handed prog) cs` -/
theorem read_object (v : Nat) (hv : v = 4712 ∨ v = 4713) (prog : Program) (d i : Bytes)
    (hw : writeProgram v prog = some (d, i)) (hW : WritableProgram prog) (hc : typesConsistent prog)
    (hs : stringTotalsFit prog) (hlen : d.length < 2 ^ 63) :
    ∃ r, readFile d = .ok r ∧ ((content r).map (·.path)).Nodup ∧
      (∀ o ∈ content r, ∃ cs, o.path = componentsToPathBytes cs) ∧
      ∀ cs, (∃ o ∈ handed prog, comps o = cs) →
        (content r).find? (·.path = componentsToPathBytes cs) = some (viewOfNames (handed prog) cs) := by
  obtain ⟨r, hr, hcont⟩ := write_then_read v hv prog d i hw hW hc hs hlen
  have ha : Accepted prog := accepted_of_writable hW
  have hnames : content r = (writtenNames prog).map (viewOfNames (handed prog)) := by
    rw [hcont, promisedView_by_names]
    apply List.map_congr_left
    intro cs _
    exact viewOfNames_handed ha cs
  have hnd : ((content r).map (·.path)).Nodup := by
    have := (promised_paths prog).2
    rw [hcont]
    unfold promisedView contentOfDenote
    rw [List.map_map]
    exact this
  refine ⟨r, hr, hnd, ?_, ?_⟩
  · intro o ho
    rw [hnames] at ho
    obtain ⟨cs, _, rfl⟩ := List.mem_map.1 ho
    exact ⟨cs, rfl⟩
  · rintro cs ⟨o, ho, hcs⟩
    have hmem : viewOfNames (handed prog) cs ∈ content r := by
      rw [hnames]
      exact List.mem_map_of_mem ((mem_writtenNames prog cs).2 ⟨o, handed_written ha o ho, hcs⟩)
    exact find_of_mem_nodup hnd hmem

/-- the type of the object read under `cs` when every typed write under `cs` has type `ty` and there is one -/
theorem view_type (ws : List WObj) (cs : List Bytes) (ty : Nat)
    (hall : ∀ o ∈ ws, comps o = cs → tyOfW o = some ty ∨ tyOfW o = none)
    (hone : ∃ o ∈ ws, comps o = cs ∧ tyOfW o = some ty) : (viewOfNames ws cs).dataType = some ty := by
  show ((ws.filter fun o => decide (comps o = cs)).filterMap tyOfW).getLast? = some ty
  obtain ⟨o, ho, hoc, hot⟩ := hone
  have hmem : ty ∈ (ws.filter fun o => decide (comps o = cs)).filterMap tyOfW := by
    rw [List.mem_filterMap]
    exact ⟨o, by rw [List.mem_filter]; exact ⟨ho, by simpa using hoc⟩, hot⟩
  cases hl : ((ws.filter fun o => decide (comps o = cs)).filterMap tyOfW).getLast? with
  | none =>
    rw [List.getLast?_eq_none_iff] at hl
    rw [hl] at hmem
    cases hmem
  | some t =>
    have ht := List.mem_of_getLast? hl
    rw [List.mem_filterMap] at ht
    obtain ⟨o', ho', hot'⟩ := ht
    rw [List.mem_filter] at ho'
    rcases hall o' ho'.1 (by simpa using ho'.2) with h | h
    · rw [h] at hot'; exact hot'.symm ▸ rfl
    · rw [h] at hot'; cases hot'

end Tdms.Proofs.C12File
