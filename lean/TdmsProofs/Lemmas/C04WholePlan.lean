import TdmsProofs.Lemmas.C04WindowMain
import TdmsProofs.Lemmas.C04WindowLink

/-!
# C04Whole: the plan of `read_raw_data_for_channel` stays inside every segment

C04 (`window_eq_slice`) describes what the window arithmetic selects when the segment reads return the
planned chunks.  To discharge that hypothesis for a real file the planned chunk run has to lie inside
the segment (`chunkOffset + numChunks ≤ segment.numChunks`, `chunkOffset ≥ 0`): this is proved here
from the same ingredients as C04 (`Frame`, `start_arith`, `end_arith`).  Also: the window does not
change when a supplier prepends an empty chunk (the chunk npTDMS yields for a segment without the
raw-data flag) to a run that skips nothing.  Core Lean only.
-/

namespace Tdms.Proofs.C04Whole

open Tdms Tdms.Model Tdms.Proofs.C04

/-- what the window loop may rely on about one planned segment read -/
structure PlanOk (l : SegL) (co skip nc : Int) : Prop where
  co0 : 0 ≤ co
  skip0 : 0 ≤ skip
  /-- the planned run of chunks lies inside the segment -/
  inRange : co.toNat + nc.toNat ≤ l.k
  /-- values are only skipped in a segment that has a chunk -/
  skipPos : skip ≠ 0 → 0 < l.k

theorem seg_plan_bounds (l : SegL) (hwf : l.WF) (hcs : 0 < l.cs) (isStart isEnd : Bool) (a e : Int)
    (hs : isStart = true → 0 ≤ a ∧ a < l.nvals)
    (he : isEnd = true → e ≤ l.nvals ∧ a ≤ e ∧ (isStart = false → 0 < e)) :
    ∃ co skip nc, planA l isStart isEnd a (l.nvals - e) = some (co, skip, nc) ∧ PlanOk l co skip nc := by
  rw [planA_eq l (by omega)]
  refine ⟨_, _, _, rfl, ?_⟩
  have hN := nvals_eq l hwf hcs
  have hfs := fs_le l hwf
  cases isStart with
  | true =>
    obtain ⟨ha0, haN⟩ := hs rfl
    have hk0 : l.k ≠ 0 := by
      intro h; rw [h] at hN; simp at hN; omega
    obtain ⟨k', hk⟩ : ∃ k', l.k = k' + 1 := ⟨l.k - 1, by omega⟩
    rw [if_neg hk0, hk] at hN
    simp only [Nat.add_sub_cancel] at hN
    rw [hN] at haN
    obtain ⟨co, hco, hskip, hcok, hpre, hlt, hlast⟩ := start_arith l.cs k' l.fs a hcs hfs ha0 haN
    simp only [if_true]
    rw [hco, hskip, hk]
    cases isEnd with
    | false =>
      simp only [Bool.false_eq_true, if_false]
      exact ⟨by omega, by omega, by omega, by omega⟩
    | true =>
      obtain ⟨heN, hae, _⟩ := he rfl
      rw [hN] at heN
      obtain ⟨E, hEk, hadj, _, _⟩ := end_arith l.cs k' l.fs e (((k' + 1 : Nat) : Int) - (co : Int)) hcs hfs
        (by omega) heN
      simp only [if_true]
      rw [hN, hadj]
      exact ⟨by omega, by omega, by omega, by omega⟩
  | false =>
    simp only [Bool.false_eq_true, if_false]
    cases isEnd with
    | false =>
      simp only [Bool.false_eq_true, if_false]
      exact ⟨by omega, by omega, by simp, by omega⟩
    | true =>
      obtain ⟨heN, hae, he0⟩ := he rfl
      have he0 := he0 rfl
      have hk0 : l.k ≠ 0 := by
        intro h; rw [h] at hN; simp at hN; omega
      obtain ⟨k', hk⟩ : ∃ k', l.k = k' + 1 := ⟨l.k - 1, by omega⟩
      rw [if_neg hk0, hk] at hN
      simp only [Nat.add_sub_cancel] at hN
      rw [hN] at heN
      obtain ⟨E, hEk, hadj, _, _⟩ := end_arith l.cs k' l.fs e ((k' + 1 : Nat) : Int) hcs hfs
        (by omega) heN
      simp only [if_true]
      rw [hN, hk, hadj]
      exact ⟨by omega, by omega, by omega, by omega⟩

/-- the plan of segment `i` of the window, for any `Frame` -/
theorem plan_bounds_core (segs : List Segment) (p : Bytes) (L : List SegL) (nv : List Nat)
    (hL : L = segs.map (layoutOf p)) (hnv : nv = L.map SegL.nvals) (hwf : WellFormed L)
    (ix : ChannelIndex) (offset endIndex : Int) (startSeg endSeg : Nat)
    (fr : Frame nv ix offset endIndex startSeg endSeg)
    (hF : startSeg ≤ endSeg → startSeg < segs.length → offset ≤ endIndex)
    (i : Nat) (hi : i < segs.length) (hsi : startSeg ≤ i) (hie : i ≤ endSeg) (co skip nc : Int)
    (hplan : segPlan p ix offset endIndex startSeg endSeg i segs[i] = some (co, skip, nc)) :
    PlanOk (layoutOf p segs[i]) co skip nc := by
  have hLlen : L.length = segs.length := by rw [hL]; simp
  have hnvlen : nv.length = segs.length := by rw [hnv, List.length_map, hLlen]
  have hiL : i < L.length := by omega
  have hinv : i < nv.length := by omega
  have hLi : L[i] = layoutOf p segs[i] := by subst hL; simp
  have hnvi : nv[i] = L[i].nvals := by subst hnv; simp
  have hps := psum_succ nv i hinv
  rw [hnvi] at hps
  rw [segPlan_eq_planA, ← hLi] at hplan
  rw [← hLi]
  have hwfi : L[i].WF := hwf _ (List.getElem_mem hiL)
  obtain ⟨hE1, hE2⟩ := fr.hE i hsi hie hinv
  rw [hE1, hE2] at hplan
  have hcs : L[i].cs ≠ 0 := by
    intro h
    unfold planA at hplan
    rw [if_pos h] at hplan
    cases hplan
  have hBi : i = startSeg → offset < ((psum nv (i + 1) : Nat) : Int) := by
    intro h; subst h; exact fr.hB (by omega) hinv
  have hstart : i ≠ startSeg → offset < ((psum nv i : Nat) : Int) := by
    intro hne
    have h1 := fr.hB (by omega) (by omega)
    have h2 := psum_mono nv (show startSeg + 1 ≤ i by omega)
    omega
  obtain ⟨co', skip', nc', hplan', hok⟩ := seg_plan_bounds L[i] hwfi (by omega)
    (decide (i = startSeg)) (decide (i = endSeg))
    (offset - ((psum nv i : Nat) : Int)) (endIndex - ((psum nv i : Nat) : Int))
    (by intro h
        have h : i = startSeg := by simpa using h
        have h1 := hBi h
        have h2 := fr.hA
        rw [← h] at h2
        omega)
    (by intro h
        have h : i = endSeg := by simpa using h
        have hC := fr.hC
        rw [← h] at hC
        refine ⟨by omega, ?_, ?_⟩
        · by_cases hs : i = startSeg
          · have := hF (by omega) (by omega); omega
          · have := hstart hs
            have := fr.hD (by omega)
            rw [← h] at this
            omega
        · intro hs
          have hs : i ≠ startSeg := by simpa using hs
          have := fr.hD (by omega)
          rw [← h] at this
          omega)
  have harg : ((psum nv (i + 1) : Nat) : Int) - endIndex
      = (L[i].nvals : Int) - (endIndex - ((psum nv i : Nat) : Int)) := by omega
  rw [harg, hplan'] at hplan
  simp only [Option.some.injEq, Prod.mk.injEq] at hplan
  obtain ⟨rfl, rfl, rfl⟩ := hplan
  exact hok

/-- **the plan stays inside the segment**: every segment read planned by
    `readRawDataForChannel segs p offset length` (for a well-formed layout of `p`) starts at a chunk
    offset `≥ 0` and ends at or before the segment's last chunk -/
theorem window_plan_bounds (segs : List Segment) (p : Bytes) (numValues : Nat)
    (hwf : WellFormed (segs.map (layoutOf p))) (hnum : numValues = total (segs.map (layoutOf p)))
    (offset : Int) (length : Option Int) (h0 : 0 ≤ offset) (hl : ∀ l, length = some l → 0 ≤ l)
    (i : Nat) (s : Segment) (hs : segs[i]? = some s)
    (hsi : (windowParams segs p numValues offset length).startSeg ≤ i)
    (hie : i ≤ (windowParams segs p numValues offset length).endSeg) (co skip nc : Int)
    (hplan : segPlan p (windowParams segs p numValues offset length).ix offset
      (windowParams segs p numValues offset length).endIndex
      (windowParams segs p numValues offset length).startSeg
      (windowParams segs p numValues offset length).endSeg i s = some (co, skip, nc)) :
    PlanOk (layoutOf p s) co skip nc := by
  obtain ⟨hi, rfl⟩ := List.getElem?_eq_some_iff.mp hs
  have spec := buildIndex_spec segs p
  rw [nvOf_eq segs p hwf] at spec
  have htot : numValues = ((segs.map (layoutOf p)).map SegL.nvals).sum := by rw [hnum]; rfl
  -- the length actually used
  obtain ⟨len, hlen, hend, hpos⟩ : ∃ len : Int,
      (windowParams segs p numValues offset length).endIndex = offset + len ∧
      offset + len ≤ (numValues : Int) ∧ (offset < (numValues : Int) → 0 ≤ len) := by
    cases length with
    | none => exact ⟨(numValues : Int) - offset, rfl, by omega, by omega⟩
    | some l =>
      have := hl l rfl
      exact ⟨min l ((numValues : Int) - offset), rfl, by omega, by omega⟩
  have hix : (windowParams segs p numValues offset length).ix = buildIndex segs p := by
    cases length <;> rfl
  have hss : (windowParams segs p numValues offset length).startSeg =
      (buildIndex segs p).firstSegment + searchRight (buildIndex segs p).offsets offset := by
    cases length <;> rfl
  have hes : (windowParams segs p numValues offset length).endSeg =
      (buildIndex segs p).firstSegment + searchLeft (buildIndex segs p).offsets
        (windowParams segs p numValues offset length).endIndex := by
    cases length <;> rfl
  have fr := frame_of_spec _ (buildIndex segs p) spec offset (offset + len) h0 (by rw [← htot]; exact hend)
  rw [hix, hss, hes, hlen] at hplan
  rw [hss] at hsi
  rw [hes, hlen] at hie
  have hF : (buildIndex segs p).firstSegment + searchRight (buildIndex segs p).offsets offset ≤
        (buildIndex segs p).firstSegment + searchLeft (buildIndex segs p).offsets (offset + len) →
      (buildIndex segs p).firstSegment + searchRight (buildIndex segs p).offsets offset < segs.length →
      offset ≤ offset + len := by
    intro h1 h2
    have hB := fr.hB h1 (by simpa using h2)
    have := psum_le_sum ((segs.map (layoutOf p)).map SegL.nvals)
      ((buildIndex segs p).firstSegment + searchRight (buildIndex segs p).offsets offset + 1)
    rw [← htot] at this
    have := hpos (by omega)
    omega
  exact plan_bounds_core segs p _ _ rfl rfl hwf (buildIndex segs p) offset (offset + len) _ _ fr hF i hi hsi hie
    co skip nc hplan

/-! ## suppliers that differ by an empty leading chunk -/

theorem trimStream_empty_cons (len : Int) (cs : List ChanChunk) (vr : Int) :
    dataOf (trimStream len (({} : ChanChunk) :: cs) 0 vr).1 = dataOf (trimStream len cs 0 vr).1 ∧
    (trimStream len (({} : ChanChunk) :: cs) 0 vr).2 = (trimStream len cs 0 vr).2 := by
  have hlen : ChanChunk.len ({} : ChanChunk) = 0 := rfl
  simp only [trimStream, hlen]
  have hvr : vr + ((0 : Nat) : Int) - ((0 : Nat) : Int) = vr := by omega
  rw [hvr]
  refine ⟨?_, rfl⟩
  rw [dataOf_cons]
  have : ∀ trim : Int, (trimChannelChunk ({} : ChanChunk) 0 trim).data.getD [] = [] := by
    intro trim
    unfold trimChannelChunk
    split <;> rfl
  rw [this, List.nil_append]

/-- the pure window depends on the supplier only through the streamed data and the running count of
    each planned segment read -/
theorem windowLoopPure_congr (sup sup' : Supplier) (p : Bytes) (ix : ChannelIndex) (offset endIndex len : Int)
    (startSeg endSeg : Nat) :
    ∀ (rest : List Segment) (i : Nat) (vr : Int),
      (∀ t s, rest[t]? = some s → ∀ co skip nc,
        segPlan p ix offset endIndex startSeg endSeg (i + t) s = some (co, skip, nc) → ∀ vr,
          dataOf (trimStream len (sup' (i + t) co.toNat nc) skip.toNat vr).1 =
            dataOf (trimStream len (sup (i + t) co.toNat nc) skip.toNat vr).1 ∧
          (trimStream len (sup' (i + t) co.toNat nc) skip.toNat vr).2 =
            (trimStream len (sup (i + t) co.toNat nc) skip.toNat vr).2) →
      dataOf (windowLoopPure sup' p ix offset endIndex len startSeg endSeg rest i vr) =
        dataOf (windowLoopPure sup p ix offset endIndex len startSeg endSeg rest i vr) := by
  intro rest
  induction rest with
  | nil => intro i vr _; rfl
  | cons s rest ih =>
    intro i vr h
    have hrest : ∀ t s', rest[t]? = some s' → ∀ co skip nc,
        segPlan p ix offset endIndex startSeg endSeg (i + 1 + t) s' = some (co, skip, nc) → ∀ vr,
          dataOf (trimStream len (sup' (i + 1 + t) co.toNat nc) skip.toNat vr).1 =
            dataOf (trimStream len (sup (i + 1 + t) co.toNat nc) skip.toNat vr).1 ∧
          (trimStream len (sup' (i + 1 + t) co.toNat nc) skip.toNat vr).2 =
            (trimStream len (sup (i + 1 + t) co.toNat nc) skip.toNat vr).2 := by
      intro t s' hs'
      have := h (t + 1) s' (by simpa using hs')
      rw [show i + 1 + t = i + (t + 1) by omega]
      exact this
    simp only [windowLoopPure]
    cases hplan : segPlan p ix offset endIndex startSeg endSeg i s with
    | none => exact ih (i + 1) vr hrest
    | some t =>
      obtain ⟨co, skip, nc⟩ := t
      have h0 := h 0 s (by simp) co skip nc (by simpa using hplan) vr
      simp only [Nat.add_zero] at h0
      simp only []
      rw [dataOf_append, dataOf_append, h0.1, h0.2, ih (i + 1) _ hrest]

end Tdms.Proofs.C04Whole
