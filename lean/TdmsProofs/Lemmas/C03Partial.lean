/-
  C03 — the case outside `ContigOk`: a truncated final chunk of a segment that holds an object of
  unsized type (strings).  `computeFinalChunkLengths` then returns `[]`, every object reads 0 values,
  and both readers return nothing for every channel (the lazy one possibly as the chunk `{}` instead
  of `{ data := some [] }`, which is why the chunk-for-chunk statement does not apply).
  Core Lean only.
-/
import TdmsProofs.Lemmas.C03Chunk

namespace Tdms.Proofs.C03

open Tdms Tdms.Generated Tdms.Model Tdms.Proofs.Bytes

/-- reading 0 values of a known type succeeds, returns nothing and does not move -/
theorem readValues_zero (file : Bytes) (e : Endian) (o : SegObj) (ty : Nat) (hty : o.dataType = some ty)
    (hknown : (typeSize ty).isSome = true ∨ ty = tyString) (st : FState) :
    ∃ tr', readValues file e o 0 st = .ok ([], ⟨st.pos, tr'⟩) := by
  unfold readValues
  simp only [hty]
  rcases hknown with hs | hs
  · obtain ⟨sz, hsz⟩ := Option.isSome_iff_exists.mp hs
    obtain ⟨ti, hti, _, _, hsize⟩ := typeSize_some hsz
    simp only [hti, hsize, Nat.zero_mul]
    refine ⟨st.trace ++ [(st.pos, 0)], ?_⟩
    have hread : fRead file 0 st = .ok ([], ⟨st.pos, st.trace ++ [(st.pos, 0)]⟩) := by simp [fRead]
    rw [F_bind_ok hread]
    simp [splitEvery, F_pure]
  · subst hs
    simp only [typeInfo_tyString, if_true]
    exact ⟨st.trace, rfl⟩

/-- **truncated chunk with an unsized object (partial: values only, not chunk for chunk).**
    If every data object reads 0 values in chunk `ci` and has a known type, the eager reader returns
    the chunk with `[]` for every object, and the lazy reader returns, for every channel, a chunk
    carrying no values — from any position, without consuming the file. -/
theorem zero_values_chunk_agrees (file : Bytes) (s : Segment) (ci : Nat) (p : Bytes) :
    ∀ (d : List SegObj) (acc : RawChunk) (cur : Nat) (st st' : FState),
      (∀ o ∈ d, channelNumberValues s o ci = 0 ∧
        ∃ ty, o.dataType = some ty ∧ ((typeSize ty).isSome = true ∨ ty = tyString)) →
      (∃ tr', readContiguousChunk file s ci d acc st = .ok (setCols acc d (d.map fun _ => []), ⟨st.pos, tr'⟩)) ∧
      (∃ c st2, readChannelChunkContiguous file s ci p d cur st' = .ok (c, st2) ∧ c.data.getD [] = []) := by
  intro d
  induction d with
  | nil => intro acc cur st st' _; exact ⟨⟨st.trace, rfl⟩, {}, st', rfl, rfl⟩
  | cons o os ih =>
    intro acc cur st st' h
    obtain ⟨hn, ty, hty, hknown⟩ := h o List.mem_cons_self
    have hrest := fun x hx => h x (List.mem_cons_of_mem _ hx)
    constructor
    · obtain ⟨tr1, h1⟩ := readValues_zero file s.endian o ty hty hknown st
      obtain ⟨⟨tr2, h2⟩, _⟩ := ih (dictSet acc o.path { data := some [] }) cur ⟨st.pos, tr1⟩ st' hrest
      refine ⟨tr2, ?_⟩
      unfold readContiguousChunk
      rw [hn, F_bind_ok h1, h2]
      rfl
    · unfold readChannelChunkContiguous
      rw [hn]
      by_cases hp : o.path = p
      · rw [if_pos hp]
        obtain ⟨tr1, h1⟩ := readValues_zero file s.endian o ty hty hknown ⟨cur, st'.trace⟩
        refine ⟨{ data := some [] }, ⟨cur, tr1⟩, ?_, rfl⟩
        have hseek : fSeek cur st' = .ok ((), ⟨cur, st'.trace⟩) := rfl
        rw [F_bind_ok hseek, F_bind_ok h1]
        rfl
      · rw [if_neg hp]
        by_cases h0 : 0 = o.numberValues
        · rw [if_pos h0]
          exact (ih acc _ st st' hrest).2
        · rw [if_neg h0]
          cases hsz : o.dataType.bind typeSize with
          | some sz =>
            simp only []
            exact (ih acc _ st st' hrest).2
          | none =>
            simp only [hty, Option.isNone_some, Bool.false_eq_true, if_false, if_true]
            exact ⟨{}, st', rfl, rfl⟩

end Tdms.Proofs.C03
