import TdmsProofs.Lemmas.TiedC04Window

/-!
# `TdmsReader.read_raw_data_for_channel` (generated) against `windowPureG` (model): the core equation

`read_raw_core` unfolds the GENERATED definition once, rewrites its segment loop with `forE_windowLoop_bind`
and discharges the obligation "one iteration of the generated loop body does `iterSpec`" in four stages that
follow the Python text: `chunk_size`, `segment_start_index`, the `start_segment` block, the `end_segment`
block, the chunk loop.  No generated lambda is restated: each stage is an equation between the (unfolded)
generated term and the model's `planStart` / `planEnd` / `trimStream`, closed by `rw`/`simp`/`omega`/`rfl`.
-/

namespace Tdms.Proofs.Tied
open Tdms Tdms.Model Tdms.Generated Tdms.Generated.Code Tdms.Proofs.C04

/-- the segments the loop of `read_raw_data_for_channel` runs over -/
def windowSegs (segs : List Segment) (w : WindowParams) : List Segment :=
  (segs.drop w.startSeg).take (w.endSeg + 1 - w.startSeg)

theorem read_raw_core (segs : List Segment) (p : Bytes) (numValues : Nat)
    (sup : TdmsSegment → Int → Int → List ChanChunk) (supN : Supplier) (offset : Int) (length : Option Int)
    (w : WindowParams) (hw : w = windowParams segs p numValues offset length)
    (hsup : ¬ loopRaises p w.ix w.endSeg (windowSegs segs w) w.startSeg →
      ∀ j s, (windowSegs segs w)[j]? = some s → ∀ co skip nc,
      segPlan p w.ix offset w.endIndex w.startSeg w.endSeg (w.startSeg + j) s = some (co, skip, nc) →
      sup (pySeg s) co nc = supN (w.startSeg + j) co.toNat nc) :
    TdmsReader.read_raw_data_for_channel (.ok ()) (fun _ => .ok ())
      (fun _ => (((buildIndex segs p).firstSegment : Int), (buildIndex segs p).offsets.map fun (n : Nat) => (n : Int)))
      pyGetSegObj (fun ps _ co nc => sup ps co nc) (fun c => (c.len : Int))
      (fun c skip trim => trimChannelChunk c skip.toNat trim)
      { _segments := some (segs.map pySeg), object_metadata := [(p, ⟨(numValues : Int)⟩)] } p offset length
    = if loopRaises p w.ix w.endSeg (windowSegs segs w) w.startSeg then .error "IndexError"
      else .ok (windowPureG segs p numValues supN offset length) := by
  have hfs : w.ix.firstSegment ≤ w.startSeg := by subst hw; simp [windowParams]
  have hfe : w.endSeg ≤ w.ix.firstSegment + w.ix.offsets.length := by
    rw [hw]; exact Nat.add_le_add_left (searchLeft_spec _ _).1 _
  have hpure : windowPureG segs p numValues supN offset length
      = windowLoopPure supN p w.ix offset w.endIndex w.len w.startSeg w.endSeg (windowSegs segs w) w.startSeg 0 := by
    subst hw; rfl
  rw [hpure]
  unfold TdmsReader.read_raw_data_for_channel
  generalize hix : buildIndex segs p = ix
  simp -zeta only [Py.Dict.getE, List.find?, decide_true, ok_bind, searchsortedRight_natCast, searchsortedLeft_natCast,
    ← Int.natCast_add]
  extract_lets out mlen len endIndex startSeg endSeg si0 vr0
  have hlen : len = w.len := by subst hw; cases length <;> rfl
  have hend : endIndex = w.endIndex := by subst hw; cases length <;> rfl
  have hS : startSeg = ((w.startSeg : Nat) : Int) := by subst hw hix; rfl
  have hE : endSeg = ((w.endSeg : Nat) : Int) := by subst hw hix; cases length <;> rfl
  have hwix : ix = w.ix := by subst hw hix; rfl
  have hsi : si0 = startSeg := rfl
  have hvr : vr0 = 0 := rfl
  have hout : out = [] := rfl
  clear_value si0 vr0 out endSeg startSeg endIndex len
  subst hlen hend hS hE hwix hsi hout hvr
  clear hix hw hpure
  have e1 : ((w.endSeg : Nat) : Int) + 1 = ((w.endSeg + 1 : Nat) : Int) := by omega
  rw [e1, Py.slice_natCast, ← List.map_drop, ← List.map_take,
    show List.take (w.endSeg + 1 - w.startSeg) (List.drop w.startSeg segs) = windowSegs segs w from rfl]
  rw [forE_windowLoop_bind sup supN p w.ix offset w.endIndex w.len w.startSeg w.endSeg _ _ _ _ _ ?hf hfs ?h2 hsup]
  · rw [List.nil_append]
  case h2 => simp [windowSegs]; omega
  case hf =>
    intro s si vr out h1 h2
    simp -zeta only []
    extract_lets +onlyGivenNames num_chunks segment_obj chunk_size
    have hnc : num_chunks = ((layoutOf p s).k : Int) := rfl
    have hcs : chunk_size = ((layoutOf p s).cs : Int) := by
      simp only [chunk_size, segment_obj, pyGetSegObj_pySeg, layoutOf]
      cases getSegmentObject s p with
      | none => rfl
      | some o => cases h : o.hasData <;> simp [pyObj, h]
    have hov : (pySeg s).final_chunk_lengths_override = s.override.map pyDict := rfl
    clear_value chunk_size num_chunks
    subst hcs hnc
    unfold iterSpec
    rw [segPlan_eq_planA]
    generalize hl : layoutOf p s = l
    by_cases hz : l.cs = 0
    · have : planA l (decide (si = w.startSeg)) (decide (si = w.endSeg)) (offset - segStartOf w.ix si)
          (segEndOf w.ix si - w.endIndex) = none := by simp [planA, hz]
      rw [this]
      simp [hz]
      rfl
    · rw [planA_eq_some l hz]
      have hpos : (0 : Int) < (l.cs : Int) := by omega
      have hnz : ¬ ((l.cs : Int) = 0) := by omega
      rw [if_neg hnz]
      simp -zeta only []
      have hrem := planStart_rem_nonneg l hz (decide (si = w.startSeg)) (offset - segStartOf w.ix si)
      generalize hps : planStart l (decide (si = w.startSeg)) (offset - segStartOf w.ix si) = ps at hrem ⊢
      extract_lets sidx fcs jp2 jp1
      refine Eq.trans (b := jp1 (segStartOf w.ix si)) ?_ ?_
      · unfold segStartOf
        by_cases hsf : si = w.ix.firstSegment
        · simp [hsf]
        · have e : ((si : Int) - (w.ix.firstSegment : Int) - 1 : Int) = ((si - w.ix.firstSegment - 1 : Nat) : Int) := by
            omega
          rw [if_neg (by omega : ¬ ((si : Int) = (w.ix.firstSegment : Int))), e,
            Py.index_map_of_lt _ _ _ 0 (by omega), if_neg hsf]
          rfl
      · simp -zeta only [jp1]
        clear jp1
        refine Eq.trans (b := jp2 ps) ?_ ?_
        · rw [← hps]
          unfold planStart
          by_cases hss : si = w.startSeg
          · rw [if_pos (by omega : (si : Int) = (w.startSeg : Int))]
            simp only [hss, decide_true, if_true, Py.floordiv_pos _ _ hpos, Py.mod_pos _ _ hpos]
            rfl
          · rw [if_neg (by omega : ¬ (si : Int) = (w.startSeg : Int))]
            simp only [hss, decide_false]
            rfl
        · simp -zeta only [jp2]
          clear jp2
          extract_lets +onlyGivenNames jp3
          have eidx : ((si : Int) - (w.ix.firstSegment : Int) : Int) = ((si - w.ix.firstSegment : Nat) : Int) := by omega
          have hlf : l.f = s.override.map fun ov => overrideGet ov p := by rw [← hl]; rfl
          by_cases hbad : si = w.endSeg ∧ w.ix.offsets.length ≤ si - w.ix.firstSegment
          · rw [if_pos hbad, if_pos (by omega : (si : Int) = (w.endSeg : Int)), eidx,
              Py.index_of_ge _ _ (by simpa using hbad.2)]
            rfl
          · rw [if_neg hbad]
            refine Eq.trans
              (b := jp3 (planEnd l (decide (si = w.endSeg)) (segEndOf w.ix si - w.endIndex) ps.2.2)) ?_ ?_
            · unfold planEnd segEndOf
              by_cases hse : si = w.endSeg
              · rw [if_pos (by omega : (si : Int) = (w.endSeg : Int)), eidx,
                  Py.index_map_of_lt _ _ _ 0 (by omega)]
                simp only [hse, decide_true, if_true, ok_bind]
                have hfcs : fcs = planFinal l := by
                  simp only [fcs, hov, planFinal, hlf]
                  cases s.override <;> simp [getD_pyDict]
                rw [hfcs]
                simp only [Py.floordiv_pos _ _ hpos]
                rfl
              · rw [if_neg (by omega : ¬ (si : Int) = (w.endSeg : Int))]
                simp only [hse, decide_false]
                rfl
            · simp -zeta only [jp3]
              unfold Py.enumerate
              rw [forP_trimStream w.len ps.2.1 hrem _ ?hf _ 0 (Int.le_refl 0)]
              · rfl
              · intro i c vr out
                rfl


/-! ## when the generated function raises, in closed form -/

theorem loopRaises_iff (p : Bytes) (ix : ChannelIndex) (endSeg : Nat) (rest : List Segment) (si : Nat) :
    loopRaises p ix endSeg rest si ↔
      ∃ j s, rest[j]? = some s ∧ (layoutOf p s).cs ≠ 0 ∧ si + j = endSeg
        ∧ ix.offsets.length ≤ endSeg - ix.firstSegment := by
  induction rest generalizing si with
  | nil => simp [loopRaises]
  | cons s rest ih =>
    simp only [loopRaises, ih]
    constructor
    · rintro (⟨h1, h2, h3⟩ | ⟨j, s', h1, h2, h3, h4⟩)
      · exact ⟨0, s, by simp, h1, by omega, by rw [← h2]; exact h3⟩
      · exact ⟨j + 1, s', by simpa using h1, h2, by omega, h4⟩
    · rintro ⟨j, s', h1, h2, h3, h4⟩
      cases j with
      | zero =>
        simp at h1
        subst h1
        exact Or.inl ⟨h2, by omega, by rw [show si = endSeg by omega]; exact h4⟩
      | succ j => exact Or.inr ⟨j, s', by simpa using h1, h2, by omega, h4⟩

/-- `read_raw_data_for_channel` raises (`IndexError` from `segment_offsets[segment_index - first_segment]`)
    exactly when the end segment computed by `searchsorted(…, side='left')` lies just past the channel's
    index (every offset is `< end_index`), that segment exists, and the channel has a non-zero chunk size
    in it -/
def windowRaises (segs : List Segment) (p : Bytes) (numValues : Nat) (offset : Int) (length : Option Int) : Prop :=
  ∃ s, segs[(windowParams segs p numValues offset length).endSeg]? = some s ∧ (layoutOf p s).cs ≠ 0 ∧
    (windowParams segs p numValues offset length).endSeg
      = (windowParams segs p numValues offset length).ix.firstSegment
        + (windowParams segs p numValues offset length).ix.offsets.length

theorem windowSegs_getElem? (segs : List Segment) (w : WindowParams) (j : Nat) :
    (windowSegs segs w)[j]? = if j < w.endSeg + 1 - w.startSeg then segs[w.startSeg + j]? else none := by
  unfold windowSegs
  rw [List.getElem?_take]
  split
  · rw [List.getElem?_drop]
  · rfl

theorem windowParams_facts (segs : List Segment) (p : Bytes) (numValues : Nat) (offset : Int) (length : Option Int) :
    let w := windowParams segs p numValues offset length
    w.ix.firstSegment ≤ w.startSeg ∧ w.startSeg ≤ w.ix.firstSegment + w.ix.offsets.length ∧
    w.ix.firstSegment ≤ w.endSeg ∧ w.endSeg ≤ w.ix.firstSegment + w.ix.offsets.length := by
  simp only [windowParams]
  refine ⟨by omega, Nat.add_le_add_left (searchRight_spec _ _).1 _, by omega,
    Nat.add_le_add_left (searchLeft_spec _ _).1 _⟩

theorem loopRaises_window (segs : List Segment) (p : Bytes) (numValues : Nat) (offset : Int) (length : Option Int) :
    loopRaises p (windowParams segs p numValues offset length).ix (windowParams segs p numValues offset length).endSeg
      (windowSegs segs (windowParams segs p numValues offset length))
      (windowParams segs p numValues offset length).startSeg ↔ windowRaises segs p numValues offset length := by
  obtain ⟨f1, f2, f3, f4⟩ := windowParams_facts segs p numValues offset length
  unfold windowRaises
  generalize windowParams segs p numValues offset length = w at *
  rw [loopRaises_iff]
  constructor
  · rintro ⟨j, s, h1, h2, h3, h4⟩
    rw [windowSegs_getElem?] at h1
    split at h1
    · rw [h3] at h1
      exact ⟨s, h1, h2, by omega⟩
    · cases h1
  · rintro ⟨s, h1, h2, h3⟩
    refine ⟨w.endSeg - w.startSeg, s, ?_, h2, by omega, by omega⟩
    rw [windowSegs_getElem?, if_pos (by omega), show w.startSeg + (w.endSeg - w.startSeg) = w.endSeg by omega]
    exact h1


/-! ## the generated function, for suppliers that agree on the planned reads -/

/-- the generated `read_raw_data_for_channel`, instantiated as in the tied theorems: no I/O checks, the
    channel index and `num_values` of the model, `get_segment_object` by representation, the segment read
    `seg_read`, and `_trim_channel_chunk` / `len(chunk)` on model chunks -/
abbrev genWindow (segs : List Segment) (p : Bytes) (numValues : Nat)
    (seg_read : TdmsSegment → Py.Path → Int → Int → List ChanChunk) (offset : Int) (length : Option Int) :
    Except Py.Exc (List ChanChunk) :=
  TdmsReader.read_raw_data_for_channel (.ok ()) (fun _ => .ok ())
    (fun _ => (((buildIndex segs p).firstSegment : Int), (buildIndex segs p).offsets.map fun (n : Nat) => (n : Int)))
    pyGetSegObj seg_read (fun c => (c.len : Int))
    (fun c skip trim => trimChannelChunk c skip.toNat trim)
    { _segments := some (segs.map pySeg), object_metadata := [(p, ⟨(numValues : Int)⟩)] } p offset length

theorem read_raw_spec_gen (segs : List Segment) (p : Bytes) (numValues : Nat)
    (sup : TdmsSegment → Int → Int → List ChanChunk) (supN : Supplier) (offset : Int) (length : Option Int)
    (hsup : ∀ i s co skip nc, segs[i]? = some s →
      segPlan p (windowParams segs p numValues offset length).ix offset
        (windowParams segs p numValues offset length).endIndex (windowParams segs p numValues offset length).startSeg
        (windowParams segs p numValues offset length).endSeg i s = some (co, skip, nc) →
      sup (pySeg s) co nc = supN i co.toNat nc) :
    (windowRaises segs p numValues offset length →
      genWindow segs p numValues (fun ps _ co nc => sup ps co nc) offset length = .error "IndexError") ∧
    (¬ windowRaises segs p numValues offset length →
      genWindow segs p numValues (fun ps _ co nc => sup ps co nc) offset length
        = .ok (windowPureG segs p numValues supN offset length)) := by
  have h := read_raw_core segs p numValues sup supN offset length _ rfl (by
    intro _ j s hj co skip nc hp
    rw [windowSegs_getElem?] at hj
    split at hj
    · exact hsup _ s co skip nc hj hp
    · cases hj)
  have hr := loopRaises_window segs p numValues offset length
  constructor
  · intro hw
    rw [genWindow, h, if_pos (hr.mpr hw)]
  · intro hw
    rw [genWindow, h, if_neg (fun h' => hw (hr.mp h'))]

theorem segStartOf_startSeg_le (ix : ChannelIndex) (offset : Int) (hoff : 0 ≤ offset) :
    segStartOf ix (ix.firstSegment + searchRight ix.offsets offset) ≤ offset := by
  unfold segStartOf
  split
  · exact hoff
  · have h1 := (searchRight_spec ix.offsets offset).2.1 (searchRight ix.offsets offset - 1) (by omega)
    have e : ix.firstSegment + searchRight ix.offsets offset - ix.firstSegment - 1
        = searchRight ix.offsets offset - 1 := by omega
    rw [e]
    exact h1

/-- for a non-negative `offset` every planned segment read has a non-negative `chunk_offset` -/
theorem segPlan_co_nonneg (segs : List Segment) (p : Bytes) (numValues : Nat) (offset : Int) (length : Option Int)
    (hoff : 0 ≤ offset) (i : Nat) (s : Segment) (co skip nc : Int)
    (hp : segPlan p (windowParams segs p numValues offset length).ix offset
        (windowParams segs p numValues offset length).endIndex (windowParams segs p numValues offset length).startSeg
        (windowParams segs p numValues offset length).endSeg i s = some (co, skip, nc)) : 0 ≤ co := by
  rw [segPlan_eq_planA] at hp
  by_cases hz : (layoutOf p s).cs = 0
  · simp [planA, hz] at hp
  · rw [planA_eq_some _ hz] at hp
    simp only [Option.some.injEq, Prod.mk.injEq] at hp
    rw [← hp.1]
    unfold planStart
    by_cases hi : i = (windowParams segs p numValues offset length).startSeg
    · simp only [hi, decide_true, if_true]
      apply Int.ediv_nonneg _ (by omega)
      have := segStartOf_startSeg_le (buildIndex segs p) offset hoff
      show 0 ≤ offset - segStartOf (buildIndex segs p)
        ((buildIndex segs p).firstSegment + searchRight (buildIndex segs p).offsets offset)
      omega
    · simp [hi]

theorem getD_of_getElem? (segs : List Segment) (i : Nat) (s : Segment) (h : segs[i]? = some s) :
    segs.getD i default = s := by
  simp [List.getD_eq_getElem?_getD, h]



theorem buildIndex_offsets_nil (segs : List Segment) (p : Bytes) (h : (buildIndex segs p).offsets = []) :
    (buildIndex segs p).firstSegment = segs.length := by
  have hlen : (nvOf segs p).length = segs.length := by simp [nvOf]
  cases buildIndex_spec segs p with
  | empty hzero hix => rw [hix, hlen]
  | data first last hfl hlast hfpos hlpos hbefore hafter hix =>
    exfalso
    rw [hix] at h
    have := congrArg List.length h
    simp only [cumsumFrom_length, List.length_take, List.length_drop, List.length_nil] at this
    omega

theorem windowParams_endIndex_le (segs : List Segment) (p : Bytes) (numValues : Nat) (offset : Int)
    (length : Option Int) : (windowParams segs p numValues offset length).endIndex ≤ (numValues : Int) := by
  cases length <;> simp only [windowParams] <;> omega

/-- no `IndexError` when the window ends inside the indexed values: `end_index ≤` the last offset -/
theorem not_windowRaises_of_endIndex_le (segs : List Segment) (p : Bytes) (numValues : Nat) (offset : Int)
    (length : Option Int)
    (h : ∀ t, (buildIndex segs p).offsets.getLast? = some t →
      (windowParams segs p numValues offset length).endIndex ≤ (t : Int)) :
    ¬ windowRaises segs p numValues offset length := by
  rintro ⟨s, h1, h2, h3⟩
  have hsl : searchLeft (buildIndex segs p).offsets (windowParams segs p numValues offset length).endIndex
      = (buildIndex segs p).offsets.length := by
    have : (windowParams segs p numValues offset length).endSeg = (buildIndex segs p).firstSegment
        + searchLeft (buildIndex segs p).offsets (windowParams segs p numValues offset length).endIndex := rfl
    have h3' : (windowParams segs p numValues offset length).endSeg
        = (buildIndex segs p).firstSegment + (buildIndex segs p).offsets.length := h3
    omega
  cases hlast : (buildIndex segs p).offsets.getLast? with
  | none =>
    have hnil : (buildIndex segs p).offsets = [] := by simpa using hlast
    have hfirst := buildIndex_offsets_nil segs p hnil
    have h3' : (windowParams segs p numValues offset length).endSeg
        = (buildIndex segs p).firstSegment + (buildIndex segs p).offsets.length := h3
    rw [h3', hnil, hfirst] at h1
    simp at h1
  | some t =>
    have ht := h t hlast
    rw [List.getLast?_eq_getElem?] at hlast
    have hpos : 0 < (buildIndex segs p).offsets.length := by
      rcases Nat.eq_zero_or_pos (buildIndex segs p).offsets.length with h0 | h0
      · rw [List.getElem?_eq_none (by omega)] at hlast; cases hlast
      · exact h0
    have := (searchLeft_spec (buildIndex segs p).offsets (windowParams segs p numValues offset length).endIndex).2.1
      ((buildIndex segs p).offsets.length - 1) (by omega)
    rw [List.getD_eq_getElem?_getD, hlast] at this
    simp only [Option.getD_some] at this
    omega

/-- in particular when `num_values` does not exceed the last offset of the index (in the reader it EQUALS it) -/
theorem not_windowRaises_of_numValues_le (segs : List Segment) (p : Bytes) (numValues : Nat) (offset : Int)
    (length : Option Int)
    (h : ∀ t, (buildIndex segs p).offsets.getLast? = some t → numValues ≤ t) :
    ¬ windowRaises segs p numValues offset length := by
  apply not_windowRaises_of_endIndex_le
  intro t ht
  have := windowParams_endIndex_le segs p numValues offset length
  have := h t ht
  omega

end Tdms.Proofs.Tied
