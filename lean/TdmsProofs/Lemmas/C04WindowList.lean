import TdmsProofs.Lemmas.C04WindowDefs

/-!
# C04 (windows): list lemmas

`sl xs a b` is the Python slice `xs[max a 0 : max b 0]`; `trimStream` on a run of chunks returns the
intersection of the run with the window.  Core Lean only.
-/

namespace Tdms.Proofs.C04

open Tdms Tdms.Model

/-- `xs[a:b]` with negative bounds clamped to `0` -/
def sl {α : Type} (xs : List α) (a b : Int) : List α := (xs.take b.toNat).drop a.toNat

theorem sl_nil {α : Type} (a b : Int) : sl ([] : List α) a b = [] := by simp [sl]

theorem sl_append {α : Type} (xs ys : List α) (a b : Int) :
    sl (xs ++ ys) a b = sl xs a b ++ sl ys (a - xs.length) (b - xs.length) := by
  unfold sl
  rw [List.take_append, List.drop_append]
  congr 1
  have h1 : (b - (xs.length : Int)).toNat = b.toNat - xs.length := by omega
  have h2 : (a - (xs.length : Int)).toNat = a.toNat - xs.length := by omega
  rw [h1, h2, List.length_take]
  by_cases h : xs.length ≤ b.toNat
  · rw [Nat.min_eq_right h]
  · have : b.toNat - xs.length = 0 := by omega
    simp [this]

theorem sl_eq_nil_of_le {α : Type} (xs : List α) (a b : Int) (h : b ≤ a) : sl xs a b = [] := by
  unfold sl
  apply List.drop_eq_nil_of_le
  rw [List.length_take]; omega

theorem sl_eq_nil_of_length_le {α : Type} (xs : List α) (a b : Int) (h : (xs.length : Int) ≤ a) :
    sl xs a b = [] := by
  unfold sl
  apply List.drop_eq_nil_of_le
  rw [List.length_take]; omega

theorem sl_eq_nil_of_nonpos {α : Type} (xs : List α) (a b : Int) (h : b ≤ 0) : sl xs a b = [] := by
  unfold sl
  have : b.toNat = 0 := by omega
  simp [this]

/-- the specification shape: `xs[a : min (a + l) n]` is `(xs.drop a).take l` -/
theorem sl_eq_drop_take {α : Type} (xs : List α) (a : Int) (l : Int) (e : Int) (ha : 0 ≤ a) (hl : 0 ≤ l)
    (he : e = min (a + l) xs.length ∨ (xs.length : Int) ≤ a ∧ e ≤ a) :
    sl xs a e = (xs.drop a.toNat).take l.toNat := by
  unfold sl
  rcases he with he | ⟨h1, h2⟩
  · rw [List.drop_take]
    by_cases h : a + l ≤ xs.length
    · have : e.toNat - a.toNat = l.toNat := by omega
      rw [this]
    · have h3 : e = xs.length := by omega
      have h4 : l.toNat = (e.toNat - a.toNat) + (l.toNat - (e.toNat - a.toNat)) := by omega
      rw [List.take_of_length_le (l := xs.drop a.toNat) (i := l.toNat) (by rw [List.length_drop]; omega)]
      rw [List.take_of_length_le (by rw [List.length_drop]; omega)]
  · rw [List.drop_eq_nil_of_le (by rw [List.length_take]; omega)]
    rw [List.drop_eq_nil_of_le (as := xs) (by omega)]
    simp

theorem sl_full_none {α : Type} (xs : List α) (a : Int) (e : Int)
    (he : e = xs.length ∨ (xs.length : Int) ≤ a ∧ e ≤ a) :
    sl xs a e = xs.drop a.toNat := by
  unfold sl
  rcases he with he | ⟨h1, h2⟩
  · rw [List.take_of_length_le (by omega)]
  · rw [List.drop_eq_nil_of_le (by rw [List.length_take]; omega)]
    rw [List.drop_eq_nil_of_le (as := xs) (by omega)]

/-! ## chunks -/

/-- chunks carrying plain data -/
def wrap (ds : List (List Bytes)) : List ChanChunk := ds.map fun d => ({ data := some d } : ChanChunk)

theorem dataOf_nil : dataOf [] = [] := rfl

theorem dataOf_cons (c : ChanChunk) (cs : List ChanChunk) : dataOf (c :: cs) = c.data.getD [] ++ dataOf cs := by
  simp [dataOf]

theorem dataOf_append (xs ys : List ChanChunk) : dataOf (xs ++ ys) = dataOf xs ++ dataOf ys := by
  simp [dataOf]

theorem supOf_eq_wrap (vals : Vals) (s co : Nat) (nc : Int) :
    supOf vals s co nc = wrap ((List.range' co nc.toNat).map (vals s)) := by
  simp [supOf, wrap]

theorem pySliceTo_eq_sl (d : List Bytes) (skip : Nat) (trim : Int) (a b : Int)
    (hskip : (skip : Int) = max 0 a)
    (htrim : trim = 0 ∧ (d.length : Int) ≤ b ∨ 0 ≤ trim ∧ trim ≤ d.length ∧ b = d.length - trim) :
    pySliceTo d skip trim = sl d a b := by
  unfold pySliceTo sl
  have hs : a.toNat = skip := by omega
  rw [hs]
  rcases htrim with ⟨h0, hb⟩ | ⟨h0, h1, hb⟩
  · subst h0
    simp only [Int.sub_zero]
    rw [if_neg (by omega)]
    rw [List.take_of_length_le (by omega), List.take_of_length_le (by omega)]
  · simp only []
    rw [if_neg (by omega), hb]

theorem trimChannelChunk_data (d : List Bytes) (skip : Nat) (trim : Int) :
    (trimChannelChunk { data := some d } skip trim).data.getD [] = pySliceTo d skip trim := by
  unfold trimChannelChunk
  split
  · rename_i h
    obtain ⟨h1, h2⟩ := h
    subst h1; subst h2
    have : ¬ ((d.length : Int) < 0) := by omega
    simp [pySliceTo, this]
  · simp

/-- `values_read` after a run of chunks: pure telescoping -/
theorem trimStream_snd_zero (len : Int) (ds : List (List Bytes)) (vr : Int) :
    (trimStream len (wrap ds) 0 vr).2 = vr + (ds.flatten.length : Int) := by
  induction ds generalizing vr with
  | nil => simp [wrap, trimStream]
  | cons d ds ih =>
    simp only [wrap, List.map_cons, trimStream] at ih ⊢
    rw [ih]
    simp [ChanChunk.len]
    omega

theorem trimStream_snd_cons (len : Int) (d : List Bytes) (ds : List (List Bytes)) (skip : Nat) (vr : Int) :
    (trimStream len (wrap (d :: ds)) skip vr).2 = vr + ((d :: ds).flatten.length : Int) - skip := by
  have := trimStream_snd_zero len ds (vr + (d.length : Int) - skip)
  simp only [wrap, List.map_cons, trimStream] at this ⊢
  rw [show ChanChunk.len { data := some d } = d.length by simp [ChanChunk.len], this]
  simp
  omega

/-- a run of chunks starting at position `q` may be streamed through `trimStream` for the window
    `[a, e)`: every chunk starts at or before `e`, and the values to skip lie in the first chunk -/
def RunOk : List (List Bytes) → Int → Int → Int → Prop
  | [], _, _, _ => True
  | d :: ds, q, a, e => q ≤ e ∧ a ≤ q + d.length ∧ RunOk ds (q + d.length) a e

/-- `trimStream` returns the intersection of the run with the window -/
theorem trimStream_run (ds : List (List Bytes)) (q a e : Int) (skip : Nat) (vr : Int)
    (hskip : (skip : Int) = max 0 (a - q)) (hvr : vr = q - a + skip) (hok : RunOk ds q a e) :
    dataOf (trimStream (e - a) (wrap ds) skip vr).1 = sl ds.flatten (a - q) (e - q) := by
  induction ds generalizing q skip vr with
  | nil => simp [wrap, trimStream, dataOf, sl]
  | cons d ds ih =>
    obtain ⟨h1, h2, h3⟩ := hok
    simp only [wrap, List.map_cons, trimStream, List.flatten_cons] at ih ⊢
    rw [dataOf_cons, sl_append, trimChannelChunk_data]
    have hlen : ChanChunk.len { data := some d } = d.length := by simp [ChanChunk.len]
    rw [hlen]
    congr 1
    · apply pySliceTo_eq_sl _ _ _ _ _ hskip
      by_cases h : vr + (d.length : Int) - skip < e - a
      · left; rw [if_pos h]; constructor
        · rfl
        · omega
      · right; rw [if_neg h]; omega
    · have := ih (q + d.length) 0 (vr + (d.length : Int) - skip) (by omega) (by omega) h3
      rw [this]
      congr 1 <;> omega

end Tdms.Proofs.C04
