/-
  C01 with DAQmx segments: the content invariant `CInv` through one segment of `denoteSeg`.
  Core Lean only.
-/
import TdmsProofs.Lemmas.C01LayoutsDaqSem

namespace Tdms.Proofs.C01Layouts

open Tdms Tdms.Generated Tdms.Model Tdms.Proofs.C02 Tdms.Proofs.C01Multi

/-- the scale ids of the file for a path -/
def idsF (F : ScF) (p : Bytes) : List Nat := ((F p).getD []).map (·.1)

/-- entries without type are empty; DAQmx raw-data entries hold no plain values and exactly the scale ids
    of the file; entries of another type hold no scalers -/
structure CInv (F : ScF) (Q : Bytes → Prop) (oc : ObjContent) : Prop where
  untyped : oc.ty = none → oc.values = [] ∧ oc.scalers = []
  raw : oc.ty = some tyDaqmxRaw → oc.values = [] ∧ oc.scalers.map (·.1) = idsF F oc.path ∧
    (idsF F oc.path).Nodup ∧ Q oc.path
  std : ∀ t, oc.ty = some t → t ≠ tyDaqmxRaw → oc.scalers = []

def CInvAll (F : ScF) (Q : Bytes → Prop) (c : Content) : Prop := ∀ oc ∈ c, CInv F Q oc

theorem cinv_dflt (F : ScF) (Q : Bytes → Prop) (p : Bytes) : CInv F Q (dflt p) := by
  refine ⟨fun _ => ⟨rfl, rfl⟩, ?_, ?_⟩
  · intro h; cases h
  · intro _ h; cases h

/-! ## `modify`, with knowledge about the entry at the path -/

theorem mem_modify_abs {c : Content} {p : Bytes} {f : ObjContent → ObjContent} {x : ObjContent}
    (h : x ∈ c.modify p f) :
    (x ∈ c ∧ x.path ≠ p) ∨ (∃ y ∈ c, y.path = p ∧ x = f y) ∨
      (x = f (dflt p) ∧ c.any (fun o => decide (o.path = p)) = false) := by
  unfold Content.modify at h
  split at h
  · rw [List.mem_map] at h
    obtain ⟨y, hy, rfl⟩ := h
    by_cases hp : y.path = p
    · right; left; exact ⟨y, hy, hp, by simp [hp]⟩
    · left; simp [hp, hy]
  · rename_i hany
    rw [List.mem_append] at h
    rcases h with h | h
    · left
      refine ⟨h, fun hp => hany ?_⟩
      simp only [List.any_eq_true, decide_eq_true_eq]
      exact ⟨x, h, hp⟩
    · right; right
      exact ⟨by simpa [dflt] using h, by simpa using hany⟩

theorem modify_forall_at {c : Content} {p : Bytes} {f : ObjContent → ObjContent} (Q : ObjContent → Prop)
    (hc : ∀ oc ∈ c, Q oc) (hf : ∀ y ∈ c, y.path = p → Q (f y))
    (hd : c.any (fun o => decide (o.path = p)) = false → Q (f (dflt p))) : ∀ oc ∈ c.modify p f, Q oc := by
  intro oc hoc
  rcases mem_modify_abs hoc with ⟨h1, _⟩ | ⟨y, hy, hyp, rfl⟩ | ⟨rfl, habs⟩
  · exact hc oc h1
  · exact hf y hy hyp
  · exact hd habs

/-- every entry at `p` has type `t` -/
def TyAt (c : Content) (p : Bytes) (t : Nat) : Prop := ∀ oc ∈ c, oc.path = p → oc.ty = some t

theorem tyAt_modify_self (c : Content) (p : Bytes) (f : ObjContent → ObjContent) (t : Nat)
    (hf : ∀ y, (f y).path = y.path ∧ (f y).ty = some t) : TyAt (c.modify p f) p t := by
  intro oc hoc hp
  rcases mem_modify_abs hoc with ⟨_, h2⟩ | ⟨y, _, _, rfl⟩ | ⟨rfl, _⟩
  · exact absurd hp h2
  · exact (hf y).2
  · exact (hf _).2

theorem tyAt_modify_ne {c : Content} {p q : Bytes} {t : Nat} (h : TyAt c p t) (hq : q ≠ p)
    (f : ObjContent → ObjContent) (hf : ∀ y, (f y).path = y.path) : TyAt (c.modify q f) p t := by
  intro oc hoc hp
  rcases mem_modify_abs hoc with ⟨h1, _⟩ | ⟨y, _, hyq, rfl⟩ | ⟨rfl, _⟩
  · exact h oc h1 hp
  · rw [hf] at hp; exact absurd (hyq.symm.trans hp) hq
  · rw [hf] at hp; exact absurd hp hq

theorem tyAt_declareObjs : ∀ (a : List ActiveObj) (c : Content), (a.map (·.path)).Nodup →
    ∀ x ∈ a, ∀ d, x.idx = some d → TyAt (declareObjs c a) x.path d.ty := by
  intro a
  induction a with
  | nil => intro c _ x hx; cases hx
  | cons y ys ih =>
    intro c hnd x hx d hd
    rw [List.map_cons, List.nodup_cons] at hnd
    rw [declareObjs_cons]
    rcases List.mem_cons.1 hx with rfl | hx'
    · -- declared now; the later objects have other paths
      have h0 : TyAt (c.modify x.path (declFD x)) x.path d.ty :=
        tyAt_modify_self c x.path (declFD x) d.ty (fun y => ⟨rfl, by simp [declFD, hd]⟩)
      suffices h : ∀ (zs : List ActiveObj) (c' : Content), (∀ z ∈ zs, z.path ≠ x.path) → TyAt c' x.path d.ty →
          TyAt (declareObjs c' zs) x.path d.ty from
        h ys _ (fun z hz e => hnd.1 (List.mem_map.2 ⟨z, hz, e⟩)) h0
      intro zs
      induction zs with
      | nil => intro c' _ h; exact h
      | cons z zs ihz =>
        intro c' hne h
        rw [declareObjs_cons]
        exact ihz _ (fun w hw => hne w (List.mem_cons_of_mem _ hw))
          (tyAt_modify_ne h (hne z List.mem_cons_self) _ (fun _ => rfl))
    · exact ih _ hnd.2 x hx' d hd

theorem tyAt_sameView {c c' : Content} (h : SameView c c') {p : Bytes} {t : Nat} (ht : TyAt c p t) :
    TyAt c' p t := by
  intro oc hoc hp
  have hm : (oc.path, oc.ty, oc.props) ∈ c'.map (fun oc => (oc.path, oc.ty, oc.props)) :=
    List.mem_map.2 ⟨oc, hoc, rfl⟩
  rw [h] at hm
  obtain ⟨y, hy, he⟩ := List.mem_map.mp hm
  simp only [Prod.mk.injEq] at he
  rw [← he.2.1]
  exact ht y hy (he.1.trans hp)

theorem tyAt_applyProps : ∀ (os : List ObjEnc) (c : Content) (p : Bytes) (t : Nat),
    (∀ o ∈ os, c.any (fun x => decide (x.path = o.path)) = true) → TyAt c p t → TyAt (applyProps c os) p t := by
  intro os
  induction os with
  | nil => intro c p t _ h; exact h
  | cons o os ih =>
    intro c p t hpres h
    rw [applyProps]
    apply ih
    · intro o' ho'
      exact modify_present_mono _ _ _ _ (fun _ => rfl) (hpres o' (List.mem_cons_of_mem _ ho'))
    · rw [modify_present _ (hpres o List.mem_cons_self)]
      intro oc hoc hp
      obtain ⟨y, hy, rfl⟩ := List.mem_map.mp hoc
      split at hp <;> rename_i hyp
      · split
        · exact h y hy hp
        · exact absurd hyp ‹_›
      · split
        · exact absurd ‹_› hyp
        · exact h y hy hp

/-! ## the steps of `denoteSeg` -/

theorem fold_empty_eq (sc : List ScalerEnc) (l : ScalDict) :
    sc.foldl (fun l s => appendScaler l s.scaleId []) l =
      (sc.map fun s => (s.scaleId, ([] : List Bytes))).foldl stepS l := by
  rw [List.foldl_map]; rfl

theorem cinv_decl {F : ScF} {Q : Bytes → Prop} {a : ActiveObj} {oc : ObjContent} (h : CInv F Q oc)
    (hc : oc.ty = none ∨ oc.ty = a.idx.map (·.ty)) (hp : oc.path = a.path)
    (hg : ∀ d, a.idx = some d → GoodDescD GoodDesc F a.path d) (hq : isDaqmxObj a = true → Q a.path) :
    CInv F Q (declFD a oc) := by
  cases hi : a.idx with
  | none =>
    have hty : oc.ty = none := by
      rcases hc with h' | h'
      · exact h'
      · rw [hi] at h'; exact h'
    have e1 : (declFD a oc).ty = oc.ty := by simp [declFD, hi, hty]
    have e2 : (declFD a oc).scalers = oc.scalers := by simp [declFD, hi]
    refine ⟨?_, ?_, ?_⟩
    · intro h'; rw [e2]; rw [e1] at h'; exact h.untyped h'
    · intro h'; rw [e2]; rw [e1] at h'; exact h.raw h'
    · intro t h1 h2; rw [e2]; rw [e1] at h1; exact h.std t h1 h2
  | some d =>
    rcases goodD_ty (hg d hi) with ⟨ty, n, total, rfl, hne⟩ | ⟨dg, n, sc, w, rfl, hF⟩
    · have e1 : (declFD a oc).ty = some ty := by simp [declFD, hi, IdxDesc.ty]
      have e2 : (declFD a oc).scalers = oc.scalers := by simp [declFD, hi]
      refine ⟨?_, ?_, ?_⟩
      · intro h'; rw [e1] at h'; cases h'
      · intro h'; rw [e1] at h'; cases h'; exact absurd rfl hne
      intro t _ _
      rw [e2]
      rcases hc with h' | h'
      · exact (h.untyped h').2
      · rw [hi] at h'
        exact h.std ty (by simpa [IdxDesc.ty] using h') hne
    · have hgd : DaqDescOK F a.path dg tyDaqmxRaw n sc w := hg _ hi
      have hnd := hgd.ids
      have e1 : (declFD a oc).ty = some tyDaqmxRaw := by simp [declFD, hi, IdxDesc.ty]
      have e2 : (declFD a oc).scalers = (sc.map fun s => (s.scaleId, ([] : List Bytes))).foldl stepS oc.scalers := by
        simp only [declFD, hi, if_true]
        exact fold_empty_eq sc oc.scalers
      have hids : idsF F a.path = sc.map (·.scaleId) := by
        simp [idsF, hF, scTypesOf_ids]
      have hitems : (sc.map fun s => (s.scaleId, ([] : List Bytes))).map (·.1) = sc.map (·.scaleId) := by
        simp [List.map_map, Function.comp_def]
      refine ⟨?_, ?_, ?_⟩
      · intro h'; rw [e1] at h'; cases h'
      rotate_left
      · intro t h1 h2; rw [e1] at h1; cases h1; exact absurd rfl h2
      intro _
      have hpath : (declFD a oc).path = a.path := hp
      rw [hpath, e2]
      have hqa : Q a.path := hq (by simp [isDaqmxObj, hi])
      rcases hc with h' | h'
      · obtain ⟨hv, hs⟩ := h.untyped h'
        refine ⟨hv, ?_, by rw [hids]; exact hnd, hqa⟩
        rw [hs, ids_fold_fresh _ [] (by rw [hitems]; exact hnd) (by simp), hitems, hids]
        simp
      · rw [hi] at h'
        have hraw : oc.ty = some tyDaqmxRaw := by simpa [IdxDesc.ty] using h'
        obtain ⟨hv, hs, _⟩ := h.raw hraw
        refine ⟨hv, ?_, by rw [hids]; exact hnd, hqa⟩
        rw [hp, hids] at hs
        rw [ids_fold_mem _ _ (by
          intro iv hiv
          rw [hs, ← hitems]
          exact List.mem_map.2 ⟨iv, hiv, rfl⟩), hs, hids]

theorem tyCons_decl_step {last' : LastIdx} {c : Content} {a : ActiveObj} (htc : TyCons last' c)
    (hidx : a.idx = last'.get a.path) : TyCons last' (c.modify a.path (declFD a)) := by
  intro oc hoc
  have hdecl : ∀ y : ObjContent, y.path = a.path → (y.ty = none ∨ y.ty = (last'.get a.path).map (·.ty)) →
      (declFD a y).ty = none ∨ (declFD a y).ty = (last'.get a.path).map (·.ty) := by
    intro y _ hy
    rw [← hidx] at hy ⊢
    cases hi : a.idx with
    | none =>
      rcases hy with h | h
      · left; simp [declFD, hi, h]
      · rw [hi] at h; left; simp [declFD, hi, h]
    | some d => right; simp [declFD, hi]
  rcases mem_modify hoc with ⟨h1, _⟩ | ⟨y, hy, hyp, rfl⟩ | rfl
  · exact htc oc h1
  · have := hdecl y hyp (by rw [← hyp]; exact htc y hy)
    rwa [show (declFD a y).path = a.path from hyp]
  · exact hdecl (dflt a.path) rfl (Or.inl rfl)

theorem cinv_declareObjs (F : ScF) (Q : Bytes → Prop) (last' : LastIdx) : ∀ (act : List ActiveObj) (c : Content),
    (∀ a ∈ act, a.idx = last'.get a.path) →
    (∀ a ∈ act, ∀ d, a.idx = some d → GoodDescD GoodDesc F a.path d) →
    (∀ a ∈ act, isDaqmxObj a = true → Q a.path) → TyCons last' c → CInvAll F Q c →
    CInvAll F Q (declareObjs c act) := by
  intro act
  induction act with
  | nil => intro c _ _ _ _ h; exact h
  | cons a as ih =>
    intro c hidx hgood hQ htc hci
    rw [declareObjs_cons]
    apply ih _ (fun x hx => hidx x (List.mem_cons_of_mem _ hx)) (fun x hx => hgood x (List.mem_cons_of_mem _ hx))
      (fun x hx => hQ x (List.mem_cons_of_mem _ hx))
      (tyCons_decl_step htc (hidx a List.mem_cons_self))
    apply modify_forall_at (CInv F Q) hci
    · intro y hy hyp
      have := htc y hy
      rw [hyp, ← hidx a List.mem_cons_self] at this
      exact cinv_decl (hci y hy) this hyp (hgood a List.mem_cons_self) (hQ a List.mem_cons_self)
    · intro _
      exact cinv_decl (cinv_dflt F Q a.path) (Or.inl rfl) rfl (hgood a List.mem_cons_self) (hQ a List.mem_cons_self)

theorem cinv_applyProps (F : ScF) (Q : Bytes → Prop) : ∀ (os : List ObjEnc) (c : Content), CInvAll F Q c → CInvAll F Q (applyProps c os) := by
  intro os
  induction os with
  | nil => intro c h; exact h
  | cons o os ih =>
    intro c h
    rw [applyProps]
    apply ih
    apply modify_forall (CInv F Q) h
    · intro oc hoc
      exact ⟨hoc.untyped, hoc.raw, hoc.std⟩
    · refine ⟨fun _ => ⟨rfl, rfl⟩, ?_, ?_⟩
      · intro h; cases h
      · intro _ h; cases h

theorem cinv_addStdChunk (F : ScF) (Q : Bytes → Prop) : ∀ (d : List ActiveObj) (ch : List (List Bytes)) (c : Content),
    (∀ x ∈ d, c.any (fun o => decide (o.path = x.path)) = true ∧ ∃ t, t ≠ tyDaqmxRaw ∧ TyAt c x.path t) →
    CInvAll F Q c → CInvAll F Q (addStdChunk c d ch) := by
  intro d
  induction d with
  | nil => intro ch c _ h; cases ch <;> exact h
  | cons a as ih =>
    intro ch c hd h
    cases ch with
    | nil => exact h
    | cons v vs =>
      rw [addStdChunk]
      obtain ⟨hpres, t, hne, hty⟩ := hd a List.mem_cons_self
      have hsv : SameView c (c.modify a.path fun o => { o with values := o.values ++ v }) :=
        sameView_modify (fun _ => ⟨rfl, rfl, rfl⟩) hpres
      apply ih
      · intro x hx
        obtain ⟨hp', t', hne', hty'⟩ := hd x (List.mem_cons_of_mem _ hx)
        exact ⟨by rw [hsv.any_path]; exact hp', t', hne', tyAt_sameView hsv hty'⟩
      · apply modify_forall_at (CInv F Q) h
        · intro y hy hyp
          have hyt := hty y hy hyp
          have hc := h y hy
          have ety : ({ y with values := y.values ++ v } : ObjContent).ty = some t := hyt
          refine ⟨?_, ?_, ?_⟩
          · intro h'; rw [ety] at h'; cases h'
          · intro h'; rw [ety] at h'; cases h'; exact absurd rfl hne
          · intro t' h1 h2; exact hc.std t' h1 h2
        · intro habs; rw [habs] at hpres; cases hpres

theorem cinv_addDaqmxObj (F : ScF) (Q : Bytes → Prop) (e : Endian) (bufs : List (List Bytes)) (c : Content) (x : ActiveObj)
    (hpres : c.any (fun o => decide (o.path = x.path)) = true) (hty : TyAt c x.path tyDaqmxRaw)
    (hids : ∀ dg ty n sc w, x.idx = some (.daq dg ty n sc w) → ty = tyDaqmxRaw ∧ ∀ s ∈ sc, s.scaleId ∈ idsF F x.path)
    (h : CInvAll F Q c) : CInvAll F Q (addDaqmxObj e bufs c x) := by
  unfold addDaqmxObj
  cases hi : x.idx with
  | none => exact h
  | some d =>
    cases d with
    | std ty n total => exact h
    | daq dg ty n sc w =>
      obtain ⟨hraw, hmem⟩ := hids dg ty n sc w hi
      subst hraw
      simp only [if_true]
      suffices hs : ∀ (scs : List ScalerEnc) (c' : Content), (∀ s ∈ scs, s.scaleId ∈ idsF F x.path) →
          c'.any (fun o => decide (o.path = x.path)) = true → TyAt c' x.path tyDaqmxRaw → CInvAll F Q c' →
          CInvAll F Q (scs.foldl (fun c s => c.modify x.path fun o =>
            { o with scalers := appendScaler o.scalers s.scaleId ((bufs.getD s.buffer []).map (scalerValue e dg s)) }) c') from
        hs sc c hmem hpres hty h
      intro scs
      induction scs with
      | nil => intro c' _ _ _ h'; exact h'
      | cons s ss ih =>
        intro c' hm hp' ht' h'
        rw [List.foldl_cons]
        have hsv : SameView c' (c'.modify x.path fun o =>
            { o with scalers := appendScaler o.scalers s.scaleId ((bufs.getD s.buffer []).map (scalerValue e dg s)) }) :=
          sameView_modify (fun _ => ⟨rfl, rfl, rfl⟩) hp'
        apply ih _ (fun s' hs' => hm s' (List.mem_cons_of_mem _ hs')) (by rw [hsv.any_path]; exact hp')
          (tyAt_sameView hsv ht')
        apply modify_forall_at (CInv F Q) h'
        · intro y hy hyp
          have hyt := ht' y hy hyp
          have hc := h' y hy
          refine ⟨fun h1 => ?_, fun _ => ?_, fun t h1 h2 => ?_⟩
          · rw [show ({ y with scalers := _ } : ObjContent).ty = y.ty from rfl, hyt] at h1; cases h1
          · obtain ⟨hv, hs', hrest⟩ := hc.raw hyt
            refine ⟨hv, ?_, hrest⟩
            show (appendScaler y.scalers s.scaleId _).map (·.1) = idsF F y.path
            rw [ids_appendScaler, hs', hyp, if_pos (hm s List.mem_cons_self)]
          · rw [show ({ y with scalers := _ } : ObjContent).ty = y.ty from rfl, hyt] at h1
            cases h1; exact absurd rfl h2
        · intro habs; rw [habs] at hp'; cases hp'

theorem cinv_daqChunk (F : ScF) (Q : Bytes → Prop) (e : Endian) (ch : List (List Bytes)) : ∀ (d : List ActiveObj) (c : Content),
    (∀ x ∈ d, c.any (fun o => decide (o.path = x.path)) = true ∧ TyAt c x.path tyDaqmxRaw ∧
      ∀ dg ty n sc w, x.idx = some (.daq dg ty n sc w) → ty = tyDaqmxRaw ∧ ∀ s ∈ sc, s.scaleId ∈ idsF F x.path) →
    CInvAll F Q c → CInvAll F Q (d.foldl (addDaqmxObj e ch) c) := by
  intro d
  induction d with
  | nil => intro c _ h; exact h
  | cons x xs ih =>
    intro c hd h
    rw [List.foldl_cons]
    obtain ⟨hp, ht, hi⟩ := hd x List.mem_cons_self
    have hsv := sameView_addDaqmxObj e ch c x hp
    apply ih
    · intro y hy
      obtain ⟨hp', ht', hi'⟩ := hd y (List.mem_cons_of_mem _ hy)
      exact ⟨by rw [hsv.any_path]; exact hp', tyAt_sameView hsv ht', hi'⟩
    · exact cinv_addDaqmxObj F Q e ch c x hp ht hi h

/-! ## one segment -/

/-- what the chunk phase needs to know about the data objects of the segment -/
def DataTyped (F : ScF) (c : Content) (d : List ActiveObj) : Prop :=
  ∀ x ∈ d, c.any (fun o => decide (o.path = x.path)) = true ∧
    ((∃ t, t ≠ tyDaqmxRaw ∧ TyAt c x.path t) ∨
     (TyAt c x.path tyDaqmxRaw ∧
      ∀ dg ty n sc w, x.idx = some (.daq dg ty n sc w) → ty = tyDaqmxRaw ∧ ∀ s ∈ sc, s.scaleId ∈ idsF F x.path))

theorem cinv_chunks (F : ScF) (Q : Bytes → Prop) (s : SegEnc) (a : List ActiveObj) :
    ∀ (chs : List (List (List Bytes))) (c : Content),
      (∀ x ∈ a, c.any (fun o => decide (o.path = x.path)) = true) →
      ((dataObjs a).any isDaqmxObj = false →
        ∀ x ∈ dataObjs a, ∃ t, t ≠ tyDaqmxRaw ∧ TyAt c x.path t) →
      ((dataObjs a).any isDaqmxObj = true →
        ∀ x ∈ dataObjs a, TyAt c x.path tyDaqmxRaw ∧
          ∀ dg ty n sc w, x.idx = some (.daq dg ty n sc w) → ty = tyDaqmxRaw ∧ ∀ s ∈ sc, s.scaleId ∈ idsF F x.path) →
      CInvAll F Q c → CInvAll F Q (chs.foldl (addChunk s a) c) := by
  intro chs
  induction chs with
  | nil => intro c _ _ _ h; exact h
  | cons ch chs ih =>
    intro c hpres hstd hdaq h
    rw [List.foldl_cons]
    have hsv := sameView_addChunk s a c ch hpres
    have hmem : ∀ x ∈ dataObjs a, x ∈ a := fun x hx => (List.mem_filter.mp hx).1
    apply ih
    · intro x hx; rw [hsv.any_path]; exact hpres x hx
    · intro hq x hx
      obtain ⟨t, hne, ht⟩ := hstd hq x hx
      exact ⟨t, hne, tyAt_sameView hsv ht⟩
    · intro hq x hx
      obtain ⟨ht, hi⟩ := hdaq hq x hx
      exact ⟨tyAt_sameView hsv ht, hi⟩
    · cases hq : (dataObjs a).any isDaqmxObj with
      | false =>
        rw [addChunk_std s a hq]
        exact cinv_addStdChunk F Q _ _ _ (fun x hx => ⟨hpres x (hmem x hx), hstd hq x hx⟩) h
      | true =>
        rw [addChunk_daq s a hq]
        exact cinv_daqChunk F Q _ _ _ _ (fun x hx => ⟨hpres x (hmem x hx), hdaq hq x hx⟩) h

/-- **`CInv` through one segment of the class** -/
theorem cinv_denoteSeg (F : ScF) (Q : Bytes → Prop) (last' : LastIdx) (s : SegEnc) (a : List ActiveObj) (c : Content)
    (hok : SegOKD GoodDesc F s a) (hnd : (a.map (·.path)).Nodup)
    (hidx : ∀ x ∈ a, x.idx = last'.get x.path)
    (hlisted : s.hasMeta = true → ∀ o ∈ s.objs, o.path ∈ a.map (·.path))
    (hhas : ∀ x ∈ a, x.hasData = true → x.idx ≠ none) (hQ : ∀ x ∈ a, isDaqmxObj x = true → Q x.path)
    (htc : TyCons last' c) (h : CInvAll F Q c) : CInvAll F Q (denoteSeg c s a) := by
  have hpresA : ∀ x ∈ a, (declareObjs c a).any (fun o => decide (o.path = x.path)) = true :=
    fun x hx => declareObjs_present a c x.path (Or.inr (List.mem_map.2 ⟨x, hx, rfl⟩))
  have hmem : ∀ x ∈ dataObjs a, x ∈ a ∧ x.hasData = true := by
    intro x hx; simpa [dataObjs] using hx
  have h1 := cinv_declareObjs F Q last' a c hidx hok.good hQ htc h
  -- types of the data objects after the declaration
  have hstd0 : (dataObjs a).any isDaqmxObj = false →
      ∀ x ∈ dataObjs a, ∃ t, t ≠ tyDaqmxRaw ∧ TyAt (declareObjs c a) x.path t := by
    intro hq x hx
    obtain ⟨hxa, hxd⟩ := hmem x hx
    cases hi : x.idx with
    | none => exact absurd hi (hhas x hxa hxd)
    | some d =>
      rcases goodD_ty (hok.good x hxa d hi) with ⟨ty, n, total, rfl, hne⟩ | ⟨dg, n, sc, w, rfl, _⟩
      · exact ⟨ty, hne, tyAt_declareObjs a c hnd x hxa _ hi⟩
      · have := List.any_eq_false.mp hq x hx
        simp [isDaqmxObj, hi] at this
  have hdaq0 : (dataObjs a).any isDaqmxObj = true →
      ∀ x ∈ dataObjs a, TyAt (declareObjs c a) x.path tyDaqmxRaw ∧
        ∀ dg ty n sc w, x.idx = some (.daq dg ty n sc w) → ty = tyDaqmxRaw ∧ ∀ s ∈ sc, s.scaleId ∈ idsF F x.path := by
    intro hq x hx
    obtain ⟨hxa, _⟩ := hmem x hx
    rcases hok.layout with hl | hl
    · rw [hl.noDaq] at hq; cases hq
    · obtain ⟨w0, hobj, _⟩ := hl.width
      obtain ⟨dg, n, sc, hi, hd⟩ := hobj x hx
      refine ⟨tyAt_declareObjs a c hnd x hxa _ hi, ?_⟩
      intro dg' ty' n' sc' w' hi'
      rw [hi] at hi'
      cases hi'
      refine ⟨rfl, ?_⟩
      intro s0 hs0
      simp only [idsF, hd.types, Option.getD_some, scTypesOf_ids]
      exact List.mem_map.2 ⟨s0, hs0, rfl⟩
  unfold denoteSeg
  simp only []
  by_cases hm : s.hasMeta = true
  · simp only [hm, if_true]
    have hpl : ∀ o ∈ s.objs, (declareObjs c a).any (fun x => decide (x.path = o.path)) = true :=
      fun o ho => declareObjs_present a c o.path (Or.inr (hlisted hm o ho))
    apply cinv_chunks F Q s a s.chunks
    · exact fun x hx => applyProps_present _ _ _ (hpresA x hx)
    · intro hq x hx
      obtain ⟨t, hne, ht⟩ := hstd0 hq x hx
      exact ⟨t, hne, tyAt_applyProps _ _ _ _ hpl ht⟩
    · intro hq x hx
      obtain ⟨ht, hi⟩ := hdaq0 hq x hx
      exact ⟨tyAt_applyProps _ _ _ _ hpl ht, hi⟩
    · exact cinv_applyProps F Q _ _ h1
  · have hm' : s.hasMeta = false := by simpa using hm
    simp only [hm', Bool.false_eq_true, if_false]
    exact cinv_chunks F Q s a s.chunks _ hpresA hstd0 hdaq0 h1

end Tdms.Proofs.C01Layouts
