/-
  C03 — lazy window reads against the eager chunk stream: composition of the C04 window theorem
  with the C03 segment lemmas.  Core Lean only.
-/
import TdmsProofs.Lemmas.C03Stream
import TdmsProofs.Lemmas.C04WindowMain

namespace Tdms.Proofs.C03

open Tdms Tdms.Generated Tdms.Model Tdms.Proofs.Bytes Tdms.Proofs.C04 Tdms.Proofs.C01Compose

/-- **the invariant on one channel of the reader state**: the channel is known, the layout the lazy
    reader derives for it from the segments is well formed (a truncated final chunk holds at most
    one chunk's worth of values, and exists), and `num_values` is the sum over the segments -/
structure ChanOk (objects : ObjMetas) (segs : List Segment) (p : Bytes) (m : ObjMeta) : Prop where
  get : objects.get p = some m
  wf : WellFormed (segs.map (layoutOf p))
  num : m.numValues = total (segs.map (layoutOf p))

/-- the channel's eager values as a function of the file and the segments -/
def eagerVals (file : Bytes) (segs : List Segment) (p : Bytes) : List Bytes :=
  streamVals (eagerChunksAll file segs) p

/-- the pure window over the chunk lists the segment reads really return is the slice of the
    eager values -/
theorem windowPureG_actual_eager (f : OpenFile) (p : Bytes) (m : ObjMeta)
    (hok : SegsOk f.file f.segments) (hc : ChanOk f.objects f.segments p m)
    (offset : Int) (length : Option Int) (h0 : 0 ≤ offset) (hl : ∀ l, length = some l → 0 ≤ l) :
    dataOf (windowPureG f.segments p m.numValues (supActual f.file f.segments p) offset length)
      = takeOpt length ((eagerVals f.file f.segments p).drop offset.toNat) := by
  rw [windowPureG_actual f.file f.segments p m.numValues hok hc.wf hc.num offset length h0,
    window_eq_slice_segments f.segments p _ m.numValues hc.wf (valsOk_chanVals f.file f.segments p hok hc.wf)
      hc.num offset length h0 hl,
    full_eq_stream f.file f.segments p hok hc.wf]
  rfl

/-- the chunks `read_raw_data_for_channel(path, offset, length)` yields carry
    `eager[offset : offset + length]` -/
theorem readRawDataForChannel_window (f : OpenFile) (p : Bytes) (m : ObjMeta)
    (hok : SegsOk f.file f.segments) (hc : ChanOk f.objects f.segments p m)
    (offset : Int) (length : Option Int) (h0 : 0 ≤ offset) (hl : ∀ l, length = some l → 0 ≤ l) (st : FState) :
    ∃ cs st', (readRawDataForChannel f p offset length).run st = .ok (cs, st') ∧
      dataOf cs = takeOpt length ((eagerVals f.file f.segments p).drop offset.toNat) := by
  have hnum : ((f.objects.get p).map (·.numValues)).getD 0 = m.numValues := by rw [hc.get]; rfl
  have hreads := readsAs_actual f p m.numValues hok hc.wf hc.num offset length h0
  have hreads' := hreads
  rw [← hnum] at hreads'
  obtain ⟨st', hrun⟩ := readRawDataForChannel_eq_windowPureG f p offset length _ hreads' st
  rw [hnum] at hrun
  refine ⟨_, st', hrun, ?_⟩
  rw [windowPureG_actual f.file f.segments p m.numValues hok hc.wf hc.num offset length h0,
    window_eq_slice_segments f.segments p _ m.numValues hc.wf (valsOk_chanVals f.file f.segments p hok hc.wf)
      hc.num offset length h0 hl,
    full_eq_stream f.file f.segments p hok hc.wf]
  rfl

/-- `read_data(offset, length)` returns `eager[offset : offset + length]` -/
theorem channelReadData_window (f : OpenFile) (p : Bytes) (m : ObjMeta)
    (hok : SegsOk f.file f.segments) (hc : ChanOk f.objects f.segments p m) (hty : m.dataType.isSome = true)
    (offset : Int) (length : Option Int) (h0 : 0 ≤ offset) (hl : ∀ l, length = some l → 0 ≤ l) (st : FState) :
    ∃ st' r, (channelReadData f p offset length).run st = .ok (some r, st') ∧
      r.data.getD [] = takeOpt length ((eagerVals f.file f.segments p).drop offset.toNat) := by
  have hreads := readsAs_actual f p m.numValues hok hc.wf hc.num offset length h0
  obtain ⟨st', r, hrun, hr⟩ := channelReadData_eq_windowPure f p m offset length _ hc.get hty h0 hl hreads st
  refine ⟨st', r, hrun, ?_⟩
  rw [hr, windowPureG_actual f.file f.segments p m.numValues hok hc.wf hc.num offset length h0,
    window_eq_slice_segments f.segments p _ m.numValues hc.wf (valsOk_chanVals f.file f.segments p hok hc.wf)
      hc.num offset length h0 hl,
    full_eq_stream f.file f.segments p hok hc.wf]
  rfl

/-- under `SegsOk` the eager read of the file holds `eagerVals` -/
theorem readFile_eagerVals (file : Bytes) (r : EagerResult) (h : readFile file = .ok r)
    (hok : SegsOk file r.state.segments) (p : Bytes) :
    valuesIn r.channels p = eagerVals file r.state.segments p := by
  obtain ⟨chunks, fs, _, hrun, hv⟩ := readFile_values file r h
  obtain ⟨st', h2⟩ := readRawDataAll_exact file r.state.segments hok {}
  have : (readRawDataAll file r.state.segments).run {} = .ok (eagerChunksAll file r.state.segments, st') := h2
  rw [this] at hrun
  simp only [Except.ok.injEq, Prod.mk.injEq] at hrun
  rw [hv p, ← hrun.1]
  rfl

theorem eagerVals_length (file : Bytes) (segs : List Segment) (p : Bytes) (hok : SegsOk file segs)
    (hwf : WellFormed (segs.map (layoutOf p))) : (eagerVals file segs p).length = total (segs.map (layoutOf p)) := by
  unfold eagerVals
  rw [← full_eq_stream file segs p hok hwf]
  exact full_length _ _ hwf (valsOk_chanVals file segs p hok hwf)

end Tdms.Proofs.C03
