import TdmsProofs.Lemmas.C19Readers

/-! # C19: one channel, one chunk; one channel, one segment -/

namespace Tdms.Proofs.C19

open Tdms Tdms.Model Tdms.Generated Tdms.Proofs.C05

/-- the byte range `(start, length)` of channel `p` inside chunk `j` of a contiguous segment whose
    chunk starts at `cur`: the data objects in front of it are skipped exactly as
    `ContiguousDataReader._read_channel_data_chunk` skips them -/
def channelSpan (s : Segment) (j : Nat) (p : Bytes) : List SegObj → Nat → Option (Nat × Nat)
  | [], _ => none
  | o :: os, cur =>
    if o.path = p then some (cur, channelNumberValues s o j * (o.dataType.bind typeSize).getD 0)
    else if channelNumberValues s o j = o.numberValues then channelSpan s j p os (cur + o.dataSize)
    else match o.dataType.bind typeSize with
      | some sz => channelSpan s j p os (cur + sz * channelNumberValues s o j)
      | none => none

theorem tr_readChannelChunkContiguous (file : Bytes) (s : Segment) (j : Nat) (p : Bytes) (os : List SegObj)
    (hsized : ∀ o ∈ os, o.path = p → ∃ sz, o.dataType.bind typeSize = some sz) (cur : Nat) :
    Tr (fun _ => True) (readChannelChunkContiguous file s j p os cur)
      (fun x => ∃ a len, channelSpan s j p os cur = some (a, len) ∧ a ≤ x.1 ∧ x.1 + x.2 ≤ a + len)
      (((channelSpan s j p os cur).map (·.2)).getD 0) (fun _ _ => True) := by
  induction os generalizing cur with
  | nil => unfold readChannelChunkContiguous; exact Tr.pure _ (fun _ _ => trivial)
  | cons o os ih =>
    have ih := ih (fun o' ho' => hsized o' (List.mem_cons_of_mem _ ho'))
    unfold readChannelChunkContiguous channelSpan
    dsimp only
    by_cases hp : o.path = p
    · obtain ⟨sz, hsz⟩ := hsized o (List.mem_cons_self ..) hp
      rw [if_pos hp, if_pos hp, hsz]
      simp only [Option.getD_some, Option.map_some]
      refine Tr.bind (B1 := 0) (B2 := channelNumberValues s o j * sz) (Q := fun _ c => c = cur)
        (Tr.fSeek cur rfl) (fun _ => ?_) (by omega)
      refine Tr.bind (B1 := channelNumberValues s o j * sz) (B2 := 0) (Q := fun _ _ => True)
        ((span_readValues_sized file s.endian o _ sz hsz cur).conseq (fun _ h => h)
          (fun x hx => ⟨cur, _, rfl, hx.1, hx.2⟩) (Nat.le_refl _) (fun _ _ _ => trivial))
        (fun vals => Tr.pure _ (fun _ _ => trivial)) (by omega)
    · rw [if_neg hp, if_neg hp]
      by_cases hn : channelNumberValues s o j = o.numberValues
      · rw [if_pos hn, if_pos hn]
        exact ih _
      · rw [if_neg hn, if_neg hn]
        cases hsz : o.dataType.bind typeSize with
        | some sz => dsimp only; exact ih _
        | none =>
          dsimp only
          refine Tr.ite (fun _ => Tr.throw _) (fun _ => Tr.ite (fun _ => Tr.pure _ (fun _ _ => trivial)) (fun _ => Tr.throw _))

theorem channelSpan_len (s : Segment) (j : Nat) (p : Bytes) (os : List SegObj) (c c' : Nat) :
    (channelSpan s j p os c).map (·.2) = (channelSpan s j p os c').map (·.2) := by
  induction os generalizing c c' with
  | nil => rfl
  | cons o os ih =>
    unfold channelSpan
    split
    · rfl
    · split
      · exact ih _ _
      · split
        · exact ih _ _
        · rfl

/-- where the reads of one chunk may fall, for a chunk that starts at `c` -/
def ChunkAllowed (s : Segment) (kind : ReaderKind) (d : List SegObj) (p : Bytes) (j c : Nat) (x : Nat × Nat) : Prop :=
  match kind with
  | .daqmx => c ≤ x.1 ∧ x.1 + x.2 ≤ c + daqmxChunkBytes d
  | _ => ∃ a len, channelSpan s j p d c = some (a, len) ∧ a ≤ x.1 ∧ x.1 + x.2 ≤ a + len

/-- how many bytes one chunk may cost -/
def chunkBudget (s : Segment) (kind : ReaderKind) (d : List SegObj) (p : Bytes) (j : Nat) : Nat :=
  match kind with
  | .daqmx => daqmxChunkBytes d
  | _ => ((channelSpan s j p d 0).map (·.2)).getD 0

theorem tr_readChannelChunkAt (file : Bytes) (s : Segment) (kind : ReaderKind) (d : List SegObj) (p : Bytes)
    (hsized : kind ≠ .daqmx → ∀ o ∈ d, o.path = p → ∃ sz, o.dataType.bind typeSize = some sz) (j c : Nat) :
    Tr (fun c' => c' = c) (readChannelChunkAt file s kind d p j) (ChunkAllowed s kind d p j c)
      (chunkBudget s kind d p j) (fun _ _ => True) := by
  have hcont : kind ≠ .daqmx → Tr (fun c' => c' = c) (do let cur ← fTell; readChannelChunkContiguous file s j p d cur)
      (fun x => ∃ a len, channelSpan s j p d c = some (a, len) ∧ a ≤ x.1 ∧ x.1 + x.2 ≤ a + len)
      (((channelSpan s j p d 0).map (·.2)).getD 0) (fun _ _ => True) := by
    intro hk
    have hsized := hsized hk
    refine Tr.bind (B1 := 0) (Q := fun cur _ => cur = c) (Tr.fTell (fun c' h => h)) (fun cur => ?_) (Nat.le_of_eq (Nat.zero_add _))
    apply Tr.of_forall_pos
    intro c₁ hc₁
    subst hc₁
    rw [channelSpan_len s j p d 0 cur]
    exact (tr_readChannelChunkContiguous file s j p d hsized cur).conseq (fun _ _ => trivial) (fun _ h => h)
      (Nat.le_refl _) (fun _ _ h => h)
  unfold readChannelChunkAt
  cases kind with
  | daqmx =>
    dsimp only [ChunkAllowed, chunkBudget]
    refine Tr.bind (B2 := 0) (Q := fun _ _ => True)
      ((span_readDaqmxChunk file s d j c).conseq (fun _ h => h) (fun _ h => h) (Nat.le_refl _) (fun _ _ _ => trivial))
      (fun _ => Tr.pure _ (fun _ _ => trivial)) (Nat.le_refl _)
  | interleaved => exact hcont (by intro h; cases h)
  | contiguous => exact hcont (by intro h; cases h)

/-- sum of the budgets of chunks `co + i .. co + i + fuel - 1` -/
def chunksBudget (s : Segment) (kind : ReaderKind) (d : List SegObj) (p : Bytes) (co i fuel : Nat) : Nat :=
  ((List.range fuel).map fun t => chunkBudget s kind d p (co + (i + t))).sum

theorem chunksBudget_succ (s : Segment) (kind : ReaderKind) (d : List SegObj) (p : Bytes) (co i fuel : Nat) :
    chunksBudget s kind d p co i (fuel + 1) = chunkBudget s kind d p (co + i) + chunksBudget s kind d p co (i + 1) fuel := by
  unfold chunksBudget
  rw [List.range_succ_eq_map, List.map_cons, List.sum_cons, List.map_map]
  congr 2
  apply List.map_congr_left
  intro t _
  simp only [Function.comp]
  congr 1
  omega

theorem tr_readChannelChunksFrom (file : Bytes) (s : Segment) (kind : ReaderKind) (d : List SegObj) (p : Bytes)
    (hsized : kind ≠ .daqmx → ∀ o ∈ d, o.path = p → ∃ sz, o.dataType.bind typeSize = some sz)
    (cs initial co : Nat) (stop : Int) (fuel i : Nat) :
    Tr (fun c => c = initial + i * cs) (readChannelChunksFrom file s kind d p cs initial co stop fuel i)
      (fun x => ∃ i', i ≤ i' ∧ i' < i + fuel ∧ ChunkAllowed s kind d p (co + i') (initial + i' * cs) x)
      (chunksBudget s kind d p co i fuel) (fun _ _ => True) := by
  induction fuel generalizing i with
  | zero => unfold readChannelChunksFrom; exact Tr.pure _ (fun _ _ => trivial)
  | succ fuel ih =>
    unfold readChannelChunksFrom
    refine Tr.ite (fun _ => ?_) (fun _ => Tr.pure _ (fun _ _ => trivial))
    rw [chunksBudget_succ]
    refine Tr.bind (Q := fun _ _ => True)
      ((tr_readChannelChunkAt file s kind d p hsized (co + i) (initial + i * cs)).conseq (fun _ h => h)
        (fun x hx => ⟨i, Nat.le_refl _, by omega, hx⟩) (Nat.le_refl _) (fun _ _ h => h))
      (fun c => ?_) (Nat.le_refl _)
    refine Tr.bind (B1 := 0) (Q := fun _ c' => c' = initial + (i + 1) * cs) (Tr.fSeek _ rfl) (fun _ => ?_)
      (Nat.le_of_eq (Nat.zero_add _))
    refine Tr.bind (B2 := 0) (Q := fun _ _ => True)
      ((ih (i + 1)).conseq (fun _ h => h)
        (fun x ⟨i', h1, h2, h3⟩ => ⟨i', by omega, by omega, h3⟩) (Nat.le_refl _) (fun _ _ h => h))
      (fun _ => Tr.pure _ (fun _ _ => trivial)) (Nat.le_refl _)

end Tdms.Proofs.C19
