/-
  C06, the cut theorem for the general multi-segment class: the raw data of the cut segment — the complete chunks,
  then (when the cut is inside a chunk) the truncated one, of which every object gets the prefix the final chunk
  lengths assign (nothing when a string channel is present).  Generalises `C06WholeData.lean` from first-segment
  object lists to active lists.  Core Lean only.
-/
import TdmsProofs.Lemmas.C06GenStep

namespace Tdms.Proofs.C06Gen

open Tdms Tdms.Generated Tdms.Model Tdms.Proofs.C02 Tdms.Proofs.C01Multi Tdms.Proofs.C01Marker
open Tdms.Proofs.Bytes (contOK setCols F_bind_ok F_pure drop_add_of_drop_eq fRead_of_drop aTy)
open Tdms.Proofs.C01Compose (pairsChunk)
open Tdms.Proofs.C06Whole (dataPosOf readContiguousChunk_complete readContiguousChunk_fit readContiguousChunk_zero
  fitOK_of_cfl channelNumberValues_none channelNumberValues_not_last channelNumberValues_last)

/-- the encoder of one chunk of the segment -/
abbrev encChA (s : SegEnc) (a : List ActiveObj) : List (List Bytes) → Bytes :=
  encChunkContiguous s.endian (dataObjs a)

theorem encChA_length (s : SegEnc) (a : List ActiveObj) (h : SegOK s a) (ch : List (List Bytes)) (hc : ch ∈ s.chunks) :
    (encChA s a ch).length = chunkBytesA a :=
  (chunk_facts s.endian (dataObjs a) ch (good_dataObjs h.good) (h.chunks ch hc)).2

/-- number of values of the path `p` read from the truncated chunk -/
def lensA (s : SegEnc) (a : List ActiveObj) (k : Nat) (p : Bytes) : Nat := overrideGet (ovA a (cutRA s a k)) p

/-- the values read from the truncated chunk: a prefix of every data object's values in that chunk -/
def lastChunkA (s : SegEnc) (a : List ActiveObj) (k : Nat) : List (List Bytes) :=
  List.zipWith (fun (x : ActiveObj) v => v.take (lensA s a k x.path)) (dataObjs a) (s.chunks.getD (cutQA s a k) [])

/-- the chunks the reader yields for the cut segment, as value lists -/
def cutChunksA (s : SegEnc) (a : List ActiveObj) (k : Nat) : List (List (List Bytes)) :=
  s.chunks.take (cutQA s a k) ++ (if cutRA s a k = 0 then [] else [lastChunkA s a k])

/-- … as raw chunks -/
def rawChunksCut (s : SegEnc) (a : List ActiveObj) (k : Nat) : List RawChunk :=
  (if !s.rawFlag then [[]] else []) ++ (cutChunksA s a k).map fun ch => pairsChunk (pairsOf (dataObjs a) ch)

/-- the raw data region of the cut segment: the complete chunks, then `cutRA` bytes of the rest -/
theorem drop_data_cutA (s : SegEnc) (b : Bool) (a : List ActiveObj) (h : SegOK s a) (k : Nat)
    (hk : dataPosOf s ≤ k) (hkL : k ≤ (encodeSeg s a).length) :
    ((encodeSeg (setU b s) a).take k).drop (dataPosOf s) =
      (s.chunks.take (cutQA s a k)).flatMap (encChA s a) ++
        ((s.chunks.drop (cutQA s a k)).flatMap (encChA s a)).take (cutRA s a k) := by
  have hq := cutQA_le s a h k hk hkL
  have hli28 := encLeadIn_length tagData (setU b s) (segMeta s).length (encRaw s a).length rfl
  have hdp : dataPosOf s = 28 + (segMeta s).length := rfl
  have hlenA : ((s.chunks.take (cutQA s a k)).flatMap (encChA s a)).length = cutQA s a k * chunkBytesA a := by
    rw [C01Compose.flatMap_length_const _ _ (chunkBytesA a)
      (fun ch hc => encChA_length s a h ch (List.mem_of_mem_take hc)), List.length_take, Nat.min_eq_left hq]
  have h1 : (encodeSeg (setU b s) a).take k = encLeadIn tagData (setU b s) (segMeta s).length (encRaw s a).length ++
      (segMeta s ++ (encRaw s a).take (k - dataPosOf s)) := by
    rw [encodeSeg_setU, List.take_append, hli28, List.take_of_length_le (by rw [hli28]; omega),
      List.take_append, List.take_of_length_le (by omega)]
    congr 3
    omega
  rw [h1, ← List.append_assoc, List.drop_left' (by rw [List.length_append, hli28, hdp]),
    encRaw_contig s a h.std.contiguous (not_daq_of_good h.good)]
  conv => lhs; rw [← List.take_append_drop (cutQA s a k) s.chunks, List.flatMap_append]
  have hkk : k - dataPosOf s = ((s.chunks.take (cutQA s a k)).flatMap (encChA s a)).length + cutRA s a k := by
    rw [hlenA]; have := cut_div_modA s a k hk; omega
  rw [hkk, List.take_length_add_append]

/-- `q` complete chunks, then whatever the reader does with the remaining `m` chunks -/
theorem readChunksSeq_thenA (file : Bytes) (seg : Segment) (objs : List SegObj) (d : List ActiveObj) (m : Nat)
    (cs : List RawChunk) :
    ∀ (chs : List (List (List Bytes))) (i pos : Nat) (tr : List (Nat × Nat)) (rest : Bytes),
      (∀ ch ∈ chs, contOK objs d ch) →
      (∀ j, i ≤ j → j < i + chs.length → ∀ o, channelNumberValues seg o j = o.numberValues) →
      file.drop pos = chs.flatMap (encChunkContiguous seg.endian d) ++ rest →
      (∀ tr1, ∃ st', (readChunksSeq file seg .contiguous objs (i + chs.length) m).run
          ⟨pos + (chs.flatMap (encChunkContiguous seg.endian d)).length, tr1⟩ = .ok (cs, st')) →
      ∃ st', (readChunksSeq file seg .contiguous objs i (chs.length + m)).run ⟨pos, tr⟩ =
        .ok (chs.map (setCols [] objs) ++ cs, st') := by
  intro chs
  induction chs with
  | nil =>
    intro i pos tr rest _ _ _ htail
    obtain ⟨st', h⟩ := htail tr
    refine ⟨st', ?_⟩
    simpa using h
  | cons ch chs ih =>
    intro i pos tr rest hok hnv hfile htail
    simp only [List.flatMap_cons, List.append_assoc] at hfile
    obtain ⟨tr1, h1⟩ := readContiguousChunk_complete file seg i objs d ch [] pos tr _
      (hnv i (Nat.le_refl _) (by simp)) (hok ch List.mem_cons_self) hfile
    obtain ⟨st2, h2⟩ := ih (i + 1) (pos + (encChunkContiguous seg.endian d ch).length) tr1 rest
      (fun c hc => hok c (List.mem_cons_of_mem _ hc))
      (fun j hj1 hj2 => hnv j (by omega) (by simp only [List.length_cons]; omega))
      (drop_add_of_drop_eq hfile)
      (by
        intro tr2
        obtain ⟨st', h⟩ := htail tr2
        refine ⟨st', ?_⟩
        simp only [List.flatMap_cons, List.length_append, List.length_cons] at h
        have e1 : i + 1 + chs.length = i + (chs.length + 1) := by omega
        rw [e1, Nat.add_assoc]
        exact h)
    refine ⟨st2, ?_⟩
    have hlen : (ch :: chs).length + m = (chs.length + m) + 1 := by simp only [List.length_cons]; omega
    rw [hlen]
    show readChunksSeq file seg .contiguous objs i (chs.length + m + 1) ⟨pos, tr⟩ = _
    unfold readChunksSeq
    simp only
    have h1' : readContiguousChunk file seg i objs [] ⟨pos, tr⟩ = _ := h1
    have h2' : readChunksSeq file seg .contiguous objs (i + 1) (chs.length + m)
      ⟨pos + (encChunkContiguous seg.endian d ch).length, tr1⟩ = _ := h2
    rw [F_bind_ok h1', F_bind_ok h2']
    simp only [F_pure, List.map_cons, List.cons_append]

/-- the data objects of a segment with a chunk, none of which is unsized, have fixed-width types -/
theorem aTy_ne_string_of_sized (s : SegEnc) (a : List ActiveObj) (h : SegOK s a) (hne : s.chunks ≠ [])
    (hs : anyUnsized a = false) : ∀ x ∈ dataObjs a, aTy x ≠ tyString := by
  intro x hx e
  obtain ⟨ty, n, total, hi⟩ := dataObjs_idx_of_chunk s a h hne x hx
  have hty : ty = tyString := by simpa [aTy, hi, IdxDesc.ty] using e
  unfold anyUnsized at hs
  rw [filter_hasData_conc, List.any_eq_false] at hs
  apply hs (concObj x) (List.mem_map.mpr ⟨x, hx, rfl⟩)
  rw [concObj_dataType, hi]
  simp [IdxDesc.ty, hty, Tdms.Proofs.Bytes.typeSize_tyString]

/-- the truncated chunk -/
theorem readContiguousChunk_lastA (s : SegEnc) (a : List ActiveObj) (h : SegOK s a) (hnd : (a.map (·.path)).Nodup)
    (k : Nat) (seg : Segment) (file rest : Bytes) (pos : Nat)
    (tr : List (Nat × Nat)) (hq : cutQA s a k < s.chunks.length)
    (hend : seg.endian = s.endian) (hov : seg.override = some (ovA a (cutRA s a k)))
    (hnum : cutQA s a k + 1 = seg.numChunks)
    (hfile : (file.drop pos).take (cutRA s a k) = (encChA s a s.chunks[cutQA s a k] ++ rest).take (cutRA s a k)) :
    ∃ st', (readContiguousChunk file seg (cutQA s a k) ((dataObjs a).map concObj) []).run ⟨pos, tr⟩ =
      .ok (setCols [] ((dataObjs a).map concObj) (lastChunkA s a k), st') := by
  have hmem : s.chunks[cutQA s a k] ∈ s.chunks := List.getElem_mem hq
  have hne : s.chunks ≠ [] := by intro h0; rw [h0] at hq; simp at hq
  have hok : contOK ((dataObjs a).map concObj) (dataObjs a) s.chunks[cutQA s a k] :=
    (chunk_facts s.endian (dataObjs a) _ (good_dataObjs h.good) (h.chunks _ hmem)).1
  have hcn : ∀ o ∈ (dataObjs a).map concObj,
      channelNumberValues seg o (cutQA s a k) = lensA s a k o.path := by
    intro o _
    rw [channelNumberValues_last seg o (cutQA s a k) _ hov hnum]
    rfl
  have hlast : List.zipWith (fun (o : SegObj) v => v.take (lensA s a k o.path)) ((dataObjs a).map concObj)
      s.chunks[cutQA s a k] = lastChunkA s a k := by
    unfold lastChunkA
    rw [List.zipWith_map_left, Tdms.Proofs.C06Whole.getD_of_lt _ _ _ hq]
    simp only [concObj_path]
  rw [← hlast]
  cases hs : anyUnsized a with
  | true =>
    exact readContiguousChunk_zero file seg (cutQA s a k) (lensA s a k) _ _ _ [] pos tr hok hcn
      (fun o _ => by simp [lensA, ovA, hs, Tdms.Proofs.C06.overrideGet_nil])
  | false =>
    have hfil := filter_hasData_conc a
    have hall : Tdms.Proofs.C06.allSized (a.map concObj) := by
      intro o ho hdat
      have hmem' : o ∈ (a.map concObj).filter (·.hasData) := List.mem_filter.mpr ⟨ho, by simpa using hdat⟩
      have hs' := hs
      unfold anyUnsized at hs'
      rw [List.any_eq_false] at hs'
      have h3 := hs' o hmem'
      rw [hfil] at hmem'
      obtain ⟨x, hx, rfl⟩ := List.mem_map.mp hmem'
      obtain ⟨ty, n, total, hi⟩ := dataObjs_idx_of_chunk s a h hne x hx
      rw [concObj_dataType, hi] at h3 ⊢
      cases hsz : typeSize ty with
      | none => simp [IdxDesc.ty, hsz] at h3
      | some sz => exact ⟨ty, sz, rfl, hsz⟩
    have hndp : (((a.map concObj).filter (·.hasData)).map (·.path)).Nodup := by
      rw [hfil, map_concObj_paths]
      exact dataObjs_nodup hnd
    have hfit := fitOK_of_cfl (a.map concObj) (cutRA s a k) (Tdms.Proofs.C06.allSized_objSz_pos hall) hndp
      ((dataObjs a).map concObj) [] (by rw [hfil]; rfl)
    have hfl : lensA s a k = overrideGet (contiguousFinalLengths (a.map concObj) (cutRA s a k)) := by
      funext p; simp [lensA, ovA, hs]
    rw [← hfl] at hfit
    simp only [Tdms.Proofs.C06.totalBytes, List.map_nil, List.sum_nil, Nat.sub_zero] at hfit
    exact readContiguousChunk_fit file seg (cutQA s a k) (lensA s a k) _ _ _ [] pos tr (cutRA s a k) rest hok
      (aTy_ne_string_of_sized s a h hne hs) hcn hfit (by rw [hend]; exact hfile)

/-- all chunks of the cut segment: the complete ones, then (when the cut is inside a chunk) the truncated one -/
theorem readChunksSeq_cutA (file : Bytes) (pos : Nat) (s : SegEnc) (b : Bool) (a : List ActiveObj) (h : SegOK s a)
    (hnd : (a.map (·.path)).Nodup) (k : Nat) (hk : dataPosOf s ≤ k) (hkL : k ≤ (encodeSeg s a).length)
    (hfile : file.drop pos = (encodeSeg (setU b s) a).take k) (tr : List (Nat × Nat)) :
    ∃ st', (readChunksSeq file (cutRec pos s b a k) .contiguous ((dataObjs a).map concObj) 0
        (cutRec pos s b a k).numChunks).run ⟨pos + dataPosOf s, tr⟩ =
      .ok ((cutChunksA s a k).map (setCols [] ((dataObjs a).map concObj)), st') := by
  have hfd : file.drop (pos + dataPosOf s) = (s.chunks.take (cutQA s a k)).flatMap (encChA s a) ++
      ((s.chunks.drop (cutQA s a k)).flatMap (encChA s a)).take (cutRA s a k) := by
    rw [← List.drop_drop, hfile]
    exact drop_data_cutA s b a h k hk hkL
  have hqle := cutQA_le s a h k hk hkL
  have hrpos := cutRA_pos_imp s a h k hk hkL
  have hend : (cutRec pos s b a k).endian = s.endian := Tdms.Proofs.Bytes.segEndian_of_tocMask s
  have hok : ∀ ch ∈ s.chunks.take (cutQA s a k), contOK ((dataObjs a).map concObj) (dataObjs a) ch :=
    fun ch hch => (chunk_facts s.endian (dataObjs a) ch (good_dataObjs h.good)
      (h.chunks ch (List.mem_of_mem_take hch))).1
  have hlt : (s.chunks.take (cutQA s a k)).length = cutQA s a k := by
    rw [List.length_take, Nat.min_eq_left hqle]
  by_cases hr : cutRA s a k = 0
  · have hnum : (cutRec pos s b a k).numChunks = (s.chunks.take (cutQA s a k)).length + 0 := by
      simp [cutRec, hr, hlt]
    have hcc : cutChunksA s a k = s.chunks.take (cutQA s a k) := by simp [cutChunksA, hr]
    rw [hnum, hcc]
    have := readChunksSeq_thenA file (cutRec pos s b a k) ((dataObjs a).map concObj) (dataObjs a) 0 []
      (s.chunks.take (cutQA s a k)) 0 (pos + dataPosOf s) tr _ hok
      (fun j _ _ o => channelNumberValues_none _ o j (by simp [cutRec, hr]))
      (by rw [hend]; exact hfd) (fun tr1 => ⟨_, rfl⟩)
    simpa using this
  · obtain ⟨_, _, _, hq⟩ := hrpos hr
    have hnum : (cutRec pos s b a k).numChunks = (s.chunks.take (cutQA s a k)).length + 1 := by
      simp [cutRec, hr, hlt]
    have hcc : cutChunksA s a k = s.chunks.take (cutQA s a k) ++ [lastChunkA s a k] := by simp [cutChunksA, hr]
    rw [hnum, hcc, List.map_append]
    refine readChunksSeq_thenA file (cutRec pos s b a k) ((dataObjs a).map concObj) (dataObjs a) 1
      [setCols [] ((dataObjs a).map concObj) (lastChunkA s a k)] (s.chunks.take (cutQA s a k)) 0
      (pos + dataPosOf s) tr _ hok
      (fun j _ hj o => channelNumberValues_not_last _ o j (by rw [hnum]; omega))
      (by rw [hend]; exact hfd) ?_
    intro tr1
    rw [hend, hlt, Nat.zero_add]
    have hd := drop_add_of_drop_eq hfd
    have hdq : s.chunks.drop (cutQA s a k) = s.chunks[cutQA s a k] :: s.chunks.drop (cutQA s a k + 1) :=
      List.drop_eq_getElem_cons hq
    rw [hdq, List.flatMap_cons] at hd
    obtain ⟨st1, h1⟩ := readContiguousChunk_lastA s a h hnd k (cutRec pos s b a k) file _
      (pos + dataPosOf s + ((s.chunks.take (cutQA s a k)).flatMap (encChA s a)).length) tr1 hq hend
      (by simp [cutRec, hr]) (by simp [cutRec, hr])
      (by rw [hd, List.take_take, Nat.min_self])
    refine ⟨st1, ?_⟩
    show readChunksSeq file (cutRec pos s b a k) .contiguous ((dataObjs a).map concObj) (cutQA s a k) (0 + 1) _ = _
    unfold readChunksSeq
    simp only
    have h1' : readContiguousChunk file (cutRec pos s b a k) (cutQA s a k) ((dataObjs a).map concObj) []
      ⟨pos + dataPosOf s + ((s.chunks.take (cutQA s a k)).flatMap (encChA s a)).length, tr1⟩ = _ := h1
    rw [F_bind_ok h1']
    simp only [readChunksSeq]
    rw [F_bind_ok (F_pure _ _)]
    rfl

/-- **the raw data of the cut segment**, from any file state -/
theorem segment_data_cut (file : Bytes) (pos : Nat) (s : SegEnc) (b : Bool) (a : List ActiveObj) (k : Nat)
    (hk : dataPosOf s ≤ k) (hkL : k ≤ (encodeSeg s a).length)
    (hfile : file.drop pos = (encodeSeg (setU b s) a).take k) (hok : SegOK s a) (hnd : (a.map (·.path)).Nodup)
    (st : FState) :
    ∃ st', (do verifySegmentStart file (cutRec pos s b a k); segmentReadRawData file (cutRec pos s b a k) : F _) st =
      .ok (rawChunksCut s a k, st') := by
  have hli28 := encLeadIn_length tagData (setU b s) (segMeta s).length (encRaw s a).length rfl
  have hdp : dataPosOf s = 28 + (segMeta s).length := rfl
  -- the tag
  have htag : file.drop (⟨pos, st.trace⟩ : FState).pos = tagData ++
      ((encLE 4 (tocMask s) ++ enc s.endian 4 s.version ++
        enc s.endian 8 (if b then 2 ^ 64 - 1 else (segMeta s).length + (encRaw s a).length) ++
        enc s.endian 8 (segMeta s).length) ++ (segMeta s ++ (encRaw s a).take (k - dataPosOf s))) := by
    show file.drop pos = _
    rw [hfile, encodeSeg_setU, List.take_append, hli28, List.take_of_length_le (by rw [hli28]; omega),
      List.take_append, List.take_of_length_le (by omega)]
    have : k - 28 - (segMeta s).length = k - dataPosOf s := by omega
    rw [this]
    simp only [encLeadIn, List.append_assoc]
    rfl
  obtain ⟨tr', hseq⟩ := readChunksSeq_cutA file pos s b a hok hnd k hk hkL hfile (st.trace ++ [(pos, 4)])
  have hkind : dataReaderKind (cutRec pos s b a k) = .ok .contiguous :=
    dataReaderKind_conc _ a hok.good rfl (by
      show hasFlag (tocMask s) kTocInterleavedData = false
      rw [Tdms.Proofs.Bytes.hasFlag_tocMask_interleaved, hok.std.contiguous])
  have hverify : verifySegmentStart file (cutRec pos s b a k) st = .ok ((), ⟨pos + 4, st.trace ++ [(pos, 4)]⟩) := by
    have hread : fRead file 4 ⟨pos, st.trace⟩ = .ok (tagData, ⟨pos + 4, st.trace ++ [(pos, 4)]⟩) :=
      fRead_of_drop htag
    unfold verifySegmentStart
    have hseek : fSeek (cutRec pos s b a k).position st = .ok ((), ⟨pos, st.trace⟩) := rfl
    rw [F_bind_ok hseek, F_bind_ok hread]
    simp [F_pure]
  have hsegread : segmentReadRawData file (cutRec pos s b a k) ⟨pos + 4, st.trace ++ [(pos, 4)]⟩ =
      .ok (rawChunksCut s a k, tr') := by
    unfold segmentReadRawData
    have hseek : fSeek (cutRec pos s b a k).dataPosition ⟨pos + 4, st.trace ++ [(pos, 4)]⟩ =
        .ok ((), ⟨pos + dataPosOf s, st.trace ++ [(pos, 4)]⟩) := rfl
    have hlift : Tdms.Model.liftE (dataReaderKind (cutRec pos s b a k))
        ⟨pos + dataPosOf s, st.trace ++ [(pos, 4)]⟩ =
        .ok (.contiguous, ⟨pos + dataPosOf s, st.trace ++ [(pos, 4)]⟩) := by
      rw [hkind]; rfl
    have hd : (cutRec pos s b a k).objects.filter (·.hasData) = (dataObjs a).map concObj := filter_hasData_conc a
    have hflagraw : hasFlag (cutRec pos s b a k).toc kTocRawData = s.rawFlag :=
      Tdms.Proofs.Bytes.hasFlag_tocMask_raw s
    simp only []
    rw [F_bind_ok hseek, F_bind_ok hlift]
    simp only [hd]
    have hseq' : readChunksSeq file (cutRec pos s b a k) .contiguous ((dataObjs a).map concObj) 0
      (cutRec pos s b a k).numChunks ⟨pos + dataPosOf s, st.trace ++ [(pos, 4)]⟩ = _ := hseq
    rw [F_bind_ok hseq']
    simp only [F_pure, rawChunksCut, hflagraw]
    congr 2
    congr 1
    apply List.map_congr_left
    intro ch _
    exact setCols_conc (dataObjs a) ch (dataObjs_nodup hnd)
  exact ⟨tr', by rw [F_bind_ok hverify, hsegread]⟩

end Tdms.Proofs.C06Gen
