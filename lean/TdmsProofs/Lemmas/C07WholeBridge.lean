/-
  C07 whole: small lemmas for the headline file (bytes of all segments, the writer accepts writable programs,
  lookups in a `setProp` dictionary).  Core Lean only.
-/
import TdmsProofs.Lemmas.C07WholePromised

namespace Tdms.Proofs.C07Whole

open Tdms Tdms.Generated Tdms.Model Tdms.Model.Writer Tdms.Proofs.C08 Tdms.Proofs.C01Multi

theorem emitted_of_programSegs {prog : Program} {Ls : List (List (List WObj))}
    (h : programSegs prog = some Ls) : emitted prog = Ls.flatten := by
  simp [emitted, h]

theorem zipEncode_written (v : Nat) : ∀ (segs : List (List WObj)) (last : LastIdx),
    (∀ objs ∈ segs, WritableObjs objs) →
    zipEncode encodeSeg (segs.map (segOfW v)) (actsOfW last segs) = segs.flatMap (writeSegment false v) := by
  intro segs
  induction segs with
  | nil => intro _ _; rfl
  | cons objs rest ih =>
    intro last hw
    rw [List.map_cons, actsOfW, zipEncode, List.flatMap_cons,
      encodeSeg_segOfW v objs _ (actsFor_map last objs) (hw objs List.mem_cons_self).2.1,
      ih _ (fun o ho => hw o (List.mem_cons_of_mem _ ho))]

theorem mem_written {prog : Program} {objs : List WObj} {o : WObj} (h1 : objs ∈ emitted prog) (h2 : o ∈ objs) :
    o ∈ written prog := List.mem_flatten.2 ⟨objs, h1, h2⟩

/-- a writable program is accepted by the writer -/
theorem writeProgram_of_writable (v : Nat) (prog : Program) (hW : WritableProgram prog) :
    ∃ d i, writeProgram v prog = some (d, i) := by
  unfold WritableProgram at hW
  rw [writeProgram_eq]
  cases hp : programSegs prog with
  | none => rw [hp] at hW; exact hW.elim
  | some Ls => exact ⟨_, _, rfl⟩

theorem find_setProp (ps : List PropEnc) (q : PropEnc) (n : Bytes) :
    (setProp ps q).find? (·.name = n) = if q.name = n then some q else ps.find? (·.name = n) := by
  unfold setProp
  split
  · rename_i hany
    induction ps with
    | nil => simp at hany
    | cons a as ih =>
      rw [List.map_cons, List.find?_cons, List.find?_cons]
      by_cases ha : a.name = q.name
      · simp only [ha, if_true]
        by_cases hq : q.name = n
        · simp [hq]
        · simp only [hq, decide_false, if_false]
          by_cases hany' : as.any (·.name = q.name) = true
          · simpa [hq] using ih hany'
          · have : as.map (fun x => if x.name = q.name then q else x) = as := by
              conv => rhs; rw [← List.map_id as]
              apply List.map_congr_left
              intro x hx
              have : ¬ x.name = q.name := by
                intro e; exact hany' (List.any_eq_true.2 ⟨x, hx, by simpa using e⟩)
              simp [this]
            rw [this]
      · simp only [ha, if_false]
        have hany' : as.any (·.name = q.name) = true := by
          simpa [List.any_cons, ha] using hany
        by_cases han : a.name = n
        · have : ¬ q.name = n := fun e => ha (han.trans e.symm)
          simp [han, this]
        · simp only [han, decide_false]
          exact ih hany'
  · rename_i hany
    rw [List.find?_append]
    by_cases hq : q.name = n
    · have : ps.find? (·.name = n) = none := by
        rw [List.find?_eq_none]
        intro x hx
        simp only [decide_eq_true_eq]
        intro e
        exact hany (List.any_eq_true.2 ⟨x, hx, by simpa using e.trans hq.symm⟩)
      simp [hq, this]
    · simp [hq]

/-- **last write wins**: looking a property name up in the dictionary built from a sequence of writes gives
    the last write of that name -/
theorem find_foldl_setProp (ps : List PropEnc) (n : Bytes) : ∀ acc : List PropEnc,
    (ps.foldl setProp acc).find? (·.name = n) =
      match ps.reverse.find? (·.name = n) with
      | some q => some q
      | none => acc.find? (·.name = n) := by
  induction ps with
  | nil => intro acc; rfl
  | cons q qs ih =>
    intro acc
    rw [List.foldl_cons, ih, List.reverse_cons, List.find?_append]
    cases qs.reverse.find? (·.name = n) with
    | some r => rfl
    | none =>
      simp only [Option.none_or, find_setProp, List.find?_cons, List.find?_nil]
      by_cases hq : q.name = n <;> simp [hq]

end Tdms.Proofs.C07Whole
