/-
  C01 with DAQmx segments: `readRawDataAll` over the `Segment` records of a file whose segments are standard
  (contiguous or interleaved) or DAQmx.  The frame of `segmentReadRawData` (verify the tag, seek, choose the
  reader) is factored out (`segment_frame`); the three layouts supply the chunk sequence.  Core Lean only.
-/
import TdmsProofs.Lemmas.C01LayoutsDaqChunk

namespace Tdms.Proofs.C01Layouts

open Tdms Tdms.Generated Tdms.Model Tdms.Proofs.C02 Tdms.Proofs.C01Multi
open Tdms.Proofs.Bytes (colsOK aTy rowWidth setCols F_bind_ok F_pure drop_add_of_drop_eq fRead_of_drop contOK)
open Tdms.Proofs.C01Compose (pairsChunk)

/-! ## the frame -/

theorem raw_drop (file : Bytes) (pos : Nat) (s : SegEnc) (a : List ActiveObj) (rest : Bytes)
    (hfile : file.drop pos = encodeSeg s a ++ rest) :
    file.drop (pos + 28 + (segMeta s).length) = encRaw s a ++ rest := by
  have hsplit := encodeSeg_split s a
  have hli28 := encLeadIn_length tagData s (segMeta s).length (encRaw s a).length rfl
  have h28 : file.drop (pos + 28) = segMeta s ++ (encRaw s a ++ rest) := by
    rw [← List.drop_drop, hfile, hsplit, List.append_assoc, List.drop_left' hli28, List.append_assoc]
  rw [← List.drop_drop, h28, List.drop_left]

/-- `verifySegmentStart` then `segmentReadRawData` on the record of an encoded segment: the tag is there,
    the reader of kind `kind` is run at the data position -/
theorem segment_frame (file : Bytes) (pos : Nat) (s : SegEnc) (a : List ActiveObj) (rest : Bytes)
    (hfile : file.drop pos = encodeSeg s a ++ rest) (kind : ReaderKind)
    (hkind : dataReaderKind (segRec pos s a) = .ok kind) (st : FState) (chunks : List RawChunk) (st1 : FState)
    (hread : (match kind with
        | .interleaved => readInterleavedChunks file (segRec pos s a) ((dataObjs a).map concObj) s.chunks.length
        | k => readChunksSeq file (segRec pos s a) k ((dataObjs a).map concObj) 0 s.chunks.length)
      ⟨pos + 28 + (segMeta s).length, st.trace ++ [(pos, 4)]⟩ = .ok (chunks, st1)) :
    (do verifySegmentStart file (segRec pos s a); segmentReadRawData file (segRec pos s a) : Tdms.Model.F _) st =
      .ok ((if !s.rawFlag then [[]] else []) ++ chunks, st1) := by
  have hsplit := encodeSeg_split s a
  have htag : file.drop (⟨pos, st.trace⟩ : FState).pos = tagData ++ (encLE 4 (tocMask s) ++ enc s.endian 4 s.version ++
      enc s.endian 8 (if s.lengthUnknown then 2 ^ 64 - 1 else (segMeta s).length + (encRaw s a).length) ++
      enc s.endian 8 (segMeta s).length ++ (segMeta s ++ encRaw s a) ++ rest) := by
    show file.drop pos = _
    rw [hfile, hsplit]; simp [encLeadIn]
  have hverify : verifySegmentStart file (segRec pos s a) st = .ok ((), ⟨pos + 4, st.trace ++ [(pos, 4)]⟩) := by
    have hread' : fRead file 4 ⟨pos, st.trace⟩ = .ok (tagData, ⟨pos + 4, st.trace ++ [(pos, 4)]⟩) :=
      fRead_of_drop htag
    unfold verifySegmentStart
    have hseek : fSeek (segRec pos s a).position st = .ok ((), ⟨pos, st.trace⟩) := rfl
    rw [F_bind_ok hseek, F_bind_ok hread']
    simp [F_pure]
  have hsegread : segmentReadRawData file (segRec pos s a) ⟨pos + 4, st.trace ++ [(pos, 4)]⟩ =
      .ok ((if !s.rawFlag then [[]] else []) ++ chunks, st1) := by
    unfold segmentReadRawData
    have hseek : fSeek (segRec pos s a).dataPosition ⟨pos + 4, st.trace ++ [(pos, 4)]⟩ =
        .ok ((), ⟨pos + 28 + (segMeta s).length, st.trace ++ [(pos, 4)]⟩) := rfl
    have hlift : Tdms.Model.liftE (dataReaderKind (segRec pos s a))
        ⟨pos + 28 + (segMeta s).length, st.trace ++ [(pos, 4)]⟩ =
        .ok (kind, ⟨pos + 28 + (segMeta s).length, st.trace ++ [(pos, 4)]⟩) := by
      rw [hkind]; rfl
    have hd : (segRec pos s a).objects.filter (·.hasData) = (dataObjs a).map concObj := filter_hasData_conc a
    have hflagraw : hasFlag (segRec pos s a).toc kTocRawData = s.rawFlag :=
      Tdms.Proofs.Bytes.hasFlag_tocMask_raw s
    have hk : (segRec pos s a).numChunks = s.chunks.length := rfl
    simp only []
    rw [F_bind_ok hseek, F_bind_ok hlift]
    simp only [hd, hk]
    cases kind <;> (simp only [] at hread ⊢; rw [F_bind_ok hread]; simp only [F_pure, hflagraw])
  rw [F_bind_ok hverify, hsegread]

/-! ## which reader -/

theorem dataReaderKind_daq (seg : Segment) (a : List ActiveObj) (hobjs : seg.objects = a.map concObj)
    (hne : dataObjs a ≠ []) (h : ∀ x ∈ dataObjs a, isDaqmxObj x = true) : dataReaderKind seg = .ok .daqmx := by
  simp [dataReaderKind, hobjs, haveDaqmxObjects_true a hne h, bind, Except.bind, pure, Except.pure]

theorem dataReaderKind_contigD (seg : Segment) (a : List ActiveObj) (hobjs : seg.objects = a.map concObj)
    (h : (dataObjs a).any isDaqmxObj = false) (hint : hasFlag seg.toc kTocInterleavedData = false) :
    dataReaderKind seg = .ok .contiguous := by
  simp [dataReaderKind, hobjs, haveDaqmxObjects_false a h, haveInterleavedData, hint, bind,
    Except.bind, pure, Except.pure]

theorem dataReaderKind_interD (seg : Segment) (a : List ActiveObj) (hobjs : seg.objects = a.map concObj)
    (h : (dataObjs a).any isDaqmxObj = false) (hfix : ∀ x ∈ dataObjs a, FixedObj x)
    (hint : hasFlag seg.toc kTocInterleavedData = true) : dataReaderKind seg = .ok .interleaved := by
  have h1 : ((dataObjs a).map concObj).any (fun o => o.dataType.isNone) = false := by
    simp only [List.any_eq_false, List.mem_map]
    rintro o ⟨x, hx, rfl⟩
    obtain ⟨ty, sz, hty, _⟩ := concObj_fixed (hfix x hx)
    simp [hty]
  have h2 : ((dataObjs a).map concObj).filter (fun o => (o.dataType.bind typeSize).isNone) = [] := by
    rw [List.filter_eq_nil_iff]
    rintro o ho
    obtain ⟨x, hx, rfl⟩ := List.mem_map.mp ho
    obtain ⟨ty, sz, hty, hsz⟩ := concObj_fixed (hfix x hx)
    simp [hty, hsz]
  simp [dataReaderKind, hobjs, haveDaqmxObjects_false a h, haveInterleavedData, hint, bind,
    Except.bind, pure, Except.pure, filter_hasData_conc, h1, h2]

/-! ## DAQmx: chunk by chunk -/

theorem readChunksSeq_daq (F : ScF) (file : Bytes) (seg : Segment) (hov : seg.override = none)
    (d : List ActiveObj) (W : List Nat) (dims : List (Nat × Nat)) (hobj : ∀ x ∈ d, DaqObj F W x)
    (hdims : bufferDimensions (d.map concObj) = .ok dims) :
    ∀ (chs : List (List (List Bytes))) (i : Nat) (st : FState) (rest : Bytes),
      (∀ c ∈ chs, DaqChunkOK W d c ∧ Tdms.Proofs.C11.RowsConform c dims) →
      file.drop st.pos = chs.flatMap encChunkDaqmx ++ rest →
      ∃ st', (readChunksSeq file seg .daqmx (d.map concObj) i chs.length).run st =
        .ok (chs.map (fun c => bmChunk seg.endian d 0 c []), st') := by
  intro chs
  induction chs with
  | nil => intro i st rest _ _; exact ⟨st, rfl⟩
  | cons ch chs ih =>
    intro i st rest hch hfile
    obtain ⟨hck, hc⟩ := hch _ List.mem_cons_self
    simp only [List.flatMap_cons, List.append_assoc] at hfile
    obtain ⟨st1, h1, hpos⟩ := readDaqmxChunk_encChunk F file seg hov d W dims hobj hdims ch hck hc i st _ hfile
    have hfile2 : file.drop st1.pos = chs.flatMap encChunkDaqmx ++ rest := by
      rw [hpos]; exact drop_add_of_drop_eq hfile
    obtain ⟨st2, h2⟩ := ih (i + 1) st1 rest (fun c hc => hch c (List.mem_cons_of_mem _ hc)) hfile2
    refine ⟨st2, ?_⟩
    show readChunksSeq file seg .daqmx (d.map concObj) i (chs.length + 1) st = _
    unfold readChunksSeq
    simp only
    have h2' : readChunksSeq file seg .daqmx (d.map concObj) (i + 1) chs.length st1 = _ := h2
    rw [F_bind_ok h1, F_bind_ok h2']
    simp only [F_pure, List.map_cons]

/-! ## one segment -/

/-- the chunks the reader yields for a segment of the class -/
def rawChunksOfSegD (s : SegEnc) (a : List ActiveObj) : List RawChunk :=
  if (dataObjs a).any isDaqmxObj then
    (if !s.rawFlag then [[]] else []) ++ s.chunks.map fun c => bmChunk s.endian (dataObjs a) 0 c []
  else rawChunksOfSegI s a

/-- **the raw data of one segment of the class**, from any file state -/
theorem segment_dataD (F : ScF) (file : Bytes) (pos : Nat) (s : SegEnc) (a : List ActiveObj) (rest : Bytes)
    (hfile : file.drop pos = encodeSeg s a ++ rest) (hok : SegOKD GoodDesc F s a)
    (hnd : (a.map (·.path)).Nodup) (st : FState) :
    ∃ st', (do verifySegmentStart file (segRec pos s a); segmentReadRawData file (segRec pos s a) : Tdms.Model.F _) st =
      .ok (rawChunksOfSegD s a, st') := by
  have hdrop := raw_drop file pos s a rest hfile
  have hend : (segRec pos s a).endian = s.endian := Tdms.Proofs.Bytes.segEndian_of_tocMask s
  have hflagI : hasFlag (segRec pos s a).toc kTocInterleavedData = s.interleaved :=
    Tdms.Proofs.Bytes.hasFlag_tocMask_interleaved s
  have hdnd := dataObjs_nodup hnd
  rcases hok.layout with hl | hl
  · -- standard layouts
    have hg := stdGood_of_layout hok.good hl
    have hraw : rawChunksOfSegD s a = rawChunksOfSegI s a := by simp [rawChunksOfSegD, hl.noDaq]
    rw [hraw]
    cases hi : s.interleaved with
    | false =>
      rw [encRaw_contig s a hi hl.noDaq] at hdrop
      have hcont : ∀ ch ∈ s.chunks, contOK ((dataObjs a).map concObj) (dataObjs a) ch :=
        fun ch hch => (chunk_facts s.endian (dataObjs a) ch hg (hl.chunks ch hch)).1
      obtain ⟨tr', hseq⟩ := readChunksSeq_conc file (segRec pos s a) rfl ((dataObjs a).map concObj) (dataObjs a)
        s.chunks 0 (pos + 28 + (segMeta s).length) (st.trace ++ [(pos, 4)]) rest hcont (by rw [hend]; exact hdrop)
      have hkind := dataReaderKind_contigD (segRec pos s a) a rfl hl.noDaq (by rw [hflagI, hi])
      refine ⟨⟨pos + 28 + (segMeta s).length +
        (s.chunks.flatMap (encChunkContiguous (segRec pos s a).endian (dataObjs a))).length, tr'⟩, ?_⟩
      rw [segment_frame file pos s a rest hfile .contiguous hkind st _ _ hseq]
      simp only [rawChunksOfSegI, hi, Bool.false_eq_true, if_false]
      congr 2
      congr 1
      apply List.map_congr_left
      intro ch _
      exact setCols_conc (dataObjs a) ch hdnd
    | true =>
      rw [encRaw_inter s a hi hl.noDaq] at hdrop
      obtain ⟨st1, hseq⟩ := readInterleaved_segment file (segRec pos s a) (dataObjs a) (hl.inter hi) s.chunks
        hl.chunks hdnd (pos + 28 + (segMeta s).length) (st.trace ++ [(pos, 4)]) rest
        (by rw [hend]; exact hdrop)
      have hkind := dataReaderKind_interD (segRec pos s a) a rfl hl.noDaq (hl.inter hi).fixed (by rw [hflagI, hi])
      refine ⟨st1, ?_⟩
      rw [segment_frame file pos s a rest hfile .interleaved hkind st _ _ hseq]
      simp only [rawChunksOfSegI, hi, if_true]
  · -- DAQmx
    have hany := daqLayout_any hl
    obtain ⟨W, dims, hobj, hdims, hch⟩ := bufferDimensions_daq hl
    have hencraw : encRaw s a = s.chunks.flatMap encChunkDaqmx := by
      unfold encRaw
      congr 1
      funext c
      exact encChunk_daq s a hany c
    rw [hencraw] at hdrop
    have hdims' : bufferDimensions ((dataObjs a).map concObj) = .ok dims := by
      rw [← filter_hasData_conc, bufferDimensions_filter]; exact hdims
    obtain ⟨st1, hseq⟩ := readChunksSeq_daq F file (segRec pos s a) rfl (dataObjs a) W dims hobj hdims'
      s.chunks 0 ⟨pos + 28 + (segMeta s).length, st.trace ++ [(pos, 4)]⟩ rest hch hdrop
    have hkind := dataReaderKind_daq (segRec pos s a) a rfl hl.nonempty (fun x hx => daqObj_isDaq (hobj x hx))
    refine ⟨st1, ?_⟩
    rw [segment_frame file pos s a rest hfile .daqmx hkind st _ _ hseq]
    simp only [rawChunksOfSegD, hany, if_true, hend]

/-! ## all segments -/

def rawChunksAllD : List SegEnc → List (List ActiveObj) → List RawChunk
  | s :: ss, a :: as => rawChunksOfSegD s a ++ rawChunksAllD ss as
  | _, _ => []

theorem readRawDataAll_multiD (F : ScF) (file : Bytes) :
    ∀ (ss : List SegEnc) (as : List (List ActiveObj)) (pos : Nat) (st : FState),
      SegsOKD GoodDesc F ss as → ActsNodup as → file.drop pos = zipEncode encodeSeg ss as →
      ∃ st', (readRawDataAll file (segRecs pos ss as)).run st = .ok (rawChunksAllD ss as, st') := by
  intro ss
  induction ss with
  | nil => intro as pos st _ _ _; cases as <;> exact ⟨st, rfl⟩
  | cons s ss ih =>
    intro as pos st hok hnd hfile
    cases as with
    | nil => cases hok
    | cons a as =>
      have hfile' : file.drop pos = encodeSeg s a ++ zipEncode encodeSeg ss as := hfile
      obtain ⟨st1, h1⟩ := segment_dataD F file pos s a _ hfile' hok.1 (hnd a List.mem_cons_self) st
      obtain ⟨st2, h2⟩ := ih as (pos + (encodeSeg s a).length) st1 hok.2
        (fun a' ha' => hnd a' (List.mem_cons_of_mem _ ha')) (drop_add_of_drop_eq hfile')
      refine ⟨st2, ?_⟩
      show readRawDataAll file (segRec pos s a :: segRecs (pos + (encodeSeg s a).length) ss as) st = _
      unfold readRawDataAll
      obtain ⟨u, sv, hv, h1'⟩ : ∃ u sv, verifySegmentStart file (segRec pos s a) st = .ok (u, sv) ∧
          segmentReadRawData file (segRec pos s a) sv = .ok (rawChunksOfSegD s a, st1) := by
        cases hv : verifySegmentStart file (segRec pos s a) st with
        | error err =>
          have : (do verifySegmentStart file (segRec pos s a); segmentReadRawData file (segRec pos s a) : Tdms.Model.F _) st =
              .error err := by
            show (StateT.bind _ _) st = _
            simp [StateT.bind, hv, bind, Except.bind]
          rw [this] at h1; cases h1
        | ok r =>
          obtain ⟨u, sv⟩ := r
          rw [F_bind_ok hv] at h1
          exact ⟨u, sv, rfl, h1⟩
      have h2' : readRawDataAll file (segRecs (pos + (encodeSeg s a).length) ss as) st1 = _ := h2
      rw [F_bind_ok hv, F_bind_ok h1', F_bind_ok h2']
      rfl

end Tdms.Proofs.C01Layouts
