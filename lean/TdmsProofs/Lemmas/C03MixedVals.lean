/-
  C03 (mixed files, windows) — the chunk contents `wVals` (contiguous: the lazily read chunk;
  interleaved: the slice of the eager column), the ACTUAL supplier `supW` (what `segReadChannel` returns:
  optional empty chunk, then the chunks one by one — contiguous — or ONE coalesced chunk — interleaved),
  and the three links to the C04 window theorem: `ValsOk`, `SupEquiv`, `ReadsAs`; the full array of C04
  is the concatenation of the eager values.  Core Lean only.
-/
import TdmsProofs.Lemmas.C03MixedInter
import TdmsProofs.Lemmas.C03MixedLoop
import TdmsProofs.Lemmas.C03Link

namespace Tdms.Proofs.C03

open Tdms Tdms.Generated Tdms.Model Tdms.Proofs.Bytes Tdms.Proofs.C04 Tdms.Proofs.C06

/-- values of channel `p` in chunk `j` of segment `s`, both layouts -/
def segWVals (file : Bytes) (s : Segment) (p : Bytes) (j : Nat) : List Bytes :=
  match dataReaderKind s with
  | .ok .interleaved =>
    if (layoutOf p s).cs = 0 then []
    else ((segE file s p).drop ((layoutOf p s).cs * j)).take (layoutOf p s).cs
  | _ => segChanVals file s p j

/-- the chunk contents for the C04 window theorem -/
def wVals (file : Bytes) (segs : List Segment) (p : Bytes) : Vals := fun i j =>
  match segs[i]? with
  | some s => segWVals file s p j
  | none => []

/-- what the lazy segment read returns, both layouts, any chunk range -/
def supWSeg (file : Bytes) (s : Segment) (p : Bytes) (co : Nat) (nc : Int) : List ChanChunk :=
  match dataReaderKind s with
  | .ok .interleaved => (if !hasFlag s.toc kTocRawData then [({} : ChanChunk)] else []) ++
      [({ data := some (((segE file s p).drop ((layoutOf p s).cs * co)).take ((layoutOf p s).cs * nc.toNat)) } : ChanChunk)]
  | _ => lazySegChunks file s (segCsz s) p co nc

def supW (file : Bytes) (segs : List Segment) (p : Bytes) : Supplier := fun i co nc =>
  match segs[i]? with
  | some s => supWSeg file s p co nc
  | none => []

/-! ## list facts -/

/-- consecutive slices of width `cs` concatenate to one slice -/
theorem flatten_slices {α : Type} (xs : List α) (cs : Nat) : ∀ (n co : Nat),
    ((List.range' co n).map fun j => (xs.drop (cs * j)).take cs).flatten = (xs.drop (cs * co)).take (cs * n) := by
  intro n
  induction n with
  | zero => intro co; simp
  | succ n ih =>
    intro co
    rw [List.range'_succ, List.map_cons, List.flatten_cons, ih (co + 1), Nat.mul_succ cs n, Nat.add_comm (cs * n) cs,
      List.take_add, List.drop_drop, Nat.mul_succ]

theorem chunkLen_zero (l : SegL) (hwf : l.WF) (hcs : l.cs = 0) (j : Nat) : l.chunkLen j = 0 := by
  unfold SegL.chunkLen
  unfold SegL.WF at hwf
  cases hf : l.f with
  | none => simp [hcs]
  | some n =>
    rw [hf] at hwf
    simp only []
    split
    · omega
    · exact hcs

/-- the optional empty chunk in front of a segment read does not change what is kept -/
theorem trimStream_pre (raw : Bool) (len : Int) (cs : List ChanChunk) (skip : Nat) (vr : Int)
    (h : raw = false → skip = 0) :
    dataOf (trimStream len ((if !raw then [({} : ChanChunk)] else []) ++ cs) skip vr).1 = dataOf (trimStream len cs skip vr).1 ∧
    (trimStream len ((if !raw then [({} : ChanChunk)] else []) ++ cs) skip vr).2 = (trimStream len cs skip vr).2 := by
  cases raw with
  | true => simp
  | false =>
    have := h rfl
    subst this
    simp only [Bool.not_false, if_true, List.singleton_append]
    exact trimStream_empty_cons _ _ _

/-! ## `ValsOk` -/

section
variable {file : Bytes} {s : Segment} (h : SegWOk file s) (p : Bytes)
include h

omit h in
theorem segWVals_contig (hc : ContigOk file s (segCsz s)) : segWVals file s p = segChanVals file s p := by
  funext j; unfold segWVals; rw [hc.kind]

theorem segWVals_length (hwf : (layoutOf p s).WF) (j : Nat) (hj : j < s.numChunks) :
    (segWVals file s p j).length = (layoutOf p s).chunkLen j := by
  by_cases hcs : (layoutOf p s).cs = 0
  · rw [chunkLen_zero _ hwf hcs]
    rcases h.data with hc | hi
    · rw [segWVals_contig p hc]; unfold segChanVals; rw [if_pos hcs]; rfl
    · unfold segWVals; rw [hi.kind]; simp only []; rw [if_pos hcs]; rfl
  · rcases h.data with hc | hi
    · rw [segWVals_contig p hc]
      exact (lazyChunk_vals (h.toOk hc) p hcs j hj).2
    · unfold segWVals
      rw [hi.kind]
      simp only []
      rw [if_neg hcs, List.length_take, List.length_drop]
      obtain ⟨o, hod, hop, _⟩ := layout_cs_obj hcs
      have hrows := hi.rows o hod
      rw [hop] at hrows
      rw [hrows, nvals_eq _ hwf (by omega), chunkLen_eq]
      have hfs := fs_le _ hwf
      have hk : (layoutOf p s).k = s.numChunks := rfl
      rw [hk, if_neg (by omega)]
      generalize (layoutOf p s).cs = cs at *
      generalize (layoutOf p s).fs = fs at *
      obtain ⟨k', hk'⟩ : ∃ k', s.numChunks = k' + 1 := ⟨s.numChunks - 1, by omega⟩
      rw [hk']
      simp only [Nat.add_sub_cancel]
      by_cases hlast : j = k'
      · subst hlast
        rw [if_pos rfl]
        omega
      · rw [if_neg (by omega)]
        have : cs * (j + 1) ≤ cs * k' := Nat.mul_le_mul_left _ (by omega)
        rw [Nat.mul_succ] at this
        omega

end

theorem valsOk_wVals (file : Bytes) (segs : List Segment) (p : Bytes) (hok : SegsWOk file segs)
    (hwf : WellFormed (segs.map (layoutOf p))) : ValsOk (segs.map (layoutOf p)) (wVals file segs p) := by
  intro i l hl j hj
  obtain ⟨s, hs, hmem, rfl⟩ := getElem?_map_layout hl
  unfold wVals
  rw [hs]
  exact segWVals_length (hok s hmem) p (hwf _ (List.mem_map_of_mem hmem)) j hj

/-! ## the supplier -/

theorem supEquiv_supW (file : Bytes) (segs : List Segment) (p : Bytes) (hok : SegsWOk file segs) :
    SupEquiv segs p (wVals file segs p) (supW file segs p) := by
  intro i s hs hcs co nc skip len vr h0 hin ht1 ht2
  have hso := hok s (List.mem_of_getElem? hs)
  have hpre : hasFlag s.toc kTocRawData = false → skip = 0 := by
    intro hr
    have hk := hso.noRaw hr
    have hn : nc.toNat = 0 := by omega
    rw [hn] at ht2
    simp only [List.range'_zero, List.map_nil, List.flatten_nil, TrimOk, List.length_nil] at ht2
    omega
  have hv : wVals file segs p i = segWVals file s p := by funext j; simp [wVals, hs]
  unfold supW
  rw [hs]
  simp only []
  rcases hso.data with hc | hi
  · have hsup : supWSeg file s p co nc = (if !hasFlag s.toc kTocRawData then [({} : ChanChunk)] else []) ++
        supOf (wVals file segs p) i co nc := by
      unfold supWSeg supOf lazySegChunks
      rw [hc.kind]
      simp only []
      congr 1
      apply List.map_congr_left
      intro j hj
      rw [List.mem_range'_1] at hj
      rw [(lazyChunk_vals (hso.toOk hc) p hcs j (by omega)).1, hv, segWVals_contig p hc]
    rw [hsup]
    exact trimStream_pre _ _ _ _ _ hpre
  · have hsup : supWSeg file s p co nc = (if !hasFlag s.toc kTocRawData then [({} : ChanChunk)] else []) ++
        wrap [((List.range' co nc.toNat).map (wVals file segs p i)).flatten] := by
      unfold supWSeg wrap
      rw [hi.kind]
      simp only [List.map_cons, List.map_nil]
      congr 4
      rw [hv]
      have : segWVals file s p = fun j => ((segE file s p).drop ((layoutOf p s).cs * j)).take (layoutOf p s).cs := by
        funext j; unfold segWVals; rw [hi.kind]; simp only []; rw [if_neg hcs]
      rw [this, flatten_slices]
    rw [hsup, supOf_eq_wrap]
    obtain ⟨a1, a2⟩ := trimStream_pre (hasFlag s.toc kTocRawData) len
      (wrap [((List.range' co nc.toNat).map (wVals file segs p i)).flatten]) skip vr hpre
    obtain ⟨b1, b2⟩ := trimStream_coalesce_one len _ skip vr ht1 ht2
    exact ⟨a1.trans b1, a2.trans b2⟩

/-- **the hypothesis of the C04 link lemma holds for every window of a mixed file**: each segment read
    the loop makes succeeds and returns `supW` -/
theorem readsAs_supW (f : OpenFile) (p : Bytes) (numValues : Nat) (hok : SegsWOk f.file f.segments)
    (hwf : WellFormed (f.segments.map (layoutOf p))) (hnum : numValues = total (f.segments.map (layoutOf p)))
    (offset : Int) (length : Option Int) (h0 : 0 ≤ offset) (hl : ∀ l, length = some l → 0 ≤ l) :
    ReadsAs f p numValues offset length (supW f.file f.segments p) := by
  unfold ReadsAs
  intro w i s hs h1 h2
  have hso := hok s (List.mem_of_getElem? hs)
  refine ⟨fun st => verifySegmentStart_okF hso.toF st, ?_⟩
  intro co skip nc hplan st
  obtain ⟨_, hnc0, hin⟩ := plan_nonneg f.segments p numValues hwf hnum offset length h0 hl i s hs h1 h2 co skip nc hplan
  have hcs := segPlan_cs hplan
  rcases hso.data with hc | hi
  · obtain ⟨st', h⟩ := segReadChannel_exact f.file s (segCsz s) hc p co.toNat nc hin st
    refine ⟨st', ?_⟩
    show segReadChannel f.file s p co.toNat (some nc) st = _
    rw [h]
    simp [supW, hs, supWSeg, hc.kind]
  · obtain ⟨st', h⟩ := segReadChannel_interW hso hi.toInterBase p hcs co.toNat nc hnc0 hin st
    refine ⟨st', ?_⟩
    show segReadChannel f.file s p co.toNat (some nc) st = _
    rw [h]
    simp [supW, hs, supWSeg, hi.kind]

/-! ## the full array is the concatenation of the eager values -/

section
variable {file : Bytes} {s : Segment} (h : SegWOk file s) (p : Bytes)
include h

/-- the channel's values in one segment, chunk by chunk, are what the eager reader holds -/
theorem segVals_wVals (hwf : (layoutOf p s).WF) :
    segVals (layoutOf p s) (segWVals file s p) = segE file s p := by
  rcases h.data with hc | hi
  · rw [segWVals_contig p hc]
    exact (segE_contig (⟨h.tag, h.nodup, h.noRaw, Or.inl hc⟩ : SegMOk file s) p hc hwf).symm
  · by_cases hcs : (layoutOf p s).cs = 0
    · unfold segVals
      rw [if_pos hcs]
      symm
      -- no values: the object is absent, or present with 0 values per chunk
      by_cases hmem : p ∈ (dataObjs s).map (·.path)
      · obtain ⟨o, hod, hop⟩ := List.mem_map.mp hmem
        apply List.eq_nil_of_length_eq_zero
        have := hi.rows o hod
        rw [hop] at this
        rw [this]
        unfold SegL.nvals
        rw [if_pos hcs]
      · obtain ⟨r, hr⟩ := hi.read
        obtain ⟨cs, pos'⟩ := r
        have hchunks : segChunksG file s = cs := by unfold segChunksG; rw [hi.kind, hr]
        obtain ⟨tr, hrun⟩ := interRead_run hr []
        unfold segE
        rw [hchunks]
        rcases readInterleaved_shape _ _ _ _ _ _ _ hrun with ⟨_, hcs'⟩ | ⟨cols, hcs', _, _, _, _⟩
        · rw [hcs']; rfl
        · rw [hcs']
          simp only [streamVals, List.flatMap_cons, List.flatMap_nil, List.append_nil]
          have hcv := chunkVals_setCols p (dataObjs s) cols h.nodupData
          have hcv' : chunkVals (setCols [] (List.filter (fun x => x.hasData) s.objects) cols) p = _ := hcv
          rw [hcv', get_setCols p (dataObjs s) cols h.nodupData, chanOf_of_not_mem p _ _ hmem]
          rfl
    · unfold segVals
      rw [if_neg hcs, List.range_eq_range']
      have : segWVals file s p = fun j => ((segE file s p).drop ((layoutOf p s).cs * j)).take (layoutOf p s).cs := by
        funext j; unfold segWVals; rw [hi.kind]; simp only []; rw [if_neg hcs]
      rw [this, flatten_slices, Nat.mul_zero, List.drop_zero]
      apply List.take_of_length_le
      obtain ⟨o, hod, hop, _⟩ := layout_cs_obj hcs
      have hrows := hi.rows o hod
      rw [hop] at hrows
      rw [hrows]
      exact (nvals_le _ hwf (by omega)).1

end

theorem fullFrom_wVals (file : Bytes) (p : Bytes) (vals : Vals) :
    ∀ (ss : List Segment) (i : Nat), SegsWOk file ss → WellFormed (ss.map (layoutOf p)) →
      (∀ t s, ss[t]? = some s → vals (i + t) = segWVals file s p) →
      fullFrom vals i (ss.map (layoutOf p)) = ss.flatMap fun s => segE file s p := by
  intro ss
  induction ss with
  | nil => intro i _ _ _; rfl
  | cons s ss ih =>
    intro i hok hwf hv
    simp only [List.map_cons, fullFrom, List.flatMap_cons]
    have h0 := hv 0 s (by simp)
    rw [Nat.add_zero] at h0
    have := ih (i + 1) (fun x hx => hok x (List.mem_cons_of_mem _ hx))
      (fun l hl => hwf l (by simp only [List.map_cons]; exact List.mem_cons_of_mem _ hl))
      (by intro t s' hs'
          have := hv (t + 1) s' (by simpa using hs')
          rw [show i + (t + 1) = i + 1 + t by omega] at this
          exact this)
    rw [this, h0, segVals_wVals (hok s List.mem_cons_self) p (hwf _ (by simp))]

/-- the eager values of the channel as a function of the file and the segments -/
def eagerW (file : Bytes) (segs : List Segment) (p : Bytes) : List Bytes := segs.flatMap fun s => segE file s p

/-- **the full array of the C04 window theorem is the concatenation of the eager values** -/
theorem full_wVals (file : Bytes) (segs : List Segment) (p : Bytes) (hok : SegsWOk file segs)
    (hwf : WellFormed (segs.map (layoutOf p))) :
    full (segs.map (layoutOf p)) (wVals file segs p) = eagerW file segs p := by
  unfold full eagerW
  apply fullFrom_wVals file p _ segs 0 hok hwf
  intro t s hs
  funext j
  simp [wVals, hs]

theorem eagerW_length (file : Bytes) (segs : List Segment) (p : Bytes) (hok : SegsWOk file segs)
    (hwf : WellFormed (segs.map (layoutOf p))) : (eagerW file segs p).length = total (segs.map (layoutOf p)) := by
  rw [← full_wVals file segs p hok hwf]
  exact full_length _ _ hwf (valsOk_wVals file segs p hok hwf)

/-- the eager read of a mixed file holds `eagerW` -/
theorem readFile_eagerW (file : Bytes) (r : EagerResult) (h : readFile file = .ok r)
    (hok : SegsWOk file r.state.segments) (p : Bytes) :
    Tdms.Proofs.C01Compose.valuesIn r.channels p = eagerW file r.state.segments p := by
  obtain ⟨chunks, fs, _, hrun, hv⟩ := readFile_values file r h
  obtain ⟨st', h2⟩ := readRawDataAll_G file r.state.segments hok.toF {}
  have : (readRawDataAll file r.state.segments).run {} = .ok (eagerChunksAllG file r.state.segments, st') := h2
  rw [this] at hrun
  simp only [Except.ok.injEq, Prod.mk.injEq] at hrun
  rw [hv p, ← hrun.1]
  unfold streamVals eagerChunksAllG eagerW
  generalize r.state.segments = segs
  induction segs with
  | nil => rfl
  | cons s ss ih =>
    rw [List.flatMap_cons, List.flatMap_append, ih, List.flatMap_cons]
    congr 1
    unfold segE streamVals
    rw [List.flatMap_append]
    have hpre : ((if !hasFlag s.toc kTocRawData then [([] : RawChunk)] else []).flatMap fun c => chunkVals c p) = [] := by
      split <;> simp [chunkVals_nil]
    rw [hpre, List.nil_append]

end Tdms.Proofs.C03
