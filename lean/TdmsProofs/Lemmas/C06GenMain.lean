/-
  C06, the cut theorem for the general multi-segment class: the file `pre ++ L :: post` cut `k` bytes into segment
  `L` (any `k`), and the decomposition of an arbitrary cut offset.  Core Lean only.
-/
import TdmsProofs.Lemmas.C06GenVals

namespace Tdms.Proofs.C06Gen

open Tdms Tdms.Generated Tdms.Model Tdms.Proofs.C02 Tdms.Proofs.C01Multi Tdms.Proofs.C01Marker
open Tdms.Proofs.Bytes (canonProp)
open Tdms.Proofs.C01Compose (pairsChunk bump valuesIn rcvWith content contentOfDenote ObjView)
open Tdms.Proofs.C06Whole (dataPosOf)

theorem activeLists_of_actsFrom : ∀ (ss : List SegEnc) (as : List (List ActiveObj)) (prev : Option (List ActiveObj))
    (last : LastIdx) (prev' : Option (List ActiveObj)) (last' : LastIdx),
    ActsFrom prev last ss as prev' last' → activeLists prev last ss = .ok as := by
  intro ss
  induction ss with
  | nil =>
    intro as prev last prev' last' h
    cases as with
    | nil => rfl
    | cons a as => exact absurd h (by simp [ActsFrom])
  | cons s ss ih =>
    intro as prev last prev' last' h
    cases as with
    | nil => exact absurd h (by simp [ActsFrom])
    | cons a as =>
      obtain ⟨l1, hact, h'⟩ := h
      simp only [activeLists, hact, ih as _ _ _ _ h']

/-- the active lists of a prefix of the file -/
theorem activeLists_prefix (pre : List SegEnc) (apre : List (List ActiveObj)) (L : SegEnc) (AL : List ActiveObj)
    (post : List SegEnc) (apost : List (List ActiveObj)) (hl : pre.length = apre.length)
    (h : activeLists none [] (pre ++ L :: post) = .ok (apre ++ AL :: apost)) :
    activeLists none [] (pre ++ [L]) = .ok (apre ++ [AL]) := by
  have h' : activeLists none [] ((pre ++ [L]) ++ post) = .ok (apre ++ AL :: apost) := by
    rw [List.append_assoc]; exact h
  obtain ⟨as, atl, prev', last', hsplit, hfrom, _⟩ := activeLists_append (pre ++ [L]) post none [] _ h'
  have hlen := hfrom.length
  have : as = apre ++ [AL] := by
    have h1 : apre ++ AL :: apost = (apre ++ [AL]) ++ apost := by simp
    rw [h1] at hsplit
    exact (List.append_inj hsplit.symm (by simp at hlen ⊢; omega)).1
  subst this
  exact activeLists_of_actsFrom _ _ _ _ _ _ hfrom

/-- a segment record of the cut file: the record of one of the segments of the file, complete or cut -/
def RecOf (E : List SegEnc) (A : List (List ActiveObj)) (seg : Segment) : Prop :=
  ∃ s a pos b k, (s, a) ∈ E.zip A ∧ dataPosOf s ≤ k ∧ k ≤ (encodeSeg s a).length ∧ seg = cutRec pos s b a k

/-- the record of a complete segment is the record of the segment "cut" at its end -/
theorem segRec_eq_cutRec (pos : Nat) (s : SegEnc) (a : List ActiveObj) (h : SegOK s a) :
    segRec pos s a = cutRec pos s false a (encodeSeg s a).length := by
  have hL := encodeSeg_len s a h
  have hsub : (encodeSeg s a).length - dataPosOf s = s.chunks.length * chunkBytesA a := by omega
  have hr : cutRA s a (encodeSeg s a).length = 0 := by
    unfold cutRA; rw [hsub]; exact Nat.mul_mod_left _ _
  have hq : cutQA s a (encodeSeg s a).length = s.chunks.length := by
    unfold cutQA
    rw [hsub]
    by_cases h0 : chunkBytesA a = 0
    · rw [h0, Nat.div_zero, chunkBytes_zero_no_chunks h h0]
    · exact Nat.mul_div_cancel _ (Nat.pos_of_ne_zero h0)
  unfold segRec cutRec
  simp only [hr, hq, if_true, Nat.add_zero, Nat.lt_irrefl, decide_false, Bool.or_self]
  congr 1
  unfold dataPosOf
  omega

theorem mem_segRecs : ∀ (ss : List SegEnc) (as : List (List ActiveObj)) (pos : Nat) (seg : Segment),
    seg ∈ segRecs pos ss as → ∃ s a pos', (s, a) ∈ ss.zip as ∧ seg = segRec pos' s a := by
  intro ss
  induction ss with
  | nil => intro as pos seg h; cases as <;> simp [segRecs] at h
  | cons x xs ih =>
    intro as pos seg h
    cases as with
    | nil => simp [segRecs] at h
    | cons a as =>
      simp only [segRecs, List.mem_cons] at h
      rcases h with rfl | h
      · exact ⟨x, a, pos, by simp, rfl⟩
      · obtain ⟨s, a', pos', hm, he⟩ := ih as _ seg h
        exact ⟨s, a', pos', by simp [hm], he⟩

/-- what a user sees of the cut file, against the complete file `E` (active lists `A`) -/
structure CutView (r' : EagerResult) (E : List SegEnc) (A : List (List ActiveObj)) : Prop where
  len : ∀ m ∈ r'.state.objects, m.numValues = (valuesIn r'.channels m.path).length
  pre : ∀ p, valuesIn r'.channels p <+: ff p (allPairs E A)
  recs : ∀ seg ∈ r'.state.segments, RecOf E A seg

/-- **the file `pre ++ L :: post` cut `k` bytes into segment `L`, any `k`** (`b`: the lead-in of `L` carries the
    marker): the eager read succeeds, `len(channel)` is the number of values returned, and the values of every path
    are a prefix of the values the pairs of the complete file hold for it -/
theorem read_cut_at (pre : List SegEnc) (apre : List (List ActiveObj)) (L : SegEnc) (AL : List ActiveObj)
    (post : List SegEnc) (apost : List (List ActiveObj)) (b : Bool) (k : Nat)
    (hacts : activeLists none [] (pre ++ L :: post) = .ok (apre ++ AL :: apost)) (hl : pre.length = apre.length)
    (hok : SegsOK (pre ++ L :: post) (apre ++ AL :: apost)) (hnd : ActsNodup (apre ++ AL :: apost))
    (hch : ∀ sa ∈ (pre ++ L :: post).zip (apre ++ AL :: apost), ChannelsOnly sa)
    (hkL : k ≤ (encodeSeg L AL).length)
    (hlen : (zipEncode encodeSeg pre apre).length + (encodeSeg L AL).length < 2 ^ 63) :
    ∃ r', readFile (zipEncode encodeSeg pre apre ++ (encodeSeg (setU b L) AL).take k) = .ok r' ∧
      CutView r' (pre ++ L :: post) (apre ++ AL :: apost) := by
  have hacts' := activeLists_prefix pre apre L AL post apost hl hacts
  have hl1 : (pre ++ [L]).length = (apre ++ [AL]).length := by simp [hl]
  have hok' : SegsOK (pre ++ [L]) (apre ++ [AL]) := by
    have h1 : SegsOK ((pre ++ [L]) ++ post) ((apre ++ [AL]) ++ apost) := by
      simpa [List.append_assoc] using hok
    exact (segsOK_append _ _ _ _ hl1 h1).1
  have hnd' : ActsNodup (apre ++ [AL]) := by
    intro a ha
    apply hnd a
    simp only [List.mem_append, List.mem_cons, List.not_mem_nil, or_false] at ha ⊢
    rcases ha with h | h
    · exact .inl h
    · exact .inr (.inl h)
  have hch' : ∀ sa ∈ (pre ++ [L]).zip (apre ++ [AL]), ChannelsOnly sa := by
    intro sa hsa
    apply hch sa
    have h1 : (pre ++ L :: post).zip (apre ++ AL :: apost) =
        (pre ++ [L]).zip (apre ++ [AL]) ++ post.zip apost := by
      rw [← List.zip_append hl1]; simp
    rw [h1]
    exact List.mem_append_left _ hsa
  obtain ⟨hokI, hokL⟩ := segsOK_append pre apre [L] [AL] hl hok'
  have hokL' : SegOK L AL := hokL.1
  have hndL : (AL.map (·.path)).Nodup := hnd' AL (by simp)
  have hzip : (pre ++ L :: post).zip (apre ++ AL :: apost) = pre.zip apre ++ (L, AL) :: post.zip apost := by
    rw [List.zip_append hl]; rfl
  have hLmem : (L, AL) ∈ (pre ++ L :: post).zip (apre ++ AL :: apost) := by rw [hzip]; simp
  have hrecI : ∀ seg ∈ segRecs 0 pre apre, RecOf (pre ++ L :: post) (apre ++ AL :: apost) seg := by
    intro seg hseg
    obtain ⟨s, a, pos', hm, rfl⟩ := mem_segRecs pre apre 0 seg hseg
    have hsa : SegOK s a := by
      clear hseg hzip hLmem hacts hok hnd hch hacts' hok' hnd' hch' hl1 hlen
      induction pre generalizing apre with
      | nil => simp at hm
      | cons x xs ih =>
        cases apre with
        | nil => simp at hm
        | cons y ys =>
          simp only [List.zip_cons_cons, List.mem_cons, Prod.mk.injEq] at hm
          rcases hm with ⟨rfl, rfl⟩ | hm
          · exact hokI.1
          · exact ih ys (by simpa using hl) hokI.2 hm
    refine ⟨s, a, pos', false, _, ?_, ?_, Nat.le_refl _, segRec_eq_cutRec pos' s a hsa⟩
    · rw [hzip]; exact List.mem_append_left _ hm
    · rw [encodeSeg_len s a hsa]; omega
  by_cases hk1 : dataPosOf L ≤ k
  · -- the segment is kept
    obtain ⟨st, _, hsegs, hobjs, hread⟩ := readFile_cutlast pre apre L AL b k hacts' hl hok' hnd' hch' hk1 hkL hlen
    refine ⟨_, hread, ?_, ?_, ?_⟩
    · intro m hm
      have hm' : m ∈ st.objects := hm
      rw [hobjs] at hm'
      exact cut_numValues pre apre L AL k hl hok' hnd' hch' hk1 hkL m hm'
    · intro p
      exact (cut_values_prefix pre apre L AL k p).trans
        (cutPairs_prefix pre apre L AL post apost k hl hokL' hndL hk1 hkL p)
    · intro seg hseg
      have hseg' : seg ∈ st.segments := hseg
      rw [hsegs] at hseg'
      rcases List.mem_append.mp hseg' with h1 | h1
      · exact hrecI seg h1
      · simp only [List.mem_singleton] at h1
        exact ⟨L, AL, _, b, k, hLmem, hk1, hkL, h1⟩
  · -- the segment is dropped
    obtain ⟨st, _, hsegs, hobjs, hread⟩ := readFile_droplast pre apre L AL b k hacts' hl hok' hnd' hch' (by omega) hlen
    have hchI : ∀ sa ∈ pre.zip apre, ChannelsOnly sa := fun sa hsa =>
      hch' sa (by rw [List.zip_append hl]; exact List.mem_append_left _ hsa)
    have hcont := content_multi pre apre hokI hchI st hobjs
    have hvals := valsOf_denoteSegs pre apre [] hokI
    have hv0 : valsOf [] = fun _ => [] := rfl
    rw [hv0] at hvals
    refine ⟨_, hread, ?_, ?_, fun seg hseg => hrecI seg (by rw [← hsegs]; exact hseg)⟩
    · intro m hm
      have hm' : m ∈ st.objects := hm
      rw [hobjs] at hm'
      obtain ⟨oc, hoc, rfl⟩ := List.mem_map.mp hm'
      simp only [content, contentOfDenote, hobjs, List.map_map] at hcont
      have := List.map_inj_left.mp hcont oc hoc
      simp only [Function.comp] at this
      have h2 : valuesIn (channelsOfContent (denoteSegs [] pre apre)) oc.path = oc.values := by
        have := congrArg ObjView.values this
        simpa [mOC] using this
      show oc.values.length + 0 = (valuesIn (channelsOfContent (denoteSegs [] pre apre)) oc.path).length
      rw [h2]; rfl
    · intro p
      show valuesIn (channelsOfContent (denoteSegs [] pre apre)) p <+: _
      have h1 : valuesIn (channelsOfContent (denoteSegs [] pre apre)) p <+: ff p (allPairs pre apre) := by
        unfold channelsOfContent
        rw [C01Compose.valuesIn_rcvWith]
        split
        · rw [hvals, foldl_bump_eq_ff]; exact List.prefix_refl _
        · exact List.nil_prefix
      refine h1.trans ?_
      rw [allPairs_append pre apre _ _ hl, ff_append]
      exact List.prefix_append _ _

/-! ## every cut offset lies inside (or at the end of) some segment -/

theorem zip_cut_decompose : ∀ (ss : List SegEnc) (as : List (List ActiveObj)) (K : Nat), ss.length = as.length →
    ss ≠ [] → K ≤ (zipEncode encodeSeg ss as).length →
    ∃ pre apre s a post apost k, ss = pre ++ s :: post ∧ as = apre ++ a :: apost ∧ pre.length = apre.length ∧
      k ≤ (encodeSeg s a).length ∧ K = (zipEncode encodeSeg pre apre).length + k ∧
      (zipEncode encodeSeg ss as).take K = zipEncode encodeSeg pre apre ++ (encodeSeg s a).take k := by
  intro ss
  induction ss with
  | nil => intro as K _ h _; exact absurd rfl h
  | cons x xs ih =>
    intro as K hl _ hK
    cases as with
    | nil => simp at hl
    | cons a as =>
      by_cases hle : K ≤ (encodeSeg x a).length
      · refine ⟨[], [], x, a, xs, as, K, rfl, rfl, rfl, hle, by simp [zipEncode], ?_⟩
        simp only [zipEncode, List.nil_append]
        rw [List.take_append_of_le_length hle]
      · simp only [zipEncode, List.length_append] at hK
        have hne : xs ≠ [] := by
          intro h; subst h
          cases as <;> simp [zipEncode] at hK <;> omega
        obtain ⟨pre, apre, s, a', post, apost, k, h1, h2, h3, h4, h5, h6⟩ :=
          ih as (K - (encodeSeg x a).length) (by simpa using hl) hne (by omega)
        refine ⟨x :: pre, a :: apre, s, a', post, apost, k, by rw [h1]; rfl, by rw [h2]; rfl, by simp [h3], h4, ?_, ?_⟩
        · simp only [zipEncode, List.length_append]; omega
        · simp only [zipEncode]
          rw [List.take_append, List.take_of_length_le (by omega), h6, List.append_assoc]

end Tdms.Proofs.C06Gen
