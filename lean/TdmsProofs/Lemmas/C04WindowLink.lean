import TdmsProofs.Lemmas.C04WindowList

/-!
# C04 (windows): from the model's I/O loop to the pure window

If every `verifySegmentStart` / `segReadChannel` call made by `windowLoop` succeeds and returns the
supplier's chunks, then `readRawDataForChannel` returns `windowPureG` (whatever the file position
and trace are).  Core Lean only.
-/

namespace Tdms.Proofs.C04

open Tdms Tdms.Model

/-- the calls `windowLoop` makes for segment `i`: the segment start is verified, and — when the
    channel has data in the segment — `segReadChannel` with the planned chunk offset / chunk count
    returns `sup i chunkOffset numChunks`; both from any file state -/
def SegReadsAs (f : OpenFile) (p : Bytes) (ix : ChannelIndex) (offset endIndex : Int) (startSeg endSeg : Nat)
    (sup : Supplier) (i : Nat) (s : Segment) : Prop :=
  (∀ st, ∃ st', (verifySegmentStart f.file s).run st = .ok ((), st')) ∧
  ∀ co skip nc, segPlan p ix offset endIndex startSeg endSeg i s = some (co, skip, nc) →
    ∀ st, ∃ st', (segReadChannel f.file s p co.toNat (some nc)).run st = .ok (sup i co.toNat nc, st')

/-- hypothesis of the link lemma: every segment read made by
    `readRawDataForChannel f p offset length` returns the supplier's chunks -/
def ReadsAs (f : OpenFile) (p : Bytes) (numValues : Nat) (offset : Int) (length : Option Int) (sup : Supplier) : Prop :=
  let w := windowParams f.segments p numValues offset length
  ∀ i s, f.segments[i]? = some s → w.startSeg ≤ i → i ≤ w.endSeg →
    SegReadsAs f p w.ix offset w.endIndex w.startSeg w.endSeg sup i s

theorem windowLoop_eq_pure (f : OpenFile) (p : Bytes) (sup : Supplier) (ix : ChannelIndex)
    (offset endIndex len : Int) (startSeg endSeg : Nat) :
    ∀ (rest : List Segment) (i : Nat) (vr : Int) (st : FState),
      (∀ t s, rest[t]? = some s → SegReadsAs f p ix offset endIndex startSeg endSeg sup (i + t) s) →
      ∃ st', (windowLoop f p ix offset endIndex len startSeg endSeg rest i vr).run st
        = .ok (windowLoopPure sup p ix offset endIndex len startSeg endSeg rest i vr, st') := by
  intro rest
  induction rest with
  | nil => intro i vr st _; exact ⟨st, rfl⟩
  | cons s rest ih =>
    intro i vr st h
    obtain ⟨hver, hread⟩ := h 0 s (by simp)
    rw [Nat.add_zero] at hread
    have hrest : ∀ t s', rest[t]? = some s' →
        SegReadsAs f p ix offset endIndex startSeg endSeg sup (i + 1 + t) s' := by
      intro t s' hs'
      have := h (t + 1) s' (by simpa using hs')
      rw [show i + 1 + t = i + (t + 1) by omega]
      exact this
    obtain ⟨st1, h1⟩ := hver st
    simp only [windowLoop, windowLoopPure, StateT.run_bind, h1]
    cases hplan : segPlan p ix offset endIndex startSeg endSeg i s with
    | none =>
      simp only []
      exact ih (i + 1) vr st1 hrest
    | some t =>
      obtain ⟨co, skip, nc⟩ := t
      obtain ⟨st2, h2⟩ := hread co skip nc hplan st1
      simp only [StateT.run_bind]
      obtain ⟨st3, h3⟩ := ih (i + 1) (trimStream len (sup i co.toNat nc) skip.toNat vr).2 st2 hrest
      refine ⟨st3, ?_⟩
      simp only [bind, Except.bind]
      rw [h2]
      simp only []
      rw [h3]
      rfl

theorem getElem?_take_drop {α : Type} (l : List α) (a n t : Nat) (x : α)
    (h : ((l.drop a).take n)[t]? = some x) : t < n ∧ l[a + t]? = some x := by
  rw [List.getElem?_take] at h
  by_cases ht : t < n
  · rw [if_pos ht, List.getElem?_drop] at h; exact ⟨ht, h⟩
  · rw [if_neg ht] at h; simp at h

/-- **link lemma**: under `ReadsAs`, the model's `readRawDataForChannel` returns the pure window,
    from any file state -/
theorem readRawDataForChannel_eq_windowPureG (f : OpenFile) (p : Bytes) (offset : Int) (length : Option Int) (sup : Supplier)
    (h : ReadsAs f p (((f.objects.get p).map (·.numValues)).getD 0) offset length sup) (st : FState) :
    ∃ st', (readRawDataForChannel f p offset length).run st
      = .ok (windowPureG f.segments p (((f.objects.get p).map (·.numValues)).getD 0) sup offset length, st') := by
  unfold readRawDataForChannel windowPureG
  unfold ReadsAs at h
  cases length <;>
  · simp only [windowParams] at h ⊢
    apply windowLoop_eq_pure
    intro t s hs
    obtain ⟨ht, hs'⟩ := getElem?_take_drop _ _ _ _ _ hs
    exact h _ s hs' (by omega) (by omega)

/-! ## `channelReadData` -/

theorem foldl_data (g : ReadOut → ChanChunk → ReadOut)
    (hg : ∀ r c, (g r c).data.getD [] = r.data.getD [] ++ c.data.getD []) (cs : List ChanChunk) (r : ReadOut) :
    (cs.foldl g r).data.getD [] = r.data.getD [] ++ dataOf cs := by
  induction cs generalizing r with
  | nil => simp [dataOf]
  | cons c cs ih => rw [List.foldl_cons, ih, dataOf_cons, hg, List.append_assoc]

/-- the values `read_data` returns are the concatenated chunk data, for every data type -/
theorem concatChunks_data (dataType : Option Nat) (ids : List Nat) (cs : List ChanChunk) :
    (concatChunks dataType ids cs).data.getD [] = dataOf cs := by
  unfold concatChunks
  simp only []
  rw [foldl_data]
  · split <;> simp
  · intro r c
    cases hd : c.data with
    | some d => simp
    | none => cases hs : c.scalers <;> simp

/-- `channelReadData` (= `TdmsChannel.read_data(offset, length, scaled=False)` on an open file) returns
    the pure window when the segment reads return the supplier's chunks -/
theorem channelReadData_eq_windowPure (f : OpenFile) (p : Bytes) (m : ObjMeta) (offset : Int) (length : Option Int)
    (sup : Supplier) (hm : f.objects.get p = some m) (hty : m.dataType.isSome = true)
    (h0 : 0 ≤ offset) (hl : ∀ l, length = some l → 0 ≤ l)
    (h : ReadsAs f p m.numValues offset length sup) (st : FState) :
    ∃ st' r, (channelReadData f p offset length).run st = .ok (some r, st') ∧
      r.data.getD [] = dataOf (windowPureG f.segments p m.numValues sup offset length) := by
  have hnum : ((f.objects.get p).map (·.numValues)).getD 0 = m.numValues := by rw [hm]; rfl
  have h' := h
  rw [← hnum] at h'
  obtain ⟨st', hrun⟩ := readRawDataForChannel_eq_windowPureG f p offset length sup h' st
  rw [hnum] at hrun
  refine ⟨st', _, ?_, concatChunks_data m.dataType ((m.scalerTypes.getD []).map (·.1)) _⟩
  have hnone : m.dataType.isNone = false := by
    cases hd : m.dataType with
    | none => rw [hd] at hty; simp at hty
    | some _ => rfl
  unfold channelReadData
  rw [hm]
  cases length with
  | none =>
    simp only [hnone, Bool.false_eq_true, if_false, if_neg (show ¬ offset < 0 by omega)]
    simp only [bind, StateT.bind, pure, StateT.pure, Except.pure, Except.bind, StateT.run] at hrun ⊢
    rw [hrun]
  | some l =>
    have := hl l rfl
    simp only [hnone, Bool.false_eq_true, if_false, if_neg (show ¬ offset < 0 by omega),
      decide_eq_true_eq, if_neg (show ¬ l < 0 by omega)]
    simp only [bind, StateT.bind, pure, StateT.pure, Except.pure, Except.bind, StateT.run] at hrun ⊢
    rw [hrun]

end Tdms.Proofs.C04
