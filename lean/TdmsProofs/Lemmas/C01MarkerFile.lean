/-
  C01, the length-unknown marker on the last segment: `readMetadata`, `readRawDataAll` and `readFile` on
  `zipEncode encodeSeg I AI ++ encodeSeg (mark L) AL` (complete segments `I`, then a last segment `L` whose lead-in
  carries the marker).  Core Lean only.
-/
import TdmsProofs.Lemmas.C01MarkerData

namespace Tdms.Proofs.C01Marker

open Tdms Tdms.Generated Tdms.Model Tdms.Proofs.C02 Tdms.Proofs.LeadIn Tdms.Proofs.C01Multi
open Tdms.Proofs.Bytes (canonProp)
open Tdms.Proofs.C01Compose (pairsChunk bump content contentOfDenote ObjView)

/-! ## lists of segments split at the last one -/

theorem segsOK_append : ∀ (ss : List SegEnc) (as : List (List ActiveObj)) (tl : List SegEnc)
    (atl : List (List ActiveObj)), ss.length = as.length → SegsOK (ss ++ tl) (as ++ atl) →
    SegsOK ss as ∧ SegsOK tl atl := by
  intro ss
  induction ss with
  | nil => intro as tl atl hl h; cases as with
    | nil => exact ⟨trivial, h⟩
    | cons a as => simp at hl
  | cons s ss ih =>
    intro as tl atl hl h
    cases as with
    | nil => simp at hl
    | cons a as =>
      obtain ⟨h1, h2⟩ := (show SegOK s a ∧ SegsOK (ss ++ tl) (as ++ atl) from h)
      obtain ⟨h3, h4⟩ := ih as tl atl (by simpa using hl) h2
      exact ⟨⟨h1, h3⟩, h4⟩

theorem denoteSegs_append : ∀ (ss : List SegEnc) (as : List (List ActiveObj)) (tl : List SegEnc)
    (atl : List (List ActiveObj)) (c : Content), ss.length = as.length →
    denoteSegs c (ss ++ tl) (as ++ atl) = denoteSegs (denoteSegs c ss as) tl atl := by
  intro ss
  induction ss with
  | nil => intro as tl atl c hl; cases as with
    | nil => rfl
    | cons a as => simp at hl
  | cons s ss ih =>
    intro as tl atl c hl
    cases as with
    | nil => simp at hl
    | cons a as => exact ih as tl atl _ (by simpa using hl)

theorem rawChunksAll_append : ∀ (ss : List SegEnc) (as : List (List ActiveObj)) (tl : List SegEnc)
    (atl : List (List ActiveObj)), ss.length = as.length →
    rawChunksAll (ss ++ tl) (as ++ atl) = rawChunksAll ss as ++ rawChunksAll tl atl := by
  intro ss
  induction ss with
  | nil => intro as tl atl hl; cases as with
    | nil => rfl
    | cons a as => simp at hl
  | cons s ss ih =>
    intro as tl atl hl
    cases as with
    | nil => simp at hl
    | cons a as =>
      simp only [List.cons_append, rawChunksAll, ih as tl atl (by simpa using hl), List.append_assoc]

theorem segRecs_length_pos (ss : List SegEnc) (as : List (List ActiveObj)) (h : SegsOK ss as) :
    ss.length ≤ (zipEncode encodeSeg ss as).length := zipEncode_length_ge ss as h

/-! ## metadata -/

/-- **`readMetadata` on complete segments followed by a last segment carrying the marker** -/
theorem readMetadata_marker (I : List SegEnc) (AI : List (List ActiveObj)) (L : SegEnc) (AL : List ActiveObj)
    (hacts : activeLists none [] (I ++ [L]) = .ok (AI ++ [AL])) (hl : I.length = AI.length)
    (hok : SegsOK (I ++ [L]) (AI ++ [AL]))
    (hlen : (zipEncode encodeSeg I AI ++ encodeSeg (mark L) AL).length < 2 ^ 63) :
    ∃ st, readMetadata (zipEncode encodeSeg I AI ++ encodeSeg (mark L) AL) = .ok st ∧
      st.segments = segRecs 0 I AI ++ [segRecI (zipEncode encodeSeg I AI).length L AL true] ∧
      st.objects = (denoteSegs [] (I ++ [L]) (AI ++ [AL])).map (mOC fun _ => 0) ∧
      st.version = (I ++ [L]).head?.map fun s => (s.version : Int) := by
  generalize hfile : zipEncode encodeSeg I AI ++ encodeSeg (mark L) AL = file at hlen ⊢
  obtain ⟨hokI, hokL⟩ := segsOK_append I AI [L] [AL] hl hok
  have hokL' : SegOK L AL := hokL.1
  obtain ⟨as, atl, prev', last', hsplit, hfrom, htl⟩ := activeLists_append I [L] none [] _ hacts
  have hlas : I.length = as.length := hfrom.length
  have hasEq : as = AI ∧ atl = [AL] := by
    have := List.append_inj hsplit.symm (by omega)
    exact ⟨this.1, this.2⟩
  obtain ⟨rfl, rfl⟩ := hasEq
  obtain ⟨a', last'', as', hactL, hnil, hcons⟩ := activeLists_cons htl
  have : a' = AL := by
    have := congrArg List.head? hcons
    simpa using this.symm
  subst this
  have hP := segRecs_length_pos I as hokI
  have hLlen := encodeSeg_length_ge L a'
  have hflen : file.length = (zipEncode encodeSeg I as).length + (encodeSeg L a').length := by
    rw [← hfile, List.length_append, encodeSeg_mark_length]
  -- the prefix
  obtain ⟨st1, seen1, hloop, hsegs1, hobjs1, hnd1, hver1, _, hinv1, hspec1⟩ :=
    loop_prefix file hlen I as (encodeSeg (mark L) a') 0 (file.length + 1 - I.length) {} [] none [] [] prev' last' hfrom hokI
      (by rw [List.drop_zero, hfile]) (by rw [mstateOf_init]; exact FileInv.init) SpecInv.init rfl (by simp)
  -- the last segment
  have hdrop : file.drop (0 + (zipEncode encodeSeg I as).length) = encodeSeg (mark L) a' := by
    rw [Nat.zero_add, ← hfile, List.drop_left]
  obtain ⟨pv, hstep⟩ := loopStep_segment_marker file hlen _ L a' hdrop st1 seen1 prev' last' last''
    (denoteSegs [] I as) hactL hokL' hinv1 hspec1 hobjs1 hnd1
  obtain ⟨f, hf⟩ : ∃ f, file.length + 1 - I.length = f + 2 := ⟨file.length + 1 - I.length - 2, by omega⟩
  refine ⟨stateAfterI st1 (0 + (zipEncode encodeSeg I as).length) L a' pv (denoteSeg (denoteSegs [] I as) L a'), ?_, ?_, ?_, ?_⟩
  · unfold readMetadata
    have hfuel : file.length + 1 = (file.length + 1 - I.length) + I.length := by omega
    rw [hfuel, hloop, hf, readMetadataLoop_succ, hstep]
    simp only []
    rw [readMetadataLoop_succ, loopStep_past_end _ _ _ _ _ _ (by omega)]
  · simp only [stateAfterI, hsegs1, Nat.zero_add]
    rfl
  · simp only [stateAfterI]
    rw [denoteSegs_append I as [L] [a'] [] hlas]
    rfl
  · simp only [stateAfterI, hver1]
    cases I with
    | nil => rfl
    | cons x xs => rfl

/-! ## raw data -/

theorem readRawDataAll_marker_file (I : List SegEnc) (AI : List (List ActiveObj)) (L : SegEnc) (AL : List ActiveObj)
    (hl : I.length = AI.length) (hok : SegsOK (I ++ [L]) (AI ++ [AL])) (hnd : ActsNodup (AI ++ [AL]))
    (st : FState) :
    ∃ st', (readRawDataAll (zipEncode encodeSeg I AI ++ encodeSeg (mark L) AL)
        (segRecs 0 I AI ++ [segRecI (zipEncode encodeSeg I AI).length L AL true])).run st =
      .ok (rawChunksAll (I ++ [L]) (AI ++ [AL]), st') := by
  obtain ⟨hokI, hokL⟩ := segsOK_append I AI [L] [AL] hl hok
  have hokL' : SegOK L AL := hokL.1
  have hmore : ∀ st1, ∃ st2, (readRawDataAll (zipEncode encodeSeg I AI ++ encodeSeg (mark L) AL)
      [segRecI (zipEncode encodeSeg I AI).length L AL true]).run st1 = .ok (rawChunksOfSeg L AL, st2) := by
    intro st1
    exact readRawDataAll_marker _ _ L AL (by rw [List.drop_left]) hokL' (hnd AL (by simp)) st1
  obtain ⟨st', h⟩ := readRawDataAll_prefix _ _ _ hmore I AI (encodeSeg (mark L) AL) 0 st hl hokI
    (fun a ha => hnd a (by simp [ha])) (by rw [List.drop_zero])
  refine ⟨st', ?_⟩
  rw [h, rawChunksAll_append I AI [L] [AL] hl]
  simp [rawChunksAll]

/-! ## the eager read -/

/-- **`readFile` on complete segments followed by a last segment carrying the marker** -/
theorem readFile_marker (I : List SegEnc) (AI : List (List ActiveObj)) (L : SegEnc) (AL : List ActiveObj)
    (hacts : activeLists none [] (I ++ [L]) = .ok (AI ++ [AL])) (hl : I.length = AI.length)
    (hok : SegsOK (I ++ [L]) (AI ++ [AL])) (hnd : ActsNodup (AI ++ [AL]))
    (hch : ∀ sa ∈ (I ++ [L]).zip (AI ++ [AL]), ChannelsOnly sa)
    (hlen : (zipEncode encodeSeg I AI ++ encodeSeg (mark L) AL).length < 2 ^ 63) :
    ∃ st, readMetadata (zipEncode encodeSeg I AI ++ encodeSeg (mark L) AL) = .ok st ∧
      st.segments = segRecs 0 I AI ++ [segRecI (zipEncode encodeSeg I AI).length L AL true] ∧
      st.objects = (denoteSegs [] (I ++ [L]) (AI ++ [AL])).map (mOC fun _ => 0) ∧
      readFile (zipEncode encodeSeg I AI ++ encodeSeg (mark L) AL) =
        .ok ⟨st, channelsOfContent (denoteSegs [] (I ++ [L]) (AI ++ [AL]))⟩ := by
  obtain ⟨st, hmeta, hsegs, hobjs, _⟩ := readMetadata_marker I AI L AL hacts hl hok hlen
  obtain ⟨fs, hdata⟩ := readRawDataAll_marker_file I AI L AL hl hok hnd {}
  refine ⟨st, hmeta, hsegs, hobjs, C01Compose.readFile_of_parts _ _ (rawChunksAll (I ++ [L]) (AI ++ [AL])) fs _ hmeta
    (by rw [hsegs]; exact hdata) ?_⟩
  generalize I ++ [L] = e at *
  generalize AI ++ [AL] = acts at *
  have htyok : TyOK (denoteSegs [] e acts) := tyOK_denoteSegs e acts [] hok (fun _ h => by cases h)
  have hvals := valsOf_denoteSegs e acts [] hok
  have hv0 : valsOf [] = fun _ => [] := rfl
  rw [hv0] at hvals
  have hps : ∀ p ∈ (allPairs e acts).map (·.1), p ∈ rcvPathsC (denoteSegs [] e acts) := by
    intro p hp
    obtain ⟨h1, sa, hsa, hne, x, hx, hd, hxp⟩ := allPairs_hasTy e acts [] hok p hp
    exact mem_rcvPathsC h1 (hxp ▸ hch sa hsa hne x hx hd)
  rw [hobjs, receivers_of_content _ htyok, rawChunksAll_eq, channelsOfContent, hvals,
    ← pairListsAll_flatten e acts]
  apply foldl_fileStep_chunks st
  · intro pairs hpairs pv hpv
    exact hps _ (mem_pairListsAll hpairs hpv)
  · intro p _
    rw [hobjs, cap_of_content, hvals, pairListsAll_flatten]
    exact Nat.le_refl _

end Tdms.Proofs.C01Marker
