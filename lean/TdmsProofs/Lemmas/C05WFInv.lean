import TdmsProofs.Lemmas.C05WFParse
import TdmsProofs.Lemmas.C02Lemmas
import TdmsProofs.Lemmas.C01MultiMeta
import TdmsProofs.Lemmas.C09ContentStep

/-!
# C05WF / C19WF: invariants of `readMetadata` on ARBITRARY bytes

Along the metadata loop, whatever the bytes are:
* every object of every segment (and of `prevObjs`) is `ObjOK`;
* every segment is the output of `calculateChunks` on a record without override;
* `object_metadata[p].num_values` is the sum over the segments of `_number_of_segment_values` of ALL
  objects with path `p` (a path listed twice in a segment is counted twice).
Core Lean only.
-/

namespace Tdms.Proofs.C05WF

open Tdms Tdms.Model Tdms.Generated Tdms.Proofs.C02 Tdms.Proofs.LeadIn

/-! ## the object-list state machine preserves `ObjOK` -/

theorem objOK_setHasData {o : SegObj} (h : ObjOK o) (b : Bool) : ObjOK { o with hasData := b } := h

theorem objOK_default (p : Bytes) : ObjOK { path := p } := by
  intro _ sz h
  simp at h

theorem allOK_set {l : List SegObj} (h : AllOK l) (i : Nat) {o : SegObj} (ho : ObjOK o) : AllOK (l.set i o) := by
  intro x hx
  rcases List.mem_or_eq_of_mem_set hx with h1 | h1
  · exact h x h1
  · rw [h1]; exact ho

theorem allOK_append {l : List SegObj} (h : AllOK l) {o : SegObj} (ho : ObjOK o) : AllOK (l ++ [o]) := by
  intro x hx
  rcases List.mem_append.1 hx with h1 | h1
  · exact h x h1
  · simp at h1; rw [h1]; exact ho

theorem allOK_nil : AllOK [] := fun _ h => by cases h

def PrevOK (m : PrevObjs) : Prop := ∀ p o, m.get p = some o → ObjOK o

theorem applyHeader_ok {existing : Option (List SegObj)} {prevObjs : PrevObjs} {ordered ordered' : List SegObj}
    {path : Bytes} {h : Hdr} (hex : ∀ l, existing = some l → AllOK l) (hprev : PrevOK prevObjs)
    (hord : AllOK ordered) (hh : HdrOK h) (hr : applyHeader existing prevObjs ordered path h = .ok ordered') :
    AllOK ordered' := by
  unfold applyHeader at hr
  cases hl : lookupExisting existing path with
  | some ie =>
    obtain ⟨i, ex⟩ := ie
    have hexOK : ObjOK ex := by
      unfold lookupExisting at hl
      cases existing with
      | none => simp at hl
      | some l =>
        simp only at hl
        cases hi : existingIndex l path with
        | none => simp [hi] at hl
        | some j =>
          simp only [hi, Option.bind_some] at hl
          cases hj : l[j]? with
          | none => simp [hj] at hl
          | some o =>
            simp only [hj, Option.map_some, Option.some.injEq, Prod.mk.injEq] at hl
            rw [← hl.2]
            exact hex l rfl o (List.mem_of_getElem? hj)
    rw [hl] at hr
    cases h with
    | noData =>
      simp only [Except.ok.injEq] at hr
      rw [← hr]
      split
      · exact allOK_set hord i (objOK_setHasData hexOK false)
      · exact hord
    | matchesPrev =>
      simp only [Except.ok.injEq] at hr
      rw [← hr]
      split
      · exact allOK_set hord i (objOK_setHasData hexOK true)
      · exact hord
    | indexed o =>
      simp only [Except.ok.injEq] at hr
      rw [← hr]
      exact allOK_set hord i hh
  | none =>
    rw [hl] at hr
    simp only at hr
    cases hq : prevObjs.get path with
    | some prev =>
      rw [hq] at hr
      have hp := hprev path prev hq
      cases h with
      | noData => simp only [Except.ok.injEq] at hr; rw [← hr]; exact allOK_append hord (objOK_setHasData hp false)
      | matchesPrev => simp only [Except.ok.injEq] at hr; rw [← hr]; exact allOK_append hord (objOK_setHasData hp true)
      | indexed o => simp only [Except.ok.injEq] at hr; rw [← hr]; exact allOK_append hord hh
    | none =>
      rw [hq] at hr
      cases h with
      | noData => simp only [Except.ok.injEq] at hr; rw [← hr]; exact allOK_append hord (objOK_default path)
      | matchesPrev => cases hr
      | indexed o => simp only [Except.ok.injEq] at hr; rw [← hr]; exact allOK_append hord hh

theorem post_readOneObjectF (e : Endian) (existing : Option (List SegObj)) (prevObjs : PrevObjs)
    (ordered : List SegObj) (hex : ∀ l, existing = some l → AllOK l) (hprev : PrevOK prevObjs)
    (hord : AllOK ordered) :
    PPost (readOneObjectF e existing prevObjs ordered) (fun r => AllOK r.1) := by
  unfold readOneObjectF
  refine PPost.bind (PPost.trivial _) (fun path _ => ?_)
  refine PPost.bind (PPost.trivial _) (fun header _ => ?_)
  refine PPost.bind (post_readHdr e path header) (fun h hh => ?_)
  refine PPost.bind (PPost.liftE _ (fun o' ho' => applyHeader_ok hex hprev hord hh ho')) (fun o' ho' => ?_)
  refine PPost.bind (PPost.trivial _) (fun _ _ => ?_)
  refine PPost.bind (PPost.trivial _) (fun _ _ => ?_)
  exact PPost.pure _ ho'

theorem post_readObjects (e : Endian) (existing : Option (List SegObj)) (prevObjs : PrevObjs)
    (hk : Keyed prevObjs) (hex : ∀ l, existing = some l → AllOK l) (hprev : PrevOK prevObjs) :
    ∀ (k : Nat) (ordered : List SegObj) (props : List (Bytes × List PropVal)), AllOK ordered →
      PPost (readObjects e existing prevObjs k ordered props) (fun r => AllOK r.1) := by
  intro k
  induction k with
  | zero =>
    intro ordered props hord
    unfold readObjects
    exact PPost.pure _ hord
  | succ k ih =>
    intro ordered props hord
    unfold readObjects
    rw [readOneObject_factor e existing prevObjs hk]
    refine PPost.bind (post_readOneObjectF e existing prevObjs ordered hex hprev hord) (fun r hr => ?_)
    obtain ⟨o', path, ps⟩ := r
    exact ih _ _ hr

/-- **one segment, arbitrary bytes**: every object of the segment `readSegmentObjects` returns is `ObjOK`,
    and the segment is the output of `calculateChunks` on a record with the same frame and no override -/
theorem readSegmentObjects_ok (seg : Segment) (prevSeg : Option Segment) (prevObjs : PrevObjs) (bytes : Bytes)
    (seg' : Segment) (props : List (Bytes × List PropVal)) (hk : Keyed prevObjs) (hprev : PrevOK prevObjs)
    (hps : ∀ p, prevSeg = some p → AllOK p.objects) (hov : seg.override = none)
    (h : readSegmentObjects seg prevSeg prevObjs bytes = .ok (seg', props)) :
    AllOK seg'.objects ∧ ∃ s0, s0.override = none ∧ calculateChunks s0 = .ok seg' := by
  unfold readSegmentObjects at h
  by_cases hm : hasFlag seg.toc kTocMetaData
  · simp only [hm, Bool.not_true, Bool.false_eq_true, if_false, bind, Except.bind] at h
    split at h
    · cases h
    · rename_i v hv
      obtain ⟨⟨objs, props'⟩, rest⟩ := v
      simp only at h
      split at h
      · cases h
      · rename_i s hs
        simp only [pure, Except.pure, Except.ok.injEq, Prod.mk.injEq] at h
        obtain ⟨h1, _⟩ := h
        subst h1
        have hobjs : s.objects = objs := calculateChunks_objects (s := { seg with objects := objs }) hs
        refine ⟨?_, { seg with objects := objs }, hov, hs⟩
        rw [hobjs]
        -- the object loop
        have hrun : (do let n ← uN seg.endian 4
                        readObjects seg.endian
                          (match prevSeg with
                            | some p => if hasFlag seg.toc kTocNewObjList = true then ([], none) else (p.objects, some p.objects)
                            | none => ([], none)).2 prevObjs n
                          (match prevSeg with
                            | some p => if hasFlag seg.toc kTocNewObjList = true then ([], none) else (p.objects, some p.objects)
                            | none => ([], none)).1 [] : P _) bytes = .ok ((objs, props'), rest) := hv
        have hpair : (∀ l, (match prevSeg with
                            | some p => if hasFlag seg.toc kTocNewObjList = true then (([] : List SegObj), (none : Option (List SegObj))) else (p.objects, some p.objects)
                            | none => ([], none)).2 = some l → AllOK l) ∧
            AllOK (match prevSeg with
                            | some p => if hasFlag seg.toc kTocNewObjList = true then (([] : List SegObj), (none : Option (List SegObj))) else (p.objects, some p.objects)
                            | none => ([], none)).1 := by
          cases prevSeg with
          | none => exact ⟨fun l hl => (by cases hl), allOK_nil⟩
          | some p =>
            simp only
            split
            · exact ⟨fun l hl => (by cases hl), allOK_nil⟩
            · exact ⟨fun l hl => (by cases hl; exact hps p rfl), hps p rfl⟩
        have := PPost.bind (PPost.trivial (uN seg.endian 4)) (fun n _ =>
          post_readObjects seg.endian _ prevObjs hk hpair.1 hprev n _ [] hpair.2)
        exact this bytes _ rest hrun
  · have hm' : hasFlag seg.toc kTocMetaData = false := by simpa using hm
    simp only [hm', Bool.not_false, if_true] at h
    cases prevSeg with
    | none => simp [throw, throwThe, MonadExceptOf.throw] at h
    | some p =>
      simp only [bind, Except.bind] at h
      split at h
      · cases h
      · rename_i s hs
        simp only [pure, Except.pure, Except.ok.injEq, Prod.mk.injEq] at h
        obtain ⟨h1, _⟩ := h
        subst h1
        have hobjs : s.objects = p.objects := calculateChunks_objects (s := { seg with objects := p.objects }) hs
        exact ⟨by rw [hobjs]; exact hps p rfl, { seg with objects := p.objects }, hov, hs⟩

end Tdms.Proofs.C05WF
