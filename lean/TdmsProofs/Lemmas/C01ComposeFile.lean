/-
  C01, composed theorem for one-segment files: `readFile` (receivers, capacity check) on the encoding
  of a single standard segment, and the comparison with `denote`.  Core Lean only.
-/
import TdmsProofs.Lemmas.C01ComposeData

namespace Tdms.Proofs.C01Compose

open Tdms Tdms.Generated Tdms.Model Tdms.Proofs.Bytes

/-! ## properties: last write wins, on both sides -/

theorem setProp_canon (acc : List PropEnc) (q : PropEnc) :
    (setProp acc q).map canonProp = setPropVal (acc.map canonProp) (canonProp q) := by
  unfold setProp setPropVal
  have hany : (acc.map canonProp).any (fun x => decide (x.name = (canonProp q).name)) =
      acc.any (fun x => decide (x.name = q.name)) := by
    rw [List.any_map]; rfl
  rw [hany]
  by_cases h : acc.any (fun x => decide (x.name = q.name)) = true
  · rw [if_pos h, if_pos h, List.map_map, List.map_map]
    apply List.map_congr_left
    intro x _
    show canonProp (if x.name = q.name then q else x) = if (canonProp x).name = (canonProp q).name then canonProp q else canonProp x
    show _ = if x.name = q.name then canonProp q else canonProp x
    split <;> rfl
  · rw [if_neg h, if_neg h]; simp

theorem foldl_setProp_canon (ps : List PropEnc) :
    ∀ acc : List PropEnc, (ps.foldl setProp acc).map canonProp =
      (ps.map canonProp).foldl setPropVal (acc.map canonProp) := by
  induction ps with
  | nil => intro acc; rfl
  | cons p ps ih => intro acc; simp only [List.foldl_cons, List.map_cons, ih, setProp_canon]

/-! ## receivers -/

/-- receivers holding `f p` for every path `p` of `ps` -/
def rcvWith (ps : List Bytes) (f : Bytes → List Bytes) : List ChannelData :=
  ps.map fun p => ⟨p, some (f p), []⟩

/-- a chunk given as (path, values) pairs -/
def pairsChunk (pairs : List (Bytes × List Bytes)) : RawChunk :=
  pairs.map fun pv => (pv.1, { data := some pv.2 })

/-- values of a path in a list of receivers -/
def valuesIn (rs : List ChannelData) (p : Bytes) : List Bytes :=
  ((rs.find? (·.path = p)).bind (·.data)).getD []

theorem valuesIn_rcvWith (ps : List Bytes) (f : Bytes → List Bytes) (p : Bytes) :
    valuesIn (rcvWith ps f) p = if p ∈ ps then f p else [] := by
  induction ps with
  | nil => rfl
  | cons q qs ih =>
    unfold valuesIn rcvWith at ih ⊢
    by_cases h : q = p
    · subst h; simp
    · have h' : ¬ p = q := fun e => h e.symm
      simp only [List.map_cons, List.find?_cons, h, decide_false, List.mem_cons, h', false_or]
      exact ih

/-- the loop body of `receiveChunk` -/
def rcvStep (acc : Except Err (List ChannelData)) (pc : Bytes × ChanChunk) : Except Err (List ChannelData) := do
  let rs ← acc
  match rs.find? (·.path = pc.1) with
  | none => if pc.2.data.isSome ∨ pc.2.scalers.isSome then .error .noneType else pure rs
  | some _ =>
    pure (rs.map fun r =>
      if r.path ≠ pc.1 then r
      else match pc.2.data, pc.2.scalers with
        | some d, _ => { r with data := some (r.data.getD [] ++ d) }
        | none, some sc => { r with scalers := sc.foldl (fun l (id, v) => appendScalerData l id v) r.scalers }
        | none, none => r)

theorem receiveChunk_eq (rs : List ChannelData) (c : RawChunk) : receiveChunk rs c = c.foldl rcvStep (.ok rs) := rfl

theorem rcvStep_rcvWith (ps : List Bytes) (f : Bytes → List Bytes) (p : Bytes) (v : List Bytes) (hp : p ∈ ps) :
    rcvStep (.ok (rcvWith ps f)) (p, { data := some v }) = .ok (rcvWith ps (bump f (p, v))) := by
  have hsome : ((rcvWith ps f).find? (·.path = p)).isSome = true := by
    rw [List.find?_isSome]
    exact ⟨⟨p, some (f p), []⟩, List.mem_map.mpr ⟨p, hp, rfl⟩, by simp⟩
  obtain ⟨r0, hr0⟩ := Option.isSome_iff_exists.mp hsome
  simp only [rcvStep, bind, Except.bind, hr0, pure, Except.pure]
  congr 1
  simp only [rcvWith, List.map_map]
  apply List.map_congr_left
  intro q _
  by_cases h : q = p <;> simp [bump, h]

theorem receiveChunk_rcvWith (ps : List Bytes) :
    ∀ (pairs : List (Bytes × List Bytes)) (f : Bytes → List Bytes), (∀ pv ∈ pairs, pv.1 ∈ ps) →
      receiveChunk (rcvWith ps f) (pairsChunk pairs) = .ok (rcvWith ps (pairs.foldl bump f)) := by
  intro pairs
  show ∀ f, _ → (pairsChunk pairs).foldl rcvStep (.ok (rcvWith ps f)) = _
  induction pairs with
  | nil => intro f _; rfl
  | cons pv pairs ih =>
    intro f hmem
    simp only [pairsChunk, List.map_cons, List.foldl_cons]
    rw [rcvStep_rcvWith ps f pv.1 pv.2 (hmem pv List.mem_cons_self)]
    exact ih _ (fun q hq => hmem q (List.mem_cons_of_mem _ hq))

theorem checkCapacity_rcvWith (st : ReaderState) (ps : List Bytes) (f : Bytes → List Bytes)
    (h : ∀ p ∈ ps, (f p).length ≤ ((st.objects.get p).map (·.numValues)).getD 0) :
    checkCapacity st (rcvWith ps f) = .ok () := by
  unfold checkCapacity
  rw [if_pos]
  simp only [rcvWith, List.all_map, List.all_eq_true, Function.comp_def, Option.map_some, Option.getD_some,
    decide_eq_true_eq]
  exact fun p hp => ⟨h p hp, fun _ hx => by simp at hx⟩

/-! ## lengths -/

def lensOK : List ObjEnc → List (List Bytes) → Prop
  | [], [] => True
  | d :: ds, v :: vs => v.length = nvals d ∧ lensOK ds vs
  | _, _ => False

theorem lensOK_of_wfStdChunk (ds : List ObjEnc) :
    ∀ chunk, wfStdChunk (ds.map actOf) chunk = true → lensOK ds chunk := by
  induction ds with
  | nil => intro chunk h; cases chunk <;> simp [wfStdChunk, lensOK] at h ⊢
  | cons d ds ih =>
    intro chunk hch
    cases chunk with
    | nil => simp [wfStdChunk] at hch
    | cons v vs =>
      obtain ⟨p, idx, ps⟩ := d
      cases idx with
      | noData => simp [wfStdChunk, actOf] at hch
      | matchesPrev => simp [wfStdChunk, actOf] at hch
      | daqmx dg ty n sc w => simp [wfStdChunk, actOf] at hch
      | full ty n total =>
        simp only [List.map_cons, actOf, wfStdChunk, Bool.and_eq_true, decide_eq_true_eq] at hch
        exact ⟨hch.1.1, ih vs hch.2⟩

/-- values per chunk declared for a path -/
def nOf (os : List ObjEnc) (p : Bytes) : Nat := ((os.find? (·.path = p)).map nvals).getD 0

theorem nOf_not_mem (os : List ObjEnc) (p : Bytes) (h : p ∉ os.map (·.path)) : nOf os p = 0 := by
  have : os.find? (·.path = p) = none := by
    simp only [List.find?_eq_none, decide_eq_true_eq]
    exact fun o ho e => h (List.mem_map.mpr ⟨o, ho, e⟩)
  simp [nOf, this]

theorem nOf_cons_eq (o : ObjEnc) (os : List ObjEnc) : nOf (o :: os) o.path = nvals o := by
  simp [nOf]

theorem nOf_cons_ne (o : ObjEnc) (os : List ObjEnc) (p : Bytes) (h : o.path ≠ p) :
    nOf (o :: os) p = nOf os p := by
  simp [nOf, h]

theorem bump_foldl_not_mem (pairs : List (Bytes × List Bytes)) :
    ∀ (f : Bytes → List Bytes) (p : Bytes), p ∉ pairs.map (·.1) → pairs.foldl bump f p = f p := by
  induction pairs with
  | nil => intro f p _; rfl
  | cons pv pairs ih =>
    intro f p h
    simp only [List.map_cons, List.mem_cons, not_or] at h
    rw [List.foldl_cons, ih _ p h.2]
    simp [bump, h.1]

theorem chunkPairs_paths_sub (ds : List ObjEnc) (ch : List (List Bytes)) (p : Bytes)
    (h : p ∈ (chunkPairs ds ch).map (·.1)) : p ∈ ds.map (·.path) := by
  obtain ⟨pv, hpv, rfl⟩ := List.mem_map.mp h
  obtain ⟨a, b⟩ := pv
  exact (List.of_mem_zip hpv).1

theorem bump_length (ds : List ObjEnc) :
    ∀ (ch : List (List Bytes)) (f : Bytes → List Bytes), lensOK ds ch → (ds.map (·.path)).Nodup →
      ∀ p, ((chunkPairs ds ch).foldl bump f p).length = (f p).length + nOf ds p := by
  induction ds with
  | nil =>
    intro ch f h _ p
    cases ch with
    | nil => simp [chunkPairs, nOf]
    | cons v vs => simp [lensOK] at h
  | cons d ds ih =>
    intro ch f h hnd p
    cases ch with
    | nil => simp [lensOK] at h
    | cons v vs =>
      obtain ⟨hv, hrest⟩ := h
      simp only [List.map_cons, List.nodup_cons] at hnd
      obtain ⟨hno, hnd'⟩ := hnd
      have hcp : chunkPairs (d :: ds) (v :: vs) = (d.path, v) :: chunkPairs ds vs := rfl
      rw [hcp, List.foldl_cons, ih vs _ hrest hnd' p]
      by_cases hp : d.path = p
      · subst hp
        rw [nOf_cons_eq, nOf_not_mem ds d.path hno]
        simp [bump, hv]
      · rw [nOf_cons_ne d ds p hp]
        have : ¬ p = d.path := fun e => hp e.symm
        simp [bump, this]

theorem nOf_dataOs (os : List ObjEnc) (hnd : (os.map (·.path)).Nodup) (p : Bytes) :
    nOf (dataOs os) p = nOf os p := by
  induction os with
  | nil => rfl
  | cons o os ih =>
    simp only [List.map_cons, List.nodup_cons] at hnd
    obtain ⟨hno, hnd'⟩ := hnd
    have ih := ih hnd'
    by_cases hf : isFull o = true
    · have hd : dataOs (o :: os) = o :: dataOs os := by simp [dataOs, hf]
      rw [hd]
      by_cases hp : o.path = p
      · subst hp; rw [nOf_cons_eq, nOf_cons_eq]
      · rw [nOf_cons_ne _ _ _ hp, nOf_cons_ne _ _ _ hp, ih]
    · have hd : dataOs (o :: os) = dataOs os := by simp [dataOs, hf]
      rw [hd]
      by_cases hp : o.path = p
      · subst hp
        rw [nOf_cons_eq]
        have h0 : nvals o = 0 := by
          obtain ⟨q, idx, ps⟩ := o
          cases idx <;> simp [isFull] at hf <;> rfl
        rw [h0]
        apply nOf_not_mem
        intro hmem
        obtain ⟨x, hx, hxe⟩ := List.mem_map.mp hmem
        exact hno (List.mem_map.mpr ⟨x, (dataOs_sub hx).1, hxe⟩)
      · rw [nOf_cons_ne _ _ _ hp, ih]

/-! ## the chunk loop of `readFile` -/

/-- the loop body of `TdmsFile._read_data` -/
def fileStep (st : ReaderState) (acc : Except Err (List ChannelData)) (c : RawChunk) :
    Except Err (List ChannelData) := do
  let rs ← acc
  let rs' ← receiveChunk rs c
  checkCapacity st rs'
  pure rs'

theorem foldl_fileStep (st : ReaderState) (ps : List Bytes) (ds : List ObjEnc)
    (hmem : ∀ d ∈ ds, d.path ∈ ps) (hnd : (ds.map (·.path)).Nodup) :
    ∀ (chs : List (List (List Bytes))) (f : Bytes → List Bytes), (∀ ch ∈ chs, lensOK ds ch) →
      (∀ p ∈ ps, (f p).length + nOf ds p * chs.length ≤ ((st.objects.get p).map (·.numValues)).getD 0) →
      (chs.map fun ch => pairsChunk (chunkPairs ds ch)).foldl (fileStep st) (.ok (rcvWith ps f)) =
        .ok (rcvWith ps (valsAfter ds f chs)) := by
  intro chs
  induction chs with
  | nil => intro f _ _; rfl
  | cons ch chs ih =>
    intro f hok hcap
    have hlen := bump_length ds ch f (hok ch List.mem_cons_self) hnd
    have hrecv := receiveChunk_rcvWith ps (chunkPairs ds ch) f (by
      intro pv hpv
      have := chunkPairs_paths_sub ds ch pv.1 (List.mem_map.mpr ⟨pv, hpv, rfl⟩)
      obtain ⟨d, hd, hde⟩ := List.mem_map.mp this
      rw [← hde]; exact hmem d hd)
    have hcap' : ∀ p ∈ ps, ((chunkPairs ds ch).foldl bump f p).length + nOf ds p * chs.length ≤
        ((st.objects.get p).map (·.numValues)).getD 0 := by
      intro p hp
      have := hcap p hp
      rw [hlen p]
      simp only [List.length_cons, Nat.mul_succ] at this
      omega
    have hchk := checkCapacity_rcvWith st ps ((chunkPairs ds ch).foldl bump f) (by
      intro p hp
      have := hcap' p hp
      omega)
    have hstep : fileStep st (.ok (rcvWith ps f)) (pairsChunk (chunkPairs ds ch)) =
        .ok (rcvWith ps ((chunkPairs ds ch).foldl bump f)) := by
      simp only [fileStep, bind, Except.bind, hrecv, hchk, pure, Except.pure]
    simp only [List.map_cons, List.foldl_cons, hstep]
    exact ih _ (fun c hc => hok c (List.mem_cons_of_mem _ hc)) hcap'

theorem fileStep_empty (st : ReaderState) (ps : List Bytes) :
    fileStep st (.ok (rcvWith ps fun _ => [])) [] = .ok (rcvWith ps fun _ => []) := by
  have hchk := checkCapacity_rcvWith st ps (fun _ => []) (fun _ _ => Nat.zero_le _)
  have hrecv : receiveChunk (rcvWith ps fun _ => []) [] = .ok (rcvWith ps fun _ => []) := rfl
  simp only [fileStep, bind, Except.bind, hrecv, hchk, pure, Except.pure]

/-! ## receivers of the file -/

/-- only channels (two path components) carry data -/
def onlyChannelsHaveData (s : SegEnc) : Prop :=
  ∀ o ∈ s.objs, isFull o = true → countComponents o.path = 2

/-- paths that get a receiver -/
def rcvPaths (os : List ObjEnc) : List Bytes :=
  (os.filter fun o => decide (countComponents o.path = 2) && isFull o).map (·.path)

theorem newReceiver_metaOf (k : Nat) (o : ObjEnc) (hwf : wfObj o = true) :
    newReceiver (metaOf k o) = if isFull o then some ⟨o.path, some [], []⟩ else none := by
  obtain ⟨p, idx, ps⟩ := o
  cases idx with
  | noData => rfl
  | matchesPrev => rfl
  | daqmx dg ty n sc w => rfl
  | full ty n total =>
    have hne : ty ≠ tyDaqmxRaw := by
      simp only [wfObj, wfIdx, Bool.and_eq_true, Bool.or_eq_true, decide_eq_true_eq] at hwf
      rcases hwf.1.1.1 with h | h
      · rw [h]; decide
      · intro e; rw [e] at h; revert h; decide
    simp [newReceiver, metaOf, tyOf, isFull, hne]

theorem receivers_eq (k : Nat) (os : List ObjEnc) (hwf : ∀ o ∈ os, wfObj o = true) :
    ((os.map (metaOf k)).filter fun m => countComponents m.path = 2).filterMap newReceiver =
      rcvWith (rcvPaths os) (fun _ => []) := by
  induction os with
  | nil => rfl
  | cons o os ih =>
    have ih := ih (fun q hq => hwf q (List.mem_cons_of_mem _ hq))
    have hp : (metaOf k o).path = o.path := rfl
    simp only [List.map_cons, List.filter_cons, hp, rcvPaths] at ih ⊢
    by_cases hc : countComponents o.path = 2
    · simp only [hc, decide_true, if_true, List.filterMap_cons, newReceiver_metaOf k o (hwf o List.mem_cons_self),
        Bool.true_and]
      cases hf : isFull o
      · simpa using ih
      · simp only [if_true, List.map_cons, rcvWith, List.cons.injEq, true_and]
        exact ih
    · simp only [hc, decide_false, Bool.false_eq_true, if_false, Bool.false_and]
      exact ih

theorem get_metaOf (k : Nat) (os : List ObjEnc) (p : Bytes) :
    ((ObjMetas.get (os.map (metaOf k)) p).map (·.numValues)).getD 0 = nOf os p * k := by
  induction os with
  | nil => simp [ObjMetas.get, nOf]
  | cons o os ih =>
    have hp : (metaOf k o).path = o.path := rfl
    by_cases h : o.path = p
    · subst h
      rw [nOf_cons_eq]
      simp [ObjMetas.get, metaOf]
    · rw [nOf_cons_ne _ _ _ h, ← ih]
      simp [ObjMetas.get, hp, h]

theorem valsAfter_not_mem (ds : List ObjEnc) (p : Bytes) (h : p ∉ ds.map (·.path)) :
    ∀ (chs : List (List (List Bytes))) (f : Bytes → List Bytes), valsAfter ds f chs p = f p := by
  intro chs
  induction chs with
  | nil => intro f; rfl
  | cons ch chs ih =>
    intro f
    show valsAfter ds ((chunkPairs ds ch).foldl bump f) chs p = f p
    rw [ih, bump_foldl_not_mem _ _ _ (fun hm => h (chunkPairs_paths_sub ds ch p hm))]

theorem setCols_eq_pairs (ds : List ObjEnc) (ch : List (List Bytes)) (hnd : (ds.map (·.path)).Nodup) :
    setCols [] (ds.map segObjOf) ch = pairsChunk (chunkPairs ds ch) := by
  rw [Tdms.Proofs.C01.setCols_of_distinct_paths]
  · simp only [pairsChunk, chunkPairs, List.zip_map_left, List.map_map]
    apply List.map_congr_left
    intro x _
    simp [Prod.map, segObjOf_path]
  · simp only [List.map_map]
    rw [show ((fun x : SegObj => x.path) ∘ segObjOf) = fun o : ObjEnc => o.path from
      funext fun o => segObjOf_path o]
    exact hnd

end Tdms.Proofs.C01Compose
