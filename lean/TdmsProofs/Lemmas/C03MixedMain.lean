/-
  C03 — mixed files (contiguous and interleaved segments): the whole-channel lazy read
  (`read_raw_data_for_channel(path)`, `read_data()`) against the eager read.  The window `(0, None)`
  trims nothing, so the planned segment reads are returned as they are; no use of the C04 window
  theorem (whose chunk-by-chunk supplier does not describe interleaved segments).  Core Lean only.
-/
import TdmsProofs.Lemmas.C03MixedSeg

namespace Tdms.Proofs.C03

open Tdms Tdms.Generated Tdms.Model Tdms.Proofs.Bytes Tdms.Proofs.C04 Tdms.Proofs.C06

/-- what the lazy segment reads return, both layouts -/
def supM (file : Bytes) (segs : List Segment) (p : Bytes) : Supplier := fun i co nc =>
  match segs[i]? with
  | some s => supMSeg file s p co nc
  | none => []

/-! ## concatenation over a range of segment indices -/

/-- `g i ++ g (i+1) ++ … ++ g (i+cnt-1)` -/
def catRange {α : Type} (g : Nat → List α) : Nat → Nat → List α
  | _, 0 => []
  | i, cnt + 1 => g i ++ catRange g (i + 1) cnt

theorem catRange_add {α : Type} (g : Nat → List α) (i a b : Nat) :
    catRange g i (a + b) = catRange g i a ++ catRange g (i + a) b := by
  induction a generalizing i with
  | zero => simp [catRange]
  | succ a ih =>
    rw [show a + 1 + b = (a + b) + 1 by omega]
    simp only [catRange]
    rw [ih (i + 1), List.append_assoc]
    congr 3; omega

theorem catRange_nil {α : Type} (g : Nat → List α) (i cnt : Nat) (h : ∀ j, i ≤ j → j < i + cnt → g j = []) :
    catRange g i cnt = [] := by
  induction cnt generalizing i with
  | zero => rfl
  | succ cnt ih =>
    simp only [catRange]
    rw [h i (Nat.le_refl _) (by omega), ih (i + 1) (fun j h1 h2 => h j (by omega) (by omega))]
    rfl

theorem flatMap_eq_catRange {α β : Type} (l : List α) (F : α → List β) :
    ∀ i, (l.drop i).flatMap F = catRange (fun j => match l[j]? with | some a => F a | none => []) i (l.length - i) := by
  intro i
  induction hn : l.length - i generalizing i with
  | zero => rw [List.drop_eq_nil_of_le (by omega)]; rfl
  | succ n ih =>
    have hi : i < l.length := by omega
    rw [List.drop_eq_getElem_cons hi, List.flatMap_cons]
    simp only [catRange, List.getElem?_eq_getElem hi]
    rw [ih (i + 1) (by omega)]

/-- a function that vanishes outside `[S, E]` concatenates to its concatenation over `[S, E]` -/
theorem catRange_window {α : Type} (g : Nat → List α) (S E N : Nat) (hN : E + 1 ≤ N)
    (hz : ∀ j, (j < S ∨ E < j) → g j = []) : catRange g 0 N = catRange g S (E + 1 - S) := by
  rcases Nat.lt_or_ge (E + 1) S with hlt | hge
  · have : E + 1 - S = 0 := by omega
    rw [this]
    simp only [catRange]
    apply catRange_nil
    intro j _ _
    apply hz
    omega
  · have hsplit : N = S + ((E + 1 - S) + (N - (E + 1))) := by omega
    rw [hsplit, catRange_add, catRange_add]
    rw [catRange_nil g 0 S (fun j _ h2 => hz j (Or.inl (by omega))),
      catRange_nil g (0 + S + (E + 1 - S)) _ (fun j h1 _ => hz j (Or.inr (by omega)))]
    simp

/-! ## the raw loop -/

/-- the planned segment reads of segments `i, …, i+cnt-1`, untrimmed -/
def rawFrom (sup : Supplier) (plan : Nat → Segment → Option (Int × Int × Int)) (segs : List Segment) (i cnt : Nat) :
    List ChanChunk :=
  catRange (fun j => match segs[j]? with
    | some s => (match plan j s with
      | some (co, _, nc) => sup j co.toNat nc
      | none => [])
    | none => []) i cnt

/-- a window loop that never skips and never has to trim returns the planned reads as they are -/
theorem windowLoopPure_raw (sup : Supplier) (p : Bytes) (ix : ChannelIndex) (endIndex len : Int) (S E : Nat)
    (segs : List Segment) :
    ∀ (cnt i : Nat) (vr : Int),
      (∀ j s, segs[j]? = some s → i ≤ j → j < i + cnt → ∀ co skip nc,
        segPlan p ix 0 endIndex S E j s = some (co, skip, nc) → skip = 0) →
      vr + (lenSum (rawFrom sup (segPlan p ix 0 endIndex S E) segs i cnt) : Int) ≤ len →
      windowLoopPure sup p ix 0 endIndex len S E ((segs.drop i).take cnt) i vr
        = rawFrom sup (segPlan p ix 0 endIndex S E) segs i cnt := by
  intro cnt
  induction cnt with
  | zero => intro i vr _ _; simp [windowLoopPure, rawFrom, catRange]
  | succ cnt ih =>
    intro i vr hskip hb
    unfold rawFrom at hb ⊢
    simp only [catRange] at hb ⊢
    rw [lenSum_append] at hb
    have hrest := ih (i + 1)
    unfold rawFrom at hrest
    rcases Nat.lt_or_ge i segs.length with hi | hi
    · have hs : segs[i]? = some segs[i] := List.getElem?_eq_getElem hi
      rw [List.drop_eq_getElem_cons hi, List.take_succ_cons]
      generalize segs[i] = s at hs
      rw [hs] at hb ⊢
      simp only [] at hb ⊢
      unfold windowLoopPure
      cases hplan : segPlan p ix 0 endIndex S E i s with
      | none =>
        rw [hplan] at hb
        simp only [List.nil_append]
        exact hrest vr (fun j s' hs' h1 h2 => hskip j s' hs' (by omega) (by omega))
          (by simpa [lenSum] using hb)
      | some t =>
        obtain ⟨co, skip, nc⟩ := t
        rw [hplan] at hb
        simp only [] at hb ⊢
        have hsk := hskip i s hs (Nat.le_refl _) (by omega) co skip nc hplan
        subst hsk
        simp only [Int.toNat_zero]
        have hn0 : (0 : Int) ≤ (lenSum (catRange (fun j => match segs[j]? with
            | some s => (match segPlan p ix 0 endIndex S E j s with
              | some (co, _, nc) => sup j co.toNat nc
              | none => [])
            | none => []) (i + 1) cnt) : Int) := Int.natCast_nonneg _
        rw [trimStream_id _ _ vr (by simp only [Int.natCast_add] at hb; omega)]
        simp only []
        rw [hrest _ (fun j s' hs' h1 h2 => hskip j s' hs' (by omega) (by omega))
          (by simp only [Int.natCast_add] at hb; omega)]
    · rw [List.drop_eq_nil_of_le hi]
      simp only [List.take_nil, windowLoopPure]
      rw [List.getElem?_eq_none hi]
      simp only [List.nil_append]
      symm
      apply catRange_nil
      intro j h1 _
      rw [List.getElem?_eq_none (by omega)]

/-! ## the whole-channel read on a mixed file -/

section
variable (f : OpenFile) (p : Bytes) (m : ObjMeta) (hok : SegsMOk f.file f.segments)
  (hc : ChanOk f.objects f.segments p m)
include hok hc

/-- everything about one planned segment read of the window `(0, None)` -/
theorem mixed_planned (i : Nat) (s : Segment) (hs : f.segments[i]? = some s) (h1 : chanStart f p ≤ i)
    (h2 : i ≤ chanEnd f p m.numValues) (co skip nc : Int)
    (hplan : chanPlan f p m.numValues i s = some (co, skip, nc)) :
    co = 0 ∧ skip = 0 ∧
    (∀ st, ∃ st', segReadChannel f.file s p 0 (some nc) st = .ok (supMSeg f.file s p 0 nc, st')) ∧
    dataOf (supMSeg f.file s p 0 nc) = segE f.file s p ∧
    lenSum (supMSeg f.file s p 0 nc) ≤ (layoutOf p s).nvals := by
  have hso := hok s (List.mem_of_getElem? hs)
  have hwf : (layoutOf p s).WF := hc.wf _ (List.mem_map_of_mem (List.mem_of_getElem? hs))
  have hpo := plan_ok f.segments p m.numValues hc.wf hc.num 0 none (Int.le_refl 0)
  have hpz := plan_zero f.segments p m.numValues hc.wf hc.num none
  have hpf := plan_full f.segments p m.numValues hc.wf hc.num
  rw [windowParams_zero_none] at hpo hpz hpf
  have a := hpo i s hs h1 h2 co skip nc hplan
  have b := hpz i s hs h1 h2 co skip nc hplan
  have c := hpf i s hs h1 h2 co skip nc hplan
  have hcs : (layoutOf p s).cs ≠ 0 := segPlan_cs hplan
  refine ⟨b.1, b.2, ?_⟩
  rcases hso.data with hcg | hi
  · have hsup : supMSeg f.file s p 0 nc = lazySegChunks f.file s (segCsz s) p 0 nc := by
      unfold supMSeg; rw [hcg.kind]
    rw [hsup]
    obtain ⟨d1, d2, _⟩ := contig_seg_facts hso p hcg hwf hcs nc c
    refine ⟨fun st => segReadChannel_exact f.file s (segCsz s) hcg p 0 nc (by have := a.inside; rw [b.1] at this; simpa using this) st,
      d1, d2⟩
  · have hsup : ∀ nc', supMSeg f.file s p 0 nc' = (if !hasFlag s.toc kTocRawData then [({} : ChanChunk)] else []) ++
        (segChunksG f.file s).map (fun c => RawChunk.get c p) := by
      intro nc'; unfold supMSeg; rw [hi.kind]
    have hfs : (layoutOf p s).fs = (layoutOf p s).cs := by simp [SegL.fs, layoutOf, hi.noOverride]
    have hnc : nc = s.numChunks := by
      rcases c with c | ⟨_, _, c⟩
      · exact c
      · rw [hfs] at c; exact absurd c hcs
    obtain ⟨d1, d2, _⟩ := inter_seg_facts hso p hi hcs
    rw [hsup]
    refine ⟨fun st => by rw [hnc]; exact segReadChannel_inter f.file s p hi st, ?_, ?_⟩
    · rw [dataOf_append, d1]
      split <;> simp [dataOf]
    · rw [lenSum_append]
      have : lenSum (if (!hasFlag s.toc kTocRawData) = true then [({} : ChanChunk)] else []) = 0 := by
        split <;> simp [lenSum, ChanChunk.len]
      omega

/-- a segment in which the layout gives the channel no values holds nothing for it -/
theorem mixed_absent (s : Segment) (hs : s ∈ f.segments) (hnv : (layoutOf p s).nvals = 0) : segE f.file s p = [] := by
  have hso := hok s hs
  have hwf : (layoutOf p s).WF := hc.wf _ (List.mem_map_of_mem hs)
  rcases hso.data with hcg | hi
  · exact contig_seg_absent hso p hcg hwf hnv
  · exact inter_seg_absent hso p hi hnv

/-- **the hypothesis of the C04 link lemma for the window `(0, None)` on a mixed file** -/
theorem readsAs_mixed : ReadsAs f p m.numValues 0 none (supM f.file f.segments p) := by
  unfold ReadsAs
  rw [windowParams_zero_none]
  intro w i s hs h1 h2
  have hso := hok s (List.mem_of_getElem? hs)
  refine ⟨fun st => verifySegmentStart_okF hso.toF st, ?_⟩
  intro co skip nc hplan st
  obtain ⟨hco, _, hread, _, _⟩ := mixed_planned f p m hok hc i s hs h1 h2 co skip nc hplan
  subst hco
  obtain ⟨st', h⟩ := hread st
  refine ⟨st', ?_⟩
  show segReadChannel f.file s p 0 (some nc) st = _
  rw [h]
  simp [supM, hs]

/-- the eager values of the channel, segment by segment -/
def gE (file : Bytes) (segs : List Segment) (p : Bytes) : Nat → List Bytes := fun j =>
  match segs[j]? with
  | some s => segE file s p
  | none => []

theorem rawFrom_facts : ∀ (cnt i : Nat), chanStart f p ≤ i → i + cnt = chanEnd f p m.numValues + 1 →
    dataOf (rawFrom (supM f.file f.segments p) (chanPlan f p m.numValues) f.segments i cnt)
      = catRange (gE f.file f.segments p) i cnt ∧
    lenSum (rawFrom (supM f.file f.segments p) (chanPlan f p m.numValues) f.segments i cnt) ≤
      ((((f.segments.map (layoutOf p)).map SegL.nvals).drop i).take cnt).sum := by
  intro cnt
  induction cnt with
  | zero => intro i _ _; simp [rawFrom, catRange, dataOf, lenSum]
  | succ cnt ih =>
    intro i h1 h2
    obtain ⟨ih1, ih2⟩ := ih (i + 1) (by omega) (by omega)
    unfold rawFrom at ih1 ih2 ⊢
    simp only [catRange]
    rw [dataOf_append, lenSum_append, ih1]
    cases hs : f.segments[i]? with
    | none =>
      have hlen : f.segments.length ≤ i := by
        rcases Nat.lt_or_ge i f.segments.length with h | h
        · rw [List.getElem?_eq_getElem h] at hs; cases hs
        · exact h
      have : lenSum (catRange (fun j => match f.segments[j]? with
          | some s => (match chanPlan f p m.numValues j s with
            | some (co, _, nc) => supM f.file f.segments p j co.toNat nc
            | none => [])
          | none => []) (i + 1) cnt) = 0 := by
        rw [catRange_nil _ _ _ (fun j h1 _ => by rw [List.getElem?_eq_none (by omega)])]
        rfl
      constructor
      · simp [gE, hs, dataOf]
      · rw [this]; simp [lenSum]
    | some s =>
      have hi : i < f.segments.length := by
        rcases Nat.lt_or_ge i f.segments.length with h | h
        · exact h
        · rw [List.getElem?_eq_none h] at hs; cases hs
      have hsi : f.segments[i] = s := by rw [List.getElem?_eq_getElem hi] at hs; exact Option.some.inj hs
      have hi' : i < ((f.segments.map (layoutOf p)).map SegL.nvals).length := by simpa using hi
      rw [List.drop_eq_getElem_cons hi', List.take_succ_cons, List.sum_cons]
      have hnvi : ((f.segments.map (layoutOf p)).map SegL.nvals)[i] = (layoutOf p s).nvals := by simp [hsi]
      rw [hnvi]
      simp only [gE, hs]
      cases hplan : chanPlan f p m.numValues i s with
      | none =>
        simp only [dataOf_nil, List.nil_append]
        have hcs : (layoutOf p s).cs = 0 := by
          unfold chanPlan at hplan
          rw [segPlan_eq_planA] at hplan
          unfold planA at hplan
          split at hplan
          · assumption
          · cases hplan
        have hnv : (layoutOf p s).nvals = 0 := by unfold SegL.nvals; rw [if_pos hcs]
        rw [mixed_absent f p m hok hc s (List.mem_of_getElem? hs) hnv]
        refine ⟨rfl, ?_⟩
        simp only [lenSum, List.map_nil, List.sum_nil, Nat.zero_add] at ih2 ⊢
        omega
      | some t =>
        obtain ⟨co, skip, nc⟩ := t
        obtain ⟨hco, _, _, hd, hl⟩ := mixed_planned f p m hok hc i s hs h1 (by omega) co skip nc hplan
        subst hco
        simp only [Int.toNat_zero]
        have hsup : supM f.file f.segments p i 0 nc = supMSeg f.file s p 0 nc := by simp [supM, hs]
        rw [hsup, hd]
        refine ⟨rfl, ?_⟩
        omega

/-- the pure window `(0, None)` over the mixed supplier carries the concatenation over all segments
    of the eager values -/
theorem windowPureG_mixed :
    dataOf (windowPureG f.segments p m.numValues (supM f.file f.segments p) 0 none)
      = f.segments.flatMap fun s => segE f.file s p := by
  -- the eager side as a concatenation over segment indices
  have heager : (f.segments.flatMap fun s => segE f.file s p)
      = catRange (gE f.file f.segments p) 0 f.segments.length := by
    have := flatMap_eq_catRange f.segments (fun s => segE f.file s p) 0
    simp only [List.drop_zero, Nat.sub_zero] at this
    rw [this]
    congr 1
    funext j
    unfold gE
    cases f.segments[j]? <;> rfl
  -- the frame: no values before the first and after the last visited segment
  have spec := buildIndex_spec f.segments p
  rw [nvOf_eq f.segments p hc.wf] at spec
  have htot : m.numValues = ((f.segments.map (layoutOf p)).map SegL.nvals).sum := by rw [hc.num]; rfl
  have fr : Frame _ (buildIndex f.segments p) 0 (m.numValues : Int) (chanStart f p) (chanEnd f p m.numValues) :=
    frame_of_spec _ _ spec 0 (m.numValues : Int) (Int.le_refl 0) (by rw [← htot]; exact Int.le_refl _)
  have hzero : ∀ j, (j < chanStart f p ∨ chanEnd f p m.numValues < j) → gE f.file f.segments p j = [] := by
    intro j hj
    unfold gE
    cases hs : f.segments[j]? with
    | none => rfl
    | some s =>
      simp only []
      apply mixed_absent f p m hok hc s (List.mem_of_getElem? hs)
      have hjl : j < f.segments.length := by
        rcases Nat.lt_or_ge j f.segments.length with h | h
        · exact h
        · rw [List.getElem?_eq_none h] at hs; cases hs
      have hsj : f.segments[j] = s := by rw [List.getElem?_eq_getElem hjl] at hs; exact Option.some.inj hs
      have hjl' : j < ((f.segments.map (layoutOf p)).map SegL.nvals).length := by simpa using hjl
      have hnvj : ((f.segments.map (layoutOf p)).map SegL.nvals)[j] = (layoutOf p s).nvals := by simp [hsj]
      have hps := psum_succ _ j hjl'
      rw [hnvj] at hps
      rcases hj with hj | hj
      · have hA := fr.hA
        have hmono := psum_mono ((f.segments.map (layoutOf p)).map SegL.nvals) (show j + 1 ≤ chanStart f p by omega)
        omega
      · have hC := fr.hC
        have hmono := psum_mono ((f.segments.map (layoutOf p)).map SegL.nvals) (show chanEnd f p m.numValues + 1 ≤ j by omega)
        have hle := psum_le_sum ((f.segments.map (layoutOf p)).map SegL.nvals) (j + 1)
        omega
  have hbeyond : ∀ j, f.segments.length ≤ j → gE f.file f.segments p j = [] := by
    intro j hj; unfold gE; rw [List.getElem?_eq_none hj]
  rw [heager]
  -- extend the eager concatenation to an index range that covers the last visited segment
  have hext : catRange (gE f.file f.segments p) 0 f.segments.length
      = catRange (gE f.file f.segments p) 0 (f.segments.length + (chanEnd f p m.numValues + 1)) := by
    rw [catRange_add, catRange_nil _ (0 + f.segments.length) _ (fun j h1 _ => hbeyond j (by omega))]
    simp
  rw [hext, catRange_window _ (chanStart f p) (chanEnd f p m.numValues) _ (by omega) hzero]
  unfold windowPureG
  rw [windowParams_zero_none]
  simp only []
  rcases Nat.lt_or_ge (chanEnd f p m.numValues) (chanStart f p) with hlt | hge
  · have : chanEnd f p m.numValues + 1 - chanStart f p = 0 := by omega
    rw [this]
    simp [catRange, windowLoopPure, dataOf]
  · obtain ⟨hd, hl⟩ := rawFrom_facts f p m hok hc (chanEnd f p m.numValues + 1 - chanStart f p) (chanStart f p)
      (Nat.le_refl _) (by omega)
    have h2 := psum_add ((f.segments.map (layoutOf p)).map SegL.nvals) (chanStart f p)
      (chanEnd f p m.numValues + 1 - chanStart f p)
    have h3 := psum_le_sum ((f.segments.map (layoutOf p)).map SegL.nvals)
      (chanStart f p + (chanEnd f p m.numValues + 1 - chanStart f p))
    have hplanEq : segPlan p (buildIndex f.segments p) 0 (m.numValues : Int) (chanStart f p)
        (chanEnd f p m.numValues) = chanPlan f p m.numValues := rfl
    rw [windowLoopPure_raw _ p _ _ _ _ _ f.segments _ (chanStart f p) 0
      (by intro j s hs h1 h2 co skip nc hplan
          exact (mixed_planned f p m hok hc j s hs h1 (by omega) co skip nc hplan).2.1)
      (by rw [hplanEq]; omega)]
    rw [hplanEq]
    exact hd

/-- **whole-channel read on a mixed file**: the chunks `read_raw_data_for_channel(path)` yields carry,
    concatenated, the concatenation over all segments of the eager values -/
theorem readRawDataForChannel_mixed (st : FState) :
    ∃ cs st', (readRawDataForChannel f p 0 none).run st = .ok (cs, st') ∧
      dataOf cs = f.segments.flatMap fun s => segE f.file s p := by
  have hnum : ((f.objects.get p).map (·.numValues)).getD 0 = m.numValues := by rw [hc.get]; rfl
  have hreads := readsAs_mixed f p m hok hc
  rw [← hnum] at hreads
  obtain ⟨st', hrun⟩ := readRawDataForChannel_eq_windowPureG f p 0 none _ hreads st
  rw [hnum] at hrun
  exact ⟨_, st', hrun, windowPureG_mixed f p m hok hc⟩

/-- `read_data()` on a mixed file -/
theorem channelReadData_mixed (hty : m.dataType.isSome = true) (st : FState) :
    ∃ st' r, (channelReadData f p 0 none).run st = .ok (some r, st') ∧
      r.data.getD [] = f.segments.flatMap fun s => segE f.file s p := by
  obtain ⟨st', r, hrun, hr⟩ := channelReadData_eq_windowPure f p m 0 none _ hc.get hty (Int.le_refl 0)
    (by intro l h; cases h) (readsAs_mixed f p m hok hc) st
  exact ⟨st', r, hrun, by rw [hr]; exact windowPureG_mixed f p m hok hc⟩

end

/-- the eager read of a mixed file holds, for every path, the concatenation over the segments of `segE` -/
theorem readFile_mixed (file : Bytes) (r : EagerResult) (h : readFile file = .ok r)
    (hok : SegsMOk file r.state.segments) (p : Bytes) :
    Tdms.Proofs.C01Compose.valuesIn r.channels p = r.state.segments.flatMap fun s => segE file s p := by
  obtain ⟨chunks, fs, _, hrun, hv⟩ := readFile_values file r h
  obtain ⟨st', h2⟩ := readRawDataAll_G file r.state.segments hok.toF {}
  have : (readRawDataAll file r.state.segments).run {} = .ok (eagerChunksAllG file r.state.segments, st') := h2
  rw [this] at hrun
  simp only [Except.ok.injEq, Prod.mk.injEq] at hrun
  rw [hv p, ← hrun.1]
  unfold streamVals eagerChunksAllG
  generalize r.state.segments = segs
  induction segs with
  | nil => rfl
  | cons s ss ih =>
    rw [List.flatMap_cons, List.flatMap_append, ih, List.flatMap_cons]
    congr 1
    unfold segE streamVals
    rw [List.flatMap_append]
    have hpre : ((if !hasFlag s.toc kTocRawData then [([] : RawChunk)] else []).flatMap fun c => chunkVals c p) = [] := by
      split <;> simp [chunkVals_nil]
    rw [hpre, List.nil_append]

end Tdms.Proofs.C03
