import Tdms.Model.Lazy
import Lean.Elab.Tactic

/-!
# C05: a small relational logic for the I/O monad `F`

`RelF pre post m`: running `m` from two `FState`s related by `pre` gives the same outcome (same
error, or same value) and final states related by `post`.  With `Any` (no constraint) and `SP`
(same file position) this gives the four notions used for C05:

* `RelF SP SP`   (`Respects`): the trace is write-only, the result depends on the position only;
* `RelF Any SP`  (`Resets`):   same value and same final position from ANY two states (seek first);
* `RelF Any Any` (`PosIndep`): same value from ANY two states;
* `RelF SP Any`.
-/

namespace Tdms.Proofs.C05

open Tdms Tdms.Model Tdms.Generated

/-- relation on outcomes -/
def ExRel {α : Type} (R : α → α → Prop) : Except Err α → Except Err α → Prop
  | .ok a, .ok b => R a b
  | .error e₁, .error e₂ => e₁ = e₂
  | _, _ => False

@[reducible] def Any : FState → FState → Prop := fun _ _ => True
@[reducible] def SP : FState → FState → Prop := fun s t => s.pos = t.pos

structure RelF {α : Type} (pre post : FState → FState → Prop) (m : F α) : Prop where
  run : ∀ s₁ s₂, pre s₁ s₂ → ExRel (fun x y => x.1 = y.1 ∧ post x.2 y.2) (m s₁) (m s₂)

/-- the trace is write-only -/
abbrev Respects {α : Type} (m : F α) : Prop := RelF SP SP m
/-- same value and same final position from any two start states -/
abbrev Resets {α : Type} (m : F α) : Prop := RelF Any SP m
/-- same value from any two start states -/
abbrev PosIndep {α : Type} (m : F α) : Prop := RelF Any Any m

class Le (a b : FState → FState → Prop) : Prop where
  le : ∀ s t, a s t → b s t

instance (a : FState → FState → Prop) : Le a a := ⟨fun _ _ h => h⟩
instance (a : FState → FState → Prop) : Le a Any := ⟨fun _ _ _ => trivial⟩

variable {α β : Type} {pre post mid pre' post' : FState → FState → Prop}

theorem RelF.mono {m : F α} [hp : Le pre' pre] [hq : Le post post'] (h : RelF pre post m) :
    RelF pre' post' m := by
  refine ⟨fun s₁ s₂ hs => ?_⟩
  have := h.run s₁ s₂ (hp.le _ _ hs)
  revert this
  cases m s₁ <;> cases m s₂ <;> simp [ExRel]
  intro h1 h2; exact ⟨h1, hq.le _ _ h2⟩

theorem RelF.bind {m : F α} {k : α → F β} (hm : RelF pre mid m) (hk : ∀ x, RelF mid post (k x)) :
    RelF pre post (m >>= k) := by
  refine ⟨fun s₁ s₂ hs => ?_⟩
  have := hm.run s₁ s₂ hs
  show ExRel _ (m s₁ >>= fun p => k p.1 p.2) (m s₂ >>= fun p => k p.1 p.2)
  revert this
  cases h1 : m s₁ <;> cases h2 : m s₂
  · intro h; exact h
  · intro h; exact h.elim
  · intro h; exact h.elim
  · rename_i a b
    obtain ⟨a1, a2⟩ := a; obtain ⟨b1, b2⟩ := b
    rintro ⟨rfl, hpost⟩
    exact (hk _).run _ _ hpost

theorem RelF.pure [Le pre post] (a : α) : RelF pre post (pure a : F α) := by
  refine ⟨fun s₁ s₂ hs => ?_⟩
  exact ⟨rfl, Le.le _ _ hs⟩

theorem RelF.throw (e : Err) : RelF pre post (throw e : F α) := by
  refine ⟨fun s₁ s₂ _ => ?_⟩
  show e = e
  rfl

theorem RelF.liftE [Le pre post] (x : Except Err α) : RelF pre post (liftE x) := by
  refine ⟨fun s₁ s₂ hs => ?_⟩
  cases x with
  | ok a => exact ⟨rfl, Le.le _ _ hs⟩
  | error e => show e = e; rfl

theorem RelF.fRead (file : Bytes) (n : Nat) : RelF SP SP (fRead file n) := by
  refine ⟨fun s₁ s₂ hs => ?_⟩
  simp only [SP] at hs
  simp [Tdms.Model.fRead, ExRel, hs]

theorem RelF.fReadAll (file : Bytes) : RelF SP SP (fReadAll file) := by
  refine ⟨fun s₁ s₂ hs => ?_⟩
  simp only [SP] at hs
  simp [Tdms.Model.fReadAll, ExRel, hs]

theorem RelF.fSeek (p : Nat) : RelF Any SP (fSeek p) := by
  refine ⟨fun s₁ s₂ _ => ?_⟩
  simp [Tdms.Model.fSeek, ExRel]

theorem RelF.fTell : RelF SP SP fTell := by
  refine ⟨fun s₁ s₂ hs => ?_⟩
  simp only [SP] at hs
  simp [Tdms.Model.fTell, ExRel, hs, SP]

theorem RelF.ite {c : Prop} [Decidable c] {a b : F α} (ha : RelF pre post a) (hb : RelF pre post b) :
    RelF pre post (if c then a else b) := by
  split <;> assumption

/-! ### the named closure rules of the C05 architecture -/

theorem respects_bind {m : F α} {k : α → F β} (hm : Respects m) (hk : ∀ x, Respects (k x)) : Respects (m >>= k) :=
  RelF.bind hm hk

/-- seek first, then anything that respects the position: same value and final position from any state -/
theorem resets_seek_bind (p : Nat) {k : Unit → F β} (hk : ∀ x, Respects (k x)) : Resets (fSeek p >>= k) :=
  RelF.bind (RelF.fSeek p) hk

theorem posIndep_seek_bind (p : Nat) {k : Unit → F β} (hk : ∀ x, Respects (k x)) : PosIndep (fSeek p >>= k) :=
  (resets_seek_bind p hk).mono

theorem posIndep_pure (a : α) : PosIndep (pure a : F α) := RelF.pure a

theorem respects_of_resets {m : F α} (h : Resets m) : Respects m := h.mono

theorem posIndep_of_resets {m : F α} (h : Resets m) : PosIndep m := h.mono

theorem resets_bind {m : F α} {k : α → F β} (hm : Resets m) (hk : ∀ x, Respects (k x)) : Resets (m >>= k) :=
  RelF.bind hm hk

theorem posIndep_bind {m : F α} {k : α → F β} (hm : PosIndep m) (hk : ∀ x, PosIndep (k x)) : PosIndep (m >>= k) :=
  RelF.bind hm hk

/-- after a resetting prefix the continuation only has to give the same value from equal positions -/
theorem posIndep_bind_resets {m : F α} {k : α → F β} (hm : Resets m) (hk : ∀ x, RelF SP Any (k x)) :
    PosIndep (m >>= k) :=
  RelF.bind hm hk

/-- extensible database of known facts about model functions -/
syntax "rel_fact" : tactic
macro_rules | `(tactic| rel_fact) => `(tactic| assumption)
macro_rules | `(tactic| rel_fact) => `(tactic| apply_assumption)
macro_rules | `(tactic| rel_fact) => `(tactic| exact RelF.fRead _ _)
macro_rules | `(tactic| rel_fact) => `(tactic| exact RelF.fReadAll _)
macro_rules | `(tactic| rel_fact) => `(tactic| exact RelF.fSeek _)
macro_rules | `(tactic| rel_fact) => `(tactic| exact RelF.fTell)

/-- leaf goals -/
syntax "rel_leaf" : tactic
macro_rules | `(tactic| rel_leaf) => `(tactic| first
  | exact RelF.pure _
  | exact RelF.throw _
  | exact RelF.liftE _
  | exact RelF.mono (by rel_fact))

open Lean Elab Tactic Meta

/-- the monadic term `m` of a goal `RelF pre post m` (after unfolding reducible abbreviations),
    together with the goal restated in that form -/
def relGoal : TacticM (MVarId × Expr × Expr) := do
  let g ← getMainGoal
  let tgt ← whnfR (← instantiateMVars (← g.getType))
  unless tgt.isAppOf ``RelF && tgt.getAppNumArgs == 4 do throwError "not a RelF goal"
  let g ← g.replaceTargetDefEq tgt
  return (g, tgt.appFn!, tgt.appArg!)

/-- succeeds iff the goal is syntactically `RelF _ _ (_ >>= _)` -/
elab "rel_guard_bind" : tactic => withMainContext do
  let (g, _, e) ← relGoal
  unless e.isAppOf ``Bind.bind do throwError "not a bind"
  replaceMainGoal [g]

/-- beta-reduce the head of the monadic term -/
elab "rel_beta" : tactic => withMainContext do
  let (g, fn, e) ← relGoal
  unless e.isHeadBetaTarget do throwError "no beta redex"
  replaceMainGoal [← g.replaceTargetDefEq (mkApp fn e.headBeta)]

/-- `RelF pre post (match d with ...)`: split exactly that match -/
elab "rel_match" : tactic => withMainContext do
  let (g, _, e) ← relGoal
  unless (← matchMatcherApp? e).isSome do throwError "not a match"
  let gs ← Split.splitMatch g e
  replaceMainGoal gs

/-- `RelF pre post (have x := v; b)`.  A join point (`x` a function into `F _`) is proved once and
    then kept abstract; any other binding is substituted. -/
elab "rel_have" : tactic => withMainContext do
  let (g, fn, e) ← relGoal
  let .letE n t v b _ := e | throwError "not a have"
  let isJp ← forallTelescopeReducing t fun xs r => do
    return xs.size > 0 && (← whnfR r).isAppOf ``StateT
  let jpGoals? ← observing? do
    unless isJp do throwError "not a join point"
    let h1Ty ← forallTelescopeReducing t fun xs _ => do
      let body := mkApp fn (v.beta xs)
      check body
      mkForallFVars xs body
    let h2Ty ← withLocalDeclD n t fun jp => do
      let hjpTy ← forallTelescopeReducing t fun xs _ => mkForallFVars xs (mkApp fn (mkAppN jp xs))
      withLocalDeclD `hjp hjpTy fun hjp => do
        mkForallFVars #[jp, hjp] (mkApp fn (b.instantiate1 jp))
    let h1 ← mkFreshExprSyntheticOpaqueMVar h1Ty
    let h2 ← mkFreshExprSyntheticOpaqueMVar h2Ty
    g.assign (mkApp2 h2 v h1)
    let (_, h2') ← h2.mvarId!.introN 2 [n, `hjp]
    return [h1.mvarId!, h2']
  match jpGoals? with
  | some gs => replaceMainGoal gs
  | none =>
    let g ← g.replaceTargetDefEq (mkApp fn (b.instantiate1 v))
    replaceMainGoal [g]

/-- one structural decomposition step on a goal `RelF pre post m` -/
syntax "rel_step" : tactic
/-- structural decomposition of a goal `RelF pre post m`; leaves what it cannot solve -/
syntax "rel_auto" : tactic
elab_rules : tactic
  | `(tactic| rel_auto) => do evalTactic (← `(tactic| repeat' rel_step))
macro_rules | `(tactic| rel_step) => `(tactic| first
  | rel_beta
  | rel_have
  | rel_match
  | (rel_guard_bind; first
      | (refine RelF.bind (mid := SP) ?_ ?_; focus (rel_auto; done))
      | (refine RelF.bind (mid := Any) ?_ ?_; focus (rel_auto; done)))
  | rel_leaf
  | refine RelF.ite ?_ ?_
  | intro _)

end Tdms.Proofs.C05
