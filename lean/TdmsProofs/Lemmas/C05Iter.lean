import TdmsProofs.Lemmas.C05Cache

/-! # C05: iterators are not disturbed by interleaved operations -/

namespace Tdms.Proofs.C05

open Tdms Tdms.Model Tdms.Generated

/-- the outputs of the `.next id` operations of a history -/
def nextOuts (id : Nat) : List Op → List Out → List Out
  | op :: ops, out :: outs => if op = .next id then out :: nextOuts id ops outs else nextOuts id ops outs
  | _, _ => []

/-- how often iterator `id` is advanced in a history -/
def nextCount (id : Nat) (ops : List Op) : Nat := ops.count (.next id)

theorem chanNextPost_local (id₁ id₂ : Nat) (s₁ s₂ : OpenState) (h1 : id₁ < s₁.iters.length) (h2 : id₂ < s₂.iters.length)
    {r₁ r₂ : Except Err ((Option (ChanChunk × Nat) × ChanIter) × OpenState)}
    (hi₁ : ∀ a st', r₁ = .ok (a, st') → st'.iters = s₁.iters) (hi₂ : ∀ a st', r₂ = .ok (a, st') → st'.iters = s₂.iters)
    (h : ExRel (fun x y => x.1 = y.1) r₁ r₂) :
    (chanNextPost id₁ s₁ r₁).2 = (chanNextPost id₂ s₂ r₂).2 ∧
      (chanNextPost id₁ s₁ r₁).1.iters[id₁]? = (chanNextPost id₂ s₂ r₂).1.iters[id₂]? := by
  match r₁, r₂, h, hi₁, hi₂ with
  | .ok ((o, it'), st'), .ok ((o', it''), st''), h, hi₁, hi₂ =>
    have h : (o, it') = (o', it'') := h
    simp only [Prod.mk.injEq] at h
    obtain ⟨rfl, rfl⟩ := h
    have e1 := hi₁ _ _ rfl
    have e2 := hi₂ _ _ rfl
    cases o with
    | none => simp [chanNextPost, e1, e2, h1, h2]
    | some x => obtain ⟨c, off⟩ := x; simp [chanNextPost, e1, e2, h1, h2]
  | .error e, .error e', h, _, _ =>
    have : e = e' := h
    subst this
    simp [chanNextPost, h1, h2]

theorem fileNextPost_local (id₁ id₂ : Nat) (s₁ s₂ : OpenState) (h1 : id₁ < s₁.iters.length) (h2 : id₂ < s₂.iters.length)
    {r₁ r₂ : Except Err ((Option (RawChunk × List (Bytes × Nat)) × FileIter) × OpenState)}
    (hi₁ : ∀ a st', r₁ = .ok (a, st') → st'.iters = s₁.iters) (hi₂ : ∀ a st', r₂ = .ok (a, st') → st'.iters = s₂.iters)
    (h : ExRel (fun x y => x.1 = y.1) r₁ r₂) :
    (fileNextPost id₁ s₁ r₁).2 = (fileNextPost id₂ s₂ r₂).2 ∧
      (fileNextPost id₁ s₁ r₁).1.iters[id₁]? = (fileNextPost id₂ s₂ r₂).1.iters[id₂]? := by
  match r₁, r₂, h, hi₁, hi₂ with
  | .ok ((o, it'), st'), .ok ((o', it''), st''), h, hi₁, hi₂ =>
    have h : (o, it') = (o', it'') := h
    simp only [Prod.mk.injEq] at h
    obtain ⟨rfl, rfl⟩ := h
    have e1 := hi₁ _ _ rfl
    have e2 := hi₂ _ _ rfl
    cases o with
    | none => simp [fileNextPost, e1, e2, h1, h2]
    | some x => obtain ⟨c, off⟩ := x; simp [fileNextPost, e1, e2, h1, h2]
  | .error e, .error e', h, _, _ =>
    have : e = e' := h
    subst this
    simp [fileNextPost, h1, h2]

theorem chanNextPost_length (id : Nat) (st : OpenState)
    (r : Except Err ((Option (ChanChunk × Nat) × ChanIter) × OpenState))
    (h : ∀ a st', r = .ok (a, st') → st'.iters = st.iters) :
    (chanNextPost id st r).1.iters.length = st.iters.length := by
  match r, h with
  | .ok ((some (c, off), it'), st'), h => simp [chanNextPost, h _ st' rfl]
  | .ok ((none, it'), st'), h => simp [chanNextPost, h _ st' rfl]
  | .error e, _ => simp [chanNextPost]

theorem fileNextPost_length (id : Nat) (st : OpenState)
    (r : Except Err ((Option (RawChunk × List (Bytes × Nat)) × FileIter) × OpenState))
    (h : ∀ a st', r = .ok (a, st') → st'.iters = st.iters) :
    (fileNextPost id st r).1.iters.length = st.iters.length := by
  match r, h with
  | .ok ((some (c, off), it'), st'), h => simp [fileNextPost, h _ st' rfl]
  | .ok ((none, it'), st'), h => simp [fileNextPost, h _ st' rfl]
  | .error e, _ => simp [fileNextPost]

theorem chanNextPost_other (id id' : Nat) (hne : id' ≠ id) (st : OpenState)
    (r : Except Err ((Option (ChanChunk × Nat) × ChanIter) × OpenState))
    (h : ∀ a st', r = .ok (a, st') → st'.iters = st.iters) :
    (chanNextPost id' st r).1.iters[id]? = st.iters[id]? := by
  match r, h with
  | .ok ((some (c, off), it'), st'), h => simp [chanNextPost, h _ st' rfl, List.getElem?_set_ne hne]
  | .ok ((none, it'), st'), h => simp [chanNextPost, h _ st' rfl, List.getElem?_set_ne hne]
  | .error e, _ => simp [chanNextPost, List.getElem?_set_ne hne]

theorem fileNextPost_other (id id' : Nat) (hne : id' ≠ id) (st : OpenState)
    (r : Except Err ((Option (RawChunk × List (Bytes × Nat)) × FileIter) × OpenState))
    (h : ∀ a st', r = .ok (a, st') → st'.iters = st.iters) :
    (fileNextPost id' st r).1.iters[id]? = st.iters[id]? := by
  match r, h with
  | .ok ((some (c, off), it'), st'), h => simp [fileNextPost, h _ st' rfl, List.getElem?_set_ne hne]
  | .ok ((none, it'), st'), h => simp [fileNextPost, h _ st' rfl, List.getElem?_set_ne hne]
  | .error e, _ => simp [fileNextPost, List.getElem?_set_ne hne]

/-- `next` on an iterator depends on that iterator's own state only -/
theorem step_next_local (f : OpenFile) (s₁ s₂ : OpenState) (id₁ id₂ : Nat)
    (h : s₁.iters[id₁]? = s₂.iters[id₂]?) (h1 : id₁ < s₁.iters.length) :
    (step f s₁ (.next id₁)).2 = (step f s₂ (.next id₂)).2 ∧
      (step f s₁ (.next id₁)).1.iters[id₁]? = (step f s₂ (.next id₂)).1.iters[id₂]? ∧
      id₁ < (step f s₁ (.next id₁)).1.iters.length := by
  have h2 : id₂ < s₂.iters.length := by
    rcases Nat.lt_or_ge id₂ s₂.iters.length with h2 | h2
    · exact h2
    · rw [List.getElem?_eq_getElem h1, List.getElem?_eq_none h2] at h; cases h
  rw [step_next, step_next, ← h]
  cases hit : s₁.iters[id₁]? with
  | none => rw [List.getElem?_eq_getElem h1] at hit; cases hit
  | some it =>
    cases it with
    | finished => exact ⟨rfl, h, h1⟩
    | chan it =>
      dsimp only
      have hi₁ : ∀ a st', runF s₁ (chanIterNext f (fuelFor f) it) = .ok (a, st') → st'.iters = s₁.iters :=
        fun a st' h => (runF_inv h).2.2
      have hi₂ : ∀ a st', runF s₂ (chanIterNext f (fuelFor f) it) = .ok (a, st') → st'.iters = s₂.iters :=
        fun a st' h => (runF_inv h).2.2
      have := chanNextPost_local id₁ id₂ s₁ s₂ h1 h2 hi₁ hi₂ (runF_val (posIndep_chanIterNext f _ it) s₁ s₂)
      exact ⟨this.1, this.2, by rw [chanNextPost_length _ _ _ hi₁]; exact h1⟩
    | file it =>
      dsimp only
      have hi₁ : ∀ a st', runF s₁ (fileIterNext f (fuelFor f) it) = .ok (a, st') → st'.iters = s₁.iters :=
        fun a st' h => (runF_inv h).2.2
      have hi₂ : ∀ a st', runF s₂ (fileIterNext f (fuelFor f) it) = .ok (a, st') → st'.iters = s₂.iters :=
        fun a st' h => (runF_inv h).2.2
      have := fileNextPost_local id₁ id₂ s₁ s₂ h1 h2 hi₁ hi₂ (runF_val (posIndep_fileIterNext f _ it) s₁ s₂)
      exact ⟨this.1, this.2, by rw [fileNextPost_length _ _ _ hi₁]; exact h1⟩

theorem slicePost_iters (st : OpenState) (r : Except Err (List Bytes × OpenState))
    (h : ∀ a st', r = .ok (a, st') → st'.iters = st.iters) : (slicePost st r).1.iters = st.iters := by
  match r, h with
  | .ok (a, st'), h => exact h a st' rfl
  | .error e, _ => rfl

theorem readPost_iters (st : OpenState) (r : Except Err (Option ReadOut × OpenState))
    (h : ∀ a st', r = .ok (a, st') → st'.iters = st.iters) : (readPost st r).1.iters = st.iters := by
  match r, h with
  | .ok (a, st'), h => exact h a st' rfl
  | .error e, _ => rfl

theorem indexPost_iters (p : Bytes) (st : OpenState) (r : Except Err ((Bytes × Option ChunkCache) × OpenState))
    (h : ∀ a st', r = .ok (a, st') → st'.iters = st.iters) : (indexPost p st r).1.iters = st.iters := by
  match r, h with
  | .ok ((v, c), st'), h => exact h _ st' rfl
  | .error e, _ => rfl

/-- any operation other than `next id` leaves iterator `id` alone (and never removes iterators) -/
theorem step_other_preserves (f : OpenFile) (st : OpenState) (op : Op) (id : Nat) (hop : op ≠ .next id)
    (hlt : id < st.iters.length) :
    (step f st op).1.iters[id]? = st.iters[id]? ∧ id < (step f st op).1.iters.length := by
  cases op with
  | index p i =>
    rw [step_index, indexPost_iters _ _ _ fun a st' h => (runF_inv h).2.2]; exact ⟨rfl, hlt⟩
  | slice p a b c =>
    rw [step_slice, slicePost_iters _ _ fun a st' h => (runF_inv h).2.2]; exact ⟨rfl, hlt⟩
  | read p off len =>
    rw [step_read, readPost_iters _ _ fun a st' h => (runF_inv h).2.2]; exact ⟨rfl, hlt⟩
  | newChanIter p =>
    rw [step_newChanIter]
    exact ⟨List.getElem?_append_left hlt, by simp only [List.length_append]; omega⟩
  | newFileIter =>
    rw [step_newFileIter]
    exact ⟨List.getElem?_append_left hlt, by simp only [List.length_append]; omega⟩
  | next id' =>
    have hne : id' ≠ id := fun h => hop (h ▸ rfl)
    rw [step_next]
    split
    · exact ⟨rfl, hlt⟩
    · exact ⟨rfl, hlt⟩
    · exact ⟨chanNextPost_other id id' hne _ _ fun a st' h => (runF_inv h).2.2,
        by rw [chanNextPost_length _ _ _ fun a st' h => (runF_inv h).2.2]; exact hlt⟩
    · exact ⟨fileNextPost_other id id' hne _ _ fun a st' h => (runF_inv h).2.2,
        by rw [fileNextPost_length _ _ _ fun a st' h => (runF_inv h).2.2]; exact hlt⟩

/-- **Iterator completeness, general form.**  The outputs of `next id₁` along an arbitrary history
    from `s₁` are the outputs of an uninterrupted run of an iterator in the same iterator state. -/
theorem nextOuts_eq (f : OpenFile) (ops : List Op) (s₁ s₂ : OpenState) (id₁ id₂ : Nat)
    (h : s₁.iters[id₁]? = s₂.iters[id₂]?) (h1 : id₁ < s₁.iters.length) :
    nextOuts id₁ ops (runOps f s₁ ops) =
      runOps f s₂ (List.replicate (nextCount id₁ ops) (.next id₂)) := by
  induction ops generalizing s₁ s₂ with
  | nil => rfl
  | cons op ops ih =>
    by_cases hop : op = .next id₁
    · subst hop
      obtain ⟨ho, hi, hl⟩ := step_next_local f s₁ s₂ id₁ id₂ h h1
      simp only [runOps, nextOuts, if_true, nextCount, List.count_cons_self, List.replicate_succ]
      rw [ho]
      congr 1
      exact ih _ _ hi hl
    · obtain ⟨hi, hl⟩ := step_other_preserves f s₁ op id₁ hop h1
      have hc : nextCount id₁ (op :: ops) = nextCount id₁ ops := by
        unfold nextCount
        rw [List.count_cons_of_ne hop]
      simp only [runOps, nextOuts, if_neg hop, hc]
      exact ih _ _ (hi.trans h) hl

end Tdms.Proofs.C05
