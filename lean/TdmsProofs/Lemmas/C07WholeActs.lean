/-
  C07 whole: the active object lists of the spec encoding of a written file (`activeLists` succeeds when the
  data types are consistent), in explicit form.  Core Lean only.
-/
import TdmsProofs.Lemmas.C07WholeBytes

namespace Tdms.Proofs.C07Whole

open Tdms Tdms.Generated Tdms.Model Tdms.Model.Writer Tdms.Proofs.C08 Tdms.Proofs.C02

/-! ## explicit active lists -/

def descOfW (d : WData) : IdxDesc := .std d.ty d.vals.length (objectDataSize d)

/-- the active object of a written object: its own full index, or (no index written) the description
    inherited from the last typed write of the path -/
def actOfW (last : LastIdx) (o : WObj) : ActiveObj :=
  match dataOf o with
  | some d => ⟨o.path, true, some (descOfW d)⟩
  | none => ⟨o.path, false, last.get o.path⟩

def stepLast (last : LastIdx) (o : WObj) : LastIdx :=
  match dataOf o with
  | some d => last.set o.path (descOfW d)
  | none => last

def lastAfter (last : LastIdx) (objs : List WObj) : LastIdx := objs.foldl stepLast last

def actsOfW (last : LastIdx) : List (List WObj) → List (List ActiveObj)
  | [] => []
  | objs :: rest => objs.map (actOfW last) :: actsOfW (lastAfter last objs) rest

/-- data type of the last typed write of path `p` -/
def lastTy (ws : List WObj) (p : Bytes) : Option Nat := ((ws.filter (·.path = p)).filterMap tyOfW).getLast?

/-- the spec's `LastIdx` remembers the data type of the last typed write of every path -/
def LastOK (last : LastIdx) (hist : List WObj) : Prop := ∀ p, (last.get p).map (·.ty) = lastTy hist p

theorem actOfW_path (last : LastIdx) (o : WObj) : (actOfW last o).path = o.path := by
  unfold actOfW; cases dataOf o <;> rfl

theorem actFor_actOfW (last : LastIdx) (o : WObj) : ActFor o (actOfW last o) := by
  refine ⟨actOfW_path last o, ?_⟩
  unfold actOfW
  cases dataOf o with
  | none => rfl
  | some d => exact ⟨rfl, rfl⟩

theorem actsFor_map (last : LastIdx) (objs : List WObj) : ActsFor objs (objs.map (actOfW last)) := by
  induction objs with
  | nil => trivial
  | cons o os ih => exact ⟨actFor_actOfW last o, ih⟩

theorem actOfW_congr {last last' : LastIdx} {o : WObj} (h : last'.get o.path = last.get o.path) :
    actOfW last' o = actOfW last o := by
  unfold actOfW
  cases dataOf o with
  | none => simp only [h]
  | some d => rfl

theorem stepLast_get_ne (last : LastIdx) (o : WObj) (q : Bytes) (h : q ≠ o.path) :
    (stepLast last o).get q = last.get q := by
  unfold stepLast
  cases dataOf o with
  | none => rfl
  | some d => exact LastIdx.get_set_ne _ _ _ _ h

/-! ## `lastTy` -/

theorem lastTy_nil (p : Bytes) : lastTy [] p = none := rfl

theorem lastTy_snoc (hist : List WObj) (o : WObj) (p : Bytes) :
    lastTy (hist ++ [o]) p =
      if o.path = p then (match tyOfW o with | some t => some t | none => lastTy hist p) else lastTy hist p := by
  unfold lastTy
  rw [List.filter_append, List.filterMap_append]
  by_cases hp : o.path = p
  · simp only [hp, List.filter_cons, decide_true, if_true, List.filter_nil]
    cases ht : tyOfW o with
    | none => simp [ht]
    | some t => simp [ht]
  · simp [hp]

theorem tyOfW_eq (o : WObj) : tyOfW o = (dataOf o).map (·.ty) := rfl

theorem lastOK_step {last : LastIdx} {hist : List WObj} (h : LastOK last hist) (o : WObj) :
    LastOK (stepLast last o) (hist ++ [o]) := by
  intro p
  rw [lastTy_snoc, tyOfW_eq]
  unfold stepLast
  cases hd : dataOf o with
  | none =>
    simp only [Option.map_none]
    split <;> exact h p
  | some d =>
    simp only [Option.map_some, LastIdx.get_set]
    by_cases hp : o.path = p
    · have : p = o.path := hp.symm
      simp [hp, descOfW, IdxDesc.ty]
    · have : ¬ p = o.path := fun e => hp e.symm
      simp only [this, hp, if_false]
      exact h p

theorem lastOK_after : ∀ (objs : List WObj) {last : LastIdx} {hist : List WObj}, LastOK last hist →
    LastOK (lastAfter last objs) (hist ++ objs) := by
  intro objs
  induction objs with
  | nil => intro last hist h; simpa [lastAfter] using h
  | cons o os ih =>
    intro last hist h
    have := ih (lastOK_step h o)
    simpa [lastAfter, List.append_assoc] using this

theorem lastOK_nil : LastOK [] [] := by
  intro p; rfl

/-- a remembered type comes from an earlier typed write of the path -/
theorem lastTy_some {ws : List WObj} {p : Bytes} {t : Nat} (h : lastTy ws p = some t) :
    ∃ o ∈ ws, o.path = p ∧ tyOfW o = some t := by
  unfold lastTy at h
  have hm := List.mem_of_getLast? h
  rw [List.mem_filterMap] at hm
  obtain ⟨o, ho, hot⟩ := hm
  rw [List.mem_filter] at ho
  exact ⟨o, ho.1, by simpa using ho.2, hot⟩

/-! ## `resolveObjs` on a written object list -/

theorem resolveObj_written (last : LastIdx) (o : WObj)
    (h : ∀ d d', dataOf o = some d → last.get o.path = some d' → d'.ty = d.ty) :
    resolveObj last (toObjEnc o) = .ok (actOfW last o, stepLast last o) := by
  unfold resolveObj toObjEnc idxOfW actOfW stepLast
  cases hd : dataOf o with
  | none => rfl
  | some d =>
    simp only
    cases hl : last.get o.path with
    | none => rfl
    | some d' =>
      have := h d d' hd hl
      simp only [IdxDesc.ty] at this ⊢
      simp [this, descOfW]

theorem resolveObjs_written : ∀ (objs : List WObj) (last : LastIdx) (act : List ActiveObj),
    (objs.map (·.path)).Nodup → (∀ o ∈ objs, ∀ a ∈ act, a.path ≠ o.path) →
    (∀ o ∈ objs, ∀ d d', dataOf o = some d → last.get o.path = some d' → d'.ty = d.ty) →
    resolveObjs last act (objs.map toObjEnc) = .ok (act ++ objs.map (actOfW last), lastAfter last objs) := by
  intro objs
  induction objs with
  | nil => intro last act _ _ _; simp [resolveObjs, lastAfter]
  | cons o os ih =>
    intro last act hnd hact hty
    rw [List.map_cons, List.nodup_cons] at hnd
    obtain ⟨hno, hnd'⟩ := hnd
    have hne : ∀ q ∈ os, q.path ≠ o.path := fun q hq e => hno (List.mem_map.2 ⟨q, hq, e⟩)
    rw [List.map_cons, resolveObjs, resolveObj_written last o (hty o List.mem_cons_self)]
    simp only
    have hp : placeObj act (actOfW last o) = act ++ [actOfW last o] :=
      placeObj_of_not_mem (by intro a ha; rw [actOfW_path]; exact hact o List.mem_cons_self a ha)
    rw [hp, ih (stepLast last o) (act ++ [actOfW last o]) hnd']
    · have : os.map (actOfW (stepLast last o)) = os.map (actOfW last) :=
        List.map_congr_left fun q hq => actOfW_congr (stepLast_get_ne last o q.path (hne q hq))
      rw [this]
      simp [lastAfter]
    · intro q hq a ha
      rcases List.mem_append.1 ha with ha | ha
      · exact hact q (List.mem_cons_of_mem _ hq) a ha
      · simp only [List.mem_singleton] at ha
        subst ha
        rw [actOfW_path]
        exact fun e => hne q hq e.symm
    · intro q hq d d' hd hl
      rw [stepLast_get_ne last o q.path (hne q hq)] at hl
      exact hty q (List.mem_cons_of_mem _ hq) d d' hd hl

/-! ## `activeLists` on a written file -/

theorem consistent_types {last : LastIdx} {hist objs : List WObj} (hl : LastOK last hist)
    (hc : Consistent (hist ++ objs)) :
    ∀ o ∈ objs, ∀ d d', dataOf o = some d → last.get o.path = some d' → d'.ty = d.ty := by
  intro o ho d d' hd hg
  have h1 : lastTy hist o.path = some d'.ty := by rw [← hl, hg]; rfl
  obtain ⟨o', ho', hp, ht⟩ := lastTy_some h1
  have := hc o' (List.mem_append_left _ ho') o (List.mem_append_right _ ho) hp
  rw [ht, tyOfW_eq o, hd] at this
  simpa using this

theorem activeLists_written (v : Nat) : ∀ (segs : List (List WObj)) (hist : List WObj) (last : LastIdx)
    (prev : Option (List ActiveObj)), LastOK last hist → Consistent (hist ++ segs.flatten) →
    (∀ objs ∈ segs, (objs.map (·.path)).Nodup) →
    activeLists prev last (segs.map (segOfW v)) = .ok (actsOfW last segs) := by
  intro segs
  induction segs with
  | nil => intro _ _ _ _ _ _; rfl
  | cons objs rest ih =>
    intro hist last prev hl hc hnd
    rw [List.flatten_cons, ← List.append_assoc] at hc
    have hc1 : Consistent (hist ++ objs) := by
      intro o₁ h₁ o₂ h₂
      exact hc o₁ (List.mem_append_left _ h₁) o₂ (List.mem_append_left _ h₂)
    have hres := resolveObjs_written objs last [] (hnd objs List.mem_cons_self)
      (fun _ _ a ha => by cases ha) (consistent_types hl hc1)
    have hseg : activeOfSeg prev last (segOfW v objs) = .ok (objs.map (actOfW last), lastAfter last objs) := by
      unfold activeOfSeg
      simp only [segOfW, Bool.not_true, Bool.false_eq_true, if_false, if_true]
      rw [hres]
      rfl
    rw [List.map_cons, activeLists, hseg]
    simp only
    rw [ih (hist ++ objs) (lastAfter last objs) _ (lastOK_after objs hl) hc
      (fun o ho => hnd o (List.mem_cons_of_mem _ ho))]
    rfl

end Tdms.Proofs.C07Whole
