/-
  C15 for whole files: `withEndian` preserves well-formedness and the byte size of every segment.
  Core Lean only.
-/
import TdmsProofs.Lemmas.C15WholeDenote

namespace Tdms.Proofs.C15Whole

open Tdms Tdms.Generated Tdms.Model Tdms.Proofs.C01Layouts Tdms.Proofs.C01Multi Tdms.Proofs.C02 Tdms.Proofs.Bytes

/-! ## byte sizes do not depend on the byte order -/

theorem flatMap_length_congr {α β : Type} (l : List α) (f g : α → List β)
    (h : ∀ x ∈ l, (f x).length = (g x).length) : (l.flatMap f).length = (l.flatMap g).length := by
  induction l with
  | nil => rfl
  | cons x xs ih =>
    simp only [List.flatMap_cons, List.length_append, h x List.mem_cons_self,
      ih (fun y hy => h y (List.mem_cons_of_mem _ hy))]

theorem swapAtoms_nil (ws : List Nat) : swapAtoms ws [] = [] := by
  induction ws with
  | nil => rfl
  | cons w ws ih => simp [swapAtoms, ih]

theorem storeValue_length_eq (e : Endian) (ty : Nat) (x : Bytes) (h : x = [] ∨ some x.length = typeSize ty) :
    (storeValue e ty x).length = x.length := by
  rcases h with rfl | h
  · cases e <;> simp [storeValue, swapAtoms_nil]
  · exact storeValue_length e h.symm x rfl

theorem typeSize_string : typeSize tyString = none := by decide

/-- the values of one object fit its type: strings, or values of the size of the type -/
def ValsFit (ty : Nat) (v : List Bytes) : Prop := ty = tyString ∨ ∀ x ∈ v, some x.length = typeSize ty

theorem encObjValues_length_indep (e₁ e₂ : Endian) {ty : Nat} {v : List Bytes} (h : ValsFit ty v) :
    (encObjValues e₁ ty v).length = (encObjValues e₂ ty v).length := by
  by_cases hs : ty = tyString
  · subst hs; rw [encObjValues_string_length, encObjValues_string_length]
  · rcases h with h | h
    · exact absurd h hs
    · simp only [encObjValues, hs, if_false]
      apply flatMap_length_congr
      intro x hx
      rw [storeValue_length_eq e₁ ty x (Or.inr (h x hx)), storeValue_length_eq e₂ ty x (Or.inr (h x hx))]

def PairsFit : List ActiveObj → List (List Bytes) → Prop
  | a :: as, v :: vs => ValsFit ((a.idx.map (·.ty)).getD 0) v ∧ PairsFit as vs
  | _, _ => True

theorem pairsFit_of_wf : ∀ (d : List ActiveObj) (c : List (List Bytes)), wfStdChunk d c = true → PairsFit d c := by
  intro d
  induction d with
  | nil => intro c _; cases c <;> trivial
  | cons a as ih =>
    intro c h
    cases c with
    | nil => trivial
    | cons v vs =>
      simp only [wfStdChunk, Bool.and_eq_true] at h
      refine ⟨?_, ih vs h.2⟩
      have h1 := h.1
      cases hi : a.idx with
      | none => rw [hi] at h1; cases h1
      | some dsc =>
        cases dsc with
        | daq dg ty n sc w => rw [hi] at h1; cases h1
        | std ty n total =>
          rw [hi] at h1
          simp only [Bool.and_eq_true, decide_eq_true_eq] at h1
          by_cases hs : ty = tyString
          · exact Or.inl (by simp [IdxDesc.ty, hs])
          · right
            have := h1.2
            simp only [hs, if_false, List.all_eq_true, decide_eq_true_eq] at this
            simpa [IdxDesc.ty] using this

theorem encChunkContiguous_length_indep (e₁ e₂ : Endian) : ∀ (d : List ActiveObj) (c : List (List Bytes)),
    PairsFit d c → (encChunkContiguous e₁ d c).length = (encChunkContiguous e₂ d c).length := by
  intro d
  induction d with
  | nil => intro c _; cases c <;> rfl
  | cons a as ih =>
    intro c h
    cases c with
    | nil => rfl
    | cons v vs =>
      simp only [encChunkContiguous, List.length_append, encObjValues_length_indep e₁ e₂ h.1, ih vs h.2]

/-- in an interleaved segment all types are fixed-width -/
def AllFixed (d : List ActiveObj) : Prop := ∀ a ∈ d, (typeSize ((a.idx.map (·.ty)).getD 0)).isSome = true

theorem encRow_length_indep (e₁ e₂ : Endian) (j : Nat) : ∀ (d : List ActiveObj) (c : List (List Bytes)),
    PairsFit d c → AllFixed d → (encRow e₁ j d c).length = (encRow e₂ j d c).length := by
  intro d
  induction d with
  | nil => intro c _ _; cases c <;> rfl
  | cons a as ih =>
    intro c h hf
    cases c with
    | nil => rfl
    | cons v vs =>
      have hfit : v.getD j [] = [] ∨ some (v.getD j []).length = typeSize ((a.idx.map (·.ty)).getD 0) := by
        rcases Nat.lt_or_ge j v.length with hj | hj
        · right
          rcases h.1 with hs | hv
          · have := hf a List.mem_cons_self
            rw [hs, typeSize_string] at this
            cases this
          · rw [List.getD_eq_getElem?_getD, List.getElem?_eq_getElem hj]
            exact hv _ (List.getElem_mem hj)
        · left
          rw [List.getD_eq_getElem?_getD, List.getElem?_eq_none hj]
          rfl
      simp only [encRow, List.length_append, storeValue_length_eq e₁ _ _ hfit, storeValue_length_eq e₂ _ _ hfit,
        ih vs h.2 (fun a' ha' => hf a' (List.mem_cons_of_mem _ ha'))]

theorem encChunkInterleaved_length_indep (e₁ e₂ : Endian) (d : List ActiveObj) (c : List (List Bytes))
    (h : PairsFit d c) (hf : AllFixed d) :
    (encChunkInterleaved e₁ d c).length = (encChunkInterleaved e₂ d c).length := by
  simp only [encChunkInterleaved]
  exact flatMap_length_congr _ _ _ (fun j _ => encRow_length_indep e₁ e₂ j d c h hf)

/-! ## DAQmx chunks keep their shape -/

theorem flatten_mapIdx_length (g : Nat → Bytes → Bytes) (hg : ∀ b r, (g b r).length = r.length) :
    ∀ (bufs : List (List Bytes)) (k : Nat),
      (((bufs.mapIdx fun b rows => rows.map (g (b + k))).map (·.flatten)).flatten).length =
        ((bufs.map (·.flatten)).flatten).length := by
  intro bufs
  induction bufs with
  | nil => intro k; rfl
  | cons rows bufs ih =>
    intro k
    simp only [List.mapIdx_cons, List.map_cons, List.flatten_cons, List.length_append, Nat.zero_add]
    have h1 : ((rows.map (g k)).flatten).length = rows.flatten.length := by
      induction rows with
      | nil => rfl
      | cons r rs ihr => simp only [List.map_cons, List.flatten_cons, List.length_append, hg, ihr]
    rw [h1]
    have := ih (k + 1)
    simp only [Nat.add_assoc, Nat.add_comm 1 k] at this ⊢
    rw [this]

theorem encChunkDaqmx_reenc_length (d : List ActiveObj) (bufs : List (List Bytes)) :
    (encChunkDaqmx (reencChunk d bufs)).length = (encChunkDaqmx bufs).length := by
  have := flatten_mapIdx_length (fun b => swapRow (bufFields d b)) (fun b r => swapRow_length _ r) bufs 0
  simpa [encChunkDaqmx, reencChunk] using this

theorem reencChunk_length (d : List ActiveObj) (bufs : List (List Bytes)) :
    (reencChunk d bufs).length = bufs.length := by simp [reencChunk]

theorem wfDaqChunk_reenc (d d' : List ActiveObj) (bufs : List (List Bytes)) :
    wfDaqChunk d (reencChunk d' bufs) = wfDaqChunk d bufs := by
  cases d with
  | nil => rfl
  | cons a as =>
    simp only [wfDaqChunk, reencChunk_length, getD_reencChunk, List.all_map, List.length_map, List.isEmpty_map,
      Function.comp_def, swapRow_length]

end Tdms.Proofs.C15Whole
