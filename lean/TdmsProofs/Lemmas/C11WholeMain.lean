/-
  C11Whole — `TdmsFile.open` on the encoding of a file of the class `MultiStdD` (standard and DAQmx segments):
  the invariants of `C11Lazy` (`SegsDOk`, `ChanOk`) DERIVED for every DAQmx raw-data channel and every one of
  its scale ids, and the eager scaler stream identified with the scaler values of `denote`.  Core Lean only.
-/
import TdmsProofs.Lemmas.C11WholeSeg
import TdmsProofs.Lemmas.C04LayoutsSeg
import TdmsProofs.Lemmas.C04WholeFile
import TdmsProofs.Properties.C01Layouts

namespace Tdms.Proofs.C11Whole

open Tdms Tdms.Generated Tdms.Model Tdms.Proofs.C02 Tdms.Proofs.C01Multi Tdms.Proofs.C01Layouts Tdms.Proofs.C03
open Tdms.Proofs.C04 Tdms.Proofs.C11Lazy

/-! ## the scaler values of the chunk stream -/

theorem scAll_eq_colN (sc : ScalDict) (id : Nat) : scAll sc id = colN sc id := rfl

theorem chunkSc_std (pairs : List (Bytes × List Bytes)) (p : Bytes) (id : Nat) :
    chunkSc (Ck.std pairs).toRaw p id = [] := by
  show chunkSc (C01Compose.pairsChunk pairs) p id = []
  unfold C01Compose.pairsChunk
  induction pairs with
  | nil => rfl
  | cons pv pairs ih =>
    rw [List.map_cons, chunkSc_cons, ih]
    split <;> rfl

theorem chunkSc_daq (ents : List (Bytes × ScalDict)) (p : Bytes) (id : Nat) :
    chunkSc (Ck.daq ents).toRaw p id = colN (itemsAt ents p) id := by
  show chunkSc (ents.map fun pe => (pe.1, ({ scalers := some pe.2 } : ChanChunk))) p id = _
  induction ents with
  | nil => rfl
  | cons pe ents ih =>
    rw [List.map_cons, chunkSc_cons, ih, itemsAt_cons, colN_append]
    congr 1
    by_cases h : pe.1 = p
    · simp only [h, if_true]; rfl
    · simp only [h, if_false]; rfl

theorem daqEntsOf_cons (ck : Ck) (L : List Ck) :
    daqEntsOf (ck :: L) = (match ck with | .std _ => [] | .daq ents => ents) ++ daqEntsOf L := by
  cases ck <;> simp [daqEntsOf]

/-- the scaler values of a chunk stream given as `Ck` list -/
theorem streamSc_ck (L : List Ck) (p : Bytes) (id : Nat) :
    streamSc (L.map Ck.toRaw) p id = colN (itemsAt (daqEntsOf L) p) id := by
  unfold streamSc
  induction L with
  | nil => rfl
  | cons ck L ih =>
    rw [List.map_cons, List.flatMap_cons, ih, daqEntsOf_cons, itemsAt_append, colN_append]
    congr 1
    cases ck with
    | std pairs => rw [chunkSc_std]; rfl
    | daq ents => exact chunkSc_daq ents p id

/-! ## the open file -/

/-- everything the lazy DAQmx theorems need to know about `openFile (encodeFile e)`, `e` of the class -/
structure OpenD (e : FileEnc) (bytes : Bytes) (f : OpenFile) (acts : List (List ActiveObj)) (c : Content) : Prop where
  opens : openFile bytes = .ok f
  hacts : activeLists none [] e = .ok acts
  meaning : denote e = .ok c
  file : f.file = bytes
  segs : f.segments = segRecsC 0 e acts
  objects : f.objects = c.map (mOCD (fileScF e) (countsOf e acts))
  nodup : (c.map (·.path)).Nodup
  chan : ∀ p m, f.objects.get p = some m → ChanOk f.objects f.segments p m
  sdok : ∀ oc ∈ c, oc.ty = some tyDaqmxRaw → ∀ id ∈ oc.scalers.map (·.1), SegsDOk f.file f.segments oc.path id
  svals : ∀ oc ∈ c, ∀ id, streamSc (f.segments.flatMap (segEager f.file)) oc.path id = scGet oc.scalers id
  raw : ∀ oc ∈ c, oc.ty = some tyDaqmxRaw → oc.values = [] ∧ oc.scalers.map (·.1) = idsF (fileScF e) oc.path ∧
    (oc.scalers.map (·.1)).Nodup
  noOverride : ∀ s ∈ f.segments, s.override = none

theorem segsOKD_getElem {G : IdxDesc → Prop} {F : ScF} : ∀ (ss : List SegEnc) (as : List (List ActiveObj)),
    SegsOKD G F ss as → ∀ (i : Nat) s a, ss[i]? = some s → as[i]? = some a → SegOKD G F s a := by
  intro ss
  induction ss with
  | nil => intro as _ i s a hs; simp at hs
  | cons s0 ss ih =>
    intro as h i s a hs ha
    cases as with
    | nil => cases h
    | cons a0 as =>
      cases i with
      | zero =>
        simp only [List.getElem?_cons_zero, Option.some.injEq] at hs ha
        subst hs; subst ha
        exact h.1
      | succ i =>
        simp only [List.getElem?_cons_succ] at hs ha
        exact ih as h.2 i s a hs ha

theorem mem_zip_of_getElem? {α β : Type} {l : List α} {m : List β} {i : Nat} {x : α} {y : β}
    (hx : l[i]? = some x) (hy : m[i]? = some y) : (x, y) ∈ l.zip m := by
  apply List.mem_of_getElem? (i := i)
  rw [List.getElem?_zip_eq_some]
  exact ⟨hx, hy⟩

/-- a standard description of the class never has the DAQmx raw data type -/
theorem goodDesc_ty_ne_raw {ty n total : Nat} (h : GoodDesc (.std ty n total)) : ty ≠ tyDaqmxRaw := by
  intro e
  subst e
  simp only [GoodDesc] at h
  rcases h.1 with h1 | h1
  · revert h1; decide
  · revert h1; decide

/-- **`TdmsFile.open` on an encoded file with standard and DAQmx segments** -/
theorem openFile_encodedD (e : FileEnc) (h : MultiStdD e) (fit : FileFitsD e) (bytes : Bytes)
    (hb : encodeFile e = .ok bytes) (hlen : bytes.length < 2 ^ 63) :
    ∃ f acts c, OpenD e bytes f acts c := by
  obtain ⟨acts, ha, hwfs⟩ := MultiStdDF.acts h
  have hbytes : encodeFile e = .ok (zipEncode encodeSeg e acts) := by simp [encodeFile, ha]
  rw [hbytes] at hb
  injection hb with hb
  subst hb
  have hok := segsOKD_canon e acts (segsOKD_of_multi h fit ha)
  have hac := activeLists_canon e none [] acts ha
  have hnd := actsNodup_canon (activeLists_nodup e none [] acts ha SpecInv.init (wellFormed_noDup h.wf))
  have hraw : ∀ s ∈ e.map canonSeg, s.chunks ≠ [] → s.rawFlag = true := by
    intro s hs hne
    obtain ⟨s0, hs0, rfl⟩ := List.mem_map.1 hs
    exact C04Whole.wfSegs_rawFlag e acts hwfs s0 hs0 hne
  have hz := zipEncode_canon e acts
  rw [← hz] at hlen ⊢
  obtain ⟨st, h1, h2, h3, _⟩ := readMetadata_multiD (fileScF e) _ _ hac hok (canonListed_canon e) hlen
  -- the spec side
  have hsem := denoteSegs_sem (fileScF e) (fun _ => True) _ _ none [] [] hac hok (fun _ _ _ _ _ => trivial)
    SpecInv.init (fun _ h => by cases h) (by simp) (fun _ h => by cases h)
  have hmean := denoteSegs_canon e acts []
  have hnodup : ((denoteSegs [] e acts).map (·.path)).Nodup := by rw [← hmean]; exact hsem.nodup
  -- every record of the segment table
  have hrec : ∀ seg ∈ st.segments, ∃ (i : Nat) (pos : Nat) (s : SegEnc) (a : List ActiveObj) (rest : Bytes),
      (e.map canonSeg)[i]? = some s ∧ (acts.map (·.map canonAct))[i]? = some a ∧ seg = segRec pos s a ∧
      (zipEncode encodeSeg (e.map canonSeg) (acts.map (·.map canonAct))).drop pos = encodeSeg s a ++ rest := by
    intro seg hseg
    rw [h2] at hseg
    exact C04Layouts.segRecs_mem _ _ _ rfl seg hseg
  have hovr : ∀ seg ∈ st.segments, seg.override = none := by
    intro seg hseg
    obtain ⟨i, pos, s, a, rest, _, _, rfl, _⟩ := hrec seg hseg
    rfl
  have hndseg : ∀ seg ∈ st.segments, (seg.objects.map (·.path)).Nodup := by
    intro seg hseg
    obtain ⟨i, pos, s, a, rest, _, ha', rfl, _⟩ := hrec seg hseg
    exact C04Layouts.segRec_nodup pos s a (hnd a (List.mem_of_getElem? ha'))
  have hwfl : ∀ seg ∈ st.segments, ∀ p, (layoutOf p seg).WF := by
    intro seg hseg p
    unfold SegL.WF
    simp [layoutOf, hovr seg hseg]
  have hnum := readMetadata_numValues _ st h1 hndseg hwfl
  -- the chunk stream
  have hstream : st.segments.flatMap (segEager (zipEncode encodeSeg (e.map canonSeg) (acts.map (·.map canonAct)))) =
      rawChunksAllD (e.map canonSeg) (acts.map (·.map canonAct)) := by
    obtain ⟨fs', h4⟩ := readRawDataAll_multiD (fileScF e) _ _ _ 0 {} hok hnd rfl
    rw [h2]
    exact (readRawDataAll_flatMap _ _ _ _ _ h4).symm
  refine ⟨⟨_, st.segments, st.objects⟩, acts, denoteSegs [] e acts, ?_, ha, by simp [denote, ha], rfl, ?_, ?_,
    hnodup, ?_, ?_, ?_, ?_, hovr⟩
  · simp [openFile, h1, bind, Except.bind, pure, Except.pure]
  · show st.segments = _
    rw [h2, segRecs_canon]
  · show st.objects = _
    rw [h3, hmean, countsOf_canon]
  · intro p m hm
    refine ⟨hm, ?_, ?_⟩
    · intro l hl
      obtain ⟨seg, hseg, rfl⟩ := List.mem_map.mp hl
      exact hwfl seg hseg p
    · have := hnum p
      unfold nvGet at this
      rw [show st.objects.get p = some m from hm] at this
      exact this
  · intro oc hoc hty id hid seg hseg
    have hoc' : oc ∈ denoteSegs [] (e.map canonSeg) (acts.map (·.map canonAct)) := by rw [hmean]; exact hoc
    obtain ⟨i, pos, s, a, rest, hs, ha', rfl, hdrop⟩ := hrec seg hseg
    have hsok := segsOKD_getElem _ _ hok i s a hs ha'
    have hci := hsem.cinv oc hoc'
    refine segDOk_segRec (fileScF e) _ pos s a rest hdrop hsok (hnd a (List.mem_of_getElem? ha'))
      (hraw s (List.mem_of_getElem? hs)) oc.path id (by rw [← (hci.raw hty).2.1]; exact hid) ?_
    intro x hx hxp
    obtain ⟨d, hd, hty', _⟩ := hsem.tyData (s, a) (mem_zip_of_getElem? hs ha') x hx
    have := hty' oc hoc' hxp.symm
    rw [hty] at this
    have hdt : d.ty = tyDaqmxRaw := (Option.some.inj this).symm
    cases d with
    | std ty n total =>
      have hg : GoodDesc (.std ty n total) := hsok.good x (List.mem_filter.mp hx).1 _ hd
      exact absurd hdt (goodDesc_ty_ne_raw hg)
    | daq dg ty n sc w => simp [isDaqmxObj, hd]
  · intro oc hoc id
    have hoc' : oc ∈ denoteSegs [] (e.map canonSeg) (acts.map (·.map canonAct)) := by rw [hmean]; exact hoc
    show streamSc (st.segments.flatMap (segEager _)) oc.path id = _
    rw [hstream, rawChunksAllD_eq _ _ hnd, streamSc_ck, (all_ents _ _ hok hnd).1 oc.path id]
    have hs := hsem.scal oc.path id
    have hsoc : scalOf (denoteSegs [] (e.map canonSeg) (acts.map (·.map canonAct))) oc.path = oc.scalers := by
      unfold scalOf
      rw [find_of_nodup hsem.nodup hoc']
      rfl
    rw [hsoc] at hs
    have hnil : lookupV (scalOf [] oc.path) id = [] := rfl
    rw [hnil, List.nil_append] at hs
    exact hs.symm
  · intro oc hoc hty
    have hoc' : oc ∈ denoteSegs [] (e.map canonSeg) (acts.map (·.map canonAct)) := by rw [hmean]; exact hoc
    have hr := (hsem.cinv oc hoc').raw hty
    exact ⟨hr.1, hr.2.1, by rw [hr.2.1]; exact hr.2.2.1⟩

/-! ## consequences for one DAQmx channel of `denote` -/

section
variable {e : FileEnc} {bytes : Bytes} {f : OpenFile} {acts : List (List ActiveObj)} {c : Content}
  (H : OpenD e bytes f acts c)
include H

theorem OpenD.get {oc : ObjContent} (hoc : oc ∈ c) :
    f.objects.get oc.path = some (mOCD (fileScF e) (countsOf e acts) oc) := by
  rw [H.objects, get_map_mOCD, find_of_nodup H.nodup hoc]
  rfl

theorem OpenD.get_none {p : Bytes} (hp : p ∉ c.map (·.path)) : f.objects.get p = none := by
  rw [H.objects, get_map_mOCD]
  have : c.find? (·.path = p) = none := by
    rw [List.find?_eq_none]
    intro oc hoc hop
    exact hp (List.mem_map.2 ⟨oc, hoc, by simpa using hop⟩)
  rw [this]
  rfl

/-- every window of every scaler of a DAQmx raw-data channel -/
theorem OpenD.window {oc : ObjContent} (hoc : oc ∈ c) (hty : oc.ty = some tyDaqmxRaw) (id : Nat)
    (hid : id ∈ oc.scalers.map (·.1)) (offset : Int) (length : Option Int)
    (h0 : 0 ≤ offset) (hl : ∀ l, length = some l → 0 ≤ l) (st : FState) :
    ∃ st' out, (channelReadData f oc.path offset length).run st = .ok (some out, st') ∧
      scGet out.scalers id = takeOpt length ((scGet oc.scalers id).drop offset.toNat) := by
  have hm := H.get hoc
  have hc := H.chan _ _ hm
  have hok := H.sdok oc hoc hty id hid
  have htym : (mOCD (fileScF e) (countsOf e acts) oc).dataType.isSome = true := by simp [mOCD, hty]
  obtain ⟨st', out, hrun, hd⟩ := channelReadData_scaler f oc.path id _ hok hc htym offset length h0 hl st
  exact ⟨st', out, hrun, by rw [hd, H.svals oc hoc id]⟩

/-- `len(channel)` of a DAQmx raw-data channel is the number of values of each of its scalers -/
theorem OpenD.len {oc : ObjContent} (hoc : oc ∈ c) (hty : oc.ty = some tyDaqmxRaw) (id : Nat)
    (hid : id ∈ oc.scalers.map (·.1)) :
    (mOCD (fileScF e) (countsOf e acts) oc).numValues = (scGet oc.scalers id).length := by
  have hm := H.get hoc
  have hc := H.chan _ _ hm
  have hok := H.sdok oc hoc hty id hid
  rw [← H.svals oc hoc id, ← full_dVals f.file f.segments oc.path id hok,
    full_length _ _ hc.wf (valsOk_dVals f.file f.segments oc.path id hok hc.wf)]
  exact hc.num

end

end Tdms.Proofs.C11Whole
