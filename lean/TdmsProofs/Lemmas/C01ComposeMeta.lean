/-
  C01, composed theorem for one-segment files: `readMetadata` on the encoding of a single standard
  segment.  Core Lean only.
-/
import TdmsProofs.Lemmas.C01ComposeSpec
import TdmsProofs.Properties.C06

namespace Tdms.Proofs.C01Compose

open Tdms Tdms.Generated Tdms.Model Tdms.Proofs.Bytes Tdms.Proofs.LeadIn

/-! ## the reader's view of the objects -/

theorem segObjOf_path (o : ObjEnc) : (segObjOf o).path = o.path := by
  obtain ⟨p, idx, ps⟩ := o; cases idx <;> rfl

theorem segObjOf_hasData (o : ObjEnc) (h : stdIdx o) : (segObjOf o).hasData = isFull o := by
  obtain ⟨p, idx, ps⟩ := o
  rcases h with h | ⟨ty, n, total, h⟩ <;> simp only at h <;> subst h <;> rfl

theorem segObjOf_dataType (o : ObjEnc) (h : stdIdx o) : (segObjOf o).dataType = tyOf o := by
  obtain ⟨p, idx, ps⟩ := o
  rcases h with h | ⟨ty, n, total, h⟩ <;> simp only at h <;> subst h <;> rfl

theorem segObjOf_numberValues (o : ObjEnc) (h : stdIdx o) : (segObjOf o).numberValues = nvals o := by
  obtain ⟨p, idx, ps⟩ := o
  rcases h with h | ⟨ty, n, total, h⟩ <;> simp only at h <;> subst h <;> rfl

theorem segObjOf_daq (o : ObjEnc) (h : stdIdx o) : (segObjOf o).daq = none := by
  obtain ⟨p, idx, ps⟩ := o
  rcases h with h | ⟨ty, n, total, h⟩ <;> simp only at h <;> subst h <;> rfl

theorem filter_hasData_map_segObjOf (os : List ObjEnc) (hstd : ∀ o ∈ os, stdIdx o) :
    (os.map segObjOf).filter (·.hasData) = (dataOs os).map segObjOf := by
  induction os with
  | nil => rfl
  | cons o os ih =>
    have ih := ih (fun q hq => hstd q (List.mem_cons_of_mem _ hq))
    simp only [dataOs, List.map_cons, List.filter_cons, segObjOf_hasData o (hstd o List.mem_cons_self)] at ih ⊢
    cases h : isFull o <;> simp [ih]

theorem haveDaqmxObjects_std (os : List ObjEnc) (hstd : ∀ o ∈ os, stdIdx o) :
    haveDaqmxObjects (os.map segObjOf) = .ok false := by
  have : ((os.map segObjOf).filter (·.hasData)).filter (·.daq.isSome) = [] := by
    rw [List.filter_eq_nil_iff]
    intro x hx
    obtain ⟨o, ho, rfl⟩ := List.mem_map.mp (List.mem_filter.mp hx).1
    simp [segObjOf_daq o (hstd o ho)]
  simp [haveDaqmxObjects, this]

/-- bytes of one chunk, as the reader computes them from the indexes -/
def chunkBytes (os : List ObjEnc) : Nat := ((dataOs os).map fun o => (segObjOf o).dataSize).sum

theorem chunkSize_std' (os : List ObjEnc) (hstd : ∀ o ∈ os, stdIdx o) :
    chunkSize (os.map segObjOf) = .ok (chunkBytes os) := by
  rw [Tdms.Proofs.C06.chunkSize_std _ (haveDaqmxObjects_std os hstd), filter_hasData_map_segObjOf os hstd]
  unfold chunkBytes
  rw [List.map_map]
  rfl

/-! ## size of an encoded chunk -/

theorem sum_map_length_eq_flatten (v : List Bytes) : (v.map (·.length)).sum = v.flatten.length := by
  rw [List.length_flatten]

theorem encChunkContiguous_length (e : Endian) (ds : List ObjEnc) :
    ∀ (chunk : List (List Bytes)), (∀ d ∈ ds, wfObj d = true) →
      wfStdChunk (ds.map actOf) chunk = true →
      (encChunkContiguous e (ds.map actOf) chunk).length = (ds.map fun o => (segObjOf o).dataSize).sum := by
  induction ds with
  | nil => intro chunk _ _; cases chunk <;> rfl
  | cons d ds ih =>
    intro chunk hwf hch
    cases chunk with
    | nil => simp [wfStdChunk] at hch
    | cons v vs =>
      have hd := hwf d List.mem_cons_self
      obtain ⟨p, idx, ps⟩ := d
      cases idx with
      | noData => simp [wfStdChunk, actOf] at hch
      | matchesPrev => simp [wfStdChunk, actOf] at hch
      | daqmx dg ty n sc w => simp [wfStdChunk, actOf] at hch
      | full ty n total =>
        simp only [List.map_cons, actOf, wfStdChunk, Bool.and_eq_true, decide_eq_true_eq] at hch
        obtain ⟨⟨hn, hshape⟩, hrest⟩ := hch
        have ih := ih vs (fun q hq => hwf q (List.mem_cons_of_mem _ hq)) hrest
        simp only [List.map_cons, actOf, encChunkContiguous, List.length_append, List.sum_cons, ih,
          Option.map_some, Option.getD_some, IdxDesc.ty]
        congr 1
        by_cases hs : ty = tyString
        · subst hs
          simp only [if_true, decide_eq_true_eq] at hshape
          rw [encObjValues_string_length, ← sum_map_length_eq_flatten, hn, hshape]
          simp [segObjOf, segObjOfIdx, stdIndexObj]
        · simp only [hs, if_false, List.all_eq_true, decide_eq_true_eq] at hshape
          simp only [wfObj, wfIdx, Bool.and_eq_true, Bool.or_eq_true, decide_eq_true_eq, hs,
            false_or] at hd
          obtain ⟨sz, hsz⟩ := Option.isSome_iff_exists.mp hd.1.1.1
          rw [encObjValues_fixed_length e hsz v (fun x hx => by
            have := hshape x hx; rw [hsz] at this; exact Option.some.inj this), hn]
          simp [segObjOf, segObjOfIdx, stdIndexObj, hs, hsz]

theorem encChunk_std (s : SegEnc) (hi : s.interleaved = false) (c : List (List Bytes)) :
    encChunk s (s.objs.map actOf) c = encChunkContiguous s.endian ((dataOs s.objs).map actOf) c := by
  simp only [encChunk, dataObjs_map_actOf, not_any_daq, hi, Bool.false_eq_true, if_false]

theorem encRaw_std (s : SegEnc) (hi : s.interleaved = false) :
    encRaw s (s.objs.map actOf) =
      s.chunks.flatMap (encChunkContiguous s.endian ((dataOs s.objs).map actOf)) := by
  unfold encRaw
  congr 1
  funext c
  exact encChunk_std s hi c

theorem flatMap_length_const {α : Type} (l : List α) (f : α → Bytes) (c : Nat)
    (h : ∀ x ∈ l, (f x).length = c) : (l.flatMap f).length = l.length * c := by
  induction l with
  | nil => simp
  | cons x xs ih =>
    simp only [List.flatMap_cons, List.length_append, List.length_cons,
      ih (fun y hy => h y (List.mem_cons_of_mem _ hy)), h x List.mem_cons_self, Nat.succ_mul]
    omega

theorem encRaw_length (s : SegEnc) (hi : s.interleaved = false) (w : WfSingle s) :
    (encRaw s (s.objs.map actOf)).length = s.chunks.length * chunkBytes s.objs := by
  rw [encRaw_std s hi]
  apply flatMap_length_const
  intro c hc
  exact encChunkContiguous_length s.endian (dataOs s.objs) c
    (fun d hd => w.objs d (dataOs_sub hd).1) (w.chunks c hc)

theorem chunkBytes_zero_no_chunks (s : SegEnc) (hi : s.interleaved = false) (w : WfSingle s)
    (h0 : chunkBytes s.objs = 0) : s.chunks.length = 0 := by
  cases hc : s.chunks with
  | nil => rfl
  | cons c cs =>
    exfalso
    have hmem : c ∈ s.chunks := by rw [hc]; exact List.mem_cons_self
    apply w.nonZero c hmem
    rw [encChunk_std s hi, encChunkContiguous_length s.endian (dataOs s.objs) c
      (fun d hd => w.objs d (dataOs_sub hd).1) (w.chunks c hmem)]
    exact h0

/-! ## `calculateChunks` -/

theorem calculateChunks_whole (s : Segment) (c k : Nat) (hc : chunkSize s.objects = .ok c)
    (hn : s.nextSegmentPos = s.dataPosition + k * c) (h0 : c = 0 → k = 0) :
    calculateChunks s = .ok { s with numChunks := k } := by
  by_cases hpos : c > 0
  · exact Tdms.Proofs.C06.calculateChunks_exact s c k hc hpos hn
  · have hc0 : c = 0 := by omega
    have hk := h0 hc0
    subst hc0 hk
    unfold calculateChunks
    have h1 : ¬ (s.nextSegmentPos < s.dataPosition) := by omega
    have h2 : s.nextSegmentPos - s.dataPosition = 0 := by omega
    simp [hc, bind, Except.bind, h1, h2, pure, Except.pure]

/-! ## object metadata -/

/-- `object_metadata` entry after `_update_object_metadata` -/
def meta0 (k : Nat) (o : ObjEnc) : ObjMeta :=
  { path := o.path, props := [], dataType := tyOf o, scalerTypes := none, numValues := nvals o * k }

/-- final `object_metadata` entry -/
def metaOf (k : Nat) (o : ObjEnc) : ObjMeta :=
  { path := o.path, props := (o.props.map canonProp).foldl setPropVal [], dataType := tyOf o,
    scalerTypes := none, numValues := nvals o * k }

theorem numberOfSegmentValues_std (o : ObjEnc) (h : stdIdx o) (seg : Segment) (hov : seg.override = none) :
    numberOfSegmentValues (segObjOf o) seg = nvals o * seg.numChunks := by
  obtain ⟨p, idx, ps⟩ := o
  rcases h with h | ⟨ty, n, total, h⟩ <;> simp only at h <;> subst h <;>
    simp [numberOfSegmentValues, segObjOf, segObjOfIdx, stdIndexObj, nvals, hov]

theorem updateObjectMetadata_std (seg : Segment) (hov : seg.override = none) (os : List ObjEnc) :
    ∀ (prev : PrevObjs) (ms : ObjMetas), (∀ o ∈ os, stdIdx o) → (os.map (·.path)).Nodup →
      (∀ o ∈ os, ∀ m ∈ ms, m.path ≠ o.path) →
      ∃ prev', updateObjectMetadata seg (os.map segObjOf) prev ms =
        .ok (prev', ms ++ os.map (meta0 seg.numChunks)) := by
  induction os with
  | nil => intro prev ms _ _ _; exact ⟨prev, by simp [updateObjectMetadata]⟩
  | cons o os ih =>
    intro prev ms hstd hnd hfresh
    simp only [List.map_cons, List.nodup_cons, List.mem_map, not_exists, not_and] at hnd
    obtain ⟨hno, hnd'⟩ := hnd
    have hso := hstd o List.mem_cons_self
    have hget : ms.get o.path = none := by
      simp only [ObjMetas.get, List.find?_eq_none, decide_eq_true_eq]
      exact fun m hm => hfresh o List.mem_cons_self m hm
    have hany : ms.any (fun m => decide (m.path = o.path)) = false := by
      simp only [List.any_eq_false, decide_eq_true_eq]
      exact fun m hm => hfresh o List.mem_cons_self m hm
    have hsc : (segObjOf o).scalerTypes = none := by
      simp [SegObj.scalerTypes, segObjOf_daq o hso]
    obtain ⟨prev', hr⟩ := ih (prev.set (segObjOf o).path (segObjOf o)) (ms ++ [meta0 seg.numChunks o])
      (fun q hq => hstd q (List.mem_cons_of_mem _ hq)) hnd' (by
        intro q hq m hm
        rcases List.mem_append.mp hm with hm | hm
        · exact hfresh q (List.mem_cons_of_mem _ hq) m hm
        · simp only [List.mem_singleton] at hm
          subst hm
          exact fun h => hno q hq h.symm)
    refine ⟨prev', ?_⟩
    simp only [segObjOf_path] at hr
    simp only [List.map_cons, updateObjectMetadata, segObjOf_path, hget, Option.getD_none, Option.isSome_none,
      Bool.false_and, Bool.false_eq_true, if_false, hsc, Bool.and_false, ObjMetas.modify, hany,
      numberOfSegmentValues_std o hso seg hov, segObjOf_dataType o hso, Nat.zero_add]
    rw [show (ms ++ [({ path := o.path, dataType := tyOf o, numValues := nvals o * seg.numChunks } : ObjMeta)])
      = ms ++ [meta0 seg.numChunks o] from rfl, hr]
    simp

theorem updateObjectProperties_std (k : Nat) (os : List ObjEnc) :
    ∀ (done : ObjMetas), (os.map (·.path)).Nodup → (∀ o ∈ os, ∀ m ∈ done, m.path ≠ o.path) →
      updateObjectProperties (done ++ os.map (meta0 k))
        ((os.filter fun o => !o.props.isEmpty).map fun o => (o.path, o.props.map canonProp)) =
      done ++ os.map (metaOf k) := by
  induction os with
  | nil => intro done _ _; simp [updateObjectProperties]
  | cons o os ih =>
    intro done hnd hfresh
    simp only [List.map_cons, List.nodup_cons, List.mem_map, not_exists, not_and] at hnd
    obtain ⟨hno, hnd'⟩ := hnd
    have hih := ih (done ++ [metaOf k o]) hnd' (by
      intro q hq m hm
      rcases List.mem_append.mp hm with hm | hm
      · exact hfresh q (List.mem_cons_of_mem _ hq) m hm
      · simp only [List.mem_singleton] at hm
        subst hm
        exact fun h => hno q hq h.symm)
    simp only [List.append_assoc, List.singleton_append] at hih
    by_cases hp : o.props = []
    · have h01 : meta0 k o = metaOf k o := by simp [meta0, metaOf, hp]
      simp only [List.filter_cons, hp, List.isEmpty_nil, Bool.not_true, Bool.false_eq_true, if_false,
        List.map_cons, h01]
      exact hih
    · have hemp : o.props.isEmpty = false := by
        cases h : o.props with
        | nil => exact absurd h hp
        | cons a as => rfl
      have hany : (done ++ meta0 k o :: os.map (meta0 k)).any (fun m => decide (m.path = o.path)) = true := by
        simp [meta0]
      simp only [List.filter_cons, hemp, Bool.not_false, if_true, List.map_cons, updateObjectProperties,
        ObjMetas.modify, hany]
      rw [map_ite_unique (fun m : ObjMeta => m.path) o.path _ done (os.map (meta0 k)) (meta0 k o) rfl
        (fun y hy => hfresh o List.mem_cons_self y hy)
        (fun y hy => by
          obtain ⟨q, hq, rfl⟩ := List.mem_map.mp hy
          exact fun h => hno q hq h)]
      exact hih

/-! ## the lead-in and the loop -/

/-- the `Segment` the reader builds -/
def segOf (s : SegEnc) (fileLen : Nat) : Segment :=
  { position := 0, toc := tocMask s, nextSegmentPos := fileLen, dataPosition := 28 + (segMeta s).length,
    incomplete := false, objects := s.objs.map segObjOf, numChunks := s.chunks.length, override := none }

/-- the reader state after `read_metadata` -/
def stateOf (s : SegEnc) (fileLen : Nat) (prev : PrevObjs) : ReaderState :=
  { version := some (s.version : Int), versions := [(s.version : Int)], prevObjs := prev,
    objects := s.objs.map (metaOf s.chunks.length), segments := [segOf s fileLen] }

/-- size side conditions: every number fits the field that stores it -/
structure SegFits (s : SegEnc) : Prop where
  nObjs : s.objs.length < 2 ^ 32
  objs : ∀ o ∈ s.objs, objFits o
  strData : ∀ o ∈ s.objs, ∀ n total, o.idx = .full tyString n total → total < 2 ^ 32

theorem encodeSeg_length (s : SegEnc) (act : List ActiveObj) :
    (encodeSeg s act).length = 28 + (segMeta s).length + (encRaw s act).length := by
  simp [encodeSeg, encLeadIn, tagData]
  omega

theorem encodeFile_single (s : SegEnc) (w : WfSingle s) :
    encodeFile [s] = .ok (encodeSeg s (s.objs.map actOf)) := by
  simp [encodeFile, w.acts, zipEncode]

theorem readSegmentObjects_single (s : SegEnc) (hm : s.hasMeta = true) (hi : s.interleaved = false)
    (w : WfSingle s) (fit : SegFits s) (hstd : ∀ o ∈ s.objs, stdIdx o) (raw : Bytes) (n : Nat)
    (hn : n = 28 + (segMeta s).length + s.chunks.length * chunkBytes s.objs) :
    readSegmentObjects ⟨0, tocMask s, n, 28 + (segMeta s).length, false, [], 0, none⟩ none []
        (segMeta s ++ raw) =
      .ok (segOf s n, (s.objs.filter fun o => !o.props.isEmpty).map fun o => (o.path, o.props.map canonProp)) := by
  have hflag : hasFlag (tocMask s) kTocMetaData = true := by rw [hasFlag_tocMask_meta, hm]
  have he : (⟨0, tocMask s, n, 28 + (segMeta s).length, false, [], 0, none⟩ : Segment).endian = s.endian :=
    segEndian_of_tocMask s
  have hread := Tdms.Proofs.C01.readObjects_encObjs_noDup s.endian s.objs (List.replicate s.padding 0 ++ raw)
    w.objs fit.objs ((noDupPaths_iff _).mpr w.nodup)
  have hmeta : (do let n ← uN s.endian 4; readObjects s.endian none [] n [] [])
      (segMeta s ++ raw) = .ok ((s.objs.map segObjOf,
        (s.objs.filter fun o => !o.props.isEmpty).map fun o => (o.path, o.props.map canonProp)),
        List.replicate s.padding 0 ++ raw) := by
    simp only [segMeta, hm, if_true, encMeta, List.append_assoc]
    rw [P_bind_ok (uN_enc_of_lt s.endian (w := 4) fit.nObjs _)]
    exact hread
  have hcalc : calculateChunks ⟨0, tocMask s, n, 28 + (segMeta s).length, false, s.objs.map segObjOf, 0, none⟩
      = .ok (segOf s n) := by
    rw [calculateChunks_whole _ (chunkBytes s.objs) s.chunks.length (chunkSize_std' s.objs hstd)
      (by simp only [hn]) (chunkBytes_zero_no_chunks s hi w)]
    rfl
  unfold readSegmentObjects
  simp only [hflag, Bool.not_true, Bool.false_eq_true, if_false, he]
  have hrun : StateT.run (do let n ← uN s.endian 4; readObjects s.endian none [] n [] [])
      (segMeta s ++ raw) = .ok ((s.objs.map segObjOf,
        (s.objs.filter fun o => !o.props.isEmpty).map fun o => (o.path, o.props.map canonProp)),
        List.replicate s.padding 0 ++ raw) := hmeta
  rw [hrun]
  simp only [bind, Except.bind]
  rw [hcalc]
  rfl

theorem version_lt (s : SegEnc) (w : WfSingle s) : s.version < 2 ^ 31 := by
  rcases w.version with h | h <;> rw [h] <;> decide

/-- **`readMetadata` on the encoding of a single standard segment** -/
theorem readMetadata_single (s : SegEnc) (hm : s.hasMeta = true) (hi : s.interleaved = false)
    (hu : s.lengthUnknown = false) (hstd : ∀ o ∈ s.objs, stdIdx o) (w : WfSingle s) (fit : SegFits s)
    (hlen : (encodeSeg s (s.objs.map actOf)).length < 2 ^ 63) :
    ∃ prev, readMetadata (encodeSeg s (s.objs.map actOf)) =
      .ok (stateOf s (encodeSeg s (s.objs.map actOf)).length prev) := by
  have hL := encodeSeg_length s (s.objs.map actOf)
  have hraw := encRaw_length s hi w
  generalize hfile : encodeSeg s (s.objs.map actOf) = file at *
  have hfile' : file = encLeadIn tagData s (segMeta s).length (encRaw s (s.objs.map actOf)).length ++
      (segMeta s ++ encRaw s (s.objs.map actOf)) := by
    rw [← hfile]; simp [encodeSeg]
  have hli : readLeadIn (file.drop 0) 0 false (some file.length) =
      .ok (some { toc := tocMask s, version := s.version, dataPosition := 0 + 28 + (segMeta s).length,
                  nextSegmentPos := 0 + 28 + (segMeta s).length + (encRaw s (s.objs.map actOf)).length,
                  incomplete := false }) := by
    rw [List.drop_zero]
    conv => lhs; arg 1; rw [hfile']
    exact Tdms.Proofs.C01.readLeadIn_encLeadIn s _ _ 0 file.length _ hu (version_lt s w) (by omega)
      (by omega) (by omega)
  have hdrop : file.drop (0 + 28) = segMeta s ++ encRaw s (s.objs.map actOf) := by
    rw [hfile']
    exact List.drop_left' (by simp [encLeadIn, tagData])
  have hseg := readSegmentObjects_single s hm hi w fit hstd (encRaw s (s.objs.map actOf)) file.length
    (by omega)
  obtain ⟨prev, hupd⟩ := updateObjectMetadata_std (segOf s file.length) rfl s.objs [] [] hstd w.nodup
    (fun _ _ m hm => by simp at hm)
  refine ⟨prev, ?_⟩
  have hprops := updateObjectProperties_std s.chunks.length s.objs [] w.nodup (fun _ _ m hm => by simp at hm)
  simp only [List.nil_append] at hupd hprops
  have hpos : 0 + 28 + (segMeta s).length + (encRaw s (s.objs.map actOf)).length = file.length := by omega
  have hstep1 : loopStep file false (some file.length) 0 0 {} =
      .ok (.next file.length file.length (stateOf s file.length prev)) := by
    unfold loopStep
    rw [hli]
    simp only [hpos, hdrop, Nat.zero_add, List.getLast?_nil]
    rw [hseg]
    simp only
    have hobj : (segOf s file.length).objects = s.objs.map segObjOf := rfl
    rw [hobj, hupd]
    simp only
    have hk : (segOf s file.length).numChunks = s.chunks.length := rfl
    rw [hk, hprops]
    rfl
  have hstep2 : loopStep file false (some file.length) file.length file.length (stateOf s file.length prev) =
      .ok (.done (stateOf s file.length prev)) := loopStep_past_end _ _ _ _ _ _ (by omega)
  unfold readMetadata
  have hfuel : file.length + 1 = (file.length - 1) + 1 + 1 := by omega
  rw [hfuel, readMetadataLoop_succ, hstep1]
  simp only
  rw [readMetadataLoop_succ, hstep2]

end Tdms.Proofs.C01Compose
