/-
  C01, the length-unknown marker on the LAST segment of a multi-segment file: one iteration of the metadata loop on
  the encoding of a segment whose lead-in carries `0xFFFF_FFFF_FFFF_FFFF` as next-segment offset (the segment then
  runs to the end of the file), the loop over a PREFIX of the segments (followed by arbitrary bytes), and
  `readMetadata` of the whole file.  Generalises `C01MultiMeta.loopStep_segment` / `C01MultiLoop.loop_multi`.
  Core Lean only.
-/
import TdmsProofs.Lemmas.C01MultiCanon

namespace Tdms.Proofs.C01Marker

open Tdms Tdms.Generated Tdms.Model Tdms.Proofs.C02 Tdms.Proofs.LeadIn Tdms.Proofs.C01Multi
open Tdms.Proofs.Bytes (canonProp contOK aTy)

/-- the same segment with the length-unknown marker in its lead-in -/
def mark (s : SegEnc) : SegEnc := { s with lengthUnknown := true }

/-- the same segment with an explicit next-segment offset -/
def unmark (s : SegEnc) : SegEnc := { s with lengthUnknown := false }

theorem mark_unmark (s : SegEnc) (h : s.lengthUnknown = true) : mark (unmark s) = s := by
  cases s; simp only [mark, unmark] at h ⊢; simp_all

theorem unmark_of_known (s : SegEnc) (h : s.lengthUnknown = false) : unmark s = s := by
  cases s; simp only [unmark] at h ⊢; simp_all

theorem segMeta_mark (s : SegEnc) : segMeta (mark s) = segMeta s := rfl
theorem encRaw_mark (s : SegEnc) (a : List ActiveObj) : encRaw (mark s) a = encRaw s a := rfl
theorem tocMask_mark (s : SegEnc) : tocMask (mark s) = tocMask s := rfl

theorem encodeSeg_mark (s : SegEnc) (a : List ActiveObj) :
    encodeSeg (mark s) a =
      encLeadIn tagData (mark s) (segMeta s).length (encRaw s a).length ++ (segMeta s ++ encRaw s a) :=
  encodeSeg_split (mark s) a

theorem encodeSeg_mark_length (s : SegEnc) (a : List ActiveObj) :
    (encodeSeg (mark s) a).length = (encodeSeg s a).length := by
  rw [encodeSeg_mark, encodeSeg_split s a]
  simp only [List.length_append, encLeadIn_length tagData (mark s) _ _ rfl, encLeadIn_length tagData s _ _ rfl]

/-- the `Segment` record with a given `incomplete` flag -/
def segRecI (pos : Nat) (s : SegEnc) (a : List ActiveObj) (inc : Bool) : Segment :=
  { segRec pos s a with incomplete := inc }

theorem segRecI_false (pos : Nat) (s : SegEnc) (a : List ActiveObj) : segRecI pos s a false = segRec pos s a := rfl

/-- the reader state after a last segment carrying the marker -/
def stateAfterI (st : ReaderState) (pos : Nat) (s : SegEnc) (a : List ActiveObj) (prev' : PrevObjs)
    (c' : Content) : ReaderState :=
  { version := some (st.version.getD (s.version : Int)), versions := st.versions ++ [(s.version : Int)],
    prevObjs := prev', objects := c'.map (mOC fun _ => 0), segments := st.segments ++ [segRecI pos s a true] }

/-- **one iteration of the metadata loop on the LAST segment, whose lead-in carries the marker**: the segment
    is taken to run to the end of the file and is flagged incomplete; everything else is as for the same segment
    with an explicit offset (`loopStep_segment`) -/
theorem loopStep_segment_marker (file : Bytes) (hlen : file.length < 2 ^ 63) (pos : Nat) (s : SegEnc)
    (a : List ActiveObj) (hfile : file.drop pos = encodeSeg (mark s) a)
    (st : ReaderState) (seen : List Bytes) (prev : Option (List ActiveObj)) (last last' : LastIdx)
    (c : Content) (hact : activeOfSeg prev last s = .ok (a, last')) (hok : SegOK s a)
    (hinv : FileInv seen prev last (mstateOf st)) (hspec : SpecInv prev last)
    (hobjs : st.objects = c.map (mOC fun _ => 0)) (hnodup : (c.map (·.path)).Nodup) :
    ∃ prev', loopStep file false (some file.length) pos pos st =
        .ok (.next (pos + (encodeSeg s a).length) (pos + (encodeSeg s a).length)
          (stateAfterI st pos s a prev' (denoteSeg c s a))) := by
  have hpost := activeOfSeg_post hspec hok.nodup hact
  have hL := activeOfSeg_ok_L hact
  have hdiv := noBareReuseSeg_of_ok hact hok.nodup seen
  have hsplit := encodeSeg_mark s a
  have hraw := encRaw_length hok
  have hli28 := encLeadIn_length tagData (mark s) (segMeta s).length (encRaw s a).length rfl
  have hseglen : (encodeSeg s a).length = 28 + (segMeta s).length + (encRaw s a).length := by
    rw [encodeSeg_split s a]; simp [encLeadIn_length tagData s _ _ rfl]; omega
  -- positions
  have hdl : (file.drop pos).length = (encodeSeg s a).length := by rw [hfile, encodeSeg_mark_length]
  have hposle : file.length = pos + (encodeSeg s a).length := by
    rw [List.length_drop] at hdl
    have := encodeSeg_length_ge s a
    omega
  -- the lead-in
  have hlead : readLeadIn (file.drop pos) pos false (some file.length) =
      .ok (some { toc := tocMask s, version := s.version, dataPosition := pos + 28 + (segMeta s).length,
                  nextSegmentPos := pos + 28 + (segMeta s).length + (encRaw s a).length,
                  incomplete := true }) := by
    rw [hfile, hsplit]
    have := Tdms.Proofs.C01.readLeadIn_encLeadIn_lengthUnknown (mark s) (segMeta s).length (encRaw s a).length pos
      file.length (segMeta s ++ encRaw s a) rfl (version_lt' hok.version) (by omega) (by omega)
    rw [this, tocMask_mark]
    have : file.length = pos + 28 + (segMeta s).length + (encRaw s a).length := by omega
    rw [this]
    rfl
  have hdrop : file.drop (pos + 28) = segMeta s ++ (encRaw s a ++ []) := by
    rw [← List.drop_drop, hfile, hsplit, List.drop_left' hli28, List.append_nil]
  -- the metadata block
  have hflagM : hasFlag (tocMask s) kTocMetaData = s.hasMeta := Tdms.Proofs.Bytes.hasFlag_tocMask_meta s
  have hflagN : hasFlag (tocMask s) kTocNewObjList = s.newList := Tdms.Proofs.Bytes.hasFlag_tocMask_newList s
  let seg0 : Segment := ⟨pos, tocMask s, pos + 28 + (segMeta s).length + (encRaw s a).length,
    pos + 28 + (segMeta s).length, true, [], 0, none⟩
  have he : seg0.endian = s.endian := Tdms.Proofs.Bytes.segEndian_of_tocMask s
  have hparse : hasFlag seg0.toc kTocMetaData = true →
      (do let n ← uN seg0.endian 4; parseObjs seg0.endian n : P (List Item)) (file.drop (pos + 28)) =
        .ok (s.objs.map itemOf, List.replicate s.padding 0 ++ (encRaw s a ++ [])) := by
    intro hm
    have hm' : s.hasMeta = true := by rw [← hflagM]; exact hm
    rw [he, hdrop, segMeta_of_meta s hm', List.append_assoc]
    exact parseMeta_encMeta s.endian s.objs _ hok.fits.nObjs hok.objs hok.std.std hok.fits.objs
  have hseg := readSegmentObjects_eq seg0 st.segments.getLast? st.prevObjs hinv.keyed
    (file.drop (pos + 28)) _ (s.objs.map itemOf) hparse
  -- the object list
  have hdesc : (⟨hasFlag seg0.toc kTocMetaData, hasFlag seg0.toc kTocNewObjList,
      (s.objs.map itemOf).map fun it => (it.path, it.hdr)⟩ : SegDesc) = descOfSegRaw s := by
    show (⟨hasFlag (tocMask s) kTocMetaData, hasFlag (tocMask s) kTocNewObjList, _⟩ : SegDesc) = _
    rw [hflagM, hflagN, items_hdrs, hdrsOf_canon s.objs hok.std.canon]
    rfl
  have href := segObjects_refines hinv s hok.nodup hdiv
  rw [hL] at href
  obtain ⟨hsegobjs, hpostseg⟩ := href
  have hsegobjs' : segObjects (st.segments.getLast?.map (·.objects)) st.prevObjs (descOfSegRaw s) =
      .ok (a.map concObj) := hsegobjs
  -- the chunks
  have hcalc : calculateChunks { seg0 with objects := a.map concObj } = .ok (segRecI pos s a true) := by
    rw [C01Compose.calculateChunks_whole _ (chunkBytesA a) s.chunks.length (chunkSize_conc a hok.good)
      (by show pos + 28 + (segMeta s).length + (encRaw s a).length = _; rw [hraw])
      (chunkBytes_zero_no_chunks hok)]
    have hnp : pos + (encodeSeg s a).length = pos + 28 + (segMeta s).length + (encRaw s a).length := by omega
    unfold segRecI segRec
    rw [hnp]
  have hprops : (if hasFlag seg0.toc kTocMetaData then foldProps [] (s.objs.map itemOf) else []) = propsDict s := by
    show (if hasFlag (tocMask s) kTocMetaData then _ else _) = _
    rw [hflagM]
    by_cases hm : s.hasMeta = true
    · simp only [hm, if_true]
      rw [foldProps_items s.objs [] hok.nodup (fun _ _ x hx => by cases hx)]
      rfl
    · have hm' : s.hasMeta = false := by simpa using hm
      simp only [hm', Bool.false_eq_true, if_false]
      exact (propsDict_nil (hok.noMeta hm')).symm
  have hreadseg : readSegmentObjects seg0 st.segments.getLast? st.prevObjs (file.drop (pos + 28)) =
      .ok (segRecI pos s a true, propsDict s) := by
    rw [hseg, hdesc, hsegobjs']
    simp only [bind, Except.bind]
    rw [hcalc, hprops]
    rfl
  -- object metadata
  have hfs := fileStep_post hinv hpostseg hpost.mono (segRecI pos s a true) (propsDict s)
  have hnodaq := uom_noDaq (segRecI pos s a true) (a.map concObj) st.prevObjs st.objects (by
    intro o ho
    obtain ⟨x, hx, rfl⟩ := List.mem_map.mp ho
    exact concObj_daq_none (hok.good x hx))
  cases hu : updateObjectMetadata (segRecI pos s a true) (a.map concObj) st.prevObjs st.objects with
  | error err =>
    rw [show (mstateOf st).prevObjs = st.prevObjs from rfl, show (mstateOf st).metas = st.objects from rfl,
      hu] at hfs
    rw [hu] at hnodaq
    exact absurd hfs hnodaq
  | ok pm =>
    obtain ⟨prev', ms'⟩ := pm
    have hms' := uom_ok_fold _ _ _ _ _ _ hu
    have hty : ∀ oc ∈ c, last'.get oc.path = none → oc.ty = none := by
      intro oc hoc hl
      have hlast : last.get oc.path = none := by
        cases hg : last.get oc.path with
        | none => rfl
        | some d =>
          obtain ⟨d', hd', _⟩ := hpost.mono _ _ hg
          rw [hl] at hd'; cases hd'
      have ht := hinv.types oc.path
      rw [hlast] at ht
      have hfind : st.objects.find? (·.path = oc.path) = some (mOC (fun _ => 0) oc) := by
        rw [hobjs, List.find?_map]
        have := find_of_nodup hnodup hoc
        have hcomp : ((fun m : ObjMeta => decide (m.path = oc.path)) ∘ mOC fun _ => 0) =
            fun x : ObjContent => decide (x.path = oc.path) := by
          funext x; rfl
        rw [hcomp, this]
        rfl
      simpa [dtOf, ObjMetas.get, mstateOf, hfind, mOC] using ht
    have hmetas : updateObjectProperties ms' (propsDict s) = (denoteSeg c s a).map (mOC fun _ => 0) := by
      rw [hms', hobjs]
      exact segment_metas (segRecI pos s a true) rfl s a last' c rfl hpost.idx hok.good hty hpost.listed hok.noMeta
        hok.chunks
    refine ⟨prev', ?_⟩
    unfold loopStep
    rw [hlead]
    simp only []
    rw [hreadseg]
    simp only []
    rw [show (segRecI pos s a true).objects = a.map concObj from rfl, hu]
    simp only [Bool.false_eq_true, if_false, hmetas]
    rfl

/-! ## the loop over a prefix of the segments -/

/-- the spec's fold of `activeOfSeg` over the segments `ss`: active lists `as`, final state `(prev', last')` -/
def ActsFrom : Option (List ActiveObj) → LastIdx → List SegEnc → List (List ActiveObj) →
    Option (List ActiveObj) → LastIdx → Prop
  | prev, last, [], [], prev', last' => prev' = prev ∧ last' = last
  | prev, last, s :: ss, a :: as, prev', last' =>
    ∃ l1, activeOfSeg prev last s = .ok (a, l1) ∧ ActsFrom (some a) l1 ss as prev' last'
  | _, _, _, _, _, _ => False

/-- `activeLists` of a concatenation splits -/
theorem activeLists_append : ∀ (ss tl : List SegEnc) (prev : Option (List ActiveObj)) (last : LastIdx)
    (acts : List (List ActiveObj)), activeLists prev last (ss ++ tl) = .ok acts →
    ∃ as atl prev' last', acts = as ++ atl ∧ ActsFrom prev last ss as prev' last' ∧
      activeLists prev' last' tl = .ok atl := by
  intro ss
  induction ss with
  | nil => intro tl prev last acts h; exact ⟨[], acts, prev, last, rfl, ⟨rfl, rfl⟩, h⟩
  | cons s ss ih =>
    intro tl prev last acts h
    obtain ⟨a, l1, as', hact, hrest, rfl⟩ := activeLists_cons (show activeLists prev last (s :: (ss ++ tl)) = _ from h)
    obtain ⟨as, atl, prev', last', rfl, hfrom, htl⟩ := ih tl (some a) l1 as' hrest
    exact ⟨a :: as, atl, prev', last', rfl, ⟨l1, hact, hfrom⟩, htl⟩

theorem ActsFrom.length : ∀ {ss : List SegEnc} {as : List (List ActiveObj)} {prev : Option (List ActiveObj)}
    {last : LastIdx} {prev' : Option (List ActiveObj)} {last' : LastIdx},
    ActsFrom prev last ss as prev' last' → ss.length = as.length := by
  intro ss
  induction ss with
  | nil => intro as _ _ _ _ h; cases as with
    | nil => rfl
    | cons a as => exact absurd h (by simp [ActsFrom])
  | cons s ss ih =>
    intro as _ _ _ _ h
    cases as with
    | nil => exact absurd h (by simp [ActsFrom])
    | cons a as =>
      obtain ⟨l1, _, h'⟩ := h
      simp [ih h']

theorem zipEncode_append : ∀ (ss : List SegEnc) (as : List (List ActiveObj)) (tl : List SegEnc)
    (atl : List (List ActiveObj)), ss.length = as.length →
    zipEncode encodeSeg (ss ++ tl) (as ++ atl) = zipEncode encodeSeg ss as ++ zipEncode encodeSeg tl atl := by
  intro ss
  induction ss with
  | nil => intro as tl atl h; cases as with
    | nil => rfl
    | cons a as => simp at h
  | cons s ss ih =>
    intro as tl atl h
    cases as with
    | nil => simp at h
    | cons a as =>
      simp only [List.cons_append, zipEncode, ih as tl atl (by simpa using h), List.append_assoc]

/-- **the metadata loop over complete segments followed by arbitrary bytes**: after `ss.length` iterations the loop
    stands at the end of the segments, in a state that again satisfies the invariants of `loop_multi` -/
theorem loop_prefix (file : Bytes) (hlen : file.length < 2 ^ 63) :
    ∀ (ss : List SegEnc) (as : List (List ActiveObj)) (rest : Bytes) (pos fuel : Nat) (st : ReaderState)
      (seen : List Bytes) (prev : Option (List ActiveObj)) (last : LastIdx) (c : Content)
      (prev' : Option (List ActiveObj)) (last' : LastIdx),
      ActsFrom prev last ss as prev' last' → SegsOK ss as →
      file.drop pos = zipEncode encodeSeg ss as ++ rest →
      FileInv seen prev last (mstateOf st) → SpecInv prev last →
      st.objects = c.map (mOC fun _ => 0) → (c.map (·.path)).Nodup →
      ∃ st' seen', readMetadataLoop file false (some file.length) (fuel + ss.length) pos pos st =
          readMetadataLoop file false (some file.length) fuel (pos + (zipEncode encodeSeg ss as).length)
            (pos + (zipEncode encodeSeg ss as).length) st' ∧
        st'.segments = st.segments ++ segRecs pos ss as ∧
        st'.objects = (denoteSegs c ss as).map (mOC fun _ => 0) ∧
        ((denoteSegs c ss as).map (·.path)).Nodup ∧
        st'.version = versionAfter st.version ss ∧
        st'.versions = st.versions ++ ss.map (fun s => (s.version : Int)) ∧
        FileInv seen' prev' last' (mstateOf st') ∧ SpecInv prev' last' := by
  intro ss
  induction ss with
  | nil =>
    intro as rest pos fuel st seen prev last c prev' last' hfrom _ _ hinv hspec hobjs hnodup
    cases as with
    | cons a as => exact absurd hfrom (by simp [ActsFrom])
    | nil =>
      obtain ⟨rfl, rfl⟩ := hfrom
      refine ⟨st, seen, by simp [zipEncode], by simp [segRecs], by simpa [denoteSegs] using hobjs,
        by simpa [denoteSegs] using hnodup, ?_, by simp, hinv, hspec⟩
      cases st.version <;> rfl
  | cons s ss ih =>
    intro as rest pos fuel st seen prev last c prev' last' hfrom hok hfile hinv hspec hobjs hnodup
    cases as with
    | nil => exact absurd hfrom (by simp [ActsFrom])
    | cons a as' =>
      obtain ⟨l1, hact, hfrom'⟩ := hfrom
      obtain ⟨hok1, hok2⟩ := hok
      have hfile' : file.drop pos = encodeSeg s a ++ (zipEncode encodeSeg ss as' ++ rest) := by
        rw [hfile]; simp [zipEncode]
      obtain ⟨pv, hstep, hinv', hspec'⟩ := loopStep_segment file hlen pos s a _ hfile' st seen prev last l1
        c hact hok1 hinv hspec hobjs hnodup
      obtain ⟨st', seen', hloop, hsegs, hobjs', hnd', hver, hvers, hinv'', hspec''⟩ :=
        ih as' rest (pos + (encodeSeg s a).length) fuel
        (stateAfter st pos s a pv (denoteSeg c s a)) _ _ _ (denoteSeg c s a) prev' last' hfrom' hok2
        (Tdms.Proofs.Bytes.drop_add_of_drop_eq hfile') hinv' hspec' rfl
        (denoteSeg_nodup c s a (not_daq_of_good hok1.good) hnodup)
      refine ⟨st', seen', ?_, ?_, ?_, ?_, ?_, ?_, hinv'', hspec''⟩
      · rw [List.length_cons, ← Nat.add_assoc, readMetadataLoop_succ, hstep]
        simp only []
        rw [hloop]
        simp only [zipEncode, List.length_append, Nat.add_assoc]
      · rw [hsegs]
        simp [stateAfter, segRecs]
      · rw [hobjs']
        rfl
      · exact hnd'
      · rw [hver]
        simp only [stateAfter, versionAfter, List.head?_cons, Option.map_some]
        cases st.version <;> rfl
      · rw [hvers]
        simp [stateAfter]

end Tdms.Proofs.C01Marker
