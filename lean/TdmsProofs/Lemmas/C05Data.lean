import TdmsProofs.Lemmas.C05Rel

/-! # C05: every reader of `Tdms/Model/Data.lean` respects the file position -/

namespace Tdms.Proofs.C05

open Tdms Tdms.Model Tdms.Generated

theorem resp_offsets (file : Bytes) (e : Endian) (n : Nat) :
    Respects (readStringValues.offsets file e n) := by
  induction n with
  | zero => unfold readStringValues.offsets; rel_auto
  | succ k ih => unfold readStringValues.offsets; rel_auto

theorem resp_strings (file : Bytes) (prev : Nat) (os : List Nat) :
    Respects (readStringValues.strings file prev os) := by
  induction os generalizing prev with
  | nil => unfold readStringValues.strings; rel_auto
  | cons o os ih => unfold readStringValues.strings; have := ih o; rel_auto

theorem resp_readStringValues (file : Bytes) (e : Endian) (n : Nat) :
    Respects (readStringValues file e n) := by
  unfold readStringValues
  have := resp_offsets file e n
  have := resp_strings file 0
  rel_auto

macro_rules | `(tactic| rel_fact) => `(tactic| exact resp_readStringValues _ _ _)

theorem resp_readValues (file : Bytes) (e : Endian) (o : SegObj) (n : Nat) :
    Respects (readValues file e o n) := by
  unfold readValues
  rel_auto

macro_rules | `(tactic| rel_fact) => `(tactic| exact resp_readValues _ _ _ _)

theorem resp_readContiguousChunk (file : Bytes) (s : Segment) (ci : Nat) (os : List SegObj) (acc : RawChunk) :
    Respects (readContiguousChunk file s ci os acc) := by
  induction os generalizing acc with
  | nil => unfold readContiguousChunk; rel_auto
  | cons o os ih => unfold readContiguousChunk; rel_auto

macro_rules | `(tactic| rel_fact) => `(tactic| exact resp_readContiguousChunk _ _ _ _ _)

theorem resp_readRows (file : Bytes) (w n : Nat) : Respects (readRows file w n) := by
  unfold readRows
  rel_auto

macro_rules | `(tactic| rel_fact) => `(tactic| exact resp_readRows _ _ _)

theorem resp_readInterleavedChunks (file : Bytes) (s : Segment) (d : List SegObj) (n : Nat) :
    Respects (readInterleavedChunks file s d n) := by
  unfold readInterleavedChunks
  rel_auto

macro_rules | `(tactic| rel_fact) => `(tactic| exact resp_readInterleavedChunks _ _ _ _)

theorem resp_bufs (file : Bytes) (s : Segment) (d : List SegObj) (crop : Bytes → Option Nat)
    (b : Nat) (dims : List (Nat × Nat)) (data scal : RawChunk) :
    Respects (readDaqmxChunk.bufs file s d crop b dims data scal) := by
  induction dims generalizing b data scal with
  | nil => unfold readDaqmxChunk.bufs; rel_auto
  | cons x rest ih => obtain ⟨n, w⟩ := x; unfold readDaqmxChunk.bufs; rel_auto

macro_rules | `(tactic| rel_fact) => `(tactic| exact resp_bufs _ _ _ _ _ _ _ _)

theorem resp_readDaqmxChunk (file : Bytes) (s : Segment) (d : List SegObj) (ci : Nat) :
    Respects (readDaqmxChunk file s d ci) := by
  unfold readDaqmxChunk
  rel_auto

macro_rules | `(tactic| rel_fact) => `(tactic| exact resp_readDaqmxChunk _ _ _ _)

theorem resp_readChunksSeq (file : Bytes) (s : Segment) (kind : ReaderKind) (d : List SegObj) (i k : Nat) :
    Respects (readChunksSeq file s kind d i k) := by
  induction k generalizing i with
  | zero => unfold readChunksSeq; rel_auto
  | succ k ih => unfold readChunksSeq; rel_auto

macro_rules | `(tactic| rel_fact) => `(tactic| exact resp_readChunksSeq _ _ _ _ _ _)

/-- `verifySegmentStart` seeks before it reads -/
theorem resets_verifySegmentStart (file : Bytes) (s : Segment) : Resets (verifySegmentStart file s) := by
  unfold verifySegmentStart
  rel_auto

macro_rules | `(tactic| rel_fact) => `(tactic| exact resets_verifySegmentStart _ _)

theorem resets_segmentReadRawData (file : Bytes) (s : Segment) : Resets (segmentReadRawData file s) := by
  unfold segmentReadRawData
  rel_auto

macro_rules | `(tactic| rel_fact) => `(tactic| exact resets_segmentReadRawData _ _)

/-- the eager read loop -/
theorem posIndep_readRawDataAll (file : Bytes) (ss : List Segment) : PosIndep (readRawDataAll file ss) := by
  induction ss with
  | nil => unfold readRawDataAll; rel_auto
  | cons s ss ih => unfold readRawDataAll; rel_auto

end Tdms.Proofs.C05
