/-
  C01, composed theorem for one-segment files: assembly of `readFile` and comparison with `denote`.
  Core Lean only.
-/
import TdmsProofs.Lemmas.C01ComposeFile

namespace Tdms.Proofs.C01Compose

open Tdms Tdms.Generated Tdms.Model Tdms.Proofs.Bytes

theorem readFile_of_parts (file : Bytes) (st : ReaderState) (chunks : List RawChunk) (fs : FState)
    (rs : List ChannelData) (h1 : readMetadata file = .ok st)
    (h2 : (readRawDataAll file st.segments).run {} = .ok (chunks, fs))
    (h3 : chunks.foldl (fileStep st)
      (.ok ((st.objects.filter fun m => countComponents m.path = 2).filterMap newReceiver)) = .ok rs) :
    readFile file = .ok ⟨st, rs⟩ := by
  unfold readFile
  simp only [h1, bind, Except.bind, h2]
  unfold fileStep at h3
  simp only [bind, Except.bind] at h3
  simp only [h3]
  rfl

/-- hypotheses on the segment: the class of one-segment files covered -/
structure SingleStd (s : SegEnc) : Prop where
  hasMeta : s.hasMeta = true
  contiguous : s.interleaved = false
  lengthKnown : s.lengthUnknown = false
  stdObjs : ∀ o ∈ s.objs, stdIdx o
  wf : wellFormed [s] = true

theorem SingleStd.wfSingle {s : SegEnc} (h : SingleStd s) : WfSingle s :=
  wfSingle_of_wellFormed s h.hasMeta h.stdObjs h.wf

/-- the channel data the eager read ends with -/
def channelsOf (s : SegEnc) : List ChannelData :=
  rcvWith (rcvPaths s.objs) (valsAfter (dataOs s.objs) (fun _ => []) s.chunks)

theorem dataOs_nodup (os : List ObjEnc) (hnd : (os.map (·.path)).Nodup) : ((dataOs os).map (·.path)).Nodup :=
  hnd.sublist (List.Sublist.map _ List.filter_sublist)

theorem rawChunksOf_eq (s : SegEnc) (w : WfSingle s) :
    rawChunksOf s = (if !s.rawFlag then [[]] else []) ++
      s.chunks.map fun ch => pairsChunk (chunkPairs (dataOs s.objs) ch) := by
  unfold rawChunksOf
  congr 1
  apply List.map_congr_left
  intro ch _
  exact setCols_eq_pairs (dataOs s.objs) ch (dataOs_nodup s.objs w.nodup)

theorem readFile_single (s : SegEnc) (h : SingleStd s) (fit : SegFits s) (hch : onlyChannelsHaveData s)
    (hlen : (encodeSeg s (s.objs.map actOf)).length < 2 ^ 63) :
    ∃ prev, readFile (encodeSeg s (s.objs.map actOf)) =
      .ok ⟨stateOf s (encodeSeg s (s.objs.map actOf)).length prev, channelsOf s⟩ := by
  have w := h.wfSingle
  obtain ⟨prev, hmeta⟩ := readMetadata_single s h.hasMeta h.contiguous h.lengthKnown h.stdObjs w fit hlen
  obtain ⟨fs, hdata⟩ := readRawDataAll_single s h.contiguous h.stdObjs w fit {}
  refine ⟨prev, readFile_of_parts _ _ (rawChunksOf s) fs _ hmeta hdata ?_⟩
  generalize (encodeSeg s (s.objs.map actOf)).length = L
  have hobjs : (stateOf s L prev).objects = s.objs.map (metaOf s.chunks.length) := rfl
  rw [hobjs, receivers_eq _ _ w.objs, rawChunksOf_eq s w, List.foldl_append]
  have hpre : (if !s.rawFlag then [[]] else [] : List RawChunk).foldl (fileStep (stateOf s L prev))
      (.ok (rcvWith (rcvPaths s.objs) fun _ => [])) = .ok (rcvWith (rcvPaths s.objs) fun _ => []) := by
    cases s.rawFlag
    · simp only [Bool.not_false, if_true, List.foldl_cons, List.foldl_nil]
      exact fileStep_empty _ _
    · rfl
  rw [hpre]
  apply foldl_fileStep (stateOf s L prev) (rcvPaths s.objs) (dataOs s.objs)
  · intro d hd
    obtain ⟨hmem, hfull⟩ := dataOs_sub hd
    exact List.mem_map.mpr ⟨d, List.mem_filter.mpr ⟨hmem, by simp [hch d hmem hfull, hfull]⟩, rfl⟩
  · exact dataOs_nodup s.objs w.nodup
  · exact fun ch hc => lensOK_of_wfStdChunk _ ch (w.chunks ch hc)
  · intro p _
    rw [hobjs, get_metaOf, nOf_dataOs s.objs w.nodup]
    simp

/-! ## the content of a file, on both sides -/

/-- what a user sees of one object: path, data type, properties (name, type, canonical value), values -/
structure ObjView where
  path : Bytes
  dataType : Option Nat
  props : List PropVal
  values : List Bytes
deriving Repr, DecidableEq

/-- what the eager read returns: per object (in `object_metadata` order) its path, data type,
    properties and the values of its channel (`[]` when the object has no channel data) -/
def content (r : EagerResult) : List ObjView :=
  r.state.objects.map fun m => ⟨m.path, m.dataType, m.props, valuesIn r.channels m.path⟩

/-- the same view of the spec's meaning; property values in the reader's canonical form -/
def contentOfDenote (c : Content) : List ObjView :=
  c.map fun oc => ⟨oc.path, oc.ty, oc.props.map canonProp, oc.values⟩

theorem content_eq (s : SegEnc) (hch : onlyChannelsHaveData s) (L : Nat) (prev : PrevObjs) :
    content ⟨stateOf s L prev, channelsOf s⟩ =
      contentOfDenote (withVals (s.objs.map base) (valsAfter (dataOs s.objs) (fun _ => []) s.chunks)) := by
  simp only [content, contentOfDenote, stateOf, withVals, List.map_map]
  apply List.map_congr_left
  intro o ho
  have h1 : (o.props.map canonProp).foldl setPropVal [] = (o.props.foldl setProp []).map canonProp := by
    have := foldl_setProp_canon o.props []
    simpa using this.symm
  have h2 : valuesIn (channelsOf s) o.path = valsAfter (dataOs s.objs) (fun _ => []) s.chunks o.path := by
    unfold channelsOf
    rw [valuesIn_rcvWith]
    by_cases hp : o.path ∈ rcvPaths s.objs
    · rw [if_pos hp]
    · rw [if_neg hp]
      symm
      apply valsAfter_not_mem
      intro hmem
      obtain ⟨d, hd, hde⟩ := List.mem_map.mp hmem
      obtain ⟨hdm, hfull⟩ := dataOs_sub hd
      apply hp
      rw [← hde]
      exact List.mem_map.mpr ⟨d, List.mem_filter.mpr ⟨hdm, by simp [hch d hdm hfull, hfull]⟩, rfl⟩
  show (⟨o.path, tyOf o, (o.props.map canonProp).foldl setPropVal [], valuesIn (channelsOf s) o.path⟩ : ObjView) =
    ⟨o.path, tyOf o, (o.props.foldl setProp []).map canonProp, _⟩
  rw [h1, h2]
  rfl

/-! ## the values `denote` assigns, in closed form -/

theorem lensOK_length (ds : List ObjEnc) : ∀ ch, lensOK ds ch → ch.length = ds.length := by
  induction ds with
  | nil => intro ch h; cases ch <;> simp [lensOK] at h ⊢
  | cons d ds ih =>
    intro ch h
    cases ch with
    | nil => simp [lensOK] at h
    | cons v vs => simp [ih vs h.2]

theorem bump_foldl_at (ds : List ObjEnc) :
    ∀ (ch : List (List Bytes)) (f : Bytes → List Bytes) (i : Nat) (hi : i < ds.length), lensOK ds ch →
      (ds.map (·.path)).Nodup →
      (chunkPairs ds ch).foldl bump f ds[i].path = f ds[i].path ++ ch.getD i [] := by
  induction ds with
  | nil => intro ch f i hi; simp at hi
  | cons d ds ih =>
    intro ch f i hi h hnd
    cases ch with
    | nil => simp [lensOK] at h
    | cons v vs =>
      simp only [List.map_cons, List.nodup_cons] at hnd
      obtain ⟨hno, hnd'⟩ := hnd
      have hcp : chunkPairs (d :: ds) (v :: vs) = (d.path, v) :: chunkPairs ds vs := rfl
      rw [hcp, List.foldl_cons]
      cases i with
      | zero =>
        simp only [List.getElem_cons_zero]
        rw [bump_foldl_not_mem _ _ _ (fun hm => hno (chunkPairs_paths_sub ds vs d.path hm))]
        simp [bump]
      | succ i =>
        have hi' : i < ds.length := by simpa using hi
        simp only [List.getElem_cons_succ]
        rw [ih vs _ i hi' h.2 hnd']
        have hne : ¬ ds[i].path = d.path := by
          intro e
          exact hno (List.mem_map.mpr ⟨ds[i], List.getElem_mem hi', e⟩)
        simp [bump, hne]

theorem valsAfter_at (ds : List ObjEnc) (hnd : (ds.map (·.path)).Nodup) (i : Nat) (hi : i < ds.length) :
    ∀ (chs : List (List (List Bytes))) (f : Bytes → List Bytes), (∀ ch ∈ chs, lensOK ds ch) →
      valsAfter ds f chs ds[i].path = f ds[i].path ++ chs.flatMap (·.getD i []) := by
  intro chs
  induction chs with
  | nil => intro f _; simp [valsAfter]
  | cons ch chs ih =>
    intro f hok
    show valsAfter ds ((chunkPairs ds ch).foldl bump f) chs ds[i].path = _
    rw [ih _ (fun c hc => hok c (List.mem_cons_of_mem _ hc)),
      bump_foldl_at ds ch f i hi (hok ch List.mem_cons_self) hnd]
    simp

theorem find_withVals (os : List ObjEnc) (F : Bytes → List Bytes) (p : Bytes) (hp : p ∈ os.map (·.path)) :
    ((withVals (os.map base) F).find? (·.path = p)).map (·.values) = some (F p) := by
  induction os with
  | nil => simp at hp
  | cons o os ih =>
    by_cases h : o.path = p
    · subst h
      simp [withVals, base]
    · have hp' : p ∈ os.map (·.path) := by
        rcases List.mem_cons.mp hp with e | e
        · exact absurd e.symm h
        · exact e
      have := ih hp'
      simp only [withVals, List.map_cons, List.find?_cons, base, h, decide_false] at this ⊢
      exact this

theorem eq_of_nodup_map_path (os : List ObjEnc) (hnd : (os.map (·.path)).Nodup) {a b : ObjEnc}
    (ha : a ∈ os) (hb : b ∈ os) (e : a.path = b.path) : a = b := by
  induction os with
  | nil => simp at ha
  | cons o os ih =>
    simp only [List.map_cons, List.nodup_cons, List.mem_map, not_exists, not_and] at hnd
    obtain ⟨hno, hnd'⟩ := hnd
    rcases List.mem_cons.mp ha with rfl | ha' <;> rcases List.mem_cons.mp hb with rfl | hb'
    · rfl
    · exact absurd e.symm (hno b hb')
    · exact absurd e (hno a ha')
    · exact ih hnd' ha' hb'

/-- `object_metadata` entry the reader ends with: data type of the index, `n · k` values, and the
    properties with last-write-wins per name — the spec's `setProp` fold, in the reader's canonical form -/
def objMetaOf (k : Nat) (o : ObjEnc) : ObjMeta :=
  { path := o.path, props := (o.props.foldl setProp []).map canonProp, dataType := tyOf o,
    scalerTypes := none, numValues := nvals o * k }

theorem metaOf_eq_objMetaOf (k : Nat) (o : ObjEnc) : metaOf k o = objMetaOf k o := by
  have := foldl_setProp_canon o.props []
  simp only [List.map_nil] at this
  simp only [metaOf, objMetaOf, this]

end Tdms.Proofs.C01Compose
