/-
  C01 with DAQmx segments: chunk arithmetic of a segment of the class (standard: `Σ dataSize`; DAQmx:
  `Σ_b rows_b × width_b` via `bufferDimensions`, every chunk conforming to the dimensions), one iteration of `readMetadataLoop` from any reachable state,
  the induction over the segments, `readMetadata`.  Core Lean only.
-/
import TdmsProofs.Lemmas.C01LayoutsDaqContent
import TdmsProofs.Properties.C11

namespace Tdms.Proofs.C01Layouts

open Tdms Tdms.Generated Tdms.Model Tdms.Proofs.C02 Tdms.Proofs.LeadIn Tdms.Proofs.C01Multi
open Tdms.Proofs.Bytes (canonProp contOK aTy)
open Tdms.Proofs.C11 (daqMetas dimN hasScalerIn RowsConform)

/-! ## which reader the segment gets -/

theorem concObj_daq_isSome (x : ActiveObj) : (concObj x).daq.isSome = isDaqmxObj x := by
  unfold concObj isDaqmxObj
  cases hi : x.idx with
  | none => rfl
  | some d => cases d <;> rfl

theorem haveDaqmxObjects_false (a : List ActiveObj) (h : (dataObjs a).any isDaqmxObj = false) :
    haveDaqmxObjects (a.map concObj) = .ok false := by
  have : ((a.map concObj).filter (·.hasData)).filter (·.daq.isSome) = [] := by
    rw [filter_hasData_conc, List.filter_eq_nil_iff]
    intro o ho
    obtain ⟨x, hx, rfl⟩ := List.mem_map.mp ho
    rw [concObj_daq_isSome]
    have := List.any_eq_false.mp h x hx
    simpa using this
  simp [haveDaqmxObjects, this]

theorem haveDaqmxObjects_true (a : List ActiveObj) (hne : dataObjs a ≠ [])
    (h : ∀ x ∈ dataObjs a, isDaqmxObj x = true) : haveDaqmxObjects (a.map concObj) = .ok true := by
  have hq : ((a.map concObj).filter (·.hasData)).filter (·.daq.isSome) = (a.map concObj).filter (·.hasData) := by
    rw [filter_hasData_conc, List.filter_eq_self]
    intro o ho
    obtain ⟨x, hx, rfl⟩ := List.mem_map.mp ho
    rw [concObj_daq_isSome]
    exact h x hx
  have hlen : ((a.map concObj).filter (·.hasData)).length ≠ 0 := by
    rw [filter_hasData_conc, List.length_map]
    intro e
    exact hne (List.eq_nil_of_length_eq_zero e)
  simp only [haveDaqmxObjects, hq]
  rw [if_neg hlen]
  simp

theorem daqObj_isDaq {F : ScF} {W : List Nat} {x : ActiveObj} (h : DaqObj F W x) : isDaqmxObj x = true := by
  obtain ⟨dg, n, sc, hi, _⟩ := h
  simp [isDaqmxObj, hi]

/-! ## standard layout -/

theorem stdGood_of_layout {F : ScF} {s : SegEnc} {a : List ActiveObj}
    (hgood : ∀ x ∈ a, ∀ d, x.idx = some d → GoodDescD GoodDesc F x.path d) (hl : StdLayout s (dataObjs a)) :
    ∀ x ∈ dataObjs a, ∀ i, x.idx = some i → GoodDesc i := by
  intro x hx i hi
  have hxa : x ∈ a := (List.mem_filter.mp hx).1
  have hg := hgood x hxa i hi
  cases i with
  | std ty n total => exact hg
  | daq dg ty n sc w =>
    have := List.any_eq_false.mp hl.noDaq x hx
    simp [isDaqmxObj, hi] at this

theorem chunkSize_stdD (a : List ActiveObj) (h : (dataObjs a).any isDaqmxObj = false) :
    chunkSize (a.map concObj) = .ok (chunkBytesA a) := by
  rw [Tdms.Proofs.C06.chunkSize_std _ (haveDaqmxObjects_false a h), filter_hasData_conc]
  unfold chunkBytesA
  rw [List.map_map]
  rfl

theorem encChunk_bytes_stdD {F : ScF} {s : SegEnc} {a : List ActiveObj}
    (hgood : ∀ x ∈ a, ∀ d, x.idx = some d → GoodDescD GoodDesc F x.path d) (hl : StdLayout s (dataObjs a))
    (c : List (List Bytes)) (hc : c ∈ s.chunks) : (encChunk s a c).length = chunkBytesA a := by
  have hg := stdGood_of_layout hgood hl
  cases hi : s.interleaved with
  | false =>
    rw [encChunk_contig s a hi hl.noDaq]
    exact (chunk_facts s.endian (dataObjs a) c hg (hl.chunks c hc)).2
  | true =>
    rw [encChunk_inter s a hi hl.noDaq]
    exact encChunkInterleaved_bytes s.endian (dataObjs a) c hg (hl.inter hi) (hl.chunks c hc)

/-! ## DAQmx layout, any number of buffers -/

theorem sc_ne_nil {dg : Bool} {ty n : Nat} {sc : List ScalerEnc} {w : List Nat}
    (h : wfIdx (.daqmx dg ty n sc w) = true) : sc ≠ [] := by
  simp only [wfIdx, Bool.and_eq_true] at h
  intro e
  rw [e] at h
  simp at h

/-- what `wfIdx` says about one scaler: its type, the size of the type, its buffer and the width of it -/
theorem scaler_facts {dg : Bool} {ty n : Nat} {sc : List ScalerEnc} {W : List Nat}
    (hwf : wfIdx (.daqmx dg ty n sc W) = true) :
    ∀ s ∈ sc, ∃ t sz, daqmxTypeCode s.daqType = some t ∧ typeSize t = some sz ∧ s.buffer < W.length ∧
      scalerByteOffset dg s + sz ≤ W.getD s.buffer 0 := by
  intro s hs
  simp only [wfIdx, Bool.and_eq_true, List.all_eq_true] at hwf
  have := hwf.2 s hs
  cases ht : daqmxTypeCode s.daqType with
  | none => rw [ht] at this; cases this
  | some t =>
    rw [ht] at this
    simp only [] at this
    cases hsz : typeSize t with
    | none => rw [hsz] at this; simp at this
    | some sz =>
      rw [hsz] at this
      cases hw : W[s.buffer]? with
      | none => rw [hw] at this; simp at this
      | some wb =>
        rw [hw] at this
        simp only [Bool.and_eq_true, decide_eq_true_eq] at this
        have hlt : s.buffer < W.length := by
          rcases Nat.lt_or_ge s.buffer W.length with h | h
          · exact h
          · rw [List.getElem?_eq_none h] at hw; cases hw
        refine ⟨t, sz, rfl, hsz, hlt, ?_⟩
        rw [List.getD_eq_getElem?_getD, hw]
        exact this.1

theorem concObj_daqObj {F : ScF} {W : List Nat} {x : ActiveObj} (h : DaqObj F W x) :
    ∃ dg n sc, x.idx = some (.daq dg tyDaqmxRaw n sc W) ∧ sc ≠ [] ∧ (∀ s ∈ sc, s.buffer < W.length) ∧
      daqScalers x = sc ∧ (concObj x).daq = some ⟨n, W, sc.map (convScaler dg)⟩ := by
  obtain ⟨dg, n, sc, hi, hd⟩ := h
  refine ⟨dg, n, sc, hi, sc_ne_nil hd.wf, ?_, by simp [daqScalers, hi], by unfold concObj; rw [hi]⟩
  intro s hs
  obtain ⟨_, _, _, _, hlt, _⟩ := scaler_facts hd.wf s hs
  exact hlt

theorem daqMetas_conc (a : List ActiveObj) :
    daqMetas (a.map concObj) = (dataObjs a).filterMap fun x => (concObj x).daq := by
  unfold daqMetas
  rw [filter_hasData_conc, List.filterMap_map]
  rfl

theorem hasScalerIn_conv (dg : Bool) (sc : List ScalerEnc) (b : Nat) :
    hasScalerIn (sc.map (convScaler dg)) b = sc.any (fun s => decide (s.buffer = b)) := by
  unfold hasScalerIn
  rw [List.any_map]
  rfl

/-- `RowsConform` from index-wise facts -/
theorem rowsConform_of_index : ∀ (c : List (List Bytes)) (dims : List (Nat × Nat)), c.length = dims.length →
    (∀ b, b < dims.length → (c.getD b []).length = (dims.getD b (0, 0)).1 ∧ 0 < (dims.getD b (0, 0)).2 ∧
      ∀ r ∈ c.getD b [], r.length = (dims.getD b (0, 0)).2) → RowsConform c dims := by
  intro c
  induction c with
  | nil => intro dims hl _; cases dims <;> simp [RowsConform] at hl ⊢
  | cons rows rest ih =>
    intro dims hl h
    cases dims with
    | nil => simp at hl
    | cons x xs =>
      obtain ⟨n, w⟩ := x
      have h0 := h 0 (by simp)
      simp only [List.getD_cons_zero] at h0
      refine ⟨h0.1, h0.2.1, h0.2.2, ih xs (by simpa using hl) ?_⟩
      intro b hb
      have := h (b + 1) (by simpa using hb)
      simpa using this

/-- the buffer dimensions the reader computes for a DAQmx segment of the class, and every chunk conforms to
    them: buffer `b` of a chunk has exactly `dims[b].1` rows of `dims[b].2 = W[b] > 0` bytes -/
theorem bufferDimensions_daq {F : ScF} {s : SegEnc} {a : List ActiveObj} (hl : DaqLayout F s (dataObjs a)) :
    ∃ W dims, (∀ x ∈ dataObjs a, DaqObj F W x) ∧ bufferDimensions (a.map concObj) = .ok dims ∧
      ∀ c ∈ s.chunks, DaqChunkOK W (dataObjs a) c ∧ RowsConform c dims := by
  obtain ⟨W, hobj, hch⟩ := hl.width
  obtain ⟨x0, hx0⟩ := List.exists_mem_of_ne_nil _ hl.nonempty
  -- the DAQmx metadata of the data objects
  have hmetas : ∀ m ∈ daqMetas (a.map concObj), ∃ x ∈ dataObjs a, ∃ dg n sc,
      x.idx = some (.daq dg tyDaqmxRaw n sc W) ∧ daqScalers x = sc ∧ (∀ s ∈ sc, s.buffer < W.length) ∧
      m = ⟨n, W, sc.map (convScaler dg)⟩ := by
    intro m hm
    rw [daqMetas_conc, List.mem_filterMap] at hm
    obtain ⟨x, hx, hxm⟩ := hm
    obtain ⟨dg, n, sc, hi, _, hb, hds, hdq⟩ := concObj_daqObj (hobj x hx)
    rw [hdq] at hxm
    cases hxm
    exact ⟨x, hx, dg, n, sc, hi, hds, hb, rfl⟩
  have hmeta_of : ∀ x ∈ dataObjs a, ∃ dg n sc, x.idx = some (.daq dg tyDaqmxRaw n sc W) ∧ daqScalers x = sc ∧
      (⟨n, W, sc.map (convScaler dg)⟩ : DaqMeta) ∈ daqMetas (a.map concObj) := by
    intro x hx
    obtain ⟨dg, n, sc, hi, _, _, hds, hdq⟩ := concObj_daqObj (hobj x hx)
    refine ⟨dg, n, sc, hi, hds, ?_⟩
    rw [daqMetas_conc, List.mem_filterMap]
    exact ⟨x, hx, hdq⟩
  have hne : daqMetas (a.map concObj) ≠ [] := by
    obtain ⟨dg, n, sc, _, _, hm⟩ := hmeta_of x0 hx0
    intro e
    rw [e] at hm
    cases hm
  have hWpos : ∀ w ∈ W, 0 < w := by
    obtain ⟨dg, n, sc, _, hd⟩ := hobj x0 hx0
    exact hd.widths
  cases hms : daqMetas (a.map concObj) with
  | nil => exact absurd hms hne
  | cons first rest =>
    have hfw : first.widths = W := by
      obtain ⟨_, _, _, _, _, _, _, _, rfl⟩ := hmetas first (by rw [hms]; exact List.mem_cons_self)
      rfl
    obtain ⟨dims, hd1, hd2, hd3, hge, hatt⟩ := Tdms.Proofs.C11.bufferDimensions_spec (a.map concObj) first rest hms
      (by
        intro m hm
        obtain ⟨_, _, _, _, _, _, _, _, rfl⟩ := hmetas m hm
        rw [hfw])
      (by
        intro m hm sc hsc
        obtain ⟨_, _, dg, n, sc0, _, _, hb, rfl⟩ := hmetas m hm
        obtain ⟨s0, hs0, rfl⟩ := List.mem_map.mp hsc
        rw [hfw]
        exact hb s0 hs0)
    rw [hfw] at hd2 hd3
    have hdget : ∀ b, b < W.length → dims.getD b (0, 0) = (dimN (daqMetas (a.map concObj)) b 0, W.getD b 0) := by
      intro b hb
      have := hd3 b
      rw [List.getD_eq_getElem?_getD, this, List.getD_eq_getElem?_getD, List.getElem?_eq_getElem hb]
      rfl
    refine ⟨W, dims, hobj, hd1, ?_⟩
    intro c hc
    have hck := hch c hc
    refine ⟨hck, ?_⟩
    apply rowsConform_of_index c dims (by rw [hck.len, hd2])
    intro b hb
    rw [hd2] at hb
    rw [hdget b hb]
    refine ⟨?_, ?_, hck.rows b hb⟩
    · -- the number of rows is the maximum of the chunk sizes of the objects with a scaler in the buffer
      have hall : ∀ m ∈ daqMetas (a.map concObj), hasScalerIn m.scalers b = true →
          m.chunkSize = (c.getD b []).length := by
        intro m hm hs
        obtain ⟨x, hx, dg, n, sc, hi, hds, _, rfl⟩ := hmetas m hm
        rw [hasScalerIn_conv] at hs
        obtain ⟨s0, hs0, hsb⟩ := List.any_eq_true.mp hs
        have hsb' : s0.buffer = b := by simpa using hsb
        have := hck.count x hx _ hi s0 (by rw [hds]; exact hs0)
        rw [hsb'] at this
        exact this.symm
      show (c.getD b []).length = dimN (daqMetas (a.map concObj)) b 0
      rcases hatt b with h0 | ⟨m, hm, hs, hm2⟩
      · rcases hck.used b hb with he | ⟨x, hx, s0, hs0, hsb⟩
        · rw [h0, he]; rfl
        · obtain ⟨dg, n, sc, hi, hds, hmem⟩ := hmeta_of x hx
          have hs : hasScalerIn (sc.map (convScaler dg)) b = true := by
            rw [hasScalerIn_conv]
            exact List.any_eq_true.mpr ⟨s0, by rw [← hds]; exact hs0, by simpa using hsb⟩
          have h1 := hge b _ hmem hs
          have h2 := hall _ hmem hs
          simp only [] at h1 h2
          omega
      · rw [hm2]; exact (hall m hm hs).symm
    · have : W.getD b 0 ∈ W := by
        rw [List.getD_eq_getElem?_getD, List.getElem?_eq_getElem hb]
        exact List.getElem_mem hb
      exact hWpos _ this

theorem encChunk_daq (s : SegEnc) (a : List ActiveObj) (h : (dataObjs a).any isDaqmxObj = true)
    (c : List (List Bytes)) : encChunk s a c = encChunkDaqmx c := by
  simp only [encChunk, h, if_true]

theorem daqLayout_any {F : ScF} {s : SegEnc} {d : List ActiveObj} (hl : DaqLayout F s d) :
    d.any isDaqmxObj = true := by
  obtain ⟨w0, hobj, _⟩ := hl.width
  obtain ⟨x0, hx0⟩ := List.exists_mem_of_ne_nil _ hl.nonempty
  exact List.any_eq_true.mpr ⟨x0, hx0, daqObj_isDaq (hobj x0 hx0)⟩

/-! ## chunk arithmetic, any layout of the class -/

/-- the reader's chunk size exists, and every encoded chunk has exactly that many bytes -/
theorem seg_arith {F : ScF} {s : SegEnc} {a : List ActiveObj} (hok : SegOKD GoodDesc F s a) :
    ∃ cb, chunkSize (a.map concObj) = .ok cb ∧ ∀ c ∈ s.chunks, (encChunk s a c).length = cb := by
  rcases hok.layout with hl | hl
  · exact ⟨chunkBytesA a, chunkSize_stdD a hl.noDaq, encChunk_bytes_stdD hok.good hl⟩
  · obtain ⟨W, dims, hobj, hdims, hch⟩ := bufferDimensions_daq hl
    have hq := haveDaqmxObjects_true a hl.nonempty (fun x hx => daqObj_isDaq (hobj x hx))
    refine ⟨_, Tdms.Proofs.C11.daqmx_chunk_size _ _ hq hdims, ?_⟩
    intro c hc
    rw [encChunk_daq s a (daqLayout_any hl), Tdms.Proofs.C11.encChunkDaqmx_length c dims (hch c hc).2]
    rfl

/-! ## the `TyCons` invariant from C02's `FileInv` -/

theorem tyCons_of_inv {seen : List Bytes} {prev : Option (List ActiveObj)} {last last' : LastIdx}
    {st : ReaderState} (hinv : FileInv seen prev last (mstateOf st)) {F : ScF} {N : Bytes → Nat} {c : Content}
    (hobjs : st.objects = c.map (mOCD F N)) (hnodup : (c.map (·.path)).Nodup)
    (hmono : ∀ p d, last.get p = some d → ∃ d', last'.get p = some d' ∧ d'.ty = d.ty) : TyCons last' c := by
  intro oc hoc
  have ht := hinv.types oc.path
  have hfind : st.objects.find? (·.path = oc.path) = some (mOCD F N oc) := by
    rw [hobjs, List.find?_map]
    have := find_of_nodup hnodup hoc
    have hcomp : ((fun m : ObjMeta => decide (m.path = oc.path)) ∘ mOCD F N) =
        fun x : ObjContent => decide (x.path = oc.path) := by
      funext x; rfl
    rw [hcomp, this]
    rfl
  have hty : oc.ty = (last.get oc.path).map (·.ty) := by
    simpa [dtOf, ObjMetas.get, mstateOf, hfind, mOCD] using ht
  cases hg : last.get oc.path with
  | none => left; rw [hty, hg]; rfl
  | some d =>
    obtain ⟨d', hd', hdt⟩ := hmono _ _ hg
    right
    rw [hty, hg, hd']
    simp [hdt]

/-! ## one iteration of the metadata loop -/

/-- the reader state after one more segment -/
def stateAfterD (F : ScF) (st : ReaderState) (pos : Nat) (s : SegEnc) (a : List ActiveObj) (prev' : PrevObjs)
    (c' : Content) (N' : Bytes → Nat) : ReaderState :=
  { version := some (st.version.getD (s.version : Int)), versions := st.versions ++ [(s.version : Int)],
    prevObjs := prev', objects := c'.map (mOCD F N'), segments := st.segments ++ [segRec pos s a] }

/-- **one iteration of the metadata loop on an encoded segment of the class** (standard contiguous, standard
    interleaved or DAQmx), from any reachable state -/
theorem loopStep_segmentD (F : ScF) (file : Bytes) (hlen : file.length < 2 ^ 63) (pos : Nat) (s : SegEnc)
    (a : List ActiveObj) (rest : Bytes) (hfile : file.drop pos = encodeSeg s a ++ rest)
    (st : ReaderState) (seen : List Bytes) (prev : Option (List ActiveObj)) (last last' : LastIdx)
    (c : Content) (N : Bytes → Nat) (hact : activeOfSeg prev last s = .ok (a, last'))
    (hok : SegOKD GoodDesc F s a) (hcanon : ∀ o ∈ s.objs, canonIdx o.idx = o.idx)
    (hinv : FileInv seen prev last (mstateOf st)) (hspec : SpecInv prev last)
    (hobjs : st.objects = c.map (mOCD F N)) (hnodup : (c.map (·.path)).Nodup)
    (hN0 : ∀ p, c.any (fun o => decide (o.path = p)) = false → N p = 0) :
    ∃ prev', loopStep file false (some file.length) pos pos st =
        .ok (.next (pos + (encodeSeg s a).length) (pos + (encodeSeg s a).length)
          (stateAfterD F st pos s a prev' (denoteSeg c s a) fun p => N p + cntOf a p * s.chunks.length)) ∧
      FileInv (seen ++ a.map (·.path)) (some a) last'
        (mstateOf (stateAfterD F st pos s a prev' (denoteSeg c s a) fun p => N p + cntOf a p * s.chunks.length)) ∧
      SpecInv (some a) last' := by
  have hpost := activeOfSeg_post hspec hok.nodup hact
  have hL := activeOfSeg_ok_L hact
  have hdiv := noBareReuseSeg_of_ok hact hok.nodup seen
  have hsplit := encodeSeg_split s a
  obtain ⟨cb, hcs, hcl⟩ := seg_arith hok
  have hraw : (encRaw s a).length = s.chunks.length * cb := by
    unfold encRaw
    exact C01Compose.flatMap_length_const _ _ _ hcl
  have hzero : cb = 0 → s.chunks.length = 0 := by
    intro h0
    cases hc : s.chunks with
    | nil => rfl
    | cons c0 cs =>
      exfalso
      have hmem : c0 ∈ s.chunks := by rw [hc]; exact List.mem_cons_self
      exact hok.nonZero c0 hmem (by rw [hcl c0 hmem]; exact h0)
  have hli28 := encLeadIn_length tagData s (segMeta s).length (encRaw s a).length rfl
  have hseglen : (encodeSeg s a).length = 28 + (segMeta s).length + (encRaw s a).length := by
    rw [hsplit]; simp [hli28]; omega
  -- positions
  have hdl : (file.drop pos).length = (encodeSeg s a).length + rest.length := by rw [hfile]; simp
  have hposle : pos + (encodeSeg s a).length ≤ file.length := by
    rw [List.length_drop] at hdl; omega
  -- the lead-in
  have hlead : readLeadIn (file.drop pos) pos false (some file.length) =
      .ok (some { toc := tocMask s, version := s.version, dataPosition := pos + 28 + (segMeta s).length,
                  nextSegmentPos := pos + 28 + (segMeta s).length + (encRaw s a).length,
                  incomplete := false }) := by
    rw [hfile, hsplit, List.append_assoc]
    exact Tdms.Proofs.C01.readLeadIn_encLeadIn s _ _ pos file.length _ hok.lengthKnown
      (version_lt' hok.version) (by omega) (by omega) (by omega)
  have hdrop : file.drop (pos + 28) = segMeta s ++ (encRaw s a ++ rest) := by
    rw [← List.drop_drop, hfile, hsplit, List.append_assoc, List.drop_left' hli28, List.append_assoc]
  -- the metadata block
  have hflagM : hasFlag (tocMask s) kTocMetaData = s.hasMeta := Tdms.Proofs.Bytes.hasFlag_tocMask_meta s
  have hflagN : hasFlag (tocMask s) kTocNewObjList = s.newList := Tdms.Proofs.Bytes.hasFlag_tocMask_newList s
  let seg0 : Segment := ⟨pos, tocMask s, pos + 28 + (segMeta s).length + (encRaw s a).length,
    pos + 28 + (segMeta s).length, false, [], 0, none⟩
  have he : seg0.endian = s.endian := Tdms.Proofs.Bytes.segEndian_of_tocMask s
  have hparse : hasFlag seg0.toc kTocMetaData = true →
      (do let n ← uN seg0.endian 4; parseObjs seg0.endian n : P (List Item)) (file.drop (pos + 28)) =
        .ok (s.objs.map itemOf, List.replicate s.padding 0 ++ (encRaw s a ++ rest)) := by
    intro hm
    have hm' : s.hasMeta = true := by rw [← hflagM]; exact hm
    rw [he, hdrop, segMeta_of_meta s hm', List.append_assoc]
    exact parseMeta_encMetaD s.endian s.objs _ hok.fits.nObjs hok.objs hok.fits.objs
  have hseg := readSegmentObjects_eq seg0 st.segments.getLast? st.prevObjs hinv.keyed
    (file.drop (pos + 28)) _ (s.objs.map itemOf) hparse
  -- the object list
  have hdesc : (⟨hasFlag seg0.toc kTocMetaData, hasFlag seg0.toc kTocNewObjList,
      (s.objs.map itemOf).map fun it => (it.path, it.hdr)⟩ : SegDesc) = descOfSegRaw s := by
    show (⟨hasFlag (tocMask s) kTocMetaData, hasFlag (tocMask s) kTocNewObjList, _⟩ : SegDesc) = _
    rw [hflagM, hflagN, items_hdrs, hdrsOf_canon s.objs hcanon]
    rfl
  have href := segObjects_refines hinv s hok.nodup hdiv
  rw [hL] at href
  obtain ⟨hsegobjs, hpostseg⟩ := href
  have hsegobjs' : segObjects (st.segments.getLast?.map (·.objects)) st.prevObjs (descOfSegRaw s) =
      .ok (a.map concObj) := hsegobjs
  -- the chunks
  have hcalc : calculateChunks { seg0 with objects := a.map concObj } = .ok (segRec pos s a) := by
    rw [C01Compose.calculateChunks_whole _ cb s.chunks.length hcs
      (by show pos + 28 + (segMeta s).length + (encRaw s a).length = _; rw [hraw]) hzero]
    have hnp : pos + (encodeSeg s a).length = pos + 28 + (segMeta s).length + (encRaw s a).length := by omega
    unfold segRec
    rw [hnp]
  have hprops : (if hasFlag seg0.toc kTocMetaData then foldProps [] (s.objs.map itemOf) else []) = propsDict s := by
    show (if hasFlag (tocMask s) kTocMetaData then _ else _) = _
    rw [hflagM]
    by_cases hm : s.hasMeta = true
    · simp only [hm, if_true]
      rw [foldProps_items s.objs [] hok.nodup (fun _ _ x hx => by cases hx)]
      rfl
    · have hm' : s.hasMeta = false := by simpa using hm
      simp only [hm', Bool.false_eq_true, if_false]
      exact (propsDict_nil (hok.noMeta hm')).symm
  have hreadseg : readSegmentObjects seg0 st.segments.getLast? st.prevObjs (file.drop (pos + 28)) =
      .ok (segRec pos s a, propsDict s) := by
    rw [hseg, hdesc, hsegobjs']
    simp only [bind, Except.bind]
    rw [hcalc, hprops]
    rfl
  -- object metadata
  have hfs := fileStep_post hinv hpostseg hpost.mono (segRec pos s a) (propsDict s)
  have htc := tyCons_of_inv hinv hobjs hnodup hpost.mono
  have hsim := uom_simD (segRec pos s a) rfl F last' a c N st.prevObjs hpost.idx hok.good htc hN0
  rw [← hobjs] at hsim
  cases hu : updateObjectMetadata (segRec pos s a) (a.map concObj) st.prevObjs st.objects with
  | error err =>
    rw [show (mstateOf st).prevObjs = st.prevObjs from rfl, show (mstateOf st).metas = st.objects from rfl,
      hu] at hfs
    rw [hu] at hsim
    simp only [] at hfs hsim
    rw [hfs] at hsim
    cases hsim
  | ok pm =>
    obtain ⟨prev', ms'⟩ := pm
    rw [show (mstateOf st).prevObjs = st.prevObjs from rfl, show (mstateOf st).metas = st.objects from rfl,
      hu] at hfs
    rw [hu] at hsim
    simp only [] at hfs hsim
    have hmetas : updateObjectProperties ms' (propsDict s) =
        (denoteSeg c s a).map (mOCD F fun p => N p + cntOf a p * s.chunks.length) := by
      rw [hsim]
      exact segment_metasD F _ s a c hpost.listed hok.noMeta
    refine ⟨prev', ?_, ?_, hpost.specInv⟩
    · unfold loopStep
      rw [hlead]
      simp only []
      rw [hreadseg]
      simp only []
      rw [show (segRec pos s a).objects = a.map concObj from rfl, hu]
      simp only [Bool.false_eq_true, if_false, hmetas]
      rfl
    · have : mstateOf (stateAfterD F st pos s a prev' (denoteSeg c s a) fun p => N p + cntOf a p * s.chunks.length) =
          ⟨some (a.map concObj), prev', updateObjectProperties ms' (propsDict s)⟩ := by
        rw [hmetas]
        simp [mstateOf, stateAfterD, segRec]
      rw [this]
      exact hfs

/-! ## all segments -/

/-- number of values the segments `ss` hold for path `p` -/
def countsOf : List SegEnc → List (List ActiveObj) → Bytes → Nat
  | s :: ss, a :: as, p => cntOf a p * s.chunks.length + countsOf ss as p
  | _, _, _ => 0

theorem cntOf_not_mem (a : List ActiveObj) (p : Bytes) (h : p ∉ a.map (·.path)) : cntOf a p = 0 := by
  induction a with
  | nil => rfl
  | cons x xs ih =>
    simp only [List.map_cons, List.mem_cons, not_or] at h
    rw [cntOf_cons, ih h.2]
    have : ¬ x.path = p := fun e => h.1 e.symm
    simp [this]

theorem denoteSeg_absent (c : Content) (s : SegEnc) (a : List ActiveObj) (p : Bytes)
    (h : (denoteSeg c s a).any (fun o => decide (o.path = p)) = false) :
    c.any (fun o => decide (o.path = p)) = false ∧ p ∉ a.map (·.path) := by
  have hpresA : ∀ x ∈ a, (declareObjs c a).any (fun o => decide (o.path = x.path)) = true :=
    fun x hx => declareObjs_present a c x.path (Or.inr (List.mem_map.2 ⟨x, hx, rfl⟩))
  have key : (c.any (fun o => decide (o.path = p)) = true ∨ p ∈ a.map (·.path)) →
      (denoteSeg c s a).any (fun o => decide (o.path = p)) = true := by
    intro hp
    have h1 := declareObjs_present a c p hp
    unfold denoteSeg
    simp only []
    split
    · rw [(sameView_chunks s a s.chunks _ (fun x hx => applyProps_present _ _ _ (hpresA x hx))).any_path]
      exact applyProps_present _ _ _ h1
    · rw [(sameView_chunks s a s.chunks _ hpresA).any_path]
      exact h1
  refine ⟨?_, ?_⟩
  · cases hc : c.any (fun o => decide (o.path = p)) with
    | false => rfl
    | true => rw [key (Or.inl hc)] at h; cases h
  · intro hm
    rw [key (Or.inr hm)] at h
    cases h

/-- **the metadata loop over the remaining segments**, from any reachable state -/
theorem loop_multiD (F : ScF) (file : Bytes) (hlen : file.length < 2 ^ 63) :
    ∀ (ss : List SegEnc) (as : List (List ActiveObj)) (pos fuel : Nat) (st : ReaderState)
      (seen : List Bytes) (prev : Option (List ActiveObj)) (last : LastIdx) (c : Content) (N : Bytes → Nat),
      activeLists prev last ss = .ok as → SegsOKD GoodDesc F ss as → CanonListed ss →
      file.drop pos = zipEncode encodeSeg ss as →
      FileInv seen prev last (mstateOf st) → SpecInv prev last →
      st.objects = c.map (mOCD F N) → (c.map (·.path)).Nodup →
      (∀ p, c.any (fun o => decide (o.path = p)) = false → N p = 0) → ss.length < fuel →
      ∃ st', readMetadataLoop file false (some file.length) fuel pos pos st = .ok st' ∧
        st'.segments = st.segments ++ segRecs pos ss as ∧
        st'.objects = (denoteSegs c ss as).map (mOCD F fun p => N p + countsOf ss as p) ∧
        st'.version = versionAfter st.version ss := by
  intro ss
  induction ss with
  | nil =>
    intro as pos fuel st seen prev last c N hacts _ _ hfile _ _ hobjs _ _ hfuel
    have has := activeLists_nil hacts
    subst has
    obtain ⟨f, rfl⟩ : ∃ f, fuel = f + 1 := ⟨fuel - 1, by simp at hfuel; omega⟩
    have hend : file.length < pos + 28 := by
      have : (file.drop pos).length = 0 := by rw [hfile]; rfl
      rw [List.length_drop] at this
      omega
    refine ⟨st, ?_, by simp [segRecs], by simpa [denoteSegs, countsOf] using hobjs, ?_⟩
    · rw [readMetadataLoop_succ, loopStep_past_end _ _ _ _ _ _ hend]
    · cases st.version <;> rfl
  | cons s ss ih =>
    intro as pos fuel st seen prev last c N hacts hok hcan hfile hinv hspec hobjs hnodup hN0 hfuel
    obtain ⟨a, last', as', hact, hrest, rfl⟩ := activeLists_cons hacts
    obtain ⟨hok1, hok2⟩ := hok
    obtain ⟨f, rfl⟩ : ∃ f, fuel = f + 1 := ⟨fuel - 1, by simp at hfuel; omega⟩
    have hfile' : file.drop pos = encodeSeg s a ++ zipEncode encodeSeg ss as' := hfile
    obtain ⟨prev', hstep, hinv', hspec'⟩ := loopStep_segmentD F file hlen pos s a _ hfile' st seen prev last last'
      c N hact hok1 (hcan s List.mem_cons_self) hinv hspec hobjs hnodup hN0
    obtain ⟨st', hloop, hsegs, hobjs', hver⟩ := ih as' (pos + (encodeSeg s a).length) f
      (stateAfterD F st pos s a prev' (denoteSeg c s a) fun p => N p + cntOf a p * s.chunks.length) _ _ _
      (denoteSeg c s a) (fun p => N p + cntOf a p * s.chunks.length) hrest hok2
      (fun s' hs' => hcan s' (List.mem_cons_of_mem _ hs'))
      (Tdms.Proofs.Bytes.drop_add_of_drop_eq hfile') hinv' hspec' rfl
      (denoteSeg_nodupD c s a hnodup)
      (by
        intro p hp
        obtain ⟨h1, h2⟩ := denoteSeg_absent c s a p hp
        simp only [hN0 p h1, cntOf_not_mem a p h2]; simp)
      (by simp at hfuel; omega)
    refine ⟨st', ?_, ?_, ?_, ?_⟩
    · rw [readMetadataLoop_succ, hstep]
      exact hloop
    · rw [hsegs]
      simp [stateAfterD, segRecs]
    · rw [hobjs']
      simp only [denoteSegs, countsOf, Nat.add_assoc]
    · rw [hver]
      simp only [stateAfterD, versionAfter, List.head?_cons, Option.map_some]
      cases st.version <;> rfl

theorem zipEncode_length_geD : ∀ (ss : List SegEnc) (as : List (List ActiveObj)), ss.length = as.length →
    ss.length ≤ (zipEncode encodeSeg ss as).length := by
  intro ss
  induction ss with
  | nil => intro as _; simp
  | cons s ss ih =>
    intro as h
    cases as with
    | nil => simp at h
    | cons a as =>
      have := ih as (by simpa using h)
      have := encodeSeg_length_ge s a
      simp only [zipEncode, List.length_cons, List.length_append]
      omega

theorem segsOKD_length {G : IdxDesc → Prop} {F : ScF} : ∀ (ss : List SegEnc) (as : List (List ActiveObj)),
    SegsOKD G F ss as → ss.length = as.length := by
  intro ss
  induction ss with
  | nil => intro as h; cases as <;> simp [SegsOKD] at h ⊢
  | cons s ss ih =>
    intro as h
    cases as with
    | nil => cases h
    | cons a as => simp [ih as h.2]

/-- **`readMetadata` on the encoding of a file of the class** -/
theorem readMetadata_multiD (F : ScF) (e : FileEnc) (acts : List (List ActiveObj))
    (hacts : activeLists none [] e = .ok acts) (hok : SegsOKD GoodDesc F e acts) (hcan : CanonListed e)
    (hlen : (zipEncode encodeSeg e acts).length < 2 ^ 63) :
    ∃ st, readMetadata (zipEncode encodeSeg e acts) = .ok st ∧
      st.segments = segRecs 0 e acts ∧
      st.objects = (denoteSegs [] e acts).map (mOCD F (countsOf e acts)) ∧
      st.version = e.head?.map fun s => (s.version : Int) := by
  obtain ⟨st, h1, h2, h3, h4⟩ := loop_multiD F (zipEncode encodeSeg e acts) hlen e acts 0
    ((zipEncode encodeSeg e acts).length + 1) {} [] none [] [] (fun _ => 0) hacts hok hcan rfl
    (by rw [mstateOf_init]; exact FileInv.init) SpecInv.init rfl (by simp) (fun _ _ => rfl)
    (by have := zipEncode_length_geD e acts (segsOKD_length e acts hok); omega)
  refine ⟨st, h1, by simpa using h2, ?_, h4⟩
  rw [h3]
  congr 1
  funext oc
  simp [mOCD]

end Tdms.Proofs.C01Layouts
