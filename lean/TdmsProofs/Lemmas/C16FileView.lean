/-
  C16 at file level, part 4: the name sets read back / handed over as lists (`channelsRead`, `groupsRead`,
  `channelsHanded`, `groupsHanded`) and their membership lemmas; the checked writer.  Core Lean only.
-/
import TdmsProofs.Lemmas.C16FileSets

namespace Tdms.Proofs.C16File

open Tdms Tdms.Generated Tdms.Model Tdms.Model.Writer Tdms.Model.Path
open Tdms.Proofs.C08 Tdms.Proofs.C07Whole Tdms.Proofs.C07Checked
open Tdms.Proofs.C01Compose (content contentOfDenote ObjView)

/-! ## what is read back, as names -/

/-- the (group, channel) name pairs of the channel objects among the objects read: every path parsed with
    `_path_components`, two components = a channel -/
def channelsRead (vs : List ObjView) : List (Bytes × Bytes) :=
  vs.filterMap fun o => match pathComponentsBytes o.path with
    | .ok [g, c] => some (g, c)
    | _ => none

/-- the names of the group objects among the objects read -/
def groupsRead (vs : List ObjView) : List Bytes :=
  vs.filterMap fun o => match pathComponentsBytes o.path with
    | .ok [g] => some g
    | _ => none

/-- the (group, channel) name pairs of the channel objects handed to `write_segment` -/
def channelsHanded (prog : Program) : List (Bytes × Bytes) :=
  (handed prog).filterMap fun o => match o with
    | .channel g c _ _ => some (g, c)
    | _ => none

/-- the group names handed to `write_segment`: of group objects, and of channel objects -/
def groupsHanded (prog : Program) : List Bytes :=
  (handed prog).filterMap fun o => match o with
    | .group g _ => some g
    | .channel g _ _ _ => some g
    | _ => none

theorem mem_channelsHanded (prog : Program) (g c : Bytes) :
    (g, c) ∈ channelsHanded prog ↔ ∃ dat p, WObj.channel g c dat p ∈ handed prog := by
  unfold channelsHanded
  rw [List.mem_filterMap]
  constructor
  · rintro ⟨o, ho, h⟩
    cases o with
    | root p => cases h
    | group g' p => cases h
    | channel g' c' dat p => cases h; exact ⟨dat, p, ho⟩
  · rintro ⟨dat, p, h⟩
    exact ⟨_, h, rfl⟩

theorem mem_groupsHanded (prog : Program) (g : Bytes) :
    g ∈ groupsHanded prog ↔ (∃ p, WObj.group g p ∈ handed prog) ∨ ∃ c dat p, WObj.channel g c dat p ∈ handed prog := by
  unfold groupsHanded
  rw [List.mem_filterMap]
  constructor
  · rintro ⟨o, ho, h⟩
    cases o with
    | root p => cases h
    | group g' p => cases h; exact .inl ⟨p, ho⟩
    | channel g' c' dat p => cases h; exact .inr ⟨c', dat, p, ho⟩
  · rintro (⟨p, h⟩ | ⟨c, dat, p, h⟩)
    · exact ⟨_, h, rfl⟩
    · exact ⟨_, h, rfl⟩

theorem path_viewOfNames (ws : List WObj) (cs : List Bytes) : (viewOfNames ws cs).path = componentsToPathBytes cs := rfl

theorem parse_viewOfNames (ws : List WObj) (cs : List Bytes) :
    pathComponentsBytes (viewOfNames ws cs).path = .ok cs :=
  C16.path_roundtrip qs_ne cs

theorem mem_channelsRead_names (ws : List WObj) (names : List (List Bytes)) (g c : Bytes) :
    (g, c) ∈ channelsRead (names.map (viewOfNames ws)) ↔ [g, c] ∈ names := by
  unfold channelsRead
  rw [List.mem_filterMap]
  constructor
  · rintro ⟨o, ho, h⟩
    obtain ⟨cs, hcs, rfl⟩ := List.mem_map.1 ho
    rw [parse_viewOfNames] at h
    match cs, h with
    | [g', c'], h => cases h; exact hcs
  · intro h
    exact ⟨viewOfNames ws [g, c], List.mem_map_of_mem h, by rw [parse_viewOfNames]⟩

theorem mem_groupsRead_names (ws : List WObj) (names : List (List Bytes)) (g : Bytes) :
    g ∈ groupsRead (names.map (viewOfNames ws)) ↔ [g] ∈ names := by
  unfold groupsRead
  rw [List.mem_filterMap]
  constructor
  · rintro ⟨o, ho, h⟩
    obtain ⟨cs, hcs, rfl⟩ := List.mem_map.1 ho
    rw [parse_viewOfNames] at h
    match cs, h with
    | [g'], h => cases h; exact hcs
  · intro h
    exact ⟨viewOfNames ws [g], List.mem_map_of_mem h, by rw [parse_viewOfNames]⟩

/-! ## the checked writer (`TdmsWriter` with its per-session type table) -/

/-- what the checked writer accepts the plain writer accepts, and with no type change ACROSS sessions
    (`CrossConsistent`) the program is `typesConsistent` -/
theorem hyps_of_checked {v : Nat} {prog : Program} {d i : Bytes}
    (hw : writeProgramChecked v prog = some (d, i)) (hW : WritableProgram prog) (hx : CrossConsistent prog) :
    writeProgram v prog = some (d, i) ∧ typesConsistent prog := by
  obtain ⟨hw', hsess⟩ := (writeProgramChecked_some_iff v prog (d, i)).1 hw
  exact ⟨hw', (typesConsistent_iff prog (accepted_of_writable hW)).2 ⟨hsess, hx⟩⟩

end Tdms.Proofs.C16File
