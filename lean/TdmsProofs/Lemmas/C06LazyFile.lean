/-
  C06 (lazy = eager on cut files): the reader state of the file cut after `K` bytes, any `K`, for the class
  `MultiStd s₀ rest` of `C06Whole.lean` with fixed-width channels: every segment record satisfies `SegShape`
  and `SizedOk`, every object carries the data type of the object of the first segment with its path.
  Core Lean only.
-/
import TdmsProofs.Lemmas.C06LazySeg

namespace Tdms.Proofs.C06Lazy

open Tdms Tdms.Generated Tdms.Model Tdms.Proofs.Bytes Tdms.Proofs.C01Compose Tdms.Proofs.C06Whole
open Tdms.Proofs.C03 (SegShape SizedOk)

/-- segments with the same signature agree on whether a string channel is present -/
theorem hasStr_sig (s₀ x : SegEnc) (h : x.objs.map sigOf = s₀.objs.map sigOf) : hasStr x = hasStr s₀ := by
  have e : ∀ s : SegEnc, hasStr s = ((dataOs s.objs).map sigOf).any fun y => y.2 == some tyString := by
    intro s
    unfold hasStr
    rw [List.any_map]
    rfl
  rw [e, e, dataOs_sig _ _ h]

/-- a single segment of the class of `C06Whole.lean` is a file of the multi-segment class -/
theorem multiStd_single (s : SegEnc) (h : CutStd s) (fit : SegFits s) (hch : onlyChannelsHaveData s) :
    MultiStd s [] :=
  ⟨h, fit, hch, fun _ hx => (by cases hx), fun _ hx => (by simp at hx)⟩

theorem encAll_single (s : SegEnc) : encAll [s] = encodeSeg s (s.objs.map actOf) := by
  simp [encAll]

/-- what the lazy = eager composition needs of the reader state of a cut file -/
structure CutStateOK (s₀ : SegEnc) (r' : EagerResult) : Prop where
  shape : ∀ seg ∈ r'.state.segments, SegShape seg
  sized : ∀ seg ∈ r'.state.segments, SizedOk seg
  types : ∀ m ∈ r'.state.objects, ∃ o ∈ s₀.objs, m.path = o.path ∧ m.dataType = tyOf o

/-- **the reader state of the file cut after `K` bytes** -/
theorem readFile_at_state (s₀ : SegEnc) (rest : List SegEnc) (H : MultiStd s₀ rest) (hns : hasStr s₀ = false)
    (hlen : (encAll (s₀ :: rest)).length < 2 ^ 63) (K : Nat) (hK : K ≤ (encAll (s₀ :: rest)).length) :
    ∃ r', readFile ((encAll (s₀ :: rest)).take K) = .ok r' ∧ CutStateOK s₀ r' := by
  have heach := multiStd_each s₀ rest H
  have hnsx : ∀ x ∈ s₀ :: rest, hasStr x = false := fun x hx => by
    rw [hasStr_sig s₀ x (heach x hx).2]; exact hns
  obtain ⟨mid', s, post, k, hsplit, hKk, hk⟩ := cut_decompose (s₀ :: rest) K (by simp) hK
  cases mid' with
  | nil =>
    simp only [List.nil_append, List.cons.injEq] at hsplit
    obtain ⟨rfl, rfl⟩ := hsplit
    simp only [encAll, List.flatMap_nil, List.length_nil, Nat.zero_add] at hKk
    subst hKk
    have htake : (encAll (s₀ :: rest)).take K = (encodeSeg s₀ (s₀.objs.map actOf)).take K := by
      rw [encAll_cons, List.take_append_of_le_length hk]
    have hlen₀ : (encodeSeg s₀ (s₀.objs.map actOf)).length < 2 ^ 63 :=
      Nat.lt_of_le_of_lt (encLen_le_encAll _ s₀ (by simp)) hlen
    rw [htake]
    by_cases hd : K < dataPosOf s₀
    · have hsegs : (droppedState s₀ K).segments = [] := by unfold droppedState; split <;> rfl
      have hobjs : (droppedState s₀ K).objects = [] := by unfold droppedState; split <;> rfl
      refine ⟨_, readFile_dropped s₀ H.first hlen₀ K hd, ?_, ?_, ?_⟩
      · intro seg hseg; simp only [hsegs] at hseg; cases hseg
      · intro seg hseg; simp only [hsegs] at hseg; cases hseg
      · intro m hm; simp only [hobjs] at hm; cases hm
    · have hd' : dataPosOf s₀ ≤ K := by omega
      obtain ⟨prev, hcut⟩ := readFile_cut s₀ H.first H.firstFits H.channels hlen₀ K hd' hk
      refine ⟨_, hcut, ?_, ?_, ?_⟩
      · intro seg hseg
        have : seg = cutSeg s₀ (encLen s₀) K := by simpa [cutState, encLen] using hseg
        subst this
        exact segShape_cutSeg s₀ H.first K hk
      · intro seg hseg
        have : seg = cutSeg s₀ (encLen s₀) K := by simpa [cutState, encLen] using hseg
        subst this
        exact sizedOk_cutSeg s₀ H.first hns _ K
      · intro m hm
        obtain ⟨o, ho, rfl⟩ := List.mem_map.mp (show m ∈ s₀.objs.map (metaN (cutNum s₀ K)) from hm)
        exact ⟨o, ho, rfl, rfl⟩
  | cons a mid =>
    simp only [List.cons_append, List.cons.injEq] at hsplit
    obtain ⟨rfl, rfl⟩ := hsplit
    have HOK := multiOK_of_multiStd s₀ mid s post H hlen
    obtain ⟨prev, hread⟩ := readFile_multi s₀ mid s HOK H.channels k hk
    have htake : (encAll (s₀ :: (mid ++ s :: post))).take K =
        encAll (s₀ :: mid) ++ (encodeSeg s (s.objs.map actOf)).take k := by
      rw [hKk]
      exact take_encAll (s₀ :: mid) s post k hk
    rw [htake]
    have hsmem : s ∈ s₀ :: (mid ++ s :: post) := by simp
    have hmidmem : ∀ x ∈ s₀ :: mid, x ∈ s₀ :: (mid ++ s :: post) := by
      intro x hx
      simp only [List.mem_cons, List.mem_append] at hx ⊢
      rcases hx with h | h
      · exact .inl h
      · exact .inr (.inl h)
    have hsegs : ∀ seg ∈ (multiState s₀ mid s k prev).segments,
        ∃ x ∈ s₀ :: (mid ++ s :: post), ∃ Q j, j ≤ encLen x ∧ seg = cutSegAt x Q j := by
      intro seg hseg
      rw [multiState_segments] at hseg
      rcases List.mem_append.mp hseg with h | h
      · obtain ⟨x, hx, Q, hQ⟩ := mem_runSegs _ _ _ h
        exact ⟨x, hmidmem x hx, Q, encLen x, Nat.le_refl _, hQ⟩
      · split at h
        · simp only [List.mem_singleton] at h
          exact ⟨s, hsmem, _, k, hk, h⟩
        · cases h
    refine ⟨_, hread, ?_, ?_, ?_⟩
    · intro seg hseg
      obtain ⟨x, hx, Q, j, hj, rfl⟩ := hsegs seg hseg
      exact segShape_cutSegAt x (heach x hx).1 Q j hj
    · intro seg hseg
      obtain ⟨x, hx, Q, j, _, rfl⟩ := hsegs seg hseg
      exact sizedOk_cutSegAt x (heach x hx).1 (hnsx x hx) Q j
    · intro m hm
      have hm' : m ∈ (multiState s₀ mid s k prev).objects := hm
      rw [multiState_objects] at hm'
      obtain ⟨o, ho, rfl⟩ := List.mem_map.mp hm'
      exact ⟨o, ho, rfl, rfl⟩

end Tdms.Proofs.C06Lazy
