/-
  C03 — what `readMetadata` guarantees about ANY file it accepts: every segment of the reader
  state starts with the `TDSm` tag, ends inside the file and is an output of `calculateChunks`.
  Core Lean only.
-/
import TdmsProofs.Lemmas.C03Main
import TdmsProofs.Lemmas.LeadInLoopLemmas

namespace Tdms.Proofs.C03

open Tdms Tdms.Generated Tdms.Model Tdms.Proofs.Bytes Tdms.Proofs.C04 Tdms.Proofs.LeadIn

theorem readLeadIn_next_le (bytes : Bytes) (p : Nat) (size : Nat) (li : LeadIn)
    (h : readLeadIn bytes p false (some size) = .ok (some li)) : li.nextSegmentPos ≤ size := by
  obtain ⟨hlen, htag, _⟩ := readLeadIn_some_inv bytes p false (some size) li h
  rw [readLeadIn_eq bytes p false (some size) hlen htag] at h
  simp only at h
  split at h
  · split at h
    · cases h
    · cases h; exact Nat.le_refl _
  · split at h
    · split at h
      · cases h
      · cases h; exact Nat.le_refl _
    · cases h; dsimp only; omega

/-- the segment is an output of `calculateChunks` -/
def CalcOut (s : Segment) : Prop := ∃ s0, s0.override = none ∧ calculateChunks s0 = .ok s

theorem readSegmentObjects_calc (seg : Segment) (prevSeg : Option Segment) (prevObjs : PrevObjs) (bytes : Bytes)
    (seg' : Segment) (props : List (Bytes × List PropVal)) (hov : seg.override = none)
    (h : readSegmentObjects seg prevSeg prevObjs bytes = .ok (seg', props)) : CalcOut seg' := by
  unfold readSegmentObjects at h
  by_cases hm : hasFlag seg.toc kTocMetaData
  · simp only [hm, Bool.not_true, Bool.false_eq_true, if_false, bind, Except.bind] at h
    split at h
    · cases h
    · rename_i v hv
      obtain ⟨⟨objs, props'⟩, rest⟩ := v
      simp only at h
      split at h
      · cases h
      · rename_i s hs
        simp only [pure, Except.pure, Except.ok.injEq, Prod.mk.injEq] at h
        obtain ⟨h1, _⟩ := h
        subst h1
        exact ⟨{ seg with objects := objs }, hov, hs⟩
  · simp only [hm, Bool.not_false, if_true] at h
    cases prevSeg with
    | none => simp [throw, throwThe, MonadExceptOf.throw] at h
    | some p =>
      simp only [bind, Except.bind] at h
      split at h
      · cases h
      · rename_i s hs
        simp only [pure, Except.pure, Except.ok.injEq, Prod.mk.injEq] at h
        obtain ⟨h1, _⟩ := h
        subst h1
        exact ⟨{ seg with objects := p.objects }, hov, hs⟩

/-- everything one continuing iteration of the metadata loop does (data file) -/
theorem loopStep_next_full (file : Bytes) (size : Nat) (fp sp fp' sp' : Nat) (st st' : ReaderState)
    (h : loopStep file false (some size) fp sp st = .ok (.next fp' sp' st')) :
    ∃ li seg props prev' objs', readLeadIn (file.drop fp) sp false (some size) = .ok (some li) ∧
      CalcOut seg ∧ seg.position = sp ∧ seg.nextSegmentPos = li.nextSegmentPos ∧
      updateObjectMetadata seg seg.objects st.prevObjs st.objects = .ok (prev', objs') ∧
      st'.segments = st.segments ++ [seg] ∧ st'.objects = updateObjectProperties objs' props ∧
      fp' = seg.nextSegmentPos ∧ sp' = seg.nextSegmentPos := by
  unfold loopStep at h
  cases h1 : readLeadIn (file.drop fp) sp false (some size) with
  | error e => simp [h1] at h
  | ok r =>
    cases r with
    | none =>
      simp only [h1] at h
      cases hv : leadInVersion (file.drop fp) <;> simp only [hv] at h <;> cases h
    | some li =>
      simp only [h1] at h
      cases h2 : readSegmentObjects ⟨sp, li.toc, li.nextSegmentPos, li.dataPosition, li.incomplete, [], 0, none⟩
        st.segments.getLast? st.prevObjs (file.drop (fp + 28)) with
      | error e => simp [h2] at h
      | ok v =>
        obtain ⟨seg, props⟩ := v
        simp only [h2] at h
        cases h3 : updateObjectMetadata seg seg.objects st.prevObjs st.objects with
        | error e => simp [h3] at h
        | ok w =>
          obtain ⟨prev', objs'⟩ := w
          simp only [h3] at h
          obtain ⟨a, _, c, _, _⟩ := readSegmentObjects_frame _ _ _ _ _ _ h2
          simp only at a c
          injection h with h
          injection h with hfp hsp hst
          refine ⟨li, seg, props, prev', objs', rfl, readSegmentObjects_calc _ _ _ _ _ _ rfl h2, a, c, h3, ?_, ?_, ?_, ?_⟩
          · rw [← hst]
          · rw [← hst]
          · rw [← hfp]; simp
          · rw [← hsp]

/-- what the file guarantees about a segment of the reader state -/
structure SegInFile (file : Bytes) (s : Segment) : Prop where
  tag : (file.drop s.position).take 4 = tagData
  inFile : s.nextSegmentPos ≤ file.length
  calcOut : CalcOut s

/-- induction over the metadata loop of a data file -/
theorem readMetadataLoop_induct (file : Bytes) (size : Nat) (P : ReaderState → Prop)
    (hnext : ∀ fp st fp' sp' st', P st → loopStep file false (some size) fp fp st = .ok (.next fp' sp' st') → P st')
    (hdone : ∀ fp st st', P st → loopStep file false (some size) fp fp st = .ok (.done st') → P st') :
    ∀ (fuel fp : Nat) (st st' : ReaderState), P st →
      readMetadataLoop file false (some size) fuel fp fp st = .ok st' → P st' := by
  intro fuel
  induction fuel with
  | zero =>
    intro fp st st' hp h
    simp only [readMetadataLoop, Except.ok.injEq] at h
    subst h; exact hp
  | succ fuel ih =>
    intro fp st st' hp h
    rw [readMetadataLoop_succ] at h
    cases hstep : loopStep file false (some size) fp fp st with
    | error e => rw [hstep] at h; cases h
    | ok r =>
      rw [hstep] at h
      cases r with
      | done st1 =>
        simp only [Except.ok.injEq] at h
        subst h
        exact hdone fp st _ hp hstep
      | next fp1 sp1 st1 =>
        simp only at h
        obtain ⟨_, _, h3⟩ := loopStep_progress _ _ _ _ _ _ _ _ _ hstep
        have := h3 rfl
        subst this
        exact ih fp1 st1 st' (hnext fp st fp1 fp1 st1 hp hstep) h

theorem loopStep_done_segments (file : Bytes) (dfs : Option Nat) (fp sp : Nat) (st st' : ReaderState)
    (h : loopStep file false dfs fp sp st = .ok (.done st')) :
    st'.segments = st.segments ∧ st'.objects = st.objects := by
  unfold loopStep at h
  cases h1 : readLeadIn (file.drop fp) sp false dfs with
  | error e => simp [h1] at h
  | ok r =>
    cases r with
    | none =>
      simp only [h1] at h
      cases hv : leadInVersion (file.drop fp) <;> simp only [hv] at h <;>
        (injection h with h; injection h with h; subst h; exact ⟨rfl, rfl⟩)
    | some li =>
      simp only [h1] at h
      split at h
      · cases h
      · split at h <;> cases h

/-- **every segment `readMetadata` records lies in the file, starts with the tag, and is an
    output of `calculateChunks`** -/
theorem readMetadata_segments_inFile (file : Bytes) (st : ReaderState) (h : readMetadata file = .ok st) :
    ∀ s ∈ st.segments, SegInFile file s := by
  unfold readMetadata at h
  refine readMetadataLoop_induct file file.length (fun st => ∀ s ∈ st.segments, SegInFile file s) ?_ ?_
    (file.length + 1) 0 {} st (by intro s hs; cases hs) h
  · intro fp st0 fp' sp' st1 hp hstep
    obtain ⟨li, seg, props, prev', objs', hli, hcalc, hpos, hnxt, _, hsegs, _, _, _⟩ :=
      loopStep_next_full file file.length fp fp fp' sp' st0 st1 hstep
    intro s hs
    rw [hsegs] at hs
    rcases List.mem_append.mp hs with hs | hs
    · exact hp s hs
    · simp only [List.mem_singleton] at hs
      subst hs
      obtain ⟨_, htag, _⟩ := readLeadIn_some_inv _ _ _ _ _ hli
      refine ⟨?_, ?_, hcalc⟩
      · rw [hpos]; simpa using htag
      · rw [hnxt]; exact readLeadIn_next_le _ _ _ _ hli
  · intro fp st0 st1 hp hstep
    rw [(loopStep_done_segments _ _ _ _ _ _ hstep).1]
    exact hp

/-! ## `num_values` is the sum over the segments -/

/-- `object_metadata[p].num_values` (0 when the object is unknown) -/
def nvGet (ms : ObjMetas) (p : Bytes) : Nat := ((ms.get p).map (·.numValues)).getD 0

theorem find?_map_meta (ms : ObjMetas) (g : ObjMeta → ObjMeta) (hg : ∀ m, (g m).path = m.path) (p : Bytes) :
    (ms.map g).find? (·.path = p) = (ms.find? (·.path = p)).map g := by
  induction ms with
  | nil => rfl
  | cons m ms ih =>
    simp only [List.map_cons, List.find?_cons, hg]
    split
    · rfl
    · exact ih

theorem nvGet_modify (ms : ObjMetas) (q p : Bytes) (f : ObjMeta → ObjMeta) (k : Nat)
    (hpath : ∀ m, (f m).path = m.path) (hnv : ∀ m, (f m).numValues = m.numValues + k) :
    nvGet (ms.modify q f) p = nvGet ms p + (if q = p then k else 0) := by
  unfold nvGet ObjMetas.modify ObjMetas.get
  by_cases hany : ms.any (·.path = q) = true
  · rw [if_pos hany, find?_map_meta _ _ (by intro m; split <;> simp [hpath])]
    by_cases hq : q = p
    · subst hq
      simp only [List.any_eq_true, decide_eq_true_eq] at hany
      obtain ⟨y, hy, hyq⟩ := hany
      cases hf : ms.find? (·.path = q) with
      | none =>
        rw [List.find?_eq_none] at hf
        exact absurd (by simpa using hyq) (hf y hy)
      | some m =>
        have hm : m.path = q := by simpa using List.find?_some hf
        simp [hm, hnv]
    · rw [if_neg hq, Nat.add_zero]
      cases hf : ms.find? (·.path = p) with
      | none => rfl
      | some m =>
        have hm : m.path = p := by simpa using List.find?_some hf
        have : ¬ m.path = q := by rw [hm]; exact fun e => hq e.symm
        simp [this]
  · rw [if_neg hany]
    have hnone : ∀ y ∈ ms, ¬ y.path = q := by
      intro y hy
      simp only [List.any_eq_true, decide_eq_true_eq, not_exists, not_and] at hany
      exact hany y hy
    rw [List.find?_append]
    by_cases hq : q = p
    · subst hq
      have : ms.find? (·.path = q) = none := by
        rw [List.find?_eq_none]; intro y hy; simpa using hnone y hy
      simp [this, hpath, hnv]
    · cases hf : ms.find? (·.path = p) with
      | some y => simp [hq]
      | none => simp [hq, hpath]

theorem nvGet_modify_add (ms : ObjMetas) (q p : Bytes) (k : Nat) (dt : Option Nat)
    (sc : ObjMeta → Option (List (Nat × Nat))) :
    nvGet (ms.modify q fun m => { m with numValues := m.numValues + k, dataType := dt, scalerTypes := sc m }) p
      = nvGet ms p + (if q = p then k else 0) :=
  nvGet_modify ms q p _ k (fun _ => rfl) (fun _ => rfl)

theorem nvGet_modify_props (ms : ObjMetas) (q p : Bytes) (g : ObjMeta → List PropVal) :
    nvGet (ms.modify q fun m => { m with props := g m }) p = nvGet ms p := by
  have := nvGet_modify ms q p (fun m => { m with props := g m }) 0 (fun _ => rfl) (fun _ => rfl)
  simpa using this

theorem updateObjectMetadata_nv (s : Segment) : ∀ (os : List SegObj) (prev : PrevObjs) (ms : ObjMetas)
    (prev' : PrevObjs) (ms' : ObjMetas), updateObjectMetadata s os prev ms = .ok (prev', ms') →
    ∀ p, nvGet ms' p = nvGet ms p + ((os.filter (·.path = p)).map fun o => numberOfSegmentValues o s).sum := by
  intro os
  induction os with
  | nil =>
    intro prev ms prev' ms' h p
    simp only [updateObjectMetadata, Except.ok.injEq, Prod.mk.injEq] at h
    rw [← h.2]; simp
  | cons o os ih =>
    intro prev ms prev' ms' h p
    unfold updateObjectMetadata at h
    simp only [] at h
    split at h
    · cases h
    · split at h
      · cases h
      · rw [ih _ _ _ _ h p, nvGet_modify_add]
        by_cases hp : o.path = p
        · rw [List.filter_cons_of_pos (by simpa using hp)]; simp [hp]; omega
        · rw [List.filter_cons_of_neg (by simpa using hp)]; simp [hp]

theorem updateObjectProperties_nv : ∀ (props : List (Bytes × List PropVal)) (ms : ObjMetas) (p : Bytes),
    nvGet (updateObjectProperties ms props) p = nvGet ms p := by
  intro props
  induction props with
  | nil => intro ms p; rfl
  | cons x props ih =>
    intro ms p
    obtain ⟨q, ps⟩ := x
    unfold updateObjectProperties
    rw [ih, nvGet_modify_props]

theorem sum_filter_nodup (l : List SegObj) (p : Bytes) (g : SegObj → Nat) (hnd : (l.map (·.path)).Nodup) :
    ((l.filter (·.path = p)).map g).sum = match l.find? (·.path = p) with
      | some o => g o
      | none => 0 := by
  induction l with
  | nil => rfl
  | cons o l ih =>
    simp only [List.map_cons, List.nodup_cons] at hnd
    by_cases hp : o.path = p
    · rw [List.filter_cons_of_pos (by simpa using hp), List.find?_cons_of_pos (by simpa using hp)]
      have : l.filter (·.path = p) = [] := by
        rw [List.filter_eq_nil_iff]
        intro x hx hxp
        apply hnd.1
        rw [hp]
        have : x.path = p := by simpa using hxp
        rw [← this]
        exact List.mem_map_of_mem hx
      simp [this]
    · rw [List.filter_cons_of_neg (by simpa using hp), List.find?_cons_of_neg (by simpa using hp)]
      exact ih hnd.2

theorem getSegmentObject_eq_find (s : Segment) (p : Bytes) (hnd : (s.objects.map (·.path)).Nodup) :
    getSegmentObject s p = s.objects.find? (·.path = p) := by
  cases hf : s.objects.find? (·.path = p) with
  | none =>
    unfold getSegmentObject
    cases hex : existingIndex s.objects p with
    | none => rfl
    | some i =>
      exfalso
      have := (Tdms.Proofs.C02.existingIndex_unique hnd).mp hex
      cases ho : s.objects[i]? with
      | none => rw [ho] at this; cases this
      | some o =>
        rw [ho] at this
        rw [List.find?_eq_none] at hf
        have hmem := List.mem_of_getElem? ho
        exact hf o hmem (by simpa using this)
  | some o =>
    have hm := List.mem_of_find?_eq_some hf
    have hp : o.path = p := by simpa using List.find?_some hf
    obtain ⟨i, hi, hio⟩ := List.getElem_of_mem hm
    have hex : existingIndex s.objects p = some i :=
      (Tdms.Proofs.C02.existingIndex_unique hnd).mpr (by rw [List.getElem?_eq_getElem hi, hio]; simp [hp])
    unfold getSegmentObject
    rw [hex]
    simp [List.getElem?_eq_getElem hi, hio]

theorem total_append (L : List SegL) (l : SegL) : total (L ++ [l]) = total L + l.nvals := by
  simp [total]

/-- **`num_values` of every object is the sum of its per-segment counts**, provided the object paths
    of every segment are pairwise distinct and the layouts are well formed -/
theorem readMetadata_numValues (file : Bytes) (st : ReaderState) (h : readMetadata file = .ok st)
    (hnd : ∀ s ∈ st.segments, (s.objects.map (·.path)).Nodup)
    (hwf : ∀ s ∈ st.segments, ∀ p, (layoutOf p s).WF) :
    ∀ p, nvGet st.objects p = total (st.segments.map (layoutOf p)) := by
  unfold readMetadata at h
  have := readMetadataLoop_induct file file.length
    (fun st => (∀ s ∈ st.segments, (s.objects.map (·.path)).Nodup) → (∀ s ∈ st.segments, ∀ p, (layoutOf p s).WF) →
      ∀ p, nvGet st.objects p = total (st.segments.map (layoutOf p))) ?_ ?_
    (file.length + 1) 0 {} st (by intro _ _ p; rfl) h
  · exact this hnd hwf
  · intro fp st0 fp' sp' st1 hp hstep hnd1 hwf1 p
    obtain ⟨li, seg, props, prev', objs', _, _, _, _, hupd, hsegs, hobjs, _, _⟩ :=
      loopStep_next_full file file.length fp fp fp' sp' st0 st1 hstep
    rw [hsegs] at hnd1 hwf1
    have ih := hp (fun s hs => hnd1 s (List.mem_append_left _ hs)) (fun s hs => hwf1 s (List.mem_append_left _ hs)) p
    have hndseg := hnd1 seg (by simp)
    rw [hobjs, updateObjectProperties_nv, updateObjectMetadata_nv seg _ _ _ _ _ hupd p, ih, hsegs,
      List.map_append, List.map_cons, List.map_nil, total_append, sum_filter_nodup _ p _ hndseg,
      ← getSegmentObject_eq_find seg p hndseg]
    have hl := nvals_layoutOf seg p (hwf1 seg (by simp) p)
    cases hg : getSegmentObject seg p with
    | none => rw [hg] at hl; simp only [] at hl ⊢; omega
    | some o => rw [hg] at hl; simp only [] at hl ⊢; omega
  · intro fp st0 st1 hp hstep hnd1 hwf1 p
    obtain ⟨h1, h2⟩ := loopStep_done_segments _ _ _ _ _ _ hstep
    rw [h1] at hnd1 hwf1
    rw [h1, h2]
    exact hp hnd1 hwf1 p

/-! ## what `calculateChunks` guarantees -/

theorem computeFinalChunkLengths_congr (a b : Segment) (c r : Nat) (ho : a.objects = b.objects) (ht : a.toc = b.toc)
    (hi : a.incomplete = b.incomplete) : computeFinalChunkLengths a c r = computeFinalChunkLengths b c r := by
  unfold computeFinalChunkLengths
  rw [ho, ht, hi]

/-- the two ways `calculateChunks` succeeds: whole chunks only, or a truncated final chunk -/
theorem calcOut_cases (s : Segment) (h : CalcOut s) :
    ∃ c, chunkSize s.objects = .ok c ∧ s.dataPosition ≤ s.nextSegmentPos ∧
      ((s.override = none ∧ s.numChunks * c = s.nextSegmentPos - s.dataPosition) ∨
       (∃ ov, s.override = some ov ∧ 0 < c ∧ (s.nextSegmentPos - s.dataPosition) % c ≠ 0 ∧
          s.numChunks = 1 + (s.nextSegmentPos - s.dataPosition) / c ∧
          computeFinalChunkLengths s c ((s.nextSegmentPos - s.dataPosition) % c) = .ok ov)) := by
  obtain ⟨s0, hov0, h⟩ := h
  obtain ⟨_, htoc, hnx, hdp, hinc, hobj⟩ := calculateChunks_frame _ _ h
  unfold calculateChunks at h
  cases hc : chunkSize s0.objects with
  | error e => simp [hc, bind, Except.bind] at h
  | ok c =>
    simp only [hc, bind, Except.bind] at h
    refine ⟨c, by rw [hobj]; exact hc, ?_⟩
    by_cases h1 : s0.nextSegmentPos < s0.dataPosition
    · simp [h1, throw, throwThe, MonadExceptOf.throw] at h
    · simp only [h1, if_false, pure, Except.pure] at h
      refine ⟨by omega, ?_⟩
      rw [hnx, hdp]
      by_cases h2 : c = 0
      · simp only [h2, if_true] at h
        by_cases h3 : s0.nextSegmentPos - s0.dataPosition ≠ 0
        · simp [h3, throw, throwThe, MonadExceptOf.throw] at h
        · simp only [h3, if_false, Except.ok.injEq] at h
          subst h
          left
          exact ⟨hov0, by simp only []; omega⟩
      · simp only [h2, if_false] at h
        by_cases h3 : (s0.nextSegmentPos - s0.dataPosition) % c = 0
        · simp only [h3, if_true, Except.ok.injEq] at h
          subst h
          left
          refine ⟨hov0, ?_⟩
          simp only []
          have := Nat.div_add_mod (s0.nextSegmentPos - s0.dataPosition) c
          rw [h3, Nat.add_zero, Nat.mul_comm] at this
          exact this
        · simp only [h3, if_false] at h
          cases hov : computeFinalChunkLengths s0 c ((s0.nextSegmentPos - s0.dataPosition) % c) with
          | error e => simp [hov] at h
          | ok ov =>
            simp only [hov, Except.ok.injEq] at h
            right
            refine ⟨ov, by rw [← h], by omega, h3, by rw [← h], ?_⟩
            rw [← hov]
            exact computeFinalChunkLengths_congr _ _ _ _ hobj htoc hinc

/-- the keys of the final chunk lengths are paths of data objects -/
theorem finalLengths_keys (s : Segment) (c r : Nat) (ov : List (Bytes × Nat))
    (hd : haveDaqmxObjects s.objects = .ok false) (hov : computeFinalChunkLengths s c r = .ok ov) :
    ∀ q ∈ ov.map (·.1), q ∈ (dataObjs s).map (·.path) := by
  rcases Tdms.Proofs.C06.computeFinalChunkLengths_cases s c r hd with h | h | h
  · rw [h] at hov; cases hov
  · rw [h] at hov; cases hov; intro q hq; cases hq
  · rw [Tdms.Proofs.C06.computeFinalChunkLengths_std s c r hd h] at hov
    cases hov
    intro q hq
    split at hq
    · simpa [dataObjs, List.map_map] using hq
    · rw [Tdms.Proofs.C06.cfl_eq, Tdms.Proofs.C06.cfl_paths] at hq
      obtain ⟨o, ho, rfl⟩ := List.mem_map.mp hq
      exact List.mem_map_of_mem (List.mem_of_mem_take ho)

theorem nodup_path_unique (l : List SegObj) (hnd : (l.map (·.path)).Nodup) {a b : SegObj} (ha : a ∈ l) (hb : b ∈ l)
    (h : a.path = b.path) : a = b := by
  induction l with
  | nil => cases ha
  | cons x xs ih =>
    simp only [List.map_cons, List.nodup_cons] at hnd
    rcases List.mem_cons.mp ha with rfl | ha' <;> rcases List.mem_cons.mp hb with rfl | hb'
    · rfl
    · exact absurd (by rw [h]; exact List.mem_map_of_mem hb') hnd.1
    · exact absurd (by rw [← h]; exact List.mem_map_of_mem ha') hnd.1
    · exact ih hnd.2 ha' hb'

/-- **the layout of every channel in a segment `calculateChunks` produced is well formed**
    (non-DAQmx segments with pairwise distinct object paths) -/
theorem layout_wf_of_calcOut (s : Segment) (h : CalcOut s) (hd : haveDaqmxObjects s.objects = .ok false)
    (hnd : (s.objects.map (·.path)).Nodup) (p : Bytes) : (layoutOf p s).WF := by
  obtain ⟨c, _, _, hcase⟩ := calcOut_cases s h
  unfold SegL.WF
  rcases hcase with ⟨hov, _⟩ | ⟨ov, hov, hc, hrem, hk, hcf⟩
  · simp [layoutOf, hov]
  · have hndd : ((s.objects.filter (·.hasData)).map (·.path)).Nodup :=
      hnd.sublist (List.Sublist.map _ List.filter_sublist)
    have hk' : 0 < (layoutOf p s).k := by
      show 0 < s.numChunks
      rw [hk]; exact Nat.lt_of_lt_of_le Nat.zero_lt_one (Nat.le_add_right _ _)
    have hf : (layoutOf p s).f = some (overrideGet ov p) := by simp [layoutOf, hov]
    rw [hf]
    simp only []
    refine ⟨?_, hk'⟩
    by_cases hcs : (layoutOf p s).cs = 0
    · -- `p` is not a data object with values: the override does not list it, or lists at most 0
      rw [hcs]
      by_cases hmem : p ∈ (dataObjs s).map (·.path)
      · obtain ⟨o, hod, hop⟩ := List.mem_map.mp hmem
        have ho : o ∈ s.objects := (List.mem_filter.mp hod).1
        have hdat : o.hasData = true := by simpa using (List.mem_filter.mp hod).2
        have hle := Tdms.Proofs.C06.final_length_le_std s c _ ov hd hndd
          (Nat.le_of_lt (Nat.mod_lt _ hc)) hcf o ho hdat
        rw [hop] at hle
        have hget : getSegmentObject s p = some o := by
          rw [getSegmentObject_eq_find s p hnd]
          cases hf' : s.objects.find? (·.path = p) with
          | none =>
            rw [List.find?_eq_none] at hf'
            exact absurd (by simpa using hop) (hf' o ho)
          | some o' =>
            have hm' := List.mem_of_find?_eq_some hf'
            have hp' : o'.path = p := by simpa using List.find?_some hf'
            have : o' = o := nodup_path_unique s.objects hnd hm' ho (hp'.trans hop.symm)
            rw [this]
        have : o.numberValues = 0 := by
          unfold layoutOf at hcs
          simp only [hget, hdat, if_true] at hcs
          exact hcs
        omega
      · rw [Tdms.Proofs.C06.overrideGet_of_not_mem ov p (fun hq => hmem (finalLengths_keys s c _ ov hd hcf p hq))]
        exact Nat.le_refl _
    · obtain ⟨o, hod, hop, hon⟩ := layout_cs_obj hcs
      have ho : o ∈ s.objects := (List.mem_filter.mp hod).1
      have hdat : o.hasData = true := by simpa using (List.mem_filter.mp hod).2
      have hle := Tdms.Proofs.C06.final_length_le_std s c _ ov hd hndd
        (Nat.le_of_lt (Nat.mod_lt _ hc)) hcf o ho hdat
      rw [hop, hon] at hle
      exact hle

end Tdms.Proofs.C03
