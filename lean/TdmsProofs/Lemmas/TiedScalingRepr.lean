import TdmsProofs.Lemmas.C13Lemmas
import Tdms.Generated.Code2

/-!
# Representation mapping between the scaling model (`Tdms/Model/Scaling.lean`) and the generated code
(`Tdms/Generated/Code2.lean`, translated from `nptdms/scaling.py`)

* inputs go model → Python: a model property list `ps : Props R` stands for the Python dict `pyProps ps`
  (`String` keys become character lists, `PV.nat n` the int `n`, `PV.num v` the float `v`, `PV.str s` the str `s`);
  a raw element `raw : RawElem R` for the `RawChannelDataChunk` `pyRaw raw`;
* results go Python → model: `absScaling i s` is the model scaling a Python scaling object `s` at index `i` of a
  `MultiScaling` stands for (`none` when an input source is not a non-negative int or a coefficient is a str: such
  an object has no model counterpart), `AbsMulti ms g` relates a `MultiScaling` to a model scale list;
* a model error `e` is the Python exception class `errName e`.
-/

namespace Tdms.Proofs.Tied2

open Tdms.Model.Scaling Tdms.Generated Tdms.Generated.Code2

/-- Python exception class of a model error -/
def errName : ScaleErr → Py.Exc
  | .keyError => "KeyError"
  | .valueError => "ValueError"
  | .indexError => "IndexError"
  | .invalidDaqmxInput => "Exception"
  | .noFuel => "RecursionError"

@[simp] theorem ok_bind {ε α β : Type} (a : α) (f : α → Except ε β) : (Except.ok a >>= f) = f a := rfl
@[simp] theorem error_bind {ε α β : Type} (e : ε) (f : α → Except ε β) : (Except.error e >>= f) = .error e := rfl
@[simp] theorem pure_eq_ok {ε α : Type} (a : α) : (pure a : Except ε α) = .ok a := rfl
@[simp] theorem throw_eq_error {ε α : Type} (e : ε) : (throw e : Except ε α) = .error e := rfl
@[simp] theorem map_ok {ε α β : Type} (f : α → β) (a : α) : f <$> (Except.ok a : Except ε α) = .ok (f a) := rfl
@[simp] theorem map_error {ε α β : Type} (f : α → β) (e : ε) : f <$> (Except.error e : Except ε α) = .error e := rfl

section Props
variable {R : Type}

def pyPV : PV R → Py.Val R
  | .num v => .num v
  | .nat n => .int (n : Int)
  | .str s => .str s.toList

/-- the Python `properties` dict of a model property list -/
def pyProps (ps : Props R) : Py.Dict (List Char) (Py.Val R) := ps.map fun kv => (kv.1.toList, pyPV kv.2)

theorem find_pyProps (ps : Props R) (k : String) :
    (pyProps ps).find? (fun kv => decide (kv.1 = k.toList)) =
      (ps.find? (·.1 = k)).map fun kv => (kv.1.toList, pyPV kv.2) := by
  unfold pyProps
  rw [List.find?_map]
  have : ((fun kv : List Char × Py.Val R => decide (kv.1 = k.toList)) ∘
      fun kv : String × PV R => (kv.1.toList, pyPV kv.2)) = (fun kv => decide (kv.1 = k)) := by
    funext kv; simp [String.toList_inj]
  rw [this]

/-- `properties[k]` -/
theorem getE_pyProps (ps : Props R) (k : String) :
    Py.Dict.getE (pyProps ps) k.toList =
      match ps.get k with
      | some v => .ok (pyPV v)
      | none => .error "KeyError" := by
  unfold Py.Dict.getE Props.get
  rw [find_pyProps]
  cases ps.find? (·.1 = k) <;> rfl

theorem getE_key (ps : Props R) (k : String) (l : List Char) (h : k.toList = l) :
    Py.Dict.getE (pyProps ps) l =
      match ps.get k with
      | some v => .ok (pyPV v)
      | none => .error "KeyError" := by
  subst h; exact getE_pyProps ps k

/-- `properties.get(k, d)` -/
theorem getD_key (ps : Props R) (k : String) (l : List Char) (d : Py.Val R) (h : k.toList = l) :
    Py.Dict.getD (pyProps ps) l d = ((ps.get k).map pyPV).getD d := by
  subst h
  unfold Py.Dict.getD Props.get
  rw [find_pyProps]
  cases ps.find? (·.1 = k) <;> rfl

/-- `k in properties` -/
theorem contains_key (ps : Props R) (k : String) (l : List Char) (h : k.toList = l) :
    Py.Dict.contains (pyProps ps) l = (ps.get k).isSome := by
  subst h
  unfold Py.Dict.contains Props.get
  rw [find_pyProps]
  cases ps.find? (·.1 = k) <;> rfl

theorem keys_pyProps (ps : Props R) : Py.Dict.keys (pyProps ps) = ps.map fun kv => kv.1.toList := by
  simp [Py.Dict.keys, pyProps]

theorem fmtD_natCast (i : Nat) : Py.fmtD (i : Int) = (toString i).toList := rfl

/-- `properties[k]` in terms of the model property list: the value, or KeyError -/
def getM (ps : Props R) (k : String) : Except Py.Exc (Py.Val R) :=
  match ps.get k with
  | some v => .ok (pyPV v)
  | none => .error "KeyError"

/-- `properties[k]` with `except KeyError: d` / `properties.get(k, d)` -/
def getMD (ps : Props R) (k : String) (d : Py.Val R) : Py.Val R := ((ps.get k).map pyPV).getD d

theorem getE_ofList (ps : Props R) (l : List Char) : Py.Dict.getE (pyProps ps) l = getM ps (String.ofList l) :=
  getE_key ps _ l (by simp)

theorem getD_ofList (ps : Props R) (l : List Char) (d : Py.Val R) :
    Py.Dict.getD (pyProps ps) l d = getMD ps (String.ofList l) d := getD_key ps _ l d (by simp)

theorem contains_ofList (ps : Props R) (l : List Char) :
    Py.Dict.contains (pyProps ps) l = (ps.get (String.ofList l)).isSome := contains_key ps _ l (by simp)

theorem ofList_fmtD (i : Int) : String.ofList (Py.fmtD i) = toString i := by
  unfold Py.fmtD; rw [String.ofList_toList]

theorem str_append (a b : String) : a ++ b = String.ofList (a.toList ++ b.toList) := by
  apply String.toList_inj.mp; simp [String.toList_append]

theorem fmtD_eq (j : Int) : Py.fmtD j = (toString j).toList := rfl

theorem toString_natCast (i : Nat) : toString ((i : Nat) : Int) = toString i := rfl

/-- `try: x = properties[k] except KeyError: x = d` -/
theorem tryCatch_getM (ps : Props R) (k : String) (d : Py.Val R) :
    Py.tryCatch (do let x ← getM ps k; pure x) "KeyError" (pure d) = .ok (getMD ps k d) := by
  unfold getM getMD Py.tryCatch
  cases ps.get k <;> rfl

theorem tryCatch_getM' (ps : Props R) (k : String) (d : Py.Val R) :
    Py.tryCatch (getM ps k) "KeyError" (pure d) = .ok (getMD ps k d) := by
  unfold getM getMD Py.tryCatch
  cases ps.get k <;> rfl

end Props

/-! ## Python scaling objects → model scalings -/

section Abs
variable {R : Type}

/-- an input source / scale id the model can represent: a non-negative int -/
def absSrc : Py.Val R → Option Nat
  | .int i => if 0 ≤ i then some i.toNat else none
  | _ => none

/-- a number (int or float) as the model's `R`; a str has no counterpart -/
def absNum [NatCast R] [Neg R] : Py.Val R → Option R
  | .int i => some (Py.Val.ofInt i)
  | .num v => some v
  | .str _ => none

def absNums [NatCast R] [Neg R] : List (Py.Val R) → Option (List R)
  | [] => some []
  | v :: vs =>
    match absNum v, absNums vs with
    | some x, some xs => some (x :: xs)
    | _, _ => none

/-- the model scaling a Python scaling object at index `i` of a `MultiScaling` stands for -/
def absScaling [NatCast R] [Neg R] (i : Nat) : Code2.Scaling R → Option (Tdms.Model.Scaling.Scaling R)
  | .NoOpScaling o => (absSrc o.input_source).map .noop
  | .LinearScaling o =>
    match absNum o.intercept, absNum o.slope, absSrc o.input_source with
    | some b, some m, some src => some (.linear b m src)
    | _, _, _ => none
  | .PolynomialScaling o =>
    match absNums o.coefficients, absSrc o.input_source with
    | some cs, some src => some (.polynomial cs src)
    | _, _ => none
  | .TableScaling o =>
    match absNums o.input_values, absNums o.output_values, absSrc o.input_source with
    | some xs, some ys, some src => some (.table xs ys src)
    | _, _, _ => none
  | .AddScaling o =>
    match absSrc o.left_input_source, absSrc o.right_input_source with
    | some l, some r => some (.add l r)
    | _, _ => none
  | .SubtractScaling o =>
    match absSrc o.left_input_source, absSrc o.right_input_source with
    | some l, some r => some (.subtract l r)
    | _, _ => none
  | .DaqMxScalerScaling o => if 0 ≤ o.scale_id then some (.daqmx o.scale_id.toNat) else none
  | .RtdScaling o => (absSrc o.input_source).map (.sensor i)
  | .StrainScaling o => (absSrc o.input_source).map (.sensor i)
  | .ThermistorScaling o => (absSrc o.input_source).map (.sensor i)
  | .ThermocoupleScaling o => (absSrc o.input_source).map (.sensor i)

/-- the Python list `scalings` (entries `None` or scaling objects) stands for the model scale list `g` -/
def AbsList [NatCast R] [Neg R] (sc : List (Option (Code2.Scaling R))) (g : List (Tdms.Model.Scaling.Scaling R)) : Prop :=
  sc.length = g.length ∧ ∀ j (hj : j < g.length), ∃ s, sc[j]? = some (some s) ∧ absScaling j s = some g[j]

@[simp] theorem ofInt_natCast [NatCast R] [Neg R] (n : Nat) : (Py.Val.ofInt ((n : Nat) : Int) : R) = (n : R) := rfl

@[simp] theorem absSrc_nat (n : Nat) : absSrc (Py.Val.int (n : Int) : Py.Val R) = some n := by
  simp [absSrc]

/-- a raw element as the one-element `RawChannelDataChunk` -/
def pyRaw (raw : RawElem R) : RawChannelDataChunk R :=
  ⟨raw.data, some (raw.scalers.map fun p => ((p.1 : Int), p.2))⟩

end Abs

/-- closes `k.toList = <character list of the generated code>` for keys built with `pfx i ++ "…"` -/
macro "key_tac" : tactic =>
  `(tactic| (simp [pfx, String.toList_append, fmtD_natCast]))

/-- rewrites the dict operations of the generated code on `pyProps ps` into `getM` / `getMD` on `String` keys in the
    normal form `String.ofList <characters>`; a following `simp` brings both sides to the same canonical form -/
macro "keys_simp" : tactic =>
  `(tactic| (simp only [getE_ofList, getD_ofList, contains_ofList, fmtD_eq, toString_natCast, pfx, str_append,
      String.toList_ofList, tryCatch_getM, tryCatch_getM']))

end Tdms.Proofs.Tied2
