/-
  Raw data, contiguous layout: a whole chunk (`readContiguousChunk` against `encChunkContiguous`).
  Core Lean only.
-/
import TdmsProofs.Lemmas.InterleavedLemmas

namespace Tdms.Proofs.Bytes

open Tdms Tdms.Generated Tdms.Model

/-- reader objects, encoder objects and values of one contiguous chunk agree -/
def contOK : List SegObj → List ActiveObj → List (List Bytes) → Prop
  | [], [], [] => True
  | o :: os, a :: as, v :: vs =>
    (o.dataType = some (aTy a) ∧ o.numberValues = v.length ∧
      ((∃ sz, typeSize (aTy a) = some sz ∧ ∀ x ∈ v, x.length = sz) ∨
       (aTy a = tyString ∧ v.flatten.length < 2 ^ 32))) ∧ contOK os as vs
  | _, _, _ => False

theorem encChunkContiguous_cons (e : Endian) (a : ActiveObj) (as : List ActiveObj) (v : List Bytes)
    (vs : List (List Bytes)) :
    encChunkContiguous e (a :: as) (v :: vs) =
      encObjValues e (aTy a) v ++ encChunkContiguous e as vs := rfl

theorem readContiguousChunk_enc (file : Bytes) (s : Segment) (ci : Nat) (hov : s.override = none)
    (objs : List SegObj) :
    ∀ (aobjs : List ActiveObj) (vals : List (List Bytes)) (acc : RawChunk) (pos : Nat)
      (tr : List (Nat × Nat)) (rest : Bytes), contOK objs aobjs vals →
      file.drop pos = encChunkContiguous s.endian aobjs vals ++ rest →
      ∃ tr', (readContiguousChunk file s ci objs acc).run ⟨pos, tr⟩ =
        .ok (setCols acc objs vals, ⟨pos + (encChunkContiguous s.endian aobjs vals).length, tr'⟩) := by
  induction objs with
  | nil =>
    intro aobjs vals acc pos tr rest h _
    cases aobjs <;> cases vals <;> simp [contOK] at h
    exact ⟨tr, rfl⟩
  | cons o os ih =>
    intro aobjs vals acc pos tr rest h hfile
    cases aobjs with
    | nil => cases vals <;> simp [contOK] at h
    | cons a as =>
      cases vals with
      | nil => simp [contOK] at h
      | cons v vs =>
        obtain ⟨⟨hty, hnv, hkind⟩, hrest⟩ := h
        rw [encChunkContiguous_cons, List.append_assoc] at hfile
        have hd := drop_add_of_drop_eq hfile
        have hcn : channelNumberValues s o ci = v.length := by simp [channelNumberValues, hov, hnv]
        have hstep : ∃ tr1, readValues file s.endian o v.length ⟨pos, tr⟩ =
            .ok (v, ⟨pos + (encObjValues s.endian (aTy a) v).length, tr1⟩) := by
          rcases hkind with ⟨sz, hsz, hall⟩ | ⟨hstr, hlen⟩
          · have hl := encObjValues_fixed_length s.endian hsz v hall
            have ht : (file.drop pos).take (v.length * sz) = encObjValues s.endian (aTy a) v := by
              rw [hfile, List.take_left' hl]
            exact ⟨_, by rw [hl]; exact readValues_fixed file s.endian o v pos tr hty hsz hall ht⟩
          · rw [hstr] at hty hfile ⊢
            exact readValues_string file s.endian o v pos tr _ hty hlen hfile
        obtain ⟨tr1, hstep⟩ := hstep
        obtain ⟨tr2, h2⟩ := ih as vs (dictSet acc o.path { data := some v })
          (pos + (encObjValues s.endian (aTy a) v).length) tr1 rest hrest hd
        refine ⟨tr2, ?_⟩
        show readContiguousChunk file s ci (o :: os) acc ⟨pos, tr⟩ = _
        unfold readContiguousChunk
        rw [hcn, F_bind_ok hstep]
        rw [show readContiguousChunk file s ci os (dictSet acc o.path { data := some v })
            ⟨pos + (encObjValues s.endian (aTy a) v).length, tr1⟩ = _ from h2]
        simp only [setCols, encChunkContiguous_cons, List.length_append, Nat.add_assoc]

end Tdms.Proofs.Bytes
