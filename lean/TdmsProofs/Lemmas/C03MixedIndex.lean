/-
  C03 (mixed files) — integer indexing on an open file that mixes contiguous and interleaved segments
  (`_read_at_index` with its one-chunk cache, `read_channel_chunk_for_index`) against the eager values.
  The proofs follow `Lemmas/C03Index.lean`; the chunk an interleaved segment returns for
  `num_chunks = 1` is the slice `[cs·q : cs·(q+1)]` of the eager column.  Core Lean only.
-/
import TdmsProofs.Lemmas.C03MixedWin
import TdmsProofs.Lemmas.C03Index

namespace Tdms.Proofs.C03

open Tdms Tdms.Generated Tdms.Model Tdms.Proofs.Bytes Tdms.Proofs.C04

/-! ## `read_channel_chunk_for_index` -/

/-- one chunk of either layout, read lazily with `num_chunks = 1` -/
theorem segReadChannel_one {file : Bytes} {s : Segment} (hso : SegWOk file s) (p : Bytes)
    (hcs : (layoutOf p s).cs ≠ 0) (hraw : hasFlag s.toc kTocRawData = true) (q : Nat) (hq : q < s.numChunks)
    (st : FState) :
    ∃ st', segReadChannel file s p q (some 1) st = .ok ([({ data := some (segWVals file s p q) } : ChanChunk)], st') := by
  rcases hso.data with hc | hi
  · obtain ⟨st', h⟩ := segReadChannel_exact file s (segCsz s) hc p q 1 (by simp; omega) st
    refine ⟨st', ?_⟩
    rw [h, segWVals_contig p hc]
    simp [lazySegChunks, hraw, (lazyChunk_vals (hso.toOk hc) p hcs q hq).1]
  · obtain ⟨st', h⟩ := segReadChannel_interW hso hi.toInterBase p hcs q 1 (by omega) (by simp; omega) st
    refine ⟨st', ?_⟩
    rw [h]
    unfold segWVals
    rw [hi.kind]
    simp [hraw, hcs]


/-- the chunk `read_channel_chunk_for_index(i)` returns carries `eager[off : off + len]`, and `i`
    lies inside it -/
theorem readChannelChunkForIndex_exactW (f : OpenFile) (p : Bytes) (m : ObjMeta)
    (hok : SegsWOk f.file f.segments) (hc : ChanOk f.objects f.segments p m) (i : Nat) (hi : i < m.numValues)
    (st : FState) :
    ∃ vs off st', readChannelChunkForIndex f p i st = .ok ((({ data := some vs } : ChanChunk), off), st') ∧
      off ≤ i ∧ i < off + vs.length ∧
      ∀ r, r < vs.length → (eagerW f.file f.segments p)[off + r]? = vs[r]? := by
  have hwf := hc.wf
  have hvals := valsOk_wVals f.file f.segments p hok hwf
  have spec := buildIndex_spec f.segments p
  rw [nvOf_eq f.segments p hwf] at spec
  have htot : m.numValues = ((f.segments.map (layoutOf p)).map SegL.nvals).sum := by rw [hc.num]; rfl
  generalize hnv : (f.segments.map (layoutOf p)).map SegL.nvals = nv at spec htot
  generalize hix : buildIndex f.segments p = ix at spec
  have fr : Frame nv ix (i : Int) ((i : Int) + 1) (ix.firstSegment + searchRight ix.offsets (i : Int))
      (ix.firstSegment + searchLeft ix.offsets ((i : Int) + 1)) :=
    frame_of_spec nv ix spec i (i + 1) (by omega) (by omega)
  generalize hS : ix.firstSegment + searchRight ix.offsets (i : Int) = sS at fr
  generalize hEn : ix.firstSegment + searchLeft ix.offsets ((i : Int) + 1) = sE at fr
  have hnvlen : nv.length = f.segments.length := by rw [← hnv]; simp
  have hSlt : sS < nv.length := by
    rcases Nat.lt_or_ge sS nv.length with h | h
    · exact h
    · have := fr.hA
      rw [psum_of_length_le nv sS h] at this
      omega
  have hSE : sS ≤ sE := by
    rcases Nat.lt_or_ge sE sS with h | h
    · have h1 := fr.hC
      have h2 := fr.hA
      have h3 := psum_mono nv (show sE + 1 ≤ sS by omega)
      omega
    · exact h
  have hA := fr.hA
  have hB := fr.hB hSE hSlt
  obtain ⟨hE1, _⟩ := fr.hE sS (Nat.le_refl _) hSE hSlt
  have hSseg : sS < f.segments.length := by omega
  have hs : f.segments[sS]? = some f.segments[sS] := List.getElem?_eq_getElem hSseg
  generalize f.segments[sS] = s at hs
  have hsmem : s ∈ f.segments := List.mem_of_getElem? hs
  have hso := hok s hsmem
  have hL : (f.segments.map (layoutOf p))[sS]? = some (layoutOf p s) := by rw [List.getElem?_map, hs]; rfl
  have hps := psum_succ nv sS hSlt
  have hnvS : nv[sS] = (layoutOf p s).nvals := by
    have : nv[sS]? = some (layoutOf p s).nvals := by rw [← hnv, List.getElem?_map, hL]; rfl
    rw [List.getElem?_eq_getElem hSlt] at this
    exact Option.some.inj this
  rw [hnvS] at hps
  have hlwf : (layoutOf p s).WF := hwf _ (List.mem_map_of_mem hsmem)
  have hnpos : 0 < (layoutOf p s).nvals := by omega
  have hcs : (layoutOf p s).cs ≠ 0 := by
    intro h0; unfold SegL.nvals at hnpos; rw [if_pos h0] at hnpos; omega
  obtain ⟨hnle, hkpos⟩ := nvals_le (layoutOf p s) hlwf (by omega)
  have hk := hkpos hnpos
  obtain ⟨o, hod, hop, hon⟩ := layout_cs_obj hcs
  -- what the model computes
  obtain ⟨o', hget, hon'⟩ : ∃ o', getSegmentObject s p = some o' ∧ o'.numberValues = (layoutOf p s).cs := by
    cases hg : getSegmentObject s p with
    | none => exfalso; apply hcs; unfold layoutOf; simp [hg]
    | some o' =>
      refine ⟨o', rfl, ?_⟩
      by_cases hd : o'.hasData = true
      · unfold layoutOf; simp [hg, hd]
      · exfalso; apply hcs; unfold layoutOf; simp [hg, hd]
  have hstart : (if sS = ix.firstSegment then 0 else ix.offsets.getD (sS - ix.firstSegment - 1) 0) = psum nv sS := by
    have := hE1
    unfold segStartOf at this
    split at this
    · rw [if_pos (by assumption)]; omega
    · rw [if_neg (by assumption)]; omega
  generalize hcsv : (layoutOf p s).cs = cs at *
  have hcspos : 0 < cs := by omega
  generalize hq : (i - psum nv sS) / cs = q
  have hqk : q < s.numChunks := by
    have hk' : (layoutOf p s).k = s.numChunks := rfl
    rw [← hq, ← hk']
    apply Nat.div_lt_of_lt_mul
    omega
  have hraw : hasFlag s.toc kTocRawData = true := by
    cases hr : hasFlag s.toc kTocRawData with
    | true => rfl
    | false => have := hso.noRaw hr; omega
  obtain ⟨st1, h1⟩ := verifySegmentStart_okF hso.toF st
  obtain ⟨st2, h2⟩ := segReadChannel_one hso p (by rw [hcsv]; omega) hraw q hqk st1
  have hlzlen := segWVals_length hso p hlwf q hqk
  have hdm := Nat.div_add_mod (i - psum nv sS) cs
  have hmod := Nat.mod_lt (i - psum nv sS) hcspos
  rw [hq] at hdm
  refine ⟨segWVals f.file s p q, psum nv sS + q * cs, st2, ?_, ?_, ?_, ?_⟩
  · unfold readChannelChunkForIndex
    simp only [hix, hS, hs, hget, hon', hstart]
    rw [if_neg (by omega)]
    rw [F_bind_ok h1, hq, F_bind_ok h2]
    rfl
  · have : q * cs ≤ i - psum nv sS := by rw [Nat.mul_comm]; omega
    omega
  · rw [hlzlen, chunkLen_eq]
    have hk' : (layoutOf p s).k = s.numChunks := rfl
    rw [hk']
    split
    · -- last chunk
      rename_i hlast
      have hN := nvals_eq (layoutOf p s) hlwf (by omega)
      rw [if_neg (by omega), hk', hcsv] at hN
      have : s.numChunks - 1 = q := by omega
      rw [this] at hN
      rw [Nat.mul_comm q cs]
      omega
    · rw [hcsv, Nat.mul_comm q cs]; omega
  · intro r hr
    have := full_at (f.segments.map (layoutOf p)) (wVals f.file f.segments p) hwf hvals sS (layoutOf p s) hL
      (by rw [hcsv]; omega) q hqk r (by simpa [wVals, hs] using hr)
    rw [hnv, hcsv] at this
    rw [← full_wVals f.file f.segments p hok hwf, Nat.mul_comm q cs, this]
    simp [wVals, hs]

/-! ## the one-chunk cache -/

theorem readAtIndexRest_eagerW (f : OpenFile) (p : Bytes) (m : ObjMeta)
    (hok : SegsWOk f.file f.segments) (hc : ChanOk f.objects f.segments p m)
    (cache : Option ChunkCache) (hcache : CacheOk? (eagerW f.file f.segments p) cache)
    (i : Nat) (hi : i < m.numValues) (st : FState) :
    ∃ v cache' st', readAtIndexRest f p cache i st = .ok ((v, cache'), st') ∧
      (eagerW f.file f.segments p)[i]? = some v ∧ CacheOk? (eagerW f.file f.segments p) cache' := by
  have hmiss : ∃ v cache' st', (do
        let (chunk, off) ← readChannelChunkForIndex f p i
        let vals := chunk.data.getD []
        match vals[i - off]? with
        | some v => pure (v, some (⟨off, off + vals.length, vals⟩ : ChunkCache))
        | none => throw Err.indexError : F (Bytes × Option ChunkCache)) st = .ok ((v, cache'), st') ∧
      (eagerW f.file f.segments p)[i]? = some v ∧ CacheOk? (eagerW f.file f.segments p) cache' := by
    obtain ⟨vs, off, st', hrun, h1, h2, h3⟩ := readChannelChunkForIndex_exactW f p m hok hc i hi st
    have hr : i - off < vs.length := by omega
    refine ⟨vs[i - off], some ⟨off, off + vs.length, vs⟩, st', ?_, ?_, ⟨rfl, h3⟩⟩
    · rw [F_bind_ok hrun]
      simp only [Option.getD_some, List.getElem?_eq_getElem hr]
      rfl
    · have := h3 (i - off) hr
      rw [show off + (i - off) = i by omega, List.getElem?_eq_getElem hr] at this
      exact this
  unfold readAtIndexRest
  cases cache with
  | none =>
    simp only []
    exact hmiss
  | some c =>
    simp only []
    by_cases hin : c.lo ≤ i ∧ i < c.hi
    · rw [if_pos hin]
      obtain ⟨h1, h2⟩ := hcache
      have hr : i - c.lo < c.vals.length := by omega
      refine ⟨c.vals.getD (i - c.lo) [], some c, st, rfl, ?_, ⟨h1, h2⟩⟩
      have := h2 (i - c.lo) hr
      rw [show c.lo + (i - c.lo) = i by omega] at this
      rw [this, List.getD_eq_getElem?_getD, List.getElem?_eq_getElem hr]
      rfl
    · rw [if_neg hin]
      exact hmiss

/-- **integer indexing** `channel[index]` for `-n ≤ index < n`, with the cache in any consistent
    state: returns `eager[index mod n]` and leaves a consistent cache -/
theorem channelReadAtIndex_eagerW (f : OpenFile) (p : Bytes) (m : ObjMeta)
    (hok : SegsWOk f.file f.segments) (hc : ChanOk f.objects f.segments p m)
    (cache : Option ChunkCache) (hcache : CacheOk? (eagerW f.file f.segments p) cache)
    (index : Int) (hidx : -(m.numValues : Int) ≤ index ∧ index < m.numValues) (st : FState) :
    ∃ v cache' st', (channelReadAtIndex f p cache index).run st = .ok ((v, cache'), st') ∧
      (eagerW f.file f.segments p)[(index % (m.numValues : Int)).toNat]? = some v ∧
      CacheOk? (eagerW f.file f.segments p) cache' := by
  have hnum : ((f.objects.get p).map (·.numValues)).getD 0 = m.numValues := by rw [hc.get]; rfl
  have hn : (m.numValues : Int) ≠ 0 := by omega
  have hlt : (index % (m.numValues : Int)).toNat < m.numValues := by
    have h1 := Int.emod_nonneg index hn
    have h2 := Int.emod_lt_of_pos index (show (0 : Int) < m.numValues by omega)
    omega
  obtain ⟨v, cache', st', hrun, hv, hc'⟩ := readAtIndexRest_eagerW f p m hok hc cache hcache _ hlt st
  refine ⟨v, cache', st', ?_, hv, hc'⟩
  show channelReadAtIndex f p cache index st = _
  rw [channelReadAtIndex_eq, hnum, indexRequest_in_range m.numValues index hidx]
  exact hrun

/-! ## reading every index in turn -/

theorem indexScan_eagerW (f : OpenFile) (p : Bytes) (m : ObjMeta)
    (hok : SegsWOk f.file f.segments) (hc : ChanOk f.objects f.segments p m) :
    ∀ (n i0 : Nat) (cache : Option ChunkCache), CacheOk? (eagerW f.file f.segments p) cache →
      i0 + n ≤ m.numValues → ∀ st, ∃ cache' st', (indexScan f p n i0 cache).run st
          = .ok ((((eagerW f.file f.segments p).drop i0).take n, cache'), st') ∧
        CacheOk? (eagerW f.file f.segments p) cache' := by
  intro n
  induction n with
  | zero => intro i0 cache hcache _ st; exact ⟨cache, st, by simp [indexScan, F_pure, StateT.run], hcache⟩
  | succ n ih =>
    intro i0 cache hcache hle st
    obtain ⟨v, c1, st1, h1, hv, hc1⟩ := channelReadAtIndex_eagerW f p m hok hc cache hcache (i0 : Int)
      (by omega) st
    have hmod : ((i0 : Int) % (m.numValues : Int)).toNat = i0 := by
      rw [Int.emod_eq_of_lt (by omega) (by omega)]; simp
    rw [hmod] at hv
    obtain ⟨c2, st2, h2, hc2⟩ := ih (i0 + 1) c1 hc1 (by omega) st1
    refine ⟨c2, st2, ?_, hc2⟩
    show indexScan f p (n + 1) i0 cache st = _
    unfold indexScan
    have h1' : channelReadAtIndex f p cache (i0 : Int) st = .ok ((v, c1), st1) := h1
    have h2' : indexScan f p n (i0 + 1) c1 st1 = _ := h2
    rw [F_bind_ok h1']
    simp only []
    rw [F_bind_ok h2']
    simp only [F_pure]
    have hlt : i0 < (eagerW f.file f.segments p).length := by
      rcases Nat.lt_or_ge i0 (eagerW f.file f.segments p).length with h | h
      · exact h
      · rw [List.getElem?_eq_none h] at hv; cases hv
    rw [List.getElem?_eq_getElem hlt] at hv
    rw [List.drop_eq_getElem_cons hlt, List.take_succ_cons]
    simp only [Option.some.injEq] at hv
    rw [hv]

end Tdms.Proofs.C03
