/-
  C06, the cut theorem for the GENERAL multi-segment class of `C01Multi.lean` / `C01Marker.lean` (object lists may
  change from segment to segment): definitions — geometry of the cut inside a segment laid out with an active list,
  the final chunk lengths, the `Segment` record of the cut segment — and `calculateChunks` on it.
  Core Lean only.
-/
import TdmsProofs.Lemmas.C01MarkerClass
import TdmsProofs.Lemmas.C06WholeMultiData

namespace Tdms.Proofs.C06Gen

open Tdms Tdms.Generated Tdms.Model Tdms.Proofs.C02 Tdms.Proofs.C01Multi Tdms.Proofs.C01Marker
open Tdms.Proofs.Bytes (canonProp contOK aTy)
open Tdms.Proofs.C06Whole (dataPosOf)

/-- the segment with the next-segment offset of its lead-in explicit (`false`) or the marker (`true`) -/
def setU (b : Bool) (s : SegEnc) : SegEnc := { s with lengthUnknown := b }

theorem setU_true (s : SegEnc) : setU true s = mark s := rfl
theorem setU_false (s : SegEnc) (h : s.lengthUnknown = false) : setU false s = s := by
  cases s; simp only [setU] at h ⊢; simp_all

/-- the segment with its first `q` chunks only -/
def takeChunks (s : SegEnc) (q : Nat) : SegEnc := { s with chunks := s.chunks.take q }

/-- complete chunks before byte `k` of the segment, and bytes of the chunk containing the cut -/
def cutQA (s : SegEnc) (a : List ActiveObj) (k : Nat) : Nat := (k - dataPosOf s) / chunkBytesA a
def cutRA (s : SegEnc) (a : List ActiveObj) (k : Nat) : Nat := (k - dataPosOf s) % chunkBytesA a

/-- some data object has a type without fixed width (a string) -/
def anyUnsized (a : List ActiveObj) : Bool :=
  ((a.map concObj).filter (·.hasData)).any fun o => (o.dataType.bind typeSize).isNone

/-- the `final_chunk_lengths_override` for a final chunk of `r` bytes: nothing when a string channel is present,
    the contiguous fit otherwise -/
def ovA (a : List ActiveObj) (r : Nat) : List (Bytes × Nat) :=
  if anyUnsized a then [] else contiguousFinalLengths (a.map concObj) r

/-- the `Segment` record of segment `s` (active list `a`) at byte `pos` of which `k` bytes are in the file;
    `b`: the lead-in carries the marker -/
def cutRec (pos : Nat) (s : SegEnc) (b : Bool) (a : List ActiveObj) (k : Nat) : Segment :=
  { position := pos, toc := tocMask s, nextSegmentPos := pos + k, dataPosition := pos + dataPosOf s,
    incomplete := b || decide (k < (encodeSeg s a).length), objects := a.map concObj,
    numChunks := cutQA s a k + (if cutRA s a k = 0 then 0 else 1),
    override := if cutRA s a k = 0 then none else some (ovA a (cutRA s a k)) }

/-! ## geometry -/

theorem encodeSeg_len (s : SegEnc) (a : List ActiveObj) (h : SegOK s a) :
    (encodeSeg s a).length = dataPosOf s + s.chunks.length * chunkBytesA a := by
  rw [encodeSeg_split s a, List.length_append, List.length_append, encLeadIn_length tagData s _ _ rfl,
    encRaw_length h]
  unfold dataPosOf
  omega

theorem cut_div_modA (s : SegEnc) (a : List ActiveObj) (k : Nat) (hk : dataPosOf s ≤ k) :
    k = dataPosOf s + (cutQA s a k * chunkBytesA a + cutRA s a k) := by
  have := Nat.div_add_mod (k - dataPosOf s) (chunkBytesA a)
  unfold cutQA cutRA
  rw [Nat.mul_comm] at this
  omega

theorem cutRA_pos_imp (s : SegEnc) (a : List ActiveObj) (h : SegOK s a) (k : Nat) (hk : dataPosOf s ≤ k)
    (hkL : k ≤ (encodeSeg s a).length) (hr : cutRA s a k ≠ 0) :
    0 < chunkBytesA a ∧ cutRA s a k < chunkBytesA a ∧ k < (encodeSeg s a).length ∧ cutQA s a k < s.chunks.length := by
  have hL := encodeSeg_len s a h
  have hc : 0 < chunkBytesA a := by
    apply Nat.pos_of_ne_zero
    intro h0
    apply hr
    unfold cutRA
    rw [h0, Nat.mod_zero]
    have := chunkBytes_zero_no_chunks h h0
    rw [this] at hL
    omega
  have hdm := cut_div_modA s a k hk
  have hrlt : cutRA s a k < chunkBytesA a := Nat.mod_lt _ hc
  have hq : cutQA s a k < s.chunks.length := by
    apply Nat.lt_of_mul_lt_mul_right (a := chunkBytesA a)
    have : cutQA s a k * chunkBytesA a < s.chunks.length * chunkBytesA a := by
      have : 0 < cutRA s a k := Nat.pos_of_ne_zero hr
      omega
    exact this
  refine ⟨hc, hrlt, ?_, hq⟩
  have : (cutQA s a k + 1) * chunkBytesA a ≤ s.chunks.length * chunkBytesA a := Nat.mul_le_mul_right _ hq
  rw [Nat.add_mul] at this
  omega

theorem cutQA_le (s : SegEnc) (a : List ActiveObj) (h : SegOK s a) (k : Nat) (hk : dataPosOf s ≤ k)
    (hkL : k ≤ (encodeSeg s a).length) : cutQA s a k ≤ s.chunks.length := by
  have hL := encodeSeg_len s a h
  by_cases h0 : chunkBytesA a = 0
  · unfold cutQA; rw [h0, Nat.div_zero]; omega
  · have hdm := cut_div_modA s a k hk
    have hc : 0 < chunkBytesA a := Nat.pos_of_ne_zero h0
    apply Nat.le_of_mul_le_mul_right (c := chunkBytesA a) _ hc
    omega

/-! ## the final chunk lengths -/

theorem dataObjs_idx_of_chunk (s : SegEnc) (a : List ActiveObj) (h : SegOK s a) (hne : s.chunks ≠ []) :
    ∀ x ∈ dataObjs a, ∃ ty n total, x.idx = some (.std ty n total) := by
  intro x hx
  cases hc : s.chunks with
  | nil => exact absurd hc hne
  | cons ch chs =>
    have hwf := h.chunks ch (by rw [hc]; exact List.mem_cons_self)
    have hnone := wfStdChunk_idx (dataObjs a) ch hwf x hx
    cases hi : x.idx with
    | none => exact absurd hi hnone
    | some d =>
      cases d with
      | std ty n total => exact ⟨ty, n, total, rfl⟩
      | daq dg ty n sc w =>
        exact absurd (h.good x (List.mem_filter.mp hx).1 _ hi) (by simp [GoodDesc])

/-- **`_compute_final_chunk_lengths` on a truncated segment of the class**: the contiguous fit, or nothing when a
    string channel is present -/
theorem computeFinal_conc (s : SegEnc) (a : List ActiveObj) (h : SegOK s a) (hne : s.chunks ≠ []) (seg : Segment)
    (hobjs : seg.objects = a.map concObj) (hint : hasFlag seg.toc kTocInterleavedData = false)
    (hinc : seg.incomplete = true) (c r : Nat) :
    computeFinalChunkLengths seg c r = .ok (ovA a r) := by
  have hd : haveDaqmxObjects seg.objects = .ok false := by rw [hobjs]; exact haveDaqmxObjects_conc a h.good
  have hfil : seg.objects.filter (·.hasData) = (dataObjs a).map concObj := by
    rw [hobjs]; exact filter_hasData_conc a
  have hidx := dataObjs_idx_of_chunk s a h hne
  have h1 : ((seg.objects.filter (·.hasData)).any (·.dataType.isNone)) = false := by
    rw [hfil, List.any_eq_false]
    intro o ho
    obtain ⟨x, hx, rfl⟩ := List.mem_map.mp ho
    obtain ⟨ty, n, total, hi⟩ := hidx x hx
    rw [concObj_dataType, hi]
    simp
  cases hs : anyUnsized a with
  | true =>
    have h2 : ((seg.objects.filter (·.hasData)).any fun o => (o.dataType.bind typeSize).isNone) = true := by
      rw [hobjs]; exact hs
    unfold computeFinalChunkLengths
    simp only [hd, bind, Except.bind, h1, h2]
    simp [ovA, hs, pure, Except.pure]
  | false =>
    have hall : Tdms.Proofs.C06.allSized seg.objects := by
      intro o ho hdat
      have hmem : o ∈ seg.objects.filter (·.hasData) := List.mem_filter.mpr ⟨ho, by simpa using hdat⟩
      unfold anyUnsized at hs
      rw [← hobjs, List.any_eq_false] at hs
      have h3 := hs o hmem
      have h4 : ¬ (o.dataType.isNone = true) := by
        rw [List.any_eq_false] at h1
        exact h1 o hmem
      cases hty : o.dataType with
      | none => rw [hty] at h4; simp at h4
      | some ty =>
        rw [hty] at h3
        cases hsz : typeSize ty with
        | none => simp [hsz] at h3
        | some sz => exact ⟨ty, sz, rfl, hsz⟩
    rw [Tdms.Proofs.C06.computeFinalChunkLengths_std seg c r hd hall]
    simp [hint, hinc, ovA, hs, hobjs]

/-- **`calculateChunks` on the cut segment** -/
theorem calculateChunks_cutA (pos : Nat) (s : SegEnc) (b : Bool) (a : List ActiveObj) (h : SegOK s a) (k : Nat)
    (hk : dataPosOf s ≤ k) (hkL : k ≤ (encodeSeg s a).length) :
    calculateChunks ⟨pos, tocMask s, pos + k, pos + dataPosOf s, b || decide (k < (encodeSeg s a).length),
        a.map concObj, 0, none⟩ = .ok (cutRec pos s b a k) := by
  have hc : chunkSize (a.map concObj) = .ok (chunkBytesA a) := chunkSize_conc a h.good
  have hdm := cut_div_modA s a k hk
  by_cases hr : cutRA s a k = 0
  · rw [C01Compose.calculateChunks_whole _ (chunkBytesA a) (cutQA s a k) hc
      (by show pos + k = pos + dataPosOf s + cutQA s a k * chunkBytesA a; omega)
      (by intro h0; unfold cutQA; rw [h0, Nat.div_zero])]
    simp [cutRec, hr]
  · obtain ⟨hc0, hrc, hlt, hq⟩ := cutRA_pos_imp s a h k hk hkL hr
    have hne : s.chunks ≠ [] := by
      intro h0; rw [h0] at hq; simp at hq
    have hov := computeFinal_conc s a h hne ⟨pos, tocMask s, pos + k, pos + dataPosOf s,
        b || decide (k < (encodeSeg s a).length), a.map concObj, 0, none⟩ rfl
      (by show hasFlag (tocMask s) kTocInterleavedData = false
          rw [Tdms.Proofs.Bytes.hasFlag_tocMask_interleaved, h.std.contiguous])
      (by show (b || decide (k < (encodeSeg s a).length)) = true; simp [hlt])
      (chunkBytesA a) (cutRA s a k)
    rw [Tdms.Proofs.C06.calculateChunks_truncated_ok _ (chunkBytesA a) (cutQA s a k) (cutRA s a k)
      (ovA a (cutRA s a k)) hc (by omega) hrc
      (by show pos + k = pos + dataPosOf s + (cutQA s a k * chunkBytesA a + cutRA s a k); omega) hov]
    simp [cutRec, hr]

end Tdms.Proofs.C06Gen
